#!/usr/bin/env python3
"""Run the checks against the seeded breaking changes kept in /verif/seeded/<name>/.

  tools/seeded.py [name …] [--tier quick|thorough]

For each seeded change: a scratch worktree of /repo's HEAD is created outside /repo and
/verif, patch.diff is applied, `VERIF_REPO=<worktree> ./check <property>` is run, the
worktree is removed. Prints one line per change: caught (exit 1 + VIOLATION line) / MISSED.
The result table is written to seeded/RESULTS.md."""
import json
import os
import subprocess
import sys
import tempfile

VERIF = os.path.dirname(os.path.dirname(os.path.abspath(__file__)))


def run(name, tier):
    d = os.path.join(VERIF, "seeded", name)
    meta = json.load(open(os.path.join(d, "meta.json")))
    prop = meta["property"]
    wt = tempfile.mkdtemp(prefix="seed-" + name + "-", dir="/tmp")
    os.rmdir(wt)
    try:
        subprocess.run(["git", "-C", "/repo", "worktree", "add", "-q", "--detach", wt, "HEAD"], check=True)
        r = subprocess.run(["git", "-C", wt, "apply", os.path.join(d, "patch.diff")], capture_output=True, text=True)
        if r.returncode != 0:
            return prop, "PATCH-DOES-NOT-APPLY", r.stderr.strip()[:200]
        env = dict(os.environ, VERIF_REPO=wt)
        p = subprocess.run([os.path.join(VERIF, "check"), prop, "--tier", tier], cwd=VERIF, env=env,
                           capture_output=True, text=True, timeout=3600)
        viol = [l for l in p.stdout.splitlines() if l.startswith("VIOLATION")]
        if p.returncode == 1 and viol:
            return prop, "caught", viol[0][:300]
        if p.returncode == 0:
            for other in meta.get("also_checks", []):
                q = subprocess.run([os.path.join(VERIF, "check"), other, "--tier", tier], cwd=VERIF, env=env,
                                   capture_output=True, text=True, timeout=3600)
                v2 = [l for l in q.stdout.splitlines() if l.startswith("VIOLATION")]
                if q.returncode == 1 and v2:
                    return prop, "caught-by-" + other, v2[0][:300]
            return prop, "MISSED", ""
        return prop, f"CHECK-ERROR({p.returncode})", (p.stderr or p.stdout)[-300:].replace("\n", " ")
    finally:
        subprocess.run(["git", "-C", "/repo", "worktree", "remove", "--force", wt], capture_output=True)
        # a run against another tree regenerates the fact files: restore the committed ones
        subprocess.run(["git", "-C", VERIF, "checkout", "--", "lean/Ecal/Gen"], capture_output=True)


def main():
    args = [a for a in sys.argv[1:] if not a.startswith("--")]
    tier = "quick"
    if "--tier" in sys.argv:
        tier = sys.argv[sys.argv.index("--tier") + 1]
        args = [a for a in args if a != tier]
    names = args or sorted(n for n in os.listdir(os.path.join(VERIF, "seeded"))
                           if os.path.exists(os.path.join(VERIF, "seeded", n, "meta.json")))
    rows = []
    for n in names:
        prop, verdict, detail = run(n, tier)
        print(f"{n:40s} {prop} {verdict} {detail}", flush=True)
        rows.append((n, prop, verdict, detail))
    if not args:
        with open(os.path.join(VERIF, "seeded", "RESULTS.md"), "w") as f:
            f.write(f"# Seeded changes vs. checks (tier {tier})\n\n| change | property | verdict | detail |\n|---|---|---|---|\n")
            for r in rows:
                f.write("| " + " | ".join(x.replace("|", "\\|") for x in r) + " |\n")


if __name__ == "__main__":
    main()
