#!/usr/bin/env python3
"""tools/confirm_mutant.py <out-dir e.g. /tmp/mut-C14-out/1> <seeded-name e.g. C14-1-memoised-expr>

Confirms a seeded breaking change independently, in a scratch worktree of /repo's HEAD:
  1. the demo passes on the unchanged tree, 2. the patch applies and builds, 3. the demo fails with
  it, 4. the unedited suite passes with it.  On success copies patch.diff, the demo and meta.json
  (plus what was run here) to /verif/seeded/<name>/."""
import glob
import json
import os
import re
import shutil
import subprocess
import sys
import tempfile

ENV = dict(os.environ, GOFLAGS="-mod=mod", GOPROXY="off", GOSUMDB="off")


def sh(cmd, cwd, timeout=1500):
    p = subprocess.run(cmd, cwd=cwd, env=ENV, shell=True, capture_output=True, text=True, timeout=timeout)
    return p.returncode, (p.stdout + p.stderr)


def main():
    out, name = sys.argv[1].rstrip("/"), sys.argv[2]
    meta = json.load(open(os.path.join(out, "meta.json")))
    text = json.dumps(meta)
    demos = [f for f in glob.glob(os.path.join(out, "*")) if not f.endswith(("patch.diff", "meta.json"))]
    wt = tempfile.mkdtemp(prefix="confirm-", dir="/tmp")
    os.rmdir(wt)
    log = []
    ok = False
    try:
        subprocess.run(["git", "-C", "/repo", "worktree", "add", "-q", "--detach", wt, "HEAD"], check=True)
        # place demos
        placed = []
        for d in demos:
            base = os.path.basename(d)
            if os.path.isdir(d):
                dest = os.path.join(wt, "zz_demo_" + base)
                shutil.copytree(d, dest)
                placed.append(dest)
                continue
            if base.endswith("_test.go"):
                pkg = re.search(r"^package\s+(\w+)", open(d).read(), re.M).group(1)
                m = re.search(r"([\w/]+)/" + re.escape(base), text)
                cand = None
                for mm in re.finditer(r"(?:to|into|in|at)\s+`?((?:[\w.-]+/)+)(?:" + re.escape(base) + r"|zz_\w+_test\.go)", text):
                    if os.path.isdir(os.path.join(wt, mm.group(1))):
                        cand = mm.group(1)
                        break
                if cand is None:
                    # search for a directory whose package name matches and which is touched
                    for f in meta.get("files_touched", []):
                        dd = os.path.dirname(f)
                        gos = glob.glob(os.path.join(wt, dd, "*.go"))
                        if gos and re.search(r"^package\s+" + pkg + r"(_test)?\b", open(gos[0]).read(), re.M):
                            cand = dd + "/"
                            break
                if cand is None:
                    for root, _, files in os.walk(wt):
                        gos = [f for f in files if f.endswith(".go") and not f.endswith("_test.go")]
                        if gos and re.search(r"^package\s+" + re.sub("_test$", "", pkg) + r"\b", open(os.path.join(root, gos[0])).read(), re.M):
                            cand = os.path.relpath(root, wt) + "/"
                            break
                if cand is None:
                    cand = pkg + "/"
                    os.makedirs(os.path.join(wt, cand), exist_ok=True)
                dest = os.path.join(wt, cand, base)
                shutil.copy(d, dest)
                placed.append(dest)
                log.append(f"demo {base} -> {cand}")
            else:
                dest = os.path.join(wt, base)
                shutil.copy(d, dest)
                placed.append(dest)
        # run commands: test files -> go test -run on their package
        cmds = []
        for pth in placed:
            if pth.endswith("_test.go"):
                tests = re.findall(r"^func (Test\w+)\(", open(pth).read(), re.M)
                pk = "./" + os.path.relpath(os.path.dirname(pth), wt)
                tags = ("-tags " + os.environ["CONFIRM_TAGS"] + " ") if os.environ.get("CONFIRM_TAGS") else ""
                cmds.append(f"go test {tags}-vet=off -count=1 -run '^({'|'.join(tests)})$' {pk}")
        if not cmds:
            rc = meta.get("demo_cmd") or meta.get("run")
            if rc:
                cmds.append(rc)
            else:
                print("cannot infer demo command; meta:", meta.get("demo"))
                return 2
        res = {}
        rebased = False
        rebased_diff = None
        for phase in ("without", "with"):
            if phase == "with":
                rc, o = sh(f"git apply {os.path.join(out, 'patch.diff')}", wt)
                if rc != 0:
                    # the tree moved on (hook lines, later fixes): try a 3-way merge of the patch
                    rc, o = sh(f"git apply --3way {os.path.join(out, 'patch.diff')}", wt)
                    if rc != 0:
                        print("PATCH DOES NOT APPLY on current HEAD (also not 3-way):", o)
                        return 1
                    rebased = True
                    log.append("patch applied with --3way on the current HEAD; patch.diff regenerated from the result")
                rc, o = sh("go build ./cli/... ./config/... ./engine/... ./interpreter/... ./parser/... ./scope/... ./stdlib/... ./util/...", wt)
                if rc != 0:
                    print("does not build:", o[-500:])
                    return 1
            if phase == "with" and rebased:
                # demo files are untracked; diff of tracked files only
                rebased_diff = subprocess.run(["git", "-C", wt, "diff", "HEAD"], capture_output=True, text=True).stdout
            allok = True
            for c in cmds:
                rc, o = sh(c, wt)
                log.append(f"[{phase}] {c} -> rc={rc} :: {' '.join(o.split())[-300:]}")
                allok = allok and rc == 0
            res[phase] = allok
        # suite with change (demos removed)
        for pth in placed:
            if os.path.isdir(pth):
                shutil.rmtree(pth)
            else:
                os.remove(pth)
                if not os.listdir(os.path.dirname(pth)):
                    os.rmdir(os.path.dirname(pth))
        suite_ok = True
        for k in range(2):
            rc, o = sh("go test -vet=off -count=1 ./... 2>&1 | grep -v 'no test files' | grep -v '^ok' ; true", wt)
            bad = [l for l in o.splitlines() if l.strip() and "examples/plugin" not in l and "main is undeclared" not in l]
            # cli/tool has tests that are flaky on the unchanged tree under load (TestHandleInput, TestPack*;
            # not in the stable baseline): ignore that package unless the patch touches cli/
            if not any(f.startswith("cli/") for f in meta.get("files_touched", [])):
                if any("cli/tool" in l for l in bad):
                    log.append("[suite] ignoring flaky cli/tool failure (patch does not touch cli/)")
                    bad = [l for l in bad if "ecal/cli/tool" in l and l.startswith(("ok", "?"))]
            log.append(f"[suite run {k+1} with change] non-ok lines: {bad[:5]}")
            suite_ok = suite_ok and not bad
        ok = res["without"] and not res["with"] and suite_ok
        print("\n".join(log))
        print(f"demo passes without change: {res['without']}; demo fails with change: {not res['with']}; suite passes with change: {suite_ok}")
        if ok:
            dst = os.path.join("/verif/seeded", name)
            os.makedirs(dst, exist_ok=True)
            shutil.copy(os.path.join(out, "patch.diff"), dst)
            if rebased_diff:
                open(os.path.join(dst, "patch.diff"), "w").write(rebased_diff)
            for d in demos:
                if os.path.isdir(d):
                    shutil.copytree(d, os.path.join(dst, os.path.basename(d)), dirs_exist_ok=True)
                else:
                    shutil.copy(d, dst)
            meta["confirmed_independently"] = {"at_repo_head": subprocess.run(["git", "-C", "/repo", "rev-parse", "--short", "HEAD"], capture_output=True, text=True).stdout.strip(), "ran": log}
            json.dump(meta, open(os.path.join(dst, "meta.json"), "w"), indent=1)
            print("KEPT as", dst)
        return 0 if ok else 1
    finally:
        subprocess.run(["git", "-C", "/repo", "worktree", "remove", "--force", wt], capture_output=True)


if __name__ == "__main__":
    sys.exit(main())
