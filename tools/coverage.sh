#!/bin/bash
# tools/coverage.sh [tier] — statement coverage of /repo reached by the correspondence runs of all checks.
# Builds every harness with -cover (VERIF_COVER=1), runs each check once, merges the counters and writes
# notes/coverage/<date>-func.txt (per function) and notes/coverage/SUMMARY.md (anchored files, uncovered functions).
# Coverage counters of a harness process that CRASHES are lost (none should on the unchanged tree).
set -e
cd "$(dirname "$0")/.."
TIER=${1:-quick}
COV=$PWD/.work/cov; rm -rf "$COV"; mkdir -p "$COV" notes/coverage
export VERIF_COVER=1 GOCOVERDIR=$COV GOFLAGS=-mod=mod GOPROXY=off GOSUMDB=off
for p in C01 C02 C03 C04 C05 C06 C07 C08 C09 C10 C11 C12 C13 C14 C15 C16 C17 C18 C19 C20; do
  mkdir -p "$COV/$p"; GOCOVERDIR=$COV/$p ./check $p --tier $TIER 2>&1 | tail -1
done
DIRS=$(ls -d $COV/C* | paste -sd, -)
go tool covdata func -i=$DIRS > notes/coverage/func-all.txt 2>/dev/null || true
for p in C01 C02 C03 C04 C05 C06 C07 C08 C09 C10 C11 C12 C13 C14 C15 C16 C17 C18 C19 C20; do
  go tool covdata func -i=$COV/$p > notes/coverage/func-$p.txt 2>/dev/null || true
done
python3 tools/coverage_summary.py > notes/coverage/SUMMARY.md
tail -30 notes/coverage/SUMMARY.md
