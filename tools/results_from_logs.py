#!/usr/bin/env python3
"""tools/results_from_logs.py <commit> <harmless log…> -- <seeded log…>: rebuild seeded/RESULTS.md and
harmless/RESULTS.md from the line output of tools/seeded.py / tools/harmless.py (used when a sweep ran split
over several snapshots, `vp run`)."""
import os, sys, json
V = os.path.dirname(os.path.dirname(os.path.abspath(__file__)))
commit = sys.argv[1]
args = sys.argv[2:]
k = args.index("--")
hl, sl = args[:k], args[k + 1:]
def rows(paths):
    out = []
    for p in paths:
        for l in open(p, errors="replace"):
            f = l.rstrip("\n").split(None, 3)
            if len(f) >= 3 and f[1].startswith("C") and len(f[1]) == 3:
                verdict, detail = f[2], (f[3] if len(f) > 3 else "").replace("|", "\\|")[:260]
                for kind in ("seeded", "harmless"):
                    m = os.path.join(V, kind, f[0], "meta.json")
                    if verdict.startswith("PATCH-DOES-NOT-APPLY") and os.path.exists(m):
                        st = json.load(open(m)).get("status", "")
                        if st.startswith("obsolete"):
                            verdict, detail = "obsolete", st
                out.append((f[0], f[1], verdict, detail))
    last = {}
    for r in out:          # a later log overrides an earlier one (re-runs after a correction)
        last[r[0]] = r
    return sorted(last.values())
def write(path, title, rs, good):
    rs = [r for r in rs]
    n = sum(1 for r in rs if r[2].startswith(good))
    obsolete = sum(1 for r in rs if r[2] == "obsolete")
    with open(path, "w") as f:
        f.write("# %s (tier quick)\n\nSweep of /verif commit %s against /repo HEAD %s, seed 1; %d of %d %s%s.\n\n" % (
            title, commit, os.popen("git -C /repo log --format=%h -1").read().strip(), n, len(rs) - obsolete, good,
            (" (%d obsolete: the edit is in /repo now)" % obsolete) if obsolete else ""))
        f.write("| change | property | verdict | detail |\n|---|---|---|---|\n")
        for r in rs:
            f.write("| %s | %s | %s | %s |\n" % r)
    print(path, n, "of", len(rs), good)
    for r in rs:
        if not r[2].startswith(good) and r[2] != "obsolete":
            print("  NOT", good, ":", r[0], r[2], r[3][:100])
write(os.path.join(V, "harmless", "RESULTS.md"), "Behaviour-preserving refactorings vs. checks", rows(hl), "silent")
write(os.path.join(V, "seeded", "RESULTS.md"), "Seeded changes vs. checks", rows(sl), "caught")
