#!/usr/bin/env python3
"""Summarise notes/coverage/func-*.txt: for every property, the functions of its anchored files and how much of
them the property's own correspondence run reaches (and all runs together)."""
import json, re, os
V = os.path.dirname(os.path.dirname(os.path.abspath(__file__)))
def load(path):
    d = {}
    if not os.path.exists(path): return d
    for l in open(path):
        m = re.match(r"github.com/krotik/ecal/(\S+?):(\d+):\s+(\S+)\s+([\d.]+)%", l)
        if m: d[(m.group(1), m.group(3))] = float(m.group(4))
    return d
allc = load(os.path.join(V, "notes/coverage/func-all.txt"))
print("# Statement coverage of /repo reached by the correspondence runs (quick tier)\n")
print("Measured with `tools/coverage.sh` (harness built with `go build -cover -coverpkg=github.com/krotik/ecal/...`).")
print("Per property: functions of the ANCHORED files that the property's own run covers < 60 %, with the coverage all 20 runs reach together in brackets.\n")
for l in open(os.path.join(V, "properties.jsonl")):
    p = json.loads(l); pid = p["id"]
    own = load(os.path.join(V, f"notes/coverage/func-{pid}.txt"))
    files = [f for f in p["anchors"]["files"]]
    rows = [(k, v) for k, v in own.items() if k[0] in files]
    if not rows:
        print(f"## {pid}\n(no data)\n"); continue
    tot = sum(v for _, v in rows) / len(rows)
    print(f"## {pid} — {len(rows)} functions in anchored files, mean function coverage by its own run {tot:.0f} %\n")
    low = sorted([(v, k) for k, v in rows if v < 60.0])
    for v, k in low[:40]:
        print(f"- {k[0]} `{k[1]}` {v:.0f} % (all runs: {allc.get(k, 0):.0f} %)")
    print()
