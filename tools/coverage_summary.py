#!/usr/bin/env python3
"""Summarise notes/coverage/func-*.txt.

Part 1: per property, how much of its ANCHORED files its own correspondence run reaches.
Part 2: the blind spots of the whole machinery: functions of /repo that all 20 runs together cover < 70 %
        (documentation strings, String() renderers and the interactive console excluded)."""
import json, re, os
V = os.path.dirname(os.path.dirname(os.path.abspath(__file__)))
NOISE = re.compile(r"(DocString|\.String|^String|stringIndent|UnitTest|Inst$|PosString)$")
def load(path):
    d = {}
    if not os.path.exists(path): return d
    for l in open(path):
        m = re.match(r"github.com/krotik/ecal/(\S+?):(\d+):\s+(\S+)\s+([\d.]+)%", l)
        if m: d[(m.group(1), m.group(3))] = float(m.group(4))
    return d
allc = load(os.path.join(V, "notes/coverage/func-all.txt"))
tot = [l for l in open(os.path.join(V, "notes/coverage/func-all.txt")) if l.startswith("total")]
print("# Statement coverage of /repo reached by the correspondence runs (quick tier)\n")
print("Measured with `tools/coverage.sh` (harness built with `go build -cover -coverpkg=github.com/krotik/ecal/...,verifharness/...`;")
print("the counters of all harness processes of a check are merged). Coverage is NOT what decides a property — it shows")
print("which code of the anchored files no generated case can reach, i.e. where a breaking change would be invisible to the")
print("correspondence (the theorems do not depend on it).\n")
if tot: print("All 20 runs together (ecal + harness statements): " + tot[0].split()[-1] + "\n")
print("## Per property: anchored files, own run\n")
print("| property | functions in anchored files | mean function coverage, own run | functions with 0 % in own run but ≥ 60 % in all runs (covered by another property's run) | functions < 60 % in all runs |")
print("|---|---|---|---|---|")
anch = {}
for l in open(os.path.join(V, "properties.jsonl")):
    p = json.loads(l); pid = p["id"]
    own = load(os.path.join(V, f"notes/coverage/func-{pid}.txt"))
    files = p["anchors"]["files"]
    rows = [(k, v) for k, v in own.items() if k[0] in files and not NOISE.search(k[1])]
    for k, _ in rows: anch.setdefault(k, []).append(pid)
    if not rows:
        print(f"| {pid} | (no data) | | | |"); continue
    mean = sum(v for _, v in rows) / len(rows)
    other = sum(1 for k, v in rows if v == 0 and allc.get(k, 0) >= 60)
    low = sum(1 for k, v in rows if allc.get(k, 0) < 60)
    print(f"| {pid} | {len(rows)} | {mean:.0f} % | {other} | {low} |")
print("\n## Blind spots: functions of anchored files that all runs together cover < 70 %\n")
rows = sorted((v, k) for k, v in allc.items() if k in anch and v < 70.0 and not NOISE.search(k[1]))
for v, k in rows:
    print(f"- {v:3.0f} %  {k[0]} `{k[1]}`  (anchored by {', '.join(anch[k])})")
print("\n## Functions outside every anchored file with < 30 % (for information)\n")
rows = sorted((v, k) for k, v in allc.items() if k not in anch and v < 30.0 and not NOISE.search(k[1]))
for v, k in rows:
    print(f"- {v:3.0f} %  {k[0]} `{k[1]}`")
