#!/usr/bin/env python3
"""Run the checks against behaviour-preserving refactorings kept in /verif/harmless/<name>/.

  tools/harmless.py [name …] [--tier quick|thorough]
  tools/harmless.py --import /tmp/hr-C01-out/2 C01-2      (copy patch.diff + meta.json into harmless/)

For each refactoring: scratch worktree of /repo's HEAD outside /repo and /verif, patch applied,
`go build`, then `VERIF_REPO=<worktree> ./check <property>`; the worktree is removed. A check
that exits 0 is "silent" (right); VIOLATION on such a tree is a false alarm (or the refactoring is
not harmless after all — look at the replay). Results: harmless/RESULTS.md."""
import json
import os
import shutil
import subprocess
import sys
import tempfile

VERIF = os.path.dirname(os.path.dirname(os.path.abspath(__file__)))
ENV = dict(os.environ, GOFLAGS="-mod=mod", GOPROXY="off", GOSUMDB="off")


def run(name, tier):
    d = os.path.join(VERIF, "harmless", name)
    meta = json.load(open(os.path.join(d, "meta.json")))
    prop = meta["property"]
    wt = tempfile.mkdtemp(prefix="hr-" + name + "-", dir="/tmp")
    os.rmdir(wt)
    try:
        subprocess.run(["git", "-C", "/repo", "worktree", "add", "-q", "--detach", wt, "HEAD"], check=True)
        r = subprocess.run(["git", "-C", wt, "apply", "--3way", os.path.join(d, "patch.diff")], capture_output=True, text=True)
        if r.returncode != 0:
            return prop, "PATCH-DOES-NOT-APPLY", r.stderr.strip()[:200]
        b = subprocess.run("go build ./cli/... ./config/... ./engine/... ./interpreter/... ./parser/... ./scope/... ./stdlib/... ./util/...",
                           shell=True, cwd=wt, env=ENV, capture_output=True, text=True)
        if b.returncode != 0:
            return prop, "DOES-NOT-BUILD", b.stderr[-200:]
        env = dict(os.environ, VERIF_REPO=wt)
        p = subprocess.run([os.path.join(VERIF, "check"), prop, "--tier", tier], cwd=VERIF, env=env,
                           capture_output=True, text=True, timeout=3600)
        viol = [l for l in p.stdout.splitlines() if l.startswith("VIOLATION")]
        if p.returncode == 0:
            return prop, "silent", ""
        if p.returncode == 1:
            return prop, "ALARM", (viol[0] if viol else "")[:300]
        return prop, f"CHECK-ERROR({p.returncode})", (p.stderr or p.stdout)[-300:].replace("\n", " ")
    finally:
        subprocess.run(["git", "-C", "/repo", "worktree", "remove", "--force", wt], capture_output=True)
        subprocess.run(["git", "-C", VERIF, "checkout", "--", "lean/Ecal/Gen"], capture_output=True)


def main():
    if len(sys.argv) > 1 and sys.argv[1] == "--import":
        src, name = sys.argv[2].rstrip("/"), sys.argv[3]
        dst = os.path.join(VERIF, "harmless", name)
        os.makedirs(dst, exist_ok=True)
        shutil.copy(os.path.join(src, "patch.diff"), dst)
        shutil.copy(os.path.join(src, "meta.json"), dst)
        print("imported", name)
        return
    args = [a for a in sys.argv[1:] if not a.startswith("--")]
    tier = "quick"
    if "--tier" in sys.argv:
        tier = sys.argv[sys.argv.index("--tier") + 1]
        args = [a for a in args if a != tier]
    names = args or sorted(n for n in os.listdir(os.path.join(VERIF, "harmless"))
                           if os.path.exists(os.path.join(VERIF, "harmless", n, "meta.json")))
    rows = []
    for n in names:
        prop, verdict, detail = run(n, tier)
        print(f"{n:20s} {prop} {verdict} {detail}", flush=True)
        rows.append((n, prop, verdict, detail))
    if not args:
        with open(os.path.join(VERIF, "harmless", "RESULTS.md"), "w") as f:
            f.write(f"# Behaviour-preserving refactorings vs. checks (tier {tier})\n\n| refactoring | property | verdict | detail |\n|---|---|---|---|\n")
            for r in rows:
                f.write("| " + " | ".join(x.replace("|", "\\|") for x in r) + " |\n")


if __name__ == "__main__":
    main()
