#!/usr/bin/env python3
"""Paste notes/asbuilt/Cxx.md into DESIGN.md section 0.1 (between the ASBUILT markers)."""
import os, re
V = os.path.dirname(os.path.dirname(os.path.abspath(__file__)))
p = os.path.join(V, "DESIGN.md")
s = open(p).read()
a, b = s.index("<!-- ASBUILT-BEGIN -->"), s.index("<!-- ASBUILT-END -->")
out = ["<!-- ASBUILT-BEGIN -->", ""]
for k in range(1, 21):
    pid = "C%02d" % k
    f = os.path.join(V, "notes", "asbuilt", pid + ".md")
    out.append("#### " + pid)
    out.append("")
    if os.path.exists(f):
        body = open(f).read().strip()
        body = re.sub(r"^#+ .*\n", "", body)          # drop the note's own heading, if any
        out.append(body)
    else:
        out.append("(no as-built note yet; see section 4 and props/%s.py META)" % pid)
    out.append("")
s = s[:a] + "\n".join(out) + s[b:]
open(p, "w").write(s)
print("pasted", sum(os.path.exists(os.path.join(V, "notes", "asbuilt", "C%02d.md" % k)) for k in range(1, 21)), "notes")
