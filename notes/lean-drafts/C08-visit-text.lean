/-!
DRAFT (not part of the lake library; round 5 ran out of time): the text-level theorem
  `visitF (ofExpr e) = renderP (annotW realBr e)`  on operator trees.
Finished and in the library: Lemmas/C08Text.lean — `trimLines_clean` (the per-line trimming of ppPostProcessing is the
identity on clean ASCII text) and `post_clean` (ppPostProcessing is the identity for a comment-free, non-indented node).
What is still needed, in this order:
 1. `visit_bin` / `visit_pre`: one unfolding step of `visitFQ` for a node with two / one children whose name is none of
    the special names — the probe below shows that `rw [visitFQ]; dsimp only [Node.children, Node.name, …];
    simp only [List.zipIdx, List.mapM_cons, List.mapM_nil, bind, Except.bind, pure, Except.pure, hL, hR]; split` reaches
    the template branch; then rewrite the key (`[some L, some R].length = 2`), `htm`, and use a fold lemma
    `List.foldlM f acc pieces = .ok (acc ++ piecesText ps pieces)` for pieces that only contain text and `.inr 1/2`.
 2. `Clean (piecesText …)` from clean children and per-template facts (literal pieces ASCII without newline, last piece a
    child) — decidable over the regenerated table.
 3. `bracketRule (ofExpr p) (ofExpr c) i = realBr p.head c.head i (chainPure …)` under `shapeOk = true`: needs
    `isProductChain (ofExpr c) b = chainPure realPowers realExc K b c` (induction on c; fuel 100000 ≥ depth as hypothesis).
 4. the induction on `e` (atoms: hypothesis that the atom nodes print to clean texts and are never parenthesised).
-/
import Ecal.Lemmas.C08Text
open Ecal.Lex Ecal.Print Ecal.Parse
def specials : List String := ["funccall", "sink", "statements", "try", "except", "list", "map", "identifier", "params", "if"]
-- probe: after these steps the goal is `match tmpl (if [some L, some R].length > 0 then … else name) with …`
-- theorem visit_bin_probe … := by
--   rw [visitFQ]
--   dsimp only [Node.children, Node.name, List.length_cons, List.length_nil]
--   simp only [List.zipIdx, List.mapM_cons, List.mapM_nil, bind, Except.bind, pure, Except.pure, hL, hR]
--   split
--   all_goals first | exact absurd rfl (hsp "funccall" (by simp [specials])) | … | skip
