/-!
DRAFT / PLAN (not part of the lake library): the text-level theorem
  `visitF (ofExpr e) = renderP (annotW realBr e)`  on operator trees.
Finished and in the library (Lemmas/C08Text.lean):
  round 5: `trimLines_clean`, `post_clean`;
  round 6: STEP 1 done — `foldlM_pieces`, `visit_bin`, `visit_pre` (one unfolding step of `visitFQ` per operator node);
           STEP 3 done for the general statement with the printer's own flag (`bnOfNode_ofExpr`, `bracketRule_ofExpr`)
           and, with the flag identified as `chainPure`, for a `times` parent (`chain_eq`, `bracketRule_times`);
           `ofExpr`, `spine`, `times_div_names`.
Still needed, in this order:
 2. `Clean (piecesText …)` from clean children and per-template facts (literal pieces ASCII without newline, last piece a
    child) — decidable over the regenerated table; then `post_clean` removes the `ppPostProcessing` in `visit_bin/pre`.
 3'. DONE in round 7: `flag_irrelevant`, `bracketRule_annotW` (bracketRule on nodes = annotW's decision for every parent).
 4. the induction on `e` (atoms: hypothesis that the atom nodes print to clean texts, are never parenthesised and look
    like identifiers to the rule = `hatom` of `bracketRule_ofExpr`; fuel ≥ depth).
-/
import Ecal.Lemmas.C08Text
open Ecal.Lex Ecal.Print Ecal.Parse
-- `specials` is now Ecal.C08.TX.specials in the library
-- probe: after these steps the goal is `match tmpl (if [some L, some R].length > 0 then … else name) with …`
-- theorem visit_bin_probe … := by
--   rw [visitFQ]
--   dsimp only [Node.children, Node.name, List.length_cons, List.length_nil]
--   simp only [List.zipIdx, List.mapM_cons, List.mapM_nil, bind, Except.bind, pure, Except.pure, hL, hR]
--   split
--   all_goals first | exact absurd rfl (hsp "funccall" (by simp [specials])) | … | skip
