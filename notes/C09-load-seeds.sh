#!/bin/bash
export GOFLAGS=-mod=mod GOPROXY=off GOSUMDB=off
for k in $(seq 1 48); do (timeout 3000 sh -c 'while :; do :; done' &); done
cd /tmp/vw-C09
for round in 1 2 3; do for sd in $(seq 1 20); do
  out=$(VERIF_SEED=$sd VERIF_REPO=/tmp/r-C09k timeout 1500 ./check C09 2>&1)
  echo "round $round seed $sd: $(echo "$out" | tail -1 | grep -o 'exit [0-9].*') $(echo "$out" | grep ^VIOLATION | head -2 | cut -c1-200 | tr '\n' ' ')"
  if echo "$out" | grep -q ^VIOLATION; then mkdir -p /tmp/c09-fail; cp replays/C09-*.json /tmp/c09-fail/ 2>/dev/null; rm -f replays/C09-*; fi
done; done
echo FINISHED
