#!/usr/bin/env python3
"""Ad hoc differential of the evaluator model against the real interpreter, outside ./check:
   python3 notes/evaldiff.py C04 [quick|thorough] [seed] [shards]
builds harness + driver, runs every generated case of the property's harness through both,
prints counts (agree / UNSUP = outside the model / different) and the first differences with
the decoded source. Uses only checklib pieces; VERIF_REPO selects the tree under test."""
import collections
import os
import sys
sys.path.insert(0, os.path.dirname(os.path.dirname(os.path.abspath(__file__))))
import checklib


def main():
    prop = sys.argv[1]
    tier = sys.argv[2] if len(sys.argv) > 2 else "quick"
    seed = int(sys.argv[3]) if len(sys.argv) > 3 else 1
    shards = int(sys.argv[4]) if len(sys.argv) > 4 else 12
    ctx = checklib.Ctx(prop, tier, seed)
    try:
        rc, out = checklib.sh(["lake", "build", "driver"], cwd=checklib.LEAN, timeout=3000)
        if rc != 0:
            print(out[-3000:])
            return 2
        binp = checklib.go_build(ctx)
        cases, gores, stats, infos = checklib.run_cases(ctx, binp, prop, shards=shards, budget_s=3000)
        model = checklib.run_driver(ctx, prop, cases, shards=shards)
        cnt = collections.Counter()
        unsup = collections.Counter()
        diffs = []
        for i in sorted(cases):
            g = gores.get(i, "MISSING")
            m = model.get(i, ("MISSING", {}))[0]
            cls = g.split(" ")[0]
            if m.startswith("UNSUP"):
                cnt["unsup"] += 1
                unsup[m] += 1
                if cls in ("PANIC", "CRASH"):
                    diffs.append(i)
            elif g == m:
                cnt["agree " + cls] += 1
            else:
                cnt["DIFF"] += 1
                diffs.append(i)
        # a HANG under load can be a time-out of the harness, not of the program: run such cases again, alone
        import subprocess
        confirmed = []
        for i in diffs:
            m = model.get(i, ("MISSING", {}))[0]
            g = gores.get(i, "MISSING")
            if g.split(" ")[0] in ("HANG", "CRASH") and not m.startswith("UNSUP"):
                try:
                    q = subprocess.run([binp, prop, "-one", cases[i]], stdout=subprocess.PIPE, stderr=subprocess.DEVNULL,
                                       text=True, timeout=60, env=checklib.GOENV)
                    g2 = (q.stdout.splitlines() or ["CRASH"])[0] if q.returncode in (0, 3, 4) else "CRASH (alone)"
                except subprocess.TimeoutExpired:
                    g2 = "HANG (alone, 60 s)"
                if g2 == m:
                    cnt["DIFF"] -= 1
                    cnt["agree when run alone"] += 1
                    continue
                gores[i] = g + "  [alone: " + g2[:60] + "]"
            confirmed.append(i)
        diffs = confirmed
        print("cases", len(cases), dict(cnt))
        print("crashes", sum(len(x["crashes"]) for x in infos.values()), "restarts", sum(x["restarts"] for x in infos.values()))
        for k, v in unsup.most_common(12):
            print("  ", v, k)
        diffs.sort(key=lambda i: len(cases[i]))
        for i in diffs[:int(os.environ.get("NDIFF", "6"))]:
            src = cases[i].split(" ")[0]
            print("---- case", i)
            print(bytes.fromhex(src).decode("utf8", "replace") if src != "-" else "")
            print("go   :", gores.get(i))
            print("model:", model.get(i, ("MISSING", {}))[0])
        return 1 if diffs else 0
    finally:
        ctx.cleanup()


if __name__ == "__main__":
    sys.exit(main())
