import Leantest.Pratt
namespace Pratt

variable (bp : Nat → Nat)

/-- body without outer parens / printing at context m -/
def pr : Expr → Nat → List Tok
  | Expr.atom n, _ => [Tok.atom n]
  | Expr.bin k l r, m =>
    let body := pr l (bp k - 1) ++ (Tok.op k :: pr r (bp k))
    if m < bp k then body else Tok.lp :: (body ++ [Tok.rp])

mutual
inductive Run : Nat → List Tok → Expr → List Tok → Prop
  | atom {m n ts e rest} : Loop m (Expr.atom n) ts e rest → Run m (Tok.atom n :: ts) e rest
  | paren {m ts e1 ts' e rest} : Run 0 ts e1 (Tok.rp :: ts') → Loop m e1 ts' e rest →
      Run m (Tok.lp :: ts) e rest
inductive Loop : Nat → Expr → List Tok → Expr → List Tok → Prop
  | stop {m left ts} : ¬ (m < lbp bp ts) → Loop m left ts left ts
  | op {m k left ts r ts' e rest} : m < bp k → Run (bp k) ts r ts' →
      Loop m (Expr.bin k left r) ts' e rest → Loop m left (Tok.op k :: ts) e rest
end

theorem lbp_op (k : Nat) (ts : List Tok) : lbp bp (Tok.op k :: ts) = bp k := rfl
theorem lbp_rp (ts : List Tok) : lbp bp (Tok.rp :: ts) = 0 := rfl

theorem G (hpos : ∀ k, 0 < bp k) : ∀ (e : Expr) (m m' : Nat) (rest : List Tok) (e' : Expr) (r' : List Tok),
    m ≤ m' → lbp bp rest ≤ m' + 1 → Loop bp m e rest e' r' → Run bp m (pr bp e m' ++ rest) e' r' := by
  intro e
  induction e with
  | atom n =>
    intro m m' rest e' r' _ _ hl
    simp only [pr, List.cons_append, List.nil_append]
    exact Run.atom hl
  | bin k l r ihl ihr =>
    -- body lemma
    have body : ∀ (m : Nat) (rest : List Tok) (e' : Expr) (r' : List Tok), m < bp k → lbp bp rest ≤ bp k →
        Loop bp m (Expr.bin k l r) rest e' r' →
        Run bp m ((pr bp l (bp k - 1) ++ (Tok.op k :: pr bp r (bp k))) ++ rest) e' r' := by
      intro m rest e' r' hm hrest hl
      rw [List.append_assoc]
      apply ihl m (bp k - 1) _ e' r' (by omega) (by simp [lbp]; omega)
      simp only [List.cons_append]
      apply Loop.op hm (r := r) (ts' := rest)
      · apply ihr (bp k) (bp k) rest r rest (Nat.le_refl _) (by omega)
        exact Loop.stop (by omega)
      · exact hl
    intro m m' rest e' r' hmm hrest hl
    simp only [pr]
    split
    · exact body m rest e' r' (by omega) (by omega) hl
    · simp only [List.cons_append, List.append_assoc, List.nil_append]
      apply Run.paren (e1 := Expr.bin k l r) (ts' := rest)
      · have := body 0 (Tok.rp :: rest) (Expr.bin k l r) (Tok.rp :: rest) (hpos k) (by simp [lbp])
          (Loop.stop (by simp [lbp]))
        simpa [List.append_assoc] using this
      · exact hl

theorem parse_print (hpos : ∀ k, 0 < bp k) (e : Expr) : Run bp 0 (pr bp e 0) e [] := by
  have := G bp hpos e 0 0 [] e [] (Nat.le_refl _) (by simp [lbp]) (Loop.stop (by simp [lbp]))
  simpa using this

end Pratt
