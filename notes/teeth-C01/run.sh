#!/bin/bash
# usage: run.sh <tag> [tier]
export GOFLAGS=-mod=mod GOPROXY=off GOSUMDB=off
tag=$1; tier=${2:-quick}
R=/tmp/r-C01-$tag
V=/tmp/vw-C01-teeth
git -C /repo worktree remove --force $R 2>/dev/null
git -C /repo worktree add -q --detach $R HEAD || exit 9
case $tag in
  revert-*) sha=${tag#revert-}; git -C $R revert --no-commit $sha || { echo REVERT-CONFLICT; git -C $R status --short; } ;;
  *) python3 /tmp/teeth-C01/mutate.py $tag $R || exit 9 ;;
esac
(cd $R && go build ./engine/ ) || { echo "DOES NOT COMPILE"; exit 9; }
cd $V && VERIF_REPO=$R timeout 1500 ./check C01 --tier $tier > /tmp/teeth-C01/$tag.$tier.log 2>&1
echo "tag=$tag tier=$tier exit=$?" | tee -a /tmp/teeth-C01/summary.txt
grep VIOLATION /tmp/teeth-C01/$tag.$tier.log | head -3
first=$(grep -m1 -o 'replay=[^ ]*' /tmp/teeth-C01/$tag.$tier.log | cut -d= -f2)
if [ -n "$first" ]; then mkdir -p /tmp/teeth-C01/findings; cp $V/$first /tmp/teeth-C01/findings/C01-$tag.json; fi
git -C /repo worktree remove --force $R; git -C /repo worktree prune
