#!/bin/bash
export GOFLAGS=-mod=mod GOPROXY=off GOSUMDB=off
tag=$1; R=/tmp/r-C01-$tag
git -C /repo worktree remove --force $R 2>/dev/null
git -C /repo worktree add -q --detach $R HEAD || exit 9
python3 - $tag $R <<'PY'
import sys
tag, root = sys.argv[1], sys.argv[2]
def rep(path, a, b):
    p = root + "/" + path; s = open(p).read(); assert a in s, (tag, a); open(p, "w").write(s.replace(a, b, 1))
if tag == "m2-addrule-keeps-cache":
    rep("engine/processor.go", """	p.triggeringCacheLock.Lock()
	p.triggeringCache = nil
	p.triggeringCacheLock.Unlock()

	return p.ruleIndex.AddRule(rule)""", """	return p.ruleIndex.AddRule(rule)""")
elif tag == "child-scope-default":
    rep("engine/monitor.go", """func (mb *monitorBase) Scope() *RuleScope {
	return mb.rootMonitor.ruleScope""", """func (mb *monitorBase) Scope() *RuleScope {
	if mb.Parent != nil {
		return NewRuleScope(map[string]bool{"": true})
	}
	return mb.rootMonitor.ruleScope""")
elif tag == "ignore-fail-flag":
    rep("engine/processor.go", "if p.failOnFirstError && len(errors) > 0 {", "if p.failOnFirstError && len(errors) > 99 {")
elif tag == "always-fail-first":
    rep("engine/processor.go", "if p.failOnFirstError && len(errors) > 0 {", "if len(errors) > 0 {")
elif tag == "reset-keeps-cache":
    rep("engine/processor.go", """	p.triggeringCacheLock.Lock()
	p.triggeringCache = nil
	p.triggeringCacheLock.Unlock()

	// Create a new rule index""", """	// Create a new rule index""")
elif tag == "harmless-precheck-precise":
    # a more precise pre-check: skip when Match is empty (allowed by the property)
    rep("engine/processor.go", """		res = p.ruleIndex.IsTriggering(event)
		p.triggeringCache[kind] = res""", """		res = p.ruleIndex.IsTriggering(event)
		p.triggeringCache[kind] = res
		if res && len(p.ruleIndex.Match(event)) == 0 {
			return false
		}""")
elif tag == "harmless-match-dedupe":
    rep("engine/rule.go", """func (ri *RuleIndexKind) Match(event *Event) []*Rule {
	return ri.matchAtLevel(event, 0)""", """func (ri *RuleIndexKind) Match(event *Event) []*Rule {
	var ret []*Rule
	seen := map[string]bool{}
	for _, r := range ri.matchAtLevel(event, 0) {
		if !seen[r.Name] {
			seen[r.Name] = true
			ret = append(ret, r)
		}
	}
	return ret""")
else:
    raise SystemExit("unknown " + tag)
PY
[ $? -eq 0 ] || exit 9
(cd $R && go build ./engine/ ./interpreter/) || { echo "DOES NOT COMPILE $tag"; exit 9; }
cd /tmp/vw-C01 && VERIF_REPO=$R timeout 1500 ./check C01 > /tmp/teeth2/$tag.log 2>&1
echo "tag=$tag exit=$? $(grep -m1 VIOLATION /tmp/teeth2/$tag.log | cut -c1-230)"
git -C /repo worktree remove --force $R; git -C /repo worktree prune
