import sys, re
tag, root = sys.argv[1], sys.argv[2]
def edit(path, f):
    p = root + "/" + path
    s = open(p).read(); t = f(s)
    assert s != t, "mutation did not apply: " + tag
    open(p, "w").write(t)
def rep(a, b, count=1):
    def f(s):
        assert a in s, "pattern missing: " + a
        return s.replace(a, b, count)
    return f
if tag == "mut-star-zero":
    edit("engine/rule.go", rep("""	if len(event.kind) <= level {
		return nil
	}

	var ret []*Rule
""", """	if len(event.kind) == level {
		var r0 []*Rule
		for _, index := range ri.kindAllMatch {
			r0 = append(r0, index.matchAtLevel(event, level)...)
		}
		return r0
	}
	if len(event.kind) <= level {
		return nil
	}

	var ret []*Rule
"""))
    edit("engine/rule.go", rep("""	if len(event.kind) <= level {
		return false
	}
""", """	if len(event.kind) == level {
		for _, index := range ri.kindAllMatch {
			if index.isTriggeringAtLevel(event, level) {
				return true
			}
		}
	}
	if len(event.kind) <= level {
		return false
	}
"""))
elif tag == "mut-missing-key":
    edit("engine/rule.go", rep("matchBits = matcher.unmatch(matchBits)", "_ = matcher.unmatch(matchBits)"))
elif tag == "mut-no-suppress":
    edit("engine/processor.go", rep("if _, ok := suppressedRules[ruleTriggers.Name]; ok {", "if _, ok := suppressedRules[ruleTriggers.Name]; ok && len(rulesTriggering) < 0 {"))
elif tag == "mut-scope-any-prefix":
    edit("engine/util.go", rep("""		scopeDefs = val.(map[string]interface{})

		if a, ok := scopeDefs[ruleScopeAllowFlag]; ok {
			allowed = a.(bool)
		}""", """		scopeDefs = val.(map[string]interface{})

		if a, ok := scopeDefs[ruleScopeAllowFlag]; ok {
			allowed = allowed || a.(bool)
		}"""))
elif tag == "mut-cache-name":
    edit("engine/processor.go", rep('kind := fmt.Sprintf("%q", event.Kind())', 'kind := event.Name()'))
elif tag == "mut-dedupe":
    edit("engine/processor.go", rep("""		if seenCandidates[ruleCandidate.Name] {
			continue
		}""", """		if seenCandidates[ruleCandidate.Name] && len(ruleCandidates) < 0 {
			continue
		}"""))
elif tag == "mut-cache-v":
    edit("engine/processor.go", rep('kind := fmt.Sprintf("%q", event.Kind())', 'kind := fmt.Sprintf("%v", event.Kind())'))
elif tag == "mut-capacity-64":
    edit("engine/rule.go", rep("const ruleIndexStateCapacity = 63", "const ruleIndexStateCapacity = 64"))
elif tag == "harmless-1":
    def f(s):
        s = s.replace("""	levelKind := event.kind[level]
	nextLevel := level + 1

	// Check rules targeting all events

	for _, index := range ri.kindAllMatch {
		ret = append(ret, index.matchAtLevel(event, nextLevel)...)
	}

	// Check rules targeting specific events

	if ruleSubIndexList, ok := ri.kindSingleMatch[levelKind]; ok {
		for _, index := range ruleSubIndexList {
			ret = append(ret, index.matchAtLevel(event, nextLevel)...)
		}
	}""", """	lk := event.kind[level]
	nl := level + 1

	for i := 0; i < len(ri.kindAllMatch); i++ {
		ret = append(ret, ri.kindAllMatch[i].matchAtLevel(event, nl)...)
	}

	if subs, found := ri.kindSingleMatch[lk]; found {
		for _, sub := range subs {
			ret = append(ret, sub.matchAtLevel(event, nl)...)
		}
	}""")
        s = s.replace("""type RuleIndexAll struct {
	id    uint64  // Id of this rule index
	rules []*Rule // Rules with target all events of a specific category
}""", """type RuleIndexAll struct {
	rules []*Rule // Rules with target all events of a specific category
	id    uint64  // Id of this rule index
}""")
        s = s.replace("return &RuleIndexAll{newRuleIndexID(), make([]*Rule, 0)}", "return &RuleIndexAll{make([]*Rule, 0), newRuleIndexID()}")
        s = s.replace("""	bits        uint64
	bitsAny     uint64
	bitsValue   map[interface{}]uint64""", """	bitsAny     uint64
	bits        uint64
	bitsValue   map[interface{}]uint64""")
        s = s.replace("keyMatcher = &RuleMatcherKey{0, 0, make(map[interface{}]uint64), make(map[uint64]*regexp.Regexp), nil}",
                      "keyMatcher = &RuleMatcherKey{bits: 0, bitsAny: 0, bitsValue: make(map[interface{}]uint64), bitsRegexes: make(map[uint64]*regexp.Regexp)}")
        return s
    edit("engine/rule.go", f)
elif tag == "harmless-2":
    def f(s):
        s = s.replace("	seenCandidates := make(map[string]bool)\n", "	var seenNames []string\n")
        s = s.replace("""		if seenCandidates[ruleCandidate.Name] {
			continue
		}
		seenCandidates[ruleCandidate.Name] = true
""", """		dup := false
		for _, sn := range seenNames {
			if sn == ruleCandidate.Name {
				dup = true
			}
		}
		if dup {
			continue
		}
		seenNames = append(seenNames, ruleCandidate.Name)
""")
        return s
    edit("engine/processor.go", f)
    edit("engine/util.go", rep("""	for _, scopeStep := range strings.Split(scopePath, ".") {
		val, ok := scopeDefs[scopeStep]

		if !ok {
			break
		}""", """	steps := strings.Split(scopePath, ".")
	for si := 0; si < len(steps); si++ {
		val, ok := scopeDefs[steps[si]]

		if !ok {
			break
		}"""))
else:
    raise SystemExit("unknown tag " + tag)
print("mutated", tag)
