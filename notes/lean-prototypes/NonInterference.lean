/-!
Prototype for C11 / C13: threads that read a shared part but write only their own local
state cannot influence each other, for any number of threads and any schedule; a single
unprotected shared write destroys that (witness).
-/
namespace Ni

variable {G L : Type}          -- shared part (grammar table, rule, statements …) and per-thread state

/-- one step of a thread: reads the shared part, changes only its own state -/
structure Sys (G L : Type) where
  stepT : G → L → L

structure State (G L : Type) where
  shared : G
  locals : Nat → L

def run (sys : Sys G L) (s : State G L) : List Nat → State G L
  | [] => s
  | t :: sched =>
    run sys { s with locals := fun x => if x = t then sys.stepT s.shared (s.locals t) else s.locals x } sched

/-- how often thread `t` is scheduled -/
def steps (t : Nat) (sched : List Nat) : Nat := sched.count t

def iter (f : L → L) : Nat → L → L
  | 0, l => l
  | n+1, l => iter f n (f l)

/-- C11/C13 core: in every interleaving every thread ends exactly where it would end
    running alone for the same number of its own steps; the shared part is unchanged -/
theorem isolation (sys : Sys G L) (s : State G L) (sched : List Nat) :
    (run sys s sched).shared = s.shared ∧
    ∀ t, (run sys s sched).locals t = iter (sys.stepT s.shared) (steps t sched) (s.locals t) := by
  induction sched generalizing s with
  | nil => simp [run, steps, iter]
  | cons u sched ih =>
    simp only [run]
    obtain ⟨h1, h2⟩ := ih { s with locals := fun x => if x = u then sys.stepT s.shared (s.locals u) else s.locals x }
    refine ⟨h1, ?_⟩
    intro t
    rw [h2 t]
    by_cases htu : t = u
    · subst htu; simp [steps, iter]
    · have : ¬ u = t := fun h => htu h.symm
      simp [steps, htu, this, List.count_cons]

/-! With a shared write the result of a thread depends on the schedule.  Tiny instance of
    today's parser: the shared table says how `{` is read; an `if`-parse flips it while it
    parses its guard; a literal-parse just reads it. -/
inductive Brace | mapLit | block deriving DecidableEq, Repr

structure Loc where
  pc  : Nat
  out : Option Brace     -- what the thread saw when it looked up `{`
  deriving DecidableEq, Repr

/-- thread 0 = `if` parse: pc0 set table to block, pc1 restore; thread 1 = map literal: pc0 read table -/
def stepShared (tid : Nat) (g : Brace) (l : Loc) : Brace × Loc :=
  if tid = 0 then
    if l.pc = 0 then (Brace.block, { l with pc := 1 }) else if l.pc = 1 then (Brace.mapLit, { l with pc := 2 }) else (g, l)
  else
    if l.pc = 0 then (g, { pc := 1, out := some g }) else (g, l)

def runShared (g : Brace) (locals : Nat → Loc) : List Nat → Brace × (Nat → Loc)
  | [] => (g, locals)
  | t :: sched =>
    let (g', l') := stepShared t g (locals t)
    runShared g' (fun x => if x = t then l' else locals x) sched

/-- same program, two schedules, different result for the literal-parsing thread -/
theorem table_rewrite_interferes :
    ((runShared Brace.mapLit (fun _ => { pc := 0, out := none }) [1, 0, 0]).2 1).out = some Brace.mapLit ∧
    ((runShared Brace.mapLit (fun _ => { pc := 0, out := none }) [0, 1, 0]).2 1).out = some Brace.block := by
  constructor <;> decide

#print axioms isolation
end Ni
