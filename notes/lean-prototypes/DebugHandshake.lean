/-!
Prototype for C15 (resumability): the suspend / continue handshake of one debugged thread.
`Repaired`: the thread waits on the predicate `running` under the condition's lock and the
controller sets `running` under that lock.  `Pristine`: the code as it is today
(flag cleared, then Lock; Wait; the controller sets the flag and broadcasts).
-/
namespace Hs

inductive Pc where
  | exec          -- executing ECAL code
  | marked        -- running=false published (reported as suspended), not yet waiting
  | parked        -- blocked in cond.Wait
  | woken         -- signalled, about to re-check / return
  deriving DecidableEq, Repr

structure State where
  pc      : Pc
  running : Bool
  deriving DecidableEq, Repr

inductive Event where
  | suspend      -- thread: reaches a breakpoint, publishes running=false
  | wait         -- thread: Lock; (repaired: check predicate;) Wait
  | continue_    -- controller: Continue addressed to the thread (only if reported suspended)
  | wake         -- thread: returns from Wait
  deriving DecidableEq, Repr
open Pc Event

namespace Repaired
def step (s : State) : Event → Option State
  | suspend => if s.pc = exec then some { pc := marked, running := false } else none
  | wait =>                                   -- under L: `for !running { Wait }`
    if s.pc = marked then (if s.running then some { s with pc := exec } else some { s with pc := parked }) else none
  | continue_ =>                              -- under L: running := true; Broadcast
    if s.running = false ∧ (s.pc = marked ∨ s.pc = parked) then
      some { running := true, pc := if s.pc = parked then woken else s.pc }
    else none
  | wake => if s.pc = woken then (if s.running then some { s with pc := exec } else some { s with pc := parked }) else none

def init : State := { pc := exec, running := true }

/-- a parked thread is never marked as running: no continue can have been lost -/
def Inv (s : State) : Prop :=
  (s.pc = parked → s.running = false) ∧ (s.pc = woken → s.running = true) ∧ (s.pc = exec → s.running = true)

theorem inv_init : Inv init := by simp [Inv, init]

theorem inv_step (s s' : State) (e : Event) (h : Inv s) (hs : step s e = some s') : Inv s' := by
  obtain ⟨h1, h2, h3⟩ := h
  cases e <;> simp only [step] at hs <;> (repeat' split at hs) <;> simp_all [Inv] <;>
    (try subst hs) <;> simp_all

/-- C15: whenever the thread is reported suspended (`running = false`), Continue is enabled,
    and after it the thread's own next step is enabled and leads back to execution -/
theorem continue_releases (s : State) (h : Inv s) (hsusp : s.running = false) (hpc : s.pc = marked ∨ s.pc = parked) :
    ∃ s1, step s continue_ = some s1 ∧
      ((∃ s2, step s1 wait = some s2 ∧ s2.pc = exec) ∨ (∃ s2, step s1 wake = some s2 ∧ s2.pc = exec)) := by
  rcases hpc with hp | hp
  · exact ⟨{ running := true, pc := marked }, by simp [step, hsusp, hp],
      Or.inl ⟨{ running := true, pc := exec }, by simp [step], rfl⟩⟩
  · exact ⟨{ running := true, pc := woken }, by simp [step, hsusp, hp],
      Or.inr ⟨{ running := true, pc := exec }, by simp [step], rfl⟩⟩
end Repaired

namespace Pristine
def step (s : State) : Event → Option State
  | suspend => if s.pc = exec then some { pc := marked, running := false } else none
  | wait => if s.pc = marked then some { s with pc := parked } else none          -- Lock; Wait  (no predicate)
  | continue_ =>
    if s.running = false then some { running := true, pc := if s.pc = parked then woken else s.pc } else none
  | wake => if s.pc = woken then some { s with pc := exec } else none

/-- the losing schedule: Continue arrives between publishing running=false and Wait -/
theorem lost_resume_reachable :
    ∃ s, [suspend, continue_, wait].foldlM step { pc := exec, running := true } = some s ∧
      s.pc = parked ∧ s.running = true ∧ ∀ e, step s e = none := by
  refine ⟨{ pc := parked, running := true }, by decide, rfl, rfl, ?_⟩
  intro e; cases e <;> decide
end Pristine

#print axioms Repaired.continue_releases
#print axioms Pristine.lost_resume_reachable
end Hs
