import Poolproto.Basic
/-!
The protocol as it is in /repo today: the idle worker waits without re-checking
the queue, and AddTask signals without holding the lock of the condition.
A stuck state (task queued, only worker parked, nothing in flight) is reachable.
-/
namespace Pool
open LHolder

inductive PEvent where
  | pop | finish | wLock | wWaitNoCheck | wRelock | wUnlock | aPush | aSignalNoLock
  deriving DecidableEq, Repr

open PEvent

def pstep (s : State) : PEvent → Option State
  | pop =>
    if s.head = 0 then none
    else if s.queue > 0 then some { s with head := s.head - 1, queue := s.queue - 1, running := s.running + 1 }
    else some { s with head := s.head - 1, idleStart := s.idleStart + 1 }
  | finish =>
    if s.running = 0 then none else some { s with running := s.running - 1, head := s.head + 1 }
  | wLock =>
    if s.idleStart = 0 ∨ s.l ≠ free then none
    else some { s with idleStart := s.idleStart - 1, l := wHasL }
  | wWaitNoCheck =>
    if s.l ≠ wHasL then none else some { s with l := free, parked := s.parked + 1 }
  | wRelock =>
    if s.woken = 0 ∨ s.l ≠ free then none
    else some { s with woken := s.woken - 1, l := wWokenHasL }
  | wUnlock =>
    if s.l ≠ wWokenHasL then none else some { s with l := free, head := s.head + 1 }
  | aPush => some { s with queue := s.queue + 1, pushed := s.pushed + 1 }
  | aSignalNoLock =>
    if s.pushed = 0 then none
    else if s.parked > 0 then some { s with pushed := s.pushed - 1, parked := s.parked - 1, woken := s.woken + 1 }
    else some { s with pushed := s.pushed - 1 }

def pinternal : List PEvent := [pop, finish, wLock, wWaitNoCheck, wRelock, wUnlock, aSignalNoLock]

/-- the losing schedule: the worker finds the queue empty, AddTask runs to
    completion (its signal finds nobody waiting), then the worker waits -/
def losing : List PEvent := [pop, aPush, aSignalNoLock, wLock, wWaitNoCheck]

theorem lost_wakeup_reachable :
    ∃ s, losing.foldlM pstep (init 1) = some s ∧ s.queue = 1 ∧ s.parked = 1 ∧
      ∀ e ∈ pinternal, pstep s e = none := by
  refine ⟨{ queue := 1, head := 0, running := 0, idleStart := 0, parked := 1, woken := 0, pushed := 0, l := free }, ?_, rfl, rfl, ?_⟩
  · decide
  · decide

#print axioms lost_wakeup_reachable
end Pool
