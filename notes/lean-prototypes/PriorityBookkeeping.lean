/-!
Prototype for C10: the root monitor's priority bookkeeping (repaired: a skipped monitor is not
counted; the heap is re-established after a removal, so only the multiset of priorities matters).
`active p` is the ghost truth: monitors activated by a triggering event with priority p, not finished.
-/
namespace Hp

structure State where
  incomplete : Nat → Nat        -- code: map priority → count (absent = 0)
  prios      : List Nat         -- code: the heap's content (as a multiset)
  active     : Nat → Nat        -- ghost
  
inductive Event where
  | activate (p : Nat) | finish (p : Nat) | skip (p : Nat)
open Event

def upd (f : Nat → Nat) (p v : Nat) : Nat → Nat := fun x => if x = p then v else f x

def step (s : State) : Event → Option State
  | activate p => some
      { incomplete := upd s.incomplete p (s.incomplete p + 1),
        prios := if s.incomplete p = 0 then p :: s.prios else s.prios,
        active := upd s.active p (s.active p + 1) }
  | finish p =>                                       -- a monitor that was really active finishes
    if s.active p = 0 then none else some
      { incomplete := upd s.incomplete p (s.incomplete p - 1),
        prios := if s.incomplete p = 1 then s.prios.erase p else s.prios,
        active := upd s.active p (s.active p - 1) }
  | skip _ => some s                                   -- repaired: Skip ⇒ Finish touches no priority bookkeeping

/-- HighestPriority: the minimum of the heap content, -1 (none) if empty -/
def highest (s : State) : Option Nat := s.prios.min?

structure Inv (s : State) : Prop where
  counts : ∀ p, s.incomplete p = s.active p
  mem    : ∀ p, p ∈ s.prios ↔ s.active p > 0
  nodup  : s.prios.Nodup

def init : State := { incomplete := fun _ => 0, prios := [], active := fun _ => 0 }

theorem inv_init : Inv init := ⟨fun _ => rfl, by simp [init], by simp [init]⟩

theorem inv_step (s s' : State) (e : Event) (h : Inv s) (hs : step s e = some s') : Inv s' := by
  cases e with
  | skip p => simp [step] at hs; subst hs; exact h
  | activate p =>
    simp only [step, Option.some.injEq] at hs; subst hs
    refine ⟨?_, ?_, ?_⟩
    · intro x; by_cases hx : x = p <;> simp [upd, hx, h.counts]
    · intro x
      by_cases hx : x = p
      · subst hx
        by_cases h0 : s.incomplete x = 0
        · simp [upd, h0]
        · have : s.active x > 0 := by have := h.counts x; omega
          simp [upd, h0, (h.mem x).mpr this]
      · by_cases h0 : s.incomplete p = 0
        · simp [upd, hx, h0, h.mem x]
        · simp [upd, hx, h0, h.mem x]
    · by_cases h0 : s.incomplete p = 0
      · simp only [h0, if_true]
        refine List.nodup_cons.mpr ⟨?_, h.nodup⟩
        intro hm; have := (h.mem p).mp hm; have := h.counts p; omega
      · simp only [h0, if_false]; exact h.nodup
  | finish p =>
    simp only [step] at hs
    split at hs
    · cases hs
    · rename_i hact
      simp only [Option.some.injEq] at hs; subst hs
      have hc := h.counts p
      refine ⟨?_, ?_, ?_⟩
      · intro x; by_cases hx : x = p <;> simp [upd, hx, h.counts]
      · intro x
        by_cases hx : x = p
        · subst hx
          by_cases h1 : s.incomplete x = 1
          · have : s.active x - 1 = 0 := by omega
            simp [upd, h1, this, h.nodup.mem_erase_iff]
          · have : s.active x - 1 > 0 := by omega
            have hm : x ∈ s.prios := (h.mem x).mpr (by omega)
            simp [upd, h1, hm]; omega
        · by_cases h1 : s.incomplete p = 1
          · simp [upd, hx, h1, h.nodup.mem_erase_iff, h.mem x]
          · simp [upd, hx, h1, h.mem x]
      · by_cases h1 : s.incomplete p = 1
        · simp only [h1, if_true]; exact h.nodup.erase p
        · simp only [h1, if_false]; exact h.nodup

/-- C10: the reported highest priority is the least priority with an active monitor, none if there is none -/
theorem highest_exact (s : State) (h : Inv s) :
    (highest s = none ↔ ∀ p, s.active p = 0) ∧
    (∀ m, highest s = some m → s.active m > 0 ∧ ∀ p, s.active p > 0 → m ≤ p) := by
  constructor
  · unfold highest
    rw [List.min?_eq_none_iff]
    constructor
    · intro he p
      have := h.mem p; rw [he] at this; simp at this; omega
    · intro ha
      cases hp : s.prios with
      | nil => rfl
      | cons x xs => have := (h.mem x).mp (by simp [hp]); have := ha x; omega
  · intro m hm
    unfold highest at hm
    have hmem : m ∈ s.prios := List.min?_mem hm
    refine ⟨(h.mem m).mp hmem, ?_⟩
    intro p hp
    have hpm : p ∈ s.prios := (h.mem p).mpr hp
    exact ((List.min?_eq_some_iff).mp hm).2 p hpm

#print axioms highest_exact
end Hp
