/-!
Prototype for C03/C08: Pratt parser with binary (left-assoc) and prefix operators
and parentheses; printing with context (m = right binding in force, f = bound on
the binding of whatever follows); parse (print e) = e for ALL trees.
-/
namespace P2

inductive Tok where
  | atom (n : Nat) | op (k : Nat) | pre (k : Nat) | lp | rp
  deriving DecidableEq, Repr

inductive Expr where
  | atom (n : Nat)
  | bin (k : Nat) (l r : Expr)
  | pre (k : Nat) (x : Expr)
  deriving DecidableEq, Repr

variable (bp : Nat → Nat)    -- left binding power of binary operator k
variable (pbp : Nat → Nat)   -- binding used for the operand of prefix operator k

def lbp : List Tok → Nat
  | Tok.op k :: _ => bp k
  | _ => 0

mutual
inductive Run : Nat → List Tok → Expr → List Tok → Prop
  | atom {m n ts e rest} : Loop m (Expr.atom n) ts e rest → Run m (Tok.atom n :: ts) e rest
  | paren {m ts e1 ts' e rest} : Run 0 ts e1 (Tok.rp :: ts') → Loop m e1 ts' e rest →
      Run m (Tok.lp :: ts) e rest
  | pre {m k ts x ts' e rest} : Run (pbp k) ts x ts' → Loop m (Expr.pre k x) ts' e rest →
      Run m (Tok.pre k :: ts) e rest
inductive Loop : Nat → Expr → List Tok → Expr → List Tok → Prop
  | stop {m left ts} : ¬ (m < lbp bp ts) → Loop m left ts left ts
  | op {m k left ts r ts' e rest} : m < bp k → Run (bp k) ts r ts' →
      Loop m (Expr.bin k left r) ts' e rest → Loop m left (Tok.op k :: ts) e rest
end

/-- print `e` where operators with binding ≤ m would be captured by the context
    and whatever follows has binding ≤ f -/
def pr : Expr → Nat → Nat → List Tok
  | Expr.atom n, _, _ => [Tok.atom n]
  | Expr.bin k l r, m, f =>
    if m < bp k then pr l (bp k - 1) (bp k) ++ (Tok.op k :: pr r (bp k) f)
    else Tok.lp :: (pr l (bp k - 1) (bp k) ++ (Tok.op k :: pr r (bp k) 0)) ++ [Tok.rp]
  | Expr.pre k x, _, f =>
    if f ≤ pbp k then Tok.pre k :: pr x (pbp k) f
    else Tok.lp :: (Tok.pre k :: pr x (pbp k) 0) ++ [Tok.rp]

theorem G (hpos : ∀ k, 0 < bp k) :
    ∀ (e : Expr) (m m' f : Nat) (rest : List Tok) (e' : Expr) (r' : List Tok),
    m ≤ m' → f ≤ m' + 1 → lbp bp rest ≤ f →
    Loop bp pbp m e rest e' r' → Run bp pbp m (pr bp pbp e m' f ++ rest) e' r' := by
  intro e
  induction e with
  | atom n =>
    intro m m' f rest e' r' _ _ _ hl
    simp only [pr, List.cons_append, List.nil_append]
    exact Run.atom hl
  | bin k l r ihl ihr =>
    have body : ∀ (m f : Nat) (rest : List Tok) (e' : Expr) (r' : List Tok), m < bp k → f ≤ bp k →
        lbp bp rest ≤ f → Loop bp pbp m (Expr.bin k l r) rest e' r' →
        Run bp pbp m ((pr bp pbp l (bp k - 1) (bp k) ++ (Tok.op k :: pr bp pbp r (bp k) f)) ++ rest) e' r' := by
      intro m f rest e' r' hm hf hrest hl
      rw [List.append_assoc]
      apply ihl m (bp k - 1) (bp k) _ e' r' (by omega) (by omega) (by simp [lbp])
      simp only [List.cons_append]
      apply Loop.op hm (r := r) (ts' := rest)
      · apply ihr (bp k) (bp k) f rest r rest (Nat.le_refl _) (by omega) hrest
        exact Loop.stop (by omega)
      · exact hl
    intro m m' f rest e' r' hmm hf hrest hl
    simp only [pr]
    split
    · exact body m f rest e' r' (by omega) (by omega) hrest hl
    · simp only [List.cons_append, List.append_assoc, List.nil_append]
      apply Run.paren (e1 := Expr.bin k l r) (ts' := rest)
      · have := body 0 0 (Tok.rp :: rest) (Expr.bin k l r) (Tok.rp :: rest) (hpos k) (by omega)
          (by simp [lbp]) (Loop.stop (by simp [lbp]))
        simpa [List.append_assoc] using this
      · exact hl
  | pre k x ih =>
    have body : ∀ (m f : Nat) (rest : List Tok) (e' : Expr) (r' : List Tok), f ≤ pbp k →
        lbp bp rest ≤ f → Loop bp pbp m (Expr.pre k x) rest e' r' →
        Run bp pbp m ((Tok.pre k :: pr bp pbp x (pbp k) f) ++ rest) e' r' := by
      intro m f rest e' r' hf hrest hl
      simp only [List.cons_append]
      apply Run.pre (x := x) (ts' := rest)
      · apply ih (pbp k) (pbp k) f rest x rest (Nat.le_refl _) (by omega) hrest
        exact Loop.stop (by omega)
      · exact hl
    intro m m' f rest e' r' hmm hf hrest hl
    simp only [pr]
    split
    · exact body m f rest e' r' (by assumption) hrest hl
    · simp only [List.cons_append, List.append_assoc, List.nil_append]
      apply Run.paren (e1 := Expr.pre k x) (ts' := rest)
      · have := body 0 0 (Tok.rp :: rest) (Expr.pre k x) (Tok.rp :: rest) (by omega)
          (by simp [lbp]) (Loop.stop (by simp [lbp]))
        simpa [List.append_assoc] using this
      · exact hl

theorem parse_print (hpos : ∀ k, 0 < bp k) (e : Expr) : Run bp pbp 0 (pr bp pbp e 0 0) e [] := by
  have := G bp pbp hpos e 0 0 0 [] e [] (Nat.le_refl _) (by omega) (by simp [lbp]) (Loop.stop (by simp [lbp]))
  simpa using this

#print axioms parse_print
end P2
