/-!
Prototype for C04/C06: a fuel-indexed, store-passing evaluator in the shape planned for
Model/Eval (reduced), with an explicit `panic` signal for Go operations that can panic,
a marker trace, and two sample theorems: `finally` runs exactly once, and the evaluator
never produces `panic` (all unchecked primitives are guarded by the callers).
-/
namespace Ev

inductive Val where
  | null | bool (b : Bool) | num (n : Int) | str (s : String) | list (vs : List Val)
  deriving Repr, Inhabited

inductive Sig where
  | err (ty : String)            -- ECAL runtime error with a type
  | ret (v : Val) | brk | cont    -- control flow travels the same channel (as in the Go code)
  | panic (site : String)        -- a Go runtime panic
  | outOfFuel
  deriving Repr

abbrev Env := List (String × Val)

structure St where
  env   : Env
  trace : List String
  deriving Repr

inductive Expr where
  | lit (v : Val) | var (x : String)
  | add (a b : Expr) | modE (a b : Expr) | eq (a b : Expr)
  | index (e i : Expr)
  deriving Repr, Inhabited

inductive Stmt where
  | mark (s : String)
  | assign (x : String) (e : Expr)
  | seq (a b : Stmt)
  | ifS (c : Expr) (t e : Stmt)
  | while (c : Expr) (body : Stmt)
  | brk | cont | ret (e : Expr) | raise (ty : String)
  | try (body : Stmt) (handles : Option String) (handler : Stmt) (fin : Stmt)   -- `none` = bare except
  deriving Repr, Inhabited

def lookup (env : Env) (x : String) : Val :=
  match env.find? (·.1 == x) with | some (_, v) => v | none => Val.null

/-- Go primitives, modelled with their panics -/
def goIndex (vs : List Val) (i : Int) : Except Sig Val :=
  if h : 0 ≤ i ∧ i.toNat < vs.length then .ok (vs[i.toNat]'h.2) else .error (.panic "index out of range")
def goIntMod (a b : Int) : Except Sig Val :=
  if b = 0 then .error (.panic "integer divide by zero") else .ok (.num (a.tmod b))

def evalE (env : Env) : Expr → Except Sig Val
  | .lit v => .ok v
  | .var x => .ok (lookup env x)
  | .add a b => do
    let va ← evalE env a; let vb ← evalE env b
    match va, vb with
    | .num x, .num y => .ok (.num (x + y))
    | .num _, _ => .error (.err "Operand is not a number")
    | _, _ => .error (.err "Operand is not a number")
  | .modE a b => do
    let va ← evalE env a; let vb ← evalE env b
    match va, vb with
    | .num x, .num y => if y = 0 then .error (.err "Runtime error") else goIntMod x y   -- guard (repaired code)
    | _, _ => .error (.err "Operand is not a number")
  | .eq a b => do
    let va ← evalE env a; let vb ← evalE env b
    match va, vb with
    | .num x, .num y => .ok (.bool (x == y))
    | .bool x, .bool y => .ok (.bool (x == y))
    | .str x, .str y => .ok (.bool (x == y))
    | .null, .null => .ok (.bool true)
    | .list _, .list _ => .ok (.bool false)     -- repaired: no Go interface comparison of slices
    | _, _ => .ok (.bool false)
  | .index e i => do
    let ve ← evalE env e; let vi ← evalE env i
    match ve, vi with
    | .list vs, .num n =>
      let n' := if n < 0 then n + vs.length else n
      if 0 ≤ n' ∧ n'.toNat < vs.length then goIndex vs n' else .error (.err "Out of bounds")   -- guard (repaired)
    | _, _ => .error (.err "not a container")

def truthy : Val → Bool
  | .null => false | .bool false => false | _ => true

def isControl : Sig → Bool
  | .ret _ => true | .brk => true | .cont => true | _ => false

def exec : Nat → St → Stmt → St × Except Sig Unit
  | 0, st, _ => (st, .error .outOfFuel)
  | _+1, st, .mark s => ({ st with trace := st.trace ++ [s] }, .ok ())
  | _+1, st, .assign x e =>
    match evalE st.env e with
    | .ok v => ({ st with env := (x, v) :: st.env }, .ok ())
    | .error s => (st, .error s)
  | f+1, st, .seq a b =>
    match exec f st a with
    | (st1, .ok ()) => exec f st1 b
    | r => r
  | f+1, st, .ifS c t e =>
    match evalE st.env c with
    | .ok v => if truthy v then exec f st t else exec f st e
    | .error s => (st, .error s)
  | f+1, st, .while c body =>
    match evalE st.env c with
    | .error s => (st, .error s)
    | .ok v =>
      if truthy v then
        match exec f st body with
        | (st1, .ok ()) => exec f st1 (.while c body)
        | (st1, .error .cont) => exec f st1 (.while c body)
        | (st1, .error .brk) => (st1, .ok ())                    -- repaired: break ends the guard loop
        | r => r
      else (st, .ok ())
  | _+1, st, .brk => (st, .error .brk)
  | _+1, st, .cont => (st, .error .cont)
  | _+1, st, .ret e =>
    match evalE st.env e with
    | .ok v => (st, .error (.ret v))
    | .error s => (st, .error s)
  | _+1, st, .raise ty => (st, .error (.err ty))
  | f+1, st, .try body handles handler fin =>
    -- the part before the deferred finally
    let r1 : St × Except Sig Unit :=
      match exec f st body with
      | (st1, .error (.err ty)) =>
        if handles = none ∨ handles = some ty then exec f st1 handler else (st1, .error (.err ty))
      | r => r                                                    -- repaired: control flow is not handled
    -- deferred: finally runs once, its own outcome is discarded
    let (st2, _) := exec f r1.1 fin
    (st2, r1.2)

/-- number of times marker `m` was logged -/
def count (m : String) (st : St) : Nat := st.trace.count m

/-- C04: whatever the body and handler do (normal end, error, return, break, continue),
    the finally block runs exactly once, last, and does not change the outcome -/
theorem finally_exactly_once (f : Nat) (st : St) (body handler : Stmt) (h : Option String) (m : String) :
    ∃ st1 r, (exec (f+2) st (.try body h handler (.mark m))) = ({ st1 with trace := st1.trace ++ [m] }, r) ∧
      (st1, r) = (let r1 : St × Except Sig Unit :=
        match exec (f+1) st body with
        | (s1, .error (.err ty)) => if h = none ∨ h = some ty then exec (f+1) s1 handler else (s1, .error (.err ty))
        | r => r
        r1) := by
  refine ⟨_, _, ?_, rfl⟩
  simp [exec]

theorem evalE_no_panic (env : Env) : ∀ (e : Expr) (s : String), evalE env e ≠ .error (.panic s) := by
  intro e
  induction e with
  | lit v => intro s; simp [evalE]
  | var x => intro s; simp [evalE]
  | add a b iha ihb =>
    intro s; simp only [evalE, bind, Except.bind]
    cases ha : evalE env a with
    | error x => simp; intro h; exact iha s (by rw [ha, h])
    | ok va =>
      cases hb : evalE env b with
      | error x => simp; intro h; exact ihb s (by rw [hb, h])
      | ok vb => cases va <;> cases vb <;> simp
  | modE a b iha ihb =>
    intro s; simp only [evalE, bind, Except.bind]
    cases ha : evalE env a with
    | error x => simp; intro h; exact iha s (by rw [ha, h])
    | ok va =>
      cases hb : evalE env b with
      | error x => simp; intro h; exact ihb s (by rw [hb, h])
      | ok vb =>
        cases va <;> cases vb <;> simp
        rename_i x y
        by_cases hy : y = 0 <;> simp [hy, goIntMod]
  | eq a b iha ihb =>
    intro s; simp only [evalE, bind, Except.bind]
    cases ha : evalE env a with
    | error x => simp; intro h; exact iha s (by rw [ha, h])
    | ok va =>
      cases hb : evalE env b with
      | error x => simp; intro h; exact ihb s (by rw [hb, h])
      | ok vb => cases va <;> cases vb <;> simp
  | index e i ihe ihi =>
    intro s; simp only [evalE, bind, Except.bind]
    cases he : evalE env e with
    | error x => simp; intro h; exact ihe s (by rw [he, h])
    | ok ve =>
      cases hi : evalE env i with
      | error x => simp; intro h; exact ihi s (by rw [hi, h])
      | ok vi =>
        cases ve <;> cases vi <;> simp
        rename_i vs n
        simp only [goIndex]
        repeat' split
        all_goals simp_all

/-- C06 (reduced): the statement evaluator never produces a Go panic -/
theorem exec_no_panic : ∀ (f : Nat) (st : St) (s : Stmt) (site : String),
    (exec f st s).2 ≠ .error (.panic site) := by
  intro f
  induction f with
  | zero => intro st s site; simp [exec]
  | succ f ih =>
    intro st s site
    cases s with
    | mark m => simp [exec]
    | assign x e =>
      simp only [exec]; cases he : evalE st.env e with
      | ok v => simp
      | error x => simp; intro h; exact evalE_no_panic st.env e site (by rw [he, h])
    | seq a b =>
      simp only [exec]
      cases ha : exec f st a with
      | mk st1 r =>
        cases r with
        | ok u => cases u; exact ih st1 b site
        | error x => simp; intro h; have := ih st a site; rw [ha] at this; exact this (by simp [h])
    | ifS c t e =>
      simp only [exec]; cases hc : evalE st.env c with
      | ok v => simp; split <;> exact ih _ _ site
      | error x => simp; intro h; exact evalE_no_panic st.env c site (by rw [hc, h])
    | «while» c body =>
      simp only [exec]; cases hc : evalE st.env c with
      | error x => simp; intro h; exact evalE_no_panic st.env c site (by rw [hc, h])
      | ok v =>
        simp only
        split
        · cases hb : exec f st body with
          | mk st1 r =>
            have hbody := ih st body site; rw [hb] at hbody
            cases r with
            | ok u => cases u; exact ih st1 _ site
            | error x =>
              cases x with
              | cont => exact ih st1 _ site
              | brk => simp
              | panic s' => simp at hbody ⊢; exact hbody
              | err ty => simp
              | ret v => simp
              | outOfFuel => simp
        · simp
    | brk => simp [exec]
    | cont => simp [exec]
    | ret e =>
      simp only [exec]; cases he : evalE st.env e with
      | ok v => simp
      | error x => simp; intro h; exact evalE_no_panic st.env e site (by rw [he, h])
    | raise ty => simp [exec]
    | «try» body h handler fin =>
      simp only [exec]
      cases hb : exec f st body with
      | mk st1 r =>
        have hbody := ih st body site; rw [hb] at hbody
        cases r with
        | ok u => simpa using hbody
        | error x =>
          cases x with
          | err ty =>
            simp only
            split
            · exact ih st1 handler site
            · simp
          | panic s' => simp at hbody ⊢; exact hbody
          | ret v => simp
          | brk => simp
          | cont => simp
          | outOfFuel => simp

#print axioms exec_no_panic
end Ev
