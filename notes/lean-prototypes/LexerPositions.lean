/-!
Prototype for C18: line / column bookkeeping of the lexer.  State: the bytes consumed so
far (`done`, so `pos = done.length`), the code's `line` and `lastnl`.  The specification
recomputes line and column from the consumed prefix.  Newline = 10, '#' = 35.
-/
namespace Lp

structure St where
  done   : List Nat      -- consumed input, in order
  line   : Nat           -- lexer.line (0-based)
  lastnl : Nat           -- lexer.lastnl
  deriving Repr, DecidableEq

/-- specification: number of newlines in a prefix, and the offset just after the last one -/
def nlCount (l : List Nat) : Nat := l.count 10
/-- easier to reason about: scan from the left keeping the running answer -/
def afterLastNlFrom (off acc : Nat) : List Nat → Nat
  | [] => acc
  | c :: cs => afterLastNlFrom (off + 1) (if c = 10 then off + 1 else acc) cs

def Good (s : St) : Prop :=
  s.line = nlCount s.done ∧ s.lastnl = afterLastNlFrom 0 0 s.done

instance (s : St) : Decidable (Good s) := by unfold Good; infer_instance

/-- consuming one byte the way skipWhiteSpace / lexValue / the block comment do -/
def adv (s : St) (c : Nat) : St :=
  if c = 10 then { done := s.done ++ [c], line := s.line + 1, lastnl := s.done.length + 1 }
  else { s with done := s.done ++ [c] }

theorem afterLastNlFrom_append (off acc : Nat) (l : List Nat) (c : Nat) :
    afterLastNlFrom off acc (l ++ [c]) =
      if c = 10 then off + l.length + 1 else afterLastNlFrom off acc l := by
  induction l generalizing off acc with
  | nil => simp [afterLastNlFrom]
  | cons x xs ih =>
    simp only [List.cons_append, afterLastNlFrom, ih, List.length_cons]
    split <;> simp <;> omega

theorem good_adv (s : St) (c : Nat) (h : Good s) : Good (adv s c) := by
  obtain ⟨h1, h2⟩ := h
  unfold adv
  split
  · rename_i hc; subst hc
    refine ⟨?_, ?_⟩
    · simp [nlCount, h1, List.count_append]
    · simp [afterLastNlFrom_append]
  · rename_i hc
    refine ⟨?_, ?_⟩
    · simp [nlCount, h1, List.count_append, hc]
    · simp [afterLastNlFrom_append, hc, h2]

/-- any loop that consumes bytes with `adv` keeps the bookkeeping true -/
theorem good_advMany (s : St) (cs : List Nat) (h : Good s) : Good (cs.foldl adv s) := by
  induction cs generalizing s with
  | nil => exact h
  | cons c cs ih => exact ih _ (good_adv s c h)

/-- the position reported for a token that starts now -/
def lineCol (s : St) : Nat × Nat := (s.line + 1, s.done.length - s.lastnl + 1)

/-- the `#` comment branch as it is today: consumes up to and including the newline,
    then `line++` – and forgets `lastnl` -/
def hashCommentPristine (s : St) (body : List Nat) : St :=
  { done := s.done ++ body ++ [10], line := s.line + 1, lastnl := s.lastnl }

def hashCommentRepaired (s : St) (body : List Nat) : St :=
  { done := s.done ++ body ++ [10], line := s.line + 1, lastnl := (s.done ++ body).length + 1 }

theorem good_hashRepaired (s : St) (body : List Nat) (hb : ∀ c ∈ body, c ≠ 10) (h : Good s) :
    Good (hashCommentRepaired s body) := by
  have hbody : Good (body.foldl adv s) := good_advMany s body h
  -- consuming the body with adv changes only `done`
  have hfold : ∀ (b : List Nat) (t : St), (∀ c ∈ b, c ≠ 10) →
      b.foldl adv t = { t with done := t.done ++ b } := by
    intro b
    induction b with
    | nil => intro t _; simp
    | cons c cs ih =>
      intro t hc
      have h1 : c ≠ 10 := hc c (by simp)
      simp only [List.foldl_cons, adv, h1, if_false]
      rw [ih _ (fun x hx => hc x (by simp [hx]))]
      simp
  rw [hfold body s hb] at hbody
  have := good_adv _ 10 hbody
  simpa [adv, hashCommentRepaired] using this

/-- today's defect, as a checked witness: after "a # c\nb" minus the final b, the next
    token would be reported at column 7 instead of 1 -/
theorem hash_comment_column_witness :
    let s0 : St := { done := [97, 32], line := 0, lastnl := 0 }        -- "a " consumed, Good
    let s1 := hashCommentPristine s0 [35, 32, 99]                       -- "# c\n"
    Good s0 ∧ lineCol s1 = (2, 7) ∧ ¬ Good s1 := by
  refine ⟨by decide, by decide, ?_⟩
  intro h; have := h.2; revert this; decide

#print axioms good_hashRepaired
end Lp
