/-!
Prototype for C02: counting abstraction of one event cascade (one root monitor).
`u` is the code's `RootMonitor.unfinished`; the other fields count monitors by
their position in the protocol.  The finished message is posted when `u` hits 0
(`postPending`), the post itself happens later, outside the lock (`posted`).
-/
namespace Casc

structure State where
  u           : Nat    -- RootMonitor.unfinished
  rootFresh   : Nat    -- 1 while the root monitor has not been handed to AddEvent yet
  fresh       : Nat    -- child monitors created (NewChildMonitor) but not yet handed to AddEvent
  queued      : Nat    -- activated monitors whose task is queued
  running     : Nat    -- tasks taken by a worker, rules executing (ProcessEvent)
  errPending  : Nat    -- tasks in HandleError between SetErrors and Finish
  postPending : Nat    -- descendantFinished saw zero, PostEvent not yet executed
  posted      : Nat    -- PostEvent executed (the wait's observer ran: wg.Done)
  deriving DecidableEq, Repr

inductive Event where
  | addRoot (trig : Bool) | pop | newChild | addChild (trig : Bool)
  | taskOk | taskFail | errFinish | post
  deriving DecidableEq, Repr
open Event

/-- a monitor finishes: decrement, remember to post if zero was reached -/
def finishOne (s : State) : State :=
  { s with u := s.u - 1, postPending := if s.u = 1 then s.postPending + 1 else s.postPending }

def step (s : State) : Event → Option State
  | addRoot trig =>
    if s.rootFresh = 0 then none
    else if trig then some { s with rootFresh := 0, queued := s.queued + 1 }
    else some (finishOne { s with rootFresh := 0 })            -- Skip ⇒ Finish
  | pop => if s.queued = 0 then none else some { s with queued := s.queued - 1, running := s.running + 1 }
  | newChild =>                                                  -- only an executing action can create a child
    if s.running = 0 then none else some { s with u := s.u + 1, fresh := s.fresh + 1 }
  | addChild trig =>
    if s.fresh = 0 then none
    else if trig then some { s with fresh := s.fresh - 1, queued := s.queued + 1 }
    else some (finishOne { s with fresh := s.fresh - 1 })
  | taskOk => if s.running = 0 then none else some (finishOne { s with running := s.running - 1 })
  | taskFail => if s.running = 0 then none else some { s with running := s.running - 1, errPending := s.errPending + 1 }
  | errFinish => if s.errPending = 0 then none else some (finishOne { s with errPending := s.errPending - 1 })
  | post => if s.postPending = 0 then none else some { s with postPending := s.postPending - 1, posted := s.posted + 1 }

def init : State :=
  { u := 1, rootFresh := 1, fresh := 0, queued := 0, running := 0, errPending := 0, postPending := 0, posted := 0 }

def Inv (s : State) : Prop :=
  s.u = s.rootFresh + s.fresh + s.queued + s.running + s.errPending ∧
  s.rootFresh ≤ 1 ∧
  s.postPending + s.posted ≤ 1 ∧
  (s.postPending + s.posted = 1 → s.u = 0) ∧
  (s.u = 0 → s.postPending + s.posted = 1)

theorem inv_init : Inv init := by simp [Inv, init]

theorem inv_step (s s' : State) (e : Event) (h : Inv s) (hs : step s e = some s') : Inv s' := by
  obtain ⟨h1, h2, h3, h4, h5⟩ := h
  cases e <;> simp only [step, finishOne] at hs <;> (repeat' split at hs) <;>
    simp_all <;> (try subst hs) <;> simp_all [Inv] <;> omega

def Reachable (s : State) : Prop := ∃ es : List Event, es.foldlM step init = some s

theorem inv_reachable (s : State) (h : Reachable s) : Inv s := by
  obtain ⟨es, hes⟩ := h
  suffices ∀ (es : List Event) (s0 : State), Inv s0 → es.foldlM step s0 = some s → Inv s from
    this es _ inv_init hes
  intro es
  induction es with
  | nil => intro s0 h0 h; simp [List.foldlM] at h; subst h; exact h0
  | cons e es ih =>
    intro s0 h0 h
    simp only [List.foldlM_cons] at h
    cases hstep : step s0 e with
    | none => simp [hstep] at h
    | some s1 => simp [hstep] at h; exact ih s1 (inv_step s0 s1 e h0 hstep) h

/-- the finished message is posted at most once -/
theorem posted_once (s : State) (h : Reachable s) : s.posted ≤ 1 := by
  have := inv_reachable s h; obtain ⟨_, _, h3, _, _⟩ := this; omega

/-- when the waiter is released, the whole cascade is over: nothing queued, running,
    being error-handled, and no monitor that was created is still outstanding -/
theorem wait_after_cascade (s : State) (h : Reachable s) (hp : s.posted = 1) :
    s.queued = 0 ∧ s.running = 0 ∧ s.errPending = 0 ∧ s.fresh = 0 ∧ s.rootFresh = 0 := by
  have := inv_reachable s h; obtain ⟨h1, _, h3, h4, _⟩ := this
  have : s.u = 0 := h4 (by omega)
  omega

/-- and it is released: when everything handed to the processor is done, the post is pending or done -/
theorem posted_when_done (s : State) (h : Reachable s)
    (hd : s.queued = 0 ∧ s.running = 0 ∧ s.errPending = 0 ∧ s.fresh = 0 ∧ s.rootFresh = 0) :
    s.postPending + s.posted = 1 := by
  have := inv_reachable s h; obtain ⟨h1, _, _, _, h5⟩ := this
  exact h5 (by omega)

/-- no stuck cascade: with work outstanding some engine-internal step is enabled
    (a worker is assumed available; creating/adding children is the action's own code) -/
theorem progress (s : State) (h : Reachable s) (hw : s.queued + s.running + s.errPending + s.postPending > 0) :
    ∃ e ∈ [pop, taskOk, errFinish, post], (step s e).isSome := by
  by_cases h1 : s.queued = 0
  · by_cases h2 : s.running = 0
    · by_cases h3 : s.errPending = 0
      · exact ⟨post, by simp, by simp [step]; omega⟩
      · exact ⟨errFinish, by simp, by simp [step, h3]⟩
    · exact ⟨taskOk, by simp, by simp [step, h2]⟩
  · exact ⟨pop, by simp, by simp [step, h1]⟩

#print axioms wait_after_cascade
end Casc
