import Pratt2.Basic
/-! The executable, fuel-indexed parser and its link to the relational semantics. -/
namespace P2
variable (bp : Nat → Nat) (pbp : Nat → Nat)

mutual
def run : Nat → Nat → List Tok → Option (Expr × List Tok)
  | 0, _, _ => none
  | _+1, _, [] => none
  | fuel+1, m, Tok.atom n :: ts => loop fuel m (Expr.atom n) ts
  | fuel+1, m, Tok.lp :: ts =>
    match run fuel 0 ts with
    | some (e1, Tok.rp :: ts') => loop fuel m e1 ts'
    | _ => none
  | fuel+1, m, Tok.pre k :: ts =>
    match run fuel (pbp k) ts with
    | some (x, ts') => loop fuel m (Expr.pre k x) ts'
    | none => none
  | _+1, _, Tok.op _ :: _ => none
  | _+1, _, Tok.rp :: _ => none
def loop : Nat → Nat → Expr → List Tok → Option (Expr × List Tok)
  | 0, _, _, _ => none
  | fuel+1, m, left, Tok.op k :: ts =>
    if m < bp k then
      match run fuel (bp k) ts with
      | some (r, ts') => loop fuel m (Expr.bin k left r) ts'
      | none => none
    else some (left, Tok.op k :: ts)
  | _+1, _, left, ts => some (left, ts)
end

theorem mono1 : ∀ (f : Nat),
    (∀ m ts x, run bp pbp f m ts = some x → run bp pbp (f+1) m ts = some x) ∧
    (∀ m l ts x, loop bp pbp f m l ts = some x → loop bp pbp (f+1) m l ts = some x) := by
  intro f
  induction f with
  | zero =>
    constructor
    · intro m ts x h; simp [run] at h
    · intro m l ts x h; simp [loop] at h
  | succ f ih =>
    obtain ⟨ihr, ihl⟩ := ih
    constructor
    · intro m ts x h
      match ts with
      | [] => simp [run] at h
      | Tok.atom n :: ts => simp only [run] at h ⊢; exact ihl _ _ _ _ h
      | Tok.op _ :: _ => simp [run] at h
      | Tok.rp :: _ => simp [run] at h
      | Tok.pre k :: ts =>
        simp only [run] at h ⊢
        cases h1 : run bp pbp f (pbp k) ts with
        | none => simp [h1] at h
        | some y =>
          obtain ⟨x1, ts'⟩ := y
          rw [h1] at h; rw [ihr _ _ _ h1]
          exact ihl _ _ _ _ h
      | Tok.lp :: ts =>
        simp only [run] at h ⊢
        cases h1 : run bp pbp f 0 ts with
        | none => simp [h1] at h
        | some y =>
          obtain ⟨e1, r1⟩ := y
          rw [h1] at h; rw [ihr _ _ _ h1]
          match r1 with
          | [] => simp at h
          | Tok.rp :: ts' => exact ihl _ _ _ _ h
          | Tok.atom _ :: _ => simp at h
          | Tok.op _ :: _ => simp at h
          | Tok.pre _ :: _ => simp at h
          | Tok.lp :: _ => simp at h
    · intro m l ts x h
      match ts with
      | Tok.op k :: ts =>
        simp only [loop] at h ⊢
        split at h
        · rename_i hlt
          simp only [hlt, if_true]
          cases h1 : run bp pbp f (bp k) ts with
          | none => simp [h1] at h
          | some y =>
            obtain ⟨r, ts'⟩ := y
            rw [h1] at h; rw [ihr _ _ _ h1]
            exact ihl _ _ _ _ h
        · rename_i hlt
          simp only [hlt, if_false]; exact h
      | [] => simp only [loop] at h ⊢; exact h
      | Tok.atom _ :: _ => simp only [loop] at h ⊢; exact h
      | Tok.pre _ :: _ => simp only [loop] at h ⊢; exact h
      | Tok.lp :: _ => simp only [loop] at h ⊢; exact h
      | Tok.rp :: _ => simp only [loop] at h ⊢; exact h

theorem mono (f g : Nat) (h : f ≤ g) :
    (∀ m ts x, run bp pbp f m ts = some x → run bp pbp g m ts = some x) ∧
    (∀ m l ts x, loop bp pbp f m l ts = some x → loop bp pbp g m l ts = some x) := by
  induction h with
  | refl => exact ⟨fun _ _ _ h => h, fun _ _ _ _ h => h⟩
  | step _ ih =>
    exact ⟨fun m ts x h => (mono1 bp pbp _).1 m ts x (ih.1 m ts x h),
           fun m l ts x h => (mono1 bp pbp _).2 m l ts x (ih.2 m l ts x h)⟩

mutual
theorem Run.toFun : ∀ {m ts e rest}, Run bp pbp m ts e rest → ∃ f, run bp pbp f m ts = some (e, rest)
  | _, _, _, _, .atom hl => by
    obtain ⟨f, hf⟩ := Loop.toFun hl
    exact ⟨f+1, by simp only [run]; exact hf⟩
  | _, _, _, _, .paren hr hl => by
    obtain ⟨f1, hf1⟩ := Run.toFun hr
    obtain ⟨f2, hf2⟩ := Loop.toFun hl
    refine ⟨max f1 f2 + 1, ?_⟩
    have h1 := (mono bp pbp f1 (max f1 f2) (Nat.le_max_left _ _)).1 _ _ _ hf1
    have h2 := (mono bp pbp f2 (max f1 f2) (Nat.le_max_right _ _)).2 _ _ _ _ hf2
    simp only [run, h1]; exact h2
  | _, _, _, _, .pre hr hl => by
    obtain ⟨f1, hf1⟩ := Run.toFun hr
    obtain ⟨f2, hf2⟩ := Loop.toFun hl
    refine ⟨max f1 f2 + 1, ?_⟩
    have h1 := (mono bp pbp f1 (max f1 f2) (Nat.le_max_left _ _)).1 _ _ _ hf1
    have h2 := (mono bp pbp f2 (max f1 f2) (Nat.le_max_right _ _)).2 _ _ _ _ hf2
    simp only [run, h1]; exact h2
theorem Loop.toFun : ∀ {m l ts e rest}, Loop bp pbp m l ts e rest → ∃ f, loop bp pbp f m l ts = some (e, rest)
  | m, l, ts, _, _, .stop hn => by
    refine ⟨1, ?_⟩
    match ts with
    | Tok.op k :: ts => simp only [lbp] at hn; simp [loop, hn]
    | [] => simp [loop]
    | Tok.atom _ :: _ => simp [loop]
    | Tok.pre _ :: _ => simp [loop]
    | Tok.lp :: _ => simp [loop]
    | Tok.rp :: _ => simp [loop]
  | _, _, _, _, _, .op hlt hr hl => by
    obtain ⟨f1, hf1⟩ := Run.toFun hr
    obtain ⟨f2, hf2⟩ := Loop.toFun hl
    refine ⟨max f1 f2 + 1, ?_⟩
    have h1 := (mono bp pbp f1 (max f1 f2) (Nat.le_max_left _ _)).1 _ _ _ hf1
    have h2 := (mono bp pbp f2 (max f1 f2) (Nat.le_max_right _ _)).2 _ _ _ _ hf2
    simp only [loop, hlt, if_true, h1]; exact h2
end

/-- the executable parser re-reads every printed tree -/
theorem parse_print_fun (hpos : ∀ k, 0 < bp k) (e : Expr) :
    ∃ f, run bp pbp f 0 (pr bp pbp e 0 0) = some (e, []) :=
  Run.toFun bp pbp (parse_print bp pbp hpos e)

#print axioms parse_print_fun

-- sanity: ECAL-like table: 1 = "+", 2 = "*", 3 = "and"; prefix 0 = "-" (operand at 130), 1 = "not" (operand at 40)
def bpE : Nat → Nat | 1 => 110 | 2 => 120 | 3 => 40 | _ => 60
def pbpE : Nat → Nat | 0 => 130 | _ => 40
#eval pr bpE pbpE (Expr.bin 2 (Expr.atom 1) (Expr.bin 1 (Expr.atom 2) (Expr.pre 1 (Expr.atom 3)))) 0 0
#eval run bpE pbpE 50 0 (pr bpE pbpE (Expr.bin 2 (Expr.atom 1) (Expr.bin 1 (Expr.atom 2) (Expr.pre 1 (Expr.atom 3)))) 0 0)
end P2
