/-!
Prototype for C17: lexical path cleaning on segment lists (Go's filepath.Clean, Unix),
Rel, and the confinement test of FileImportLocator.Resolve / isSubpath.
Segments are the non-empty pieces between slashes.
-/
namespace Path

abbrev Seg := String

/-- one step of Clean; the stack holds the result so far, LAST segment FIRST -/
def cleanStep (rooted : Bool) (stack : List Seg) (s : Seg) : List Seg :=
  if s = "." then stack
  else if s = ".." then
    match stack with
    | top :: rest => if top = ".." then ".." :: stack else rest
    | [] => if rooted then [] else [".."]
  else s :: stack

def cleanRev (rooted : Bool) (segs : List Seg) : List Seg := segs.foldl (cleanStep rooted) []
def clean (rooted : Bool) (segs : List Seg) : List Seg := (cleanRev rooted segs).reverse

/-- shape of a cleaned path (reversed): ordinary names on top of a block of ".." (empty if rooted) -/
def Shape (rooted : Bool) (stack : List Seg) : Prop :=
  ∃ (names : List Seg) (k : Nat), stack = names ++ List.replicate k ".." ∧
    (∀ n ∈ names, n ≠ ".." ∧ n ≠ ".") ∧ (rooted = true → k = 0)

theorem shape_step (rooted : Bool) (stack : List Seg) (s : Seg) (h : Shape rooted stack) :
    Shape rooted (cleanStep rooted stack s) := by
  obtain ⟨names, k, rfl, hn, hk⟩ := h
  unfold cleanStep
  split
  · exact ⟨names, k, rfl, hn, hk⟩
  · split
    · rename_i hs
      cases names with
      | nil =>
        cases k with
        | zero =>
          simp only [List.replicate, List.append_nil]
          cases rooted with
          | true => exact ⟨[], 0, by simp, by simp, by simp⟩
          | false => exact ⟨[], 1, by simp, by simp, by simp⟩
        | succ k =>
          simp only [List.nil_append, List.replicate_succ, if_true]
          exact ⟨[], k + 2, by simp [List.replicate_succ], by simp, by intro hr; have := hk hr; omega⟩
      | cons n names =>
        have hn' := hn n (by simp)
        simp only [List.cons_append, hn'.1, if_false]
        exact ⟨names, k, rfl, fun x hx => hn x (by simp [hx]), hk⟩
    · rename_i h1 h2
      exact ⟨s :: names, k, by simp, by
        intro x hx
        simp only [List.mem_cons] at hx
        rcases hx with rfl | hx
        · exact ⟨h2, h1⟩
        · exact hn x hx, hk⟩

theorem shape_cleanRev (rooted : Bool) (segs : List Seg) : Shape rooted (cleanRev rooted segs) := by
  unfold cleanRev
  suffices ∀ st, Shape rooted st → Shape rooted (segs.foldl (cleanStep rooted) st) from
    this [] ⟨[], 0, by simp, by simp, by simp⟩
  induction segs with
  | nil => intro st h; exact h
  | cons s segs ih => intro st h; exact ih _ (shape_step rooted st s h)

/-- in a cleaned path ".." occurs only as a leading block -/
theorem clean_dotdot_only_leading (rooted : Bool) (segs : List Seg) :
    ∃ (k : Nat) (names : List Seg), clean rooted segs = List.replicate k ".." ++ names ∧
      (∀ n ∈ names, n ≠ ".." ∧ n ≠ ".") ∧ (rooted = true → k = 0) := by
  obtain ⟨names, k, h, hn, hk⟩ := shape_cleanRev rooted segs
  refine ⟨k, names.reverse, ?_, ?_, hk⟩
  · simp [clean, h]
  · intro n hnm; exact hn n (by simpa using hnm)

/-- strip the common prefix -/
def stripCommon : List Seg → List Seg → List Seg × List Seg
  | b :: bs, t :: ts => if b = t then stripCommon bs ts else (b :: bs, t :: ts)
  | bs, ts => (bs, ts)

theorem stripCommon_spec : ∀ (b t : List Seg), ∃ c, b = c ++ (stripCommon b t).1 ∧ t = c ++ (stripCommon b t).2 := by
  intro b
  induction b with
  | nil => intro t; exact ⟨[], by simp [stripCommon], by simp [stripCommon]⟩
  | cons x bs ih =>
    intro t
    cases t with
    | nil => exact ⟨[], by simp [stripCommon], by simp [stripCommon]⟩
    | cons y ts =>
      by_cases hxy : x = y
      · subst hxy
        obtain ⟨c, h1, h2⟩ := ih ts
        refine ⟨x :: c, ?_, ?_⟩
        · simp only [stripCommon, if_true, List.cons_append]; rw [← h1]
        · simp only [stripCommon, if_true, List.cons_append]; rw [← h2]
      · exact ⟨[], by simp [stripCommon, hxy], by simp [stripCommon, hxy]⟩

/-- Rel on cleaned segment lists of equal rootedness -/
def rel (base targ : List Seg) : Option (List Seg) :=
  match stripCommon base targ with
  | ([], t') => some t'
  | (b :: bs, t') => if b = ".." then none else some (List.replicate (b :: bs).length ".." ++ t')

/-- isSubpath: Rel succeeds and the result does not start with ".." -/
def accepted (base targ : List Seg) : Bool :=
  match rel base targ with
  | some (r :: _) => r != ".."
  | some [] => true
  | none => false

/-- C17 core: if the test accepts, the cleaned root is a prefix of the cleaned target -/
theorem accepted_prefix (base targ : List Seg) (h : accepted base targ = true) :
    ∃ r, targ = base ++ r ∧ r.head? ≠ some ".." := by
  obtain ⟨c, hb, ht⟩ := stripCommon_spec base targ
  unfold accepted rel at h
  cases hs : stripCommon base targ with
  | mk b' t' =>
    rw [hs] at h hb ht
    simp only at hb ht
    cases b' with
    | nil =>
      simp only [List.append_nil] at hb
      refine ⟨t', by rw [ht, hb], ?_⟩
      cases t' with
      | nil => simp
      | cons r rs => simpa using h
    | cons b bs =>
      exfalso
      simp only at h
      by_cases hbb : b = ".."
      · simp [hbb] at h
      · simp [hbb, List.replicate_succ] at h

#print axioms accepted_prefix
end Path
