/-!
Prototype for C12: one named mutex block, any number of threads (ids are naturals > 0),
any nesting, following mutexRuntime.Eval: read owner under the table lock, lock unless
owner = tid, set owner, body, deferred release (owner := 0, unlock).
`ghost` is a proof-only variable: the thread that holds the sync.Mutex.
-/
namespace Mtx

inductive Pc where
  | idle
  | wantLock            -- decided to take the lock (owner ≠ tid), blocked until free
  | lockedNoOwner       -- holds the sync.Mutex, owner not yet registered
  | inside (d : Nat)    -- executing the body; d = number of nested re-entries
  | unlocking           -- deferred release: owner reset to 0, sync.Mutex still held
  deriving DecidableEq, Repr

def Pc.isHolder : Pc → Bool
  | .lockedNoOwner => true | .inside _ => true | .unlocking => true | _ => false
def Pc.isInside : Pc → Bool
  | .inside _ => true | _ => false

structure State where
  locked : Bool
  owner  : Nat            -- 0 = nobody
  pcs    : Nat → Pc
  ghost  : Option Nat

def upd (f : Nat → Pc) (t : Nat) (v : Pc) : Nat → Pc := fun x => if x = t then v else f x

inductive Step : State → State → Prop
  | enterFresh (s t) (ht : t ≠ 0) (hp : s.pcs t = Pc.idle) (ho : s.owner ≠ t) :
      Step s { s with pcs := upd s.pcs t Pc.wantLock }
  | lock (s t) (hp : s.pcs t = Pc.wantLock) (hl : s.locked = false) :
      Step s { s with locked := true, pcs := upd s.pcs t Pc.lockedNoOwner, ghost := some t }
  | setOwner (s t) (hp : s.pcs t = Pc.lockedNoOwner) :
      Step s { s with owner := t, pcs := upd s.pcs t (Pc.inside 0) }
  | reenter (s t d) (hp : s.pcs t = Pc.inside d) (ho : s.owner = t) :
      Step s { s with pcs := upd s.pcs t (Pc.inside (d+1)) }
  | exitNested (s t d) (hp : s.pcs t = Pc.inside (d+1)) :
      Step s { s with pcs := upd s.pcs t (Pc.inside d) }
  | exitOuter (s t) (hp : s.pcs t = Pc.inside 0) :
      Step s { s with owner := 0, pcs := upd s.pcs t Pc.unlocking }
  | unlock (s t) (hp : s.pcs t = Pc.unlocking) :
      Step s { s with locked := false, pcs := upd s.pcs t Pc.idle, ghost := none }

structure Inv (s : State) : Prop where
  hold   : ∀ x, (s.pcs x).isHolder = true ↔ s.ghost = some x
  lock   : s.locked = true ↔ s.ghost ≠ none
  ins    : ∀ x, (s.pcs x).isInside = true ↔ (s.owner = x ∧ x ≠ 0)
  zero   : s.pcs 0 = Pc.idle

def init : State := { locked := false, owner := 0, pcs := fun _ => Pc.idle, ghost := none }

theorem inv_init : Inv init := by
  constructor <;> simp [init, Pc.isHolder, Pc.isInside]

theorem ne_zero_of_pc {s : State} (h : Inv s) {t : Nat} (hp : s.pcs t ≠ Pc.idle) : t ≠ 0 := by
  intro e; subst e; exact hp h.zero

theorem inv_step (s s' : State) (h : Inv s) (hs : Step s s') : Inv s' := by
  cases hs with
  | enterFresh t ht hp ho =>
    constructor
    · intro x; by_cases e : x = t
      · subst e; have := (h.hold x); simp [hp, Pc.isHolder] at this; simp [upd, Pc.isHolder]; exact this
      · simp [upd, e]; exact h.hold x
    · exact h.lock
    · intro x; by_cases e : x = t
      · subst e; have := (h.ins x); simp [hp, Pc.isInside] at this; simp [upd, Pc.isInside]; intro h1; exact absurd h1 ho
      · simp [upd, e]; exact h.ins x
    · simp [upd, Ne.symm ht]; exact h.zero
  | lock t hp hl =>
    have hg : s.ghost = none := by
      cases hgh : s.ghost with
      | none => rfl
      | some y => have := h.lock.mpr (by simp [hgh]); simp [hl] at this
    have ht : t ≠ 0 := ne_zero_of_pc h (by simp [hp])
    constructor
    · intro x; by_cases e : x = t
      · subst e; simp [upd, Pc.isHolder]
      · simp [upd, e]
        have := h.hold x; simp [hg] at this
        constructor
        · intro hx; exact absurd hx (by simpa using this)
        · intro hx; omega
    · simp
    · intro x; by_cases e : x = t
      · subst e; have := (h.ins x); simp [hp, Pc.isInside] at this; simp [upd, Pc.isInside]; exact this
      · simp [upd, e]; exact h.ins x
    · simp [upd, Ne.symm ht]; exact h.zero
  | setOwner t hp =>
    have hgt : s.ghost = some t := (h.hold t).mp (by simp [hp, Pc.isHolder])
    have ht : t ≠ 0 := ne_zero_of_pc h (by simp [hp])
    constructor
    · intro x; by_cases e : x = t
      · subst e; simp [upd, Pc.isHolder, hgt]
      · simp [upd, e]; exact h.hold x
    · exact h.lock
    · intro x; by_cases e : x = t
      · subst e; simp [upd, Pc.isInside, ht]
      · simp [upd, e]
        have hx := h.hold x
        have : (s.pcs x).isInside = false := by
          cases hpx : s.pcs x <;> simp [Pc.isInside]
          rename_i d
          have := hx.mp (by simp [hpx, Pc.isHolder]); rw [hgt] at this; exact e (Option.some.inj this).symm
        simp [this]; intro c; exact absurd c.symm e
    · simp [upd, Ne.symm ht]; exact h.zero
  | reenter t d hp ho =>
    have ht : t ≠ 0 := ne_zero_of_pc h (by simp [hp])
    constructor
    · intro x; by_cases e : x = t
      · subst e; have := h.hold x; simp [hp, Pc.isHolder] at this; simp [upd, Pc.isHolder]; exact this
      · simp [upd, e]; exact h.hold x
    · exact h.lock
    · intro x; by_cases e : x = t
      · subst e; simp [upd, Pc.isInside, ho, ht]
      · simp [upd, e]; exact h.ins x
    · simp [upd, Ne.symm ht]; exact h.zero
  | exitNested t d hp =>
    have ht : t ≠ 0 := ne_zero_of_pc h (by simp [hp])
    have ho : s.owner = t := ((h.ins t).mp (by simp [hp, Pc.isInside])).1
    constructor
    · intro x; by_cases e : x = t
      · subst e; have := h.hold x; simp [hp, Pc.isHolder] at this; simp [upd, Pc.isHolder]; exact this
      · simp [upd, e]; exact h.hold x
    · exact h.lock
    · intro x; by_cases e : x = t
      · subst e; simp [upd, Pc.isInside, ho, ht]
      · simp [upd, e]; exact h.ins x
    · simp [upd, Ne.symm ht]; exact h.zero
  | exitOuter t hp =>
    have ht : t ≠ 0 := ne_zero_of_pc h (by simp [hp])
    have ho : s.owner = t := ((h.ins t).mp (by simp [hp, Pc.isInside])).1
    constructor
    · intro x; by_cases e : x = t
      · subst e; have := h.hold x; simp [hp, Pc.isHolder] at this; simp [upd, Pc.isHolder]; exact this
      · simp [upd, e]; exact h.hold x
    · exact h.lock
    · intro x; by_cases e : x = t
      · subst e; simp [upd, Pc.isInside]; intro c; exact absurd c.symm ht
      · simp [upd, e]
        have := h.ins x
        have hx : (s.pcs x).isInside = false := by
          cases hb : (s.pcs x).isInside with
          | false => rfl
          | true => exact absurd ((this.mp hb).1.symm.trans ho) e
        simp [hx]; omega
    · simp [upd, Ne.symm ht]; exact h.zero
  | unlock t hp =>
    have ht : t ≠ 0 := ne_zero_of_pc h (by simp [hp])
    have hgt : s.ghost = some t := (h.hold t).mp (by simp [hp, Pc.isHolder])
    constructor
    · intro x; by_cases e : x = t
      · subst e; simp [upd, Pc.isHolder]
      · simp [upd, e]
        have := h.hold x; rw [hgt] at this
        cases hb : (s.pcs x).isHolder with
        | false => rfl
        | true => exact absurd (Option.some.inj (this.mp hb)).symm e
    · simp
    · intro x; by_cases e : x = t
      · subst e; have := (h.ins x); simp [hp, Pc.isInside] at this; simp [upd, Pc.isInside]; exact this
      · simp [upd, e]; exact h.ins x
    · simp [upd, Ne.symm ht]; exact h.zero

inductive Reach : State → Prop
  | init : Reach init
  | step {s s'} : Reach s → Step s s' → Reach s'

theorem inv_reach {s : State} (h : Reach s) : Inv s := by
  induction h with
  | init => exact inv_init
  | step _ hs ih => exact inv_step _ _ ih hs

/-- C12 core: two different threads are never both inside blocks of the same name -/
theorem mutual_exclusion {s : State} (h : Reach s) (t1 t2 d1 d2 : Nat)
    (h1 : s.pcs t1 = Pc.inside d1) (h2 : s.pcs t2 = Pc.inside d2) : t1 = t2 := by
  have hi := inv_reach h
  have a := (hi.hold t1).mp (by simp [h1, Pc.isHolder])
  have b := (hi.hold t2).mp (by simp [h2, Pc.isHolder])
  rw [a] at b; exact Option.some.inj b

/-- a thread inside the block can always re-enter (never blocks on itself) -/
theorem reentrant_no_block {s : State} (h : Reach s) (t d : Nat) (hp : s.pcs t = Pc.inside d) :
    ∃ s', Step s s' ∧ s'.pcs t = Pc.inside (d+1) := by
  have ho : s.owner = t := (((inv_reach h).ins t).mp (by simp [hp, Pc.isInside])).1
  exact ⟨_, Step.reenter s t d hp ho, by simp [upd]⟩

/-- a waiting thread is blocked only while some thread really holds the lock -/
theorem later_entrant_gets_in {s : State} (h : Reach s) (t : Nat) (hp : s.pcs t = Pc.wantLock)
    (hfree : ∀ x, (s.pcs x).isHolder = false) : ∃ s', Step s s' ∧ s'.pcs t = Pc.lockedNoOwner := by
  have hi := inv_reach h
  have hl : s.locked = false := by
    cases hb : s.locked with
    | false => rfl
    | true =>
      have := hi.lock.mp hb
      cases hg : s.ghost with
      | none => exact absurd hg this
      | some y => have := (hi.hold y).mpr hg; simp [hfree y] at this
  exact ⟨_, Step.lock s t hp hl, by simp [upd]⟩

#print axioms mutual_exclusion
end Mtx
