/-!
Prototype for C01: the bit-mask step of RuleMatcherKey.match / unmatch equals
the per-rule (per-bit) specification.  Kernel-only (no bv_decide).
-/
namespace Mask

abbrev W := BitVec 64

/-- Go: toRemove := (bitsAny | additional) ^ bits ; keyMatched := bits0 ^ (bits0 & toRemove) -/
def matchStep (bits bitsAny additional cur : W) : W :=
  let toRemove := (bitsAny ||| additional) ^^^ bits
  cur ^^^ (cur &&& toRemove)

/-- Go: bits0 ^ (bits0 & rm.bits) -/
def unmatchStep (bits cur : W) : W := cur ^^^ (cur &&& bits)

/-- Spec, per rule i: rule i stays in iff it was in and (it does not constrain this key,
    or it accepts any value, or it requires exactly this value). -/
theorem matchStep_bit (bits bitsAny additional cur : W) (i : Nat)
    (hAny : bitsAny &&& bits = bitsAny) (hAdd : additional &&& bits = additional) :
    (matchStep bits bitsAny additional cur).getLsbD i =
      (cur.getLsbD i && (!bits.getLsbD i || bitsAny.getLsbD i || additional.getLsbD i)) := by
  have h1 : (bitsAny.getLsbD i && bits.getLsbD i) = bitsAny.getLsbD i := by
    have := congrArg (·.getLsbD i) hAny; simpa using this
  have h2 : (additional.getLsbD i && bits.getLsbD i) = additional.getLsbD i := by
    have := congrArg (·.getLsbD i) hAdd; simpa using this
  simp only [matchStep, BitVec.getLsbD_xor, BitVec.getLsbD_and, BitVec.getLsbD_or]
  generalize cur.getLsbD i = c at *
  generalize bits.getLsbD i = b at *
  generalize bitsAny.getLsbD i = a at *
  generalize additional.getLsbD i = d at *
  cases c <;> cases b <;> cases a <;> cases d <;> simp_all

theorem unmatchStep_bit (bits cur : W) (i : Nat) :
    (unmatchStep bits cur).getLsbD i = (cur.getLsbD i && !bits.getLsbD i) := by
  simp only [unmatchStep, BitVec.getLsbD_xor, BitVec.getLsbD_and]
  cases cur.getLsbD i <;> cases bits.getLsbD i <;> rfl

#print axioms matchStep_bit

/-- the collection loop of matchAtLevel, with fuel: `collectionBits <= matchBits` -/
def collect (fuel : Nat) (i : Nat) (cb mb : W) (acc : List Nat) : Option (List Nat) :=
  match fuel with
  | 0 => none
  | fuel+1 =>
    if cb ≤ mb then
      collect fuel (i+1) (cb <<< 1) mb (if mb &&& cb ≠ 0 then acc ++ [i] else acc)
    else some acc

/-- with bit 63 set the loop never ends (cb wraps to 0 and 0 ≤ mb): no fuel suffices -/
theorem collect_diverges_at_63 : collect 200 0 1 (1 <<< 63) [] = none := by decide

end Mask
