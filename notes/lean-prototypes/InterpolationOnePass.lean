/-!
Prototype for C14: one-pass string interpolation over character lists.
`ev` turns the code between the markers into its replacement text; nothing about
`ev` is assumed, so it may return text that contains markers itself.
-/
namespace Interp

abbrev Str := List Char

/-- split at the first "{{" : (text before, text after the marker) -/
def splitOpen : Str → Option (Str × Str)
  | [] => none
  | '{' :: '{' :: rest => some ([], rest)
  | c :: rest => (splitOpen rest).map fun (a, b) => (c :: a, b)

/-- split at the first "}}" -/
def splitClose : Str → Option (Str × Str)
  | [] => none
  | '}' :: '}' :: rest => some ([], rest)
  | c :: rest => (splitClose rest).map fun (a, b) => (c :: a, b)

theorem splitOpen_len : ∀ {s a b}, splitOpen s = some (a, b) → b.length < s.length := by
  intro s
  induction s using splitOpen.induct with
  | case1 => intro a b h; simp [splitOpen] at h
  | case2 rest => intro a b h; simp [splitOpen] at h; obtain ⟨_, rfl⟩ := h; simp; omega
  | case3 c rest hne ih =>
    intro a b h
    rw [splitOpen] at h
    · cases hr : splitOpen rest with
      | none => simp [hr] at h
      | some p => obtain ⟨a', b'⟩ := p; simp [hr] at h; obtain ⟨_, rfl⟩ := h; have := ih hr; simp; omega
    · intro rest' h1 h2; exact hne rest' h1 h2

theorem splitClose_len : ∀ {s a b}, splitClose s = some (a, b) → b.length < s.length := by
  intro s
  induction s using splitClose.induct with
  | case1 => intro a b h; simp [splitClose] at h
  | case2 rest => intro a b h; simp [splitClose] at h; obtain ⟨_, rfl⟩ := h; simp; omega
  | case3 c rest hne ih =>
    intro a b h
    rw [splitClose] at h
    · cases hr : splitClose rest with
      | none => simp [hr] at h
      | some p => obtain ⟨a', b'⟩ := p; simp [hr] at h; obtain ⟨_, rfl⟩ := h; have := ih hr; simp; omega
    · intro rest' h1 h2; exact hne rest' h1 h2

/-- the segmentation of a literal: a function of the literal alone -/
inductive Seg where
  | text (s : Str)
  | code (c : Str)
  deriving Repr, DecidableEq

def segments (s : Str) : List Seg :=
  match h1 : splitOpen s with
  | none => [Seg.text s]
  | some (before, afterOpen) =>
    match h2 : splitClose afterOpen with
    | none => [Seg.text s]                       -- no closing marker after the opening one: rest verbatim
    | some (code, afterClose) => Seg.text before :: Seg.code code :: segments afterClose
termination_by s.length
decreasing_by
  have := splitOpen_len h1; have := splitClose_len h2; omega

/-- one-pass interpolation -/
def interp (ev : Str → Str) (s : Str) : Str :=
  (segments s).flatMap fun
    | Seg.text t => t
    | Seg.code c => ev c

/-- the expressions that get evaluated, in order: depends on the literal only -/
def evaluated (s : Str) : List Str :=
  (segments s).filterMap fun | Seg.code c => some c | _ => none

/-- instrumented interpolation: output and the log of calls made to `ev` -/
def interpLog (ev : Str → Str) (s : Str) : Str × List Str :=
  (segments s).foldl (fun (acc : Str × List Str) seg =>
    match seg with
    | Seg.text t => (acc.1 ++ t, acc.2)
    | Seg.code c => (acc.1 ++ ev c, acc.2 ++ [c])) ([], [])

theorem foldl_log (ev : Str → Str) (segs : List Seg) (o : Str) (l : List Str) :
    (segs.foldl (fun (acc : Str × List Str) seg =>
      match seg with
      | Seg.text t => (acc.1 ++ t, acc.2)
      | Seg.code c => (acc.1 ++ ev c, acc.2 ++ [c])) (o, l)).2
    = l ++ segs.filterMap fun | Seg.code c => some c | _ => none := by
  induction segs generalizing o l with
  | nil => simp
  | cons seg segs ih =>
    cases seg with
    | text t => simp [List.foldl, ih]
    | code c => simp [List.foldl, ih]

/-- C14: whatever the substitutions return (even text full of markers), exactly the
    literal's own expressions are evaluated, each once, left to right -/
theorem calls_are_the_literals_own (ev : Str → Str) (s : Str) :
    (interpLog ev s).2 = evaluated s := by
  simp [interpLog, evaluated, foldl_log]

/-- substituted text is copied to the output verbatim: the output is the concatenation of
    the literal's own text segments and the raw results of `ev` -/
theorem interp_is_concat (ev : Str → Str) (s : Str) :
    interp ev s = ((segments s).map fun | Seg.text t => t | Seg.code c => ev c).flatten := by
  simp [interp, List.flatMap]

/-- a literal without an opening marker is returned untouched -/
theorem interp_no_marker (ev : Str → Str) (s : Str) (h : splitOpen s = none) : interp ev s = s := by
  unfold interp; rw [segments]; split
  · simp
  · rename_i a b h1; rw [h] at h1; cases h1

#eval String.ofList (interp (fun c => if c = "a".toList then "{{b}}".toList else "?".toList) "x{{a}}y}}{{".toList)
#eval String.ofList (interp (fun _ => "?".toList) "}} {{".toList)
end Interp
