import Em.Engine
open Ecal.Engine

def parseVal (s : String) : SVal :=
  if s == "*" then .any else if s == "L" then .list
  else if s.startsWith "n" then .num ((s.drop 1).toString.toInt!)
  else if s.startsWith "b" then .bool ((s.drop 1).toString == "1")
  else .str (s.drop 1).toString

def parseState (s : String) : List (String × SVal) :=
  if s == "-" || s == "" then [] else (s.splitOn ";").map fun kv =>
    match kv.splitOn "=" with
    | [k, v] => (k, parseVal v)
    | _ => ("?", .any)

/-- line: `R name kind,kind state|-none prio ... E kind state ...`  (fields separated by spaces) -/
def runLine (line : String) : String := Id.run do
  let toks := (line.splitOn " ").filter (· != "")
  let mut idx : Out Idx := .ok (Idx.kind [] [])
  let mut outs : List String := []
  let mut i := 0
  let arr := toks.toArray
  while i < arr.size do
    if arr[i]! == "R" then
      let name := arr[i+1]!
      let kinds := ((arr[i+2]!.replace "~" "").splitOn ",").map fun k => k.splitOn "."
      let st := arr[i+3]!
      let rule : Rule := { name := name, kinds := kinds, state := if st == "none" then none else some (parseState st) }
      idx := match idx with
        | .ok ix => addRule ix rule
        | o => o
      i := i + 4
    else if arr[i]! == "E" then
      let ev : Event := { kind := (arr[i+1]!.replace "~" "").splitOn ".", state := parseState arr[i+2]! }
      let o := match idx with
        | .ok ix =>
          let t := if trigAt ev 0 ix then "T" else "F"
          match matchAt ev 0 ix with
          | .ok l => t ++ ":" ++ ",".intercalate l
          | .panic => t ++ ":PANIC"
          | .hang => t ++ ":HANG"
        | .panic => "ADDPANIC"
        | .hang => "ADDHANG"
      outs := outs ++ [o]
      i := i + 3
    else i := i + 1
  return " ".intercalate outs

partial def loop (h o : IO.FS.Stream) : IO Unit := do
  let line ← h.getLine
  if line.isEmpty then return ()
  o.putStrLn (runLine line.trimAscii.toString)
  loop h o

def main : IO Unit := do loop (← IO.getStdin) (← IO.getStdout)
