import subprocess, sys
lines=open(sys.argv[1]).read().splitlines()
out=[]; i=0
while i < len(lines):
    p=subprocess.run(["/tmp/em/g/goeng"], input="\n".join(lines[i:])+"\n", capture_output=True, text=True)
    o=p.stdout.splitlines()
    if not o and p.returncode!=0:
        o=["CRASH"]           # never loop without progress
    out+=o; i+=len(o)
    if p.returncode==0: break
open(sys.argv[2],"w").write("\n".join(out)+"\n")
