import random, sys
random.seed(int(sys.argv[1])); n=int(sys.argv[2])
segs=["a","b","*","~"]
def kind(): return ".".join(random.choice(segs) for _ in range(random.randint(1,3)))
def ekind(): return ".".join(random.choice(["a","b","c","~"]) for _ in range(random.randint(1,3)))
vals=["*","n1","n2","sx","b1","L"]
def st(p_none, allowL):
    if random.random()<p_none: return "none"
    ks=random.sample(["k","l","m"], random.randint(0,2))
    if not ks: return "-"
    return ";".join(k+"="+random.choice(vals if allowL and random.random()<0.05 else vals[:-1]) for k in ks)
for i in range(n):
    parts=[]
    big = random.random()<0.03
    nr = random.randint(60,70) if big else random.randint(1,6)
    fixedkind = kind()
    for r in range(nr):
        ks=",".join((fixedkind if big else kind()) for _ in range(1 if big else random.randint(1,2)))
        parts.append("R r%d %s %s"%(r,ks,st(0.0 if big else 0.4, True)))
    for e in range(random.randint(1,4)):
        s=st(0.0, True)
        parts.append("E %s %s"%(fixedkind.replace("*","a") if big and random.random()<0.8 else ekind(), "-" if s=="none" else s))
    print(" ".join(parts))
