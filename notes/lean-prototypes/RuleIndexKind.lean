/-!
Prototype for C01: the kind-level rule index tree (RuleIndexKind with "all" leaves)
returns, for every event kind, exactly the (rule, pattern) pairs whose pattern matches
segment by segment ("*" = any one segment, same length).  State matching, scope and
suppression are layered on top of this in the full model.
-/
namespace Ridx

abbrev Seg := String
abbrev RuleId := Nat

/-- reference: a pattern matches a kind -/
def patMatch : List Seg → List Seg → Bool
  | [], [] => true
  | p :: ps, k :: ks => (p == "*" || p == k) && patMatch ps ks
  | _, _ => false

/-- the tree: rules ending here, wildcard subtree, exact-segment subtrees -/
inductive Tree where
  | node (leaf : List RuleId) (wild : Option Tree) (exact : List (Seg × Tree))
  deriving Repr

def Tree.empty : Tree := .node [] none []

/-- lookup in the association list of exact children -/
def lookup (s : Seg) : List (Seg × Tree) → Option Tree
  | [] => none
  | (k, t) :: rest => if k = s then some t else lookup s rest

/-- replace or add a child -/
def setChild (s : Seg) (t : Tree) : List (Seg × Tree) → List (Seg × Tree)
  | [] => [(s, t)]
  | (k, t') :: rest => if k = s then (s, t) :: rest else (k, t') :: setChild s t rest

theorem lookup_setChild_same (s : Seg) (t : Tree) (l : List (Seg × Tree)) :
    lookup s (setChild s t l) = some t := by
  induction l with
  | nil => simp [setChild, lookup]
  | cons kv rest ih =>
    obtain ⟨k, t'⟩ := kv
    by_cases h : k = s <;> simp [setChild, lookup, h, ih]

theorem lookup_setChild_other (s s' : Seg) (t : Tree) (l : List (Seg × Tree)) (h : s' ≠ s) :
    lookup s' (setChild s t l) = lookup s' l := by
  induction l with
  | nil => simp [setChild, lookup, Ne.symm h]
  | cons kv rest ih =>
    obtain ⟨k, t'⟩ := kv
    by_cases hk : k = s
    · subst hk; simp [setChild, lookup, Ne.symm h]
    · by_cases hk' : k = s'
      · subst hk'; simp [setChild, lookup, hk]
      · simp [setChild, lookup, hk, hk', ih]

/-- addRuleAtLevel -/
def insert (r : RuleId) : List Seg → Tree → Tree
  | [], .node leaf wild exact => .node (leaf ++ [r]) wild exact
  | p :: ps, .node leaf wild exact =>
    if p = "*" then .node leaf (some (insert r ps (wild.getD Tree.empty))) exact
    else .node leaf wild (setChild p (insert r ps ((lookup p exact).getD Tree.empty)) exact)

/-- matchAtLevel: wildcard subtree first, then the exact subtree -/
def find : Tree → List Seg → List RuleId
  | .node leaf _ _, [] => leaf
  | .node _ wild exact, k :: ks =>
    (match wild with | some w => find w ks | none => []) ++
    (match lookup k exact with | some t => find t ks | none => [])

theorem find_empty (ks : List Seg) : find Tree.empty ks = [] := by
  cases ks <;> simp [find, Tree.empty, lookup]

/-- counting occurrences makes "exactly once per matching pattern" precise -/
theorem find_insert (r : RuleId) : ∀ (pat : List Seg) (t : Tree) (ks : List Seg) (x : RuleId),
    (find (insert r pat t) ks).count x =
      (find t ks).count x + (if x = r ∧ patMatch pat ks = true then 1 else 0) := by
  intro pat
  induction pat with
  | nil =>
    intro t ks x
    obtain ⟨leaf, wild, exact⟩ := t
    cases ks with
    | nil =>
      simp only [insert, find, patMatch, List.count_append, and_true]
      by_cases hx : x = r <;> simp [hx, List.count_cons, List.count_nil, Ne.symm]
    | cons k ks => simp [insert, find, patMatch]
  | cons p ps ih =>
    intro t ks x
    obtain ⟨leaf, wild, exact⟩ := t
    cases ks with
    | nil =>
      simp only [insert, patMatch]
      split <;> simp [find]
    | cons k ks =>
      simp only [insert]
      by_cases hp : p = "*"
      · simp only [hp, if_true, find, List.count_append]
        have := ih (wild.getD Tree.empty) ks x
        cases wild with
        | none =>
          simp only [Option.getD] at this ⊢
          rw [this, find_empty]
          simp [patMatch] <;> omega
        | some w =>
          simp only [Option.getD] at this ⊢
          rw [this]
          simp [patMatch] <;> omega
      · simp only [hp, if_false, find, List.count_append]
        by_cases hk : k = p
        · subst hk
          rw [lookup_setChild_same]
          have := ih ((lookup k exact).getD Tree.empty) ks x
          simp only
          rw [this]
          cases hl : lookup k exact with
          | none => simp [find_empty, patMatch, hp] <;> omega
          | some t' => simp [patMatch, hp] <;> omega
        · rw [lookup_setChild_other _ _ _ _ hk]
          have hpk : (p == k) = false := by simp; exact fun h => hk h.symm
          simp [patMatch, hp, hpk]

/-- build the index from (rule, pattern) pairs -/
def build (rules : List (RuleId × List Seg)) : Tree :=
  rules.foldl (fun t rp => insert rp.1 rp.2 t) Tree.empty

/-- C01 kind level: the index returns rule `x` once per pattern of `x` that matches -/
theorem find_build (rules : List (RuleId × List Seg)) (ks : List Seg) (x : RuleId) :
    (find (build rules) ks).count x =
      (rules.filter fun rp => rp.1 == x && patMatch rp.2 ks).length := by
  unfold build
  suffices ∀ (t : Tree), (find (rules.foldl (fun t rp => insert rp.1 rp.2 t) t) ks).count x =
      (find t ks).count x + (rules.filter fun rp => rp.1 == x && patMatch rp.2 ks).length by
    have h := this Tree.empty
    rw [find_empty] at h; simpa using h
  induction rules with
  | nil => intro t; simp
  | cons rp rules ih =>
    intro t
    simp only [List.foldl_cons]
    rw [ih, find_insert, List.filter_cons]
    by_cases h1 : rp.1 = x
    · cases h2 : patMatch rp.2 ks
      · simp [h1, h2]
      · simp [h1, h2]; omega
    · have h1' : ¬ x = rp.1 := fun c => h1 c.symm
      simp [h1, h1']

#print axioms find_build
end Ridx
