import Pm.Printer
open Ecal.Lex Ecal.Parse Ecal.Print

def hexDigits : Array Char := "0123456789abcdef".toList.toArray
def toHex (l : List Nat) : String :=
  String.ofList (l.flatMap fun b => [hexDigits[b / 16 % 16]!, hexDigits[b % 16]!])
def hv (c : Char) : Nat :=
  let n := c.toNat
  if 48 ≤ n && n ≤ 57 then n - 48 else n - 87
def fromHex (s : String) : List Nat :=
  let rec go : List Char → List Nat
    | a :: b :: r => (hv a * 16 + hv b) :: go r
    | _ => []
  go s.toList

partial def loop (h o : IO.FS.Stream) : IO Unit := do
  let line ← h.getLine
  if line.isEmpty then return ()
  let inp := fromHex line.trimAscii.toString
  let (t, e) := parse inp
  let out := match t, e with
    | some n, none =>
      match prettyPrint (some n) with
      | .ok txt => "PP " ++ toHex txt
      | .error .panic => "PPPANIC"
      | .error .nilNode => "PPNIL"
    | _, some Err.panic => "PANIC"
    | _, _ => "NOPARSE"
  o.putStrLn out
  loop h o

def main : IO Unit := do loop (← IO.getStdin) (← IO.getStdout)
