import random, sys
random.seed(int(sys.argv[1])); n=int(sys.argv[2])
toks=["a","b","1","\"s\"","r'x'","(",")","[","]","{","}",",",";",":",":=","=","+","-","*","/","not","and","or","<","==","in",".","if","elif","else","for","func","return","try","except","as","otherwise","finally","mutex","sink","kindmatch","priority","import","let","break","\n","# c\n","/* c */","true","null","\"","~","like","notin","continue","f(","a.b","x[1]","{1:2}","[1,2]"]
for i in range(n):
    k=random.randint(0,9)
    s=" ".join(random.choice(toks) for _ in range(k))
    print(s.encode().hex())
