import random, sys
random.seed(int(sys.argv[1]))
n=int(sys.argv[2])
atoms=[b"a",b"if",b"IF",b"x1",b"1",b"12.5",b"1e+5",b"1e5",b"1.2.3",b"0x1",b".",b":=",b":",b"=",b"==",b"!=",b"!",b">=",b">",b"//",b"/",b"/*",b"*/",b"*",b"#",b"\n",b"\r\n",b" ",b"\t",b"\"",b"'",b"r\"",b"r'",b"\\",b"\\n",b"\\\"",b"\\u0041",b"\\x41",b"\\101",b"\\q",b"{{",b"}}",b"(",b")",b"[",b"]",b"{",b"}",b",",b";",b"+",b"-",b"%",b"e",b"e+",b"\xc3\xa9",b"\xc2\xb2",b"\xc2\xa0",b"\xc2\x85",b"\xff",b"\xc3",b"\xe2\x80\xa8",b"\xf0\x9f\x98\x80",b"\x00",b"\x7f",b"and",b"notin",b"_",b"a_b",b"1a",b"a1"]
for i in range(n):
    k=random.randint(0,7)
    s=b"".join(random.choice(atoms) for _ in range(k))
    print(s.hex())
