import Pm.Parser
open Ecal.Lex Ecal.Parse

def hexDigits : Array Char := "0123456789abcdef".toList.toArray
def toHex (l : List Nat) : String :=
  String.ofList (l.flatMap fun b => [hexDigits[b / 16 % 16]!, hexDigits[b % 16]!])
def hv (c : Char) : Nat :=
  let n := c.toNat
  if 48 ≤ n && n ≤ 57 then n - 48 else n - 87
def fromHex (s : String) : List Nat :=
  let rec go : List Char → List Nat
    | a :: b :: r => (hv a * 16 + hv b) :: go r
    | _ => []
  go s.toList

partial def showNode : Option Node → String
  | none => "nil"
  | some n =>
    let t := match n.tok with
      | some t => s!":{toHex t.val}:{if t.allowEscapes then 1 else 0}"
      | none => ":-"
    let cs := n.children.map showNode
    "(" ++ n.name ++ t ++ (if cs.isEmpty then "" else " " ++ " ".intercalate cs) ++ ")"

def showErr : Err → String
  | .perr k l c => s!"ERR[{k}|{l}|{c}]"
  | .panic => "PANIC"
  | .fuel => "FUEL"

partial def loop (h o : IO.FS.Stream) : IO Unit := do
  let line ← h.getLine
  if line.isEmpty then return ()
  let inp := fromHex line.trimAscii.toString
  let (t, e) := parse inp
  let ts := match t with | some n => showNode (some n) | none => "-"
  let es := match e with | some e => showErr e | none => "-"
  o.putStrLn (if e = some Err.panic then "PANIC" else ts ++ " " ++ es)
  loop h o

def main : IO Unit := do loop (← IO.getStdin) (← IO.getStdout)
