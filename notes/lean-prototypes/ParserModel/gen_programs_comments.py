import random, sys
random.seed(int(sys.argv[1])); n=int(sys.argv[2])
strs=["\"a\"","'b\"c'","r\"raw {{x}}\"","\"t\\n\\t\\\"q\\\"\"","\"\\u00e9 \\x41\"","'it''s'","r'multi\nline'","\"{{a}} and {{b}}\"","\"\xc3\xa9\"","\"tab\\there\"","\"nul\\x00\"","\"\\u2028\""]
coms=["# post\n","/* pre */","/* multi\n line */","/**/","#\n","/* a */ /* b */","# x # y\n"]
def atom(): return random.choice(["a","b","1","2.50","1e+3","true","false","null","a.b.c","f()","f(1, 2)","a[0][1]","x.y(2)[3].z"]+strs)
def expr(d):
    r=random.random()
    if d<=0 or r<0.3: return atom()
    if r<0.65: return expr(d-1)+" "+random.choice(["+","-","*","/","//","%","==","!=","<",">=","and","or","like","in","notin","hasprefix","hassuffix"])+" "+expr(d-1)
    if r<0.72: return random.choice(["-","+","not "])+expr(d-1)
    if r<0.8: return "("+expr(d-1)+")"
    if r<0.9: return "["+", ".join(expr(d-1) for _ in range(random.randint(0,6)))+"]"
    return "{"+", ".join(atom()+" : "+expr(d-1) for _ in range(random.randint(0,4)))+"}"
def block(d): return "{\n"+stmts(d-1)+"\n}"
def stmt(d):
    r=random.random()
    c=random.choice(coms)+" " if random.random()<0.25 else ""
    c2=" "+random.choice(["# post"]) if random.random()<0.2 else ""
    if d<=0 or r<0.35: return c+random.choice(["a := "+expr(2), expr(2), "let x := "+expr(1), "return "+expr(1), "[a, b] := "+expr(1), "break", "continue"])+c2
    if r<0.5: return c+"if "+expr(1)+" "+block(d)+(" elif "+expr(1)+" "+block(d) if random.random()<0.4 else "")+(" else "+block(d) if random.random()<0.5 else "")
    if r<0.6: return c+"for "+random.choice(["a in "+expr(1),"[a,b] in "+expr(1),"("+expr(1)+")"])+" "+block(d)
    if r<0.7: return c+"func "+random.choice(["f",""])+"("+random.choice(["","a","a, b=1","a=1,b"])+") "+block(d)
    if r<0.85:
        s="try "+block(d)
        for _ in range(random.randint(0,2)):
            s+=" except "+random.choice(["","e ","\"T\" ","\"T\" as e ","\"A\", \"B\" ","\"A\", \"B\" as e ","as e "])+block(d)
        if random.random()<0.4: s+=" otherwise "+block(d)
        if random.random()<0.5: s+=" finally "+block(d)
        return c+s
    if r<0.9: return c+"mutex m "+block(d)
    if r<0.96: return c+"sink s\n kindmatch [\"a\"],\n priority 1 "+random.choice(["","\n statematch {\"a\":1, \"b\":2, \"c\":3} ","\n suppresses [\"x\"] "])+block(d)
    return c+"import \"x\" as y"
def stmts(d): return random.choice(["\n","\n\n","\n\n\n","; "]).join(("  "*random.randint(0,2))+stmt(d) for _ in range(random.randint(0,3)))
for i in range(n):
    print(stmts(3).encode().hex())
