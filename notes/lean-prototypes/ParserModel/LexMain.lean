import Pm.Lexer
open Ecal.Lex

def hexDigits : Array Char := "0123456789abcdef".toList.toArray
def toHex (l : List Nat) : String :=
  String.ofList (l.flatMap fun b => [hexDigits[b / 16 % 16]!, hexDigits[b % 16]!])
def hv (c : Char) : Nat :=
  let n := c.toNat
  if 48 ≤ n && n ≤ 57 then n - 48 else n - 87
def fromHex (s : String) : List Nat :=
  let rec go : List Char → List Nat
    | a :: b :: r => (hv a * 16 + hv b) :: go r
    | _ => []
  go s.toList

def showTok (t : Tok) : String :=
  let v := if t.id = tERROR then "" else toHex t.val
  s!"{t.id}:{t.pos}:{v}:{if t.identifier then 1 else 0}:{if t.allowEscapes then 1 else 0}:{t.prefixNl}:{t.line}:{t.col}"

partial def loop (h : IO.FS.Stream) (o : IO.FS.Stream) : IO Unit := do
  let line ← h.getLine
  if line.isEmpty then return ()
  let inp := fromHex line.trimAscii.toString
  let toks := lex inp
  o.putStrLn (" ".intercalate (toks.toList.map showTok))
  loop h o

def main : IO Unit := do
  loop (← IO.getStdin) (← IO.getStdout)
