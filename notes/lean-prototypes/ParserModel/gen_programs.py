import random, sys
random.seed(int(sys.argv[1])); n=int(sys.argv[2])
def expr(d):
    r=random.random()
    if d<=0 or r<0.3:
        return random.choice(["a","b","1","2.5","\"s\"","r\"x\"","true","null","a.b","f(1)","a[0]","x.y(2).z","[1,2]","{1:2}","{\"a\":[1]}"])
    if r<0.6:
        return expr(d-1)+" "+random.choice(["+","-","*","/","//","%","==","!=","<",">=","and","or","like","in","notin","hasprefix",":="])+" "+expr(d-1)
    if r<0.7: return random.choice(["-","+","not "])+expr(d-1)
    if r<0.8: return "("+expr(d-1)+")"
    if r<0.9: return "f("+", ".join(expr(d-1) for _ in range(random.randint(0,3)))+")"
    return "["+", ".join(expr(d-1) for _ in range(random.randint(0,3)))+"]"
def block(d): return "{ "+stmts(d-1)+" }"
def stmt(d):
    r=random.random()
    if d<=0 or r<0.3: return random.choice(["a := "+expr(2), expr(2), "let x := "+expr(1), "return "+expr(1), "return", "break", "continue"])
    if r<0.45: return "if "+expr(1)+" "+block(d)+(" elif "+expr(1)+" "+block(d) if random.random()<0.4 else "")+(" else "+block(d) if random.random()<0.5 else "")
    if r<0.55: return "for "+random.choice(["a in "+expr(1),"[a,b] in "+expr(1),expr(1)])+" "+block(d)
    if r<0.65: return "func "+random.choice(["f",""])+"("+random.choice(["","a","a, b=1","a=1,b"])+") "+block(d)
    if r<0.8:
        s="try "+block(d)
        for _ in range(random.randint(0,2)):
            s+=" except "+random.choice(["","e ","\"T\" ","\"T\" as e ","\"A\", \"B\" ","\"A\", \"B\" as e ","as e "])+block(d)
        if random.random()<0.4: s+=" otherwise "+block(d)
        if random.random()<0.5: s+=" finally "+block(d)
        return s
    if r<0.87: return "mutex m "+block(d)
    if r<0.93: return "sink s kindmatch [\"a\"], priority 1 "+random.choice(["","statematch {\"a\":1} ","suppresses [\"x\"] "])+block(d)
    return "import \"x\" as y"
def stmts(d): return random.choice(["; ","\n","\n\n"," # c\n"," /* c */ \n"]).join(stmt(d) for _ in range(random.randint(0,3)))
def mutate(s):
    t=s.split(" ")
    if not t: return s
    r=random.random()
    i=random.randrange(len(t))
    if r<0.25: del t[i]
    elif r<0.5: t.insert(i,t[i])
    elif r<0.75:
        j=random.randrange(len(t)); t[i],t[j]=t[j],t[i]
    else: t.insert(i,random.choice(["{","}","(",")",";","\"","~","else","except",","]))
    return " ".join(t)
for i in range(n):
    s=stmts(3)
    if random.random()<0.5: s=mutate(s)
    print(s.encode().hex())
