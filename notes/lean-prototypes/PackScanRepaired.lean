/-!
Prototype for C20: block-wise search for a marker with an overlap of |marker|-1 bytes
(the repaired scanner) finds the FIRST occurrence, for every content and block size.
-/
namespace Scan
variable {α : Type} [BEq α] [LawfulBEq α] [DecidableEq α]

/-- `M` occurs in `l` at index `i` -/
def occ (M l : List α) (i : Nat) : Prop := M <+: l.drop i

/-- index of the first occurrence -/
def findFirst (M : List α) : List α → Option Nat
  | [] => if M = [] then some 0 else none
  | x :: xs => if M.isPrefixOf (x :: xs) then some 0 else (findFirst M xs).map (· + 1)

theorem findFirst_some {M : List α} : ∀ {l : List α} {i : Nat}, findFirst M l = some i →
    occ M l i ∧ ∀ j, j < i → ¬ occ M l j := by
  intro l
  induction l with
  | nil =>
    intro i h
    simp only [findFirst] at h
    split at h
    · rename_i hM; cases h; subst hM; exact ⟨by simp [occ], by intro j hj; omega⟩
    · cases h
  | cons x xs ih =>
    intro i h
    simp only [findFirst] at h
    split at h
    · rename_i hp; cases h
      exact ⟨by simpa [occ] using hp, by intro j hj; omega⟩
    · rename_i hp
      cases hf : findFirst M xs with
      | none => simp [hf] at h
      | some k =>
        simp [hf] at h; subst h
        obtain ⟨h1, h2⟩ := ih hf
        refine ⟨by simpa [occ] using h1, ?_⟩
        intro j hj
        cases j with
        | zero => simpa [occ] using hp
        | succ j => have := h2 j (by omega); simpa [occ] using this

theorem findFirst_none {M : List α} (hM : M ≠ []) : ∀ {l : List α}, findFirst M l = none →
    ∀ j, ¬ occ M l j := by
  intro l
  induction l with
  | nil =>
    intro _ j h
    simp only [occ, List.drop_nil, List.prefix_nil] at h
    exact hM h
  | cons x xs ih =>
    intro h j
    simp only [findFirst] at h
    split at h
    · cases h
    · rename_i hp
      cases hf : findFirst M xs with
      | some k => simp [hf] at h
      | none =>
        cases j with
        | zero => simpa [occ] using hp
        | succ j => have := ih hf j; simpa [occ] using this

/-- an occurrence inside a prefix `w` of `l` is an occurrence in `l` -/
theorem occ_of_prefix {M w l : List α} {i : Nat} (h : occ M w i) (hw : w <+: l) : occ M l i := by
  obtain ⟨t, rfl⟩ := hw
  unfold occ at *
  by_cases hi : i ≤ w.length
  · rw [List.drop_append_of_le_length hi]
    exact h.trans (List.prefix_append _ _)
  · have : w.drop i = [] := List.drop_eq_nil_of_le (by omega)
    rw [this, List.prefix_nil] at h
    subst h; exact List.nil_prefix

/-- an occurrence in `l` that ends inside the prefix `w` is an occurrence in `w` -/
theorem occ_within {M w l : List α} {i : Nat} (h : occ M l i) (hw : w <+: l)
    (hlen : i + M.length ≤ w.length) : occ M w i := by
  obtain ⟨t, rfl⟩ := hw
  unfold occ at *
  rw [List.drop_append_of_le_length (by omega)] at h
  exact List.prefix_of_prefix_length_le h (List.prefix_append _ _) (by simp; omega)

/-- shifting by a known front part -/
theorem occ_shift {M A l : List α} {i : Nat} : occ M (A ++ l) (A.length + i) ↔ occ M l i := by
  unfold occ
  rw [← List.drop_drop, List.drop_left]

/-- the repaired scanner: `rest` = unread file, `carry` = tail of the previous window,
    `pos` = file offset of `carry` -/
def scan (B : Nat) (M : List α) : Nat → List α → List α → Nat → Option Nat
  | 0, _, _, _ => none
  | fuel+1, rest, carry, pos =>
    let w := carry ++ rest.take B
    match findFirst M w with
    | some i => some (pos + i + M.length)
    | none =>
      if rest = [] then none
      else
        let keep := min (M.length - 1) w.length
        scan B M fuel (rest.drop B) (w.drop (w.length - keep)) (pos + (w.length - keep))

theorem scan_correct (B : Nat) (hB : 0 < B) (M : List α) (hM : M ≠ []) (data : List α) (idx : Nat)
    (hocc : occ M data idx) (hfirst : ∀ j, j < idx → ¬ occ M data j) :
    ∀ (fuel : Nat) (rest carry P : List α), data = P ++ (carry ++ rest) → P.length ≤ idx →
      rest.length < fuel → scan B M fuel rest carry P.length = some (idx + M.length) := by
  intro fuel
  induction fuel with
  | zero => intro rest carry P _ _ h; omega
  | succ fuel ih =>
    intro rest carry P hdata hpos hfuel
    have hML : 0 < M.length := List.length_pos_iff.mpr hM
    -- the first occurrence, seen from the window start
    have hocc' : occ M (carry ++ rest) (idx - P.length) := by
      have : occ M (P ++ (carry ++ rest)) (P.length + (idx - P.length)) := by
        rw [← hdata]; have : P.length + (idx - P.length) = idx := by omega
        rw [this]; exact hocc
      exact occ_shift.mp this
    have hwpre : carry ++ rest.take B <+: carry ++ rest := by
      simpa using List.take_prefix B rest
    simp only [scan]
    cases hf : findFirst M (carry ++ rest.take B) with
    | some i =>
      simp only
      obtain ⟨hi1, hi2⟩ := findFirst_some hf
      -- an occurrence in the window is an occurrence in the data
      have hdi : occ M data (P.length + i) := by
        rw [hdata]; exact occ_shift.mpr (occ_of_prefix hi1 hwpre)
      have hle : idx ≤ P.length + i := by
        by_cases h : idx ≤ P.length + i
        · exact h
        · exact absurd hdi (hfirst _ (by omega))
      -- and it cannot come later than the first occurrence
      have hge : P.length + i ≤ idx := by
        by_cases h : P.length + i ≤ idx
        · exact h
        · exfalso
          have hlen : i + M.length ≤ (carry ++ rest.take B).length := by
            have := hi1.length_le
            simp only [List.length_drop] at this
            omega
          have : occ M (carry ++ rest.take B) (idx - P.length) :=
            occ_within hocc' hwpre (by omega)
          exact hi2 _ (by omega) this
      have : P.length + i = idx := by omega
      rw [this]
    | none =>
      simp only
      have hno := findFirst_none hM hf
      by_cases hr : rest = []
      · exfalso
        subst hr
        simp only [List.take_nil, List.append_nil] at hno
        simp only [List.append_nil] at hocc'
        exact hno _ hocc'
      · simp only [hr, if_false]
        -- set up the next iteration
        have hwlen : (carry ++ rest.take B).length = carry.length + min B rest.length := by simp
        generalize hw : carry ++ rest.take B = w at *
        generalize hk : min (M.length - 1) w.length = keep
        have hkeep : keep ≤ w.length := by omega
        have hsplit : carry ++ rest = (w.take (w.length - keep) ++ w.drop (w.length - keep)) ++ rest.drop B := by
          rw [List.take_append_drop, ← hw, List.append_assoc, List.take_append_drop]
        have hP' : (P ++ w.take (w.length - keep)).length = P.length + (w.length - keep) := by
          simp <;> omega
        have := ih (rest.drop B) (w.drop (w.length - keep)) (P ++ w.take (w.length - keep))
          (by rw [hdata, hsplit]; simp only [List.append_assoc])
          (by
            rw [hP']
            by_cases h : P.length + (w.length - keep) ≤ idx
            · exact h
            · exfalso
              -- then the first occurrence would lie inside the window
              have hk' : keep = M.length - 1 ∨ keep = w.length := by omega
              rcases hk' with hk' | hk'
              · have : occ M w (idx - P.length) := occ_within hocc' hwpre (by omega)
                exact hno _ this
              · omega)
          (by
            have : 0 < rest.length := List.length_pos_iff.mpr hr
            simp only [List.length_drop]; omega)
        rw [hP'] at this
        exact this

/-- C20 core: for every binary that does not contain the marker and every archive,
    the scanner returns the offset just after the marker -/
theorem scan_finds_archive (B : Nat) (hB : 0 < B) (M bin zip : List α) (hM : M ≠ [])
    (hbin : ∀ j, j < bin.length → ¬ occ M (bin ++ (M ++ zip)) j) :
    scan B M ((bin ++ (M ++ zip)).length + 1) (bin ++ (M ++ zip)) [] 0 = some (bin.length + M.length) := by
  have h := scan_correct B hB M hM (bin ++ (M ++ zip)) bin.length
    (by have : occ M (bin ++ (M ++ zip)) (bin.length + 0) := occ_shift.mpr (by simp [occ]); simpa using this)
    hbin ((bin ++ (M ++ zip)).length + 1) (bin ++ (M ++ zip)) [] [] (by simp) (by simp) (by omega)
  simpa using h

#print axioms scan_finds_archive
end Scan
