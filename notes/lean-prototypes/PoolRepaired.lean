/-!
Prototype for C09: counting abstraction of the repaired thread-pool protocol.
Workers are symmetric, so the state only counts how many workers are at each
program point. `L` is the lock of the condition variable.
-/
namespace Pool

inductive LHolder where
  | free
  | wHasL          -- a worker holds L, about to check the predicate
  | wCheckedEmpty  -- a worker holds L, saw an empty queue, will Wait next
  | wWokenHasL     -- a woken worker re-acquired L (returning from Wait)
  | adder          -- an AddTask call holds L (about to signal)
  deriving DecidableEq, Repr

structure State where
  queue     : Nat   -- queued tasks
  head      : Nat   -- workers about to pop
  running   : Nat   -- workers running a task
  idleStart : Nat   -- workers that popped nothing and go idle (do not hold L yet)
  parked    : Nat   -- workers blocked in cond.Wait
  woken     : Nat   -- workers signalled, need to re-acquire L
  pushed    : Nat   -- AddTask calls that pushed but do not hold L yet
  l         : LHolder
  deriving DecidableEq, Repr

inductive Event where
  | pop | finish | wLock | wCheck | wWait | wRelock | wUnlock
  | aPush | aLock | aSignal
  deriving DecidableEq, Repr

open LHolder Event

def step (s : State) : Event → Option State
  | pop =>
    if s.head = 0 then none
    else if s.queue > 0 then some { s with head := s.head - 1, queue := s.queue - 1, running := s.running + 1 }
    else some { s with head := s.head - 1, idleStart := s.idleStart + 1 }
  | finish =>
    if s.running = 0 then none else some { s with running := s.running - 1, head := s.head + 1 }
  | wLock =>
    if s.idleStart = 0 ∨ s.l ≠ free then none
    else some { s with idleStart := s.idleStart - 1, l := wHasL }
  | wCheck =>
    if s.l ≠ wHasL then none
    else if s.queue > 0 then some { s with l := free, head := s.head + 1 }
    else some { s with l := wCheckedEmpty }
  | wWait =>
    if s.l ≠ wCheckedEmpty then none else some { s with l := free, parked := s.parked + 1 }
  | wRelock =>
    if s.woken = 0 ∨ s.l ≠ free then none
    else some { s with woken := s.woken - 1, l := wWokenHasL }
  | wUnlock =>
    if s.l ≠ wWokenHasL then none else some { s with l := free, head := s.head + 1 }
  | aPush => some { s with queue := s.queue + 1, pushed := s.pushed + 1 }
  | aLock =>
    if s.pushed = 0 ∨ s.l ≠ free then none
    else some { s with pushed := s.pushed - 1, l := adder }
  | aSignal =>
    if s.l ≠ adder then none
    else if s.parked > 0 then some { s with l := free, parked := s.parked - 1, woken := s.woken + 1 }
    else some { s with l := free }

/-- number of workers -/
def State.workers (s : State) : Nat :=
  s.head + s.running + s.idleStart + s.parked + s.woken +
  (match s.l with | wHasL => 1 | wCheckedEmpty => 1 | wWokenHasL => 1 | _ => 0)

/-- workers that will look at the queue again before sleeping -/
def State.awake (s : State) : Nat :=
  s.head + s.running + s.idleStart + s.woken +
  (match s.l with | wHasL => 1 | wWokenHasL => 1 | _ => 0)

/-- AddTask calls in flight (pushed, not yet signalled) -/
def State.inflight (s : State) : Nat :=
  s.pushed + (match s.l with | adder => 1 | _ => 0)

def init (n : Nat) : State :=
  { queue := 0, head := n, running := 0, idleStart := 0, parked := 0, woken := 0, pushed := 0, l := free }

/-- The inductive invariant: pending work implies somebody will look. -/
def Inv (n : Nat) (s : State) : Prop :=
  s.workers = n ∧ (s.queue > 0 → s.awake > 0 ∨ s.inflight > 0)

theorem inv_init (n : Nat) : Inv n (init n) := by
  simp [Inv, init, State.workers]

theorem inv_step (n : Nat) (hn : 0 < n) (s s' : State) (e : Event)
    (h : Inv n s) (hs : step s e = some s') : Inv n s' := by
  obtain ⟨hw, hq⟩ := h
  cases e <;> simp only [step] at hs <;>
    (repeat' split at hs) <;> simp_all <;>
    (try subst hs) <;>
    (cases hl : s.l <;> simp_all [Inv, State.workers, State.awake, State.inflight] <;> omega)

def Reachable (n : Nat) (s : State) : Prop :=
  ∃ es : List Event, es.foldlM step (init n) = some s

theorem inv_reachable (n : Nat) (hn : 0 < n) (s : State) (h : Reachable n s) : Inv n s := by
  obtain ⟨es, hes⟩ := h
  suffices ∀ (es : List Event) (s0 : State), Inv n s0 → es.foldlM step s0 = some s → Inv n s from
    this es _ (inv_init n) hes
  intro es
  induction es with
  | nil => intro s0 h0 h; simp [List.foldlM] at h; subst h; exact h0
  | cons e es ih =>
    intro s0 h0 h
    simp only [List.foldlM_cons] at h
    cases hstep : step s0 e with
    | none => simp [hstep] at h
    | some s1 =>
      simp [hstep] at h
      exact ih s1 (inv_step n hn s0 s1 e h0 hstep) h

/-- internal events: everything except a new external AddTask call -/
def internal : List Event := [pop, finish, wLock, wCheck, wWait, wRelock, wUnlock, aLock, aSignal]

/-- C09 core: with at least one worker, pending work always leaves the pool
    an enabled internal step - no further call is needed. -/
theorem no_stuck_task (n : Nat) (hn : 0 < n) (s : State) (h : Reachable n s) (hq : s.queue > 0) :
    ∃ e ∈ internal, (step s e).isSome := by
  obtain ⟨hw, hinv⟩ := inv_reachable n hn s h
  have hi := hinv hq
  cases hl : s.l with
  | wHasL => exact ⟨wCheck, by simp [internal], by simp [step, hl]; split <;> simp⟩
  | wCheckedEmpty => exact ⟨wWait, by simp [internal], by simp [step, hl]⟩
  | wWokenHasL => exact ⟨wUnlock, by simp [internal], by simp [step, hl]⟩
  | adder => exact ⟨aSignal, by simp [internal], by simp [step, hl]; split <;> simp⟩
  | free =>
    by_cases h1 : s.head = 0
    · by_cases h2 : s.running = 0
      · by_cases h3 : s.idleStart = 0
        · by_cases h4 : s.woken = 0
          · by_cases h5 : s.pushed = 0
            · simp [State.awake, State.inflight, hl, h1, h2, h3, h4, h5] at hi
            · exact ⟨aLock, by simp [internal], by simp [step, hl, h5]⟩
          · exact ⟨wRelock, by simp [internal], by simp [step, hl, h4]⟩
        · exact ⟨wLock, by simp [internal], by simp [step, hl, h3]⟩
      · exact ⟨finish, by simp [internal], by simp [step, h2]⟩
    · exact ⟨pop, by simp [internal], by simp [step, h1]; split <;> simp⟩

#print axioms no_stuck_task

end Pool
