import random, sys
random.seed(int(sys.argv[1])); n=int(sys.argv[2])
pieces=["{{","}}","{","}","a","b","1","+"," ","x","{{a}}","{{b}}","{{1+2}}","{{c}}","{{d}}","'","\\n"]
for i in range(n):
    lit="".join(random.choice(pieces) for _ in range(random.randint(0,7)))
    pre="a := 5\nb := \"B\"\nc := r\"{{a}}\"\nd := r\"{{1+1}} }} {{\"\n"
    form=random.choice(["\"%s\"","\"%s\"","r\"%s\"","'%s'"])
    s = pre + (form % lit.replace("'", "" if form.startswith("'") else "'"))
    print(s.encode().hex())
