import subprocess, sys
lines=open(sys.argv[1]).read().splitlines()
out=[]; i=0
while i < len(lines):
    try:
        p=subprocess.run(["/tmp/pm/ge/goev"], input="\n".join(lines[i:])+"\n", capture_output=True, text=True, timeout=600)
    except subprocess.TimeoutExpired:
        out.append("CRASH"); i+=1; continue
    o=p.stdout.splitlines()
    if p.returncode not in (0,3):
        if o and not (o[-1].startswith(("OK","ERR","V ","NOPARSE","PANIC","VPANIC","TIMEOUT","PARSEPANIC"))): o=o[:-1]
        o.append("CRASH")
    if not o and p.returncode!=0: o=["CRASH"]
    out+=o; i+=len(o)
    if p.returncode==0: break
open(sys.argv[2],"w").write("\n".join(out)+"\n")
