import subprocess, sys
lines=open(sys.argv[1]).read().splitlines()
out=[]
i=0
while i < len(lines):
    p=subprocess.run(["/tmp/pm/ge/goev"], input="\n".join(lines[i:])+"\n", capture_output=True, text=True)
    o=p.stdout.splitlines()
    if p.returncode not in (0,3):
        # hard crash (e.g. stack overflow): the line being processed produced no complete output
        if o and not (o[-1].startswith(("OK","ERR","V ","NOPARSE","PANIC","VPANIC","TIMEOUT","PARSEPANIC"))): o=o[:-1]
        o.append("CRASH")
    out+=o
    i+=len(o)
    if p.returncode==0: break
open(sys.argv[2],"w").write("\n".join(out)+"\n")
