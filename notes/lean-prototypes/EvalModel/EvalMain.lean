import Pm.Eval
open Ecal.Lex Ecal.Parse Ecal.Ev

def hexDigits : Array Char := "0123456789abcdef".toList.toArray
def toHex (l : List Nat) : String :=
  String.ofList (l.flatMap fun b => [hexDigits[b / 16 % 16]!, hexDigits[b % 16]!])
def hv (c : Char) : Nat :=
  let n := c.toNat
  if 48 ≤ n && n ≤ 57 then n - 48 else n - 87
def fromHex (s : String) : List Nat :=
  let rec go : List Char → List Nat
    | a :: b :: r => (hv a * 16 + hv b) :: go r
    | _ => []
  go s.toList

def showVal (st : St) : Nat → Val → String
  | 0, .list _ => "DEEP" | 0, .map _ => "DEEP"
  | _, .null => "null" | _, .bool b => if b then "true" else "false"
  | _, .num f => s!"n{f.toBits}"
  | _, .str s => "s" ++ toHex s
  | d+1, .list r => "[" ++ " ".intercalate ((st.lists.getD r []).map (showVal st d)) ++ "]"
  | d+1, .map r =>
    let items := (st.maps.getD r []).map fun (k, v) => showVal st d k ++ ":" ++ showVal st d v
    "{" ++ " ".intercalate (items.toArray.qsort (· < ·)).toList ++ "}"
  | _, .func _ => "func" | _, .builtin b => "builtin:" ++ b

def showSig (st : St) : Sig → String
  | .err e _ => s!"ERR[{e.type}|{e.line}|{e.pos}]"
  | .ret e v => s!"ERR[{e.type}|{e.line}|{e.pos}]"
  | .plainErr m => "ERRPLAIN"
  | .iter .. => "ERRPLAIN"
  | .panic => "PANIC" | .fuel => "FUEL" | .unsupported w => "UNSUP " ++ w

def runProg (inp : List Nat) : String :=
  match parse inp with
  | (some n, none) =>
    match validate n with
    | .error e => "V " ++ showSig {} e
    | .ok _ =>
      let prog : Ecal.Ev.M Val := do
        let g ← newScope "GlobalScope"
        eval 2000 g n
      let (r, st) := prog.run.run {}
      let logs := " LOG " ++ ",".intercalate (st.log.toList.map toHex)
      match r with
      | .ok v => "OK " ++ showVal st 8 v ++ logs
      | .error e => showSig st e ++ logs
  | (_, some Err.panic) => "PARSEPANIC"
  | _ => "NOPARSE"

partial def loop (h o : IO.FS.Stream) : IO Unit := do
  let line ← h.getLine
  if line.isEmpty then return ()
  o.putStrLn (runProg (fromHex line.trimAscii.toString))
  o.flush
  loop h o

def main : IO Unit := do loop (← IO.getStdin) (← IO.getStdout)
