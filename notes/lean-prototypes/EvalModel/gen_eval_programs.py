import random, sys
random.seed(int(sys.argv[1])); n=int(sys.argv[2])
vars_=["a","b","c"]
mk=[0]
def marker():
    mk[0]+=1; return "log(\"m%d\")"%mk[0]
def lit(): return random.choice(["0","1","2","3","-1","2.5","\"s\"","\"t\"","true","false","null","[1, 2]","[]","{\"k\": 1}","{1: 2}"])
def expr(d):
    r=random.random()
    if d<=0 or r<0.35: return random.choice(vars_+[lit(),lit()])
    if r<0.7: return "("+expr(d-1)+" "+random.choice(["+","-","*","/","//","%","==","!=","<",">=",">","<=","and","or","in","notin","hasprefix","hassuffix"])+" "+expr(d-1)+")"
    if r<0.78: return random.choice(["-","not ","+"])+expr(d-1)
    if r<0.86: return random.choice(["a[0]","a[1]","a[-1]","b.k","b[\"k\"]","a[5]","c[0][0]","len(a)","len(b)","f(1)","f(1, 2)","g()","f()"])
    if r<0.93: return "["+", ".join(expr(d-1) for _ in range(random.randint(0,3)))+"]"
    return "{"+", ".join(random.choice(["\"k\"","\"j\"","1"])+" : "+expr(d-1) for _ in range(random.randint(0,2)))+"}"
def block(d): return "{\n"+stmts(d-1)+"\n}"
def stmt(d):
    r=random.random()
    if d<=0 or r<0.4:
        return random.choice([random.choice(vars_)+" := "+expr(2), marker(), "let "+random.choice(vars_)+" := "+expr(1), random.choice(["a[0]","a[1]","b.k","b[\"j\"]","c[0][1]","a[-3]"])+" := "+expr(1), "[a, b] := "+expr(1), expr(2), "break","continue","return "+expr(1), "raise(\""+random.choice(["E1","E2"])+"\")"])
    if r<0.55: return "if "+expr(1)+" "+block(d)+(" elif "+expr(1)+" "+block(d) if random.random()<0.3 else "")+(" else "+block(d) if random.random()<0.5 else "")
    if r<0.68: return "for "+random.choice(["i in range(1, 3)","i in range(3, 1, -1)","i in range(2)","i in "+expr(1),"[i, j] in "+expr(1),"i in [1, 2, 3]","[k, v] in {\"x\": 1, \"y\": 2}"])+" "+block(d)
    if r<0.72: return "c := 3\nfor c > 0 {\nc := c - 1\n"+stmts(d-1)+"\n}"
    if r<0.82: return "func "+random.choice(["f","g"])+"("+random.choice(["","x","x, y=5","x=1"])+") "+block(d)
    s="try "+block(d)
    for _ in range(random.randint(0,2)):
        s+=" except "+random.choice(["","e ","\"E1\" ","\"E1\" as e ","\"E1\", \"E2\" ","\"E2\" as e "])+block(d)
    if random.random()<0.4: s+=" otherwise "+block(d)
    if random.random()<0.5: s+=" finally "+block(d)
    return s
def stmts(d): return "\n".join(stmt(d) for _ in range(random.randint(1,3)))
for i in range(n):
    mk[0]=0
    pre=random.choice(["a := [1, 2, 3]\nb := {\"k\": 1}\nc := [[1, 2], [3]]\n","a := 1\nb := \"s\"\nc := null\n",""])
    print((pre+stmts(3)+"\n"+random.choice(["a","b","c","[a, b, c]"])).encode().hex())
