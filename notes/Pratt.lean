namespace Pratt

inductive Tok where
  | atom (n : Nat)
  | op (k : Nat)          -- binary operator id
  | lp | rp
  deriving DecidableEq, Repr

inductive Expr where
  | atom (n : Nat)
  | bin (k : Nat) (l r : Expr)
  deriving DecidableEq, Repr

variable (bp : Nat → Nat)   -- binding power of operator k (assumed > 0)

def lbp : List Tok → Nat
  | Tok.op k :: _ => bp k
  | _ => 0

/-- Pratt parser with fuel. Returns parsed expr and rest. -/
def run : Nat → Nat → List Tok → Option (Expr × List Tok)
  | 0, _, _ => none
  | fuel+1, rbp, ts =>
    let nud : Option (Expr × List Tok) :=
      match ts with
      | Tok.atom n :: rest => some (Expr.atom n, rest)
      | Tok.lp :: rest =>
        match run fuel 0 rest with
        | some (e, Tok.rp :: rest') => some (e, rest')
        | _ => none
      | _ => none
    match nud with
    | none => none
    | some (left, rest) => loop fuel rbp left rest
where
  loop : Nat → Nat → Expr → List Tok → Option (Expr × List Tok)
  | 0, _, _, _ => none
  | fuel+1, rbp, left, ts =>
    match ts with
    | Tok.op k :: rest =>
      if rbp < bp k then
        match run fuel (bp k) rest with
        | some (r, rest') => loop fuel rbp (Expr.bin k left r) rest'
        | none => none
      else some (left, ts)
    | _ => some (left, ts)

end Pratt
