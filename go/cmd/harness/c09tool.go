package main

// C09 fact extractor: `harness C09 -tool skeleton [out.lean]` re-derives the synchronisation
// skeleton of engine/pool/threadpool.go that the model's atomic steps rely on, as three-valued facts
// (1 = established, 0 = REFUTED, 2 = not established). It tracks which locks are held along the
// statements of a function (branches that end in return are local, same-package calls are followed),
// so helpers extracted, defer-style unlocking, renamed locals or restructured ifs do not change a fact.

import (
	"fmt"
	"go/ast"
	"go/parser"
	"go/token"
	"os"
	"path/filepath"
	"sort"
	"strings"
)

type c09Ev struct {
	kind  string // call:<name> | read:<field> | write:<field> | lock:<name>
	held  map[string]bool
	sect  map[string]int // section number of every held lock (incremented at each Lock)
	seq   int
	guard []string // identifiers mentioned by the conditions of the enclosing ifs
	fn    string
}

type c09Scan struct {
	funcs   map[string]*ast.FuncDecl
	evs     []c09Ev
	seq     int
	sectCtr map[string]int
	edges   map[string]map[string]bool // lock nesting: held -> acquired
	unknown bool
	deferred []*ast.FuncLit
	assigned map[string]string // local identifier -> what it was computed from (size | kill)
}

func c09LockName(e ast.Expr) string {
	sel, ok := e.(*ast.SelectorExpr)
	if !ok {
		return ""
	}
	if sel.Sel.Name == "L" {
		return "L"
	}
	return sel.Sel.Name
}

func cloneHeld(h map[string]bool) map[string]bool {
	c := map[string]bool{}
	for k, v := range h {
		if v {
			c[k] = true
		}
	}
	return c
}

func cloneSect(h map[string]int) map[string]int {
	c := map[string]int{}
	for k, v := range h {
		c[k] = v
	}
	return c
}

func terminates(b *ast.BlockStmt) bool {
	if b == nil || len(b.List) == 0 {
		return false
	}
	switch s := b.List[len(b.List)-1].(type) {
	case *ast.ReturnStmt:
		return true
	case *ast.BranchStmt:
		return s.Tok == token.BREAK || s.Tok == token.CONTINUE
	case *ast.ExprStmt:
		if c, ok := s.X.(*ast.CallExpr); ok {
			if id, ok := c.Fun.(*ast.Ident); ok && id.Name == "panic" {
				return true
			}
		}
	}
	return false
}

func identsOf(e ast.Expr) []string {
	var out []string
	ast.Inspect(e, func(n ast.Node) bool {
		if id, ok := n.(*ast.Ident); ok {
			out = append(out, id.Name)
		}
		return true
	})
	return out
}

func (sc *c09Scan) emit(kind, fn string, held map[string]bool, sect map[string]int, guard []string) {
	sc.seq++
	sc.evs = append(sc.evs, c09Ev{kind, cloneHeld(held), cloneSect(sect), sc.seq, append([]string(nil), guard...), fn})
}

// exprEvents records calls and field accesses inside an expression / simple statement.
func (sc *c09Scan) exprEvents(n ast.Node, fn string, held map[string]bool, sect map[string]int, guard []string, depth int, writes map[ast.Expr]bool) {
	ast.Inspect(n, func(x ast.Node) bool {
		switch v := x.(type) {
		case *ast.FuncLit:
			return false
		case *ast.CallExpr:
			if sel, ok := v.Fun.(*ast.SelectorExpr); ok {
				name := sel.Sel.Name
				switch name {
				case "Signal", "Broadcast", "Wait", "Push", "Pop", "Size":
					sc.emit("call:"+name, fn, held, sect, guard)
				case "At":
					return false // instrumentation: its arguments are not accesses of the code
				case "Lock", "Unlock", "Sleep":
				default:
					if fd, ok := sc.funcs[name]; ok && depth < 3 && fd.Body != nil {
						// same-package helper: follow it with the locks held here
						h, s := cloneHeld(held), cloneSect(sect)
						sc.walk(fd.Body.List, name, h, s, guard, depth+1)
					}
				}
			}
		case *ast.SelectorExpr:
			switch v.Sel.Name {
			case "workerKill", "workerExiting", "workerMap", "workerIdleMap":
				if writes[v] {
					sc.emit("write:"+v.Sel.Name, fn, held, sect, guard)
				} else {
					sc.emit("read:"+v.Sel.Name, fn, held, sect, guard)
				}
			}
		}
		return true
	})
}

func (sc *c09Scan) walk(list []ast.Stmt, fn string, held map[string]bool, sect map[string]int, guard []string, depth int) {
	for _, st := range list {
		switch s := st.(type) {
		case *ast.ExprStmt:
			if c, ok := s.X.(*ast.CallExpr); ok {
				if sel, ok := c.Fun.(*ast.SelectorExpr); ok && (sel.Sel.Name == "Lock" || sel.Sel.Name == "Unlock") {
					ln := c09LockName(sel.X)
					if ln == "" {
						sc.unknown = true
						continue
					}
					if sel.Sel.Name == "Lock" {
						for h := range held {
							if held[h] {
								if sc.edges[h] == nil {
									sc.edges[h] = map[string]bool{}
								}
								sc.edges[h][ln] = true
							}
						}
						held[ln] = true
						sc.sectCtr[ln]++
						sect[ln] = sc.sectCtr[ln]
						sc.emit("lock:"+ln, fn, held, sect, guard)
					} else {
						delete(held, ln)
						delete(sect, ln)
					}
					continue
				}
			}
			sc.exprEvents(s, fn, held, sect, guard, depth, nil)
		case *ast.DeferStmt:
			// defer X.Unlock(): held until the function returns; a deferred function literal runs at the
			// end with nothing held by this function's straight-line code
			if fl, ok := s.Call.Fun.(*ast.FuncLit); ok {
				sc.deferred = append(sc.deferred, fl)
			}
		case *ast.AssignStmt:
			w := map[ast.Expr]bool{}
			for _, l := range s.Lhs {
				w[l] = true
			}
			// remember what locals are computed from
			if len(s.Lhs) == 1 && len(s.Rhs) == 1 {
				if id, ok := s.Lhs[0].(*ast.Ident); ok {
					src := ""
					ast.Inspect(s.Rhs[0], func(n ast.Node) bool {
						switch v := n.(type) {
						case *ast.CallExpr:
							if sel, ok := v.Fun.(*ast.SelectorExpr); ok && sel.Sel.Name == "Size" {
								src = "size"
							}
						case *ast.SelectorExpr:
							if v.Sel.Name == "workerKill" {
								src = "kill"
							}
						}
						return true
					})
					if src != "" {
						sc.assigned[id.Name] = src
					}
				}
			}
			sc.exprEvents(s, fn, held, sect, guard, depth, w)
		case *ast.IncDecStmt:
			sc.exprEvents(s, fn, held, sect, guard, depth, map[ast.Expr]bool{s.X: true})
			if sel, ok := s.X.(*ast.SelectorExpr); ok && s.Tok == token.DEC {
				sc.emit("dec:"+sel.Sel.Name, fn, held, sect, guard)
			}
		case *ast.IfStmt:
			if s.Init != nil {
				sc.walk([]ast.Stmt{s.Init}, fn, held, sect, guard, depth)
			}
			sc.exprEvents(s.Cond, fn, held, sect, guard, depth, nil)
			g2 := append(append([]string(nil), guard...), identsOf(s.Cond)...)
			ast.Inspect(s.Cond, func(n ast.Node) bool {
				if sel, ok := n.(*ast.SelectorExpr); ok {
					g2 = append(g2, "."+sel.Sel.Name)
				}
				if c, ok := n.(*ast.CallExpr); ok {
					if sel, ok := c.Fun.(*ast.SelectorExpr); ok {
						g2 = append(g2, sel.Sel.Name+"()")
					}
				}
				return true
			})
			hb, sb := cloneHeld(held), cloneSect(sect)
			sc.walk(s.Body.List, fn, hb, sb, g2, depth)
			var he map[string]bool
			var se map[string]int
			elseTerm := false
			if s.Else != nil {
				he, se = cloneHeld(held), cloneSect(sect)
				switch e := s.Else.(type) {
				case *ast.BlockStmt:
					sc.walk(e.List, fn, he, se, guard, depth)
					elseTerm = terminates(e)
				default:
					sc.walk([]ast.Stmt{e}, fn, he, se, guard, depth)
				}
			}
			// locks held after the if: those held on every path that continues
			var outs []map[string]bool
			var outsS []map[string]int
			if !terminates(s.Body) {
				outs, outsS = append(outs, hb), append(outsS, sb)
			}
			if s.Else == nil {
				outs, outsS = append(outs, cloneHeld(held)), append(outsS, cloneSect(sect))
			} else if !elseTerm {
				outs, outsS = append(outs, he), append(outsS, se)
			}
			if len(outs) > 0 {
				for k := range held {
					delete(held, k)
				}
				for k := range outs[0] {
					all := true
					for _, o := range outs[1:] {
						if !o[k] {
							all = false
						}
					}
					if all {
						held[k] = true
						sect[k] = outsS[0][k]
					}
				}
				for k := range sect {
					if !held[k] {
						delete(sect, k)
					}
				}
			}
		case *ast.ForStmt:
			if s.Cond != nil {
				sc.exprEvents(s.Cond, fn, held, sect, guard, depth, nil)
			}
			hb, sb := cloneHeld(held), cloneSect(sect)
			sc.walk(s.Body.List, fn, hb, sb, guard, depth)
			if s.Post != nil {
				sc.walk([]ast.Stmt{s.Post}, fn, hb, sb, guard, depth)
			}
		case *ast.RangeStmt:
			hb, sb := cloneHeld(held), cloneSect(sect)
			sc.walk(s.Body.List, fn, hb, sb, guard, depth)
		case *ast.BlockStmt:
			sc.walk(s.List, fn, held, sect, guard, depth)
		case *ast.GoStmt:
			// a new goroutine does not inherit the locks held here and is not on this path
		case *ast.ReturnStmt, *ast.DeclStmt:
			sc.exprEvents(s, fn, held, sect, guard, depth, nil)
		case *ast.BranchStmt, *ast.EmptyStmt:
		case *ast.SwitchStmt:
			if s.Init != nil {
				sc.walk([]ast.Stmt{s.Init}, fn, held, sect, guard, depth)
			}
			if s.Tag != nil {
				sc.exprEvents(s.Tag, fn, held, sect, guard, depth, nil)
			}
			var outs []map[string]bool
			var outsS []map[string]int
			hasDefault := false
			for _, cc := range s.Body.List {
				cl, ok := cc.(*ast.CaseClause)
				if !ok {
					continue
				}
				if cl.List == nil {
					hasDefault = true
				}
				for _, e := range cl.List {
					sc.exprEvents(e, fn, held, sect, guard, depth, nil)
				}
				hb, sb := cloneHeld(held), cloneSect(sect)
				sc.walk(cl.Body, fn, hb, sb, guard, depth)
				if !terminates(&ast.BlockStmt{List: cl.Body}) {
					outs, outsS = append(outs, hb), append(outsS, sb)
				}
			}
			if !hasDefault {
				outs, outsS = append(outs, cloneHeld(held)), append(outsS, cloneSect(sect))
			}
			if len(outs) > 0 {
				for k := range held {
					delete(held, k)
				}
				for k := range outs[0] {
					all := true
					for _, o := range outs[1:] {
						if !o[k] {
							all = false
						}
					}
					if all {
						held[k] = true
						sect[k] = outsS[0][k]
					}
				}
				for k := range sect {
					if !held[k] {
						delete(sect, k)
					}
				}
			}
		case *ast.TypeSwitchStmt, *ast.SelectStmt, *ast.LabeledStmt:
			sc.unknown = true // shapes this scanner does not follow
		default:
			sc.exprEvents(s, fn, held, sect, guard, depth, nil)
		}
	}
}

func (sc *c09Scan) scanFunc(name string) []c09Ev {
	fd, ok := sc.funcs[name]
	if !ok || fd.Body == nil {
		return nil
	}
	sc.evs = nil
	sc.unknown = false
	sc.deferred = nil
	sc.assigned = map[string]string{}
	sc.walk(fd.Body.List, name, map[string]bool{}, map[string]int{}, nil, 0)
	// deferred function literals: their own paths, marked by the function name + ".defer"
	for _, fl := range sc.deferred {
		sc.walk(fl.Body.List, name+".defer", map[string]bool{}, map[string]int{}, nil, 0)
	}
	return sc.evs
}

const (
	c09No  = 0
	c09Yes = 1
	c09Unk = 2
)

// soft: a fact that looks refuted only because a lock operation could not be attributed (lock held in a
// local variable, statement shapes the scanner does not follow) is "not established", not refuted
func (sc *c09Scan) soft(v int) int {
	if v == c09No && sc.unknown {
		return c09Unk
	}
	return v
}

func tri(found bool, ok bool) int {
	if !found {
		return c09Unk
	}
	if ok {
		return c09Yes
	}
	return c09No
}

func c09Facts(dir string) (map[string]int, []string, error) {
	fset := token.NewFileSet()
	pkgs, err := parser.ParseDir(fset, dir, func(fi os.FileInfo) bool { return !strings.HasSuffix(fi.Name(), "_test.go") }, 0)
	if err != nil {
		return nil, nil, err
	}
	sc := &c09Scan{funcs: map[string]*ast.FuncDecl{}, sectCtr: map[string]int{}, edges: map[string]map[string]bool{}}
	idleRun := ""
	for _, p := range pkgs {
		for _, f := range p.Files {
			for _, d := range f.Decls {
				fd, ok := d.(*ast.FuncDecl)
				if !ok {
					continue
				}
				name := fd.Name.Name
				if fd.Recv != nil && len(fd.Recv.List) == 1 {
					rt := typeText(fd.Recv.List[0].Type)
					if name == "Run" && strings.Contains(rt, "idleTask") {
						name = "idleTask.Run"
						idleRun = name
					} else if name == "Run" || name == "HandleError" {
						name = rt + "." + name
					}
				}
				sc.funcs[name] = fd
			}
		}
	}
	facts := map[string]int{}
	var notes []string

	// AddTask: Signal under L, after Push
	ev := sc.scanFunc("AddTask")
	var sig, push *c09Ev
	sigAll := true
	for i := range ev {
		if ev[i].kind == "call:Signal" {
			if sig == nil {
				sig = &ev[i]
			}
			if !ev[i].held["L"] {
				sigAll = false
			}
		}
		if ev[i].kind == "call:Push" && push == nil {
			push = &ev[i]
		}
	}
	facts["signalUnderL"] = sc.soft(tri(sig != nil, sigAll))
	facts["pushBeforeSignal"] = tri(sig != nil && push != nil, sig != nil && push != nil && push.seq < sig.seq)

	// idleTask.Run: Wait only after Size() and workerKill were read under L, inside an if on both
	ev = sc.scanFunc(idleRun)
	var wait *c09Ev
	sizeOK, killOK := false, false
	for i := range ev {
		if ev[i].kind == "call:Wait" && wait == nil {
			wait = &ev[i]
		}
	}
	if wait != nil {
		for i := range ev {
			if ev[i].seq < wait.seq && ev[i].held["L"] && ev[i].sect["L"] == wait.sect["L"] {
				if ev[i].kind == "call:Size" {
					sizeOK = true
				}
				if ev[i].kind == "read:workerKill" {
					killOK = true
				}
			}
		}
	}
	facts["waitUnderL"] = sc.soft(tri(wait != nil, wait != nil && wait.held["L"]))
	facts["recheckQueueUnderL"] = sc.soft(tri(wait != nil, sizeOK))
	facts["recheckKillUnderL"] = sc.soft(tri(wait != nil, killOK))
	if wait != nil {
		gs, gk := false, false
		for _, g := range wait.guard {
			if sc.assigned[g] == "size" || g == "Size()" {
				gs = true
			}
			if sc.assigned[g] == "kill" || g == ".workerKill" {
				gk = true
			}
		}
		switch {
		case len(wait.guard) == 0:
			// no enclosing if: the guard may be an early return / a loop exit before the Wait — the
			// scanner does not derive dominating conditions: not established (the traces decide)
			facts["waitGuardedByBoth"] = c09Unk
		case gs && gk:
			facts["waitGuardedByBoth"] = c09Yes
		default:
			facts["waitGuardedByBoth"] = c09Unk
		}
	} else {
		facts["waitGuardedByBoth"] = c09Unk
	}

	// SetWorkerCount: decision in one workerMapLock section from len(workerMap) - workerExiting
	ev = sc.scanFunc("SetWorkerCount")
	first := -1
	var killW []c09Ev
	usesExiting := false
	for i := range ev {
		if ev[i].kind == "read:workerMap" && first < 0 {
			first = i
		}
		if ev[i].kind == "write:workerKill" {
			killW = append(killW, ev[i])
		}
	}
	one := first >= 0 && ev[first].held["workerMapLock"]
	for _, w := range killW {
		if !w.held["workerMapLock"] || first < 0 || w.sect["workerMapLock"] != ev[first].sect["workerMapLock"] {
			one = false
		}
	}
	if first >= 0 {
		for i := range ev {
			if ev[i].kind == "read:workerExiting" && ev[i].sect["workerMapLock"] == ev[first].sect["workerMapLock"] && ev[i].held["workerMapLock"] {
				usesExiting = true
			}
		}
	}
	facts["swcOneSection"] = tri(first >= 0 && len(killW) > 0, one)
	facts["swcCountsExiting"] = tri(first >= 0, usesExiting)
	bcastLocked, bcastFound := false, false
	for i := range ev {
		if ev[i].kind == "call:Broadcast" {
			if !bcastFound {
				bcastLocked = ev[i].held["L"] // the first broadcast after the decision is the locked one
			}
			bcastFound = true
		}
	}
	facts["swcFirstBroadcastUnderL"] = tri(bcastFound, bcastLocked)

	// getTask: kill-- and every workerExiting++ under workerMapLock; the drained exit re-reads workerKill in its section
	ev = sc.scanFunc("getTask")
	decOK, decFound, incFound, incOK, drainOK := true, false, false, true, true
	for i := range ev {
		if ev[i].kind == "write:workerKill" {
			decFound = true
			if !ev[i].held["workerMapLock"] {
				decOK = false
			}
		}
		if ev[i].kind == "write:workerExiting" {
			incFound = true
			if !ev[i].held["workerMapLock"] {
				incOK = false
			}
			re := false
			for j := range ev {
				if (ev[j].kind == "read:workerKill" || ev[j].kind == "write:workerKill") && ev[j].held["workerMapLock"] &&
					ev[j].sect["workerMapLock"] == ev[i].sect["workerMapLock"] {
					re = true
				}
			}
			if !re {
				drainOK = false
			}
		}
	}
	facts["killTakenUnderLock"] = tri(decFound, decOK)
	facts["exitingCountedUnderLock"] = tri(incFound, incOK)
	facts["exitDecidedWithKillInOneSection"] = tri(incFound, drainOK)

	// worker exit: delete from workerMap and workerExiting-- in ONE workerMapLock section (a SetWorkerCount
	// deciding in between would count the dying worker as alive)
	ev = sc.scanFunc("run")
	var decs, dels []c09Ev
	for i := range ev {
		if ev[i].kind == "dec:workerExiting" {
			decs = append(decs, ev[i])
		}
		if strings.HasSuffix(ev[i].kind, ":workerMap") && strings.HasSuffix(ev[i].fn, ".defer") {
			dels = append(dels, ev[i])
		}
	}
	exitAtomic := len(decs) > 0 && len(dels) > 0
	for _, d := range decs {
		same := false
		for _, m := range dels {
			if d.held["workerMapLock"] && m.held["workerMapLock"] && d.sect["workerMapLock"] == m.sect["workerMapLock"] {
				same = true
			}
		}
		if !same {
			exitAtomic = false
		}
	}
	facts["exitAtomic"] = sc.soft(tri(len(decs) > 0 && len(dels) > 0, exitAtomic))

	// WaitAll: worker map, idle map and queue size read in one section under both locks
	ev = sc.scanFunc("WaitAll")
	var wm, wi, wq *c09Ev
	for i := range ev {
		switch ev[i].kind {
		case "read:workerMap":
			if wm == nil {
				wm = &ev[i]
			}
		case "read:workerIdleMap":
			if wi == nil {
				wi = &ev[i]
			}
		case "call:Size":
			if wq == nil {
				wq = &ev[i]
			}
		}
	}
	snapOK := wm != nil && wi != nil && wq != nil
	if snapOK {
		for _, e := range []*c09Ev{wm, wi, wq} {
			if !e.held["workerMapLock"] || !e.held["queueLock"] || e.sect["workerMapLock"] != wm.sect["workerMapLock"] ||
				e.sect["queueLock"] != wm.sect["queueLock"] {
				snapOK = false
			}
		}
	}
	facts["waitAllSnapshotOneSection"] = sc.soft(tri(wm != nil && wi != nil && wq != nil, snapOK))

	// JoinAll's sleeping loop broadcasts on every iteration (not only on some branch)
	facts["joinAllLoopBroadcasts"] = c09Unk
	if fd, ok := sc.funcs["JoinAll"]; ok && fd.Body != nil {
		containsBroadcast := func(n ast.Node) bool {
			hit := false
			ast.Inspect(n, func(m ast.Node) bool {
				if c, ok := m.(*ast.CallExpr); ok {
					if sel, ok := c.Fun.(*ast.SelectorExpr); ok {
						if sel.Sel.Name == "Broadcast" {
							hit = true
						} else if h, ok := sc.funcs[sel.Sel.Name]; ok && h.Body != nil && h != fd {
							ast.Inspect(h.Body, func(x ast.Node) bool {
								if c2, ok := x.(*ast.CallExpr); ok {
									if s2, ok := c2.Fun.(*ast.SelectorExpr); ok && s2.Sel.Name == "Broadcast" {
										hit = true
									}
								}
								return true
							})
						}
					}
				}
				return true
			})
			return hit
		}
		ast.Inspect(fd.Body, func(n ast.Node) bool {
			f, ok := n.(*ast.ForStmt)
			if !ok {
				return true
			}
			top, nested := false, false
			for _, st := range f.Body.List {
				switch st.(type) {
				case *ast.ExprStmt, *ast.AssignStmt:
					if containsBroadcast(st) {
						top = true
					}
				default:
					if containsBroadcast(st) {
						nested = true
					}
				}
			}
			switch {
			case top:
				facts["joinAllLoopBroadcasts"] = c09Yes
			case nested:
				facts["joinAllLoopBroadcasts"] = c09No
			}
			return false
		})
	}

	// JoinAll keeps its request up inside its loop; the polling loops of SetWorkerCount look at workerKill
	// (they yield to a JoinAll instead of waiting for workers that will never come)
	loopFacts := func(fn string, each bool, want func(body *ast.BlockStmt) bool) int {
		fd, ok := sc.funcs[fn]
		if !ok || fd.Body == nil {
			return c09Unk
		}
		found, all, any := false, true, false
		ast.Inspect(fd.Body, func(n ast.Node) bool {
			if f, ok := n.(*ast.ForStmt); ok {
				sleeps := false
				ast.Inspect(f.Body, func(m ast.Node) bool {
					if c, ok := m.(*ast.CallExpr); ok {
						if sel, ok := c.Fun.(*ast.SelectorExpr); ok && sel.Sel.Name == "Sleep" {
							sleeps = true
						}
					}
					return true
				})
				if sleeps {
					found = true
					if want(f.Body) {
						any = true
					} else {
						all = false
					}
				}
			}
			return true
		})
		if !found {
			return c09Unk
		}
		if each {
			return tri(true, all)
		}
		return tri(true, any)
	}
	mentionsKill := func(write bool) func(body *ast.BlockStmt) bool {
		return func(body *ast.BlockStmt) bool {
			hit := false
			ast.Inspect(body, func(n ast.Node) bool {
				switch v := n.(type) {
				case *ast.AssignStmt:
					for _, l := range v.Lhs {
						if sel, ok := l.(*ast.SelectorExpr); ok && sel.Sel.Name == "workerKill" && write {
							hit = true
						}
					}
				case *ast.SelectorExpr:
					if v.Sel.Name == "workerKill" && !write {
						hit = true
					}
				}
				return true
			})
			return hit
		}
	}
	facts["joinAllKeepsRequestUp"] = loopFacts("JoinAll", false, mentionsKill(true))
	facts["swcLoopsYieldToJoinAll"] = loopFacts("SetWorkerCount", true, mentionsKill(false))

	// every access to workerIdleMap / workerMap outside the constructor under workerMapLock
	names := make([]string, 0, len(sc.funcs))
	for n := range sc.funcs {
		names = append(names, n)
	}
	sort.Strings(names)
	idleOK, idleFound := true, false
	for _, n := range names {
		if strings.HasPrefix(n, "NewThreadPool") {
			continue
		}
		for _, e := range sc.scanFunc(n) {
			if e.fn != n {
				continue // events of followed callees are judged in their own scan, with the caller's locks, below
			}
			if strings.HasSuffix(e.kind, ":workerIdleMap") || strings.HasSuffix(e.kind, ":workerMap") {
				idleFound = true
				if !e.held["workerMapLock"] {
					// a helper may rely on its caller's lock: only refuted when the function is an entry point
					if ast.IsExported(strings.TrimPrefix(n, "idleTask.")) || n == "run" || n == "getTask" {
						idleOK = false
						notes = append(notes, fmt.Sprintf("%s accesses %s without workerMapLock", n, e.kind))
					}
				}
			}
		}
	}
	facts["workerMapsUnderLock"] = tri(idleFound, idleOK)

	// lock nesting acyclic
	for _, n := range names {
		sc.scanFunc(n)
	}
	acyclic := true
	var visit func(n string, stack map[string]bool, done map[string]bool)
	visit = func(n string, stack, done map[string]bool) {
		if stack[n] {
			acyclic = false
			return
		}
		if done[n] {
			return
		}
		stack[n] = true
		for m := range sc.edges[n] {
			visit(m, stack, done)
		}
		stack[n] = false
		done[n] = true
	}
	done := map[string]bool{}
	var edgeTxt []string
	for a := range sc.edges {
		visit(a, map[string]bool{}, done)
		for b := range sc.edges[a] {
			edgeTxt = append(edgeTxt, a+"->"+b)
		}
	}
	sort.Strings(edgeTxt)
	facts["lockOrderAcyclic"] = tri(len(edgeTxt) > 0, acyclic)
	notes = append(notes, "lock nesting: "+strings.Join(edgeTxt, " "))
	if sc.unknown {
		notes = append(notes, "a statement shape the scanner does not follow occurred: facts that were established stay, nothing is refuted by it")
	}
	return facts, notes, nil
}

func c09Tool(args []string) int {
	if len(args) < 1 || args[0] != "skeleton" {
		fmt.Fprintln(os.Stderr, "usage: harness C09 -tool skeleton [out.lean]")
		return 2
	}
	facts, notes, err := c09Facts(filepath.Join(repoDir(), "engine", "pool"))
	if err != nil {
		fmt.Fprintln(os.Stderr, err)
		facts, notes = map[string]int{}, []string{"extraction failed: " + err.Error()}
	}
	keys := []string{"signalUnderL", "pushBeforeSignal", "waitUnderL", "recheckQueueUnderL", "recheckKillUnderL", "waitGuardedByBoth",
		"swcOneSection", "swcCountsExiting", "swcFirstBroadcastUnderL", "killTakenUnderLock", "exitingCountedUnderLock",
		"exitDecidedWithKillInOneSection", "workerMapsUnderLock", "lockOrderAcyclic", "joinAllKeepsRequestUp",
		"swcLoopsYieldToJoinAll", "exitAtomic", "waitAllSnapshotOneSection", "joinAllLoopBroadcasts"}
	var sb strings.Builder
	sb.WriteString("/-! GENERATED by `harness C09 -tool skeleton` from engine/pool/threadpool.go — do not edit.\n")
	sb.WriteString("Synchronisation skeleton facts, three-valued: 1 = established, 0 = REFUTED, 2 = not established. -/\n")
	sb.WriteString("namespace Ecal.Gen.C09\n\n")
	for _, k := range keys {
		v, ok := facts[k]
		if !ok {
			v = c09Unk
		}
		sb.WriteString(fmt.Sprintf("def %s : Nat := %d\n", k, v))
	}
	sb.WriteString("\nend Ecal.Gen.C09\n")
	for _, n := range notes {
		fmt.Println("note:", n)
	}
	for _, k := range keys {
		v, ok := facts[k]
		if !ok {
			v = c09Unk
		}
		fmt.Printf("fact %s %d\n", k, v)
	}
	if len(args) > 1 {
		if err := os.WriteFile(args[1], []byte(sb.String()), 0644); err != nil {
			fmt.Fprintln(os.Stderr, err)
			return 2
		}
	} else {
		fmt.Print(sb.String())
	}
	return 0
}
