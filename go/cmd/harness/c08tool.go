package main

// harness C08 -tool gen <out.lean>
//
// Regenerates lean/Ecal/Gen/C08.lean from the Go source of the tree under test:
//   * parser/const.go            — the node names (NodeXXX = "…")
//   * parser/parser.go           — astNodeMap (node name, binding, null/left denotation per token) and the
//                                  amount ndPrefix adds to its binding for the operand
//   * parser/prettyprinter.go    — ppNeedsBrackets translated expression by expression into a Lean function
// Anything the translator does not understand makes `shapeOk := false` (a theorem demands true).

import (
	"fmt"
	"go/ast"
	goparser "go/parser"
	"go/token"
	"os"
	"path/filepath"
	"strconv"
	"strings"

	ecalparser "github.com/krotik/ecal/parser"
)

type parserASTNode = ecalparser.ASTNode

var ecalPrettyPrint = ecalparser.PrettyPrint

type c08x struct {
	file   *ast.File         // prettyprinter.go (for one-expression helper predicates)
	depth  int
	canon  map[string]string // parameter name of ppNeedsBrackets -> parent / child / childIndex
	consts map[string]string // NodeXXX -> value
	ok     bool
	why    []string
}

func (x *c08x) fail(format string, a ...interface{}) string {
	x.ok = false
	x.why = append(x.why, fmt.Sprintf(format, a...))
	return "false"
}

func c08ParseFile(name string) (*token.FileSet, *ast.File, error) {
	fs := token.NewFileSet()
	f, err := goparser.ParseFile(fs, filepath.Join(repoDir(), "parser", name), nil, 0)
	return fs, f, err
}

func leanStr(s string) string { return strconv.Quote(s) }

// term translates an int/string valued Go expression of ppNeedsBrackets.
func (x *c08x) term(e ast.Expr) string {
	switch v := e.(type) {
	case *ast.ParenExpr:
		return "(" + x.term(v.X) + ")"
	case *ast.BasicLit:
		if v.Kind == token.INT {
			return v.Value
		}
		if v.Kind == token.STRING {
			s, _ := strconv.Unquote(v.Value)
			return leanStr(s)
		}
	case *ast.Ident:
		if x.canon[v.Name] == "childIndex" {
			return "childIndex"
		}
		if c, ok := x.consts[v.Name]; ok {
			return leanStr(c)
		}
	case *ast.SelectorExpr:
		if id, ok := v.X.(*ast.Ident); ok && (x.canon[id.Name] == "parent" || x.canon[id.Name] == "child") {
			switch v.Sel.Name {
			case "binding":
				return x.canon[id.Name] + ".binding"
			case "Name":
				return x.canon[id.Name] + ".name"
			}
		}
	case *ast.CallExpr:
		if fn, ok := v.Fun.(*ast.Ident); ok && fn.Name == "len" && len(v.Args) == 1 {
			if sel, ok := v.Args[0].(*ast.SelectorExpr); ok && sel.Sel.Name == "Children" {
				if id, ok := sel.X.(*ast.Ident); ok && (x.canon[id.Name] == "parent" || x.canon[id.Name] == "child") {
					return x.canon[id.Name] + ".nch"
				}
			}
		}
	case *ast.BinaryExpr:
		if v.Op == token.ADD {
			return "(" + x.term(v.X) + " + " + x.term(v.Y) + ")"
		}
	}
	return x.fail("unsupported term %T", e)
}

func isNil(e ast.Expr) bool {
	id, ok := e.(*ast.Ident)
	return ok && id.Name == "nil"
}

func (x *c08x) ldOf(e ast.Expr) (string, bool) {
	if sel, ok := e.(*ast.SelectorExpr); ok && sel.Sel.Name == "leftDenotation" {
		if id, ok := sel.X.(*ast.Ident); ok && (x.canon[id.Name] == "parent" || x.canon[id.Name] == "child") {
			return x.canon[id.Name], true
		}
	}
	return "", false
}

// cond translates a boolean Go expression.
func (x *c08x) cond(e ast.Expr) string {
	switch v := e.(type) {
	case *ast.ParenExpr:
		return "(" + x.cond(v.X) + ")"
	case *ast.UnaryExpr:
		if v.Op == token.NOT {
			return "(!" + x.cond(v.X) + ")"
		}
	case *ast.Ident:
		if v.Name == "true" || v.Name == "false" {
			return v.Name
		}
	case *ast.CallExpr:
		// helper predicate on parent / child whose body is a single return expression: inline it
		if fn, ok := v.Fun.(*ast.Ident); ok && len(v.Args) == 1 && x.file != nil && x.depth < 4 {
			if arg, ok := v.Args[0].(*ast.Ident); ok && (x.canon[arg.Name] == "parent" || x.canon[arg.Name] == "child") {
				for _, d := range x.file.Decls {
					fd, ok := d.(*ast.FuncDecl)
					if !ok || fd.Name.Name != fn.Name || fd.Recv != nil || len(fd.Type.Params.List) != 1 ||
						len(fd.Type.Params.List[0].Names) != 1 || len(fd.Body.List) != 1 {
						continue
					}
					ret, ok := fd.Body.List[0].(*ast.ReturnStmt)
					if !ok || len(ret.Results) != 1 {
						continue
					}
					saved := x.canon
					x.canon = map[string]string{fd.Type.Params.List[0].Names[0].Name: saved[arg.Name]}
					x.depth++
					r := "(" + x.cond(ret.Results[0]) + ")"
					x.depth--
					x.canon = saved
					return r
				}
			}
		}
	case *ast.BinaryExpr:
		switch v.Op {
		case token.LOR:
			return "(" + x.cond(v.X) + " || " + x.cond(v.Y) + ")"
		case token.LAND:
			return "(" + x.cond(v.X) + " && " + x.cond(v.Y) + ")"
		case token.EQL, token.NEQ:
			if who, ok := x.ldOf(v.X); ok && isNil(v.Y) {
				if v.Op == token.EQL {
					return "(!" + who + ".hasLd)"
				}
				return who + ".hasLd"
			}
			op := " = "
			if v.Op == token.NEQ {
				op = " ≠ "
			}
			return "decide (" + x.term(v.X) + op + x.term(v.Y) + ")"
		case token.LSS, token.LEQ, token.GTR, token.GEQ:
			op := map[token.Token]string{token.LSS: " < ", token.LEQ: " ≤ ", token.GTR: " > ", token.GEQ: " ≥ "}[v.Op]
			return "decide (" + x.term(v.X) + op + x.term(v.Y) + ")"
		}
	}
	return x.fail("unsupported condition %T", e)
}

// c08FirstDiff describes the first difference between two trees under c08Equal.
func c08FirstDiff(a, b *parserASTNode, path string) string {
	if a == nil || b == nil {
		if a == nil && b == nil {
			return ""
		}
		return path + ": nil vs non-nil"
	}
	if a.Name != b.Name {
		return fmt.Sprintf("%s: name %s vs %s", path, a.Name, b.Name)
	}
	if len(a.Children) != len(b.Children) {
		return fmt.Sprintf("%s(%s): %d vs %d children", path, a.Name, len(a.Children), len(b.Children))
	}
	for i := range a.Children {
		if d := c08FirstDiff(a.Children[i], b.Children[i], fmt.Sprintf("%s/%s.%d", path, a.Name, i)); d != "" {
			return d
		}
	}
	if !c08Equal(a, b) {
		return fmt.Sprintf("%s(%s): token %v vs %v", path, a.Name, a.Token, b.Token)
	}
	return ""
}

func c08Tool(args []string) int {
	if len(args) == 2 && args[0] == "diff" {
		src := unhx(args[1])
		ast, err := c08Parse(src)
		if err != nil {
			fmt.Println("source does not parse:", err)
			return 1
		}
		txt, _ := ecalPrettyPrint(ast)
		fmt.Printf("printed:\n%s\n", txt)
		ast2, err := c08Parse(txt)
		if err != nil {
			fmt.Println("printed text does not parse:", err)
			return 1
		}
		fmt.Println("first difference:", c08FirstDiff(ast, ast2, ""))
		return 0
	}
	if len(args) != 2 || args[0] != "gen" {
		fmt.Fprintln(os.Stderr, "usage: harness C08 -tool gen <out.lean>")
		return 2
	}
	x := &c08x{consts: map[string]string{}, canon: map[string]string{}, ok: true}

	// node names
	_, cf, err := c08ParseFile("const.go")
	if err != nil {
		fmt.Fprintln(os.Stderr, err)
		return 2
	}
	ast.Inspect(cf, func(n ast.Node) bool {
		if vs, ok := n.(*ast.ValueSpec); ok && len(vs.Names) == len(vs.Values) {
			for i, nm := range vs.Names {
				if bl, ok := vs.Values[i].(*ast.BasicLit); ok && bl.Kind == token.STRING && strings.HasPrefix(nm.Name, "Node") {
					s, _ := strconv.Unquote(bl.Value)
					x.consts[nm.Name] = s
				}
			}
		}
		return true
	})

	// astNodeMap and ndPrefix
	_, pf, err := c08ParseFile("parser.go")
	if err != nil {
		fmt.Fprintln(os.Stderr, err)
		return 2
	}
	type entry struct {
		tok, name, nud, ld string
		binding        string
	}
	var entries []entry
	prefixOff := ""
	identOrNil := func(e ast.Expr) string {
		if id, ok := e.(*ast.Ident); ok {
			return id.Name
		}
		return "?"
	}
	ast.Inspect(pf, func(n ast.Node) bool {
		switch v := n.(type) {
		case *ast.AssignStmt:
			if len(v.Lhs) == 1 && len(v.Rhs) == 1 {
				if id, ok := v.Lhs[0].(*ast.Ident); ok && id.Name == "astNodeMap" {
					if cl, ok := v.Rhs[0].(*ast.CompositeLit); ok {
						for _, el := range cl.Elts {
							kv, ok := el.(*ast.KeyValueExpr)
							if !ok {
								x.fail("astNodeMap element is not key:value")
								continue
							}
							val, ok := kv.Value.(*ast.CompositeLit)
							if !ok || len(val.Elts) != 8 {
								x.fail("astNodeMap value is not an 8-field literal")
								continue
							}
							name := ""
							switch nv := val.Elts[0].(type) {
							case *ast.Ident:
								name = x.consts[nv.Name]
							case *ast.BasicLit:
								name, _ = strconv.Unquote(nv.Value)
							}
							b, ok := val.Elts[5].(*ast.BasicLit)
							if !ok || b.Kind != token.INT {
								x.fail("binding of %s is not an integer literal", identOrNil(kv.Key))
								continue
							}
							entries = append(entries, entry{identOrNil(kv.Key), name, identOrNil(val.Elts[6]), identOrNil(val.Elts[7]), b.Value})
						}
					}
				}
			}
		case *ast.FuncDecl:
			if v.Name.Name == "ndPrefix" {
				// the operand is parsed with p.run(self.binding + N)
				ast.Inspect(v.Body, func(m ast.Node) bool {
					if call, ok := m.(*ast.CallExpr); ok {
						if sel, ok := call.Fun.(*ast.SelectorExpr); ok && sel.Sel.Name == "run" && len(call.Args) == 1 {
							switch a := call.Args[0].(type) {
							case *ast.BinaryExpr:
								if s, ok := a.X.(*ast.SelectorExpr); ok && s.Sel.Name == "binding" && a.Op == token.ADD {
									if bl, ok := a.Y.(*ast.BasicLit); ok && bl.Kind == token.INT {
										prefixOff = bl.Value
									}
								}
							case *ast.SelectorExpr:
								if a.Sel.Name == "binding" {
									prefixOff = "0"
								}
							}
						}
					}
					return true
				})
			}
		}
		return true
	})
	if len(entries) == 0 {
		x.fail("astNodeMap not found")
	}
	if prefixOff == "" {
		x.fail("ndPrefix: p.run(self.binding + N) not found")
		prefixOff = "0"
	}

	// ppNeedsBrackets
	_, ppf, err := c08ParseFile("prettyprinter.go")
	if err != nil {
		fmt.Fprintln(os.Stderr, err)
		return 2
	}
	x.file = ppf
	var steps [][2]string // condition, result
	final := ""
	found := false
	for _, d := range ppf.Decls {
		fd, ok := d.(*ast.FuncDecl)
		if !ok || fd.Name.Name != "ppNeedsBrackets" {
			continue
		}
		found = true
		var pnames []string
		for _, f := range fd.Type.Params.List {
			for _, n := range f.Names {
				pnames = append(pnames, n.Name)
			}
		}
		if len(pnames) != 3 {
			x.fail("ppNeedsBrackets parameters are %v", pnames)
		} else {
			x.canon = map[string]string{pnames[0]: "parent", pnames[1]: "child", pnames[2]: "childIndex"}
		}
		for i, st := range fd.Body.List {
			switch v := st.(type) {
			case *ast.IfStmt:
				if v.Init != nil || v.Else != nil || len(v.Body.List) != 1 {
					x.fail("if statement %d is not of the form `if c { return e }`", i)
					continue
				}
				r, ok := v.Body.List[0].(*ast.ReturnStmt)
				if !ok || len(r.Results) != 1 {
					x.fail("if statement %d does not return one value", i)
					continue
				}
				steps = append(steps, [2]string{x.cond(v.Cond), x.cond(r.Results[0])})
			case *ast.ReturnStmt:
				if len(v.Results) != 1 || i != len(fd.Body.List)-1 {
					x.fail("unexpected return statement %d", i)
					continue
				}
				final = x.cond(v.Results[0])
			default:
				x.fail("unsupported statement %T in ppNeedsBrackets", st)
			}
		}
	}
	if !found {
		x.fail("ppNeedsBrackets not found (bracket rule not in the expected place)")
	}
	if final == "" {
		x.fail("ppNeedsBrackets has no final return")
		final = "false"
	}

	var sb strings.Builder
	sb.WriteString("/-! GENERATED by `harness C08 -tool gen` from parser/const.go, parser/parser.go, parser/prettyprinter.go\n")
	sb.WriteString("of the tree under test — do not edit. -/\nnamespace Ecal.Gen.C08\n\n")
	sb.WriteString("/-- astNodeMap: (token, node name, binding, nullDenotation, leftDenotation) -/\n")
	sb.WriteString("def astNodeMap : List (String × String × Nat × String × String) := [\n")
	for i, e := range entries {
		sep := ","
		if i == len(entries)-1 {
			sep = ""
		}
		fmt.Fprintf(&sb, "  (%s, %s, %s, %s, %s)%s\n", leanStr(e.tok), leanStr(e.name), e.binding, leanStr(e.nud), leanStr(e.ld), sep)
	}
	sb.WriteString("]\n\n/-- ndPrefix parses its operand with p.run(self.binding + prefixOffset) -/\n")
	fmt.Fprintf(&sb, "def prefixOffset : Nat := %s\n\n", prefixOff)
	sb.WriteString("/-- what ppNeedsBrackets reads of a node -/\nstructure BN where\n  name : String\n  binding : Nat\n  hasLd : Bool\n  nch : Nat\n\n")
	sb.WriteString("/-- ppNeedsBrackets, translated statement by statement -/\n")
	sb.WriteString("def needsBrackets (parent child : BN) (childIndex : Nat) : Bool :=\n")
	if x.ok {
		for _, s := range steps {
			fmt.Fprintf(&sb, "  if %s then %s else\n", s[0], s[1])
		}
		fmt.Fprintf(&sb, "  %s\n\n", final)
	} else {
		sb.WriteString("  false\n\n")
	}
	fmt.Fprintf(&sb, "/-- the extractor understood every construct -/\ndef shapeOk : Bool := %v\n", x.ok)
	for _, w := range x.why {
		fmt.Fprintf(&sb, "-- not understood: %s\n", strings.ReplaceAll(w, "\n", " "))
	}
	sb.WriteString("\nend Ecal.Gen.C08\n")
	if err := os.WriteFile(args[1], []byte(sb.String()), 0644); err != nil {
		fmt.Fprintln(os.Stderr, err)
		return 2
	}
	return 0
}
