package main

// harness C08 -tool gen <out.lean>
//
// Regenerates lean/Ecal/Gen/C08.lean from the Go source of the tree under test:
//   * parser/const.go            — the node names (NodeXXX = "…")
//   * parser/parser.go           — astNodeMap (node name, binding, null/left denotation per token) and the
//                                  amount ndPrefix adds to its binding for the operand
//   * parser/prettyprinter.go    — ppNeedsBrackets translated expression by expression into a Lean function
// Anything the translator does not understand makes `shapeOk := false` (a theorem demands true).

import (
	"fmt"
	"go/ast"
	goparser "go/parser"
	"go/token"
	"os"
	"path/filepath"
	"strconv"
	"strings"

	ecalparser "github.com/krotik/ecal/parser"
)

type parserASTNode = ecalparser.ASTNode

var ecalPrettyPrint = ecalparser.PrettyPrint

type c08x struct {
	consts map[string]string // NodeXXX -> value
	ints   map[string]string // integer constants of the package
	ok     bool              // the operator table was understood
	why    []string
}

func (x *c08x) fail(format string, a ...interface{}) string {
	x.ok = false
	x.why = append(x.why, fmt.Sprintf(format, a...))
	return "false"
}

func c08ParseFile(name string) (*token.FileSet, *ast.File, error) {
	fs := token.NewFileSet()
	f, err := goparser.ParseFile(fs, filepath.Join(repoDir(), "parser", name), nil, 0)
	return fs, f, err
}

// c08ParsePackage parses all non-test files of package parser.
func c08ParsePackage() ([]*ast.File, error) {
	names, err := filepath.Glob(filepath.Join(repoDir(), "parser", "*.go"))
	if err != nil {
		return nil, err
	}
	var files []*ast.File
	for _, n := range names {
		if strings.HasSuffix(n, "_test.go") {
			continue
		}
		f, err := goparser.ParseFile(token.NewFileSet(), n, nil, 0)
		if err != nil {
			return nil, err
		}
		files = append(files, f)
	}
	return files, nil
}

func leanStr(s string) string { return strconv.Quote(s) }

func isNil(e ast.Expr) bool {
	id, ok := e.(*ast.Ident)
	return ok && id.Name == "nil"
}

// c08FirstDiff describes the first difference between two trees under c08Equal.
func c08FirstDiff(a, b *parserASTNode, path string) string {
	if a == nil || b == nil {
		if a == nil && b == nil {
			return ""
		}
		return path + ": nil vs non-nil"
	}
	if a.Name != b.Name {
		return fmt.Sprintf("%s: name %s vs %s", path, a.Name, b.Name)
	}
	if len(a.Children) != len(b.Children) {
		return fmt.Sprintf("%s(%s): %d vs %d children", path, a.Name, len(a.Children), len(b.Children))
	}
	for i := range a.Children {
		if d := c08FirstDiff(a.Children[i], b.Children[i], fmt.Sprintf("%s/%s.%d", path, a.Name, i)); d != "" {
			return d
		}
	}
	if !c08Equal(a, b) {
		return fmt.Sprintf("%s(%s): token %v vs %v", path, a.Name, a.Token, b.Token)
	}
	return ""
}

func c08Tool(args []string) int {
	if len(args) == 2 && args[0] == "diff" {
		src := unhx(args[1])
		ast, err := c08Parse(src)
		if err != nil {
			fmt.Println("source does not parse:", err)
			return 1
		}
		txt, _ := ecalPrettyPrint(ast)
		fmt.Printf("printed:\n%s\n", txt)
		ast2, err := c08Parse(txt)
		if err != nil {
			fmt.Println("printed text does not parse:", err)
			return 1
		}
		fmt.Println("first difference:", c08FirstDiff(ast, ast2, ""))
		return 0
	}
	if len(args) != 2 || args[0] != "gen" {
		fmt.Fprintln(os.Stderr, "usage: harness C08 -tool gen <out.lean>")
		return 2
	}
	x := &c08x{consts: map[string]string{}, ints: map[string]string{}, ok: true}

	// constants of the package: node names (NodeXXX = "…") and integers
	files, err := c08ParsePackage()
	if err != nil {
		fmt.Fprintln(os.Stderr, err)
		return 2
	}
	for _, cf := range files {
		for _, d := range cf.Decls {
			gd, ok := d.(*ast.GenDecl)
			if !ok || gd.Tok != token.CONST {
				continue
			}
			for _, sp := range gd.Specs {
				vs := sp.(*ast.ValueSpec)
				if len(vs.Names) != len(vs.Values) {
					continue
				}
				for i, nm := range vs.Names {
					if bl, ok := vs.Values[i].(*ast.BasicLit); ok {
						if bl.Kind == token.STRING {
							str, _ := strconv.Unquote(bl.Value)
							x.consts[nm.Name] = str
						} else if bl.Kind == token.INT {
							x.ints[nm.Name] = bl.Value
						}
					}
				}
			}
		}
	}

	// astNodeMap and ndPrefix
	_, pf, err := c08ParseFile("parser.go")
	if err != nil {
		fmt.Fprintln(os.Stderr, err)
		return 2
	}
	type entry struct {
		tok, name, nud, ld string
		binding        string
	}
	var entries []entry
	prefixOff := ""
	identOrNil := func(e ast.Expr) string {
		if id, ok := e.(*ast.Ident); ok {
			return id.Name
		}
		return "?"
	}
	ast.Inspect(pf, func(n ast.Node) bool {
		switch v := n.(type) {
		case *ast.AssignStmt:
			if len(v.Lhs) == 1 && len(v.Rhs) == 1 {
				if id, ok := v.Lhs[0].(*ast.Ident); ok && id.Name == "astNodeMap" {
					if cl, ok := v.Rhs[0].(*ast.CompositeLit); ok {
						for _, el := range cl.Elts {
							kv, ok := el.(*ast.KeyValueExpr)
							if !ok {
								x.fail("astNodeMap element is not key:value")
								continue
							}
							val, ok := kv.Value.(*ast.CompositeLit)
							if !ok || len(val.Elts) != 8 {
								x.fail("astNodeMap value is not an 8-field literal")
								continue
							}
							name := ""
							switch nv := val.Elts[0].(type) {
							case *ast.Ident:
								name = x.consts[nv.Name]
							case *ast.BasicLit:
								name, _ = strconv.Unquote(nv.Value)
							}
							b, ok := val.Elts[5].(*ast.BasicLit)
							if !ok || b.Kind != token.INT {
								x.fail("binding of %s is not an integer literal", identOrNil(kv.Key))
								continue
							}
							entries = append(entries, entry{identOrNil(kv.Key), name, identOrNil(val.Elts[6]), identOrNil(val.Elts[7]), b.Value})
						}
					}
				}
			}
		case *ast.FuncDecl:
			if v.Name.Name == "ndPrefix" {
				// the operand is parsed with p.run(self.binding + N)
				ast.Inspect(v.Body, func(m ast.Node) bool {
					if call, ok := m.(*ast.CallExpr); ok {
						if sel, ok := call.Fun.(*ast.SelectorExpr); ok && sel.Sel.Name == "run" && len(call.Args) == 1 {
							switch a := call.Args[0].(type) {
							case *ast.BinaryExpr:
								if s, ok := a.X.(*ast.SelectorExpr); ok && s.Sel.Name == "binding" && a.Op == token.ADD {
									if bl, ok := a.Y.(*ast.BasicLit); ok && bl.Kind == token.INT {
										prefixOff = bl.Value
									} else if id, ok := a.Y.(*ast.Ident); ok && x.ints[id.Name] != "" {
										prefixOff = x.ints[id.Name]
									}
								}
							case *ast.SelectorExpr:
								if a.Sel.Name == "binding" {
									prefixOff = "0"
								}
							}
						}
					}
					return true
				})
			}
		}
		return true
	})
	if len(entries) == 0 {
		x.fail("astNodeMap not found")
	}
	if prefixOff == "" {
		x.fail("ndPrefix: p.run(self.binding + N) not found")
		prefixOff = "0"
	}

	// ppNeedsBrackets
	rule, ruleOk, ruleWhy := c08TranslateRule(files, x.consts, x.ints)

	var sb strings.Builder
	sb.WriteString("/-! GENERATED by `harness C08 -tool gen` from parser/const.go, parser/parser.go, parser/prettyprinter.go\n")
	sb.WriteString("of the tree under test — do not edit. -/\nnamespace Ecal.Gen.C08\n\n")
	sb.WriteString("/-- astNodeMap: (token, node name, binding, nullDenotation, leftDenotation) -/\n")
	sb.WriteString("def astNodeMap : List (String × String × Nat × String × String) := [\n")
	for i, e := range entries {
		sep := ","
		if i == len(entries)-1 {
			sep = ""
		}
		fmt.Fprintf(&sb, "  (%s, %s, %s, %s, %s)%s\n", leanStr(e.tok), leanStr(e.name), e.binding, leanStr(e.nud), leanStr(e.ld), sep)
	}
	sb.WriteString("]\n\n/-- ndPrefix parses its operand with p.run(self.binding + prefixOffset) -/\n")
	fmt.Fprintf(&sb, "def prefixOffset : Nat := %s\n\n", prefixOff)
	sb.WriteString("/-- what ppNeedsBrackets reads of a node -/\nstructure BN where\n  name : String\n  binding : Nat\n  hasLd : Bool\n  nch : Nat\n\n")
	sb.WriteString("/-- ppNeedsBrackets, translated statement by statement -/\n")
	sb.WriteString("def needsBrackets (parent child : BN) (childIndex : Nat) : Bool :=\n")
	if ruleOk {
		fmt.Fprintf(&sb, "  %s\n\n", rule)
	} else {
		sb.WriteString("  false\n\n")
	}
	fmt.Fprintf(&sb, "/-- ppNeedsBrackets was translated (otherwise the facts about `needsBrackets` are not obligations\n    and the check amplifies its differential search instead) -/\ndef shapeOk : Bool := %v\n", ruleOk)
	if !ruleOk {
		fmt.Fprintf(&sb, "-- rule not established: %s\n", strings.ReplaceAll(ruleWhy, "\n", " "))
	}
	fmt.Fprintf(&sb, "\n/-- astNodeMap and ndPrefix were understood -/\ndef tableOk : Bool := %v\n", x.ok)
	for _, w := range x.why {
		fmt.Fprintf(&sb, "-- not understood: %s\n", strings.ReplaceAll(w, "\n", " "))
	}
	sb.WriteString("\nend Ecal.Gen.C08\n")
	if err := os.WriteFile(args[1], []byte(sb.String()), 0644); err != nil {
		fmt.Fprintln(os.Stderr, err)
		return 2
	}
	return 0
}
