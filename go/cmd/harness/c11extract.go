package main

// Fact extractor of C11 (`harness C11 -tool extract <out.lean>`), pure go/ast.
//
// Facts (three-valued: a fact that cannot be established is "unknown", never a made-up value):
//   action        the function the sink installs as rule.Action — a function literal, a local
//                 variable holding one, a method value, a named function, or the literal returned
//                 by a same-package helper;
//   capturedWrites / capturedReassigned / funcRunWrites   (see the generated file's header);
//   sinkScopeSetup / funcRunScopeSetup   the ordered scope set-up calls, followed through
//                 same-package helpers (a helper that creates / fills / links the scope is
//                 spliced in at its call site; multi-value assignments are accepted);
//   scopeLocking  scope/varsscope.go: which exported methods take the scope lock before touching
//                 storage / parent / children, and whether SetParentOfScope / NewChild adopt the
//                 parent's lock.

import (
	"fmt"
	"go/ast"
	"go/token"
	"os"
	"path/filepath"
	"sort"
	"strings"
)

type c11Facts struct {
	status     string   // "established" | "unknown: <why>"
	writes     []string // captured variables assigned inside (incl. same-package helpers it calls)
	reassigned []string // captured variables re-assigned by the enclosing function after the closure was created / loop variables
	setup      []string // scope set-up calls in source order
	setupState string   // "established" | "unknown: <why>"
}

func c11Names(entries []string) []string {
	set := map[string]bool{}
	for _, e := range entries {
		set[strings.Fields(e)[0]] = true
	}
	var out []string
	for k := range set {
		out = append(out, k)
	}
	sort.Strings(out)
	return out
}

type c11Index struct {
	p      *srcPkg
	byName map[string][]*ast.FuncDecl // bare name -> declarations
	byRecv map[string]*ast.FuncDecl   // "Type.method" -> declaration
	fileOf map[*ast.FuncDecl]*ast.File
	consts map[string]string // package-level string constants / variables initialised with a literal
}

func newC11Index(p *srcPkg) *c11Index {
	ix := &c11Index{p, map[string][]*ast.FuncDecl{}, map[string]*ast.FuncDecl{}, map[*ast.FuncDecl]*ast.File{}, map[string]string{}}
	for _, f := range p.files {
		for _, d := range f.Decls {
			switch x := d.(type) {
			case *ast.FuncDecl:
				if x.Body == nil {
					continue
				}
				ix.fileOf[x] = f
				if x.Recv != nil && len(x.Recv.List) == 1 {
					ix.byRecv[typeNameOf(x.Recv.List[0].Type)+"."+x.Name.Name] = x
				} else {
					ix.byName[x.Name.Name] = append(ix.byName[x.Name.Name], x)
				}
			case *ast.GenDecl:
				if x.Tok == token.CONST || x.Tok == token.VAR {
					for _, sp := range x.Specs {
						vs := sp.(*ast.ValueSpec)
						for i, n := range vs.Names {
							if i < len(vs.Values) {
								if lit, ok := vs.Values[i].(*ast.BasicLit); ok && lit.Kind == token.STRING {
									ix.consts[n.Name] = strings.Trim(lit.Value, "\"`")
								}
							}
						}
					}
				}
			}
		}
	}
	return ix
}

func recvIdent(fd *ast.FuncDecl) *ast.Ident {
	if fd != nil && fd.Recv != nil && len(fd.Recv.List) == 1 && len(fd.Recv.List[0].Names) == 1 {
		return fd.Recv.List[0].Names[0]
	}
	return nil
}

// typeOfIdent: the declared type name of a receiver / parameter / `var x T` identifier
func typeOfIdent(id *ast.Ident) string {
	if id == nil || id.Obj == nil {
		return ""
	}
	switch d := id.Obj.Decl.(type) {
	case *ast.Field:
		return typeNameOf(d.Type)
	case *ast.ValueSpec:
		if d.Type != nil {
			return typeNameOf(d.Type)
		}
	}
	return ""
}

// callee resolves a call to a same-package function or method declaration (nil = not resolved:
// interface dispatch, other package, promoted method, function value).
func (ix *c11Index) callee(c *ast.CallExpr) *ast.FuncDecl {
	switch f := c.Fun.(type) {
	case *ast.Ident:
		if f.Obj != nil && f.Obj.Kind != ast.Fun {
			return nil
		}
		if ds := ix.byName[f.Name]; len(ds) == 1 {
			return ds[0]
		}
	case *ast.SelectorExpr:
		if x, ok := f.X.(*ast.Ident); ok {
			if t := typeOfIdent(x); t != "" {
				return ix.byRecv[t+"."+f.Sel.Name]
			}
		}
	}
	return nil
}

// funcValue resolves an expression used as a function value to the node that defines the code:
// a FuncLit or a FuncDecl.
func (ix *c11Index) funcValue(e ast.Expr, depth int) ast.Node {
	if depth > 3 {
		return nil
	}
	switch x := unparen(e).(type) {
	case *ast.FuncLit:
		return x
	case *ast.Ident:
		if x.Obj == nil || x.Obj.Kind == ast.Fun {
			if ds := ix.byName[x.Name]; len(ds) == 1 {
				return ds[0]
			}
			return nil
		}
		switch d := x.Obj.Decl.(type) {
		case *ast.AssignStmt: // action := func…   /  a, b := f(), func…
			for i, l := range d.Lhs {
				if id, ok := l.(*ast.Ident); ok && id.Obj == x.Obj {
					if len(d.Rhs) == len(d.Lhs) {
						return ix.funcValue(d.Rhs[i], depth+1)
					}
					if len(d.Rhs) == 1 && i == 0 {
						return ix.funcValue(d.Rhs[0], depth+1)
					}
				}
			}
		case *ast.ValueSpec:
			for i, n := range d.Names {
				if n.Obj == x.Obj && i < len(d.Values) {
					return ix.funcValue(d.Values[i], depth+1)
				}
			}
		}
	case *ast.SelectorExpr: // method value rt.action
		if id, ok := x.X.(*ast.Ident); ok {
			if t := typeOfIdent(id); t != "" {
				if fd := ix.byRecv[t+"."+x.Sel.Name]; fd != nil {
					return fd
				}
			}
		}
	case *ast.CallExpr: // helper returning the closure
		if fd := ix.callee(x); fd != nil {
			var res ast.Node
			ast.Inspect(fd.Body, func(n ast.Node) bool {
				if _, isLit := n.(*ast.FuncLit); isLit {
					return false
				}
				if r, ok := n.(*ast.ReturnStmt); ok && len(r.Results) >= 1 && res == nil {
					res = ix.funcValue(r.Results[0], depth+1)
				}
				return true
			})
			return res
		}
	}
	return nil
}

func pathTo(root ast.Node, target ast.Node) []ast.Node {
	var stack, found []ast.Node
	ast.Inspect(root, func(n ast.Node) bool {
		if n == nil {
			stack = stack[:len(stack)-1]
			return true
		}
		stack = append(stack, n)
		if n == target && found == nil {
			found = append([]ast.Node{}, stack...)
		}
		return true
	})
	return found
}

// helperWrites: writes to receiver components / package-level variables in the same-package
// functions the node calls (two levels).
func (ix *c11Index) helperWrites(n ast.Node, depth int, seen map[*ast.FuncDecl]bool, out *[]string) {
	if depth > 2 {
		return
	}
	ast.Inspect(n, func(x ast.Node) bool {
		if c, ok := x.(*ast.CallExpr); ok {
			if fd := ix.callee(c); fd != nil && !seen[fd] {
				seen[fd] = true
				*out = append(*out, capturedWritesOf(fd, recvIdent(fd), ix.p, fileImports(ix.fileOf[fd]))...)
				ix.helperWrites(fd.Body, depth+1, seen, out)
			}
		}
		return true
	})
}

// c11Action analyses the function installed as `<x>.Action` anywhere in the package.
func (ix *c11Index) action() c11Facts {
	res := c11Facts{status: "unknown: no assignment to a field named Action found", setupState: "unknown: action not found"}
	for _, f := range ix.p.files {
		imports := fileImports(f)
		for _, d := range f.Decls {
			fd, ok := d.(*ast.FuncDecl)
			if !ok || fd.Body == nil {
				continue
			}
			ast.Inspect(fd.Body, func(n ast.Node) bool {
				as, ok := n.(*ast.AssignStmt)
				if !ok {
					return true
				}
				for i, l := range as.Lhs {
					sel, ok := l.(*ast.SelectorExpr)
					if !ok || sel.Sel.Name != "Action" || len(as.Rhs) != len(as.Lhs) {
						continue
					}
					code := ix.funcValue(as.Rhs[i], 0)
					if code == nil {
						res.status = "unknown: the value assigned to .Action could not be resolved to a function body"
						continue
					}
					res.status = "established"
					var raw []string
					switch c := code.(type) {
					case *ast.FuncLit:
						raw = capturedWritesOf(c, nil, ix.p, imports)
						res.reassigned = ix.reassigned(fd, c, imports)
						ix.helperWrites(c, 1, map[*ast.FuncDecl]bool{}, &raw)
						res.setup, res.setupState = ix.scopeSetup(c)
					case *ast.FuncDecl:
						raw = capturedWritesOf(c, recvIdent(c), ix.p, fileImports(ix.fileOf[c]))
						ix.helperWrites(c.Body, 1, map[*ast.FuncDecl]bool{c: true}, &raw)
						res.setup, res.setupState = ix.scopeSetup(c)
					}
					res.writes = c11Names(raw)
				}
				return true
			})
		}
	}
	sort.Strings(res.reassigned)
	return res
}

// reassigned: captured variables of lit which the enclosing function assigns after creating the
// closure, loop variables around it, and assignments inside a loop around it.
func (ix *c11Index) reassigned(fd *ast.FuncDecl, lit *ast.FuncLit, imports map[string]string) []string {
	captured := map[*ast.Object]bool{}
	ast.Inspect(lit, func(x ast.Node) bool {
		if id, ok := x.(*ast.Ident); ok && id.Obj != nil && id.Obj.Kind == ast.Var {
			dp := objPos(id.Obj)
			if dp != token.NoPos && (dp < lit.Pos() || dp >= lit.End()) && dp >= fd.Pos() && dp < fd.End() {
				captured[id.Obj] = true
			}
		}
		return true
	})
	re := map[string]bool{}
	stack := pathTo(fd.Body, lit)
	// the local variable that merely holds the literal (`action := func…`) is not "re-assigned" by its own definition
	for _, anc := range stack {
		switch l := anc.(type) {
		case *ast.RangeStmt:
			for _, e := range []ast.Expr{l.Key, l.Value} {
				if id, ok := e.(*ast.Ident); ok && id.Obj != nil && captured[id.Obj] {
					re[id.Name] = true
				}
			}
		case *ast.ForStmt:
			if init, ok := l.Init.(*ast.AssignStmt); ok {
				for _, e := range init.Lhs {
					if id, ok := e.(*ast.Ident); ok && id.Obj != nil && captured[id.Obj] {
						re[id.Name] = true
					}
				}
			}
		}
	}
	forEachWrite(fd.Body, imports, func(t ast.Expr, kind string, pos token.Pos) {
		if pos >= lit.Pos() && pos < lit.End() {
			return
		}
		if id, ok := unparen(t).(*ast.Ident); ok && id.Obj != nil && captured[id.Obj] && pos > lit.Pos() {
			re[id.Name] = true
		}
	})
	for _, anc := range stack {
		_, isFor := anc.(*ast.ForStmt)
		_, isRange := anc.(*ast.RangeStmt)
		if !isFor && !isRange {
			continue
		}
		forEachWrite(anc, imports, func(t ast.Expr, kind string, pos token.Pos) {
			if pos >= lit.Pos() && pos < lit.End() {
				return
			}
			if id, ok := unparen(t).(*ast.Ident); ok && id.Obj != nil && captured[id.Obj] {
				re[id.Name] = true
			}
		})
	}
	var out []string
	for k := range re {
		out = append(out, k)
	}
	sort.Strings(out)
	return out
}

// ---- scope set-up sequence

func scopeCtor(c *ast.CallExpr) string {
	if sel, ok := c.Fun.(*ast.SelectorExpr); ok {
		switch sel.Sel.Name {
		case "NewScope", "NewScopeWithParent", "NewChild":
			return sel.Sel.Name
		}
	}
	return ""
}

// setupSeq interprets fn: events in source order. scopeObjs: identifiers known to denote THE
// scope under construction (parameters the caller passed it in). Returns the events and whether
// the function returns the scope as its first result.
func (ix *c11Index) setupSeq(fn ast.Node, scopeObjs map[*ast.Object]bool, depth int) (evs []string, returnsScope bool) {
	if depth > 3 {
		return nil, false
	}
	// which identifier receives the (first) result of a call
	target := map[*ast.CallExpr]*ast.Ident{}
	ast.Inspect(fn, func(n ast.Node) bool {
		switch a := n.(type) {
		case *ast.AssignStmt:
			if len(a.Rhs) >= 1 {
				for i, r := range a.Rhs {
					if c, ok := unparen(r).(*ast.CallExpr); ok {
						k := i
						if len(a.Rhs) == 1 {
							k = 0 // x, err := f()
						}
						if id, ok := a.Lhs[k].(*ast.Ident); ok {
							target[c] = id
						}
					}
				}
			}
		case *ast.ValueSpec:
			for i, r := range a.Values {
				if c, ok := unparen(r).(*ast.CallExpr); ok && i < len(a.Names) {
					target[c] = a.Names[i]
				}
			}
		}
		return true
	})
	isScope := func(e ast.Expr) bool {
		// a type assertion / conversion of the scope is still the scope
		for {
			switch x := unparen(e).(type) {
			case *ast.TypeAssertExpr:
				e = x.X
				continue
			case *ast.Ident:
				return x.Obj != nil && scopeObjs[x.Obj]
			}
			return false
		}
	}
	mark := func(c *ast.CallExpr) {
		if id := target[c]; id != nil && id.Obj != nil {
			scopeObjs[id.Obj] = true
		}
	}
	var calls []*ast.CallExpr
	ast.Inspect(fn, func(n ast.Node) bool {
		if c, ok := n.(*ast.CallExpr); ok {
			calls = append(calls, c)
		}
		return true
	})
	sort.SliceStable(calls, func(i, j int) bool { return calls[i].Pos() < calls[j].Pos() })
	for _, c := range calls {
		if ctor := scopeCtor(c); ctor != "" {
			// only the first scope created here is THE scope (later NewChild calls on other scopes are evaluation detail)
			if len(scopeObjs) == 0 || (target[c] != nil && target[c].Obj != nil && scopeObjs[target[c].Obj]) {
				evs = append(evs, ctor)
				mark(c)
			}
			continue
		}
		sel, isSel := c.Fun.(*ast.SelectorExpr)
		if isSel {
			switch {
			case (sel.Sel.Name == "SetValue" || sel.Sel.Name == "SetLocalValue") && isScope(sel.X) && len(c.Args) >= 1:
				name := "*"
				switch a := c.Args[0].(type) {
				case *ast.BasicLit:
					if a.Kind == token.STRING {
						name = strings.Trim(a.Value, "\"`")
					}
				case *ast.Ident:
					if v, ok := ix.consts[a.Name]; ok && (a.Obj == nil || a.Obj.Kind == ast.Con || ix.p.isPkgLevel(a)) {
						name = v
					}
				}
				evs = append(evs, sel.Sel.Name+":"+name)
				continue
			case sel.Sel.Name == "SetParentOfScope" && len(c.Args) >= 1 && isScope(c.Args[0]):
				evs = append(evs, "SetParentOfScope")
				continue
			case sel.Sel.Name == "Eval" && len(c.Args) >= 1 && isScope(c.Args[0]):
				evs = append(evs, "Eval")
				continue
			}
		}
		// a same-package helper that creates the scope or receives it
		if fd := ix.callee(c); fd != nil {
			sub := map[*ast.Object]bool{}
			passes := false
			if fd.Type.Params != nil {
				var params []*ast.Ident
				for _, fl := range fd.Type.Params.List {
					params = append(params, fl.Names...)
				}
				for i, a := range c.Args {
					if i < len(params) && isScope(a) && params[i].Obj != nil {
						sub[params[i].Obj] = true
						passes = true
					}
				}
			}
			if !passes && len(scopeObjs) > 0 {
				continue // the scope exists already and is not handed to this helper
			}
			hev, ret := ix.setupSeq(fd, sub, depth+1)
			if len(hev) > 0 {
				evs = append(evs, hev...)
				if ret {
					mark(c)
				}
			}
		}
	}
	// does the function return the scope?
	ast.Inspect(fn, func(n ast.Node) bool {
		if _, isLit := n.(*ast.FuncLit); isLit && n != fn {
			return false
		}
		if r, ok := n.(*ast.ReturnStmt); ok && len(r.Results) >= 1 && isScope(r.Results[0]) {
			returnsScope = true
		}
		return true
	})
	return evs, returnsScope
}

func (ix *c11Index) scopeSetup(fn ast.Node) ([]string, string) {
	evs, _ := ix.setupSeq(fn, map[*ast.Object]bool{}, 0)
	var out []string
	for _, e := range evs {
		if len(out) == 0 || out[len(out)-1] != e {
			out = append(out, e)
		}
	}
	hasCtor, hasStore := false, false
	for _, e := range out {
		if strings.HasPrefix(e, "New") {
			hasCtor = true
		}
		if strings.HasPrefix(e, "SetValue:") || strings.HasPrefix(e, "SetLocalValue:") {
			hasStore = true
		}
	}
	switch {
	case !hasCtor:
		return out, "unknown: no scope constructor reached from the function (set-up hidden behind a call that is not resolved)"
	case !hasStore:
		return out, "unknown: no store into the fresh scope reached from the function"
	}
	return out, "established"
}

func (ix *c11Index) method(recvType, name string) c11Facts {
	fd := ix.byRecv[recvType+"."+name]
	if fd == nil {
		return c11Facts{status: "unknown: method " + recvType + "." + name + " not found", setupState: "unknown: method not found"}
	}
	res := c11Facts{status: "established"}
	raw := capturedWritesOf(fd, recvIdent(fd), ix.p, fileImports(ix.fileOf[fd]))
	ix.helperWrites(fd.Body, 1, map[*ast.FuncDecl]bool{fd: true}, &raw)
	res.writes = c11Names(raw)
	res.setup, res.setupState = ix.scopeSetup(fd)
	return res
}

// ---- scope/varsscope.go: locking

// c11ScopeLocking (three-valued). For every exported method of the scope type:
//   "locks"        the method (or a same-type helper it calls first) takes the scope lock before the first touch of
//                  storage / parent / children — the WRITE lock if the method (or a helper it calls) assigns to one of
//                  them — and releases what it took (defer or explicit);
//   "pure"         it touches none of them;
//   "rlock-writer" REFUTED: it reaches a write of storage / parent / children but takes only the read lock;
//   "no-unlock"    REFUTED: it takes the lock and never releases it;
//   "nolock"       REFUTED: it touches them and contains no lock call of any kind;
//   "unknown"      some lock call is there but the extractor cannot tie it to the scope lock.
// The lock may be reached as <recv>.lock or through a local alias of it (l := s.lock).
// For SetParentOfScope and NewChild: "adopts" = the child receives the parent's lock (assignment `c.lock = p.lock`, or
// the lock field of the child's composite literal is `p.lock`); "keeps-own-lock" REFUTED = the function links child
// and parent (assigns / fills `parent`) but nowhere hands over the lock; "unknown" otherwise.
func c11ScopeLocking(root string) [][2]string {
	p, err := loadSrcPkg(filepath.Join(root, "scope"))
	if err != nil {
		return [][2]string{{"package scope", "unknown"}}
	}
	shared := map[string]bool{"storage": true, "parent": true, "children": true}
	// field order of the struct (for positional composite literals)
	var fields []string
	for _, f := range p.files {
		for _, d := range f.Decls {
			if gd, ok := d.(*ast.GenDecl); ok && gd.Tok == token.TYPE {
				for _, sp := range gd.Specs {
					if ts, ok := sp.(*ast.TypeSpec); ok && ts.Name.Name == "varsScope" {
						if st, ok := ts.Type.(*ast.StructType); ok {
							for _, fl := range st.Fields.List {
								for _, n := range fl.Names {
									fields = append(fields, n.Name)
								}
							}
						}
					}
				}
			}
		}
	}
	type info struct {
		touches, writes       bool
		wlock, rlock, anyLock bool
		unlock                bool
		firstTouch, firstLock token.Pos
	}
	var analyse func(fd *ast.FuncDecl, depth int) info
	analyse = func(fd *ast.FuncDecl, depth int) info {
		var in info
		recv := recvIdent(fd)
		if recv == nil {
			return in
		}
		// aliases of the lock: l := s.lock
		lockAlias := map[*ast.Object]bool{}
		ast.Inspect(fd.Body, func(n ast.Node) bool {
			if as, ok := n.(*ast.AssignStmt); ok && len(as.Lhs) == 1 && len(as.Rhs) == 1 {
				if sel, ok := as.Rhs[0].(*ast.SelectorExpr); ok && sel.Sel.Name == "lock" {
					if id, ok := as.Lhs[0].(*ast.Ident); ok && id.Obj != nil {
						lockAlias[id.Obj] = true
					}
				}
			}
			return true
		})
		isLockExpr := func(e ast.Expr) bool {
			switch x := unparen(e).(type) {
			case *ast.SelectorExpr:
				return x.Sel.Name == "lock"
			case *ast.Ident:
				return x.Obj != nil && lockAlias[x.Obj]
			}
			return false
		}
		imports := map[string]string{}
		forEachWrite(fd.Body, imports, func(t ast.Expr, kind string, pos token.Pos) {
			if id, path := selectorPath(t); id != nil && id.Obj == recv.Obj && len(path) > 0 && shared[path[0]] {
				in.writes = true
			}
		})
		ast.Inspect(fd.Body, func(n ast.Node) bool {
			switch x := n.(type) {
			case *ast.SelectorExpr:
				if id, ok := x.X.(*ast.Ident); ok && id.Obj == recv.Obj && shared[x.Sel.Name] {
					in.touches = true
					if in.firstTouch == token.NoPos || x.Pos() < in.firstTouch {
						in.firstTouch = x.Pos()
					}
				}
			case *ast.CallExpr:
				sel, ok := x.Fun.(*ast.SelectorExpr)
				if !ok {
					return true
				}
				switch sel.Sel.Name {
				case "Lock", "RLock":
					in.anyLock = true
					if isLockExpr(sel.X) {
						if sel.Sel.Name == "Lock" {
							in.wlock = true
						} else {
							in.rlock = true
						}
						if in.firstLock == token.NoPos || x.Pos() < in.firstLock {
							in.firstLock = x.Pos()
						}
					}
				case "Unlock", "RUnlock":
					if isLockExpr(sel.X) {
						in.unlock = true
					}
				default:
					// a helper of the same type, called on the receiver (s.setValue(…)): what it touches / writes counts
					if id, ok := sel.X.(*ast.Ident); ok && id.Obj == recv.Obj && depth < 2 {
						if h, _ := p.methodDecl("varsScope", sel.Sel.Name); h != nil && h != fd {
							hi := analyse(h, depth+1)
							if hi.touches {
								in.touches = true
								if in.firstTouch == token.NoPos || x.Pos() < in.firstTouch {
									in.firstTouch = x.Pos()
								}
							}
							in.writes = in.writes || hi.writes
							if hi.wlock || hi.rlock {
								// the helper does the locking itself
								in.wlock = in.wlock || hi.wlock
								in.rlock = in.rlock || hi.rlock
								in.unlock = in.unlock || hi.unlock
								in.anyLock = true
								if in.firstLock == token.NoPos || x.Pos() < in.firstLock {
									in.firstLock = x.Pos()
								}
							}
						}
					}
				}
			}
			return true
		})
		return in
	}
	var out [][2]string
	for _, f := range p.files {
		for _, d := range f.Decls {
			fd, ok := d.(*ast.FuncDecl)
			if !ok || fd.Body == nil {
				continue
			}
			rt := ""
			if fd.Recv != nil && len(fd.Recv.List) == 1 {
				rt = typeNameOf(fd.Recv.List[0].Type)
			}
			if rt == "varsScope" && ast.IsExported(fd.Name.Name) {
				in := analyse(fd, 0)
				v := "unknown"
				switch {
				case !in.touches:
					v = "pure"
				case !in.anyLock:
					v = "nolock"
				case in.writes && in.rlock && !in.wlock:
					v = "rlock-writer"
				case (in.wlock || in.rlock) && !in.unlock:
					v = "no-unlock"
				case (in.wlock || in.rlock) && in.firstLock != token.NoPos && in.firstLock <= in.firstTouch:
					v = "locks"
				}
				out = append(out, [2]string{fd.Name.Name, v})
			}
			if fd.Name.Name == "SetParentOfScope" || (rt == "varsScope" && fd.Name.Name == "NewChild") {
				adopts, links := false, false
				ast.Inspect(fd.Body, func(n ast.Node) bool {
					switch x := n.(type) {
					case *ast.AssignStmt:
						if len(x.Lhs) == 1 && len(x.Rhs) == 1 {
							if l, ok := x.Lhs[0].(*ast.SelectorExpr); ok {
								if l.Sel.Name == "parent" {
									links = true
								}
								if r, ok := x.Rhs[0].(*ast.SelectorExpr); ok && l.Sel.Name == "lock" && r.Sel.Name == "lock" {
									adopts = true
								}
							}
						}
					case *ast.CompositeLit:
						if typeNameOf(x.Type) != "varsScope" {
							return true
						}
						for i, e := range x.Elts {
							name, val := "", e
							if kv, ok := e.(*ast.KeyValueExpr); ok {
								if k, ok := kv.Key.(*ast.Ident); ok {
									name = k.Name
								}
								val = kv.Value
							} else if i < len(fields) {
								name = fields[i]
							}
							if name == "parent" {
								if id, ok := val.(*ast.Ident); !ok || id.Name != "nil" {
									links = true
								}
							}
							if name == "lock" {
								if r, ok := val.(*ast.SelectorExpr); ok && r.Sel.Name == "lock" {
									adopts = true
								}
							}
						}
					}
					return true
				})
				v := "unknown"
				if adopts {
					v = "adopts"
				} else if links {
					v = "keeps-own-lock"
				}
				out = append(out, [2]string{fd.Name.Name + ":parent-lock", v})
			}
		}
	}
	sort.Slice(out, func(i, j int) bool { return out[i][0] < out[j][0] })
	return out
}

func c11Extract(args []string) int {
	if len(args) != 1 {
		fmt.Fprintln(os.Stderr, "usage: harness C11 -tool extract <out.lean>")
		return 2
	}
	p, err := loadSrcPkg(filepath.Join(repoDir(), "interpreter"))
	if err != nil {
		fmt.Fprintln(os.Stderr, "extract:", err)
		return 2
	}
	ix := newC11Index(p)
	sink := ix.action()
	fn := ix.method("function", "Run")
	list := func(xs []string) string {
		var q []string
		for _, x := range xs {
			q = append(q, sfLeanStr(x))
		}
		return "[" + strings.Join(q, ", ") + "]"
	}
	pairs := func(xs []string) string {
		var q []string
		for _, x := range xs {
			op, arg := x, ""
			if i := strings.IndexByte(x, ':'); i >= 0 {
				op, arg = x[:i], x[i+1:]
			}
			q = append(q, "("+sfLeanStr(op)+", "+sfLeanStr(arg)+")")
		}
		return "[" + strings.Join(q, ", ") + "]"
	}
	known := func(st string) string { return fmt.Sprint(st == "established") }
	var b strings.Builder
	b.WriteString("/-! GENERATED by `harness C11 -tool extract` from the Go source under test — do not edit.\n")
	b.WriteString("Three-valued: `…Known = false` means the extractor could not establish the fact (the `…Why` text\n")
	b.WriteString("says why); the lists next to it are then meaningless and no obligation may depend on them.\n")
	b.WriteString("`capturedWrites`: variables assigned inside the function installed as `rule.Action` (a function\n")
	b.WriteString("literal, a local holding one, a method value, the literal returned by a helper) — and inside the\n")
	b.WriteString("same-package helpers it calls — but declared outside it (`x(.)` = a component of outer variable x).\n")
	b.WriteString("`capturedReassigned`: variables the literal refers to which the enclosing function assigns\n")
	b.WriteString("after creating the closure, or inside / as variable of a loop around it.\n")
	b.WriteString("`funcRunWrites`: the same for the method `function.Run`: receiver components and package-level\n")
	b.WriteString("variables it assigns. -/\n")
	b.WriteString("namespace Ecal.Gen.C11\n\n")
	b.WriteString("def actionKnown : Bool := " + known(sink.status) + "\n")
	b.WriteString("def actionWhy : String := " + sfLeanStr(sink.status) + "\n\n")
	b.WriteString("def capturedWrites : List String := " + list(sink.writes) + "\n\n")
	b.WriteString("def capturedReassigned : List String := " + list(sink.reassigned) + "\n\n")
	b.WriteString("def funcRunKnown : Bool := " + known(fn.status) + "\n")
	b.WriteString("def funcRunWhy : String := " + sfLeanStr(fn.status) + "\n\n")
	b.WriteString("def funcRunWrites : List String := " + list(fn.writes) + "\n\n")
	b.WriteString("/-- set-up of the fresh per-invocation scope of the action, in source order (helpers spliced in at\n    their call sites): constructor, stores (`(SetValue, <name>)`, `*` = computed name), link to the\n    declaring scope, first use for evaluation -/\n")
	b.WriteString("def sinkSetupKnown : Bool := " + known(sink.setupState) + "\n")
	b.WriteString("def sinkSetupWhy : String := " + sfLeanStr(sink.setupState) + "\n")
	b.WriteString("def sinkScopeSetup : List (String × String) := " + pairs(sink.setup) + "\n\n")
	b.WriteString("/-- the same for the call frame scope of `function.Run` -/\n")
	b.WriteString("def funcRunSetupKnown : Bool := " + known(fn.setupState) + "\n")
	b.WriteString("def funcRunSetupWhy : String := " + sfLeanStr(fn.setupState) + "\n")
	b.WriteString("def funcRunScopeSetup : List (String × String) := " + pairs(fn.setup) + "\n\n")
	b.WriteString("/-- scope/varsscope.go: exported methods of the scope type (`locks` = takes the scope lock — the write lock if it\n    writes — before the first touch of storage / parent / children and releases it; `pure`; REFUTED values `nolock`,\n    `rlock-writer`, `no-unlock`; `unknown` = not judged); `…:parent-lock` = `adopts` / REFUTED `keeps-own-lock` / `unknown` -/\n")
	b.WriteString("def scopeLocking : List (String × String) := [")
	for i, e := range c11ScopeLocking(repoDir()) {
		if i > 0 {
			b.WriteString(", ")
		}
		b.WriteString("(" + sfLeanStr(e[0]) + ", " + sfLeanStr(e[1]) + ")")
	}
	b.WriteString("]\n\nend Ecal.Gen.C11\n")
	if err := os.WriteFile(args[0], []byte(b.String()), 0644); err != nil {
		fmt.Fprintln(os.Stderr, "extract:", err)
		return 2
	}
	return 0
}
