package main

// C01, ECAL level: the rule set of a case is declared as sinks in a real interpreter runtime
// (interpreter/rt_sink.go createRule), the events are added with the ECAL functions
// addEvent / addEventAndWait (interpreter/func_provider.go) whose optional fourth argument is the
// cascade scope as a map with true AND false entries. Observed: which sinks ran for which event
// (x.mark from the sink body). A statematch value cannot be a regular expression at this level
// (createRule copies the values of the map literal), so ECAL cases carry none.

import (
	"fmt"
	"reflect"
	"sort"
	"strings"
	"sync"

	"github.com/krotik/ecal/engine"
	"github.com/krotik/ecal/interpreter"
	"github.com/krotik/ecal/parser"
)

// ECAL literal of every entry of c01Vals (checked against the table in Setup)
var c01ValLit = []string{"null", "1", `"x"`, "[1]", `{"a":1}`, `"1"`, "2", "true", "[1]", "[2]", `{"a":1}`,
	`{"a":2}`, `"x1"`, `""`, `"<nil>"`, "[[1]]", "[]", "{}", "false", `"[1]"`}

// the value indexes usable in ECAL cases (filled in Setup: literal evaluates to the table value)
var c01ECALVals []int

var c01MarkMu sync.Mutex
var c01Marks map[int][]string

func c01ECALSetup() {
	registerX("mark", func(args []interface{}) (interface{}, error) {
		if len(args) == 2 {
			if f, ok := args[1].(float64); ok {
				c01MarkMu.Lock()
				c01Marks[int(f)] = append(c01Marks[int(f)], fmt.Sprint(args[0]))
				c01MarkMu.Unlock()
			}
		}
		return nil, nil
	})
	for i, lit := range c01ValLit {
		v, err := evalProgram(lit, newGlobalScope(), &memLog{})
		if err == nil && reflect.DeepEqual(v, c01Vals[i]) {
			c01ECALVals = append(c01ECALVals, i)
		}
	}
}

func c01TokLit(tok string) string {
	if tok == "Z" || tok == "A" {
		return "null"
	}
	var cls, idx int
	fmt.Sscanf(tok[1:], "%di%d", &cls, &idx)
	return c01ValLit[idx]
}

func c01Str(s string) string { return `"` + s + `"` }

func c01StrList(xs []string) string {
	ys := make([]string, len(xs))
	for i, x := range xs {
		ys[i] = c01Str(x)
	}
	return "[" + strings.Join(ys, ", ") + "]"
}

// c01Program renders the case as an ECAL program.
func c01Program(c *c01Case) string {
	var sb strings.Builder
	for _, r := range c.rules {
		attrs := []string{"kindmatch " + c01StrList(r.kinds)}
		if len(r.scopes) > 0 {
			attrs = append(attrs, "scopematch "+c01StrList(r.scopes))
		}
		if !r.stateNil {
			var kvs []string
			for _, kv := range r.state {
				kvs = append(kvs, c01Str(kv.key)+" : "+c01TokLit(kv.tok))
			}
			attrs = append(attrs, "statematch {"+strings.Join(kvs, ", ")+"}")
		}
		attrs = append(attrs, fmt.Sprintf("priority %d", r.prio))
		if len(r.supp) > 0 {
			attrs = append(attrs, "suppresses "+c01StrList(r.supp))
		}
		fmt.Fprintf(&sb, "sink %s\n  %s\n{\n  x.mark(%s, event.state[\"#i\"])\n}\n", r.name, strings.Join(attrs, ",\n  "), c01Str(r.name))
	}
	// the booleans of the scope map are written in the spellings strconv.ParseBool accepts / rejects
	trues := []string{"true", "1", `"true"`, `"T"`}
	falses := []string{"false", "0", `"no"`, "null"}
	for i, e := range c.events {
		kvs := []string{fmt.Sprintf(`"#i" : %d`, i)}
		for _, kv := range e.state {
			kvs = append(kvs, c01Str(kv.key)+" : "+c01TokLit(kv.tok))
		}
		f := "addEventAndWait"
		if c.mode == "a" {
			f = "addEvent"
		}
		args := []string{c01Str(e.name), c01Str(strings.Join(e.kind, ".")), "{" + strings.Join(kvs, ", ") + "}"}
		if !c.scopeNil {
			var ds []string
			for j, d := range c.scope {
				lit := falses[(i+j)%len(falses)]
				if d.tok == "1" {
					lit = trues[(i+j)%len(trues)]
				}
				ds = append(ds, c01Str(d.key)+" : "+lit)
			}
			args = append(args, "{"+strings.Join(ds, ", ")+"}")
		}
		fmt.Fprintf(&sb, "%s(%s)\n", f, strings.Join(args, ", "))
	}
	return sb.String()
}

func c01RunECAL(c *c01Case) string {
	c01MarkMu.Lock()
	c01Marks = map[int][]string{}
	c01MarkMu.Unlock()
	src := c01Program(c)
	erp := interpreter.NewECALRuntimeProvider("c01", nil, &memLog{})
	defer erp.Cron.Stop()
	proc := engine.NewProcessor(c.workers)
	proc.SetFailOnFirstErrorInTriggerSequence(true)
	erp.Processor = proc
	ast, err := parser.ParseWithRuntime("c01", src, erp)
	if err != nil {
		return "ERR parse " + oneLine(err.Error())
	}
	if err = ast.Runtime.Validate(); err != nil {
		return "ERR validate " + oneLine(err.Error())
	}
	if _, err = ast.Runtime.Eval(newGlobalScope(), make(map[string]interface{}), erp.NewThreadID()); err != nil {
		return "ERR eval " + oneLine(err.Error())
	}
	if !proc.Stopped() {
		proc.Finish()
	}
	var sb strings.Builder
	sb.WriteString("E")
	c01MarkMu.Lock()
	for i := range c.events {
		ns := append([]string{}, c01Marks[i]...)
		sort.Strings(ns)
		sb.WriteString(" X" + c01Names(ns))
	}
	c01MarkMu.Unlock()
	return sb.String()
}

// c01GenECAL emits the ECAL-level cases.
func c01GenECAL(g *Gen, emit func(c *c01Case, what string)) {
	V := func(i int) string { return c01Tok(i) }
	pat := func(tok string) string {
		if tok == "Z" {
			return "A"
		}
		return tok
	}
	mk := func(name string, kinds, scopes []string, state []c01KV, stateNil bool) c01Rule {
		return c01Rule{name: name, kinds: kinds, scopes: scopes, state: state, stateNil: stateNil}
	}
	ev := func(name, kind string, state []c01KV) c01Event {
		return c01Event{name, strings.Split(kind, "."), state}
	}
	// directed: denials below an allowed ancestor, allowed below a denial, default scope
	rules := []c01Rule{
		mk("w", []string{"core.*"}, []string{"data.write"}, nil, true),
		mk("r", []string{"core.*"}, []string{"data.read"}, nil, true),
		mk("d", []string{"core.*"}, []string{"data"}, nil, true),
		mk("n", []string{"core.*"}, nil, nil, true),
		mk("s", []string{"core.x"}, []string{"data.read", "data.write"}, c01St("k", V(1)), false),
	}
	scopes := [][]c01KV{
		{{"data", "1"}, {"data.write", "0"}},
		{{"", "1"}, {"data.write", "0"}},
		{{"", "0"}, {"data", "1"}, {"data.write", "0"}, {"data.write.x", "1"}},
		{{"data.write", "1"}},
		{{"", "1"}},
		{{"", "0"}},
		{},
	}
	evs := []c01Event{ev("e", "core.x", c01St("k", V(1))), ev("e", "core.y", nil), ev("f", "other.x", nil)}
	for i, sc := range scopes {
		for _, mode := range []string{"w", "a"} {
			emit(&c01Case{level: "e", mode: mode, workers: 1 + i%4, rules: rules, scope: sc, events: evs}, "ecal-corpus")
		}
	}
	emit(&c01Case{level: "e", mode: "w", workers: 2, rules: rules, scopeNil: true, events: evs}, "ecal-corpus")

	n := 250
	if g.Thorough() {
		n = 6000
	}
	segs := []string{"a", "b", "c", "*", "", "a b"}
	keys := []string{"k", "l", ""}
	paths := []string{"", "p", "p.q", "p.q.r", "z", "p.z", ".", "p."}
	rndKind := func(depth int) string {
		var s []string
		for i := 0; i < depth; i++ {
			s = append(s, segs[g.R.Intn(4+g.R.Intn(3))])
		}
		return strings.Join(s, ".")
	}
	rndVal := func() string { return V(c01ECALVals[g.R.Intn(len(c01ECALVals))]) }
	for i := 0; i < n; i++ {
		c := &c01Case{level: "e", scopeNil: g.R.Intn(8) == 0}
		seen := map[string]bool{}
		for k, m := 0, 1+g.R.Intn(4); k < m; k++ {
			p := paths[g.R.Intn(len(paths))]
			if !seen[p] {
				seen[p] = true
				c.scope = append(c.scope, c01KV{p, fmt.Sprint(g.R.Intn(2))})
			}
		}
		if g.R.Intn(2) == 0 && !seen[""] {
			c.scope = append(c.scope, c01KV{"", "1"})
		}
		nr := 1 + g.R.Intn(6)
		var kindsUsed []string
		for j := 0; j < nr; j++ {
			r := c01Rule{name: fmt.Sprintf("r%d", j), prio: g.R.Intn(4), stateNil: g.R.Intn(3) == 0}
			for k, m := 0, 1+g.R.Intn(2); k < m; k++ {
				if len(kindsUsed) > 0 && g.R.Intn(3) == 0 {
					r.kinds = append(r.kinds, kindsUsed[g.R.Intn(len(kindsUsed))])
				} else {
					r.kinds = append(r.kinds, rndKind(1+g.R.Intn(3)))
				}
			}
			kindsUsed = append(kindsUsed, r.kinds...)
			for k, m := 0, g.R.Intn(3); k < m; k++ {
				r.scopes = append(r.scopes, paths[g.R.Intn(len(paths))])
			}
			if !r.stateNil {
				ks := map[string]bool{}
				for k, m := 0, g.R.Intn(3); k < m; k++ {
					key := keys[g.R.Intn(len(keys))]
					if !ks[key] {
						ks[key] = true
						r.state = append(r.state, c01KV{key, pat(rndVal())})
					}
				}
			}
			for k, m := 0, g.R.Intn(2); k < m; k++ {
				r.supp = append(r.supp, fmt.Sprintf("r%d", g.R.Intn(nr+1)))
			}
			c.rules = append(c.rules, r)
		}
		for j, m := 0, 1+g.R.Intn(4); j < m; j++ {
			e := c01Event{name: fmt.Sprintf("e%d", g.R.Intn(2))}
			for _, s := range strings.Split(kindsUsed[g.R.Intn(len(kindsUsed))], ".") {
				if s == "*" && g.R.Intn(4) > 0 {
					s = segs[g.R.Intn(len(segs))]
				}
				e.kind = append(e.kind, s)
			}
			if g.R.Intn(10) == 0 {
				e.kind = append(e.kind, "a")
			}
			ks := map[string]bool{}
			for k, m2 := 0, g.R.Intn(3); k < m2; k++ {
				key := keys[g.R.Intn(len(keys))]
				if !ks[key] {
					ks[key] = true
					e.state = append(e.state, c01KV{key, rndVal()})
				}
			}
			c.events = append(c.events, e)
		}
		emit(c, "ecal-random")
	}
}
