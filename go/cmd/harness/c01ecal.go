package main

// C01, ECAL level: the rule set of a case is declared as sinks in a real interpreter runtime
// (interpreter/rt_sink.go createRule), the events are added with the ECAL functions
// addEvent / addEventAndWait (interpreter/func_provider.go) whose optional fourth argument is the
// cascade scope as a map with true AND false entries. Observed: which sinks ran for which event
// (x.mark from the sink body). A statematch value cannot be a regular expression at this level
// (createRule copies the values of the map literal), so ECAL cases carry none.

import (
	"fmt"
	"os"
	"reflect"
	"sort"
	"strconv"
	"strings"
	"sync"

	"github.com/krotik/ecal/engine"
	"github.com/krotik/ecal/interpreter"
	"github.com/krotik/ecal/parser"
)

// ECAL literal of every entry of c01Vals (checked against the table in Setup)
var c01ValLit = []string{"null", "1", `"x"`, "[1]", `{"a":1}`, `"1"`, "2", "true", "[1]", "[2]", `{"a":1}`,
	`{"a":2}`, `"x1"`, `""`, `"<nil>"`, "[[1]]", "del([1],0)", "{}", "false", `"[1]"`, "", "0", "-0",
	`{"a":{"b":1}}`, `[{"a":1}]`, `{"a":[1]}`, `{"a":{"b":1}}`,
	`["1"]`, `{"a":"1"}`, `[1,2]`, `["1 2"]`, `[]`, "", "", `"X"`, `[[]]`,
	`["changed3"]`, `{"a":1,"changed":1}`}

// values without an ECAL literal: NaN, a nil map, a Go int
var c01NoLiteral = map[int]bool{c01NaN: true, 32: true, 33: true}

// the value indexes usable in ECAL cases (filled in Setup: literal evaluates to the table value)
var c01ECALVals []int

var c01EventsStarted bool
var c01MarkMu sync.Mutex
var c01Marks map[int][]string

func c01ECALSetup() {
	registerX("mark", func(args []interface{}) (interface{}, error) {
		if len(args) == 2 {
			if f, ok := args[1].(float64); ok {
				c01MarkMu.Lock()
				c01Marks[int(f)] = append(c01Marks[int(f)], fmt.Sprint(args[0]))
				c01MarkMu.Unlock()
			}
		}
		return nil, nil
	})
	for i, lit := range c01ValLit {
		if c01NoLiteral[i] {
			continue
		}
		// the literal must give exactly the table value, nil-ness of lists included
		v, err := evalProgram(lit, newGlobalScope(), &memLog{})
		if err != nil || !(reflect.DeepEqual(v, c01Vals[i]) || (i == c01NegZero || i == c01PosZero)) {
			panic(fmt.Sprintf("C01: ECAL literal %v of value %d evaluates to %#v (%v), table has %#v", lit, i, v, err, c01Vals[i]))
		}
		c01ECALVals = append(c01ECALVals, i)
	}
	registerX("phase", func(args []interface{}) (interface{}, error) {
		c01MarkMu.Lock()
		c01EventsStarted = true
		c01MarkMu.Unlock()
		return nil, nil
	})
}

func c01TokLit(tok string) string {
	if tok == "Z" || tok == "A" {
		return "null"
	}
	var cls, idx int
	fmt.Sscanf(tok[1:], "%di%d", &cls, &idx)
	return c01ValLit[idx]
}

func c01Str(s string) string { return `"` + s + `"` }

// c01Item renders an item of kindmatch / scopematch / a scope key: the texts 1, 2 and 1.5 are written
// as numbers (createRule and addEvent turn every item into its text with fmt.Sprint)
func c01Item(s string) string {
	if s == "1" || s == "2" || s == "1.5" {
		return s
	}
	return c01Str(s)
}

// c01Key renders a state key: `!`-marked keys are numbers, the others strings
func c01Key(k string) string {
	if strings.HasPrefix(k, "!") {
		return k[1:]
	}
	return c01Str(k)
}

func c01StrList(xs []string) string {
	ys := make([]string, len(xs))
	for i, x := range xs {
		ys[i] = c01Item(x)
	}
	return "[" + strings.Join(ys, ", ") + "]"
}

// c01ScopeLit renders a scope map; the booleans are written in the spellings strconv.ParseBool accepts / rejects
func c01ScopeLit(defs []c01KV, salt int) string {
	trues := []string{"true", "1", `"true"`, `"T"`}
	falses := []string{"false", "0", `"no"`, "null"}
	var ds []string
	for j, d := range defs {
		lit := falses[(salt+j)%len(falses)]
		if d.tok == "1" {
			lit = trues[(salt+j)%len(trues)]
		}
		ds = append(ds, c01Item(d.key)+" : "+lit)
	}
	return "{" + strings.Join(ds, ", ") + "}"
}

func c01StateLit(i int, state []c01KV) string {
	kvs := []string{fmt.Sprintf(`"#i" : %d`, i)}
	for _, kv := range state {
		kvs = append(kvs, c01Key(kv.key)+" : "+c01TokLit(kv.tok))
	}
	return "{" + strings.Join(kvs, ", ") + "}"
}

// c01Program renders the case as an ECAL program.
func c01Program(c *c01Case) string {
	var sb strings.Builder
	failing := map[int]bool{}
	for _, i := range c.failing {
		failing[i] = true
	}
	// D2: list/map patterns come from variables which are changed after the declarations
	var mutations []string
	for ri, r := range c.rules {
		attrs := []string{"kindmatch " + c01StrList(r.kinds)}
		if r.scopeNil {
			attrs = append(attrs, "scopematch []")
		} else if len(r.scopes) > 0 {
			attrs = append(attrs, "scopematch "+c01StrList(r.scopes))
		}
		if !r.stateNil {
			var kvs []string
			for ki, kv := range r.state {
				lit := c01TokLit(kv.tok)
				if _, changes := c01Changed(c01TokVal(kv.tok), 0); c.mutate && kv.tok[0] == 'D' && changes {
					v := fmt.Sprintf("pv%dk%d", ri, ki)
					fmt.Fprintf(&sb, "%s := %s\n", v, lit)
					if lit[0] == '[' {
						mutations = append(mutations, fmt.Sprintf("%s[0] := \"changed%d\"", v, c01TokClass(kv.tok)))
					} else {
						mutations = append(mutations, v+"[\"changed\"] := 1")
					}
					lit = v
				}
				kvs = append(kvs, c01Key(kv.key)+" : "+lit)
			}
			attrs = append(attrs, "statematch {"+strings.Join(kvs, ", ")+"}")
		}
		// priority is floored by createRule: every third rule writes it as a fraction
		if (r.prio+ri)%3 == 1 {
			attrs = append(attrs, fmt.Sprintf("priority %v", float64(r.prio)+0.5))
		} else {
			attrs = append(attrs, fmt.Sprintf("priority %d", r.prio))
		}
		if len(r.supp) > 0 {
			attrs = append(attrs, "suppresses "+c01StrList(r.supp))
		}
		body := fmt.Sprintf("  x.mark(%s, event.state[\"#i\"])\n", c01Str(r.name))
		// events this sink adds while it handles a certain event
		for ei, e := range c.events {
			if e.child && e.parentRule == ri {
				args := []string{c01Str(e.name), c01Str(strings.Join(e.kind, ".")), c01StateLit(ei, e.state)}
				if e.ownScope {
					args = append(args, c01ScopeLit(e.scope, ei))
				}
				call := "addEvent(" + strings.Join(args, ", ") + ")"
				if e.detached { // inside a loop the instance state is fresh: no parent monitor
					call = "for q in [1] {\n      " + call + "\n    }"
				}
				body += fmt.Sprintf("  if event.state[\"#i\"] == %d {\n    %s\n  }\n", e.parentEv, call)
			}
		}
		if failing[ri] {
			body += "  raise(\"E\", \"sink fails\")\n"
		}
		fmt.Fprintf(&sb, "sink %s\n  %s\n{\n%s}\n", r.name, strings.Join(attrs, ",\n  "), body)
	}
	for _, m := range mutations {
		sb.WriteString(m + "\n")
	}
	sb.WriteString("x.phase()\n")
	for i, e := range c.events {
		if e.child {
			continue
		}
		f := "addEventAndWait"
		if c.mode == "a" {
			f = "addEvent"
		}
		args := []string{c01Str(e.name), c01Item(strings.Join(e.kind, ".")), c01StateLit(i, e.state)}
		if !c.scopeNil {
			args = append(args, c01ScopeLit(c.scope, i))
		}
		fmt.Fprintf(&sb, "%s(%s)\n", f, strings.Join(args, ", "))
	}
	return sb.String()
}

func c01RunECAL(c *c01Case) string {
	c01MarkMu.Lock()
	c01Marks = map[int][]string{}
	c01EventsStarted = false
	c01MarkMu.Unlock()
	src := c01Program(c)
	erp := interpreter.NewECALRuntimeProvider("c01", nil, &memLog{})
	defer erp.Cron.Stop()
	proc := engine.NewProcessor(c.workers)
	proc.SetFailOnFirstErrorInTriggerSequence(c.failOn != "0") // interpreter/provider.go sets it for every ECAL runtime
	erp.Processor = proc
	if os.Getenv("C01_DEBUG") != "" {
		proc.SetRootMonitorErrorObserver(func(rm *engine.RootMonitor) {
			for _, e := range rm.AllErrors() {
				fmt.Fprintln(os.Stderr, "sink error:", e.Error())
			}
		})
	}
	ast, err := parser.ParseWithRuntime("c01", src, erp)
	if err != nil {
		return "ERR parse " + oneLine(err.Error())
	}
	if err = ast.Runtime.Validate(); err != nil {
		return "ERR validate " + oneLine(err.Error())
	}
	if _, err = ast.Runtime.Eval(newGlobalScope(), make(map[string]interface{}), erp.NewThreadID()); err != nil {
		c01MarkMu.Lock()
		started := c01EventsStarted
		c01MarkMu.Unlock()
		if !started { // an evaluation error before the first event: a declaration was refused, the program stops there
			if !proc.Stopped() {
				proc.Finish()
			}
			return "ERR-SINK"
		}
		return "ERR eval " + oneLine(err.Error())
	}
	if !proc.Stopped() {
		// sinks may still be adding events: wait until every worker is idle and the queue is empty
		proc.ThreadPool().WaitAll()
		proc.Finish()
	}
	var sb strings.Builder
	sb.WriteString("E")
	c01MarkMu.Lock()
	for i := range c.events {
		ns := append([]string{}, c01Marks[i]...)
		sort.Strings(ns)
		sb.WriteString(" X" + c01Names(ns))
	}
	c01MarkMu.Unlock()
	return sb.String()
}

// c01GenECAL emits the ECAL-level cases.
func c01GenECAL(g *Gen, emit func(c *c01Case, what string)) {
	V := func(i int) string { return c01Tok(i) }
	pat := func(tok string) string {
		if tok == "Z" {
			return "A"
		}
		return tok
	}
	mk := func(name string, kinds, scopes []string, state []c01KV, stateNil bool) c01Rule {
		return c01Rule{name: name, kinds: kinds, scopes: scopes, state: state, stateNil: stateNil}
	}
	ev := func(name, kind string, state []c01KV) c01Event {
		return c01Event{name: name, kind: strings.Split(kind, "."), state: state}
	}
	// directed: denials below an allowed ancestor, allowed below a denial, default scope
	rules := []c01Rule{
		mk("w", []string{"core.*"}, []string{"data.write"}, nil, true),
		mk("r", []string{"core.*"}, []string{"data.read"}, nil, true),
		mk("d", []string{"core.*"}, []string{"data"}, nil, true),
		mk("n", []string{"core.*"}, nil, nil, true),
		mk("s", []string{"core.x"}, []string{"data.read", "data.write"}, c01St("k", V(1)), false),
	}
	scopes := [][]c01KV{
		{{"data", "1"}, {"data.write", "0"}},
		{{"", "1"}, {"data.write", "0"}},
		{{"", "0"}, {"data", "1"}, {"data.write", "0"}, {"data.write.x", "1"}},
		{{"data.write", "1"}},
		{{"", "1"}},
		{{"", "0"}},
		{},
	}
	evs := []c01Event{ev("e", "core.x", c01St("k", V(1))), ev("e", "core.y", nil), ev("f", "other.x", nil)}
	for i, sc := range scopes {
		for _, mode := range []string{"w", "a"} {
			emit(&c01Case{level: "e", mode: mode, workers: 1 + i%4, rules: rules, scope: sc, events: evs}, "ecal-corpus")
		}
	}
	emit(&c01Case{level: "e", mode: "w", workers: 2, rules: rules, scopeNil: true, events: evs}, "ecal-corpus")

	// non-string keys: createRule turns the statematch key into its text, the event keeps the raw key
	keyRules := []c01Rule{
		mk("num", []string{"a"}, nil, c01St("!1", V(2)), false),
		mk("str", []string{"a"}, nil, c01St("1", V(2)), false),
		mk("both", []string{"a"}, nil, c01St("!1", V(2), "1", V(2)), false),
		mk("nul", []string{"a"}, nil, c01St("!2", "A"), false),
		mk("kn", []string{"1", "a.1", "1.5"}, []string{"1"}, nil, true),
		mk("sc", []string{"a"}, []string{"1.5", "2"}, nil, true),
	}
	keyEvents := []c01Event{ev("e", "a", c01St("!1", V(2))), ev("e", "a", c01St("1", V(2))), ev("e", "a", c01St("!1", V(2), "1", V(2))),
		ev("e", "a", c01St("!2", V(1))), ev("e", "a", nil), ev("e", "1", nil), ev("e", "a.1", nil), ev("e", "1.5", nil)}
	for i, sc := range [][]c01KV{{{"", "1"}}, {{"1", "1"}, {"2", "1"}, {"1.5", "0"}}, {{"1", "1"}, {"2", "1"}}, {{"1", "0"}, {"1.5", "1"}, {"2", "1"}}} {
		emit(&c01Case{level: "e", mode: "w", workers: 1 + i, rules: keyRules, scope: sc, events: keyEvents}, "ecal-nonstring-keys")
	}
	// `scopematch []` reaches AddRule as a nil scope match: the sink declaration fails
	emit(&c01Case{level: "e", mode: "w", workers: 1, rules: []c01Rule{mk("ok", []string{"a"}, nil, nil, true),
		{name: "bad", kinds: []string{"a"}, scopeNil: true, stateNil: true}}, scope: []c01KV{{"", "1"}}, events: []c01Event{ev("e", "a", nil)}}, "ecal-empty-scopematch")
	// raising sinks under both values of the flag (every ECAL runtime sets it: interpreter/provider.go)
	for _, ff := range []string{"0", "1"} {
		for fail := 0; fail < 3; fail++ {
			var rs []c01Rule
			for j := 0; j < 3; j++ {
				r := mk(fmt.Sprintf("p%d", j), []string{"a"}, nil, nil, true)
				r.prio = (j*2 + 1) % 3
				rs = append(rs, r)
			}
			emit(&c01Case{level: "e", mode: []string{"w", "a"}[fail%2], workers: 1 + fail, rules: rs, scope: []c01KV{{"", "1"}}, failOn: ff,
				failing: []int{fail}, events: []c01Event{ev("e", "a", nil), ev("e", "b", nil), ev("f", "a", nil)}}, "ecal-raising-sink")
		}
	}
	// sinks that add events: as a child of the running cascade (its scope) or with a scope map of their own
	casc := []c01Rule{
		mk("par", []string{"core.x"}, nil, nil, true),
		mk("cw", []string{"child.*"}, []string{"data.write"}, nil, true),
		mk("cr", []string{"child.*"}, []string{"data.read"}, nil, true),
		mk("cn", []string{"child.*"}, nil, nil, true),
	}
	child := func(name, kind string, pe, pr int, own bool, sc []c01KV) c01Event {
		return c01Event{name: name, kind: strings.Split(kind, "."), child: true, parentEv: pe, parentRule: pr, ownScope: own, scope: sc}
	}
	for i, sc := range [][]c01KV{{{"data", "1"}, {"data.write", "0"}}, {{"", "1"}}, {{"data.write", "1"}}, {}} {
		for _, mode := range []string{"w", "a"} {
			emit(&c01Case{level: "e", mode: mode, workers: 1 + i, rules: casc, scope: sc, events: []c01Event{
				ev("e", "core.x", nil),
				child("c1", "child.a", 0, 0, false, nil),
				child("c2", "child.b", 0, 0, true, []c01KV{{"data.write", "1"}}),
				child("c3", "child.c", 0, 1, false, nil),
				child("c4", "child.d", 1, 3, false, nil),
				child("c5", "child.e", 2, 3, true, []c01KV{{"", "1"}, {"data.read", "0"}}),
				ev("f", "core.y", nil),
			}}, "ecal-sink-adds-event")
		}
	}

	// a sink adds an event from inside a loop: the instance state is fresh, the monitor of the cascade is lost
	for i, sc := range [][]c01KV{{{"", "1"}, {"data.write", "0"}}, {{"data", "1"}, {"data.write", "0"}}, {{"", "1"}}} {
		emit(&c01Case{level: "e", mode: []string{"w", "a"}[i%2], workers: 2 + i, rules: casc, scope: sc, events: []c01Event{
			ev("e", "core.x", nil),
			{name: "d1", kind: []string{"child", "a"}, child: true, parentEv: 0, parentRule: 0, detached: true},
			child("c1", "child.b", 0, 0, false, nil),
			{name: "d2", kind: []string{"child", "c"}, child: true, parentEv: 2, parentRule: 3, detached: true},
		}}, "ecal-sink-adds-event-from-loop")
	}
	// the pattern of a sink is the value at the time of its declaration: list/map variables change afterwards
	{
		rs := []c01Rule{
			mk("l1", []string{"a"}, nil, c01St("k", V(3)), false), mk("l2", []string{"a"}, nil, c01St("k", V(8)), false),
			mk("m1", []string{"a"}, nil, c01St("k", V(4)), false), mk("n1", []string{"a"}, nil, c01St("k", V(15)), false),
		}
		es := []c01Event{ev("e", "a", c01St("k", V(3))), ev("e", "a", c01St("k", V(4))), ev("e", "a", c01St("k", V(15))),
			ev("e", "a", c01St("k", V(9))), ev("e", "a", nil), ev("e", "a", c01St("k", V(36))), ev("e", "a", c01St("k", V(37)))}
		emit(&c01Case{level: "e", mode: "w", workers: 1, rules: rs, scope: []c01KV{{"", "1"}}, events: es, mutate: true}, "ecal-pattern-variable-changed")
		emit(&c01Case{level: "e", mode: "a", workers: 3, rules: rs, scope: []c01KV{{"", "1"}}, events: es, mutate: true}, "ecal-pattern-variable-changed")
	}
	// the two empty lists of ECAL (`[]` is a nil slice, del([1],0) an empty one), nested too; same text / other content
	{
		var rs []c01Rule
		var es []c01Event
		for j, vi := range []int{16, 31, 35, 17, 3, 27, 4, 28, 29, 30, 2, 34} {
			rs = append(rs, mk(fmt.Sprintf("v%02d", j), []string{"a"}, nil, c01St("k", pat(V(vi))), false))
			es = append(es, ev("e", "a", c01St("k", V(vi))))
		}
		emit(&c01Case{level: "e", mode: "w", workers: 2, rules: rs, scope: []c01KV{{"", "1"}}, events: es}, "ecal-value-equality")
	}
	// exact strings at ECAL level
	{
		r1 := mk("r1", []string{"a.b", "é.*"}, []string{"p.q"}, c01St("k", "A"), false)
		r2 := mk("R1", []string{"A.b", "a .b"}, []string{"P.q"}, c01St("K", "A"), false)
		r3 := mk("sup", []string{"*.*"}, nil, nil, true)
		r3.supp = []string{"R1"}
		var es []c01Event
		for _, k := range []string{"a.b", "A.b", "a .b", "é.x", "É.x"} {
			es = append(es, ev("e", k, c01St("k", V(2))), ev("e", k, c01St("K", V(2))))
		}
		for i, sc := range [][]c01KV{{{"p.q", "1"}}, {{"P.q", "1"}}, {{"p", "1"}, {"P", "1"}}} {
			emit(&c01Case{level: "e", mode: "w", workers: 1 + i, rules: []c01Rule{r1, r2, r3}, scope: sc, events: es}, "ecal-exact-strings")
		}
	}

	n := 250
	if g.Thorough() {
		n = 6000
	}
	segs := []string{"a", "b", "c", "*", "", "a b", "A", "é"}
	keys := []string{"k", "l", "", "K"}
	paths := []string{"", "p", "p.q", "p.q.r", "z", "p.z", ".", "p.", "P", "p.Q"}
	rndKind := func(depth int) string {
		var s []string
		for i := 0; i < depth; i++ {
			s = append(s, segs[g.R.Intn(4+g.R.Intn(len(segs)-3))])
		}
		return strings.Join(s, ".")
	}
	rndVal := func() string { return V(c01ECALVals[g.R.Intn(len(c01ECALVals))]) }
	for i := 0; i < n; i++ {
		c := &c01Case{level: "e", scopeNil: g.R.Intn(8) == 0}
		seen := map[string]bool{}
		for k, m := 0, 1+g.R.Intn(4); k < m; k++ {
			p := paths[g.R.Intn(len(paths))]
			if !seen[p] {
				seen[p] = true
				c.scope = append(c.scope, c01KV{p, fmt.Sprint(g.R.Intn(2))})
			}
		}
		if g.R.Intn(2) == 0 && !seen[""] {
			c.scope = append(c.scope, c01KV{"", "1"})
		}
		nr := 1 + g.R.Intn(6)
		var kindsUsed []string
		for j := 0; j < nr; j++ {
			r := c01Rule{name: fmt.Sprintf("r%d", j), prio: g.R.Intn(6) - 2, stateNil: g.R.Intn(3) == 0}
			for k, m := 0, 1+g.R.Intn(2); k < m; k++ {
				if len(kindsUsed) > 0 && g.R.Intn(3) == 0 {
					r.kinds = append(r.kinds, kindsUsed[g.R.Intn(len(kindsUsed))])
				} else {
					r.kinds = append(r.kinds, rndKind(1+g.R.Intn(3)))
				}
			}
			kindsUsed = append(kindsUsed, r.kinds...)
			for k, m := 0, g.R.Intn(3); k < m; k++ {
				r.scopes = append(r.scopes, paths[g.R.Intn(len(paths))])
			}
			if !r.stateNil {
				ks := map[string]bool{}
				for k, m := 0, g.R.Intn(3); k < m; k++ {
					key := keys[g.R.Intn(len(keys))]
					if !ks[key] {
						ks[key] = true
						r.state = append(r.state, c01KV{key, pat(rndVal())})
					}
				}
			}
			for k, m := 0, g.R.Intn(2); k < m; k++ {
				r.supp = append(r.supp, fmt.Sprintf("r%d", g.R.Intn(nr+1)))
			}
			c.rules = append(c.rules, r)
		}
		for j, m := 0, 1+g.R.Intn(4); j < m; j++ {
			e := c01Event{name: fmt.Sprintf("e%d", g.R.Intn(2))}
			for _, s := range strings.Split(kindsUsed[g.R.Intn(len(kindsUsed))], ".") {
				if s == "*" && g.R.Intn(4) > 0 {
					s = segs[g.R.Intn(len(segs))]
				}
				e.kind = append(e.kind, s)
			}
			if g.R.Intn(10) == 0 {
				e.kind = append(e.kind, "a")
			}
			ks := map[string]bool{}
			for k, m2 := 0, g.R.Intn(3); k < m2; k++ {
				key := keys[g.R.Intn(len(keys))]
				if !ks[key] {
					ks[key] = true
					e.state = append(e.state, c01KV{key, rndVal()})
				}
			}
			c.events = append(c.events, e)
		}
		what := "ecal-random"
		switch i % 6 {
		case 0: // non-string keys on either side
			what = "ecal-random-nonstring-keys"
			flip := func(kvs []c01KV) {
				for k := range kvs {
					if g.R.Intn(2) == 0 {
						kvs[k].key = []string{"!1", "!2", "1"}[g.R.Intn(3)]
					}
				}
				// one entry per key text (1 and "1" in one statematch collapse in map order: not comparable)
				seen := map[string]bool{}
				for k := 0; k < len(kvs); k++ {
					if seen[strings.TrimPrefix(kvs[k].key, "!")] {
						kvs[k].key = fmt.Sprintf("u%d", k)
					}
					seen[strings.TrimPrefix(kvs[k].key, "!")] = true
				}
			}
			for j := range c.rules {
				flip(c.rules[j].state)
			}
			for j := range c.events {
				flip(c.events[j].state)
			}
		case 1: // raising sinks
			what = "ecal-random-raising-sink"
			c.failOn = strconv.Itoa(g.R.Intn(2))
			for j := range c.rules {
				c.rules[j].prio = j
				if g.R.Intn(3) == 0 {
					c.failing = append(c.failing, j)
				}
			}
		case 3:
			what = "ecal-random-pattern-variable-changed"
			c.mutate = true
		case 2: // sinks that add events
			what = "ecal-random-sink-adds-event"
			roots := len(c.events)
			for k, m := 0, 1+g.R.Intn(3); k < m; k++ {
				e := c01Event{name: "c", child: true, parentEv: g.R.Intn(roots), parentRule: g.R.Intn(len(c.rules)), detached: g.R.Intn(4) == 0}
				for _, s := range strings.Split(kindsUsed[g.R.Intn(len(kindsUsed))], ".") {
					if s == "*" {
						s = "a"
					}
					e.kind = append(e.kind, s)
				}
				if g.R.Bool() {
					e.ownScope = true
					for _, p := range paths {
						if g.R.Intn(3) == 0 {
							e.scope = append(e.scope, c01KV{p, fmt.Sprint(g.R.Intn(2))})
						}
					}
				}
				c.events = append(c.events, e)
			}
		}
		emit(c, what)
	}
}
