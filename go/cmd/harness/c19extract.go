package main

// C19 — extractor of facts about the source under test (go/ast over stdlib/*.go).
//
// Three facts, each decided SEMANTICALLY (independent of how the code is cut into
// functions) and three-valued: "yes" (established), "no" (positively refuted — only
// this breaks a proof obligation), "unknown" (this source shape is not understood:
// the check notes it and searches harder instead of raising an alarm).
//
//	recover : Run's deferred call is a function — literal or a same-package function /
//	          method — whose OWN body calls recover() (recover only works when called
//	          directly by the deferred function, not in a nested closure or a helper) and,
//	          when recover() returned non-nil, assigns Run's named error result (directly,
//	          or through a pointer parameter that is passed &err).
//	arity   : before reflect's Call, the number of arguments (len(args) / the index of the
//	          loop over args) is compared with NumIn() and surplus arguments end in a return
//	          of an error — in Run or in a same-package helper called before Call whose
//	          error Run returns (calls are followed one level).
//	plugin  : every function object AddStdlibPluginFunc registers is an ECALFunctionAdapter
//	          (composite literal or NewECALFunctionAdapter) around a
//	          func(...interface{}) (interface{}, error) closure, or an object whose own Run
//	          has an established recover.
//
// harness C19 -tool <output.lean>   writes the Lean file, prints the facts as JSON.

import (
	"encoding/json"
	"fmt"
	"go/ast"
	"go/parser"
	"go/token"
	"os"
	"path/filepath"
	"sort"
	"strings"
)

type c19Fact struct {
	Fact string `json:"fact"`
	Why  string `json:"why"`
}

func c19Yes(why string) c19Fact     { return c19Fact{"yes", why} }
func c19No(why string) c19Fact      { return c19Fact{"no", why} }
func c19Unknown(why string) c19Fact { return c19Fact{"unknown", why} }

// c19Pkg: the declarations of package stdlib (non-test files).
type c19Pkg struct {
	funcs map[string]*ast.FuncDecl // "name" or "Type.name"
}

func c19LoadPkg() (*c19Pkg, error) { return c19LoadPkgDir("stdlib") }

func c19LoadPkgDir(name string) (*c19Pkg, error) {
	dir := filepath.Join(repoDir(), name)
	ents, err := os.ReadDir(dir)
	if err != nil {
		return nil, err
	}
	p := &c19Pkg{funcs: map[string]*ast.FuncDecl{}}
	fset := token.NewFileSet()
	var names []string
	for _, e := range ents {
		if strings.HasSuffix(e.Name(), ".go") && !strings.HasSuffix(e.Name(), "_test.go") {
			names = append(names, e.Name())
		}
	}
	sort.Strings(names)
	for _, n := range names {
		f, err := parser.ParseFile(fset, filepath.Join(dir, n), nil, 0)
		if err != nil {
			return nil, err
		}
		for _, d := range f.Decls {
			if fd, ok := d.(*ast.FuncDecl); ok && fd.Body != nil {
				p.funcs[c19DeclKey(fd)] = fd
			}
		}
	}
	return p, nil
}

func c19RecvType(fd *ast.FuncDecl) string {
	if fd.Recv == nil || len(fd.Recv.List) == 0 {
		return ""
	}
	t := fd.Recv.List[0].Type
	if st, ok := t.(*ast.StarExpr); ok {
		t = st.X
	}
	return fmt.Sprint(t)
}

func c19RecvName(fd *ast.FuncDecl) string {
	if fd.Recv == nil || len(fd.Recv.List) == 0 || len(fd.Recv.List[0].Names) == 0 {
		return ""
	}
	return fd.Recv.List[0].Names[0].Name
}

func c19DeclKey(fd *ast.FuncDecl) string {
	if rt := c19RecvType(fd); rt != "" {
		return rt + "." + fd.Name.Name
	}
	return fd.Name.Name
}

// resolve a call made inside `in` to a declaration of the package (nil if it is none)
func (p *c19Pkg) resolve(call *ast.CallExpr, in *ast.FuncDecl) *ast.FuncDecl {
	switch f := call.Fun.(type) {
	case *ast.Ident:
		return p.funcs[f.Name]
	case *ast.SelectorExpr:
		if x, ok := f.X.(*ast.Ident); ok && in != nil && x.Name == c19RecvName(in) && x.Name != "" {
			return p.funcs[c19RecvType(in)+"."+f.Sel.Name]
		}
	}
	return nil
}

// walk visits the nodes below n but does not enter function literals.
func c19Walk(n ast.Node, f func(ast.Node) bool) {
	ast.Inspect(n, func(m ast.Node) bool {
		if m == nil {
			return false
		}
		if _, ok := m.(*ast.FuncLit); ok && m != n {
			return false
		}
		return f(m)
	})
}

func c19ParamNames(ft *ast.FuncType) []string {
	var ns []string
	if ft.Params == nil {
		return ns
	}
	for _, f := range ft.Params.List {
		if len(f.Names) == 0 {
			ns = append(ns, "_")
		}
		for _, n := range f.Names {
			ns = append(ns, n.Name)
		}
	}
	return ns
}

func c19IsIdent(e ast.Expr, name string) bool {
	id, ok := e.(*ast.Ident)
	return ok && id.Name == name
}

func c19EndsInErrorReturn(b *ast.BlockStmt) bool {
	if b == nil || len(b.List) == 0 {
		return false
	}
	rs, ok := b.List[len(b.List)-1].(*ast.ReturnStmt)
	if !ok || len(rs.Results) == 0 {
		return false
	}
	return !c19IsIdent(rs.Results[len(rs.Results)-1], "nil")
}

// ------------------------------------------------------------------ recover

func c19NamedErrorResult(fd *ast.FuncDecl) string {
	if fd.Type.Results == nil {
		return ""
	}
	for _, r := range fd.Type.Results.List {
		if c19IsIdent(r.Type, "error") && len(r.Names) == 1 && r.Names[0].Name != "_" {
			return r.Names[0].Name
		}
	}
	return ""
}

// set by c19RecoverBody: the conditions around the guarded assignment of the error result, and the
// variable holding recover()'s result (for c19NilPanicFact)
var c19LastGuard []ast.Expr
var c19LastRecoverVar string

// c19RecoverBody analyses the body of a deferred function. The result it has to assign is
// the captured variable `capt` (function literal) or `*ptr` (named function, parameter ptr).
func c19RecoverBody(body *ast.BlockStmt, capt, ptr string) c19Fact {
	direct, nested := 0, 0
	ast.Inspect(body, func(n ast.Node) bool {
		if ce, ok := n.(*ast.CallExpr); ok && c19IsIdent(ce.Fun, "recover") && len(ce.Args) == 0 {
			nested++
		}
		return true
	})
	c19Walk(body, func(n ast.Node) bool {
		if ce, ok := n.(*ast.CallExpr); ok && c19IsIdent(ce.Fun, "recover") && len(ce.Args) == 0 {
			direct++
		}
		return true
	})
	nested -= direct
	if direct == 0 {
		if nested > 0 {
			return c19No("recover() is only called inside a nested closure of the deferred function, where it has no effect")
		}
		return c19No("the deferred function does not call recover() itself (a recover() in a function it calls has no effect)")
	}
	// the variable holding recover()'s result
	rvar := ""
	c19Walk(body, func(n ast.Node) bool {
		if as, ok := n.(*ast.AssignStmt); ok && len(as.Lhs) == 1 && len(as.Rhs) == 1 {
			if ce, ok := as.Rhs[0].(*ast.CallExpr); ok && c19IsIdent(ce.Fun, "recover") {
				if id, ok := as.Lhs[0].(*ast.Ident); ok {
					rvar = id.Name
				}
			}
		}
		return true
	})
	isTarget := func(e ast.Expr) bool {
		if capt != "" && c19IsIdent(e, capt) {
			return true
		}
		if st, ok := e.(*ast.StarExpr); ok && ptr != "" && c19IsIdent(st.X, ptr) {
			return true
		}
		return false
	}
	testsRecovered := func(cond ast.Expr) bool {
		found := false
		ast.Inspect(cond, func(n ast.Node) bool {
			be, ok := n.(*ast.BinaryExpr)
			if !ok || be.Op != token.NEQ {
				return true
			}
			isR := func(e ast.Expr) bool {
				if rvar != "" && c19IsIdent(e, rvar) {
					return true
				}
				ce, ok := e.(*ast.CallExpr)
				return ok && c19IsIdent(ce.Fun, "recover")
			}
			if (isR(be.X) && c19IsIdent(be.Y, "nil")) || (isR(be.Y) && c19IsIdent(be.X, "nil")) {
				found = true
			}
			return true
		})
		return found
	}
	guarded, unguarded, shadow, passedOn := false, false, false, false
	var guardStack []ast.Expr
	var visit func(n ast.Node, underGuard bool)
	visit = func(n ast.Node, underGuard bool) {
		switch st := n.(type) {
		case nil:
			return
		case *ast.FuncLit:
			return
		case *ast.IfStmt:
			if st.Init != nil {
				visit(st.Init, underGuard)
			}
			guardStack = append(guardStack, st.Cond)
			visit(st.Body, underGuard || testsRecovered(st.Cond))
			guardStack = guardStack[:len(guardStack)-1]
			if st.Else != nil {
				visit(st.Else, underGuard)
			}
			return
		case *ast.AssignStmt:
			for _, l := range st.Lhs {
				if st.Tok == token.ASSIGN && isTarget(l) {
					if underGuard {
						guarded = true
						c19LastGuard, c19LastRecoverVar = append([]ast.Expr(nil), guardStack...), rvar
					} else {
						unguarded = true
					}
				}
				if st.Tok == token.DEFINE && capt != "" && c19IsIdent(l, capt) {
					shadow = true
				}
			}
		case *ast.CallExpr:
			for _, a := range st.Args {
				if ue, ok := a.(*ast.UnaryExpr); ok && ue.Op == token.AND && capt != "" && c19IsIdent(ue.X, capt) {
					passedOn = true
				}
				if ptr != "" && c19IsIdent(a, ptr) {
					passedOn = true
				}
			}
		}
		// generic descent
		ast.Inspect(n, func(m ast.Node) bool {
			if m == n {
				return true
			}
			if m != nil {
				visit(m, underGuard)
			}
			return false
		})
	}
	visit(body, false)
	switch {
	case guarded:
		return c19Yes("the deferred function calls recover() itself and assigns the named error result when it returned non-nil")
	case unguarded:
		return c19Unknown("the deferred function calls recover() and assigns the named error result, but not under a recognisable `recovered != nil` test")
	case passedOn:
		return c19Unknown("the deferred function calls recover() and hands the error variable on to another function")
	case shadow:
		return c19No("the deferred function recovers but assigns a new local variable that shadows the named error result")
	default:
		return c19No("the deferred function recovers but never assigns the named error result")
	}
}

// c19CannotPanic: other defers, and declarations / assignments of literals (flags, counters) only
func c19CannotPanic(s ast.Stmt) bool {
	lit := func(e ast.Expr) bool {
		switch x := e.(type) {
		case *ast.BasicLit:
			return true
		case *ast.Ident:
			return x.Name == "true" || x.Name == "false" || x.Name == "nil"
		}
		return false
	}
	switch x := s.(type) {
	case *ast.DeferStmt:
		return true
	case *ast.AssignStmt:
		for _, r := range x.Rhs {
			if !lit(r) {
				return false
			}
		}
		for _, l := range x.Lhs {
			if _, ok := l.(*ast.Ident); !ok {
				return false
			}
		}
		return true
	case *ast.DeclStmt:
		gd, ok := x.Decl.(*ast.GenDecl)
		if !ok {
			return false
		}
		for _, sp := range gd.Specs {
			vs, ok := sp.(*ast.ValueSpec)
			if !ok {
				continue
			}
			for _, v := range vs.Values {
				if !lit(v) {
					return false
				}
			}
		}
		return true
	}
	return false
}

func c19RecoverFact(p *c19Pkg, fd *ast.FuncDecl) c19Fact {
	errName := c19NamedErrorResult(fd)
	var defers []int
	for i, s := range fd.Body.List {
		if _, ok := s.(*ast.DeferStmt); ok {
			defers = append(defers, i)
		}
	}
	if len(defers) == 0 {
		nestedDefer := false
		c19Walk(fd.Body, func(n ast.Node) bool {
			if _, ok := n.(*ast.DeferStmt); ok {
				nestedDefer = true
			}
			return true
		})
		if nestedDefer {
			return c19Unknown("the only defer statements are nested in other statements")
		}
		return c19No("the function has no deferred call at all: nothing recovers a panic")
	}
	if errName == "" {
		return c19No("the function has no named error result a deferred function could assign")
	}
	best := c19No("no deferred call recovers")
	rank := map[string]int{"no": 0, "unknown": 1, "yes": 2}
	for _, i := range defers {
		ds := fd.Body.List[i].(*ast.DeferStmt)
		var f c19Fact
		if lit, ok := ds.Call.Fun.(*ast.FuncLit); ok {
			f = c19RecoverBody(lit.Body, errName, "")
		} else if decl := p.resolve(ds.Call, fd); decl != nil {
			ptr := ""
			params := c19ParamNames(decl.Type)
			for j, a := range ds.Call.Args {
				if ue, ok := a.(*ast.UnaryExpr); ok && ue.Op == token.AND && c19IsIdent(ue.X, errName) && j < len(params) {
					ptr = params[j]
				}
			}
			if ptr == "" {
				f = c19RecoverBody(decl.Body, "", "")
				if f.Fact != "no" || strings.Contains(f.Why, "never assigns") {
					f = c19No("the deferred function " + decl.Name.Name + " is not given &" + errName + ": it cannot set the named error result")
				}
			} else {
				f = c19RecoverBody(decl.Body, "", ptr)
			}
		} else {
			f = c19No("deferred call of a function outside the package")
		}
		// everything before the recovering defer runs unprotected: only declarations and other defers may precede it
		if f.Fact == "yes" {
			for _, s := range fd.Body.List[:i] {
				if !c19CannotPanic(s) {
					f = c19Unknown("statements that may panic precede the recovering defer")
				}
			}
		}
		if rank[f.Fact] > rank[best.Fact] || (len(defers) == 1) {
			best = f
		}
	}
	return best
}

// ------------------------------------------------------------------ panic(nil)

// c19NilPanicFact: does the deferred function report a panic also when recover() returned nil (panic(nil)
// in a binary whose main module declares go < 1.21)? yes: the condition guarding the assignment of the error
// result also tests a completion flag of Run (a local variable of Run that is assigned true / false in Run);
// no: the condition is `recovered != nil` alone.
func c19NilPanicFact(p *c19Pkg, fd *ast.FuncDecl) c19Fact {
	c19LastGuard, c19LastRecoverVar = nil, ""
	if f := c19RecoverFact(p, fd); f.Fact != "yes" {
		return c19Unknown("no established recover to ask the question about")
	}
	if len(c19LastGuard) == 0 {
		return c19Unknown("the condition guarding the assignment of the error result was not found")
	}
	// boolean flags of Run: local identifiers assigned the literal true or false in Run itself
	flags := map[string]bool{}
	for _, st := range fd.Body.List {
		c19Walk(st, func(n ast.Node) bool {
			if as, ok := n.(*ast.AssignStmt); ok && len(as.Lhs) == len(as.Rhs) {
				for i, l := range as.Lhs {
					if id, ok := l.(*ast.Ident); ok && (c19IsIdent(as.Rhs[i], "true") || c19IsIdent(as.Rhs[i], "false")) {
						flags[id.Name] = true
					}
				}
			}
			return true
		})
	}
	cond := c19LastGuard[len(c19LastGuard)-1]
	onlyRecovered := func(e ast.Expr) bool {
		be, ok := e.(*ast.BinaryExpr)
		if !ok || be.Op != token.NEQ {
			return false
		}
		isR := func(x ast.Expr) bool {
			if c19LastRecoverVar != "" && c19IsIdent(x, c19LastRecoverVar) {
				return true
			}
			ce, ok := x.(*ast.CallExpr)
			return ok && c19IsIdent(ce.Fun, "recover")
		}
		return (isR(be.X) && c19IsIdent(be.Y, "nil")) || (isR(be.Y) && c19IsIdent(be.X, "nil"))
	}
	if len(c19LastGuard) == 1 && onlyRecovered(cond) {
		return c19No("the error result is assigned under `recovered != nil` alone: for panic(nil) with the go < 1.21 semantics recover() returns nil and Run returns (nil, nil)")
	}
	mentionsFlag := false
	for _, c := range c19LastGuard {
		if be, ok := c.(*ast.BinaryExpr); ok && be.Op == token.LAND {
			continue // `recovered != nil && …` narrows, it does not widen
		}
		ast.Inspect(c, func(n ast.Node) bool {
			if id, ok := n.(*ast.Ident); ok && flags[id.Name] {
				mentionsFlag = true
			}
			return true
		})
	}
	if be, ok := cond.(*ast.BinaryExpr); ok && be.Op == token.LOR && mentionsFlag {
		return c19Yes("the deferred function assigns the error result when recover() returned non-nil OR a completion flag of Run says that Run did not finish")
	}
	if id, ok := cond.(*ast.Ident); ok && flags[id.Name] {
		return c19Yes("the deferred function assigns the error result whenever a completion flag of Run says that Run did not finish")
	}
	if ue, ok := cond.(*ast.UnaryExpr); ok && ue.Op == token.NOT && mentionsFlag {
		return c19Yes("the deferred function assigns the error result whenever a completion flag of Run says that Run did not finish")
	}
	return c19Unknown("the condition guarding the assignment of the error result is more than `recovered != nil`, but no completion flag of Run is recognised in it")
}

// ------------------------------------------------------------------ error value after Run (interpreter)

// c19ErrorValueFact: interpreter/rt_identifier.go, executeFunction — the error value a function returned is
// handled OUTSIDE Run's recover. yes: its Error method is only called inside functions that have a deferred
// function calling recover() themselves, and a runtime-error pointer obtained from it is compared with nil;
// no: Error() is called on it in a function without such a defer.
func c19ErrorValueFact() c19Fact {
	p, err := c19LoadPkgDir("interpreter")
	if err != nil {
		return c19Unknown("package interpreter cannot be read: " + err.Error())
	}
	fd := p.funcs["identifierRuntime.executeFunction"]
	if fd == nil {
		return c19Unknown("no method identifierRuntime.executeFunction")
	}
	// a top-level defer of a function — a literal or a function / method of the package — whose own body calls recover()
	protected := func(d *ast.FuncDecl) bool {
		callsRecover := func(b *ast.BlockStmt) bool {
			found := false
			c19Walk(b, func(n ast.Node) bool {
				if ce, ok := n.(*ast.CallExpr); ok && c19IsIdent(ce.Fun, "recover") {
					found = true
				}
				return true
			})
			return found
		}
		for _, st := range d.Body.List {
			if ds, ok := st.(*ast.DeferStmt); ok {
				if lit, ok := ds.Call.Fun.(*ast.FuncLit); ok && callsRecover(lit.Body) {
					return true
				}
				if h := p.resolve(ds.Call, d); h != nil && callsRecover(h.Body) {
					return true
				}
			}
		}
		return false
	}
	// the variable(s) holding what Run returned
	errVars := map[string]bool{}
	c19Walk(fd.Body, func(n ast.Node) bool {
		if as, ok := n.(*ast.AssignStmt); ok && len(as.Rhs) == 1 && len(as.Lhs) >= 1 {
			if ce, ok := as.Rhs[0].(*ast.CallExpr); ok {
				if se, ok := ce.Fun.(*ast.SelectorExpr); ok && se.Sel.Name == "Run" {
					if id, ok := as.Lhs[len(as.Lhs)-1].(*ast.Ident); ok {
						errVars[id.Name] = true
					}
				}
			}
		}
		return true
	})
	if len(errVars) == 0 {
		return c19Unknown("the call of the function object's Run was not found in executeFunction")
	}
	type use struct {
		unprotected, protectedCalls int
	}
	var u use
	// per name bound to err.(*T): is it compared with nil, is its embedded RuntimeError pointer (for
	// *RuntimeErrorWithDetail), is its Type field?
	assertedAll := map[string]string{} // name -> asserted type text
	nilTested, fieldTested, typeTested := map[string]bool{}, map[string]bool{}, map[string]bool{}
	var scan func(d *ast.FuncDecl, vars map[string]bool, level int)
	scan = func(d *ast.FuncDecl, vars map[string]bool, level int) {
		prot := protected(d)
		asserted := map[string]bool{} // names bound to vars.(*T)
		c19Walk(d.Body, func(n ast.Node) bool {
			switch x := n.(type) {
			case *ast.AssignStmt:
				for i, r := range x.Rhs {
					if ta, ok := r.(*ast.TypeAssertExpr); ok {
						if _, isPtr := ta.Type.(*ast.StarExpr); !isPtr {
							continue // an interface: no pointer of its own to test
						}
						if id, ok := ta.X.(*ast.Ident); ok && vars[id.Name] && i < len(x.Lhs) {
							if l, ok := x.Lhs[i].(*ast.Ident); ok && l.Name != "_" {
								asserted[l.Name] = true
								assertedAll[l.Name] = fmt.Sprint(ta.Type)
							}
						}
					}
				}
			case *ast.BinaryExpr:
				if x.Op == token.EQL || x.Op == token.NEQ {
					for _, side := range [][2]ast.Expr{{x.X, x.Y}, {x.Y, x.X}} {
						if !c19IsIdent(side[1], "nil") {
							continue
						}
						if id, ok := side[0].(*ast.Ident); ok && asserted[id.Name] {
							nilTested[id.Name] = true
						}
						// name.RuntimeError == nil, name.Type == nil, name.RuntimeError.Type == nil
						if se, ok := side[0].(*ast.SelectorExpr); ok {
							base := se.X
							if inner, ok := base.(*ast.SelectorExpr); ok && inner.Sel.Name == "RuntimeError" {
								base = inner.X
							}
							if id, ok := base.(*ast.Ident); ok && asserted[id.Name] {
								if se.Sel.Name == "RuntimeError" {
									fieldTested[id.Name] = true
								}
								if se.Sel.Name == "Type" {
									typeTested[id.Name] = true
								}
							}
						}
					}
				}
			case *ast.CallExpr:
				if se, ok := x.Fun.(*ast.SelectorExpr); ok && se.Sel.Name == "Error" && len(x.Args) == 0 {
					if id, ok := se.X.(*ast.Ident); ok && vars[id.Name] {
						if prot {
							u.protectedCalls++
						} else {
							u.unprotected++
						}
					}
				}
				if level < 2 { // helpers are followed two levels
					if h := p.resolve(x, d); h != nil {
						hv := map[string]bool{}
						hp := c19ParamNames(h.Type)
						for j, a := range x.Args {
							if id, ok := a.(*ast.Ident); ok && vars[id.Name] && j < len(hp) {
								hv[hp[j]] = true
							}
						}
						if len(hv) > 0 {
							scan(h, hv, level+1)
						}
					}
				}
			}
			return true
		})
	}
	scan(fd, errVars, 0)
	switch {
	case u.unprotected > 0:
		return c19No("Error() is called on the error value a function returned, after Run's recover is gone and without a recover of its own: a nil pointer / a panicking Error method takes the interpreter down")
	case u.protectedCalls > 0:
		var missing []string
		names := make([]string, 0, len(assertedAll))
		for n := range assertedAll {
			names = append(names, n)
		}
		sort.Strings(names)
		for _, n := range names {
			if !nilTested[n] {
				missing = append(missing, n+" is not compared with nil")
			}
			if strings.Contains(assertedAll[n], "RuntimeErrorWithDetail") && !fieldTested[n] {
				missing = append(missing, "the embedded RuntimeError pointer of "+n+" is not compared with nil")
			}
			if !typeTested[n] {
				missing = append(missing, "the Type field of "+n+" is not compared with nil")
			}
		}
		if len(names) == 0 {
			missing = append(missing, "no type assertion to a runtime-error pointer was recognised")
		}
		if len(missing) == 0 {
			return c19Yes("the error text is only obtained inside a function with its own recover; every runtime-error pointer taken from the error value, its embedded pointer and its Type field are compared with nil")
		}
		return c19Unknown("the error text is obtained under a recover, but: " + strings.Join(missing, "; "))
	default:
		return c19Unknown("no call of Error() on the returned error value found in executeFunction or the helpers it calls")
	}
}

// ------------------------------------------------------------------ arity

type c19ArityScan struct {
	args      map[string]bool // names denoting the argument slice
	count     map[string]bool // names denoting len(args) or an index into args
	numIn     map[string]bool // names denoting NumIn()
	yes       bool
	noncanon  bool
	errReturn bool
}

func (s *c19ArityScan) mentionsNumIn(e ast.Expr) bool {
	found := false
	ast.Inspect(e, func(n ast.Node) bool {
		switch x := n.(type) {
		case *ast.CallExpr:
			if se, ok := x.Fun.(*ast.SelectorExpr); ok && se.Sel.Name == "NumIn" {
				found = true
			}
		case *ast.Ident:
			if s.numIn[x.Name] {
				found = true
			}
		}
		return true
	})
	return found
}

func (s *c19ArityScan) mentionsCount(e ast.Expr) bool {
	found := false
	ast.Inspect(e, func(n ast.Node) bool {
		switch x := n.(type) {
		case *ast.CallExpr:
			if c19IsIdent(x.Fun, "len") && len(x.Args) == 1 {
				if id, ok := x.Args[0].(*ast.Ident); ok && s.args[id.Name] {
					found = true
				}
			}
		case *ast.Ident:
			if s.count[x.Name] {
				found = true
			}
		}
		return true
	})
	return found
}

func (s *c19ArityScan) isComparison(e ast.Expr) bool {
	be, ok := e.(*ast.BinaryExpr)
	if !ok {
		return false
	}
	switch be.Op {
	case token.EQL, token.NEQ, token.LSS, token.LEQ, token.GTR, token.GEQ:
		return (s.mentionsCount(be.X) && s.mentionsNumIn(be.Y) && !s.mentionsNumIn(be.X)) ||
			(s.mentionsNumIn(be.X) && s.mentionsCount(be.Y) && !s.mentionsNumIn(be.Y))
	}
	return false
}

func (s *c19ArityScan) learn(st ast.Stmt) {
	as, ok := st.(*ast.AssignStmt)
	if !ok || len(as.Lhs) != len(as.Rhs) {
		return
	}
	for i, l := range as.Lhs {
		id, ok := l.(*ast.Ident)
		if !ok {
			continue
		}
		if s.mentionsNumIn(as.Rhs[i]) && !s.mentionsCount(as.Rhs[i]) {
			s.numIn[id.Name] = true
		} else if s.mentionsCount(as.Rhs[i]) && !s.mentionsNumIn(as.Rhs[i]) {
			s.count[id.Name] = true
		}
	}
}

// block scans statements that are executed unconditionally (per call / per iteration over the arguments).
func (s *c19ArityScan) block(stmts []ast.Stmt) {
	for _, st := range stmts {
		switch x := st.(type) {
		case *ast.AssignStmt:
			s.learn(x)
		case *ast.IfStmt:
			if x.Init != nil {
				s.learn(x.Init)
			}
			if s.isComparison(x.Cond) {
				if c19EndsInErrorReturn(x.Body) {
					s.yes = true
				} else {
					s.noncanon = true
				}
			}
		case *ast.RangeStmt:
			if id, ok := x.X.(*ast.Ident); ok && s.args[id.Name] {
				if k, ok := x.Key.(*ast.Ident); ok && k.Name != "_" {
					s.count[k.Name] = true
				}
				s.block(x.Body.List)
			}
		case *ast.ForStmt:
			if x.Cond != nil && s.mentionsCount(x.Cond) {
				if x.Init != nil {
					if as, ok := x.Init.(*ast.AssignStmt); ok && len(as.Lhs) == 1 {
						if id, ok := as.Lhs[0].(*ast.Ident); ok {
							s.count[id.Name] = true
						}
					}
				}
				s.block(x.Body.List)
			}
		}
	}
}

// anyComparison: is there a count/NumIn comparison anywhere below (also where block() does not look)?
func (s *c19ArityScan) anyComparison(n ast.Node) bool {
	found := false
	c19Walk(n, func(m ast.Node) bool {
		if st, ok := m.(*ast.RangeStmt); ok {
			if id, ok := st.X.(*ast.Ident); ok && s.args[id.Name] {
				if k, ok := st.Key.(*ast.Ident); ok {
					s.count[k.Name] = true
				}
			}
		}
		if st, ok := m.(ast.Stmt); ok {
			s.learn(st)
		}
		if e, ok := m.(ast.Expr); ok && s.isComparison(e) {
			found = true
		}
		return true
	})
	return found
}

func c19ContainsReflectCall(n ast.Node) bool {
	found := false
	c19Walk(n, func(m ast.Node) bool {
		if ce, ok := m.(*ast.CallExpr); ok {
			if se, ok := ce.Fun.(*ast.SelectorExpr); ok && (se.Sel.Name == "Call" || se.Sel.Name == "CallSlice") {
				found = true
			}
		}
		return true
	})
	return found
}

func c19ArityFact(p *c19Pkg, fd *ast.FuncDecl) c19Fact {
	params := c19ParamNames(fd.Type)
	if len(params) == 0 {
		return c19Unknown("Run has no parameters")
	}
	argsName := params[len(params)-1]
	callIdx := -1
	for i, st := range fd.Body.List {
		if c19ContainsReflectCall(st) {
			callIdx = i
			break
		}
	}
	if callIdx < 0 {
		return c19Unknown("the reflective Call is not made by a statement of Run itself")
	}
	before := fd.Body.List[:callIdx]
	s := &c19ArityScan{args: map[string]bool{argsName: true}, count: map[string]bool{}, numIn: map[string]bool{}}
	s.block(before)
	if s.yes {
		return c19Yes("Run compares the number of arguments with NumIn() before Call and returns an error for surplus arguments")
	}
	noncanon := s.noncanon
	for _, st := range before {
		if s.anyComparison(st) {
			noncanon = true
		}
	}
	// one level of same-package helpers that receive the arguments before Call
	deeper := false
	for i, st := range before {
		var calls []*ast.CallExpr
		c19Walk(st, func(m ast.Node) bool {
			if ce, ok := m.(*ast.CallExpr); ok {
				calls = append(calls, ce)
			}
			return true
		})
		for _, ce := range calls {
			decl := p.resolve(ce, fd)
			if decl == nil {
				continue
			}
			hp := c19ParamNames(decl.Type)
			hs := &c19ArityScan{args: map[string]bool{}, count: map[string]bool{}, numIn: map[string]bool{}}
			for j, a := range ce.Args {
				if j >= len(hp) {
					break
				}
				if c19IsIdent(a, argsName) {
					hs.args[hp[j]] = true
				}
				if s.mentionsNumIn(a) && !s.mentionsCount(a) {
					hs.numIn[hp[j]] = true
				}
				if s.mentionsCount(a) && !s.mentionsNumIn(a) {
					hs.count[hp[j]] = true
				}
			}
			if len(hs.args) == 0 && len(hs.count) == 0 {
				continue
			}
			hs.block(decl.Body.List)
			if hs.yes {
				// Run has to return the helper's error before it gets to Call
				if c19PropagatesError(st, before[i+1:]) {
					return c19Yes("the helper " + decl.Name.Name + ", called before Call, compares the number of arguments with NumIn() and returns an error for surplus arguments; Run returns that error")
				}
				noncanon = true
				continue
			}
			if hs.noncanon || hs.anyComparison(decl.Body) {
				noncanon = true
			}
			// does the helper hand the arguments on to further package functions?
			c19Walk(decl.Body, func(m ast.Node) bool {
				if c2, ok := m.(*ast.CallExpr); ok && p.resolve(c2, decl) != nil {
					for _, a := range c2.Args {
						if id, ok := a.(*ast.Ident); ok && (hs.args[id.Name] || hs.count[id.Name]) {
							deeper = true
						}
					}
				}
				return true
			})
		}
	}
	if noncanon {
		return c19Unknown("the number of arguments is compared with NumIn() before Call, but not in a form that is understood (no plain `if … { …; return …, <error> }` executed for every call / argument)")
	}
	if deeper {
		return c19Unknown("the arguments are handed through more than one level of helper functions before Call")
	}
	return c19No("nowhere before the reflective Call — in Run or in a helper it calls — is the number of arguments compared with NumIn()")
}

// c19PropagatesError: `st` assigns the helper's results; does Run return when the last of them is non-nil?
func c19PropagatesError(st ast.Stmt, rest []ast.Stmt) bool {
	errVar := ""
	check := func(cond ast.Expr, body *ast.BlockStmt) bool {
		be, ok := cond.(*ast.BinaryExpr)
		if !ok || be.Op != token.NEQ || errVar == "" {
			return false
		}
		if !((c19IsIdent(be.X, errVar) && c19IsIdent(be.Y, "nil")) || (c19IsIdent(be.Y, errVar) && c19IsIdent(be.X, "nil"))) {
			return false
		}
		if len(body.List) == 0 {
			return false
		}
		_, isRet := body.List[len(body.List)-1].(*ast.ReturnStmt)
		return isRet
	}
	lastLhs := func(as *ast.AssignStmt) string {
		if len(as.Lhs) == 0 {
			return ""
		}
		if id, ok := as.Lhs[len(as.Lhs)-1].(*ast.Ident); ok {
			return id.Name
		}
		return ""
	}
	switch x := st.(type) {
	case *ast.AssignStmt:
		errVar = lastLhs(x)
	case *ast.IfStmt:
		if as, ok := x.Init.(*ast.AssignStmt); ok {
			errVar = lastLhs(as)
			return check(x.Cond, x.Body)
		}
	case *ast.ReturnStmt:
		return false
	}
	for _, r := range rest {
		if is, ok := r.(*ast.IfStmt); ok && is.Init == nil && check(is.Cond, is.Body) {
			return true
		}
		// the error variable must not be overwritten before it is tested
		if as, ok := r.(*ast.AssignStmt); ok {
			for _, l := range as.Lhs {
				if c19IsIdent(l, errVar) {
					return false
				}
			}
		}
	}
	return false
}

// ------------------------------------------------------------------ plugin registration

func c19IsPluginShape(ft *ast.FuncType) bool {
	if ft.Params == nil || len(ft.Params.List) != 1 || ft.Results == nil || len(ft.Results.List) != 2 {
		return false
	}
	el, ok := ft.Params.List[0].Type.(*ast.Ellipsis)
	if !ok {
		return false
	}
	empty := func(e ast.Expr) bool {
		it, ok := e.(*ast.InterfaceType)
		return ok && (it.Methods == nil || len(it.Methods.List) == 0)
	}
	return empty(el.Elt) && empty(ft.Results.List[0].Type) && c19IsIdent(ft.Results.List[1].Type, "error")
}

func c19PluginFact(p *c19Pkg) c19Fact {
	fd := p.funcs["AddStdlibPluginFunc"]
	if fd == nil {
		return c19Unknown("no function AddStdlibPluginFunc")
	}
	var facts []c19Fact
	var scan func(decl *ast.FuncDecl, level int)
	scan = func(decl *ast.FuncDecl, level int) {
		// local single assignments: name -> expression
		local := map[string]ast.Expr{}
		c19Walk(decl.Body, func(n ast.Node) bool {
			if as, ok := n.(*ast.AssignStmt); ok && len(as.Lhs) == len(as.Rhs) {
				for i, l := range as.Lhs {
					if id, ok := l.(*ast.Ident); ok {
						local[id.Name] = as.Rhs[i]
					}
				}
			}
			return true
		})
		deref := func(e ast.Expr) ast.Expr {
			if id, ok := e.(*ast.Ident); ok {
				if v, ok := local[id.Name]; ok {
					return v
				}
			}
			return e
		}
		wrapsShape := func(e ast.Expr) bool { // reflect.ValueOf(<closure of the plugin shape>)
			ce, ok := deref(e).(*ast.CallExpr)
			if !ok || len(ce.Args) != 1 {
				return false
			}
			if se, ok := ce.Fun.(*ast.SelectorExpr); !ok || se.Sel.Name != "ValueOf" {
				return false
			}
			lit, ok := deref(ce.Args[0]).(*ast.FuncLit)
			return ok && c19IsPluginShape(lit.Type)
		}
		classify := func(e ast.Expr) c19Fact {
			e = deref(e)
			typeName, first := "", ast.Expr(nil)
			if ue, ok := e.(*ast.UnaryExpr); ok && ue.Op == token.AND {
				e = ue.X
			}
			switch x := e.(type) {
			case *ast.CompositeLit:
				typeName = fmt.Sprint(x.Type)
				if len(x.Elts) > 0 {
					first = x.Elts[0]
					for _, el := range x.Elts {
						if kv, ok := el.(*ast.KeyValueExpr); ok {
							first = nil
							if c19IsIdent(kv.Key, "funcval") {
								first = kv.Value
								break
							}
						}
					}
				}
			case *ast.CallExpr:
				if c19IsIdent(x.Fun, "NewECALFunctionAdapter") && len(x.Args) >= 1 {
					typeName, first = "ECALFunctionAdapter", x.Args[0]
				} else if d := p.resolve(x, decl); d != nil && d.Type.Results != nil && len(d.Type.Results.List) == 1 {
					t := d.Type.Results.List[0].Type
					if st, ok := t.(*ast.StarExpr); ok {
						t = st.X
					}
					typeName = fmt.Sprint(t) // a constructor of the package
				}
			}
			if typeName == "" {
				return c19Unknown("the registered function object is not an expression that is understood")
			}
			if typeName == "ECALFunctionAdapter" {
				if first != nil && wrapsShape(first) {
					return c19Yes("registered as an ECALFunctionAdapter around a func(...interface{}) (interface{}, error) closure")
				}
				return c19Unknown("registered as an ECALFunctionAdapter, but the wrapped function is not visibly the variadic plugin closure")
			}
			run := p.funcs[typeName+".Run"]
			if run == nil {
				return c19Unknown("registered as a " + typeName + " whose Run method is not in the package")
			}
			if f := c19RecoverFact(p, run); f.Fact == "yes" {
				return c19Unknown("registered as a " + typeName + " with its own recovering Run (not the adapter the model describes)")
			}
			return c19No("registered as a " + typeName + " whose Run does not recover: a panicking plugin function takes the interpreter down")
		}
		c19Walk(decl.Body, func(n ast.Node) bool {
			switch x := n.(type) {
			case *ast.CallExpr:
				if c19IsIdent(x.Fun, "AddStdlibFunc") && len(x.Args) == 3 {
					facts = append(facts, classify(x.Args[2]))
				} else if level == 0 {
					if d := p.resolve(x, decl); d != nil && d.Name.Name != "AddStdlibPkg" {
						scan(d, 1)
					}
				}
			case *ast.AssignStmt:
				for i, l := range x.Lhs {
					if ie, ok := l.(*ast.IndexExpr); ok && c19IsIdent(ie.X, "internalStdlibFuncMap") && i < len(x.Rhs) {
						facts = append(facts, classify(x.Rhs[i]))
					}
				}
			}
			return true
		})
	}
	scan(fd, 0)
	if len(facts) == 0 {
		return c19Unknown("no registration of a function object found in AddStdlibPluginFunc or the helpers it calls")
	}
	res := facts[0]
	rank := map[string]int{"yes": 0, "unknown": 1, "no": 2}
	for _, f := range facts[1:] {
		if rank[f.Fact] > rank[res.Fact] {
			res = f
		}
	}
	return res
}

// c19EffectiveRun: a Run that only delegates (`return ea.call(args)`: no reflective Call of its own, its last
// statement returns the results of ONE call of a function / method of the package) is followed to the function
// that does the work — at most three levels. Where the code lives is not what the facts are about.
func c19EffectiveRun(p *c19Pkg, fd *ast.FuncDecl) *ast.FuncDecl {
	for level := 0; fd != nil && level < 3; level++ {
		if c19ContainsReflectCall(fd.Body) || len(fd.Body.List) == 0 {
			return fd
		}
		hasDefer := false
		for _, st := range fd.Body.List {
			if _, ok := st.(*ast.DeferStmt); ok {
				hasDefer = true
			}
		}
		rs, ok := fd.Body.List[len(fd.Body.List)-1].(*ast.ReturnStmt)
		if hasDefer || !ok || len(rs.Results) != 1 {
			return fd
		}
		ce, ok := rs.Results[0].(*ast.CallExpr)
		if !ok {
			return fd
		}
		next := p.resolve(ce, fd)
		if next == nil {
			return fd
		}
		fd = next
	}
	return fd
}

// ------------------------------------------------------------------ output

func c19Extract(args []string) int {
	if len(args) != 1 {
		fmt.Fprintln(os.Stderr, "usage: harness C19 -tool <output.lean>")
		return 2
	}
	p, err := c19LoadPkg()
	if err != nil {
		fmt.Fprintln(os.Stderr, err)
		return 2
	}
	run := c19EffectiveRun(p, p.funcs["ECALFunctionAdapter.Run"])
	var rec, ar, np c19Fact
	if run == nil {
		rec, ar = c19Unknown("no method ECALFunctionAdapter.Run"), c19Unknown("no method ECALFunctionAdapter.Run")
		np = rec
	} else {
		rec, ar, np = c19RecoverFact(p, run), c19ArityFact(p, run), c19NilPanicFact(p, run)
	}
	pl := c19PluginFact(p)
	ev := c19ErrorValueFact()
	var sb strings.Builder
	sb.WriteString("import Ecal.Model.Bridge\n")
	sb.WriteString("/-! GENERATED by `harness C19 -tool <file>` from stdlib/*.go — do not edit.\n")
	sb.WriteString("    `yes` = established, `no` = positively refuted, `unknown` = source shape not understood. -/\n")
	sb.WriteString("namespace Ecal.Gen.C19\nopen Ecal.Bridge\n")
	emit := func(name, what string, f c19Fact) {
		sb.WriteString("\n/-- " + what + "\n    Finding: " + strings.ReplaceAll(f.Why, "-/", "- /") + " -/\n")
		sb.WriteString("def " + name + " : Fact := ." + f.Fact + "\n")
	}
	emit("recoverFact", "ECALFunctionAdapter.Run defers a function whose own body calls recover() and assigns Run's named error result when a panic was recovered.", rec)
	emit("arityFact", "Before the reflective Call the number of arguments is compared with NumIn() and surplus arguments end in a returned error.", ar)
	emit("pluginFact", "Every function object AddStdlibPluginFunc registers is an ECALFunctionAdapter around a func(...interface{}) (interface{}, error) closure.", pl)
	emit("nilPanicFact", "The deferred function of Run reports a panic also when recover() returned nil (panic(nil) with the go < 1.21 semantics): it tests a completion flag of Run.", np)
	emit("errorValueFact", "interpreter/rt_identifier.go, executeFunction: the error value a function returned is only asked for its text under a recover, and runtime-error pointers are compared with nil.", ev)
	sb.WriteString("\nend Ecal.Gen.C19\n")
	if err := os.WriteFile(args[0], []byte(sb.String()), 0644); err != nil {
		fmt.Fprintln(os.Stderr, err)
		return 2
	}
	js, _ := json.Marshal(map[string]c19Fact{"recover": rec, "arity": ar, "plugin": pl, "nilpanic": np, "errorvalue": ev})
	fmt.Println(string(js))
	return 0
}
