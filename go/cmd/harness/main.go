// Command harness runs the real krotik/ecal code on generated cases, one
// property at a time, and writes one canonical result line per case.
//
//	harness <prop> -tier quick|thorough -seed N -shard i/n -start K -cases F -out F
//	harness <prop> -one <payload>
//
// Case line   : <idx>\t<payload>
// Result line : <idx>\t<result>
//
// A case line is written (and flushed) before the case is executed, the result
// line after it. If the process dies in between (a panic in a goroutine the
// harness does not own kills the whole process) the parent sees a case without
// a result, records CRASH for it and restarts the harness with -start idx+1.
// A case that exceeds its time limit is reported as HANG and the process exits
// with status 3 (the stuck goroutine cannot be stopped); a recovered panic is
// reported as PANIC and the process exits with status 4 (global state may be
// damaged). The parent restarts in both cases.
package main

import (
	"bufio"
	"encoding/json"
	"flag"
	"fmt"
	"os"
	"sort"
	"strconv"
	"strings"
	"time"
)

// Prop is the correspondence driver of one property.
type Prop struct {
	// Gen emits the payloads of all cases of the tier through g.Emit.
	Gen func(g *Gen)
	// Run executes one case against the real code and returns the canonical result.
	Run func(payload string) string
	// Timeout per case (default 10s).
	Timeout time.Duration
	// Setup runs once per process before the first case.
	Setup func()
	// NoRestartOnPanic: a recovered panic does not end the process.
	NoRestartOnPanic bool
	// Tool is an optional property-specific sub-command (fact extractors, schedule
	// runners, …): `harness <prop> -tool args…`; its return value is the exit status.
	Tool func(args []string) int
}

// repoDir is the source tree under test (for extractors reading Go source).
func repoDir() string {
	if d := os.Getenv("VERIF_REPO"); d != "" {
		return d
	}
	return "/repo"
}

var registry = map[string]*Prop{}

func register(id string, p *Prop) { registry[id] = p }

// Gen is handed to generators.
type Gen struct {
	Tier  string
	Seed  uint64
	R     *Rand
	emit  func(string)
	stats map[string]int
}

// Thorough says whether the thorough tier was requested.
func (g *Gen) Thorough() bool { return g.Tier == "thorough" }

// Emit hands one case to the executor.
func (g *Gen) Emit(payload string) { g.emit(payload) }

// Count adds to a named counter of the input distribution.
func (g *Gen) Count(key string) { g.stats[key]++ }

var runStats = map[string]int{}

// CountRun adds to a named counter from inside Run.
func CountRun(key string) { runStats[key]++ }

func main() {
	if len(os.Args) < 2 {
		fmt.Fprintln(os.Stderr, "usage: harness <prop> [flags]")
		os.Exit(2)
	}
	id := os.Args[1]
	p, ok := registry[id]
	if !ok {
		fmt.Fprintln(os.Stderr, "unknown property", id)
		os.Exit(2)
	}
	if len(os.Args) > 2 && os.Args[2] == "-tool" {
		if p.Tool == nil {
			fmt.Fprintln(os.Stderr, "property", id, "has no tool")
			os.Exit(2)
		}
		os.Exit(p.Tool(os.Args[3:]))
	}
	fs := flag.NewFlagSet("harness", flag.ExitOnError)
	tier := fs.String("tier", "quick", "quick|thorough")
	seed := fs.Uint64("seed", 1, "PRNG seed")
	shard := fs.String("shard", "0/1", "i/n")
	start := fs.Int("start", 0, "first case index to execute")
	casesF := fs.String("cases", "", "file to append case lines to")
	outF := fs.String("out", "", "file to append result lines to")
	one := fs.String("one", "", "run this single payload and print the result")
	list := fs.Bool("list", false, "only print the case lines")
	tmult := fs.Int("tmult", 1, "multiply the per-case time limit (used when a HANG is re-checked alone)")
	fs.Parse(os.Args[2:])

	if p.Setup != nil {
		p.Setup()
	}
	to := p.Timeout
	if to == 0 {
		to = 10 * time.Second
	}
	if *tmult > 1 {
		to *= time.Duration(*tmult)
	}

	if *one != "" {
		res, st := runOne(p, *one, to)
		fmt.Println(res)
		if st != 0 {
			os.Exit(st)
		}
		return
	}

	var si, sn int
	fmt.Sscanf(*shard, "%d/%d", &si, &sn)
	if sn <= 0 {
		sn = 1
	}

	var cw, ow *bufio.Writer
	if *list {
		cw = bufio.NewWriter(os.Stdout)
		ow = bufio.NewWriter(os.Stderr)
	} else {
		cf, err := os.OpenFile(*casesF, os.O_APPEND|os.O_CREATE|os.O_WRONLY, 0644)
		check(err)
		of, err := os.OpenFile(*outF, os.O_APPEND|os.O_CREATE|os.O_WRONLY, 0644)
		check(err)
		cw = bufio.NewWriter(cf)
		ow = bufio.NewWriter(of)
	}

	idx := -1
	g := &Gen{Tier: *tier, Seed: *seed, R: NewRand(*seed), stats: map[string]int{}}
	writeStats := func() {
		all := map[string]int{}
		for k, v := range runStats {
			all[k] = v
		}
		// generator counters are only reported by shard 0's first process (they are
		// identical in every process)
		if si == 0 && *start == 0 {
			for k, v := range g.stats {
				all["gen."+k] = v
			}
		}
		keys := make([]string, 0, len(all))
		for k := range all {
			keys = append(keys, k)
		}
		sort.Strings(keys)
		b, _ := json.Marshal(all)
		fmt.Fprintf(ow, "#stats\t%s\n", b)
		ow.Flush()
	}
	g.emit = func(payload string) {
		idx++
		if idx%sn != si || idx < *start {
			return
		}
		if strings.ContainsAny(payload, "\n\t") {
			panic("payload contains newline or tab: " + strconv.Quote(payload))
		}
		fmt.Fprintf(cw, "%d\t%s\n", idx, payload)
		cw.Flush()
		if *list {
			return
		}
		res, st := runOne(p, payload, to)
		fmt.Fprintf(ow, "%d\t%s\n", idx, res)
		ow.Flush()
		if st != 0 {
			writeStats()
			os.Exit(st)
		}
	}
	p.Gen(g)
	if !*list {
		writeStats()
		fmt.Fprintf(ow, "#done\t%d\n", idx+1)
		ow.Flush()
	}
}

// runOne executes one case with a time limit, converting panics of the calling
// goroutine into a PANIC result.
func runOne(p *Prop, payload string, to time.Duration) (string, int) {
	type r struct {
		s  string
		st int
	}
	ch := make(chan r, 1)
	go func() {
		defer func() {
			if e := recover(); e != nil {
				st := 4
				if p.NoRestartOnPanic {
					st = 0
				}
				ch <- r{"PANIC " + oneLine(fmt.Sprint(e)), st}
			}
		}()
		ch <- r{p.Run(payload), 0}
	}()
	select {
	case x := <-ch:
		return x.s, x.st
	case <-time.After(to):
		return "HANG", 3
	}
}

func oneLine(s string) string {
	s = strings.ReplaceAll(s, "\n", " ")
	s = strings.ReplaceAll(s, "\t", " ")
	if len(s) > 200 {
		s = s[:200]
	}
	return s
}

func check(err error) {
	if err != nil {
		fmt.Fprintln(os.Stderr, err)
		os.Exit(2)
	}
}
