package main

// C17 source facts, part 2 (go/ast with the files' import tables; three-valued like part 1).
//
// (A) util: which calls can FileImportLocator.Resolve reach (through functions of the same package)?
//     Every call that touches the file system must come AFTER the containment test (the call of a
//     same-package function that — directly or through others — calls filepath.Rel), be guarded by
//     its result, and be handed the TESTED value itself:
//       configured  after the test, inside an if / switch / behind an early return on the test's
//                   results, argument = the variable given to (or returned by) the test, not assigned since
//       REFUTED     a file-system call before the test, or its argument wrapped in / reassigned from a
//                   function that rewrites strings (os.ExpandEnv, strings.*, url.*Unescape, …)
//                   or the boolean result of the test used with the wrong polarity (error branch when it is true,
//                   open when it is false)
//       unknown     anything else (a call that cannot be classified, an argument that is another expression)
// (B) interpreter: the Resolve call(s) reachable from importRuntime.Eval: is the receiver the provider's
//     configured locator (rt.erp.ImportLocator, possibly through a local), and is the argument
//     fmt.Sprint of the value of the path expression (child 0)?

import (
	"go/ast"
	"go/token"
	"path/filepath"
	"sort"
	"strings"
)

var c17FSPackages = map[string]bool{"os": true, "io/ioutil": true, "os/exec": true, "syscall": true, "net": true, "net/http": true,
	"plugin": true, "io/fs": true, "golang.org/x/sys/unix": true}
var c17OSPure = map[string]bool{"Getenv": true, "LookupEnv": true, "ExpandEnv": true, "Expand": true, "IsExist": true, "IsNotExist": true,
	"IsPermission": true, "IsPathSeparator": true, "Getpid": true, "IsTimeout": true, "Environ": true}
var c17FilepathFS = map[string]bool{"Walk": true, "WalkDir": true, "Glob": true, "EvalSymlinks": true, "Abs": true}
var c17PurePackages = map[string]bool{"fmt": true, "strings": true, "path": true, "path/filepath": true, "errors": true, "bytes": true,
	"unicode": true, "unicode/utf8": true, "strconv": true, "sort": true, "github.com/krotik/ecal/verifhook": true}

// methods that do not touch the file system whatever their receiver is here (os.FileInfo accessors, error / Stringer,
// sync.Map and mutex operations)
var c17PureMethods = map[string]bool{"Error": true, "String": true, "IsDir": true, "Mode": true, "Name": true, "Size": true, "ModTime": true,
	"IsRegular": true, "Load": true, "Store": true, "LoadOrStore": true, "Delete": true, "Lock": true, "Unlock": true, "RLock": true, "RUnlock": true}

var c17Builtins = map[string]bool{"string": true, "len": true, "append": true, "make": true, "new": true, "cap": true, "copy": true,
	"panic": true, "byte": true, "rune": true, "int": true, "error": true, "delete": true}

// c17Imports maps the local name of every import of the file to its full import path.
func c17Imports(f *ast.File) map[string]string {
	m := map[string]string{}
	for _, im := range f.Imports {
		path := strings.Trim(im.Path.Value, `"`)
		name := path[strings.LastIndex(path, "/")+1:]
		if im.Name != nil {
			name = im.Name.Name
		}
		m[name] = path
	}
	return m
}

func c17Mentions(n ast.Node, names map[string]bool) bool {
	r := false
	if n == nil {
		return false
	}
	ast.Inspect(n, func(m ast.Node) bool {
		if id, ok := m.(*ast.Ident); ok && names[id.Name] {
			r = true
		}
		return !r
	})
	return r
}

// c17PathTo returns the chain of nodes from root down to target.
func c17PathTo(root ast.Node, target ast.Node) []ast.Node {
	var path, res []ast.Node
	ast.Inspect(root, func(n ast.Node) bool {
		if res != nil {
			return false
		}
		if n == nil {
			path = path[:len(path)-1]
			return true
		}
		path = append(path, n)
		if n == target {
			res = append([]ast.Node{}, path...)
			return false
		}
		return true
	})
	return res
}

type c17OpenFact struct{ Site, Call, Verdict, Why string }

func c17OpenFacts(root string) ([]c17OpenFact, error) {
	p, err := loadSrcPkg(filepath.Join(root, "util"))
	if err != nil {
		return nil, err
	}
	c := &c17Cls{pkg: p, funcs: map[string][]*ast.FuncDecl{}}
	fileOf := map[*ast.FuncDecl]*ast.File{}
	var resolve *ast.FuncDecl
	for _, f := range p.files {
		for _, d := range f.Decls {
			if fd, ok := d.(*ast.FuncDecl); ok && fd.Body != nil {
				c.funcs[fd.Name.Name] = append(c.funcs[fd.Name.Name], fd)
				fileOf[fd] = f
				if fd.Name.Name == "Resolve" && fd.Recv != nil && strings.Contains(c17Text(p.fset, fd.Recv.List[0].Type), "FileImportLocator") {
					resolve = fd
				}
			}
		}
	}
	if resolve == nil {
		return []c17OpenFact{{"util", "-", c17Unknown, "FileImportLocator.Resolve not found"}}, nil
	}
	// qualified name of a call: "<import path>.<Func>", "same:<name>", "builtin:<name>", "method:<name>", ""
	qual := func(fd *ast.FuncDecl, call *ast.CallExpr) string {
		imps := c17Imports(fileOf[fd])
		switch x := unparen(call.Fun).(type) {
		case *ast.Ident:
			if c17Builtins[x.Name] {
				return "builtin:" + x.Name
			}
			if len(c.funcs[x.Name]) > 0 {
				return "same:" + x.Name
			}
			return "local:" + x.Name
		case *ast.SelectorExpr:
			if id, ok := x.X.(*ast.Ident); ok {
				if ip, ok := imps[id.Name]; ok {
					return ip + "." + x.Sel.Name
				}
			}
			if len(c.funcs[x.Sel.Name]) > 0 {
				return "same:" + x.Sel.Name
			}
			return "method:" + x.Sel.Name
		case *ast.ArrayType, *ast.InterfaceType, *ast.MapType:
			return "builtin:conversion"
		}
		return ""
	}
	callsOf := func(fd *ast.FuncDecl) []*ast.CallExpr {
		var cs []*ast.CallExpr
		ast.Inspect(fd.Body, func(n ast.Node) bool {
			if ce, ok := n.(*ast.CallExpr); ok {
				cs = append(cs, ce)
			}
			return true
		})
		return cs
	}
	// functions that contain the containment test (call filepath.Rel directly or through same-package functions)
	testFns := map[string]bool{}
	for changed := true; changed; {
		changed = false
		for name, fds := range c.funcs {
			if testFns[name] {
				continue
			}
			for _, fd := range fds {
				for _, ce := range callsOf(fd) {
					q := qual(fd, ce)
					if q == "path/filepath.Rel" || strings.HasPrefix(q, "same:") && testFns[q[5:]] && q[5:] != name {
						testFns[name] = true
						changed = true
					}
				}
			}
		}
	}
	// reachable functions
	reach := []*ast.FuncDecl{resolve}
	seen := map[*ast.FuncDecl]bool{resolve: true}
	for i := 0; i < len(reach); i++ {
		for _, ce := range callsOf(reach[i]) {
			if q := qual(reach[i], ce); strings.HasPrefix(q, "same:") {
				for _, fd := range c.funcs[q[5:]] {
					if !seen[fd] {
						seen[fd] = true
						reach = append(reach, fd)
					}
				}
			}
		}
	}
	var facts []c17OpenFact
	// is the call a direct file-system call / a call that cannot be classified?
	classify := func(fd *ast.FuncDecl, ce *ast.CallExpr) string { // "fs" | "pure" | "same" | "unknown:<why>"
		q := qual(fd, ce)
		switch {
		case strings.HasPrefix(q, "same:"):
			return "same"
		case strings.HasPrefix(q, "builtin:"), strings.HasPrefix(q, "method:") && c17PureMethods[q[7:]]:
			return "pure"
		case q == "" || strings.HasPrefix(q, "method:") || strings.HasPrefix(q, "local:"):
			return "unknown:call not classified (it may touch the file system)"
		}
		i := strings.LastIndex(q, ".")
		ip, fn := q[:i], q[i+1:]
		switch {
		case ip == "os" && c17OSPure[fn]:
			return "pure"
		case c17FSPackages[ip], ip == "path/filepath" && c17FilepathFS[fn]:
			return "fs"
		case c17PurePackages[ip]:
			return "pure"
		}
		return "unknown:call into " + ip + " not classified (it may touch the file system)"
	}
	// helpers (not containing the test) that touch the file system: which parameter reaches the call, and how
	type helperFS struct {
		param   int    // index of the parameter handed to the file-system call (-1: something else)
		verdict string // configured: the parameter itself; REFUTED: rewritten / another value
		why     string
	}
	helperInfo := map[string][]helperFS{}
	for name, fds := range c.funcs {
		if testFns[name] {
			continue
		}
		for _, fd := range fds {
			var params []string
			if fd.Type.Params != nil {
				for _, f := range fd.Type.Params.List {
					for _, n := range f.Names {
						params = append(params, n.Name)
					}
				}
			}
			for _, ce := range callsOf(fd) {
				if classify(fd, ce) != "fs" {
					continue
				}
				h := helperFS{param: -1, verdict: c17Refuted, why: "the file-system call in " + name + " is not handed a parameter: " + c17Text(p.fset, ce)}
				if len(ce.Args) > 0 {
					arg := unparen(ce.Args[0])
					if id, ok := arg.(*ast.Ident); ok {
						for i, pn := range params {
							if pn == id.Name && len(c17DefsOf(fd, pn)) == 0 {
								h = helperFS{i, c17OK, ""}
							}
						}
					} else if cv, ok := arg.(*ast.CallExpr); ok && c17Rewriters[c17CallName(cv.Fun)] {
						h.why = "the helper " + name + " rewrites the string before the file-system call: " + c17Text(p.fset, ce)
					}
				}
				helperInfo[name] = append(helperInfo[name], h)
			}
		}
	}
	isLocal := func(fd *ast.FuncDecl, name string) bool {
		if c.isParam(fd, name) {
			return true
		}
		local := false
		ast.Inspect(fd.Body, func(n ast.Node) bool {
			switch st := n.(type) {
			case *ast.AssignStmt:
				if st.Tok == token.DEFINE {
					for _, l := range st.Lhs {
						if id, ok := l.(*ast.Ident); ok && id.Name == name {
							local = true
						}
					}
				}
			case *ast.ValueSpec:
				for _, nm := range st.Names {
					if nm.Name == name {
						local = true
					}
				}
			}
			return !local
		})
		return local
	}
	for _, fd := range reach {
		site := "util:" + funcName(p.name, fd)
		// the containment test as seen from fd
		var test *ast.CallExpr
		for _, ce := range callsOf(fd) {
			q := qual(fd, ce)
			if q == "path/filepath.Rel" || strings.HasPrefix(q, "same:") && testFns[q[5:]] && q[5:] != fd.Name.Name {
				if test == nil || ce.Pos() < test.Pos() {
					test = ce
				}
			}
		}
		for _, ce := range callsOf(fd) {
			text := c17Text(p.fset, ce)
			cl := classify(fd, ce)
			var argExpr ast.Expr
			switch {
			case cl == "pure":
				continue
			case strings.HasPrefix(cl, "unknown:"):
				facts = append(facts, c17OpenFact{site, text, c17Unknown, cl[8:]})
				continue
			case cl == "same":
				name := qual(fd, ce)[5:]
				infos := helperInfo[name]
				if len(infos) == 0 || testFns[name] {
					continue
				}
				if fd != resolve && !testFns[fd.Name.Name] {
					continue // reported at the call site in the function that holds the test
				}
				bad := false
				for _, h := range infos {
					if h.verdict != c17OK || h.param >= len(ce.Args) {
						facts = append(facts, c17OpenFact{site, text, c17Refuted, h.why})
						bad = true
					} else {
						argExpr = ce.Args[h.param]
					}
				}
				if bad || argExpr == nil {
					continue
				}
			default: // a direct file-system call
				if fd != resolve && !testFns[fd.Name.Name] {
					if len(helperInfo[fd.Name.Name]) == 0 {
						facts = append(facts, c17OpenFact{site, text, c17Unknown, "file-system call in a helper that is not followed"})
					}
					continue
				}
				if len(ce.Args) == 0 {
					facts = append(facts, c17OpenFact{site, text, c17Unknown, "file-system call without an argument"})
					continue
				}
				argExpr = ce.Args[0]
			}
			if test == nil {
				facts = append(facts, c17OpenFact{site, text, c17Unknown, "no containment test found in this function"})
				continue
			}
			if ce.Pos() < test.Pos() {
				facts = append(facts, c17OpenFact{site, text, c17Refuted, "file system touched BEFORE the containment test " + c17Text(p.fset, test)})
				continue
			}
			// the variables holding the test's results, and the values given to it
			results := map[string]bool{}
			tested := map[string]bool{}
			for _, a := range test.Args {
				if id, ok := unparen(a).(*ast.Ident); ok {
					tested[id.Name] = true
				}
			}
			var testStmt ast.Node
			ast.Inspect(fd.Body, func(n ast.Node) bool {
				if as, ok := n.(*ast.AssignStmt); ok && len(as.Rhs) == 1 && unparen(as.Rhs[0]) == ast.Expr(test) {
					testStmt = as
					for _, l := range as.Lhs {
						if id, ok := l.(*ast.Ident); ok && id.Name != "_" {
							results[id.Name] = true
						}
					}
				}
				return true
			})
			guarded := false
			path := c17PathTo(fd.Body, ce)
			for i, n := range path {
				switch st := n.(type) {
				case *ast.IfStmt:
					if c17Mentions(st.Cond, results) {
						guarded = true
					}
				case *ast.SwitchStmt:
					if st.Tag == nil {
						for _, cc := range st.Body.List {
							for _, e := range cc.(*ast.CaseClause).List {
								if c17Mentions(e, results) {
									guarded = true
								}
							}
						}
					}
				case *ast.BlockStmt:
					if i+1 < len(path) {
						for _, stm := range st.List {
							if stm.End() > path[i+1].Pos() {
								break
							}
							if is, ok := stm.(*ast.IfStmt); ok && c17Mentions(is.Cond, results) && len(is.Body.List) > 0 {
								if _, ok := is.Body.List[len(is.Body.List)-1].(*ast.ReturnStmt); ok {
									guarded = true
								}
							}
						}
					}
				}
			}
			if len(results) == 0 || !guarded {
				facts = append(facts, c17OpenFact{site, text, c17Unknown, "after the test, but no if / switch / early return on its results was recognised around the call"})
				continue
			}
			arg := unparen(argExpr)
			for {
				if cv, ok := arg.(*ast.CallExpr); ok && len(cv.Args) == 1 && c17CallName(cv.Fun) == "string" {
					arg = unparen(cv.Args[0])
					continue
				}
				break
			}
			switch a := arg.(type) {
			case *ast.Ident:
				if !isLocal(fd, a.Name) {
					facts = append(facts, c17OpenFact{site, text, c17Refuted, "the value handed to the file system lives in " + a.Name + ", which is not a local variable of " + fd.Name.Name + ": it is shared between test and open (other goroutines, other calls)"})
					continue
				}
				if !tested[a.Name] && !results[a.Name] {
					facts = append(facts, c17OpenFact{site, text, c17Refuted, "the file system is handed " + a.Name + ", which is not the value given to (or returned by) the containment test"})
					continue
				}
				verdict, why := c17OK, ""
				ast.Inspect(fd.Body, func(n ast.Node) bool {
					as, ok := n.(*ast.AssignStmt)
					if !ok || as == testStmt || as.Pos() < test.Pos() || as.Pos() > ce.Pos() {
						return true
					}
					for i, l := range as.Lhs {
						if id, ok := l.(*ast.Ident); ok && id.Name == a.Name {
							verdict, why = c17Unknown, "the tested variable is assigned between test and open: "+c17Text(p.fset, as)
							if len(as.Rhs) == len(as.Lhs) {
								if cv, ok := unparen(as.Rhs[i]).(*ast.CallExpr); ok && c17Rewriters[c17CallName(cv.Fun)] {
									verdict = c17Refuted
								}
							}
						}
					}
					return true
				})
				facts = append(facts, c17OpenFact{site, text, verdict, why})
			case *ast.CallExpr:
				if c17Rewriters[c17CallName(a.Fun)] {
					facts = append(facts, c17OpenFact{site, text, c17Refuted, "the opened string is rewritten after the test: " + c17Text(p.fset, a)})
				} else {
					facts = append(facts, c17OpenFact{site, text, c17Unknown, "the argument is the result of a call: " + c17Text(p.fset, a)})
				}
			case *ast.SelectorExpr:
				facts = append(facts, c17OpenFact{site, text, c17Refuted, "the value handed to the file system is the field / package variable " + c17Text(p.fset, a) + ", not a local holding the tested value"})
			default:
				facts = append(facts, c17OpenFact{site, text, c17Refuted, "the file system is handed " + c17Text(p.fset, arg) + ", which is put together apart from the tested value"})
			}
		}
	}
	// polarity of the test's boolean result: an error branch must be taken when it is FALSE, an open when it is TRUE
	isFS := func(fd *ast.FuncDecl, ce *ast.CallExpr) bool {
		q := qual(fd, ce)
		i := strings.LastIndex(q, ".")
		if i < 0 || strings.Contains(q, ":") {
			return false
		}
		ip, fn := q[:i], q[i+1:]
		return c17FSPackages[ip] && !(ip == "os" && c17OSPure[fn]) || ip == "path/filepath" && c17FilepathFS[fn]
	}
	containsFS := func(fd *ast.FuncDecl, n ast.Node) bool {
		r := false
		ast.Inspect(n, func(m ast.Node) bool {
			if ce, ok := m.(*ast.CallExpr); ok {
				if isFS(fd, ce) {
					r = true
				} else if q := qual(fd, ce); strings.HasPrefix(q, "same:") && len(helperInfo[q[5:]]) > 0 {
					r = true // a helper that touches the file system
				}
			}
			return !r
		})
		return r
	}
	errorish := func(fd *ast.FuncDecl, n ast.Node) bool {
		r := false
		ast.Inspect(n, func(m ast.Node) bool {
			if ce, ok := m.(*ast.CallExpr); ok {
				if q := qual(fd, ce); q == "fmt.Errorf" || q == "errors.New" {
					r = true
				}
				if id, ok := unparen(ce.Fun).(*ast.Ident); ok {
					for _, cand := range c.funcs[id.Name] {
						if cand.Type.Results != nil && len(cand.Type.Results.List) == 1 {
							if t, ok := cand.Type.Results.List[0].Type.(*ast.Ident); ok && t.Name == "error" {
								r = true // a same-package function returning only an error
							}
						}
					}
				}
			}
			return !r
		})
		return r
	}
	var polarity func(e ast.Expr, b string, neg bool) int // 0 not mentioned, +1 plain, -1 negated, 2 both
	polarity = func(e ast.Expr, b string, neg bool) int {
		merge := func(x, y int) int {
			switch {
			case x == 0:
				return y
			case y == 0 || x == y:
				return x
			}
			return 2
		}
		switch x := unparen(e).(type) {
		case *ast.Ident:
			if x.Name == b {
				if neg {
					return -1
				}
				return 1
			}
		case *ast.UnaryExpr:
			if x.Op == token.NOT {
				return polarity(x.X, b, !neg)
			}
		case *ast.BinaryExpr:
			if x.Op == token.LAND || x.Op == token.LOR {
				return merge(polarity(x.X, b, neg), polarity(x.Y, b, neg))
			}
			if x.Op == token.EQL || x.Op == token.NEQ {
				for _, pr := range [][2]ast.Expr{{x.X, x.Y}, {x.Y, x.X}} {
					if id, ok := unparen(pr[0]).(*ast.Ident); ok && id.Name == b {
						if lit, ok := unparen(pr[1]).(*ast.Ident); ok && (lit.Name == "true" || lit.Name == "false") {
							flip := (lit.Name == "false") != (x.Op == token.NEQ)
							return polarity(id, b, neg != flip)
						}
					}
				}
			}
		}
		return 0
	}
	polFns := append([]*ast.FuncDecl{}, reach...)
	for _, fd := range polFns {
		site := "util:" + funcName(p.name, fd)
		ast.Inspect(fd.Body, func(n ast.Node) bool {
			as, ok := n.(*ast.AssignStmt)
			if !ok || len(as.Rhs) != 1 || len(as.Lhs) < 2 {
				return true
			}
			call, ok := unparen(as.Rhs[0]).(*ast.CallExpr)
			if !ok {
				return true
			}
			q := qual(fd, call)
			if !strings.HasPrefix(q, "same:") || !testFns[q[5:]] {
				return true
			}
			bid, ok := as.Lhs[0].(*ast.Ident)
			if !ok || bid.Name == "_" {
				return true
			}
			// only a boolean first result has a polarity (a helper returning the tested path has none)
			isBool := false
			for _, cand := range c.funcs[q[5:]] {
				if cand.Type.Results != nil && len(cand.Type.Results.List) > 0 {
					if id, ok := cand.Type.Results.List[0].Type.(*ast.Ident); ok && id.Name == "bool" {
						isBool = true
					}
				}
			}
			if !isBool {
				return true
			}
			b := bid.Name
			judge := func(cond ast.Expr, body ast.Node, els ast.Node) {
				switch polarity(cond, b, false) {
				case 1:
					if errorish(fd, body) && !containsFS(fd, body) {
						facts = append(facts, c17OpenFact{site, c17Text(p.fset, cond), c17Refuted, "the error branch is taken when the containment test ACCEPTS (" + b + " is true)"})
					}
					if els != nil && containsFS(fd, els) {
						facts = append(facts, c17OpenFact{site, c17Text(p.fset, cond), c17Refuted, "the file is opened in the branch where the containment test REJECTS"})
					}
				case -1:
					if containsFS(fd, body) {
						facts = append(facts, c17OpenFact{site, c17Text(p.fset, cond), c17Refuted, "the file is opened when the containment test REJECTS (" + b + " is false)"})
					}
				}
			}
			ast.Inspect(fd.Body, func(m ast.Node) bool {
				switch st := m.(type) {
				case *ast.IfStmt:
					var els ast.Node
					if st.Else != nil {
						els = st.Else
					}
					judge(st.Cond, st.Body, els)
				case *ast.SwitchStmt:
					if st.Tag == nil {
						for _, cc := range st.Body.List {
							cl := cc.(*ast.CaseClause)
							for _, e := range cl.List {
								judge(e, &ast.BlockStmt{List: cl.Body}, nil)
							}
						}
					}
				}
				return true
			})
			return true
		})
	}
	if other, err := c17OtherAccessFacts(root); err == nil {
		facts = append(facts, other...)
	} else {
		facts = append(facts, c17OpenFact{"interpreter / cli/tool", "-", c17Unknown, "scan failed: " + err.Error()})
	}
	hasOpen := false
	for _, f := range facts {
		if f.Verdict == c17OK {
			hasOpen = true
		}
	}
	if !hasOpen && len(facts) == 0 {
		facts = append(facts, c17OpenFact{"util:" + funcName(p.name, resolve), "-", c17Unknown, "no file-system call found at all"})
	}
	sort.SliceStable(facts, func(i, j int) bool { return facts[i].Site+facts[i].Call < facts[j].Site+facts[j].Call })
	return facts, nil
}

// c17DirectFS reports whether the call is a direct call of a file-system function (qualified through the file's imports).
func c17DirectFS(imps map[string]string, ce *ast.CallExpr) bool {
	sel, ok := unparen(ce.Fun).(*ast.SelectorExpr)
	if !ok {
		return false
	}
	id, ok := sel.X.(*ast.Ident)
	if !ok {
		return false
	}
	ip, ok := imps[id.Name]
	if !ok {
		return false
	}
	return c17FSPackages[ip] && !(ip == "os" && c17OSPure[sel.Sel.Name]) || ip == "path/filepath" && c17FilepathFS[sel.Sel.Name]
}

// c17OtherAccessFacts: file-system calls of the code AROUND the locator.
//
//	interpreter: any reachable from importRuntime.Eval (through methods of importRuntime and functions they call by name)
//	             = REFUTED: the import statement itself must not touch the file system, only the locator does;
//	cli/tool:    those of CLIInterpreter's methods: handed the entry file / log file / the plugin configuration below
//	             the root directory = configured (named by the user, not an import); anything else unknown.
func c17OtherAccessFacts(root string) ([]c17OpenFact, error) {
	var facts []c17OpenFact
	// interpreter
	p, err := loadSrcPkg(filepath.Join(root, "interpreter"))
	if err != nil {
		return nil, err
	}
	funcs := map[string][]*ast.FuncDecl{}
	fileOf := map[*ast.FuncDecl]*ast.File{}
	var eval *ast.FuncDecl
	for _, f := range p.files {
		for _, d := range f.Decls {
			if fd, ok := d.(*ast.FuncDecl); ok && fd.Body != nil {
				funcs[fd.Name.Name] = append(funcs[fd.Name.Name], fd)
				fileOf[fd] = f
				if fd.Name.Name == "Eval" && fd.Recv != nil && strings.Contains(c17Text(p.fset, fd.Recv.List[0].Type), "importRuntime") {
					eval = fd
				}
			}
		}
	}
	if eval == nil {
		facts = append(facts, c17OpenFact{"interpreter", "-", c17Unknown, "importRuntime.Eval not found"})
	} else {
		reach := []*ast.FuncDecl{eval}
		seen := map[*ast.FuncDecl]bool{eval: true}
		for i := 0; i < len(reach) && i < 20; i++ {
			ast.Inspect(reach[i].Body, func(n ast.Node) bool {
				ce, ok := n.(*ast.CallExpr)
				if !ok {
					return true
				}
				name := ""
				switch x := unparen(ce.Fun).(type) {
				case *ast.Ident:
					name = x.Name
				case *ast.SelectorExpr:
					if id, ok := x.X.(*ast.Ident); ok && reach[i].Recv != nil && len(reach[i].Recv.List[0].Names) > 0 && id.Name == reach[i].Recv.List[0].Names[0].Name {
						name = x.Sel.Name
					}
				}
				for _, fd := range funcs[name] {
					if (fd.Recv == nil || strings.Contains(c17Text(p.fset, fd.Recv.List[0].Type), "importRuntime")) && !seen[fd] && fd.Name.Name != "Eval" {
						seen[fd] = true
						reach = append(reach, fd)
					}
				}
				return true
			})
		}
		for _, fd := range reach {
			imps := c17Imports(fileOf[fd])
			ast.Inspect(fd.Body, func(n ast.Node) bool {
				if ce, ok := n.(*ast.CallExpr); ok && c17DirectFS(imps, ce) {
					facts = append(facts, c17OpenFact{"interpreter:" + funcName(p.name, fd), c17Text(p.fset, ce), c17Refuted,
						"the import statement touches the file system itself, outside the configured locator"})
				}
				return true
			})
		}
	}
	// cli/tool
	tp, err := loadSrcPkg(filepath.Join(root, "cli/tool"))
	if err != nil {
		return nil, err
	}
	for _, f := range tp.files {
		imps := c17Imports(f)
		for _, d := range f.Decls {
			fd, ok := d.(*ast.FuncDecl)
			if !ok || fd.Body == nil || fd.Recv == nil || !strings.Contains(c17Text(tp.fset, fd.Recv.List[0].Type), "CLIInterpreter") {
				continue
			}
			ast.Inspect(fd.Body, func(n ast.Node) bool {
				ce, ok := n.(*ast.CallExpr)
				if !ok || !c17DirectFS(imps, ce) || len(ce.Args) == 0 {
					return true
				}
				arg := c17Text(tp.fset, ce.Args[0])
				v, why := c17Unknown, "a file access of the command line tool whose argument is not recognised"
				switch {
				case strings.Contains(arg, "EntryFile") || strings.Contains(arg, "LogFile") || arg == "confFile" || strings.Contains(arg, ".Dir"):
					v, why = c17OK, "the program's own entry / log / configuration file, named by the user"
				case c17CallName(ce.Fun) == "os.Getwd" || c17CallName(ce.Fun) == "os.Stdout":
					v, why = c17OK, ""
				}
				facts = append(facts, c17OpenFact{"cli/tool:" + funcName(tp.name, fd), c17Text(tp.fset, ce), v, why})
				return true
			})
		}
	}
	return facts, nil
}

type c17ImportFact struct{ Site, Receiver, RecvVerdict, RecvWhy, Arg, ArgVerdict, ArgWhy string }

// defsOf lists every expression assigned to the local variable name in fd (nil entry: part of a multi-valued assignment).
func c17DefsOf(fd *ast.FuncDecl, name string) []ast.Expr {
	var defs []ast.Expr
	ast.Inspect(fd.Body, func(n ast.Node) bool {
		switch s := n.(type) {
		case *ast.AssignStmt:
			for i, l := range s.Lhs {
				if id, ok := l.(*ast.Ident); ok && id.Name == name {
					if len(s.Rhs) == len(s.Lhs) {
						defs = append(defs, s.Rhs[i])
					} else if len(s.Rhs) == 1 {
						defs = append(defs, s.Rhs[0])
					}
				}
			}
		case *ast.ValueSpec:
			for i, nm := range s.Names {
				if nm.Name == name && i < len(s.Values) {
					defs = append(defs, s.Values[i])
				}
			}
		}
		return true
	})
	return defs
}

func c17ImportFacts(root string) ([]c17ImportFact, error) {
	p, err := loadSrcPkg(filepath.Join(root, "interpreter"))
	if err != nil {
		return nil, err
	}
	c := &c17Cls{pkg: p, funcs: map[string][]*ast.FuncDecl{}}
	var eval *ast.FuncDecl
	for _, f := range p.files {
		for _, d := range f.Decls {
			if fd, ok := d.(*ast.FuncDecl); ok && fd.Body != nil {
				c.funcs[fd.Name.Name] = append(c.funcs[fd.Name.Name], fd)
				if fd.Name.Name == "Eval" && fd.Recv != nil && strings.Contains(c17Text(p.fset, fd.Recv.List[0].Type), "importRuntime") {
					eval = fd
				}
			}
		}
	}
	if eval == nil {
		return []c17ImportFact{{"interpreter", "-", c17Unknown, "importRuntime.Eval not found", "-", c17Unknown, ""}}, nil
	}
	// functions reachable from Eval through methods of importRuntime / plain functions of the package
	reach := []*ast.FuncDecl{eval}
	seen := map[*ast.FuncDecl]bool{eval: true}
	for i := 0; i < len(reach) && i < 12; i++ {
		ast.Inspect(reach[i].Body, func(n ast.Node) bool {
			ce, ok := n.(*ast.CallExpr)
			if !ok {
				return true
			}
			name := ""
			switch x := unparen(ce.Fun).(type) {
			case *ast.Ident:
				name = x.Name
			case *ast.SelectorExpr:
				if id, ok := x.X.(*ast.Ident); ok && reach[i].Recv != nil && len(reach[i].Recv.List[0].Names) > 0 && id.Name == reach[i].Recv.List[0].Names[0].Name {
					name = x.Sel.Name
				}
			}
			for _, fd := range c.funcs[name] {
				if fd.Recv == nil || strings.Contains(c17Text(p.fset, fd.Recv.List[0].Type), "importRuntime") {
					if !seen[fd] && fd.Name.Name != "Eval" {
						seen[fd] = true
						reach = append(reach, fd)
					}
				}
			}
			return true
		})
	}
	var recvCls func(e ast.Expr, fd *ast.FuncDecl, depth int) (string, string)
	recvCls = func(e ast.Expr, fd *ast.FuncDecl, depth int) (string, string) {
		switch x := unparen(e).(type) {
		case *ast.SelectorExpr:
			if x.Sel.Name == "ImportLocator" && strings.HasSuffix(c17Text(p.fset, x.X), "erp") {
				return c17OK, ""
			}
			return c17Unknown, "receiver is the field " + c17Text(p.fset, x)
		case *ast.Ident:
			if c.isParam(fd, x.Name) || depth > 3 {
				return c17Unknown, "receiver " + x.Name + " is handed in"
			}
			defs := c17DefsOf(fd, x.Name)
			if len(defs) == 0 {
				return c17Unknown, "no definition of " + x.Name
			}
			v, w := c17OK, ""
			for _, d := range defs {
				dv, dw := recvCls(d, fd, depth+1)
				if dv == c17Refuted {
					return dv, dw
				}
				if dv != c17OK {
					v, w = dv, dw
				}
			}
			return v, w
		case *ast.UnaryExpr:
			if x.Op == token.AND {
				if cl, ok := x.X.(*ast.CompositeLit); ok {
					return c17Refuted, "receiver may be a locator constructed in place: " + c17Text(p.fset, cl)
				}
			}
		case *ast.CompositeLit:
			return c17Refuted, "receiver may be a locator constructed in place: " + c17Text(p.fset, x)
		case *ast.TypeAssertExpr:
			return recvCls(x.X, fd, depth)
		}
		return c17Unknown, "receiver not followed: " + c17Text(p.fset, e)
	}
	var argCls func(e ast.Expr, fd *ast.FuncDecl, depth int, sprinted bool) (string, string)
	argCls = func(e ast.Expr, fd *ast.FuncDecl, depth int, sprinted bool) (string, string) {
		switch x := unparen(e).(type) {
		case *ast.Ident:
			if depth > 4 {
				return c17Unknown, "too deep"
			}
			if c.isParam(fd, x.Name) {
				return c17Unknown, "argument " + x.Name + " is handed in"
			}
			defs := c17DefsOf(fd, x.Name)
			if len(defs) == 0 {
				return c17Unknown, "no definition of " + x.Name
			}
			v, w := c17OK, ""
			for _, d := range defs {
				dv, dw := argCls(d, fd, depth+1, sprinted)
				if dv == c17Refuted {
					return dv, dw
				}
				if dv != c17OK {
					v, w = dv, dw
				}
			}
			return v, w
		case *ast.CallExpr:
			name := c17CallName(x.Fun)
			text := c17Text(p.fset, x)
			if (name == "fmt.Sprint" && len(x.Args) == 1) || (name == "fmt.Sprintf" && len(x.Args) == 2 && c17Text(p.fset, x.Args[0]) == `"%v"`) {
				return argCls(x.Args[len(x.Args)-1], fd, depth+1, true)
			}
			if strings.Contains(text, "Children[0].Runtime.Eval(") {
				if sprinted {
					return c17OK, ""
				}
				return c17Unknown, "the value of child 0 without fmt.Sprint"
			}
			if c17Rewriters[name] {
				return c17Refuted, "the path handed to Resolve is computed by " + text
			}
			return c17Unknown, "argument computed by " + text
		case *ast.BinaryExpr:
			return c17Refuted, "the path handed to Resolve is put together: " + c17Text(p.fset, x)
		}
		return c17Unknown, "argument not followed: " + c17Text(p.fset, e)
	}
	var facts []c17ImportFact
	for _, fd := range reach {
		ast.Inspect(fd.Body, func(n ast.Node) bool {
			ce, ok := n.(*ast.CallExpr)
			if !ok {
				return true
			}
			sel, ok := unparen(ce.Fun).(*ast.SelectorExpr)
			if !ok || sel.Sel.Name != "Resolve" || len(ce.Args) != 1 {
				return true
			}
			rv, rw := recvCls(sel.X, fd, 0)
			av, aw := argCls(ce.Args[0], fd, 0, false)
			facts = append(facts, c17ImportFact{"interpreter:" + funcName(p.name, fd), c17Text(p.fset, sel.X), rv, rw, c17Text(p.fset, ce.Args[0]), av, aw})
			return true
		})
	}
	if len(facts) == 0 {
		facts = append(facts, c17ImportFact{"interpreter:" + funcName(p.name, eval), "-", c17Unknown, "no Resolve call found from importRuntime.Eval", "-", c17Unknown, ""})
	}
	return facts, nil
}
