package main

// C17 source fact: where does the Root of every util.FileImportLocator come from?
//
//	harness C17 -tool extract <out.lean>
//
// go/ast over cli/tool, interpreter, util (and cli) of the tree under test, outside tests. Every
// composite literal of type FileImportLocator is located; its Root expression is followed through
// local variable definitions, parentheses, dereferences, conversions, string concatenation, lexical
// helpers without an error result and calls of functions / methods of the SAME package (their return
// expressions are classified in turn). The verdict is three-valued:
//
//	configured  the value is read from configuration (field, parameter, process argument, constant),
//	            possibly through transformations that cannot fail, or whose error is looked at
//	REFUTED     the value passes through a call returning (value, error) whose error is assigned to
//	            the blank identifier: on failure the locator is silently rooted somewhere else
//	unknown     anything the extractor cannot follow (never a violation; amplifies the T/J cases)
//
// Local names, statement order, helper extraction and control-flow shape do not matter.

import (
	"bufio"
	"bytes"
	"fmt"
	"go/ast"
	"go/printer"
	"go/token"
	"os"
	"path/filepath"
	"sort"
	"strings"
)

type c17Fact struct {
	Site, Expr, Verdict, Why string
	Identity                 string // is Root the configured value itself? (configured / REFUTED / unknown)
}

const (
	c17OK      = "configured"
	c17Refuted = "REFUTED"
	c17Unknown = "unknown"
)

// functions returning (value, error): discarding the error hides a failed transformation
var c17ErrFuncs = map[string]bool{
	"filepath.EvalSymlinks": true, "filepath.Abs": true, "filepath.Rel": true, "filepath.Glob": true,
	"os.Getwd": true, "os.Readlink": true, "os.UserHomeDir": true, "os.Executable": true, "os.UserCacheDir": true,
	"os.UserConfigDir": true, "os.MkdirTemp": true, "ioutil.TempDir": true, "strconv.Unquote": true,
	"os.ReadFile": true, "ioutil.ReadFile": true, "os.Hostname": true, "url.PathUnescape": true, "url.QueryUnescape": true,
}

// two-valued functions whose second result is NOT an error
var c17TwoValuedNoErr = map[string]bool{
	"strings.Cut": true, "strings.CutPrefix": true, "strings.CutSuffix": true, "os.LookupEnv": true, "filepath.Split": true, "path.Split": true,
}

// single-valued functions that cannot fail (the arguments are classified in turn)
var c17PureFuncs = map[string]bool{
	"filepath.Dir": true, "filepath.Clean": true, "filepath.Join": true, "filepath.Base": true, "filepath.FromSlash": true,
	"filepath.ToSlash": true, "filepath.VolumeName": true, "path.Dir": true, "path.Clean": true, "path.Join": true, "path.Base": true,
	"strings.TrimSpace": true, "strings.TrimSuffix": true, "strings.TrimPrefix": true, "strings.TrimRight": true,
	"strings.TrimLeft": true, "strings.Trim": true, "strings.ReplaceAll": true, "strings.Replace": true, "strings.ToLower": true,
	"os.Getenv": true, "os.ExpandEnv": true, "fmt.Sprint": true, "fmt.Sprintf": true, "string": true,
}

type c17Cls struct {
	pkg   *srcPkg
	funcs map[string][]*ast.FuncDecl // name (function or method name) -> declarations in the package
	notes []string                   // remarks on a root that is established (shown in the fact)
}

func (c *c17Cls) note(s string) {
	for _, n := range c.notes {
		if n == s {
			return
		}
	}
	c.notes = append(c.notes, s)
}

// functions that return a different string than they are given (an opened / configured path that went
// through one of them is not the tested / configured one)
var c17Rewriters = map[string]bool{
	"os.ExpandEnv": true, "os.Expand": true, "strings.Replace": true, "strings.ReplaceAll": true, "strings.TrimSpace": true,
	"strings.Trim": true, "strings.TrimLeft": true, "strings.TrimRight": true, "strings.TrimPrefix": true, "strings.TrimSuffix": true,
	"strings.ToLower": true, "strings.ToUpper": true, "strings.Map": true, "strings.Title": true, "url.PathUnescape": true,
	"url.QueryUnescape": true, "filepath.EvalSymlinks": true, "filepath.Abs": true, "filepath.Join": true, "path.Join": true,
	"filepath.Dir": true, "filepath.Base": true, "path.Dir": true, "path.Base": true, "strings.TrimFunc": true, "strings.NewReplacer": true,
	"filepath.FromSlash": true, "filepath.ToSlash": true, "strings.Fields": true, "strings.Split": true, "strings.SplitN": true,
}

// fieldWrites classifies every value written to a field named fld anywhere in the package.
func (c *c17Cls) fieldWrites(fld string, depth int, seen map[string]bool) ([2]string, bool) {
	if seen["field/"+fld] {
		return [2]string{c17OK, ""}, true
	}
	seen["field/"+fld] = true
	var vs [][2]string
	for _, fds := range c.funcs {
		for _, fd := range fds {
			if fd.Body == nil {
				continue
			}
			ast.Inspect(fd.Body, func(n ast.Node) bool {
				as, ok := n.(*ast.AssignStmt)
				if !ok {
					return true
				}
				for i, l := range as.Lhs {
					sel, ok := l.(*ast.SelectorExpr)
					if !ok || sel.Sel.Name != fld {
						continue
					}
					if len(as.Rhs) == len(as.Lhs) {
						vs = append(vs, c.classify(as.Rhs[i], fd, depth+1, seen))
					} else {
						vs = append(vs, [2]string{c17Unknown, "write to the field " + fld + " not followed: " + c17Text(c.pkg.fset, as)})
					}
				}
				return true
			})
		}
	}
	if len(vs) == 0 {
		return [2]string{c17OK, ""}, false
	}
	return c17Combine(vs...), true
}

func c17Combine(vs ...[2]string) [2]string {
	res := [2]string{c17OK, ""}
	for _, v := range vs {
		if v[0] == c17Refuted {
			return v
		}
		if v[0] == c17Unknown && res[0] == c17OK {
			res = v
		}
	}
	return res
}

func c17Text(fset *token.FileSet, n ast.Node) string {
	var b bytes.Buffer
	printer.Fprint(&b, fset, n)
	return strings.Join(strings.Fields(b.String()), " ")
}

func c17CallName(e ast.Expr) string {
	switch x := unparen(e).(type) {
	case *ast.Ident:
		return x.Name
	case *ast.SelectorExpr:
		if id, ok := x.X.(*ast.Ident); ok {
			return id.Name + "." + x.Sel.Name
		}
		return "." + x.Sel.Name
	}
	return ""
}

// mentioned reports whether the identifier name occurs in an if condition, switch tag or return of fn.
func c17ErrLookedAt(fn *ast.FuncDecl, name string) bool {
	found := false
	has := func(n ast.Node) bool {
		r := false
		if n == nil {
			return false
		}
		ast.Inspect(n, func(m ast.Node) bool {
			if id, ok := m.(*ast.Ident); ok && id.Name == name {
				r = true
			}
			return !r
		})
		return r
	}
	ast.Inspect(fn.Body, func(n ast.Node) bool {
		switch s := n.(type) {
		case *ast.IfStmt:
			if has(s.Cond) {
				found = true
			}
		case *ast.SwitchStmt:
			if s.Tag != nil && has(s.Tag) {
				found = true
			}
		case *ast.ReturnStmt:
			for _, r := range s.Results {
				if has(r) {
					found = true
				}
			}
		case *ast.CallExpr: // handed to an assertion / logging helper
			for _, a := range s.Args {
				if id, ok := a.(*ast.Ident); ok && id.Name == name {
					found = true
				}
			}
		}
		return !found
	})
	return found
}

func (c *c17Cls) isParam(fn *ast.FuncDecl, name string) bool {
	lists := []*ast.FieldList{fn.Recv, fn.Type.Params}
	for _, l := range lists {
		if l == nil {
			continue
		}
		for _, f := range l.List {
			for _, n := range f.Names {
				if n.Name == name {
					return true
				}
			}
		}
	}
	return false
}

// classify follows the expression e inside fn.
func (c *c17Cls) classify(e ast.Expr, fn *ast.FuncDecl, depth int, seen map[string]bool) [2]string {
	fset := c.pkg.fset
	if depth > 6 {
		return [2]string{c17Unknown, "too deep: " + c17Text(fset, e)}
	}
	switch x := e.(type) {
	case *ast.BasicLit:
		return [2]string{c17OK, ""}
	case *ast.ParenExpr:
		return c.classify(x.X, fn, depth, seen)
	case *ast.StarExpr:
		return c.classify(x.X, fn, depth, seen)
	case *ast.UnaryExpr:
		return c.classify(x.X, fn, depth, seen)
	case *ast.SelectorExpr: // field of a configuration object (or a qualified constant / variable)
		if id, ok := x.X.(*ast.Ident); ok && c.isImportName(fn, id.Name) {
			return [2]string{c17OK, ""} // os.Args, a constant of another package
		}
		if x.Sel.Name == "Root" {
			return [2]string{c17OK, ""} // another locator's root
		}
		// what does the package itself store in that field? (nothing: it is set by the embedding program)
		v, _ := c.fieldWrites(x.Sel.Name, depth, seen)
		return v
	case *ast.IndexExpr: // os.Args[0], a configuration map / slice
		return c.classify(x.X, fn, depth, seen)
	case *ast.BinaryExpr:
		return c17Combine(c.classify(x.X, fn, depth, seen), c.classify(x.Y, fn, depth, seen))
	case *ast.Ident:
		if x.Name == "nil" || x.Name == "true" || x.Name == "false" {
			return [2]string{c17OK, ""}
		}
		if c.isParam(fn, x.Name) {
			return [2]string{c17OK, ""}
		}
		if seen[fn.Name.Name+"/"+x.Name] {
			return [2]string{c17OK, ""}
		}
		seen[fn.Name.Name+"/"+x.Name] = true
		return c.classifyLocal(x.Name, fn, depth, seen)
	case *ast.CallExpr:
		name := c17CallName(x.Fun)
		if c17PureFuncs[name] {
			var vs [][2]string
			for _, a := range x.Args {
				vs = append(vs, c.classify(a, fn, depth+1, seen))
			}
			return c17Combine(vs...)
		}
		if (name == "flag.String" || strings.HasSuffix(name, ".String")) && len(x.Args) == 3 {
			// a command line flag: the value given by the user, or the default (second argument)
			return c.classify(x.Args[1], fn, depth+1, seen)
		}
		if c17ErrFuncs[name] || c17TwoValuedNoErr[name] {
			return [2]string{c17Unknown, "multi-valued call in a single-value context: " + c17Text(fset, x)}
		}
		// same-package function or method: classify what it returns (first result)
		short := name
		if i := strings.LastIndex(short, "."); i >= 0 {
			short = short[i+1:]
		}
		if fds := c.funcs[short]; len(fds) > 0 && (!strings.Contains(name, ".") || !c.isImportName(fn, strings.Split(name, ".")[0])) {
			var vs [][2]string
			for _, fd := range fds {
				vs = append(vs, c.classifyReturns(fd, 0, depth+1, seen))
			}
			return c17Combine(vs...)
		}
		return [2]string{c17Unknown, "call not followed: " + c17Text(fset, x)}
	}
	return [2]string{c17Unknown, "expression not followed: " + c17Text(fset, e)}
}

func (c *c17Cls) isImportName(fn *ast.FuncDecl, name string) bool {
	for _, f := range c.pkg.files {
		if f.Pos() <= fn.Pos() && fn.End() <= f.End() {
			_, ok := fileImports(f)[name]
			return ok
		}
	}
	return false
}

// classifyReturns classifies result number idx of every return statement of fd.
func (c *c17Cls) classifyReturns(fd *ast.FuncDecl, idx int, depth int, seen map[string]bool) [2]string {
	if fd.Body == nil {
		return [2]string{c17Unknown, "no body: " + fd.Name.Name}
	}
	var vs [][2]string
	ast.Inspect(fd.Body, func(n ast.Node) bool {
		if _, ok := n.(*ast.FuncLit); ok {
			return false
		}
		if r, ok := n.(*ast.ReturnStmt); ok {
			if idx < len(r.Results) && (len(r.Results) > 1 || idx == 0) {
				vs = append(vs, c.classify(r.Results[idx], fd, depth, seen))
			} else if len(r.Results) == 0 && fd.Type.Results != nil { // named results
				k := 0
				for _, f := range fd.Type.Results.List {
					for _, nm := range f.Names {
						if k == idx {
							vs = append(vs, c.classifyLocal(nm.Name, fd, depth, seen))
						}
						k++
					}
				}
			} else {
				vs = append(vs, [2]string{c17Unknown, "return of a multi-valued call in " + fd.Name.Name})
			}
		}
		return true
	})
	if len(vs) == 0 {
		return [2]string{c17Unknown, "no return found in " + fd.Name.Name}
	}
	return c17Combine(vs...)
}

// classifyLocal classifies every definition / assignment of the local variable name in fn.
func (c *c17Cls) classifyLocal(name string, fn *ast.FuncDecl, depth int, seen map[string]bool) [2]string {
	fset := c.pkg.fset
	var vs [][2]string
	one := func(lhs []ast.Expr, rhs []ast.Expr, node ast.Node) {
		pos := -1
		for i, l := range lhs {
			if id, ok := l.(*ast.Ident); ok && id.Name == name {
				pos = i
			}
		}
		if pos < 0 {
			return
		}
		if len(rhs) == len(lhs) {
			vs = append(vs, c.classify(rhs[pos], fn, depth+1, seen))
			return
		}
		if len(rhs) != 1 {
			vs = append(vs, [2]string{c17Unknown, "assignment not followed: " + c17Text(fset, node)})
			return
		}
		call, ok := unparen(rhs[0]).(*ast.CallExpr)
		if !ok { // v, ok := m[k] / x.(T) / <-ch
			vs = append(vs, [2]string{c17Unknown, "assignment not followed: " + c17Text(fset, node)})
			return
		}
		cname := c17CallName(call.Fun)
		last, _ := lhs[len(lhs)-1].(*ast.Ident)
		returnsErr, known := false, false
		if c17ErrFuncs[cname] {
			returnsErr, known = true, true
		} else if c17TwoValuedNoErr[cname] {
			known = true
		} else {
			short := cname
			if i := strings.LastIndex(short, "."); i >= 0 {
				short = short[i+1:]
			}
			if fds := c.funcs[short]; len(fds) > 0 && (!strings.Contains(cname, ".") || !c.isImportName(fn, strings.Split(cname, ".")[0])) {
				known = true
				for _, fd := range fds {
					if fd.Type.Results != nil && len(fd.Type.Results.List) > 0 {
						lt := fd.Type.Results.List[len(fd.Type.Results.List)-1].Type
						if id, ok := lt.(*ast.Ident); ok && id.Name == "error" {
							returnsErr = true
						}
					}
					vs = append(vs, c.classifyReturns(fd, pos, depth+1, seen))
				}
			}
		}
		var args [][2]string
		for _, a := range call.Args {
			args = append(args, c.classify(a, fn, depth+1, seen))
		}
		vs = append(vs, c17Combine(args...))
		switch {
		case cname == "os.Getwd" && last != nil && last.Name == "_" && pos != len(lhs)-1:
			// a failing Getwd yields "": the locator is then rooted at "" = the process working directory, the
			// very directory the value stands for (relative instead of absolute) - no other directory is reached
			c.note("default through `" + c17Text(fset, node) + "`: if Getwd fails the root is \"\" which denotes the same working directory")
		case returnsErr && last != nil && last.Name == "_" && pos != len(lhs)-1:
			vs = append(vs, [2]string{c17Refuted, "error of the transformation is discarded: " + c17Text(fset, node)})
		case returnsErr && last != nil && pos != len(lhs)-1:
			if !c17ErrLookedAt(fn, last.Name) {
				vs = append(vs, [2]string{c17Unknown, "error " + last.Name + " is not visibly checked: " + c17Text(fset, node)})
			}
		case !known:
			vs = append(vs, [2]string{c17Unknown, "multi-valued call not followed: " + c17Text(fset, node)})
		}
	}
	ast.Inspect(fn.Body, func(n ast.Node) bool {
		switch s := n.(type) {
		case *ast.AssignStmt:
			one(s.Lhs, s.Rhs, s)
		case *ast.ValueSpec:
			var lhs []ast.Expr
			for _, nm := range s.Names {
				lhs = append(lhs, nm)
			}
			if len(s.Values) > 0 {
				one(lhs, s.Values, s)
			} else {
				for _, nm := range s.Names {
					if nm.Name == name { // zero value; assignments follow
						vs = append(vs, [2]string{c17OK, ""})
					}
				}
			}
		case *ast.RangeStmt:
			for _, l := range []ast.Expr{s.Key, s.Value} {
				if id, ok := l.(*ast.Ident); ok && id.Name == name {
					vs = append(vs, c.classify(s.X, fn, depth+1, seen))
				}
			}
		}
		return true
	})
	if len(vs) == 0 {
		if c.pkg.vars[name] {
			return [2]string{c17Unknown, "package-level variable " + name}
		}
		return [2]string{c17Unknown, "no definition found for " + name}
	}
	return c17Combine(vs...)
}

// identity: is the expression the configured value itself (a pure read), as opposed to something computed from it?
func (c *c17Cls) identity(e ast.Expr, fn *ast.FuncDecl, depth int) string {
	if depth > 4 {
		return c17Unknown
	}
	switch x := unparen(e).(type) {
	case *ast.StarExpr:
		return c.identity(x.X, fn, depth)
	case *ast.SelectorExpr:
		return c17OK
	case *ast.Ident:
		if c.isParam(fn, x.Name) {
			return c17OK
		}
		var defs []ast.Expr
		multi := false
		ast.Inspect(fn.Body, func(n ast.Node) bool {
			if as, ok := n.(*ast.AssignStmt); ok {
				for i, l := range as.Lhs {
					if id, ok := l.(*ast.Ident); ok && id.Name == x.Name {
						if len(as.Rhs) == len(as.Lhs) {
							defs = append(defs, as.Rhs[i])
						} else if len(as.Rhs) == 1 {
							defs = append(defs, as.Rhs[0])
							multi = true
						}
					}
				}
			}
			return true
		})
		if len(defs) == 0 {
			return c17Unknown
		}
		res := c17OK
		for _, d := range defs {
			v := c.identity(d, fn, depth+1)
			if v == c17Refuted {
				return v
			}
			if v != c17OK || multi && v == c17OK {
				res = c17Unknown
			}
		}
		return res
	case *ast.CallExpr:
		name := c17CallName(x.Fun)
		if c17Rewriters[name] || c17ErrFuncs[name] {
			return c17Refuted
		}
		if name == "string" && len(x.Args) == 1 {
			return c.identity(x.Args[0], fn, depth)
		}
		return c17Unknown
	}
	return c17Unknown
}

func c17ExtractFacts(root string) ([]c17Fact, error) {
	var facts []c17Fact
	for _, dir := range []string{"cli", "cli/tool", "interpreter", "util"} {
		p, err := loadSrcPkg(filepath.Join(root, dir))
		if err != nil {
			return nil, err
		}
		c := &c17Cls{pkg: p, funcs: map[string][]*ast.FuncDecl{}}
		for _, f := range p.files {
			for _, d := range f.Decls {
				if fd, ok := d.(*ast.FuncDecl); ok {
					c.funcs[fd.Name.Name] = append(c.funcs[fd.Name.Name], fd)
				}
			}
		}
		for _, f := range p.files {
			for _, d := range f.Decls {
				fd, ok := d.(*ast.FuncDecl)
				if !ok || fd.Body == nil {
					continue
				}
				ast.Inspect(fd.Body, func(n ast.Node) bool {
					cl, ok := n.(*ast.CompositeLit)
					if !ok || cl.Type == nil {
						return true
					}
					tn := ""
					switch t := cl.Type.(type) {
					case *ast.Ident:
						tn = t.Name
					case *ast.SelectorExpr:
						tn = t.Sel.Name
					}
					if tn != "FileImportLocator" {
						return true
					}
					var rootExpr ast.Expr
					for i, el := range cl.Elts {
						if kv, ok := el.(*ast.KeyValueExpr); ok {
							if id, ok := kv.Key.(*ast.Ident); ok && id.Name == "Root" {
								rootExpr = kv.Value
							}
						} else if i == 0 {
							rootExpr = el
						}
					}
					site := dir + ":" + funcName(p.name, fd)
					if rootExpr == nil {
						facts = append(facts, c17Fact{site, `""`, c17OK, "no Root given: the empty string", c17OK})
						return true
					}
					c.notes = nil
					v := c.classify(rootExpr, fd, 0, map[string]bool{})
					if v[0] == c17OK && len(c.notes) > 0 {
						v[1] = strings.Join(c.notes, "; ")
					}
					if _, plain := unparen(rootExpr).(*ast.SelectorExpr); !plain && v[0] == c17OK && strings.Contains(c17Text(p.fset, rootExpr), ".Root") {
						// a locator derived from another locator's root plus further path material
						v = [2]string{c17Unknown, "derived from another locator's Root; nothing visible checks the result against it"}
					}
					facts = append(facts, c17Fact{site, c17Text(p.fset, rootExpr), v[0], v[1], c.identity(rootExpr, fd, 0)})
					return true
				})
			}
		}
	}
	sort.SliceStable(facts, func(i, j int) bool { return facts[i].Site+facts[i].Expr < facts[j].Site+facts[j].Expr })
	return facts, nil
}

// c17FactsNeedAmplification: some fact is not positively established (or an extractor failed).
func c17FactsNeedAmplification() bool {
	facts, err := c17ExtractFacts(repoDir())
	if err != nil || len(facts) == 0 {
		return true
	}
	for _, f := range facts {
		if f.Verdict != c17OK {
			return true
		}
		if strings.HasSuffix(f.Site, "CreateRuntimeProvider") && f.Identity != c17OK {
			return true
		}
	}
	of, err := c17OpenFacts(repoDir())
	if err != nil {
		return true
	}
	for _, f := range of {
		if f.Verdict != c17OK {
			return true
		}
	}
	imf, err := c17ImportFacts(repoDir())
	if err != nil {
		return true
	}
	for _, f := range imf {
		if f.RecvVerdict != c17OK || f.ArgVerdict != c17OK {
			return true
		}
	}
	return false
}

// c17RunLines executes the payloads of a file (one per line: idx<TAB>payload) in ONE process and prints idx<TAB>result.
// With marker = true a stat of the non-existing path /c17-marker/<idx> precedes every line (seen by strace).
func c17RunLines(file string, marker bool) int {
	f, err := os.Open(file)
	if err != nil {
		fmt.Fprintln(os.Stderr, err)
		return 1
	}
	defer f.Close()
	c17Setup()
	fmt.Printf("#base\t%s\n", c17Base)
	sc := bufio.NewScanner(f)
	sc.Buffer(make([]byte, 1<<20), 1<<26)
	for sc.Scan() {
		parts := strings.SplitN(sc.Text(), "\t", 2)
		if len(parts) != 2 {
			continue
		}
		if marker {
			os.Stat("/c17-marker/" + parts[0])
		}
		res := func() (r string) {
			defer func() {
				if e := recover(); e != nil {
					r = "PANIC " + oneLine(fmt.Sprint(e))
				}
			}()
			return c17Run(parts[1])
		}()
		fmt.Printf("%s\t%s\n", parts[0], res)
	}
	if marker {
		os.Stat("/c17-marker/end")
	}
	return 0
}

func c17ToolMain(args []string) int {
	if len(args) == 2 && (args[0] == "runlines" || args[0] == "runlines-marked") {
		return c17RunLines(args[1], args[0] == "runlines-marked")
	}
	if len(args) != 2 || args[0] != "extract" {
		fmt.Fprintln(os.Stderr, "usage: harness C17 -tool extract <out.lean>")
		return 2
	}
	facts, err := c17ExtractFacts(repoDir())
	if err != nil {
		fmt.Fprintln(os.Stderr, "extract:", err)
		return 1
	}
	openFacts, err := c17OpenFacts(repoDir())
	if err != nil {
		fmt.Fprintln(os.Stderr, "extract:", err)
		return 1
	}
	impFacts, err := c17ImportFacts(repoDir())
	if err != nil {
		fmt.Fprintln(os.Stderr, "extract:", err)
		return 1
	}
	q := sfLeanStr
	var b strings.Builder
	b.WriteString("import Ecal.Model.Path\n/-! GENERATED on every run by `harness C17 -tool extract` (go/ast over cli, cli/tool, interpreter, util\nof the tree under test, outside tests) — do not edit. Verdicts: `configured` (established) / `REFUTED` / `unknown`. -/\nnamespace Ecal.Gen.C17\n\n")
	b.WriteString("/-- where the `Root` of every `util.FileImportLocator` composite literal comes from:\n    (site, Root expression, verdict, reason, is it the configured value itself) -/\ndef locatorRoots : List (String × String × String × String × String) := [")
	for i, f := range facts {
		if i > 0 {
			b.WriteString(",")
		}
		fmt.Fprintf(&b, "\n  (%s, %s, %s, %s, %s)", q(f.Site), q(f.Expr), q(f.Verdict), q(f.Why), q(f.Identity))
	}
	b.WriteString("\n]\n\n")
	b.WriteString("/-- roots positively refuted: the value passes through a transformation whose discarded error moves the root to another directory -/\ndef refuted : List String :=\n  (locatorRoots.filter fun f => f.2.2.1 == \"REFUTED\").map fun f => f.1 ++ \": \" ++ f.2.2.2.1\n\n")
	b.WriteString("/-- roots the extractor could not follow (not a violation; the T / U / J cases are amplified) -/\ndef notEstablished : List String :=\n  (locatorRoots.filter fun f => f.2.2.1 == \"unknown\").map fun f => f.1 ++ \": \" ++ f.2.2.2.1\n\n")
	opt := func(v string, found bool) string {
		switch {
		case !found:
			return "none"
		case v == c17OK:
			return "some true"
		case v == c17Refuted:
			return "some false"
		}
		return "none"
	}
	toolV, toolFound := c17OK, false
	for _, f := range facts {
		if strings.HasSuffix(f.Site, "CreateRuntimeProvider") {
			toolFound = true
			if f.Identity == c17Refuted || toolV == c17OK && f.Identity != c17OK {
				toolV = f.Identity
			}
		}
	}
	fmt.Fprintf(&b, "/-- `CLIInterpreter.CreateRuntimeProvider`: is the locator's Root the configured `Dir` value itself?\n    `some true` established, `some false` refuted, `none` not established (no literal found / not followed) -/\ndef toolRootFact : Option Bool := %s\n\n/-- what the driver instantiates the model with: not refuted -/\ndef toolRootIsDir : Bool := toolRootFact.getD true\n\n", opt(toolV, toolFound))
	b.WriteString("/-- every call reachable from `FileImportLocator.Resolve` that touches the file system (or cannot be classified):\n    (site, call, verdict, reason). `configured` = after the containment test, guarded by its result, argument = the tested value. -/\ndef resolveCalls : List (String × String × String × String) := [")
	for i, f := range openFacts {
		if i > 0 {
			b.WriteString(",")
		}
		fmt.Fprintf(&b, "\n  (%s, %s, %s, %s)", q(f.Site), q(f.Call), q(f.Verdict), q(f.Why))
	}
	b.WriteString("\n]\n\n")
	b.WriteString("def openRefuted : List String :=\n  (resolveCalls.filter fun f => f.2.2.1 == \"REFUTED\").map fun f => f.1 ++ \": \" ++ f.2.1 ++ \" — \" ++ f.2.2.2\n\n")
	b.WriteString("def openNotEstablished : List String :=\n  (resolveCalls.filter fun f => f.2.2.1 == \"unknown\").map fun f => f.1 ++ \": \" ++ f.2.1 ++ \" — \" ++ f.2.2.2\n\n")
	b.WriteString("/-- the `Resolve` calls reachable from `importRuntime.Eval`: (site, receiver, verdict, reason, argument, verdict, reason) -/\ndef importResolveCalls : List (String × String × String × String × String × String × String) := [")
	recvOK, argOK := true, true
	for i, f := range impFacts {
		if i > 0 {
			b.WriteString(",")
		}
		fmt.Fprintf(&b, "\n  (%s, %s, %s, %s, %s, %s, %s)", q(f.Site), q(f.Receiver), q(f.RecvVerdict), q(f.RecvWhy), q(f.Arg), q(f.ArgVerdict), q(f.ArgWhy))
		if f.RecvVerdict == c17Refuted {
			recvOK = false
		}
		if f.ArgVerdict == c17Refuted {
			argOK = false
		}
	}
	b.WriteString("\n]\n\n")
	rv, av, found := c17OK, c17OK, false
	for _, f := range impFacts {
		if f.Receiver == "-" {
			continue
		}
		found = true
		if f.RecvVerdict == c17Refuted || rv == c17OK && f.RecvVerdict != c17OK {
			rv = f.RecvVerdict
		}
		if f.ArgVerdict == c17Refuted || av == c17OK && f.ArgVerdict != c17OK {
			av = f.ArgVerdict
		}
	}
	fmt.Fprintf(&b, "/-- is the receiver of every `Resolve` call reachable from `importRuntime.Eval` the provider's configured locator?\n    (`none`: not established, e.g. no call found) -/\ndef receiverFact : Option Bool := %s\n\n", opt(rv, found))
	fmt.Fprintf(&b, "/-- is its argument `fmt.Sprint` of the value of the path expression (child 0)? -/\ndef argumentFact : Option Bool := %s\n\n", opt(av, found))
	b.WriteString("/-- what the driver instantiates the import model with: every fact that is not refuted -/\ndef importFacts : Ecal.Path.ImportFacts :=\n  { receiverIsConfiguredLocator := receiverFact.getD true, argumentIsPathValue := argumentFact.getD true }\n\n")
	_, _ = recvOK, argOK
	b.WriteString("end Ecal.Gen.C17\n")
	if err := os.WriteFile(args[1], []byte(b.String()), 0644); err != nil {
		fmt.Fprintln(os.Stderr, err)
		return 1
	}
	for _, f := range facts {
		fmt.Printf("root\t%s\t%s\t%s\t%s; itself=%s\n", f.Site, f.Expr, f.Verdict, f.Why, f.Identity)
	}
	for _, f := range openFacts {
		fmt.Printf("open\t%s\t%s\t%s\t%s\n", f.Site, f.Call, f.Verdict, f.Why)
	}
	for _, f := range impFacts {
		fmt.Printf("import\t%s\t%s.Resolve(%s)\t%s/%s\t%s %s\n", f.Site, f.Receiver, f.Arg, f.RecvVerdict, f.ArgVerdict, f.RecvWhy, f.ArgWhy)
	}
	return 0
}
