package main

// C15 fact extractor: `harness C15 -tool extract <out.lean>`.
//
// The fact `debugger_is_read_only`: in package interpreter, what do the functions reachable
// from the evaluator-side entry points of the debugger (VisitState, VisitStepInState,
// VisitStepOutState, RecordThreadFinished, RecordSource — NOT the command side) do to the
// program's world? The package is TYPE-CHECKED (go/types, dependencies from source), so the
// classification is by the static type of receivers, arguments and assignment targets, not by
// names or source shapes; calls into same-package functions and methods are followed.
//
// Recorded per reachable function (and per "debugger attached" region of the evaluator, i.e.
// the statements that only run when a value of type util.ECALDebugger is non-nil):
//
//	scope:<M>      method M called on a value whose type implements parser.Scope
//	scopepkg:<F>   function F of package scope called
//	logger:<M>     method M called on a value whose type implements util.Logger
//	ast:<M>        method M called on a *parser.ASTNode / parser.LexToken
//	runtime:<M>    method M called on a value implementing parser.Runtime
//	debugger:<M>   method M called through the util.ECALDebugger interface (regions only)
//	astwrite:<T.f> / rtwrite:<T.f> / otherwrite:<T.f> / pkgvarwrite:<v>   assignments
//	ext:<pkg.F>[kinds]   call of a function of another package with scope / ast / runtime /
//	                     logger typed arguments
//
// and separately the writes to the debugger's own data with the lock mode that is held:
// "w" (ed.lock.Lock), "r" (only RLock), "none", "is" (field of the thread's interrogationState).
// What cannot be classified goes to `unresolved` (three-valued: that is "unknown", never "no").

import (
	"fmt"
	"go/ast"
	"go/importer"
	"go/parser"
	"go/token"
	"go/types"
	"os"
	"path/filepath"
	"sort"
	"strings"
)

type c15X struct {
	fset   *token.FileSet
	info   *types.Info
	pkg    *types.Package
	decls  map[*types.Func]*ast.FuncDecl
	scopeT, runtimeT, loggerT, debuggerT *types.Interface
	astNode, lexTok                      types.Type

	accesses   map[[2]string]bool
	ownWrites  map[[3]string]bool
	unresolved map[[2]string]bool
	reach      map[*types.Func]bool
	// lock mode at the call sites of each function (for helpers that rely on the caller's lock)
	callModes map[*types.Func]map[string]bool
}

func c15FuncName(f *types.Func) string {
	sig := f.Type().(*types.Signature)
	if r := sig.Recv(); r != nil {
		t := r.Type()
		if p, ok := t.(*types.Pointer); ok {
			t = p.Elem()
		}
		if n, ok := t.(*types.Named); ok {
			return n.Obj().Name() + "." + f.Name()
		}
	}
	return f.Name()
}

func (x *c15X) iface(pkgPath, name string) *types.Interface {
	for _, imp := range x.allImports() {
		if imp.Path() == pkgPath {
			if o := imp.Scope().Lookup(name); o != nil {
				if i, ok := o.Type().Underlying().(*types.Interface); ok {
					return i
				}
			}
		}
	}
	return nil
}

func (x *c15X) named(pkgPath, name string) types.Type {
	for _, imp := range x.allImports() {
		if imp.Path() == pkgPath {
			if o := imp.Scope().Lookup(name); o != nil {
				return o.Type()
			}
		}
	}
	return nil
}

func (x *c15X) allImports() []*types.Package {
	seen := map[*types.Package]bool{}
	var out []*types.Package
	var rec func(p *types.Package)
	rec = func(p *types.Package) {
		if seen[p] {
			return
		}
		seen[p] = true
		out = append(out, p)
		for _, i := range p.Imports() {
			rec(i)
		}
	}
	rec(x.pkg)
	return out
}

func c15Impl(t types.Type, i *types.Interface) bool {
	if t == nil || i == nil {
		return false
	}
	if types.Implements(t, i) {
		return true
	}
	if _, isPtr := t.(*types.Pointer); !isPtr {
		if _, isIface := t.Underlying().(*types.Interface); !isIface {
			return types.Implements(types.NewPointer(t), i)
		}
	}
	return false
}

// kind classifies a type: scope | logger | runtime | debugger | ast | "" (looking through
// pointers, slices, arrays and map values).
func (x *c15X) kind(t types.Type) string {
	for depth := 0; t != nil && depth < 6; depth++ {
		if _, ok := t.Underlying().(*types.Interface); ok && t.Underlying().(*types.Interface).NumMethods() == 0 {
			return ""
		}
		switch {
		case c15Impl(t, x.scopeT):
			return "scope"
		case c15Impl(t, x.loggerT):
			return "logger"
		case c15Impl(t, x.runtimeT):
			return "runtime"
		case c15Impl(t, x.debuggerT):
			return "debugger"
		}
		d := t
		if p, ok := d.(*types.Pointer); ok {
			d = p.Elem()
		}
		if types.Identical(d, x.astNode) || types.Identical(d, x.lexTok) {
			return "ast"
		}
		switch u := t.(type) {
		case *types.Pointer:
			t = u.Elem()
		case *types.Slice:
			t = u.Elem()
		case *types.Array:
			t = u.Elem()
		case *types.Map:
			t = u.Elem()
		default:
			return ""
		}
	}
	return ""
}

func (x *c15X) structName(t types.Type) (string, *types.Named) {
	if p, ok := t.(*types.Pointer); ok {
		t = p.Elem()
	}
	if n, ok := t.(*types.Named); ok {
		if _, ok := n.Underlying().(*types.Struct); ok {
			return n.Obj().Name(), n
		}
	}
	return "", nil
}

// lockOp: is the call ed.lock.Lock() etc. on the debugger's own RWMutex?
func (x *c15X) lockOp(call *ast.CallExpr) string {
	se, ok := call.Fun.(*ast.SelectorExpr)
	if !ok {
		return ""
	}
	switch se.Sel.Name {
	case "Lock", "Unlock", "RLock", "RUnlock":
	default:
		return ""
	}
	inner, ok := se.X.(*ast.SelectorExpr)
	if !ok {
		return ""
	}
	if n, _ := x.structName(x.info.TypeOf(inner.X)); n != "ecalDebugger" {
		return ""
	}
	if !strings.Contains(x.info.TypeOf(inner).String(), "sync.RWMutex") {
		return ""
	}
	return se.Sel.Name
}

type c15LockState struct{ w, r int }

func (l c15LockState) mode() string {
	switch {
	case l.w > 0:
		return "w"
	case l.r > 0:
		return "r"
	}
	return "none"
}

// analyse walks statements in source order. who: name under which accesses are recorded.
func (x *c15X) analyse(who string, fn *types.Func, n ast.Node, follow func(*types.Func)) {
	var ls c15LockState
	fresh := map[types.Object]bool{} // locals holding containers made in this function
	acc := func(a string) { x.accesses[[2]string{who, a}] = true }

	var writeTarget func(e ast.Expr, via string)
	writeTarget = func(e ast.Expr, via string) {
		switch e := e.(type) {
		case *ast.ParenExpr:
			writeTarget(e.X, via)
		case *ast.StarExpr:
			writeTarget(e.X, "deref")
		case *ast.IndexExpr:
			writeTarget(e.X, "elem")
		case *ast.Ident:
			o := x.info.ObjectOf(e)
			if o == nil || e.Name == "_" {
				return
			}
			if o.Parent() == x.pkg.Scope() {
				acc("pkgvarwrite:" + e.Name)
				return
			}
			if via != "" && !fresh[o] {
				// write through a local that aliases something: classify by what it may alias
				if k := x.kind(o.Type()); k != "" {
					x.unresolved[[2]string{who, "write through local of kind " + k}] = true
				} else if _, isMap := o.Type().Underlying().(*types.Map); isMap {
					x.unresolved[[2]string{who, "write through local map " + types.TypeString(o.Type(), types.RelativeTo(x.pkg))}] = true
				}
			}
		case *ast.SelectorExpr:
			name, _ := x.structName(x.info.TypeOf(e.X))
			f := name + "." + e.Sel.Name
			switch {
			case name == "ecalDebugger":
				mode := ls.mode()
				if mode == "none" && fn != nil {
					mode = "caller" // resolved after the walk from the call sites
				}
				x.ownWrites[[3]string{who, f, mode}] = true
			case name == "interrogationState":
				x.ownWrites[[3]string{who, f, "is"}] = true
			case name == "ASTNode" || name == "LexToken":
				acc("astwrite:" + f)
			case name == "":
				x.unresolved[[2]string{who, "field write on " + types.TypeString(x.info.TypeOf(e.X), types.RelativeTo(x.pkg))}] = true
			default:
				if k := x.kind(x.info.TypeOf(e.X)); k == "runtime" || name == "baseRuntime" || name == "ECALRuntimeProvider" {
					acc("rtwrite:" + f)
				} else {
					acc("otherwrite:" + f)
				}
			}
		}
	}

	argKinds := func(call *ast.CallExpr) string {
		set := map[string]bool{}
		for _, a := range call.Args {
			if k := x.kind(x.info.TypeOf(a)); k != "" && k != "debugger" {
				set[k] = true
			}
		}
		var ks []string
		for k := range set {
			ks = append(ks, k)
		}
		sort.Strings(ks)
		return strings.Join(ks, ",")
	}

	ast.Inspect(n, func(n ast.Node) bool {
		switch s := n.(type) {
		case *ast.DeferStmt:
			if op := x.lockOp(s.Call); op != "" {
				return false // deferred unlock: the lock is held to the end of the function
			}
		case *ast.FuncLit:
			x.unresolved[[2]string{who, "function literal"}] = true
		case *ast.AssignStmt:
			for i, l := range s.Lhs {
				if id, ok := l.(*ast.Ident); ok && i < len(s.Rhs) {
					// remember locals bound to freshly made containers
					switch r := s.Rhs[i].(type) {
					case *ast.CompositeLit:
						fresh[x.info.ObjectOf(id)] = true
					case *ast.CallExpr:
						if f, ok := r.Fun.(*ast.Ident); ok && f.Name == "make" {
							fresh[x.info.ObjectOf(id)] = true
						}
					}
				}
				writeTarget(l, "")
			}
		case *ast.IncDecStmt:
			writeTarget(s.X, "")
		case *ast.RangeStmt:
			if s.Key != nil {
				writeTarget(s.Key, "")
			}
			if s.Value != nil {
				writeTarget(s.Value, "")
			}
		case *ast.CallExpr:
			if op := x.lockOp(s); op != "" {
				switch op {
				case "Lock":
					ls.w++
				case "Unlock":
					ls.w--
				case "RLock":
					ls.r++
				case "RUnlock":
					ls.r--
				}
				return true
			}
			fun := s.Fun
			for {
				if p, ok := fun.(*ast.ParenExpr); ok {
					fun = p.X
				} else {
					break
				}
			}
			switch f := fun.(type) {
			case *ast.Ident:
				switch o := x.info.ObjectOf(f).(type) {
				case *types.Builtin:
					if f.Name == "delete" && len(s.Args) > 0 {
						writeTarget(s.Args[0], "elem")
					}
				case *types.Func:
					if x.decls[o] != nil {
						if x.callModes[o] == nil {
							x.callModes[o] = map[string]bool{}
						}
						x.callModes[o][ls.mode()] = true
						follow(o)
					}
				case *types.TypeName:
				case *types.Var:
					x.unresolved[[2]string{who, "call of function value " + f.Name}] = true
				}
			case *ast.SelectorExpr:
				if sel := x.info.Selections[f]; sel != nil {
					recvT := sel.Recv()
					m := f.Sel.Name
					if sel.Kind() == types.FieldVal {
						x.unresolved[[2]string{who, "call of function-valued field " + m}] = true
						break
					}
					k := x.kind(recvT)
					switch k {
					case "scope", "logger", "runtime", "ast":
						acc(k + ":" + m)
					case "debugger":
						if _, isIface := recvT.Underlying().(*types.Interface); isIface {
							acc("debugger:" + m)
						}
					}
					if o, ok := sel.Obj().(*types.Func); ok && x.decls[o] != nil {
						if x.callModes[o] == nil {
							x.callModes[o] = map[string]bool{}
						}
						x.callModes[o][ls.mode()] = true
						follow(o)
					} else if k == "" {
						if ak := argKinds(s); ak != "" {
							acc(fmt.Sprintf("extmethod:%s.%s[%s]", types.TypeString(recvT, types.RelativeTo(x.pkg)), m, ak))
						}
					}
				} else if o, ok := x.info.ObjectOf(f.Sel).(*types.Func); ok {
					// package-qualified function
					p := o.Pkg()
					if p != nil && strings.HasSuffix(p.Path(), "/ecal/scope") {
						acc("scopepkg:" + o.Name())
					} else if ak := argKinds(s); ak != "" && p != nil {
						acc(fmt.Sprintf("ext:%s.%s[%s]", p.Name(), o.Name(), ak))
					}
				}
			default:
				x.unresolved[[2]string{who, "call of a computed function"}] = true
			}
		}
		return true
	})
}

func c15Extract(out string) int {
	dir := filepath.Join(repoDir(), "interpreter")
	// the source importer resolves module dependencies relative to the working directory
	if err := os.Chdir(repoDir()); err != nil {
		fmt.Fprintln(os.Stderr, err)
		return 2
	}
	fset := token.NewFileSet()
	ents, err := os.ReadDir(dir)
	if err != nil {
		fmt.Fprintln(os.Stderr, err)
		return 2
	}
	var files []*ast.File
	for _, e := range ents {
		n := e.Name()
		if strings.HasSuffix(n, ".go") && !strings.HasSuffix(n, "_test.go") {
			f, err := parser.ParseFile(fset, filepath.Join(dir, n), nil, 0)
			if err != nil {
				fmt.Fprintln(os.Stderr, err)
				return 2
			}
			files = append(files, f)
		}
	}
	info := &types.Info{Types: map[ast.Expr]types.TypeAndValue{}, Uses: map[*ast.Ident]types.Object{},
		Defs: map[*ast.Ident]types.Object{}, Selections: map[*ast.SelectorExpr]*types.Selection{}}
	var terrs []string
	conf := types.Config{Importer: importer.ForCompiler(fset, "source", nil),
		Error: func(err error) { terrs = append(terrs, err.Error()) }}
	pkg, _ := conf.Check("github.com/krotik/ecal/interpreter", fset, files, info)
	x := &c15X{fset: fset, info: info, pkg: pkg, decls: map[*types.Func]*ast.FuncDecl{},
		accesses: map[[2]string]bool{}, ownWrites: map[[3]string]bool{}, unresolved: map[[2]string]bool{},
		reach: map[*types.Func]bool{}, callModes: map[*types.Func]map[string]bool{}}
	typed := len(terrs) == 0 && pkg != nil
	if typed {
		x.scopeT = x.iface("github.com/krotik/ecal/parser", "Scope")
		x.runtimeT = x.iface("github.com/krotik/ecal/parser", "Runtime")
		x.loggerT = x.iface("github.com/krotik/ecal/util", "Logger")
		x.debuggerT = x.iface("github.com/krotik/ecal/util", "ECALDebugger")
		x.astNode = x.named("github.com/krotik/ecal/parser", "ASTNode")
		x.lexTok = x.named("github.com/krotik/ecal/parser", "LexToken")
		typed = x.scopeT != nil && x.runtimeT != nil && x.loggerT != nil && x.debuggerT != nil && x.astNode != nil && x.lexTok != nil
	}
	entryNames := []string{"VisitState", "VisitStepInState", "VisitStepOutState", "RecordThreadFinished", "RecordSource"}
	found := map[string]bool{}
	var reachNames []string
	if typed {
		for _, f := range files {
			for _, d := range f.Decls {
				if fd, ok := d.(*ast.FuncDecl); ok && fd.Body != nil {
					if o, ok := info.Defs[fd.Name].(*types.Func); ok {
						x.decls[o] = fd
					}
				}
			}
		}
		var queue []*types.Func
		follow := func(o *types.Func) {
			if !x.reach[o] {
				x.reach[o] = true
				queue = append(queue, o)
			}
		}
		for o := range x.decls {
			name := c15FuncName(o)
			for _, e := range entryNames {
				if name == "ecalDebugger."+e {
					found[e] = true
					follow(o)
				}
			}
		}
		sort.Slice(queue, func(i, j int) bool { return c15FuncName(queue[i]) < c15FuncName(queue[j]) })
		for len(queue) > 0 {
			o := queue[0]
			queue = queue[1:]
			x.analyse(c15FuncName(o), o, x.decls[o].Body, follow)
		}
		for o := range x.reach {
			reachNames = append(reachNames, c15FuncName(o))
		}
		sort.Strings(reachNames)
		// writes that rely on the caller's lock: the weakest mode over the call sites
		resolved := map[[3]string]bool{}
		for w := range x.ownWrites {
			if w[2] != "caller" {
				resolved[w] = true
				continue
			}
			mode := "none"
			for o := range x.reach {
				if c15FuncName(o) == w[0] {
					cm := x.callModes[o]
					isEntry := false
					for _, e := range entryNames {
						if w[0] == "ecalDebugger."+e {
							isEntry = true
						}
					}
					switch {
					case isEntry || len(cm) == 0 || cm["none"]:
						mode = "none"
					case cm["r"]:
						mode = "r"
					default:
						mode = "w"
					}
				}
			}
			resolved[[3]string{w[0], w[1], mode}] = true
		}
		x.ownWrites = resolved
		// regions of the evaluator that only run with a debugger attached
		noFollow := func(*types.Func) {}
		for o, fd := range x.decls {
			if x.reach[o] {
				continue
			}
			for _, region := range x.debuggerRegions(fd.Body) {
				found["debugger-attached region"] = true
				for _, st := range region {
					x.analyse("region:"+c15FuncName(o), nil, st, noFollow)
				}
			}
		}
	}

	// fact debugger_read_at_eval_time: where does every evaluator-side use of a debugger value
	// (receiver of a call through the util.ECALDebugger interface, or operand of a nil test) come from?
	debuggerUses := map[[2]string]bool{}
	var debuggerFields []string
	if typed {
		for _, name := range pkg.Scope().Names() {
			if tn, ok := pkg.Scope().Lookup(name).(*types.TypeName); ok {
				if st, ok := tn.Type().Underlying().(*types.Struct); ok && name != "ECALRuntimeProvider" {
					for i := 0; i < st.NumFields(); i++ {
						if x.kind(st.Field(i).Type()) == "debugger" {
							debuggerFields = append(debuggerFields, name+"."+st.Field(i).Name())
						}
					}
				}
			}
		}
		sort.Strings(debuggerFields)
		cmdT := x.iface("github.com/krotik/ecal/util", "DebugCommand")
		for o, fd := range x.decls {
			if x.reach[o] {
				continue
			}
			who := c15FuncName(o)
			commandSide := false
			if r := o.Type().(*types.Signature).Recv(); r != nil && cmdT != nil && c15Impl(r.Type(), cmdT) {
				commandSide = true
			}
			params := map[types.Object]bool{}
			if fd.Recv != nil {
				for _, f := range fd.Recv.List {
					for _, n := range f.Names {
						params[info.ObjectOf(n)] = true
					}
				}
			}
			for _, f := range fd.Type.Params.List {
				for _, n := range f.Names {
					params[info.ObjectOf(n)] = true
				}
			}
			var classify func(e ast.Expr, depth int) string
			classify = func(e ast.Expr, depth int) string {
				if depth > 4 {
					return "?deep"
				}
				switch e := e.(type) {
				case *ast.ParenExpr:
					return classify(e.X, depth+1)
				case *ast.SelectorExpr:
					name, _ := x.structName(info.TypeOf(e.X))
					switch name {
					case "ECALRuntimeProvider":
						return "provider-field"
					case "":
						return "?selector on non-struct"
					}
					return "stored:" + name + "." + e.Sel.Name
				case *ast.Ident:
					obj := info.ObjectOf(e)
					if obj == nil {
						return "?ident"
					}
					if obj.Parent() == pkg.Scope() {
						return "pkgvar:" + e.Name
					}
					if params[obj] {
						return "?parameter"
					}
					res := ""
					ast.Inspect(fd.Body, func(n ast.Node) bool {
						var lhs []ast.Expr
						var rhs []ast.Expr
						switch s := n.(type) {
						case *ast.AssignStmt:
							lhs, rhs = s.Lhs, s.Rhs
						case *ast.ValueSpec:
							for _, nm := range s.Names {
								lhs = append(lhs, nm)
							}
							rhs = s.Values
						}
						for i, l := range lhs {
							if id, ok := l.(*ast.Ident); ok && info.ObjectOf(id) == obj && len(rhs) == len(lhs) {
								c := classify(rhs[i], depth+1)
								if c == "provider-field" || c == "local-from-provider" {
									c = "local-from-provider"
								}
								if res == "" || res == c {
									res = c
								} else if strings.HasPrefix(c, "stored:") || strings.HasPrefix(res, "?") {
									res = c
								}
							}
						}
						return true
					})
					if res == "" {
						return "?local without visible definition"
					}
					return res
				}
				return "?expression"
			}
			note := func(e ast.Expr) {
				t := info.TypeOf(e)
				if t == nil || x.kind(t) != "debugger" {
					return
				}
				if _, isIface := t.Underlying().(*types.Interface); !isIface {
					return
				}
				c := classify(e, 0)
				if strings.HasPrefix(c, "?") {
					if !commandSide {
						x.unresolved[[2]string{who, "origin of the debugger value: " + c[1:]}] = true
					}
					return
				}
				debuggerUses[[2]string{who, c}] = true
			}
			ast.Inspect(fd.Body, func(n ast.Node) bool {
				switch s := n.(type) {
				case *ast.CallExpr:
					if se, ok := s.Fun.(*ast.SelectorExpr); ok && info.Selections[se] != nil {
						note(se.X)
					}
				case *ast.BinaryExpr:
					if s.Op == token.EQL || s.Op == token.NEQ {
						if id, ok := s.Y.(*ast.Ident); ok && id.Name == "nil" {
							note(s.X)
						}
						if id, ok := s.X.(*ast.Ident); ok && id.Name == "nil" {
							note(s.Y)
						}
					}
				}
				return true
			})
		}
	}

	// fact own_reads_locked: every element access / iteration / delete on the maps the debugger owns
	// (the fields NewECALDebugger initialises with make), in ALL methods of ecalDebugger (evaluator
	// side and command side), with the lock mode held there.
	mapAccess := map[[4]string]bool{}
	// fact visit_returns_nil: what the visit functions return
	visitReturns := map[[2]string]bool{}
	if typed {
		owned := map[string]bool{}
		for o, fd := range x.decls {
			if c15FuncName(o) != "NewECALDebugger" {
				continue
			}
			ast.Inspect(fd.Body, func(n ast.Node) bool {
				if kv, ok := n.(*ast.KeyValueExpr); ok {
					if call, ok := kv.Value.(*ast.CallExpr); ok {
						if id, ok := call.Fun.(*ast.Ident); ok && id.Name == "make" {
							if k, ok := kv.Key.(*ast.Ident); ok {
								owned[k.Name] = true
							}
						}
					}
				}
				return true
			})
		}
		found["NewECALDebugger map fields"] = len(owned) > 0
		ownedField := func(e ast.Expr) string {
			for {
				if p, ok := e.(*ast.ParenExpr); ok {
					e = p.X
				} else {
					break
				}
			}
			se, ok := e.(*ast.SelectorExpr)
			if !ok {
				return ""
			}
			if n, _ := x.structName(info.TypeOf(se.X)); n != "ecalDebugger" || !owned[se.Sel.Name] {
				return ""
			}
			return se.Sel.Name
		}
		type pend struct {
			who, field, kind string
			fn               *types.Func
		}
		var pending []pend
		siteModes := map[*types.Func]map[string]bool{}
		for o, fd := range x.decls {
			who := c15FuncName(o)
			var ls c15LockState
			writes := map[ast.Expr]bool{}
			ast.Inspect(fd.Body, func(n ast.Node) bool {
				switch s := n.(type) {
				case *ast.DeferStmt:
					if x.lockOp(s.Call) != "" {
						return false
					}
				case *ast.AssignStmt:
					for _, l := range s.Lhs {
						if ix, ok := l.(*ast.IndexExpr); ok {
							writes[ix] = true
						}
					}
				case *ast.RangeStmt:
					if f := ownedField(s.X); f != "" {
						pending = append(pending, pend{who, f, "iterate", o})
						mapAccess[[4]string{who, f, "iterate", ls.mode()}] = true
					}
				case *ast.IndexExpr:
					if f := ownedField(s.X); f != "" {
						kind := "read"
						if writes[s] {
							kind = "write"
						}
						mapAccess[[4]string{who, f, kind, ls.mode()}] = true
					}
				case *ast.CallExpr:
					if op := x.lockOp(s); op != "" {
						switch op {
						case "Lock":
							ls.w++
						case "Unlock":
							ls.w--
						case "RLock":
							ls.r++
						case "RUnlock":
							ls.r--
						}
						return true
					}
					if id, ok := s.Fun.(*ast.Ident); ok && id.Name == "delete" && len(s.Args) > 0 {
						if f := ownedField(s.Args[0]); f != "" {
							mapAccess[[4]string{who, f, "write", ls.mode()}] = true
						}
					}
					var callee *types.Func
					switch f := s.Fun.(type) {
					case *ast.Ident:
						callee, _ = info.ObjectOf(f).(*types.Func)
					case *ast.SelectorExpr:
						if sel := info.Selections[f]; sel != nil {
							callee, _ = sel.Obj().(*types.Func)
						}
					}
					if callee != nil && x.decls[callee] != nil {
						if siteModes[callee] == nil {
							siteModes[callee] = map[string]bool{}
						}
						siteModes[callee][ls.mode()] = true
					}
				}
				return true
			})
		}
		_ = pending
		// an unexported helper without own locking inherits the weakest mode of its call sites
		resolved := map[[4]string]bool{}
		for a := range mapAccess {
			if a[3] != "none" {
				resolved[a] = true
				continue
			}
			mode := "none"
			for o := range x.decls {
				if c15FuncName(o) == a[0] && !o.Exported() {
					if sm := siteModes[o]; len(sm) > 0 && !sm["none"] {
						mode = "w"
						if sm["r"] {
							mode = "r"
						}
					}
				}
			}
			resolved[[4]string{a[0], a[1], a[2], mode}] = true
		}
		mapAccess = resolved

		visitNames := map[string]bool{"ecalDebugger.VisitState": true, "ecalDebugger.VisitStepInState": true, "ecalDebugger.VisitStepOutState": true}
		for o, fd := range x.decls {
			who := c15FuncName(o)
			if !visitNames[who] {
				continue
			}
			var classify func(e ast.Expr, depth int) string
			classify = func(e ast.Expr, depth int) string {
				if depth > 3 {
					return "?deep"
				}
				switch e := e.(type) {
				case *ast.ParenExpr:
					return classify(e.X, depth+1)
				case *ast.Ident:
					if e.Name == "nil" {
						return "nil"
					}
					obj := info.ObjectOf(e)
					res := "nil" // zero value of a declared local
					seen := false
					ast.Inspect(fd.Body, func(n ast.Node) bool {
						if as, ok := n.(*ast.AssignStmt); ok && len(as.Lhs) == len(as.Rhs) {
							for i, l := range as.Lhs {
								if id, ok := l.(*ast.Ident); ok && info.ObjectOf(id) == obj {
									seen = true
									if c := classify(as.Rhs[i], depth+1); c != "nil" && res != c {
										if res == "nil" {
											res = c
										} else {
											res = "?mixed"
										}
									}
								}
							}
						}
						return true
					})
					_ = seen
					if res == "visit-call" || res == "nil" {
						return "local(nil|visit-call)"
					}
					return res
				case *ast.CallExpr:
					if se, ok := e.Fun.(*ast.SelectorExpr); ok {
						if sel := info.Selections[se]; sel != nil {
							if f, ok := sel.Obj().(*types.Func); ok && visitNames[c15FuncName(f)] {
								return "visit-call"
							}
						}
					}
					return "other-call"
				}
				return "other-expression"
			}
			ast.Inspect(fd.Body, func(n ast.Node) bool {
				if _, ok := n.(*ast.FuncLit); ok {
					return false
				}
				if r, ok := n.(*ast.ReturnStmt); ok && len(r.Results) == 1 {
					visitReturns[[2]string{who, classify(r.Results[0], 0)}] = true
				}
				return true
			})
		}
	}

	var sb strings.Builder
	sb.WriteString("/-! GENERATED by `harness C15 -tool extract` from the TYPE-CHECKED Go source under test — do not edit.\n")
	sb.WriteString("`observerAccesses`: (function, access) for every function of package interpreter reachable from the\n")
	sb.WriteString("evaluator-side entry points of the debugger (following calls into same-package functions), and for the\n")
	sb.WriteString("statements of the evaluator that only run when a util.ECALDebugger value is non-nil (`region:<func>`).\n")
	sb.WriteString("Accesses are classified by static type: `scope:M` / `logger:M` / `runtime:M` / `ast:M` = method M called on\n")
	sb.WriteString("a value implementing parser.Scope / util.Logger / parser.Runtime / on an AST node; `scopepkg:F`;\n")
	sb.WriteString("`debugger:M` = call through the debugger interface; `astwrite:`/`rtwrite:`/`otherwrite:`/`pkgvarwrite:` =\n")
	sb.WriteString("assignments to fields of AST nodes / runtime components / other structs / package variables;\n")
	sb.WriteString("`ext:pkg.F[kinds]` = foreign function called with arguments of those kinds.\n")
	sb.WriteString("`ownWrites`: (function, field, lock mode) for writes to the debugger's own data: w = under ed.lock.Lock,\n")
	sb.WriteString("r = under RLock only, none = no lock, is = field of the calling thread's interrogationState.\n")
	sb.WriteString("`unresolved`: what the extractor could not classify (then the fact is UNKNOWN, not refuted). -/\n")
	sb.WriteString("namespace Ecal.Gen.C15\n\n")
	pairs := func(m map[[2]string]bool) string {
		var ks [][2]string
		for k := range m {
			ks = append(ks, k)
		}
		sort.Slice(ks, func(i, j int) bool { return ks[i][0]+"\x00"+ks[i][1] < ks[j][0]+"\x00"+ks[j][1] })
		var parts []string
		for _, k := range ks {
			parts = append(parts, fmt.Sprintf("(%q, %q)", k[0], k[1]))
		}
		return "[" + strings.Join(parts, ",\n  ") + "]"
	}
	sb.WriteString("/-- the source was found and type-checked (otherwise every list below is empty and means nothing) -/\n")
	fmt.Fprintf(&sb, "def typeChecked : Bool := %v\n\n", typed)
	sb.WriteString("def found : List (String × Bool) := [")
	var fparts []string
	for _, e := range append(entryNames, "debugger-attached region", "NewECALDebugger map fields") {
		fparts = append(fparts, fmt.Sprintf("(%q, %v)", e, found[e]))
	}
	sb.WriteString(strings.Join(fparts, ", ") + "]\n\n")
	sb.WriteString("def reachable : List String := [")
	var rparts []string
	for _, r := range reachNames {
		rparts = append(rparts, fmt.Sprintf("%q", r))
	}
	sb.WriteString(strings.Join(rparts, ", ") + "]\n\n")
	var accKeys [][2]string
	for k := range x.accesses {
		accKeys = append(accKeys, k)
	}
	sort.Slice(accKeys, func(i, j int) bool { return accKeys[i][0]+"\x00"+accKeys[i][1] < accKeys[j][0]+"\x00"+accKeys[j][1] })
	var accParts []string
	for _, k := range accKeys {
		cat, detail := k[1], ""
		if i := strings.Index(k[1], ":"); i >= 0 {
			cat, detail = k[1][:i], k[1][i+1:]
		}
		accParts = append(accParts, fmt.Sprintf("(%q, %q, %q)", k[0], cat, detail))
	}
	sb.WriteString("/-- (function, category, detail) -/\n")
	sb.WriteString("def observerAccesses : List (String × String × String) :=\n  [" + strings.Join(accParts, ",\n  ") + "]\n\n")
	var ws [][3]string
	for k := range x.ownWrites {
		ws = append(ws, k)
	}
	sort.Slice(ws, func(i, j int) bool { return strings.Join(ws[i][:], "\x00") < strings.Join(ws[j][:], "\x00") })
	var wparts []string
	for _, k := range ws {
		wparts = append(wparts, fmt.Sprintf("(%q, %q, %q)", k[0], k[1], k[2]))
	}
	sb.WriteString("def ownWrites : List (String × String × String) :=\n  [" + strings.Join(wparts, ",\n  ") + "]\n\n")
	sb.WriteString("/-- fact debugger_read_at_eval_time: (function, origin) of every debugger value the evaluator side uses\n")
	sb.WriteString("(call through util.ECALDebugger / nil test): `provider-field` = read from the runtime provider at that\n")
	sb.WriteString("moment, `local-from-provider` = a local assigned from it in the same function, `stored:T.f` = a field of\n")
	sb.WriteString("another struct (a value kept from an earlier time), `pkgvar:v` -/\n")
	sb.WriteString("def debuggerUses : List (String × String) :=\n  " + pairs(debuggerUses) + "\n\n")
	sb.WriteString("/-- struct fields of a debugger type outside the runtime provider (informative) -/\n")
	var dfp []string
	for _, f := range debuggerFields {
		dfp = append(dfp, fmt.Sprintf("%q", f))
	}
	sb.WriteString("def debuggerFields : List String := [" + strings.Join(dfp, ", ") + "]\n\n")
	sb.WriteString("/-- fact own_reads_locked: (method, map field, read|write|iterate, lock mode w|r|none) for every element\n")
	sb.WriteString("access, delete and iteration on the maps NewECALDebugger creates, in every method of ecalDebugger -/\n")
	var mas [][4]string
	for k := range mapAccess {
		mas = append(mas, k)
	}
	sort.Slice(mas, func(i, j int) bool { return strings.Join(mas[i][:], "\x00") < strings.Join(mas[j][:], "\x00") })
	var maparts []string
	for _, k := range mas {
		maparts = append(maparts, fmt.Sprintf("(%q, %q, %q, %q)", k[0], k[1], k[2], k[3]))
	}
	sb.WriteString("def mapAccesses : List (String × String × String × String) :=\n  [" + strings.Join(maparts, ",\n  ") + "]\n\n")
	sb.WriteString("/-- fact visit_returns_nil: (visit function, what a return statement returns) -/\n")
	sb.WriteString("def visitReturns : List (String × String) :=\n  " + pairs(visitReturns) + "\n\n")
	sb.WriteString("def unresolved : List (String × String) :=\n  " + pairs(x.unresolved) + "\n\n")
	sb.WriteString("end Ecal.Gen.C15\n")
	if len(terrs) > 0 {
		fmt.Fprintln(os.Stderr, "type errors:", strings.Join(terrs[:min(3, len(terrs))], " | "))
	}
	if out == "-" {
		fmt.Print(sb.String())
		return 0
	}
	if err := os.WriteFile(out, []byte(sb.String()), 0644); err != nil {
		fmt.Fprintln(os.Stderr, err)
		return 2
	}
	return 0
}

// debuggerRegions: statement lists that only run when a value of type util.ECALDebugger is
// non-nil: the body of `if D != nil { … }`, and what follows `if D == nil { …return }` in the
// same block.
func (x *c15X) debuggerRegions(body *ast.BlockStmt) [][]ast.Stmt {
	var out [][]ast.Stmt
	isDbgNilTest := func(e ast.Expr, op token.Token) bool {
		b, ok := e.(*ast.BinaryExpr)
		if !ok || b.Op != op {
			return false
		}
		for _, pair := range [][2]ast.Expr{{b.X, b.Y}, {b.Y, b.X}} {
			if id, ok := pair[1].(*ast.Ident); ok && id.Name == "nil" {
				if t := x.info.TypeOf(pair[0]); t != nil && x.kind(t) == "debugger" {
					if _, isIface := t.Underlying().(*types.Interface); isIface {
						return true
					}
				}
			}
		}
		return false
	}
	var condHas func(e ast.Expr) bool
	condHas = func(e ast.Expr) bool {
		if isDbgNilTest(e, token.NEQ) {
			return true
		}
		if b, ok := e.(*ast.BinaryExpr); ok && b.Op == token.LAND {
			return condHas(b.X) || condHas(b.Y)
		}
		if p, ok := e.(*ast.ParenExpr); ok {
			return condHas(p.X)
		}
		return false
	}
	ast.Inspect(body, func(n ast.Node) bool {
		blk, ok := n.(*ast.BlockStmt)
		if !ok {
			return true
		}
		for i, st := range blk.List {
			ifs, ok := st.(*ast.IfStmt)
			if !ok {
				continue
			}
			if condHas(ifs.Cond) {
				out = append(out, ifs.Body.List)
			}
			if isDbgNilTest(ifs.Cond, token.EQL) && len(ifs.Body.List) > 0 {
				if _, ret := ifs.Body.List[len(ifs.Body.List)-1].(*ast.ReturnStmt); ret {
					out = append(out, blk.List[i+1:])
				}
			}
		}
		return true
	})
	return out
}
