package main

// C20 — a packed executable always finds and runs its embedded program.
//
// A case builds a synthetic "interpreter binary" of a given size and content,
// packs a project tree onto it with the REAL tool.CLIPacker.Pack, points the
// package's osArgs[0] at the result and calls the REAL tool.RunPackedBinary
// (through the verif-tagged setters of cli/tool/export_verif.go). Observed: the
// offset handed to the zip reader (hook "pack.archive"), whether the exit
// callback was reached and with which code, whether RunPackedBinary fell through
// or failed, and the files the packed program sees through the memory import
// locator (hook "pack.files") compared byte by byte with the tree on disk.
//
//	payload: <packed 0|1> <n> <filler 0|1|2> <seed> <plants|-> <ws-hex|-> <tree> <rc> <zip4-hex>
//	         plants = off:hex,off:hex…  (bytes planted into the filler)
//	result : exit=<rc> files=ok | fall | fail | …   (the offset is counted, not compared)
//
//	payload: proc <tree> <rc> <arg-hex,…|-> <abs|bare|decoy|rel|dotdot|symlink>   (the real CLI binary of the tree under test, packed,
//	         started as a child process with these arguments, stdin at EOF)
//	result : proc srcmarker=<0|1> exit=<code> entry=<ran|notrun>
//
// `harness C20 -tool extract <out.lean>` regenerates the geometry facts
// (lean/Ecal/Gen/C20.lean) from cli/tool/pack.go with go/ast.

import (
	"bytes"
	"context"
	"flag"
	"fmt"
	"go/ast"
	"go/parser"
	"go/token"
	"io"
	"log"
	"os"
	"os/exec"
	"path/filepath"
	"sort"
	"strconv"
	"strings"
	"time"
	"unicode"

	"github.com/krotik/ecal/cli/tool"
	"github.com/krotik/ecal/verifhook"
)

// ---------------------------------------------------------------- fact extractor

type c20Facts struct {
	markerEnd    []byte
	pieces       [][]byte // expansion of the Sprintf that assembles packmarker
	pieceSrc     string
	marker       []byte
	b1, b2       int
	b1Lean       string
	b2Lean       string
	bufSize      int
	bufLean      string
	bufSrc       string
	keep         int
	keepLean     string
	keepSrc      string
	skipTab      [256]bool // is the byte skipped after the marker (evaluated from the code's predicate)
	skipSrc      string
	literalWhole bool     // packmarker is one string literal (then the binary itself contains it)
	problems     []string // pieces of the source the extractor could not translate
	mainFirst    bool     // first statement of main() is the unconditional call tool.RunPackedBinary()
	mainKnown    bool     // … established (true or false); otherwise the fact is `none`
	exeKnown     bool
	truncKnown   bool
	mainSrc      string
	usesOsExe    bool // the file to scan is determined with os.Executable()
	usesOsExeSrc string
	markerByCall bool // packmarker is built by a function call at run time (not a constant expression the compiler folds)
	truncates    bool // Pack opens the target so that old content is discarded (os.Create / O_TRUNC)
	truncSrc     string
}

type c20Eval struct {
	fset   *token.FileSet
	locals map[string]ast.Expr // local definitions of the function being looked at
	vars   map[string]ast.Expr
	facts  *c20Facts
}

func (e *c20Eval) src(x ast.Node) string {
	var b bytes.Buffer
	b.WriteString(fmt.Sprint(e.fset.Position(x.Pos()).Line))
	return b.String()
}

// str evaluates a constant string expression to its pieces.
func (e *c20Eval) str(x ast.Expr) ([][]byte, error) {
	switch v := x.(type) {
	case *ast.BasicLit:
		if v.Kind != token.STRING {
			return nil, fmt.Errorf("not a string literal: %v", v.Value)
		}
		s, err := strconv.Unquote(v.Value)
		if err != nil {
			return nil, err
		}
		return [][]byte{[]byte(s)}, nil
	case *ast.Ident:
		if v.Name == "packmarker" && e.facts.marker != nil {
			return [][]byte{e.facts.marker}, nil
		}
		d, ok := e.locals[v.Name]
		if !ok {
			d, ok = e.vars[v.Name]
		}
		if !ok {
			return nil, fmt.Errorf("unknown identifier %v", v.Name)
		}
		p, err := e.str(d)
		if err != nil {
			return nil, err
		}
		return [][]byte{bytes.Join(p, nil)}, nil
	case *ast.ParenExpr:
		return e.str(v.X)
	case *ast.BinaryExpr:
		if v.Op != token.ADD {
			return nil, fmt.Errorf("unsupported string operator %v", v.Op)
		}
		a, err := e.str(v.X)
		if err != nil {
			return nil, err
		}
		b, err := e.str(v.Y)
		if err != nil {
			return nil, err
		}
		return append(a, b...), nil
	case *ast.CallExpr:
		if sel, ok := v.Fun.(*ast.SelectorExpr); ok && len(v.Args) == 1 {
			if x, ok := sel.X.(*ast.Ident); ok && x.Name == "strings" {
				var fn func(string) string
				switch sel.Sel.Name {
				case "TrimSpace":
					fn = strings.TrimSpace
				case "ToUpper":
					fn = strings.ToUpper
				case "ToLower":
					fn = strings.ToLower
				}
				if fn != nil {
					p, err := e.str(v.Args[0])
					if err != nil {
						return nil, err
					}
					return [][]byte{[]byte(fn(string(bytes.Join(p, nil))))}, nil
				}
			}
		}
		if id, ok := v.Fun.(*ast.Ident); ok && id.Name == "string" && len(v.Args) == 1 {
			return e.str(v.Args[0])
		}
		if _, ok := v.Fun.(*ast.ArrayType); ok && len(v.Args) == 1 { // []byte(x)
			return e.str(v.Args[0])
		}
		if sel, ok := v.Fun.(*ast.SelectorExpr); ok && sel.Sel.Name == "Sprintf" && len(v.Args) >= 1 {
			fp, err := e.str(v.Args[0])
			if err != nil {
				return nil, err
			}
			format := string(bytes.Join(fp, nil))
			var out [][]byte
			arg := 1
			lit := []byte{}
			for i := 0; i < len(format); i++ {
				if format[i] == '%' && i+1 < len(format) {
					switch format[i+1] {
					case 'v', 's':
						if arg >= len(v.Args) {
							return nil, fmt.Errorf("Sprintf: missing argument")
						}
						if len(lit) > 0 {
							out = append(out, lit)
							lit = []byte{}
						}
						ap, err := e.str(v.Args[arg])
						if err != nil {
							return nil, err
						}
						out = append(out, bytes.Join(ap, nil))
						arg++
						i++
						continue
					case '%':
						lit = append(lit, '%')
						i++
						continue
					default:
						return nil, fmt.Errorf("Sprintf: unsupported verb %%%c", format[i+1])
					}
				}
				lit = append(lit, format[i])
			}
			if len(lit) > 0 {
				out = append(out, lit)
			}
			return out, nil
		}
	}
	return nil, fmt.Errorf("unsupported string expression at line %v", e.src(x))
}

// num evaluates a constant int expression; returns the value and a Lean term over
// `marker`, `b1`, `b2` that denotes it (Go ints; the Lean side uses Nat, negative
// intermediate values are rejected).
func (e *c20Eval) num(x ast.Expr) (int, string, error) {
	switch v := x.(type) {
	case *ast.BasicLit:
		if v.Kind != token.INT {
			return 0, "", fmt.Errorf("not an int literal: %v", v.Value)
		}
		n, err := strconv.ParseInt(v.Value, 0, 64)
		return int(n), fmt.Sprint(n), err
	case *ast.Ident:
		switch v.Name {
		case "b1":
			return e.facts.b1, "b1", nil
		case "b2":
			return e.facts.b2, "b2", nil
		}
		d, ok := e.locals[v.Name]
		if !ok {
			d, ok = e.vars[v.Name]
		}
		if !ok {
			return 0, "", fmt.Errorf("unknown identifier %v", v.Name)
		}
		return e.num(d)
	case *ast.ParenExpr:
		n, s, err := e.num(v.X)
		return n, "(" + s + ")", err
	case *ast.CallExpr:
		if id, ok := v.Fun.(*ast.Ident); ok && id.Name == "len" && len(v.Args) == 1 {
			if a, ok := v.Args[0].(*ast.Ident); ok && a.Name == "packmarker" {
				return len(e.facts.marker), "marker.length", nil
			}
			p, err := e.str(v.Args[0])
			if err != nil {
				return 0, "", err
			}
			n := len(bytes.Join(p, nil))
			if bytes.Equal(bytes.Join(p, nil), e.facts.marker) {
				return n, "marker.length", nil
			}
			return n, fmt.Sprint(n), nil
		}
		if id, ok := v.Fun.(*ast.Ident); ok && (id.Name == "int" || id.Name == "int64") && len(v.Args) == 1 {
			return e.num(v.Args[0])
		}
	case *ast.BinaryExpr:
		a, as, err := e.num(v.X)
		if err != nil {
			return 0, "", err
		}
		b, bs, err := e.num(v.Y)
		if err != nil {
			return 0, "", err
		}
		var r int
		switch v.Op {
		case token.ADD:
			r = a + b
		case token.SUB:
			r = a - b
		case token.MUL:
			r = a * b
		case token.QUO:
			if b == 0 {
				return 0, "", fmt.Errorf("division by zero")
			}
			r = a / b
		default:
			return 0, "", fmt.Errorf("unsupported operator %v", v.Op)
		}
		if r < 0 {
			return 0, "", fmt.Errorf("negative constant %v at line %v", r, e.src(x))
		}
		return r, "(" + as + " " + v.Op.String() + " " + bs + ")", nil
	}
	return 0, "", fmt.Errorf("unsupported int expression at line %v", e.src(x))
}

func c20NodeText(fset *token.FileSet, src []byte, n ast.Node) string {
	return strings.Join(strings.Fields(string(src[fset.Position(n.Pos()).Offset:fset.Position(n.End()).Offset])), " ")
}

// Reference values (the geometry the theorems were developed against). They are
// used ONLY when a piece of pack.go can no longer be translated; every such use is
// recorded in facts.problems, which ends up as `extractProblems` in the generated
// Lean file and breaks the obligation `extract_complete` — the sweep still runs.
var c20Ref = struct {
	marker        string
	b1, b2        int
	bufSize, keep int
}{"\n####ECALSRC####\n", 4096, 28, 4124, 16}

// c20Extract reads the scanner geometry from package cli/tool and the call of
// RunPackedBinary from cli/ecal.go. It follows the CODE, not names: starting at
// RunPackedBinary it searches the functions called from there (transitively, same
// package) for the Read-into-buffer call, the carry-over copy and the skip loop.
// It only fails if the package cannot be read or parsed (then the harness does not
// build either). A piece it cannot POSITIVELY establish is "not translated": the
// reference value is used and an entry is added to facts.problems — it never states a
// negative fact (such as "nothing is kept") that it has not established.
func c20Extract() (*c20Facts, error) {
	dir := filepath.Join(repoDir(), "cli", "tool")
	ents, err := os.ReadDir(dir)
	if err != nil {
		return nil, err
	}
	fset := token.NewFileSet()
	f := &c20Facts{}
	problem := func(format string, a ...interface{}) {
		f.problems = append(f.problems, oneLine(fmt.Sprintf(format, a...)))
	}
	ev := &c20Eval{fset: fset, vars: map[string]ast.Expr{}, facts: f}
	funcs := map[string]*ast.FuncDecl{}
	methods := map[string]*ast.FuncDecl{}
	srcOf := map[*token.File][]byte{}
	text := func(n ast.Node) string {
		tf := fset.File(n.Pos())
		return c20NodeText(fset, srcOf[tf], n)
	}
	var names []string
	for _, e := range ents {
		if !e.IsDir() && strings.HasSuffix(e.Name(), ".go") && !strings.HasSuffix(e.Name(), "_test.go") {
			names = append(names, e.Name())
		}
	}
	sort.Strings(names)
	for _, n := range names {
		path := filepath.Join(dir, n)
		src, err := os.ReadFile(path)
		if err != nil {
			return nil, err
		}
		file, err := parser.ParseFile(fset, path, src, 0)
		if err != nil {
			return nil, err
		}
		srcOf[fset.File(file.Pos())] = src
		for _, d := range file.Decls {
			switch v := d.(type) {
			case *ast.GenDecl:
				if v.Tok != token.VAR && v.Tok != token.CONST {
					continue
				}
				for _, sp := range v.Specs {
					vs := sp.(*ast.ValueSpec)
					for i, nm := range vs.Names {
						if i < len(vs.Values) {
							ev.vars[nm.Name] = vs.Values[i]
						}
					}
				}
			case *ast.FuncDecl:
				if v.Recv == nil && v.Body != nil {
					funcs[v.Name.Name] = v
				}
				if v.Recv != nil && v.Body != nil {
					methods[v.Name.Name] = v
				}
			}
		}
	}
	if me, ok := ev.vars["packmarkerend"]; ok {
		if p, err := ev.str(me); err == nil {
			f.markerEnd = bytes.Join(p, nil)
		} else {
			problem("packmarkerend: %v", err)
		}
	}
	if pm, ok := ev.vars["packmarker"]; ok {
		f.pieceSrc = text(pm)
		if f.pieces, err = ev.str(pm); err != nil {
			problem("packmarker: %v", err)
			f.pieces = nil
		}
		_, f.literalWhole = pm.(*ast.BasicLit)
	} else {
		problem("package variable packmarker not found")
	}
	if f.pieces == nil {
		f.pieces = [][]byte{[]byte(c20Ref.marker)}
		f.pieceSrc += " (NOT TRANSLATED: reference value)"
	}
	f.marker = bytes.Join(f.pieces, nil)
	for _, nm := range []string{"b1", "b2"} {
		ref := c20Ref.b1
		if nm == "b2" {
			ref = c20Ref.b2
		}
		n, s := ref, fmt.Sprint(ref)
		if d, ok := ev.vars[nm]; !ok {
			// not an error: the buffer size may be written differently; bufSize below decides
			s += " /- NOT TRANSLATED: no package variable " + nm + " -/"
		} else if n2, s2, err := ev.num(d); err != nil {
			problem("%v: %v", nm, err)
		} else {
			n, s = n2, s2
		}
		if nm == "b1" {
			f.b1, f.b1Lean = n, s
		} else {
			f.b2, f.b2Lean = n, s
		}
	}

	// functions reachable from RunPackedBinary (same package), breadth first
	var order []*ast.FuncDecl
	if root, ok := funcs["RunPackedBinary"]; !ok {
		problem("func RunPackedBinary not found")
	} else {
		seen := map[string]bool{"RunPackedBinary": true}
		order = append(order, root)
		for i := 0; i < len(order); i++ {
			ast.Inspect(order[i].Body, func(n ast.Node) bool {
				if c, ok := n.(*ast.CallExpr); ok {
					if id, ok := c.Fun.(*ast.Ident); ok {
						if fd, ok := funcs[id.Name]; ok && !seen[id.Name] {
							seen[id.Name] = true
							order = append(order, fd)
						}
					}
				}
				return true
			})
		}
	}

	// per function: local definitions, makes; the first Read into a made buffer; the carry-over copy
	type fnInfo struct {
		defines map[string]ast.Expr
		makes   map[string]ast.Expr
	}
	var bufExpr, keepExpr ast.Expr
	bufName, keepName := "", ""
	var keepLocals map[string]ast.Expr
	keepCopyFound := false
	for _, fd := range order {
		info := fnInfo{map[string]ast.Expr{}, map[string]ast.Expr{}}
		ast.Inspect(fd.Body, func(n ast.Node) bool {
			if v, ok := n.(*ast.AssignStmt); ok {
				for i, l := range v.Lhs {
					id, ok := l.(*ast.Ident)
					if !ok || i >= len(v.Rhs) {
						continue
					}
					if c, ok := v.Rhs[i].(*ast.CallExpr); ok {
						if fn, ok := c.Fun.(*ast.Ident); ok && fn.Name == "make" && len(c.Args) >= 2 {
							info.makes[id.Name] = c.Args[1]
						}
					}
					if v.Tok == token.DEFINE {
						if _, dup := info.defines[id.Name]; !dup {
							info.defines[id.Name] = v.Rhs[i]
						}
					}
				}
			}
			return true
		})
		ast.Inspect(fd.Body, func(n ast.Node) bool {
			c, ok := n.(*ast.CallExpr)
			if !ok {
				return true
			}
			// X.Read(buf) / X.Read(buf[k:]) with buf := make([]byte, E) in this function
			if sel, ok := c.Fun.(*ast.SelectorExpr); ok && sel.Sel.Name == "Read" && len(c.Args) == 1 && bufExpr == nil {
				a := c.Args[0]
				if sl, ok := a.(*ast.SliceExpr); ok {
					a = sl.X
				}
				if id, ok := a.(*ast.Ident); ok {
					if m, ok := info.makes[id.Name]; ok {
						bufName, bufExpr = id.Name, m
					}
				}
			}
			// copy(buf, W[len(W)-K:]) : K names the number of bytes carried over
			if fn, ok := c.Fun.(*ast.Ident); ok && fn.Name == "copy" && len(c.Args) == 2 && !keepCopyFound {
				if sl, ok := c.Args[1].(*ast.SliceExpr); ok && sl.High == nil {
					if be, ok := sl.Low.(*ast.BinaryExpr); ok && be.Op == token.SUB {
						keepCopyFound = true
						keepLocals = info.defines
						if k, ok := be.Y.(*ast.Ident); ok {
							keepName = k.Name
							keepExpr = info.defines[k.Name]
						} else {
							keepName = "(expression)"
							keepExpr = be.Y
						}
					}
				}
			}
			return true
		})
	}
	f.bufSize, f.bufLean, f.bufSrc = c20Ref.bufSize, fmt.Sprint(c20Ref.bufSize), "NOT TRANSLATED: reference value"
	if bufExpr == nil {
		problem("no Read into a buffer made with make([]byte, …) found in the functions reachable from RunPackedBinary")
	} else if n, s, err := ev.num(bufExpr); err != nil {
		problem("size of the read buffer (%v): %v", text(bufExpr), err)
	} else {
		f.bufSize, f.bufLean = n, s
		f.bufSrc = bufName + " := make([]byte, " + text(bufExpr) + ")"
	}
	f.keep, f.keepLean, f.keepSrc = c20Ref.keep, fmt.Sprint(c20Ref.keep), "NOT TRANSLATED: reference value"
	switch {
	case !keepCopyFound:
		problem("no carry-over `copy(buf, window[len(window)-keep:])` recognised in the functions reachable from RunPackedBinary")
	case keepExpr == nil:
		problem("no definition `%v := …` found for the number of bytes carried over", keepName)
	default:
		ev.locals = keepLocals
		n, s, err := ev.num(keepExpr)
		ev.locals = nil
		if err != nil {
			problem("%v := %v: %v", keepName, text(keepExpr), err)
		} else {
			f.keep, f.keepLean = n, s
			f.keepSrc = keepName + " := " + text(keepExpr)
		}
	}

	// the skip loop: an `if … { break }` whose condition is a disjunction containing terms that
	// are pure predicates over unicode.IsX calls (stop when a term holds), or a `for cond { … }`
	// whose condition is a conjunction containing such terms (skip while they hold)
	var pred func(x ast.Expr, b byte, depth int) (bool, bool)
	pred = func(x ast.Expr, b byte, depth int) (bool, bool) {
		if depth > 6 {
			return false, false
		}
		switch v := x.(type) {
		case *ast.ParenExpr:
			return pred(v.X, b, depth)
		case *ast.Ident:
			if v.Name == "true" || v.Name == "false" {
				return v.Name == "true", true
			}
		case *ast.UnaryExpr:
			if v.Op == token.NOT {
				r, ok := pred(v.X, b, depth)
				return !r, ok
			}
		case *ast.BinaryExpr:
			if v.Op == token.LAND || v.Op == token.LOR {
				l, ok1 := pred(v.X, b, depth)
				r, ok2 := pred(v.Y, b, depth)
				if !ok1 || !ok2 {
					return false, false
				}
				if v.Op == token.LAND {
					return l && r, true
				}
				return l || r, true
			}
		case *ast.CallExpr:
			if sel, ok := v.Fun.(*ast.SelectorExpr); ok && len(v.Args) == 1 {
				if x, ok := sel.X.(*ast.Ident); ok && x.Name == "unicode" {
					fn, ok := map[string]func(rune) bool{"IsSpace": unicode.IsSpace, "IsControl": unicode.IsControl,
						"IsPrint": unicode.IsPrint, "IsGraphic": unicode.IsGraphic, "IsLetter": unicode.IsLetter,
						"IsDigit": unicode.IsDigit, "IsPunct": unicode.IsPunct}[sel.Sel.Name]
					if ok {
						return fn(rune(b)), true
					}
				}
			}
			// helper of the same package: one parameter, body = `return <predicate>`
			if id, ok := v.Fun.(*ast.Ident); ok && len(v.Args) == 1 {
				if fd, ok := funcs[id.Name]; ok && len(fd.Body.List) == 1 && fd.Type.Params.NumFields() == 1 {
					if rs, ok := fd.Body.List[0].(*ast.ReturnStmt); ok && len(rs.Results) == 1 {
						return pred(rs.Results[0], b, depth+1)
					}
				}
			}
		}
		return false, false
	}
	mentionsUnicode := func(x ast.Node) bool {
		found := false
		ast.Inspect(x, func(n ast.Node) bool {
			if c, ok := n.(*ast.CallExpr); ok {
				if _, ok := pred(c, 0, 0); ok {
					found = true
				}
			}
			return !found
		})
		return found
	}
	var flatten func(x ast.Expr, op token.Token) []ast.Expr
	flatten = func(x ast.Expr, op token.Token) []ast.Expr {
		if p, ok := x.(*ast.ParenExpr); ok {
			return flatten(p.X, op)
		}
		if be, ok := x.(*ast.BinaryExpr); ok && be.Op == op {
			return append(flatten(be.X, op), flatten(be.Y, op)...)
		}
		return []ast.Expr{x}
	}
	skipFound := false
	var skipTab [256]bool
	for _, fd := range order {
		if skipFound {
			break
		}
		ast.Inspect(fd.Body, func(n ast.Node) bool {
			if skipFound {
				return false
			}
			switch v := n.(type) {
			case *ast.IfStmt:
				if !mentionsUnicode(v.Cond) {
					return true
				}
				hasBreak := false
				for _, st := range v.Body.List {
					if br, ok := st.(*ast.BranchStmt); ok && br.Tok == token.BREAK {
						hasBreak = true
					}
				}
				if !hasBreak {
					problem("condition with unicode predicates that is not `if … { break }`: %v", text(v.Cond))
					return true
				}
				var terms []ast.Expr
				for _, t := range flatten(v.Cond, token.LOR) {
					if mentionsUnicode(t) {
						if _, ok := pred(t, 0, 0); !ok {
							problem("skip condition term not translated: %v", text(t))
							return true
						}
						terms = append(terms, t)
					}
				}
				for b := 0; b < 256; b++ {
					stop := false
					for _, t := range terms {
						r, _ := pred(t, byte(b), 0)
						stop = stop || r
					}
					skipTab[b] = !stop
				}
				skipFound = true
				f.skipSrc = "stop when " + text(v.Cond)
			case *ast.ForStmt:
				if v.Cond == nil || !mentionsUnicode(v.Cond) {
					return true
				}
				var terms []ast.Expr
				for _, t := range flatten(v.Cond, token.LAND) {
					if mentionsUnicode(t) {
						if _, ok := pred(t, 0, 0); !ok {
							problem("skip condition term not translated: %v", text(t))
							return true
						}
						terms = append(terms, t)
					}
				}
				for b := 0; b < 256; b++ {
					skip := true
					for _, t := range terms {
						r, _ := pred(t, byte(b), 0)
						skip = skip && r
					}
					skipTab[b] = skip
				}
				skipFound = true
				f.skipSrc = "skip while " + text(v.Cond)
			}
			return true
		})
	}
	if !skipFound {
		problem("no skip loop over unicode predicates recognised in the functions reachable from RunPackedBinary")
		for b := 0; b < 256; b++ {
			skipTab[b] = unicode.IsSpace(rune(b)) || unicode.IsControl(rune(b))
		}
		f.skipSrc = "NOT TRANSLATED: reference table (unicode.IsSpace || unicode.IsControl)"
	}
	f.skipTab = skipTab

	// which file is scanned: os.Executable() (directly or through a package variable holding it) in the
	// functions reachable from RunPackedBinary; otherwise filepath.Abs(osArgs[0]) must be there
	f.usesOsExe, f.usesOsExeSrc = true, "NOT TRANSLATED: reference value"
	{
		isOsExe := func(x ast.Expr) bool {
			sel, ok := x.(*ast.SelectorExpr)
			if !ok || sel.Sel.Name != "Executable" {
				return false
			}
			id, ok := sel.X.(*ast.Ident)
			return ok && id.Name == "os"
		}
		foundExe, foundAbs := "", ""
		for _, fd := range order {
			ast.Inspect(fd.Body, func(n ast.Node) bool {
				c, ok := n.(*ast.CallExpr)
				if !ok {
					return true
				}
				if isOsExe(c.Fun) {
					foundExe = text(c)
				}
				if id, ok := c.Fun.(*ast.Ident); ok {
					if v, ok := ev.vars[id.Name]; ok && isOsExe(v) {
						foundExe = text(c) + " (" + id.Name + " = os.Executable)"
					}
				}
				if sel, ok := c.Fun.(*ast.SelectorExpr); ok && sel.Sel.Name == "Abs" && len(c.Args) == 1 && strings.Contains(text(c.Args[0]), "osArgs[0]") {
					foundAbs = text(c)
				}
				return true
			})
		}
		switch {
		case foundExe != "":
			f.usesOsExe, f.usesOsExeSrc, f.exeKnown = true, foundExe, true
		case foundAbs != "":
			f.usesOsExe, f.usesOsExeSrc, f.exeKnown = false, foundAbs+" only", true
		default:
			problem("how RunPackedBinary determines the file to scan was not recognised")
		}
	}
	if pm, ok := ev.vars["packmarker"]; ok {
		_, f.markerByCall = pm.(*ast.CallExpr)
	}

	// Pack: how the target file is opened for writing — os.Create truncates, os.OpenFile only with O_TRUNC
	f.truncates, f.truncSrc = true, "NOT TRANSLATED: reference value"
	if pk, ok := methods["Pack"]; !ok {
		problem("method Pack not found")
	} else {
		var opens []ast.Node
		all := true
		ast.Inspect(pk.Body, func(n ast.Node) bool {
			c, ok := n.(*ast.CallExpr)
			if !ok {
				return true
			}
			sel, ok := c.Fun.(*ast.SelectorExpr)
			if !ok {
				return true
			}
			if x, ok := sel.X.(*ast.Ident); !ok || x.Name != "os" {
				return true
			}
			switch sel.Sel.Name {
			case "Create":
				opens = append(opens, c)
			case "OpenFile":
				if len(c.Args) >= 2 {
					flags := text(c.Args[1])
					if strings.Contains(flags, "O_WRONLY") || strings.Contains(flags, "O_RDWR") || strings.Contains(flags, "O_CREATE") {
						opens = append(opens, c)
						if !strings.Contains(flags, "O_TRUNC") {
							all = false
						}
					}
				}
			}
			return true
		})
		if len(opens) > 0 {
			f.truncSrc = text(opens[0])
			f.truncKnown = all // a non-O_TRUNC open proves nothing (Truncate(0) may follow, or it is another file): the sequence cases decide
		}
	}

	// cli/ecal.go: the first statement of main is the unconditional call tool.RunPackedBinary()
	f.mainFirst = true
	mpath := filepath.Join(repoDir(), "cli", "ecal.go")
	if msrc, err := os.ReadFile(mpath); err != nil {
		problem("cli/ecal.go: %v", err)
	} else if mfile, err := parser.ParseFile(fset, mpath, msrc, 0); err != nil {
		problem("cli/ecal.go: %v", err)
	} else {
		isCall := func(st ast.Stmt) bool {
			if es, ok := st.(*ast.ExprStmt); ok {
				if c, ok := es.X.(*ast.CallExpr); ok && len(c.Args) == 0 {
					if sel, ok := c.Fun.(*ast.SelectorExpr); ok && sel.Sel.Name == "RunPackedBinary" {
						return true
					}
				}
			}
			return false
		}
		f.mainSrc = "NOT TRANSLATED (func main not found): reference value"
		var mainFn *ast.FuncDecl
		for _, d := range mfile.Decls {
			if fd, ok := d.(*ast.FuncDecl); ok && fd.Name.Name == "main" && fd.Recv == nil && fd.Body != nil {
				mainFn = fd
			}
		}
		switch {
		case mainFn == nil:
			problem("cli/ecal.go: func main not found")
		case len(mainFn.Body.List) > 0 && isCall(mainFn.Body.List[0]):
			f.mainKnown = true
			f.mainSrc = c20NodeText(fset, msrc, mainFn.Body.List[0])
		default:
			topLevel, nested := false, false
			for _, st := range mainFn.Body.List {
				if isCall(st) {
					topLevel = true
				}
			}
			ast.Inspect(mainFn.Body, func(n ast.Node) bool {
				if c, ok := n.(*ast.CallExpr); ok {
					if sel, ok := c.Fun.(*ast.SelectorExpr); ok && sel.Sel.Name == "RunPackedBinary" {
						nested = true
					}
				}
				return true
			})
			first := ""
			if len(mainFn.Body.List) > 0 {
				first = c20NodeText(fset, msrc, mainFn.Body.List[0])
				if len(first) > 120 {
					first = first[:120] + " …"
				}
			}
			if nested && !topLevel {
				// positively established: the call exists only inside a compound statement
				f.mainFirst = false
				f.mainKnown = true
				f.mainSrc = "the call is nested in: " + first
			} else {
				problem("cli/ecal.go: the first statement of main is not the call tool.RunPackedBinary() (%v); not established whether it is reached unconditionally", first)
				f.mainSrc = "NOT TRANSLATED: reference value; first statement: " + first
			}
		}
	}
	return f, nil
}

func c20LeanBytes(b []byte) string {
	var s []string
	for _, c := range b {
		s = append(s, fmt.Sprint(int(c)))
	}
	return "[" + strings.Join(s, ", ") + "]"
}

func c20LeanFile(f *c20Facts) string {
	var b strings.Builder
	b.WriteString("/-! GENERATED on every run by `harness C20 -tool extract` (go/ast over cli/tool/pack.go) — do not edit.\n")
	b.WriteString("Geometry of the marker scan in RunPackedBinary and the assembly of the marker string. -/\n")
	b.WriteString("namespace Ecal.Gen.C20\n\n")
	fmt.Fprintf(&b, "/-- `packmarkerend` -/\ndef markerEnd : List Nat := %s\n\n", c20LeanBytes(f.markerEnd))
	var ps []string
	for _, p := range f.pieces {
		ps = append(ps, c20LeanBytes(p))
	}
	fmt.Fprintf(&b, "/-- the pieces `packmarker` is assembled from at run time: `%s` -/\ndef markerPieces : List (List Nat) :=\n  [%s]\n\n",
		strings.ReplaceAll(f.pieceSrc, "-/", "- /"), strings.Join(ps, ",\n   "))
	b.WriteString("/-- `packmarker` -/\ndef marker : List Nat := markerPieces.flatten\n\n")
	fmt.Fprintf(&b, "/-- `b1` -/\ndef b1 : Nat := %s\n\n", f.b1Lean)
	fmt.Fprintf(&b, "/-- `b2` -/\ndef b2 : Nat := %s\n\n", f.b2Lean)
	fmt.Fprintf(&b, "/-- size of the buffer handed to `f.Read`: `%s` -/\ndef bufSize : Nat := %s\n\n", f.bufSrc, f.bufLean)
	fmt.Fprintf(&b, "/-- bytes of a block kept for the next window: `%s` -/\ndef keep : Nat := %s\n\n", f.keepSrc, f.keepLean)
	var tab []string
	for i := 0; i < 256; i++ {
		if f.skipTab[i] {
			tab = append(tab, "true")
		} else {
			tab = append(tab, "false")
		}
	}
	fmt.Fprintf(&b, "/-- for every byte value: is it skipped after the marker? Evaluated from the predicate of the skip loop\n    with Go's unicode functions: `%s` -/\ndef skipTable : List Bool :=\n  [%s]\n\n",
		strings.ReplaceAll(strings.ReplaceAll(f.skipSrc, "-/", "- /"), "/-", "/ -"), strings.Join(tab, ", "))
	var probs []string
	for _, p := range f.problems {
		probs = append(probs, strconv.Quote(strings.Map(func(r rune) rune {
			if r < 32 || r > 126 {
				return '?'
			}
			return r
		}, p)))
	}
	fmt.Fprintf(&b, "/-- what the extractor could NOT translate (reference values were used there); must be empty -/\ndef extractProblems : List String := [%s]\n\n", strings.Join(probs, ", "))
	optBool := func(known, v bool) string {
		if !known {
			return "none"
		}
		return fmt.Sprintf("some %v", v)
	}
	esc := func(t string) string { return strings.ReplaceAll(strings.ReplaceAll(t, "-/", "- /"), "/-", "/ -") }
	b.WriteString("/-! Three-valued facts: `some true` / `some false` = established from the source, `none` = not established\n(the check then relies on the correspondence cases alone and amplifies them). -/\n\n")
	fmt.Fprintf(&b, "/-- cli/ecal.go: is the first statement of `main` the unconditional call `tool.RunPackedBinary()`?\n    Found: `%s` -/\ndef mainCallsRunPackedFirst : Option Bool := %s\n\n", esc(f.mainSrc), optBool(f.mainKnown, f.mainFirst))
	fmt.Fprintf(&b, "/-- is the file to scan determined with `os.Executable()`? Found: `%s` -/\ndef locateUsesOsExecutable : Option Bool := %s\n\n", esc(f.usesOsExeSrc), optBool(f.exeKnown, f.usesOsExe))
	fmt.Fprintf(&b, "/-- information only (no obligation; the sequence cases decide): Pack opens the target with `os.Create` / `O_TRUNC`?\n    Found: `%s` -/\ndef targetOpenTruncates : Option Bool := %s\n\n", esc(f.truncSrc), optBool(f.truncKnown, true))
	fmt.Fprintf(&b, "/-- information only (no obligation; case `realbin` is the evidence): `packmarker` is built by a call at run time -/\ndef markerBuiltByCall : Bool := %v\n\n", f.markerByCall)
	b.WriteString("end Ecal.Gen.C20\n")
	return b.String()
}

func c20Tool(args []string) int {
	f, err := c20Extract()
	if err != nil {
		fmt.Fprintln(os.Stderr, "C20 extract:", err)
		return 1
	}
	if len(args) >= 2 && args[0] == "buildcli" {
		if err := c20BuildCLI(args[1]); err != nil {
			fmt.Fprintln(os.Stderr, "C20 buildcli:", err)
			return 1
		}
		return 0
	}
	if len(args) >= 2 && args[0] == "extract" {
		if err := os.WriteFile(args[1], []byte(c20LeanFile(f)), 0644); err != nil {
			fmt.Fprintln(os.Stderr, err)
			return 1
		}
		return 0
	}
	fmt.Printf("marker=%q b1=%d b2=%d bufSize=%d keep=%d skip=%v\n", f.marker, f.b1, f.b2, f.bufSize, f.keep, f.skipSrc)
	for _, p := range f.problems {
		fmt.Println("problem:", p)
	}
	return 0
}

// ---------------------------------------------------------------- deterministic binaries

// c20Fill writes the filler of kind k into b (same function in lean/Ecal/Drivers/C20.lean).
func c20Fill(b []byte, kind int, seed uint64) {
	switch kind {
	case 0: // letters only: no '#', no newline
		for i := range b {
			b[i] = byte(97 + i%23)
		}
	case 1: // a '#' every 61 bytes (so in every block), a newline every 127 bytes
		for i := range b {
			switch {
			case i%61 == 60:
				b[i] = '#'
			case i%127 == 126:
				b[i] = '\n'
			default:
				b[i] = byte(97 + i%23)
			}
		}
	default: // pseudo-random bytes (LCG)
		x := seed % 2147483648
		for i := range b {
			x = (x*1103515245 + 12345) % 2147483648
			b[i] = byte((x / 65536) % 256)
		}
	}
}

type c20Plant struct {
	off  int
	data []byte
}

func c20ParsePlants(s string) []c20Plant {
	if s == "-" {
		return nil
	}
	var ps []c20Plant
	for _, p := range strings.Split(s, ",") {
		f := strings.SplitN(p, ":", 2)
		off, err := strconv.Atoi(f[0])
		if err != nil {
			panic("bad plant " + p)
		}
		ps = append(ps, c20Plant{off, []byte(unhx(f[1]))})
	}
	return ps
}

func c20PlantStr(ps []c20Plant) string {
	if len(ps) == 0 {
		return "-"
	}
	var s []string
	for _, p := range ps {
		s = append(s, fmt.Sprintf("%d:%s", p.off, hx(string(p.data))))
	}
	return strings.Join(s, ",")
}

// ---------------------------------------------------------------- project trees

type c20Tree struct {
	dir   string            // directory on disk
	files map[string]string // zip path -> content
	entry string            // entry program template; %d is replaced by the number to return
	// refuse: the pack tool must not build an executable from this tree but report an error (a root
	// file with the reserved name .ecalsrc-entry; a symbolic link it cannot pack as a file)
	refuse bool
	ignore map[string]bool // archive members that are not compared (the target file itself when it lies inside the project)
	// what the entry returns for rc
}

var (
	c20Scratch string
	c20CLIAbs  string
	c20Trees   []*c20Tree
	c20Buf     []byte
	c20Hook    struct {
		archive  bool
		pos, len int64
		files    map[string]string
		filesErr error
		filesHit bool
	}
)

func c20AllBytes() string {
	b := make([]byte, 0, 700)
	for i := 0; i < 256; i++ {
		b = append(b, byte(i))
	}
	for i := 255; i >= 0; i-- {
		b = append(b, byte(i), byte(i))
	}
	return string(b)
}

func c20Setup() {
	wd, err := os.Getwd()
	check(err)
	c20Scratch, err = os.MkdirTemp(wd, "c20-scratch-")
	check(err)
	c20CLIAbs = filepath.Join(wd, c20CLIName)
	f, err := c20Extract()
	check(err)
	marker := string(f.marker)
	lib := "func add(a, b) {\n    return a + b\n}\n"
	deep := "import \"lib/a.ecal\" as a\nfunc twice(x) {\n    return a.add(x, x)\n}\n"
	specs := []struct {
		files map[string]string
		entry string
	}{
		// 0: the smallest project — one file; the entry returns its number
		{map[string]string{"readme.txt": "hello"}, "x := %d\nx\n"},
		// 1: nested directories, the entry imports through two levels
		{map[string]string{"lib/a.ecal": lib, "lib/sub/deep/d.ecal": deep, "main.ecal": "return 1\n"},
			"import \"lib/sub/deep/d.ecal\" as d\nimport \"lib/a.ecal\" as a\na.add(d.twice(%d), 0) / 2\n"},
		// 2: empty file, binary file with every byte value, file names with spaces / dots / UTF-8
		{map[string]string{"empty.txt": "", "data/all.bin": c20AllBytes(), "data/with space.txt": " \n\t", "data/.hidden": "h",
			"data/ü/ö.txt": "äöü", "lib/a.ecal": lib, ".git/config": "[core]\n", ".a/.b/c.txt": "hidden directories", "lib/.cache/x": "x"},
			"import \"lib/a.ecal\" as a\na.add(%d, 0)\n"},
		// 3: files that contain the marker, '#' runs and a zip signature themselves
		{map[string]string{"m/marker.txt": "x" + marker + "y" + marker, "m/hash.txt": strings.Repeat("#", 5000),
			"m/pk.bin": "PK\x03\x04PK\x05\x06" + strings.Repeat("\x00", 40), "m/nl.txt": "\n\n\n"},
			"x := %d\nx\n"},
		// 4: a larger compressible and an incompressible file (archive spans many scan blocks)
		{map[string]string{"big/zeros.bin": strings.Repeat("\x00", 70000), "big/rand.bin": c20RandString(50000, 7),
			"big/deep/er/still/deeper/x.txt": "x"},
			"x := %d\nx\n"},
		// 5: many small files in many directories
		{c20Many(), "x := %d\nx\n"},
		// 6: a root file with the name the archive reserves for the entry (an impostor that would
		//    return 99) — the pack tool has to refuse the project; in a sub directory it is harmless
		{map[string]string{".ecalsrc-entry": "log(\"IMPOSTOR\")\n99\n", "sub/.ecalsrc-entry": "harmless", "main.ecal": "1\n"}, "x := %d\nx\n"},
		// 7: the reserved name only in a sub directory: an ordinary project
		{map[string]string{"sub/.ecalsrc-entry": "harmless", "lib/a.ecal": lib}, "import \"lib/a.ecal\" as a\na.add(%d, 0)\n"},
		// 8: a symbolic link to a directory (see links below): cannot be packed as a file — refuse
		{map[string]string{"real/x.ecal": lib, "main.ecal": "1\n"}, "x := %d\nx\n"},
		// 9: a dangling symbolic link, followed (in name order) by other entries — refuse
		{map[string]string{"a.txt": "a", "z/last.txt": "z"}, "x := %d\nx\n"},
	}
	// 10: files around 2^16 and 2^20 bytes and one of 3 MB (compressible)
	big := map[string]string{}
	for _, sz := range []int{65535, 65536, 65537, 1<<20 - 1, 1 << 20, 1<<20 + 1, 3 << 20} {
		b := make([]byte, sz)
		c20Fill(b, 1, 0)
		big[fmt.Sprintf("large/f%d.dat", sz)] = string(b)
	}
	specs = append(specs, struct {
		files map[string]string
		entry string
	}{big, "x := %d\nx\n"})
	// 11: the entry imports through spellings that work when the program is run from disk
	specs = append(specs, struct {
		files map[string]string
		entry string
	}{map[string]string{"lib/a.ecal": lib, "x/y.txt": "y"},
		"import \"./lib/a.ecal\" as a\nimport \"lib//a.ecal\" as b\nimport \"x/../lib/a.ecal\" as c\na.add(b.add(%d, 0), c.add(0, 0))\n"})
	links := map[int]map[string]string{8: {"alink": "real"}, 9: {"blink": "nowhere", "y/inner": "../missing"}}
	for k, s := range specs {
		t := &c20Tree{dir: filepath.Join(c20Scratch, fmt.Sprintf("tree%d", k)), files: s.files, entry: s.entry}
		_, collides := s.files[".ecalsrc-entry"]
		t.refuse = collides || len(links[k]) > 0
		check(os.MkdirAll(t.dir, 0755))
		for name, content := range s.files {
			p := filepath.Join(t.dir, filepath.FromSlash(name))
			check(os.MkdirAll(filepath.Dir(p), 0755))
			check(os.WriteFile(p, []byte(content), 0644))
		}
		for name, dest := range links[k] {
			p := filepath.Join(t.dir, filepath.FromSlash(name))
			check(os.MkdirAll(filepath.Dir(p), 0755))
			check(os.Symlink(dest, p))
		}
		// an empty directory: not a file, must not disturb anything
		check(os.MkdirAll(filepath.Join(t.dir, "emptydir", "nested"), 0755))
		c20Trees = append(c20Trees, t)
	}
	verifhook.SetHandler(func(point string, args ...interface{}) {
		switch point {
		case "pack.archive":
			c20Hook.archive = true
			c20Hook.pos, _ = args[0].(int64)
			c20Hook.len, _ = args[1].(int64)
		case "pack.files":
			c20Hook.filesHit = true
			c20Hook.files, _ = args[0].(map[string]string)
			c20Hook.filesErr, _ = args[1].(error)
		}
	})
	tool.VerifSetOsStderr(io.Discard)
	log.SetOutput(io.Discard) // util.StdOutLogger of in-process runs
}

func c20RandString(n int, seed uint64) string {
	b := make([]byte, n)
	c20Fill(b, 2, seed)
	return string(b)
}

func c20Many() map[string]string {
	m := map[string]string{}
	for i := 0; i < 40; i++ {
		m[fmt.Sprintf("d%d/e%d/f%d.txt", i%5, i%3, i)] = strings.Repeat(fmt.Sprint(i), i)
	}
	return m
}

// ---------------------------------------------------------------- the real executable

const c20CLIName = "ecal-cli"
const c20Token = "C20-ENTRY-RAN"

// c20BuildCLI builds the plain command line program (package main in cli/, no build
// tags) of the tree under test into out. go.mod/go.sum are copied next to the output so
// that nothing is written into the source tree (-modfile).
func c20BuildCLI(out string) error {
	out, err := filepath.Abs(out)
	if err != nil {
		return err
	}
	dir := out + ".mod"
	if err := os.MkdirAll(dir, 0755); err != nil {
		return err
	}
	for _, n := range []string{"go.mod", "go.sum"} {
		b, err := os.ReadFile(filepath.Join(repoDir(), n))
		if err != nil {
			return err
		}
		if err := os.WriteFile(filepath.Join(dir, n), b, 0644); err != nil {
			return err
		}
	}
	tmp := fmt.Sprintf("%s.%d.tmp", out, os.Getpid())
	cmd := exec.Command("go", "build", "-modfile="+filepath.Join(dir, "go.mod"), "-o", tmp, "./cli")
	cmd.Dir = repoDir()
	cmd.Env = append(os.Environ(), "GOFLAGS=-mod=mod", "GOPROXY=off", "GOSUMDB=off", "CGO_ENABLED=0")
	if o, err := cmd.CombinedOutput(); err != nil {
		return fmt.Errorf("go build ./cli: %v: %s", err, oneLine(string(o)))
	}
	return os.Rename(tmp, out)
}

// c20CLIPath returns the CLI executable built for this run (builds it for single-case runs).
func c20CLIPath() (string, error) {
	cli := c20CLIAbs
	if _, err := os.Stat(cli); err != nil {
		if err := c20BuildCLI(cli); err != nil {
			return "", err
		}
	}
	return cli, nil
}

// c20MainWords returns the string literals of cli/ecal.go that look like a command line word.
func c20MainWords() []string {
	path := filepath.Join(repoDir(), "cli", "ecal.go")
	fset := token.NewFileSet()
	file, err := parser.ParseFile(fset, path, nil, 0)
	if err != nil {
		return nil
	}
	var ws []string
	ast.Inspect(file, func(n ast.Node) bool {
		if bl, ok := n.(*ast.BasicLit); ok && bl.Kind == token.STRING {
			if v, err := strconv.Unquote(bl.Value); err == nil && len(v) > 0 && len(v) <= 20 && !strings.ContainsAny(v, " \t\n%/") {
				ws = append(ws, v)
			}
		}
		return true
	})
	sort.Strings(ws)
	return ws
}

// c20RunProc: payload `proc <tree> <rc> <arg-hex,arg-hex…|->`. The real CLI binary is
// packed with the real packer and started as a child process with the arguments.
// result: `proc srcmarker=<0|1> exit=<code> entry=<ran|notrun> clean=<0|1>` — clean: nothing
// but the entry's own log line was printed (no usage text, prompt or error of the plain CLI).
func c20RunProc(fs []string) string {
	form := "abs"
	if len(fs) == 5 {
		form = fs[4]
	} else if len(fs) != 4 {
		return "bad-payload"
	}
	treeNo, _ := strconv.Atoi(fs[1])
	rc, _ := strconv.Atoi(fs[2])
	var args []string
	if fs[3] != "-" {
		for _, a := range strings.Split(fs[3], ",") {
			args = append(args, unhx(a))
		}
	}
	tree := c20Trees[treeNo]
	cli, err := c20CLIPath()
	if err != nil {
		return "ERR " + oneLine(err.Error())
	}
	bin, err := os.ReadFile(cli)
	if err != nil {
		return "ERR " + oneLine(err.Error())
	}
	// hypothesis of scan_finds_archive for the real interpreter: no marker occurrence starts inside it
	mk := c20FactsCached().marker
	srcmarker := 0
	if bytes.Contains(append(append([]byte{}, bin[max(0, len(bin)-len(mk)):]...), mk[:len(mk)-1]...), mk) || bytes.Contains(bin, mk) {
		srcmarker = 1
	}
	dst := filepath.Join(c20Scratch, "app.bin")
	entry := filepath.Join(c20Scratch, "entry.ecal")
	cwd := filepath.Join(c20Scratch, "cwd")
	os.RemoveAll(cwd)
	if err := os.MkdirAll(cwd, 0755); err != nil {
		return "ERR " + oneLine(err.Error())
	}
	defer os.Remove(dst)
	defer os.RemoveAll(cwd)
	entryText := "log(\"" + c20Token + "\")\n" + fmt.Sprintf(tree.entry, rc)
	if err := os.WriteFile(entry, []byte(entryText), 0644); err != nil {
		return "ERR " + oneLine(err.Error())
	}
	p := tool.NewCLIPacker()
	p.LogOut = io.Discard
	p.Dir, p.SourceBinary, p.TargetBinary, p.EntryFile = &tree.dir, &cli, &dst, entry
	if err := p.Pack(); err != nil {
		return "ERR pack " + oneLine(err.Error())
	}
	os.Chmod(dst, 0755)
	ctx, cancel := context.WithTimeout(context.Background(), 6*time.Second) // below the per-case limit
	defer cancel()
	// how the executable is started: what argv[0] and the working directory look like
	cmd := exec.CommandContext(ctx, dst, args...)
	cmd.Dir = cwd
	switch form {
	case "abs": // absolute path
	case "bare", "decoy": // found through $PATH by a shell: argv[0] is the bare name, cwd is elsewhere
		cmd.Args[0] = filepath.Base(dst)
		if form == "decoy" { // … and the cwd has an unrelated file of the same name
			if err := os.WriteFile(filepath.Join(cwd, filepath.Base(dst)), []byte("an unrelated file\n"), 0644); err != nil {
				return "ERR " + oneLine(err.Error())
			}
		}
	case "rel": // ./app.bin from its directory
		cmd = exec.CommandContext(ctx, "./"+filepath.Base(dst), args...)
		cmd.Dir = filepath.Dir(dst)
	case "dotdot": // cwd/../app.bin
		cmd = exec.CommandContext(ctx, "cwd/../"+filepath.Base(dst), args...)
		cmd.Dir = filepath.Dir(dst)
	case "symlink": // through a symbolic link with another name in another directory
		link := filepath.Join(cwd, "link-to-app")
		if err := os.Symlink(dst, link); err != nil {
			return "ERR " + oneLine(err.Error())
		}
		cmd = exec.CommandContext(ctx, link, args...)
		cmd.Dir = cwd
	default:
		return "bad-payload"
	}
	cmd.Stdin = strings.NewReader("")
	cmd.Env = append(os.Environ(), "HOME="+cwd)
	out, err := cmd.CombinedOutput()
	code := 0
	if ctx.Err() != nil {
		// reported like a hang of the harness: the check re-runs such a case alone before it is believed
		return "HANG child process did not end within 6s"
	}
	if err != nil {
		ee, ok := err.(*exec.ExitError)
		if !ok {
			return "ERR start " + oneLine(err.Error())
		}
		code = ee.ExitCode()
	}
	ran, clean := "notrun", 1
	for _, l := range strings.Split(string(out), "\n") {
		if strings.Contains(l, c20Token) {
			ran = "ran"
		} else if strings.TrimSpace(l) != "" {
			clean = 0
		}
	}
	CountRun("process started")
	if clean == 0 {
		CountRun("process printed something besides the entry's log line (not compared)")
	}
	return fmt.Sprintf("proc srcmarker=%d exit=%d entry=%s", srcmarker, code, ran)
}

// ---------------------------------------------------------------- one case

// c20RunRealBin: payload `realbin`. The hypothesis of scan_finds_archive checked on the REAL interpreter
// binary built from the tree under test: in `bin ++ marker` the first occurrence of the marker is at
// |bin| (so neither a string constant of the Go binary nor a straddling tail is taken for the marker),
// and started as it is (not packed) RunPackedBinary falls through (plain_binary_falls_through).
// result: realbin hbin=<1|0:first-occurrence-at-N> plain=<fall|…>
func c20RunRealBin() string {
	cli, err := c20CLIPath()
	if err != nil {
		return "ERR " + oneLine(err.Error())
	}
	bin, err := os.ReadFile(cli)
	if err != nil {
		return "ERR " + oneLine(err.Error())
	}
	mk := c20FactsCached().marker
	hbin := "1"
	if i := bytes.Index(append(append([]byte{}, bin...), mk...), mk); i != len(bin) {
		hbin = fmt.Sprintf("0:first-occurrence-at-%d-of-%d", i, len(bin))
	}
	// the longest beginning of the marker that occurs in the binary (information only)
	longest := 0
	for k := len(mk) - 1; k > 0; k-- {
		if bytes.Contains(bin, mk[:k]) {
			longest = k
			break
		}
	}
	CountRun(fmt.Sprintf("real interpreter binary: %d bytes, longest marker prefix inside it: %d of %d bytes", len(bin), longest, len(mk)))
	r := strings.Split(c20ExecInProcess(cli, -1, c20Trees[0], 0, ""), " ")
	return "realbin hbin=" + hbin + " plain=" + r[len(r)-1]
}

// c20RunOut: payload `out <variant> <n> <k> <rc>` — what happens AFTER the scan (model: `outcome`):
// ok | badzip (end record destroyed) | emptyzip (file ends after the marker) | parseerr | rterr
// (runtime error: printed, exit 0) | string (result is not a number: exit 0) | float (7.9 -> 7) | negative |
// exesuffix (the file is app.exe, the program is started as app: the suffix branch meant for Windows).
// result: out off=<pos> <exit=<rc>|fail|fall>
func c20RunOut(fs []string) string {
	if len(fs) != 5 {
		return "bad-payload"
	}
	variant := fs[1]
	n, _ := strconv.Atoi(fs[2])
	k, _ := strconv.Atoi(fs[3])
	rc, _ := strconv.Atoi(fs[4])
	entryText := fmt.Sprintf("x := %d\nx\n", rc)
	switch variant {
	case "parseerr":
		entryText = "x := := 1\n"
	case "rterr":
		entryText = "raise(\"boom\")\n"
	case "string":
		entryText = "\"abc\"\n"
	case "float":
		entryText = fmt.Sprintf("%d.9\n", rc)
	case "negative":
		entryText = fmt.Sprintf("0 - %d\n", rc)
	}
	src := filepath.Join(c20Scratch, "out-source.bin")
	dst := filepath.Join(c20Scratch, "out-packed.bin")
	entry := filepath.Join(c20Scratch, "out-entry.ecal")
	defer os.Remove(src)
	defer os.Remove(dst)
	bin := make([]byte, n)
	c20Fill(bin, k, 0)
	if os.WriteFile(src, bin, 0644) != nil || os.WriteFile(entry, []byte(entryText), 0644) != nil {
		return "ERR write"
	}
	if variant == "srcistarget" || variant == "srcistarget-link" {
		// -source X -target X (also through a hard link): the tool must refuse, X stays what it was
		tgt := src
		if variant == "srcistarget-link" {
			tgt = filepath.Join(c20Scratch, "out-link.bin")
			os.Remove(tgt)
			if err := os.Link(src, tgt); err != nil {
				return "ERR link"
			}
			defer os.Remove(tgt)
		}
		p := tool.NewCLIPacker()
		p.LogOut = io.Discard
		p.Dir, p.SourceBinary, p.TargetBinary, p.EntryFile = &c20Trees[0].dir, &src, &tgt, entry
		err := p.Pack()
		after, _ := os.ReadFile(src)
		intact := "source-intact"
		if !bytes.Equal(after, bin) {
			intact = fmt.Sprintf("source-destroyed:%d-bytes-left", len(after))
		}
		if err != nil {
			return "out pack-refused " + intact
		}
		return "out packed " + intact
	}
	p := tool.NewCLIPacker()
	p.LogOut = io.Discard
	p.Dir, p.SourceBinary, p.TargetBinary, p.EntryFile = &c20Trees[0].dir, &src, &dst, entry
	if err := p.Pack(); err != nil {
		return "ERR pack " + oneLine(err.Error())
	}
	start := n + len(c20FactsCached().marker)
	exe := dst
	switch variant {
	case "bothexist-text", "bothexist-packed":
		// a sibling app.exe next to the started app (a release directory): app is what runs
		sib := dst + ".exe"
		defer os.Remove(sib)
		if variant == "bothexist-text" {
			if err := os.WriteFile(sib, []byte("MZ this is not the program\n"), 0755); err != nil {
				return "ERR write"
			}
		} else {
			other := filepath.Join(c20Scratch, "out-entry2.ecal")
			os.WriteFile(other, []byte(fmt.Sprintf("x := %d\nx\n", rc+100)), 0644)
			q := tool.NewCLIPacker()
			q.LogOut = io.Discard
			q.Dir, q.SourceBinary, q.TargetBinary, q.EntryFile = &c20Trees[0].dir, &src, &sib, other
			if err := q.Pack(); err != nil {
				return "ERR pack2 " + oneLine(err.Error())
			}
		}
	case "exesuffix":
		// the branch for Windows: the name the program was started with lacks the suffix of the file
		os.Remove(dst + ".exe")
		if err := os.Rename(dst, dst+".exe"); err != nil {
			return "ERR rename"
		}
		defer os.Remove(dst + ".exe")
	case "badzip":
		data, _ := os.ReadFile(dst)
		for i := len(data) - 22; i < len(data); i++ {
			data[i] = 0
		}
		os.WriteFile(dst, data, 0755)
	case "emptyzip":
		os.Truncate(dst, int64(start))
	}
	r := strings.Split(c20ExecInProcess(exe, int64(start), c20Trees[0], 0, entryText), " ")
	return "out " + r[0]
}

// c20RandomTree builds a random project under dir: names with spaces, UTF-8, ':', '\\', quotes, long
// names; depth up to 5; empty, small, block-sized and large files, some containing the marker.
func c20RandomTree(r *Rand, dir string, maxFiles int) map[string]string {
	names := []string{"a", "b.ecal", "with space", "ü", "x:y", "back\\slash", "-dash", ".dot", "UPPER", "#hash", "%25", "'q'", "\"dq\"",
		"tab\there", strings.Repeat("long", 40), "日本", "a.b.c", "~tilde", "{brace}", "semi;colon", "amp&", "star*", "q?"}
	files := map[string]string{}
	nf := 1 + r.Intn(maxFiles)
	marker := string(c20FactsCached().marker)
	for i := 0; i < nf; i++ {
		depth := r.Intn(6)
		var parts []string
		for d := 0; d < depth; d++ {
			if r.Intn(3) == 0 { // also directories called `.dot`, `-dash`, `with space`, …
				parts = append(parts, names[r.Intn(len(names))])
			} else {
				parts = append(parts, "d"+names[r.Intn(len(names))])
			}
		}
		parts = append(parts, fmt.Sprintf("f%d-%s", i, names[r.Intn(len(names))]))
		name := strings.Join(parts, "/")
		var size int
		switch r.Intn(10) {
		case 0:
			size = 0
		case 1, 2, 3, 4:
			size = r.Intn(200)
		case 5, 6:
			size = 4000 + r.Intn(300)
		case 7, 8:
			size = r.Intn(20000)
		default:
			size = 60000 + r.Intn(250000)
		}
		b := make([]byte, size)
		c20Fill(b, 1+r.Intn(2), r.U64()%2147483648)
		if r.Intn(6) == 0 && size > len(marker) {
			copy(b[r.Intn(size-len(marker)):], marker)
		}
		files[name] = string(b)
	}
	for name, content := range files {
		p := filepath.Join(dir, filepath.FromSlash(name))
		check(os.MkdirAll(filepath.Dir(p), 0755))
		check(os.WriteFile(p, []byte(content), 0644))
	}
	return files
}

// c20RunRandomTree: payload `rt <seed> <n> <k> <rc> <args|cli>` — a random project tree with the entry
// file INSIDE the project (the normal use), for some seeds also source and/or target inside it, packed
// through the tool's OWN COMMAND LINE: `args` = CLIPacker.ParseArgs in-process from
// `<source> pack -dir D [-source S] -target T entry`; `cli` = the real CLI as child process,
// `ecal-cli pack -target T entry` started IN the project directory (default -dir = cwd, default
// -source = the CLI itself). Then run in-process.
// result: rt off=<pos|cli+k> exit=<rc> files=ok | …
func c20RunRandomTree(fs []string) string {
	if len(fs) != 6 {
		return "bad-payload"
	}
	seed, _ := strconv.ParseUint(fs[1], 10, 64)
	n, _ := strconv.Atoi(fs[2])
	k, _ := strconv.Atoi(fs[3])
	rc, _ := strconv.Atoi(fs[4])
	via := fs[5]
	r := NewRand(seed)
	root := filepath.Join(c20Scratch, "rt")
	os.RemoveAll(root)
	dir := filepath.Join(root, "project")
	check(os.MkdirAll(dir, 0755))
	defer os.RemoveAll(root)
	files := c20RandomTree(r, dir, 40)
	tree := &c20Tree{dir: dir, files: files, ignore: map[string]bool{}}
	// the entry inside the project
	entryRel := []string{"main.ecal", "src/main.ecal", "a/b/c/start.ecal"}[r.Intn(3)]
	entryText := fmt.Sprintf("x := %d\nx\n", rc)
	entry := filepath.Join(dir, filepath.FromSlash(entryRel))
	check(os.MkdirAll(filepath.Dir(entry), 0755))
	check(os.WriteFile(entry, []byte(entryText), 0644))
	files[entryRel] = entryText
	src := filepath.Join(root, "interpreter.bin")
	dst := filepath.Join(root, "app.bin")
	srcLen := n
	if via == "args" {
		bin := make([]byte, n)
		c20Fill(bin, k, 0)
		if r.Intn(4) == 0 { // the source binary lies inside the project
			src = filepath.Join(dir, "interpreter.bin")
			files["interpreter.bin"] = string(bin)
		}
		check(os.WriteFile(src, bin, 0755))
	}
	if r.Intn(4) == 0 { // the target lies inside the project: it packs (a part of) itself
		dst = filepath.Join(dir, "out.bin")
		tree.ignore["out.bin"] = true
	}
	// how the project directory (and the entry) is spelled on the command line: clean absolute path,
	// or relative to the working directory in several unclean forms
	spelling := r.Intn(7)
	dirArg, entryArg := dir, entry
	if spelling > 0 {
		relDir := []string{"", "rt/project", "./rt/project", "rt/project/", "rt/../rt/project", "rt//project", "./rt/./project/."}[spelling]
		dirArg = relDir
		if r.Intn(2) == 0 {
			entryArg = "rt/project/" + entryRel // the entry relative to the working directory as well
		}
	}
	switch via {
	case "args":
		if spelling > 0 {
			wd, err := os.Getwd()
			if err != nil || os.Chdir(c20Scratch) != nil {
				return "ERR chdir"
			}
			defer os.Chdir(wd)
		}
		args := []string{src, "pack", "-dir", dirArg}
		if r.Intn(2) == 0 {
			args = append(args, "-source", src) // otherwise the default: the running binary = osArgs[0]
		}
		args = append(args, "-target", dst, entryArg)
		flag.CommandLine = flag.NewFlagSet("harness", flag.ContinueOnError)
		flag.CommandLine.SetOutput(io.Discard)
		old := tool.VerifSetOsArgs(args)
		p := tool.NewCLIPacker()
		p.LogOut = io.Discard
		err := p.Pack()
		tool.VerifSetOsArgs(old)
		if err != nil {
			return "rt pack-error " + oneLine(err.Error())
		}
	case "cli":
		cli, err := c20CLIPath()
		if err != nil {
			return "ERR " + oneLine(err.Error())
		}
		st, err := os.Stat(cli)
		if err != nil {
			return "ERR " + oneLine(err.Error())
		}
		srcLen = int(st.Size())
		ctx, cancel := context.WithTimeout(context.Background(), 6*time.Second)
		defer cancel()
		cmd := exec.CommandContext(ctx, cli, "pack", "-target", dst, entryRel)
		cmd.Dir = dir
		if spelling > 0 { // -dir given in an unclean relative spelling, the working directory is elsewhere
			cmd = exec.CommandContext(ctx, cli, "pack", "-dir", dirArg, "-target", dst, entryArg)
			cmd.Dir = c20Scratch
		}
		cmd.Stdin = strings.NewReader("")
		out, err := cmd.CombinedOutput()
		if ctx.Err() != nil {
			return "HANG child process did not end within 6s"
		}
		if err != nil || strings.Contains(string(out), "Error:") {
			return "rt pack-error " + oneLine(string(out))
		}
	default:
		return "bad-payload"
	}
	res := c20ExecInProcess(dst, int64(srcLen+len(c20FactsCached().marker)), tree, -1, entryText)
	return "rt " + res
}

// c20TreeNo parses the tree field: a number, followed by `r` if the pack tool has to refuse the tree.
func c20TreeNo(s string) int {
	n, _ := strconv.Atoi(strings.TrimSuffix(s, "r"))
	return n
}

func c20TreeTok(t int) string {
	if c20Trees[t].refuse {
		return fmt.Sprintf("%dr", t)
	}
	return fmt.Sprint(t)
}

func c20Run(payload string) string {
	fs := strings.Split(payload, " ")
	if fs[0] == "proc" {
		return c20RunProc(fs)
	}
	if fs[0] == "seq" {
		return c20RunSeq(fs)
	}
	if fs[0] == "out" {
		return c20RunOut(fs)
	}
	if fs[0] == "realbin" {
		return c20RunRealBin()
	}
	if fs[0] == "rt" {
		return c20RunRandomTree(fs)
	}
	if len(fs) != 9 {
		return "bad-payload"
	}
	packed := fs[0] == "1"
	n, _ := strconv.Atoi(fs[1])
	kind, _ := strconv.Atoi(fs[2])
	seed, _ := strconv.ParseUint(fs[3], 10, 64)
	plants := c20ParsePlants(fs[4])
	ws := unhx(fs[5])
	treeNo := c20TreeNo(fs[6])
	rc, _ := strconv.Atoi(fs[7])
	zip4 := unhx(fs[8])
	tree := c20Trees[treeNo]

	if kind == 3 {
		return c20RunSparse(n, tree, treeNo, rc, zip4)
	}
	if cap(c20Buf) < n {
		c20Buf = make([]byte, n+4096)
	}
	bin := c20Buf[:n]
	c20Fill(bin, kind, seed)
	for _, p := range plants {
		if p.off < 0 || p.off+len(p.data) > n {
			return "bad-plant"
		}
		copy(bin[p.off:], p.data)
	}
	src := filepath.Join(c20Scratch, "source.bin")
	dst := filepath.Join(c20Scratch, "packed.bin")
	entry := filepath.Join(c20Scratch, "entry.ecal")
	defer os.Remove(src)
	defer os.Remove(dst)
	if err := os.WriteFile(src, bin, 0644); err != nil {
		return "ERR write " + oneLine(err.Error())
	}
	entryText := fmt.Sprintf(tree.entry, rc)
	exe := src
	trueStart := int64(-1)
	if packed {
		if err := os.WriteFile(entry, []byte(entryText), 0644); err != nil {
			return "ERR write " + oneLine(err.Error())
		}
		p := tool.NewCLIPacker()
		p.LogOut = io.Discard
		p.Dir, p.SourceBinary, p.TargetBinary, p.EntryFile = &tree.dir, &src, &dst, entry
		if err := p.Pack(); err != nil {
			// the pack tool reported an error instead of building an executable
			CountRun("pack refused")
			return "pack-refused"
		}
		exe = dst
		data, err := os.ReadFile(dst)
		if err != nil {
			return "ERR read " + oneLine(err.Error())
		}
		// the layout the model assumes: source ++ marker ++ archive starting with the zip signature
		if len(data) < n || !bytes.Equal(data[:n], bin) {
			return "LAYOUT source-not-copied"
		}
		rest := data[n:]
		mk := c20FactsCached().marker
		if !bytes.HasPrefix(rest, mk) {
			return "LAYOUT marker-not-after-source"
		}
		if !bytes.HasPrefix(rest[len(mk):], []byte(zip4)) {
			return "LAYOUT archive-signature " + hx(string(rest[len(mk):len(mk)+4]))
		}
		trueStart = int64(n + len(mk) + len(ws))
		if ws != "" {
			// a variant of the layout with white-space between marker and archive
			// (what the skip loop of RunPackedBinary is for)
			nd := append(append(append([]byte{}, data[:n+len(mk)]...), ws...), rest[len(mk):]...)
			if err := os.WriteFile(dst, nd, 0755); err != nil {
				return "ERR write " + oneLine(err.Error())
			}
		}
	}

	return c20ExecInProcess(exe, trueStart, tree, treeNo, entryText)
}

// c20RunSparse: a source binary of n zero bytes created as a sparse file (interpreters of 16 MB … 512 MB:
// "of any size"); only the tail of the packed file is read back for the layout check.
func c20RunSparse(n int, tree *c20Tree, treeNo, rc int, zip4 string) string {
	src := filepath.Join(c20Scratch, "sparse-source.bin")
	dst := filepath.Join(c20Scratch, "sparse-packed.bin")
	entry := filepath.Join(c20Scratch, "entry.ecal")
	defer os.Remove(src)
	defer os.Remove(dst)
	f, err := os.Create(src)
	if err != nil {
		return "ERR " + oneLine(err.Error())
	}
	err = f.Truncate(int64(n))
	f.Close()
	if err != nil {
		return "ERR truncate " + oneLine(err.Error())
	}
	entryText := fmt.Sprintf(tree.entry, rc)
	if err := os.WriteFile(entry, []byte(entryText), 0644); err != nil {
		return "ERR write " + oneLine(err.Error())
	}
	p := tool.NewCLIPacker()
	p.LogOut = io.Discard
	p.Dir, p.SourceBinary, p.TargetBinary, p.EntryFile = &tree.dir, &src, &dst, entry
	if err := p.Pack(); err != nil {
		return "pack-refused"
	}
	mk := c20FactsCached().marker
	d, err := os.Open(dst)
	if err != nil {
		return "ERR " + oneLine(err.Error())
	}
	tail := make([]byte, len(mk)+4)
	_, err = d.ReadAt(tail, int64(n))
	d.Close()
	if err != nil || !bytes.HasPrefix(tail, mk) || !bytes.HasPrefix(tail[len(mk):], []byte(zip4)) {
		return "LAYOUT marker-or-archive-not-after-source"
	}
	CountRun("sparse source binary")
	return c20ExecInProcess(dst, int64(n+len(mk)), tree, treeNo, entryText)
}

// c20ExecInProcess points osArgs[0] at exe and calls the real RunPackedBinary.
// result: exit=<rc> files=ok | fall | fail | fail-index | exit=<rc> files=<what differs>
func c20ExecInProcess(exe string, trueStart int64, tree *c20Tree, treeNo int, entryText string) string {
	c20Hook.archive, c20Hook.filesHit, c20Hook.files, c20Hook.filesErr = false, false, nil, nil
	exitCalled, exitCode := 0, 0
	oldArgs := tool.VerifSetOsArgs([]string{exe})
	oldExit := tool.VerifSetOsExit(func(c int) { exitCalled++; exitCode = c })
	failed := ""
	func() {
		defer func() {
			if e := recover(); e != nil {
				failed = oneLine(fmt.Sprint(e))
			}
		}()
		tool.RunPackedBinary()
	}()
	tool.VerifSetOsArgs(oldArgs)
	tool.VerifSetOsExit(oldExit)

	// The offset handed to the zip reader is NOT part of the compared result (the property constrains
	// what runs and which files are visible; Go's zip reader locates the directory from the end
	// record and accepts bytes in front of the archive). It is recorded as a count only.
	off := ""
	if c20Hook.archive {
		if c20Hook.pos == trueStart {
			CountRun("offset handed to the zip reader = start of the archive Pack wrote")
		} else if trueStart >= 0 {
			CountRun("offset handed to the zip reader differs from the start of the archive (tolerated by the zip reader if it still runs)")
		}
		st, err := os.Stat(exe)
		if err != nil {
			st, err = os.Stat(exe + ".exe")
		}
		if err == nil && c20Hook.pos+c20Hook.len != st.Size() {
			CountRun("section handed to the zip reader does not end at the end of the file")
		}
	}
	switch {
	case failed != "":
		CountRun("fail")
		if strings.Contains(failed, "index out of range") || strings.Contains(failed, "slice bounds") {
			return off + "fail-index"
		}
		return off + "fail"
	case exitCalled == 0:
		CountRun("fall")
		return off + "fall"
	case exitCalled > 1:
		return off + "exit-called-twice"
	}
	CountRun("exit")
	res := fmt.Sprintf("%sexit=%d", off, exitCode)
	// files visible to the packed program
	if !c20Hook.filesHit {
		return res + " files=unobserved"
	}
	want := map[string]string{}
	for k, v := range tree.files {
		want[k] = v
	}
	want[".ecalsrc-entry"] = entryText // the entry is what runs, whatever the tree contains
	got := 0
	for k := range c20Hook.files {
		if !tree.ignore[k] {
			got++
		}
	}
	if got != len(want) {
		return res + fmt.Sprintf(" files=count:%d/%d", got, len(want))
	}
	names := make([]string, 0, len(want))
	for k := range want {
		names = append(names, k)
	}
	sort.Strings(names)
	for _, k := range names {
		got, ok := c20Hook.files[k]
		if !ok {
			return res + " files=missing:" + hx(k)
		}
		if got != want[k] {
			return res + " files=differs:" + hx(k)
		}
	}
	if treeNo < 0 {
		CountRun("files-compared random tree")
	} else {
		CountRun(fmt.Sprintf("files-compared tree%d", treeNo))
	}
	return res + " files=ok"
}

// c20RunSeq: payload `seq <first> <mode> <n2> <k2> <t2> <rc> <proc 0|1>` where first is
// `-` (no target yet), `F:<size>` (the target exists as an unrelated file of that size which
// ends in a zip end record) or `P:<n1>:<k1>:<t1>` (a first project was packed into the target).
// The target then gets file mode <mode> (octal, 0 = leave), project <t2> is packed onto the
// binary (n2, k2) into the SAME target with the real packer. Observed: the target compared
// byte by byte with the same pack into a fresh file, is it executable, the in-process run,
// and for proc=1 the start as a real process.
// result: seq fresh=<same|longer:d|shorter:d|differs> x=<0|1> off=… exit=… files=ok [proc:exit=<rc>:entry=<ran|notrun>]
func c20RunSeq(fs []string) string {
	if len(fs) != 8 {
		return "bad-payload"
	}
	mode, _ := strconv.ParseUint(fs[2], 8, 32)
	n2, _ := strconv.Atoi(fs[3])
	k2, _ := strconv.Atoi(fs[4])
	t2, _ := strconv.Atoi(fs[5])
	rc, _ := strconv.Atoi(fs[6])
	withProc := fs[7] == "1"
	target := filepath.Join(c20Scratch, "seq-target.bin")
	fresh := filepath.Join(c20Scratch, "seq-fresh.bin")
	src := filepath.Join(c20Scratch, "seq-source.bin")
	entry := filepath.Join(c20Scratch, "seq-entry.ecal")
	os.Remove(target)
	os.Remove(fresh)
	defer os.Remove(target)
	defer os.Remove(fresh)
	defer os.Remove(src)
	cliLen := 0
	pack := func(n, kind, treeNo, ret int, dst string) (string, error) {
		if n < 0 { // the real CLI executable of the tree under test
			cli, err := c20CLIPath()
			if err != nil {
				return "", err
			}
			bin, err := os.ReadFile(cli)
			if err != nil {
				return "", err
			}
			cliLen = len(bin)
			if err := os.WriteFile(src, bin, 0755); err != nil {
				return "", err
			}
		} else {
			bin := make([]byte, n)
			c20Fill(bin, kind, 0)
			if err := os.WriteFile(src, bin, 0644); err != nil {
				return "", err
			}
		}
		text := "log(\"" + c20Token + "\")\n" + fmt.Sprintf(c20Trees[treeNo].entry, ret)
		if err := os.WriteFile(entry, []byte(text), 0644); err != nil {
			return "", err
		}
		p := tool.NewCLIPacker()
		p.LogOut = io.Discard
		p.Dir, p.SourceBinary, p.TargetBinary, p.EntryFile = &c20Trees[treeNo].dir, &src, &dst, entry
		return text, p.Pack()
	}
	switch {
	case fs[1] == "-":
	case strings.HasPrefix(fs[1], "F:"):
		size, _ := strconv.Atoi(fs[1][2:])
		b := make([]byte, size)
		c20Fill(b, 2, 99)
		if size >= 22 { // an (empty) zip end-of-central-directory record at the very end
			copy(b[size-22:], append([]byte("PK\x05\x06"), make([]byte, 18)...))
		}
		if err := os.WriteFile(target, b, 0644); err != nil {
			return "ERR write " + oneLine(err.Error())
		}
	case strings.HasPrefix(fs[1], "P:"):
		f := strings.Split(fs[1], ":")
		if len(f) != 4 {
			return "bad-payload"
		}
		n1, _ := strconv.Atoi(f[1])
		k1, _ := strconv.Atoi(f[2])
		t1, _ := strconv.Atoi(f[3])
		if _, err := pack(n1, k1, t1, (rc+101)%250, target); err != nil {
			return "ERR pack1 " + oneLine(err.Error())
		}
	default:
		return "bad-payload"
	}
	if mode != 0 {
		if _, err := os.Stat(target); err == nil {
			if err := os.Chmod(target, os.FileMode(mode)); err != nil {
				return "ERR chmod " + oneLine(err.Error())
			}
		}
	}
	entryText, err := pack(n2, k2, t2, rc, target)
	if err != nil {
		return "seq pack2-failed"
	}
	if _, err := pack(n2, k2, t2, rc, fresh); err != nil {
		return "ERR pack-fresh " + oneLine(err.Error())
	}
	got, err1 := os.ReadFile(target)
	want, err2 := os.ReadFile(fresh)
	if err1 != nil || err2 != nil {
		return "ERR read"
	}
	res := "seq fresh="
	switch {
	case bytes.Equal(got, want):
		res += "same"
	case len(got) > len(want):
		res += fmt.Sprintf("longer:%d", len(got)-len(want))
	case len(got) < len(want):
		res += fmt.Sprintf("shorter:%d", len(want)-len(got))
	default:
		res += "differs"
	}
	st, err := os.Stat(target)
	if err != nil {
		return "ERR stat"
	}
	x := 0
	if st.Mode()&0111 != 0 {
		x = 1
	}
	res += fmt.Sprintf(" x=%d ", x)
	srcLen := n2
	if n2 < 0 {
		srcLen = cliLen
	}
	r := c20ExecInProcess(target, int64(srcLen+len(c20FactsCached().marker)), c20Trees[t2], t2, entryText)
	res += r
	if withProc {
		cwd := filepath.Join(c20Scratch, "cwd")
		os.RemoveAll(cwd)
		os.MkdirAll(cwd, 0755)
		defer os.RemoveAll(cwd)
		ctx, cancel := context.WithTimeout(context.Background(), 6*time.Second)
		defer cancel()
		cmd := exec.CommandContext(ctx, target)
		cmd.Dir = cwd
		cmd.Stdin = strings.NewReader("")
		out, err := cmd.CombinedOutput()
		if ctx.Err() != nil {
			return "HANG child process did not end within 6s"
		}
		code := 0
		if err != nil {
			ee, ok := err.(*exec.ExitError)
			if !ok {
				return res + " proc:not-started"
			}
			code = ee.ExitCode()
		}
		ran := "notrun"
		if strings.Contains(string(out), c20Token) {
			ran = "ran"
		}
		CountRun("process started")
		res += fmt.Sprintf(" proc:exit=%d:entry=%s", code, ran)
	}
	return res
}

var c20FactsMemo *c20Facts

func c20FactsCached() *c20Facts {
	if c20FactsMemo == nil {
		f, err := c20Extract()
		check(err)
		c20FactsMemo = f
	}
	return c20FactsMemo
}

// ---------------------------------------------------------------- generator

const c20Zip4 = "504b0304"

func c20Gen(g *Gen) {
	f := c20FactsCached()
	M := f.marker
	emit := func(class string, packed bool, n, kind int, plants []c20Plant, ws string, tree, rc int) {
		for _, p := range plants {
			if p.off < 0 || p.off+len(p.data) > n {
				return
			}
		}
		pk := "0"
		if packed {
			pk = "1"
		}
		seed := uint64(0)
		if kind == 2 {
			seed = g.R.U64() % 2147483648
		}
		g.Count(class)
		g.Emit(fmt.Sprintf("%s %d %d %d %s %s %s %d %s", pk, n, kind, seed, c20PlantStr(plants), hx(ws), c20TreeTok(tree), rc, c20Zip4))
	}
	// strides: the first window is bufSize long, every later one advances by bufSize-keep;
	// the scanner before the repair advanced by b1 or b1+b2. Cover two periods of the
	// largest after the first block.
	stride := f.bufSize
	if f.b1+f.b2 > stride {
		stride = f.b1 + f.b2
	}
	// Pieces of the source the extractor could not translate (reference values stand in for
	// them): not an alarm by itself, but the model is then tied to the code by the sweep
	// alone, so the sweep is amplified to the thorough one in the same run.
	amplified := g.Thorough() || len(f.problems) > 0
	if len(f.problems) > 0 {
		g.Count("sweep amplified: facts not translated")
	}
	periods := 3
	if amplified {
		periods = 6
	}
	limit := periods*stride + 2*len(M) + 8
	if f.keep >= f.bufSize {
		// the slice handed to Read becomes empty after the first block: the loop cannot make
		// progress on any file longer than the buffer (model: hang). A few cases show it;
		// the sweep would only wait for time-outs.
		// (a hang costs the per-case time limit, and 10x that when the check re-runs it alone)
		emit("no room in the buffer", true, 4095, 0, nil, "", 0, 3)
		emit("no room in the buffer", false, 3*f.bufSize, 1, nil, "", 0, 0)
		os.RemoveAll(c20Scratch)
		return
	}

	// 1. corpus: the sizes that failed before the repair (for the geometry of that time) and their neighbours
	for _, n := range []int{4095, 4107, 4108, 4123, 8191, 4096 - len(M), 4096 + 4124 + 4095} {
		for kind := 0; kind < 3; kind++ {
			emit("corpus", true, n, kind, nil, "", 0, 3+kind)
		}
	}
	// 1a. very large interpreters ("of any size"): sparse sources of zeros; the model's answer for these is
	//     the theorem scan_finds_archive itself (zeros contain no byte of the marker)
	sparse := []int{1 << 24, 1<<25 + 1, 1<<27 - 1}
	if g.Thorough() {
		sparse = append(sparse, 1<<28+3, 1<<29-1, 1<<26+f.bufSize-1)
	}
	for i, n := range sparse {
		emit("sparse source binary", true, n, 3, nil, "", 0, 40+i)
	}
	// 1b. the real executable: the CLI of the tree under test, packed, started as a child
	//     process with different command lines — the entry must run whatever the arguments are
	argLists := [][]string{{}, {"hello"}, {"-x", "1"}, {"run"}, {"run", "job1"}, {"format"}, {"pack"}, {"console"}, {"debug"}}
	procTrees := []int{1, 0}
	if g.Thorough() {
		argLists = append(argLists, []string{"-help"}, []string{"run", "-dir", ".", "x.ecal"}, []string{"debug", "-server"})
		procTrees = []int{1, 0, 2, 3, 5}
	}
	for ti, t := range procTrees {
		for ai, al := range argLists {
			as := "-"
			if len(al) > 0 {
				var hs []string
				for _, a := range al {
					hs = append(hs, hx(a))
				}
				as = strings.Join(hs, ",")
			}
			g.Count("real process")
			g.Emit(fmt.Sprintf("proc %d %d %s abs", t, 20+ti*40+ai, as))
		}
	}
	// … every word the CLI's main knows (string literals of cli/ecal.go) and the usual flags as first
	// argument, alone and followed by a second argument: the packed program runs for EVERY command line
	words := append(c20MainWords(), "-h", "-help", "--help", "-version", "--version", "-v", "--", "version", "help")
	seenW := map[string]bool{}
	wi := 0
	for _, w := range words {
		if seenW[w] {
			continue
		}
		seenW[w] = true
		for _, second := range []string{"", "x"} {
			as := hx(w)
			if second != "" {
				as += "," + hx(second)
			}
			g.Count("real process, first argument from the CLI's own vocabulary")
			g.Emit(fmt.Sprintf("proc 0 %d %s abs", 10+wi%230, as))
			wi++
		}
	}
	// … and the ways an executable gets started: found through $PATH (bare argv[0], the working
	// directory is elsewhere, with and without an unrelated file of the same name there), relative
	// paths, a symbolic link
	for fi, form := range []string{"bare", "decoy", "rel", "dotdot", "symlink"} {
		for ai, as := range []string{"-", hx("run")} {
			g.Count("real process, start form " + form)
			g.Emit(fmt.Sprintf("proc %d %d %s %s", 1-ai, 150+fi*2+ai, as, form))
		}
	}
	// 1c. sequences: the target already exists (an earlier, other project packed into it, or an
	//     unrelated file) — the result must depend on the last pack only
	type seqCase struct {
		first      string
		mode       int
		n2, k2, t2 int
		proc       bool
	}
	var seqs []seqCase
	// the smallest one first: a big project, then a small one, into the same target
	seqs = append(seqs, seqCase{"P:9:0:4", 0, 9, 0, 0, false})
	pairs := [][2]int{{4, 0}, {0, 0}, {0, 4}, {5, 1}, {3, 2}, {2, 3}, {4, 5}}
	sizes := [][2]int{{5000, 100}, {100, 5000}, {f.bufSize, f.bufSize}, {0, 9000}, {9000, 0}}
	for pi, pr := range pairs {
		for si, sz := range sizes {
			if !amplified && (pi+si)%2 == 1 && pi > 2 {
				continue
			}
			seqs = append(seqs, seqCase{fmt.Sprintf("P:%d:%d:%d", sz[0], (pi+si)%2, pr[0]), []int{0, 0600, 0644, 0755}[(pi+si)%4], sz[1], si % 2, pr[1], false})
		}
	}
	for _, t2 := range []int{0, 1, 4} {
		seqs = append(seqs, seqCase{"F:300000", 0, 4000, 0, t2, false}, seqCase{"F:300000", 0600, 70, 1, t2, false},
			seqCase{"F:10", 0644, 4000, 1, t2, false}, seqCase{"-", 0, 4107, 1, t2, false})
	}
	// a few with the real CLI executable as source binary (size -1), also started as real processes
	seqs = append(seqs, seqCase{"P:-1:0:4", 0600, -1, 0, 0, true}, seqCase{"F:30000000", 0600, -1, 0, 1, true}, seqCase{"P:-1:0:0", 0, -1, 0, 4, true})
	for i, sc := range seqs {
		p := "0"
		if sc.proc {
			p = "1"
		}
		g.Count("sequence")
		g.Emit(fmt.Sprintf("seq %s %o %d %d %d %d %s", sc.first, sc.mode, sc.n2, sc.k2, sc.t2, 30+i, p))
	}
	// 1d0. the real interpreter binary satisfies the hypothesis of scan_finds_archive; unpacked it falls through
	g.Count("real interpreter binary: hypothesis check")
	g.Emit("realbin")
	// 1d. after the scan: zip error, parse error, runtime error, non-numeric / fractional / negative result
	for vi, v := range []string{"ok", "badzip", "emptyzip", "parseerr", "rterr", "string", "float", "negative", "exesuffix",
		"bothexist-text", "bothexist-packed", "srcistarget", "srcistarget-link"} {
		for _, n := range []int{0, f.bufSize - 1, 2*f.bufSize + 5} {
			g.Count("after the scan: " + v)
			g.Emit(fmt.Sprintf("out %s %d %d %d", v, n, vi%2, 5+vi))
		}
	}
	// 1e. random project trees (entry inside the project, sometimes source/target inside it) packed through
	//     the tool's own command line: ParseArgs in-process, and the real CLI as a child process
	nRT, nRTcli := 60, 4
	if amplified {
		nRT, nRTcli = 500, 20
	}
	for i := 0; i < nRT; i++ {
		sizes := []int{0, 17, f.b1 - 1, f.bufSize - len(M) + 1, f.bufSize, 2*f.bufSize - f.keep - 1, 3 * f.bufSize}
		g.Count("random tree via ParseArgs")
		g.Emit(fmt.Sprintf("rt %d %d %d %d args", g.R.U64()%1000000007, sizes[i%len(sizes)]+g.R.Intn(3), g.R.Intn(2), 1+i%200))
	}
	for i := 0; i < nRTcli; i++ {
		g.Count("random tree via the real CLI's command line")
		g.Emit(fmt.Sprintf("rt %d -1 0 %d cli", g.R.U64()%1000000007, 3+i))
	}
	// 2. project trees on binaries whose end lies around the block boundaries
	for t := range c20Trees {
		sizes := []int{0, 1, f.b1 - 1, f.bufSize - len(M), f.bufSize - 1, f.bufSize, 2*f.bufSize - f.keep - 3, limit}
		if g.Thorough() {
			for d := -len(M) - 2; d <= 2; d++ {
				sizes = append(sizes, f.bufSize+d, 2*f.bufSize-f.keep+d, f.b1+d)
			}
		}
		for _, n := range sizes {
			if n < 0 {
				continue
			}
			for kind := 0; kind < 3; kind++ {
				emit(fmt.Sprintf("tree%d", t), true, n, kind, nil, "", t, 7+t*13+kind)
			}
		}
	}
	// 3. exhaustive sweep of |bin| over [0, limit] with the three fillers
	for n := 0; n <= limit; n++ {
		for kind := 0; kind < 3; kind++ {
			emit(fmt.Sprintf("sweep filler%d", kind), true, n, kind, nil, "", 0, (n+kind)%200)
		}
	}
	// 4. partial markers at every alignment around the block boundaries; the real marker
	//    follows after `gap` bytes (gap 0: partial marker immediately followed by the marker)
	var partials [][]byte
	for k := 1; k < len(M); k++ {
		partials = append(partials, M[:k])
	}
	for k := 0; k < len(M); k++ {
		m := append([]byte{}, M...)
		if m[k] == 'X' {
			m[k] = 'Y'
		} else {
			m[k] = 'X'
		}
		partials = append(partials, m)
	}
	bounds := []int{f.bufSize, 2*f.bufSize - f.keep, f.b1, f.bufSize - f.keep, 2 * f.b1, f.b1 + f.bufSize}
	gaps := []int{0, 1, len(M) - 1, 300}
	if !amplified {
		gaps = gaps[:2]
	}
	seenB := map[int]bool{}
	for _, b := range bounds {
		if seenB[b] {
			continue
		}
		seenB[b] = true
		for pi, p := range partials {
			for d := -len(p) - 2; d <= 2; d++ {
				off := b + d
				if off < 0 {
					continue
				}
				for _, gap := range gaps {
					kind := (pi + d + 1000) % 2
					if amplified && (pi+gap)%3 == 2 {
						kind = 2
					}
					emit("partial marker", true, off+len(p)+gap, kind, []c20Plant{{off, p}}, "", 0, 11)
				}
			}
		}
	}
	// 5. several partial markers in a row, then the marker
	for i := 0; i < 200; i++ {
		var ps []c20Plant
		off := f.bufSize - 3*len(M) + g.R.Intn(2*len(M))
		for k := 0; k < 1+g.R.Intn(4); k++ {
			p := partials[g.R.Intn(len(partials))]
			ps = append(ps, c20Plant{off, p})
			off += len(p) + g.R.Intn(3)
		}
		emit("partial markers in a row", true, off+g.R.Intn(2), g.R.Intn(3), ps, "", 0, 12)
	}
	// 6. the binary itself contains the complete marker (ambiguous by design: the first
	//    occurrence wins), or ends with the marker's beginning so that an occurrence
	//    straddles the end of the binary
	for _, off := range []int{0, 1, 100, f.b1 - 5, f.bufSize - 9, f.bufSize + 7, 2 * f.bufSize} {
		emit("marker inside the binary", true, off+len(M)+50, 0, []c20Plant{{off, M}}, "", 0, 13)
		emit("marker inside the binary", true, off+len(M)+5000, 1, []c20Plant{{off, M}}, "", 0, 13)
		emit("marker inside the binary", false, off+len(M)+50, 0, []c20Plant{{off, M}}, "", 0, 13)
	}
	// 7. white-space / control bytes between marker and archive (the skip loop)
	for _, ws := range []string{"\n", "\r\n", " ", "\t\n", "\x00", "\x1f\x20", "\x7f", "\x85", "\x9f\xa0", "\n\n\n\n\n\n\n\n\n\n\n\n\n\n\n\n\n\n\n\n"} {
		for _, n := range []int{0, 50, f.bufSize - len(M) - 1, f.bufSize - 1, f.bufSize + 1000} {
			if n >= 0 {
				emit("white-space after the marker", true, n, 1, nil, ws, 0, 14)
			}
		}
	}
	// 8. not packed at all: RunPackedBinary has to fall through, also when the file ends
	//    inside a marker
	for _, n := range []int{0, 1, len(M) - 1, 100, f.b1 - 1, f.b1, f.bufSize - 1, f.bufSize, f.bufSize + 1, 2*f.bufSize - f.keep, limit} {
		for kind := 0; kind < 3; kind++ {
			emit("plain binary", false, n, kind, nil, "", 0, 0)
		}
		for _, k := range []int{1, len(M) / 2, len(M) - 1} {
			if n >= k {
				emit("plain binary ending inside a marker", false, n, 0, []c20Plant{{n - k, M[:k]}}, "", 0, 0)
			}
		}
	}
	// 9. random sizes far beyond the sweep (many blocks)
	nBig := 40
	if g.Thorough() {
		nBig = 600
	}
	for i := 0; i < nBig; i++ {
		n := limit + g.R.Intn(40*stride)
		emit("large binary", true, n, g.R.Intn(3), nil, "", g.R.Intn(len(c20Trees)), 100+i%100)
	}
	os.RemoveAll(c20Scratch)
}

func init() {
	register("C20", &Prop{
		Timeout:          8 * time.Second, // a HANG is re-run alone by the check with 10x this limit
		Setup:            c20Setup,
		Gen:              c20Gen,
		Run:              c20Run,
		Tool:             c20Tool,
		NoRestartOnPanic: true,
	})
}
