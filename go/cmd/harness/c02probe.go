package main

// C02 limitation probes: `harness C02 -tool probe` runs two uses of the engine which the model
// declares OUTSIDE the property (stated assumptions) and prints what the real code does, as one
// JSON object. The check stores it in the evidence; nothing is compared.
//
//  1. NewChildMonitor on a monitor AFTER its action has returned and the cascade has finished
//     (the method is public and unguarded).
//  2. AddEvent with a child monitor while the pool is stopping (returns an error; the child
//     monitor that was created for it stays unfinished).

import (
	"encoding/json"
	"fmt"
	"sync"
	"sync/atomic"
	"time"

	"github.com/krotik/ecal/engine"
	"github.com/krotik/ecal/verifhook"
)

func c02Probe() map[string]interface{} {
	out := map[string]interface{}{}
	var posts int64
	verifhook.SetHandler(func(point string, args ...interface{}) {
		if point == "cascade.post" {
			atomic.AddInt64(&posts, 1)
		}
	})
	defer verifhook.SetHandler(nil)

	// 1. child created after the cascade is over
	func() {
		defer func() {
			if e := recover(); e != nil {
				out["late_child.panic"] = fmt.Sprint(e)
			}
		}()
		proc := engine.NewProcessor(2)
		var saved engine.Monitor
		var mu sync.Mutex
		var late int64
		check(proc.AddRule(&engine.Rule{Name: "r", KindMatch: []string{"a"}, ScopeMatch: []string{},
			Action: func(p engine.Processor, m engine.Monitor, e *engine.Event, tid uint64) error {
				mu.Lock()
				saved = m
				mu.Unlock()
				return nil
			}}))
		check(proc.AddRule(&engine.Rule{Name: "l", KindMatch: []string{"late"}, ScopeMatch: []string{},
			Action: func(p engine.Processor, m engine.Monitor, e *engine.Event, tid uint64) error {
				atomic.AddInt64(&late, 1)
				return fmt.Errorf("late error")
			}}))
		proc.Start()
		rm := proc.NewRootMonitor(nil, nil)
		var handler int64
		rm.SetFinishHandler(func(engine.Processor) { atomic.AddInt64(&handler, 1) })
		atomic.StoreInt64(&posts, 0)
		_, err := proc.AddEventAndWait(engine.NewEvent("a", []string{"a"}, nil), rm)
		out["late_child.wait_error"] = fmt.Sprint(err)
		out["late_child.errors_at_return"] = len(rm.AllErrors())
		mu.Lock()
		m := saved
		mu.Unlock()
		cm := m.NewChildMonitor(0)
		_, err = proc.AddEvent(engine.NewEvent("late", []string{"late"}, nil), cm)
		out["late_child.addevent_error"] = fmt.Sprint(err)
		proc.ThreadPool().WaitAll()
		time.Sleep(20 * time.Millisecond)
		out["late_child.action_ran"] = atomic.LoadInt64(&late)
		out["late_child.child_finished"] = cm.(c02Fin).IsFinished()
		out["late_child.errors_after"] = len(rm.AllErrors())
		out["late_child.finish_handler_calls"] = atomic.LoadInt64(&handler)
		if verifhook.Enabled {
			out["late_child.posts_seen_by_hooks"] = atomic.LoadInt64(&posts)
		}
		proc.Finish()
	}()

	// 2. AddEvent while the pool is stopping
	func() {
		defer func() {
			if e := recover(); e != nil {
				out["stopping_pool.panic"] = fmt.Sprint(e)
			}
		}()
		proc := engine.NewProcessor(1)
		var addErr atomic.Value
		var child atomic.Value
		check(proc.AddRule(&engine.Rule{Name: "r", KindMatch: []string{"a"}, ScopeMatch: []string{},
			Action: func(p engine.Processor, m engine.Monitor, e *engine.Event, tid uint64) error {
				go proc.Finish() // JoinAll: the pool is "stopping" while this action still runs
				for i := 0; i < 200 && proc.Status() == "Running"; i++ {
					time.Sleep(time.Millisecond)
				}
				cm := m.NewChildMonitor(0)
				child.Store(cm)
				_, err := p.AddEvent(engine.NewEvent("b", []string{"b"}, nil), cm)
				addErr.Store(fmt.Sprint(err))
				return nil
			}}))
		check(proc.AddRule(&engine.Rule{Name: "rb", KindMatch: []string{"b"}, ScopeMatch: []string{},
			Action: func(p engine.Processor, m engine.Monitor, e *engine.Event, tid uint64) error { return nil }}))
		proc.Start()
		rm := proc.NewRootMonitor(nil, nil)
		done := make(chan struct{})
		go func() {
			proc.AddEventAndWait(engine.NewEvent("a", []string{"a"}, nil), rm)
			close(done)
		}()
		returned := false
		select {
		case <-done:
			returned = true
		case <-time.After(1500 * time.Millisecond):
		}
		out["stopping_pool.addevent_error"] = addErr.Load()
		out["stopping_pool.wait_returned_within_1.5s"] = returned
		if cm, ok := child.Load().(engine.Monitor); ok {
			out["stopping_pool.child_finished"] = cm.(c02Fin).IsFinished()
		}
		out["stopping_pool.pool_status"] = proc.Status()
	}()
	return out
}

func c02ProbeTool() int {
	b, _ := json.Marshal(c02Probe())
	fmt.Println(string(b))
	return 0
}
