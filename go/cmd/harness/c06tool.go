package main

// `harness C06 -tool census` — go/ast census of every potentially panicking expression in the
// files anchored by property C06, one line per file:function:kind with its count (sorted).
// Only counts per function are kept: renaming locals or changing texts does not change the census,
// adding / removing an unchecked operation does.
//
// kinds:  assert   x.(T) without comma-ok (type switches excluded)
//         index    a[i] read            store   a[i] = v / a[i] op= v (slice or map store)
//         slice    a[i:j]
//         divmod   `/` or `%` whose operands are not both literals and where no operand is a float literal
//                  or a float64(...) conversion / known float variable cannot be decided syntactically: all counted
//         ifeq     == / != with neither operand a literal, nil, true/false, or a call (len(x) …)
//         assertfn errorutil.Assert* call        panic   explicit panic(...)

import (
	"fmt"
	"go/ast"
	"go/parser"
	"go/token"
	"os"
	"path/filepath"
	"sort"
	"strings"
)

func c06AnchoredFiles() []string {
	root := repoDir()
	var files []string
	m, _ := filepath.Glob(filepath.Join(root, "interpreter", "rt_*.go"))
	for _, f := range m {
		if !strings.HasSuffix(f, "_test.go") {
			files = append(files, f)
		}
	}
	for _, f := range []string{"interpreter/func_provider.go", "scope/varsscope.go", "engine/rule.go", "engine/pool/threadpool.go", "util/error.go"} {
		files = append(files, filepath.Join(root, f))
	}
	sort.Strings(files)
	return files
}

func c06IsTrivialOperand(e ast.Expr) bool {
	switch x := e.(type) {
	case *ast.BasicLit:
		return true
	case *ast.Ident:
		return x.Name == "nil" || x.Name == "true" || x.Name == "false"
	case *ast.CallExpr:
		return true
	case *ast.ParenExpr:
		return c06IsTrivialOperand(x.X)
	case *ast.UnaryExpr:
		return c06IsTrivialOperand(x.X)
	}
	return false
}

func c06Census() ([]string, error) {
	root := repoDir()
	counts := map[string]int{}
	fset := token.NewFileSet()
	for _, path := range c06AnchoredFiles() {
		file, err := parser.ParseFile(fset, path, nil, 0)
		if err != nil {
			return nil, err
		}
		rel, _ := filepath.Rel(root, path)
		for _, d := range file.Decls {
			fd, ok := d.(*ast.FuncDecl)
			if !ok || fd.Body == nil {
				continue
			}
			name := fd.Name.Name
			if fd.Recv != nil && len(fd.Recv.List) > 0 {
				t := fd.Recv.List[0].Type
				if s, ok := t.(*ast.StarExpr); ok {
					t = s.X
				}
				if id, ok := t.(*ast.Ident); ok {
					name = id.Name + "." + name
				}
			}
			add := func(kind string) { counts[rel+":"+name+":"+kind]++ }
			commaOk := map[ast.Expr]bool{}
			stores := map[ast.Expr]bool{}
			ast.Inspect(fd.Body, func(n ast.Node) bool {
				switch x := n.(type) {
				case *ast.AssignStmt:
					if len(x.Lhs) == 2 && len(x.Rhs) == 1 {
						if ta, ok := x.Rhs[0].(*ast.TypeAssertExpr); ok {
							commaOk[ta] = true
						}
						if ie, ok := x.Rhs[0].(*ast.IndexExpr); ok {
							commaOk[ie] = true // v, ok := m[k]: a map read
						}
					}
					for _, l := range x.Lhs {
						if ie, ok := l.(*ast.IndexExpr); ok {
							stores[ie] = true
						}
					}
				case *ast.ValueSpec:
					if len(x.Names) == 2 && len(x.Values) == 1 {
						if ta, ok := x.Values[0].(*ast.TypeAssertExpr); ok {
							commaOk[ta] = true
						}
					}
				case *ast.IncDecStmt:
					if ie, ok := x.X.(*ast.IndexExpr); ok {
						stores[ie] = true
					}
				}
				return true
			})
			ast.Inspect(fd.Body, func(n ast.Node) bool {
				switch x := n.(type) {
				case *ast.TypeAssertExpr:
					if x.Type != nil && !commaOk[x] {
						add("assert")
					}
				case *ast.IndexExpr:
					if stores[x] {
						add("store")
					} else if !commaOk[x] {
						add("index")
					}
				case *ast.SliceExpr:
					add("slice")
				case *ast.BinaryExpr:
					switch x.Op {
					case token.QUO, token.REM:
						add("divmod")
					case token.EQL, token.NEQ:
						if !c06IsTrivialOperand(x.X) && !c06IsTrivialOperand(x.Y) {
							add("ifeq")
						}
					}
				case *ast.CallExpr:
					if id, ok := x.Fun.(*ast.Ident); ok && id.Name == "panic" {
						add("panic")
					}
					if se, ok := x.Fun.(*ast.SelectorExpr); ok {
						if id, ok := se.X.(*ast.Ident); ok && id.Name == "errorutil" && strings.HasPrefix(se.Sel.Name, "Assert") {
							add("assertfn")
						}
					}
				}
				return true
			})
		}
	}
	var lines []string
	for k, v := range counts {
		lines = append(lines, fmt.Sprintf("%s:%d", k, v))
	}
	sort.Strings(lines)
	return lines, nil
}

func c06Tool(args []string) int {
	if len(args) > 0 && args[0] == "census" {
		lines, err := c06Census()
		if err != nil {
			fmt.Fprintln(os.Stderr, err)
			return 1
		}
		for _, l := range lines {
			fmt.Println(l)
		}
		return 0
	}
	fmt.Fprintln(os.Stderr, "usage: harness C06 -tool census")
	return 2
}
