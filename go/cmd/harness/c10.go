package main

// C10 — priorities order execution; the first failing rule ends a trigger sequence.
//
// Four kinds of cases, all through the public API of engine (payload formats are
// documented in lean/Ecal/Drivers/C10.lean):
//
//	R  rules of one event on a processor with ONE worker, both settings of
//	   SetFailOnFirstErrorInTriggerSequence: priorities of the action starts in
//	   order, priorities in the error report, number of child events processed
//	B  a RootMonitor driven directly (NewChildMonitor, Activate, Skip, Finish):
//	   HighestPriority() after every call
//	K  scripted cascades of one or several root monitors on 1..8 workers; the
//	   workers are held at a gate while the initial events are queued. One worker:
//	   order of action starts per root with HighestPriority() sampled in the action.
//	   Several workers: set of started events per root; the dequeue order is taken
//	   from the hook points queue.push / queue.pop inside TaskQueue (recorded under
//	   the queue lock) and written to a side file that props/C10.py hands to the
//	   model (`driver C10 trace`).

import (
	"errors"
	"fmt"
	"os"
	"sort"
	"strconv"
	"strings"
	"sync"
	"time"

	"github.com/krotik/common/sortutil"
	"github.com/krotik/ecal/engine"
	"github.com/krotik/ecal/interpreter"
	"github.com/krotik/ecal/parser"
	"github.com/krotik/ecal/verifhook"
)

// ---------------------------------------------------------------- trace recording

var (
	c10TraceMu sync.Mutex
	c10Trace   []string
	c10TraceOn bool
)

func c10Hook(point string, args ...interface{}) {
	if point != "queue.push" && point != "queue.pop" {
		return
	}
	c10TraceMu.Lock()
	defer c10TraceMu.Unlock()
	if !c10TraceOn || len(args) < 3 {
		return
	}
	if point == "queue.push" {
		c10Trace = append(c10Trace, fmt.Sprintf("+%v:%v:%v", args[0], args[1], args[2]))
	} else {
		c10Trace = append(c10Trace, fmt.Sprintf("-%v:%v", args[0], args[2]))
	}
}

// ---------------------------------------------------------------- R: rules of one event

type c10Rule struct {
	prio        int
	fails, kids bool
	mode        int // how a sink fails: 1 raise, 2 runtime error (unknown function), 3 top-level return
	frac        int // sinks: tenths above the floor value prio (the interpreter floors): the number is prio + frac/10
	huge        int // sinks: +1 / -1: a number far outside the int range (declaration must be rejected)
}

// c10PrioText: the ECAL number literal for prio + frac/10 (also below 0: -2 + 5/10 = -1.5)
func (r c10Rule) prioText() string {
	switch {
	case r.huge > 0:
		return "10000000000000000000"
	case r.huge < 0:
		return "-10000000000000000000"
	case r.frac == 0:
		return strconv.Itoa(r.prio)
	case r.prio >= 0:
		return fmt.Sprintf("%d.%d", r.prio, r.frac)
	}
	return fmt.Sprintf("-%d.%d", -r.prio-1, 10-r.frac)
}

// c10Lifecycle replays a history of life-cycle calls (letters: see parseHistory in the Lean
// driver) on a processor; load declares all rules. Afterwards the rules are loaded and the
// processor runs, whatever the history was.
func c10Lifecycle(proc engine.Processor, hist string, load func()) {
	running, loaded := false, false
	do := func(c rune) {
		switch c {
		case 's':
			proc.Start()
			running = true
		case 'f':
			proc.Finish()
			running = false
		case 'r':
			if proc.Reset() == nil {
				loaded = false
			}
		case 'a':
			if !running && !loaded {
				load()
				loaded = true
			}
		case 'T':
			proc.SetFailOnFirstErrorInTriggerSequence(true)
		case 'F':
			proc.SetFailOnFirstErrorInTriggerSequence(false)
		}
	}
	for _, c := range hist {
		if c == 'l' {
			// CLIInterpreter.LoadInitialFile: Finish, Reset, declare everything again, Start
			for _, x := range "fras" {
				do(x)
			}
		} else {
			do(c)
		}
	}
	if !loaded {
		do('f')
		do('a')
	}
	if !running {
		do('s')
	}
}

func c10RunRules(flag bool, hist string, specs []c10Rule, names bool) string {
	proc := engine.NewProcessor(1)
	proc.SetFailOnFirstErrorInTriggerSequence(flag)
	var mu sync.Mutex
	var started []string
	var startedNames []string
	kids := 0
	var rules []*engine.Rule
	for i := range specs {
		sp, i := specs[i], i
		rules = append(rules, (&engine.Rule{
			Name: fmt.Sprintf("r%d", i), KindMatch: []string{"e"}, ScopeMatch: []string{}, Priority: sp.prio,
			Action: func(p engine.Processor, m engine.Monitor, e *engine.Event, tid uint64) error {
				mu.Lock()
				started = append(started, strconv.Itoa(sp.prio))
				startedNames = append(startedNames, strconv.Itoa(i))
				mu.Unlock()
				if sp.kids {
					if _, err := p.AddEvent(engine.NewEvent("kid", []string{"c"}, nil), m.NewChildMonitor(sp.prio)); err != nil {
						panic(err)
					}
				}
				if sp.fails {
					return errors.New("scripted failure")
				}
				return nil
			}}))
	}
	rules = append(rules, &engine.Rule{
		Name: "kid", KindMatch: []string{"c"}, ScopeMatch: []string{},
		Action: func(p engine.Processor, m engine.Monitor, e *engine.Event, tid uint64) error {
			mu.Lock()
			kids++
			mu.Unlock()
			return nil
		}})
	c10Lifecycle(proc, hist, func() {
		for _, r := range rules {
			check(proc.AddRule(r))
		}
	})
	rm := proc.NewRootMonitor(nil, nil)
	if _, err := proc.AddEventAndWait(engine.NewEvent("ev", []string{"e"}, nil), rm); err != nil {
		return "ERR " + oneLine(err.Error())
	}
	proc.Finish()
	var errPrios []int
	if len(specs) > 0 {
		for _, te := range rm.AllErrors() {
			for name := range te.ErrorMap {
				i, _ := strconv.Atoi(strings.TrimPrefix(name, "r"))
				if names {
					errPrios = append(errPrios, i)
				} else {
					errPrios = append(errPrios, specs[i].prio)
				}
			}
		}
	}
	if names {
		started = startedNames
	}
	sort.Ints(errPrios)
	es := make([]string, len(errPrios))
	for i, p := range errPrios {
		es[i] = strconv.Itoa(p)
	}
	return "exec=" + c10Join(started, ".") + " err=" + c10Join(es, ".") + " kids=" + strconv.Itoa(kids)
}

func c10Join(xs []string, sep string) string {
	if len(xs) == 0 {
		return "-"
	}
	return strings.Join(xs, sep)
}

// ---------------------------------------------------------------- P: the part of ProcessEvent before the sort

type c10PRule struct {
	c10Rule
	scope string // "-" or a scope path the rule requires
	supp  []int  // rules suppressed by this rule
	dbl   bool   // two kind patterns match the event (the rule must still run once)
}

// c10RunPre: rules with ScopeMatch / SuppressionList / two matching kind patterns on a root monitor
// that allows the scopes in `allowed` — de-duplication, scope filter and suppression happen in
// ProcessEvent before the sort; observed is the order of what is left.
func c10RunPre(flag bool, allowed string, specs []c10PRule) string {
	proc := engine.NewProcessor(1)
	proc.SetFailOnFirstErrorInTriggerSequence(flag)
	var mu sync.Mutex
	var started []string
	kids := 0
	for i := range specs {
		sp := specs[i]
		km := []string{"e.x"}
		if sp.dbl {
			km = []string{"e.x", "e.*"}
		}
		sm := []string{}
		if sp.scope != "-" {
			sm = []string{sp.scope}
		}
		var sl []string
		for _, j := range sp.supp {
			sl = append(sl, fmt.Sprintf("r%d", j))
		}
		check(proc.AddRule(&engine.Rule{
			Name: fmt.Sprintf("r%d", i), KindMatch: km, ScopeMatch: sm, Priority: sp.prio, SuppressionList: sl,
			Action: func(p engine.Processor, m engine.Monitor, e *engine.Event, tid uint64) error {
				mu.Lock()
				started = append(started, strconv.Itoa(sp.prio))
				mu.Unlock()
				if sp.kids {
					if _, err := p.AddEvent(engine.NewEvent("kid", []string{"c"}, nil), m.NewChildMonitor(sp.prio)); err != nil {
						panic(err)
					}
				}
				if sp.fails {
					return errors.New("scripted failure")
				}
				return nil
			}}))
	}
	check(proc.AddRule(&engine.Rule{
		Name: "kid", KindMatch: []string{"c"}, ScopeMatch: []string{},
		Action: func(p engine.Processor, m engine.Monitor, e *engine.Event, tid uint64) error {
			mu.Lock()
			kids++
			mu.Unlock()
			return nil
		}}))
	proc.Start()
	sc := map[string]bool{}
	for _, c := range allowed {
		if c != '-' {
			sc[string(c)] = true
		}
	}
	rm := proc.NewRootMonitor(nil, engine.NewRuleScope(sc))
	if _, err := proc.AddEventAndWait(engine.NewEvent("ev", []string{"e", "x"}, nil), rm); err != nil {
		return "ERR " + oneLine(err.Error())
	}
	proc.Finish()
	var errPrios []int
	for _, te := range rm.AllErrors() {
		for name := range te.ErrorMap {
			i, _ := strconv.Atoi(strings.TrimPrefix(name, "r"))
			errPrios = append(errPrios, specs[i].prio)
		}
	}
	sort.Ints(errPrios)
	es := make([]string, len(errPrios))
	for i, p := range errPrios {
		es[i] = strconv.Itoa(p)
	}
	return "exec=" + c10Join(started, ".") + " err=" + c10Join(es, ".") + " kids=" + strconv.Itoa(kids)
}

func c10RandomPre(g *Gen) string {
	n := 2 + g.R.Intn(7)
	perm := make([]int, n)
	for i := range perm {
		perm[i] = i
	}
	for i := n - 1; i > 0; i-- {
		j := g.R.Intn(i + 1)
		perm[i], perm[j] = perm[j], perm[i]
	}
	allowed := []string{"a", "b", "ab", "-"}[g.R.Intn(4)]
	var rs []string
	for i := 0; i < n; i++ {
		scope := "-"
		if g.R.Intn(3) == 0 {
			scope = []string{"a", "b"}[g.R.Intn(2)]
		}
		supp := "-"
		if g.R.Intn(3) == 0 {
			var xs []string
			for k := 1 + g.R.Intn(2); k > 0; k-- {
				if j := g.R.Intn(n); j != i {
					xs = append(xs, strconv.Itoa(j))
				}
			}
			if len(xs) > 0 {
				supp = strings.Join(xs, "+")
			}
		}
		b := func(x bool) string {
			if x {
				return "1"
			}
			return "0"
		}
		rs = append(rs, fmt.Sprintf("%d:%s:%s:%s:%s:%s", perm[i], b(g.R.Intn(5) == 0), b(g.R.Intn(3) == 0), scope, supp, b(g.R.Intn(3) == 0)))
	}
	return fmt.Sprintf("P %d %s %s", g.R.Intn(2), allowed, strings.Join(rs, " "))
}

// ---------------------------------------------------------------- S: the same through ECAL sinks

var (
	c10SinkMu   sync.Mutex
	c10SinkLog  []string
	c10SinkKids int
)

// c10RunSinks declares one sink per rule (`priority N`, `raise` for a failing one, `addEvent` for a
// child event) and adds the event from ECAL code; the interpreter's processor has fail-on-first-error
// set by default (interpreter/provider.go).
func c10RunSinks(hist string, specs []c10Rule, names bool) string {
	var src strings.Builder
	for i, sp := range specs {
		logged := sp.prio
		if names {
			logged = i
		}
		fmt.Fprintf(&src, "sink s%d\n  kindmatch [\"e\"],\n  priority %s\n{\n  x.c10log(%d)\n", i, sp.prioText(), logged)
		if sp.kids {
			src.WriteString("  addEvent(\"kid\", \"c\", {})\n")
		}
		if sp.fails {
			switch sp.mode {
			case 2:
				src.WriteString("  c10thisfunctiondoesnotexist()\n")
			case 3:
				src.WriteString("  return 1\n")
			default:
				src.WriteString("  raise(\"scripted\", \"failure\")\n")
			}
		}
		src.WriteString("}\n")
	}
	src.WriteString("sink kid\n  kindmatch [\"c\"]\n{\n  x.c10kid(1)\n}\n")
	c10SinkMu.Lock()
	c10SinkLog, c10SinkKids = nil, 0
	c10SinkMu.Unlock()
	erp := interpreter.NewECALRuntimeProvider("c10", nil, &memLog{})
	defer erp.Cron.Stop()
	vs := newGlobalScope()
	eval := func(code string) (interface{}, error) {
		ast, err := parser.ParseWithRuntime("c10", code, erp)
		if err != nil {
			return nil, err
		}
		if err = ast.Runtime.Validate(); err != nil {
			return nil, err
		}
		return ast.Runtime.Eval(vs, make(map[string]interface{}), erp.NewThreadID())
	}
	var loadErr error
	// the provider exists (flag set at construction); the sinks are declared by evaluating the
	// program, again after every Reset - the sequence of CLIInterpreter.LoadInitialFile
	c10Lifecycle(erp.Processor, hist, func() {
		if _, err := eval(src.String()); err != nil {
			loadErr = err
		}
	})
	if loadErr != nil {
		if strings.Contains(loadErr.Error(), "out of range") {
			return "ERR-priority-range"
		}
		return "ERR " + oneLine(loadErr.Error())
	}
	res, err := eval("addEventAndWait(\"ev\", \"e\", {})\n")
	erp.Processor.Finish()
	if err != nil {
		return "ERR " + oneLine(err.Error())
	}
	var errPrios []int
	if items, ok := res.([]interface{}); ok {
		for _, it := range items {
			if m, ok := it.(map[interface{}]interface{}); ok {
				if em, ok := m["errors"].(map[interface{}]interface{}); ok {
					for name := range em {
						i, _ := strconv.Atoi(strings.TrimPrefix(fmt.Sprint(name), "s"))
						if names {
							errPrios = append(errPrios, i)
						} else {
							errPrios = append(errPrios, specs[i].prio)
						}
					}
				}
			}
		}
	}
	sort.Ints(errPrios)
	es := make([]string, len(errPrios))
	for i, p := range errPrios {
		es[i] = strconv.Itoa(p)
	}
	c10SinkMu.Lock()
	defer c10SinkMu.Unlock()
	return "exec=" + c10Join(c10SinkLog, ".") + " err=" + c10Join(es, ".") + " kids=" + strconv.Itoa(c10SinkKids)
}

// ---------------------------------------------------------------- Q: sortutil.PriorityQueue directly

// c10Layout turns PriorityQueue.String() ("[ v (p) v (p) ]", slice order of the heap) into "[v:p,v:p]".
func c10Layout(pq *sortutil.PriorityQueue) string {
	f := strings.Fields(strings.Trim(pq.String(), "[] "))
	var out []string
	for i := 0; i+1 < len(f); i += 2 {
		out = append(out, f[i]+":"+strings.Trim(f[i+1], "()"))
	}
	return "[" + strings.Join(out, ",") + "]"
}

func c10RunQueue(ops []string) string {
	pq := sortutil.NewPriorityQueue()
	every := len(ops) <= 48
	n := 0
	var out []string
	val := func(x interface{}) string {
		if x == nil {
			return "n"
		}
		return fmt.Sprint(x)
	}
	for _, op := range ops {
		var tok string
		switch {
		case strings.HasPrefix(op, "+"):
			p, _ := strconv.Atoi(op[1:])
			pq.Push(n, p)
			n++
			tok = "L"
		case op == "-":
			tok = "p" + val(pq.Pop())
		case op == "k":
			tok = "k" + val(pq.Peek())
		default:
			pq.Clear()
			tok = "c"
		}
		if every {
			tok += c10Layout(pq)
		}
		out = append(out, tok)
	}
	return strings.TrimSpace(strings.Join(out, " ") + " end" + c10Layout(pq))
}

func c10RandomQueue(g *Gen, nops, nprio int) string {
	ops := make([]string, 0, nops)
	size := 0
	for len(ops) < nops {
		switch x := g.R.Intn(20); {
		case x < 11 || (size == 0 && x < 17):
			p := g.R.Intn(nprio)
			if g.R.Intn(8) == 0 {
				p = -1 - g.R.Intn(4)
			}
			ops = append(ops, "+"+strconv.Itoa(p))
			size++
		case x < 17:
			ops = append(ops, "-")
			if size > 0 {
				size--
			}
		case x < 19:
			ops = append(ops, "k")
		default:
			if g.R.Intn(6) == 0 {
				ops = append(ops, "c")
				size = 0
			} else {
				ops = append(ops, "-")
				if size > 0 {
					size--
				}
			}
		}
	}
	return "Q " + strings.Join(ops, " ")
}

// ---------------------------------------------------------------- B: bookkeeping

func c10RunBook(ops []string) string {
	proc := engine.NewProcessor(1)
	rm := proc.NewRootMonitor(nil, nil)
	mons := []engine.Monitor{rm}
	ev := engine.NewEvent("ev", []string{"e"}, nil)
	var out []string
	for _, op := range ops {
		n, err := strconv.Atoi(op[1:])
		if err != nil {
			return "bad-payload"
		}
		ok := func() (ok bool) {
			defer func() {
				if recover() != nil {
					ok = false
				}
			}()
			if op[0] != 'N' && (n < 0 || n >= len(mons)) {
				return false
			}
			switch op[0] {
			case 'N':
				mons = append(mons, rm.NewChildMonitor(n))
			case 'A':
				mons[n].Activate(ev)
			case 'S':
				mons[n].Skip(ev)
			case 'F':
				mons[n].Finish()
			}
			return true
		}()
		if !ok {
			out = append(out, "P")
			break
		}
		out = append(out, strconv.Itoa(rm.HighestPriority()))
	}
	return c10Join(out, ",")
}

// ---------------------------------------------------------------- K: cascades

type c10NodeRule struct {
	prio     int
	fails    bool
	children []int
}

type c10Node struct {
	parentEv, parentRule int // -1: added from outside
	prio                 int
	useRoot              bool
	rules                []c10NodeRule
}

func c10ParseRoots(s string) ([][]c10Node, bool) {
	var roots [][]c10Node
	for _, rs := range strings.Split(s, "|") {
		var nodes []c10Node
		for _, ns := range strings.Split(rs, ",") {
			f := strings.Split(ns, ":")
			if len(f) != 3 {
				return nil, false
			}
			n := c10Node{parentEv: -1, parentRule: -1}
			if f[0] != "r" {
				x := strings.Split(f[0], ".")
				if len(x) != 2 {
					return nil, false
				}
				n.parentEv, _ = strconv.Atoi(x[0])
				n.parentRule, _ = strconv.Atoi(x[1])
			}
			if f[1] == "R" {
				n.useRoot = true
			} else {
				n.prio, _ = strconv.Atoi(f[1])
			}
			if f[2] != "-" {
				for _, r := range strings.Split(f[2], ";") {
					x := strings.Split(r, "/")
					if len(x) != 2 {
						return nil, false
					}
					p, _ := strconv.Atoi(x[0])
					n.rules = append(n.rules, c10NodeRule{prio: p, fails: x[1] == "1"})
				}
			}
			nodes = append(nodes, n)
		}
		for i := range nodes {
			if e, k := nodes[i].parentEv, nodes[i].parentRule; e >= 0 && e < len(nodes) && k >= 0 && k < len(nodes[e].rules) {
				nodes[e].rules[k].children = append(nodes[e].rules[k].children, i)
			}
		}
		roots = append(roots, nodes)
	}
	return roots, true
}

type c10Pair struct{ e, k int }

func c10Pairs(ps []c10Pair) string {
	sort.Slice(ps, func(a, b int) bool { return ps[a].e < ps[b].e || (ps[a].e == ps[b].e && ps[a].k < ps[b].k) })
	ss := make([]string, len(ps))
	for i, p := range ps {
		ss[i] = fmt.Sprintf("%d/%d", p.e, p.k)
	}
	return c10Join(ss, ".")
}

func c10RunCascade(payload string, workers int, flag bool, roots [][]c10Node) string {
	proc := engine.NewProcessor(workers)
	proc.SetFailOnFirstErrorInTriggerSequence(flag)
	var mu sync.Mutex
	started := make([][]string, len(roots))
	startedIDs := make([][]c10Pair, len(roots))
	// schedule-independent oracle for HighestPriority() inside an action: the own monitor is active,
	// so the report is at most the own priority and is the priority of some triggering event of that root
	prioSet := make([]map[int]bool, len(roots))
	for r, nodes := range roots {
		prioSet[r] = map[int]bool{}
		for _, n := range nodes {
			if len(n.rules) > 0 {
				if n.useRoot {
					prioSet[r][0] = true
				} else {
					prioSet[r][n.prio] = true
				}
			}
		}
	}
	hpBad := ""
	mkEvent := func(r, i int) *engine.Event {
		kind := []string{"nop"}
		if len(roots[r][i].rules) > 0 {
			kind = []string{"ev", fmt.Sprintf("r%dn%d", r, i)}
		}
		return engine.NewEvent(fmt.Sprintf("n%d.%d", r, i), kind, map[interface{}]interface{}{"r": r, "n": i})
	}
	for r := range roots {
		for i := range roots[r] {
			for k := range roots[r][i].rules {
				r, i, k := r, i, k
				rule := roots[r][i].rules[k]
				check(proc.AddRule(&engine.Rule{
					Name: fmt.Sprintf("r%dn%dk%d", r, i, k), KindMatch: []string{fmt.Sprintf("ev.r%dn%d", r, i)}, ScopeMatch: []string{},
					Priority: rule.prio,
					Action: func(p engine.Processor, m engine.Monitor, e *engine.Event, tid uint64) error {
						hp := m.RootMonitor().HighestPriority()
						mu.Lock()
						if (hp > m.Priority() || !prioSet[r][hp]) && hpBad == "" {
							hpBad = fmt.Sprintf("bad:root%d.event%d:own=%d:reported=%d", r, i, m.Priority(), hp)
						}
						started[r] = append(started[r], fmt.Sprintf("%d/%d@%d", i, k, hp))
						startedIDs[r] = append(startedIDs[r], c10Pair{i, k})
						mu.Unlock()
						for _, c := range rule.children {
							if _, err := p.AddEvent(mkEvent(r, c), m.NewChildMonitor(roots[r][c].prio)); err != nil {
								panic(err)
							}
						}
						if rule.fails {
							return errors.New("scripted failure")
						}
						return nil
					}}))
			}
		}
	}
	gate := make(chan struct{})
	var atGate sync.WaitGroup
	atGate.Add(workers)
	check(proc.AddRule(&engine.Rule{
		Name: "gate", KindMatch: []string{"gate"}, ScopeMatch: []string{},
		Action: func(p engine.Processor, m engine.Monitor, e *engine.Event, tid uint64) error {
			atGate.Done()
			<-gate
			return nil
		}}))
	tracing := workers > 1 && verifhook.Enabled
	if tracing {
		c10TraceMu.Lock()
		c10Trace, c10TraceOn = nil, true
		c10TraceMu.Unlock()
	}
	proc.Start()
	// hold every worker inside a gate action while the initial events are queued
	for w := 0; w < workers; w++ {
		if _, err := proc.AddEvent(engine.NewEvent("gate", []string{"gate"}, nil), nil); err != nil {
			return "ERR " + oneLine(err.Error())
		}
	}
	atGate.Wait()
	rms := make([]*engine.RootMonitor, len(roots))
	for r, nodes := range roots {
		rms[r] = proc.NewRootMonitor(nil, nil)
		for i, n := range nodes {
			if n.parentEv >= 0 {
				continue
			}
			var m engine.Monitor = rms[r]
			if !n.useRoot {
				m = rms[r].NewChildMonitor(n.prio)
			}
			if _, err := proc.AddEvent(mkEvent(r, i), m); err != nil {
				return "ERR " + oneLine(err.Error())
			}
		}
	}
	close(gate)
	// all workers idle and nothing queued: only actions add events, so the cascades are over
	proc.ThreadPool().WaitAll()
	proc.Finish()
	var trace []string
	if tracing {
		c10TraceMu.Lock()
		trace, c10Trace, c10TraceOn = c10Trace, nil, false
		c10TraceMu.Unlock()
	}
	var res []string
	for r := range roots {
		var errIDs []c10Pair
		// event paths of the failed events (only when the root monitor itself carries an event:
		// otherwise the chain starts at a monitor without an event)
		rootHasEvent := len(roots[r]) > 0 && roots[r][0].useRoot
		pathOf := map[int]string{}
		for _, te := range rms[r].AllErrors() {
			ev := te.Event.State()["n"].(int)
			for name := range te.ErrorMap {
				k, _ := strconv.Atoi(name[strings.LastIndex(name, "k")+1:])
				errIDs = append(errIDs, c10Pair{ev, k})
			}
			if te.Monitor.Errors() != te {
				hpBad = fmt.Sprintf("bad:root%d.event%d:Monitor.Errors() is not the reported TaskError", r, ev)
			}
			if rootHasEvent {
				var ids []string
				for _, e := range te.Monitor.EventPath() {
					ids = append(ids, strconv.Itoa(e.State()["n"].(int)))
				}
				pathOf[ev] = strings.Join(ids, ">")
				if want := strings.ReplaceAll(te.Monitor.EventPathString(), fmt.Sprintf("n%d.", r), ""); want != strings.Join(ids, " -> ") {
					hpBad = fmt.Sprintf("bad:root%d.event%d:EventPathString %q", r, ev, want)
				}
			}
		}
		var evs []int
		for ev := range pathOf {
			evs = append(evs, ev)
		}
		sort.Ints(evs)
		var ps []string
		for _, ev := range evs {
			ps = append(ps, fmt.Sprintf("%d:%s", ev, pathOf[ev]))
		}
		end := " path=" + c10Join(ps, ";") + " end=" + strconv.Itoa(rms[r].HighestPriority())
		if workers == 1 {
			res = append(res, c10Join(started[r], ".")+" err="+c10Pairs(errIDs)+end)
		} else {
			res = append(res, "set="+c10Pairs(startedIDs[r])+" err="+c10Pairs(errIDs)+end)
		}
	}
	if hpBad == "" {
		hpBad = "ok"
	}
	res[len(res)-1] += " hp=" + hpBad
	if tracing {
		if len(trace) == 0 {
			CountRun("trace.no-hook-events")
		} else {
			CountRun("trace.recorded")
			f, err := os.OpenFile(fmt.Sprintf("c10-traces-%d.txt", os.Getpid()), os.O_APPEND|os.O_CREATE|os.O_WRONLY, 0644)
			if err == nil {
				fmt.Fprintf(f, "%s\t%s\n", payload, strings.Join(trace, " "))
				f.Close()
			}
		}
	}
	return strings.Join(res, "|")
}

// ---------------------------------------------------------------- generators

func c10RulePayload(flag bool, rs []c10Rule) string {
	var sb strings.Builder
	sb.WriteString("R ")
	if flag {
		sb.WriteString("1")
	} else {
		sb.WriteString("0")
	}
	b := func(x bool) string {
		if x {
			return "1"
		}
		return "0"
	}
	for _, r := range rs {
		f := b(r.fails)
		if r.fails && r.mode > 1 {
			f = strconv.Itoa(r.mode)
		}
		switch {
		case r.huge > 0:
			fmt.Fprintf(&sb, " H:%s:%s", f, b(r.kids))
		case r.huge < 0:
			fmt.Fprintf(&sb, " G:%s:%s", f, b(r.kids))
		default:
			fmt.Fprintf(&sb, " %d:%s:%s", r.prio, f, b(r.kids))
		}
		if r.frac > 0 {
			fmt.Fprintf(&sb, ":%d", r.frac)
		}
	}
	return sb.String()
}

// c10BookDFS emits every sequence of exactly `depth` steps over 3 priorities; a step is
// "new child p + activate", "new child p + skip", "finish the oldest active monitor of
// priority p", "activate / skip the root monitor", "finish the root monitor".
func c10BookDFS(g *Gen, depth int) {
	type mon struct {
		prio   int
		active bool
	}
	var rec func(ops []string, mons []mon, rootState int, d int)
	rec = func(ops []string, mons []mon, rootState int, d int) {
		if d == depth {
			g.Count("book exhaustive")
			g.Emit("B " + strings.Join(ops, " "))
			return
		}
		n := len(mons) + 1 // index of the next child monitor (0 = root)
		for p := 0; p < 3; p++ {
			rec(append(ops[:len(ops):len(ops)], fmt.Sprintf("N%d", p), fmt.Sprintf("A%d", n)),
				append(mons[:len(mons):len(mons)], mon{p, true}), rootState, d+1)
			rec(append(ops[:len(ops):len(ops)], fmt.Sprintf("N%d", p), fmt.Sprintf("S%d", n)),
				append(mons[:len(mons):len(mons)], mon{p, false}), rootState, d+1)
			for i, m := range mons {
				if m.active && m.prio == p {
					m2 := append([]mon(nil), mons...)
					m2[i].active = false
					rec(append(ops[:len(ops):len(ops)], fmt.Sprintf("F%d", i+1)), m2, rootState, d+1)
					break
				}
			}
		}
		switch rootState {
		case 0:
			rec(append(ops[:len(ops):len(ops)], "A0"), mons, 1, d+1)
			rec(append(ops[:len(ops):len(ops)], "S0"), mons, 2, d+1)
		case 1:
			rec(append(ops[:len(ops):len(ops)], "F0"), mons, 2, d+1)
		}
	}
	rec([]string{}, nil, 0, 0)
}

func c10RandomBook(g *Gen, maxPrio int, n int) string {
	type mon struct{ activated, finished bool }
	mons := []mon{{}}
	var ops []string
	for len(ops) < n {
		switch x := g.R.Intn(20); {
		case x < 7:
			p := g.R.Intn(maxPrio)
			if g.R.Intn(12) == 0 {
				p = -1 - g.R.Intn(3)
			}
			mons = append(mons, mon{true, false})
			ops = append(ops, fmt.Sprintf("N%d", p), fmt.Sprintf("A%d", len(mons)-1))
		case x < 10:
			mons = append(mons, mon{true, true})
			ops = append(ops, fmt.Sprintf("N%d", g.R.Intn(maxPrio)), fmt.Sprintf("S%d", len(mons)-1))
		case x < 11:
			mons = append(mons, mon{})
			ops = append(ops, fmt.Sprintf("N%d", g.R.Intn(maxPrio)))
		case x < 19:
			// a legal call on a random monitor
			k := g.R.Intn(len(mons))
			for t := 0; t < len(mons); t++ {
				m := &mons[(k+t)%len(mons)]
				if m.activated && !m.finished {
					m.finished = true
					ops = append(ops, fmt.Sprintf("F%d", (k+t)%len(mons)))
					break
				}
				if !m.activated {
					m.activated = true
					if g.R.Bool() {
						ops = append(ops, fmt.Sprintf("A%d", (k+t)%len(mons)))
					} else {
						m.finished = true
						ops = append(ops, fmt.Sprintf("S%d", (k+t)%len(mons)))
					}
					break
				}
			}
		default:
			// any call, possibly one the API rejects (the sequence ends there)
			if g.R.Intn(8) == 0 {
				ops = append(ops, fmt.Sprintf("%c%d", "ASF"[g.R.Intn(3)], g.R.Intn(len(mons))))
				g.Count("book with a possibly rejected call")
				return "B " + strings.Join(ops, " ")
			}
		}
	}
	return "B " + strings.Join(ops, " ")
}

// c10StressBook: many distinct priorities active at once (a large IntHeap), then a long mix of
// finishes (RemoveFirst in the middle of the slice) and activations.
func c10StressBook(g *Gen) string {
	d := 8 + g.R.Intn(23)
	perm := make([]int, 64)
	for i := range perm {
		perm[i] = i
	}
	for i := len(perm) - 1; i > 0; i-- {
		j := g.R.Intn(i + 1)
		perm[i], perm[j] = perm[j], perm[i]
	}
	var ops []string
	var active []int // monitor numbers
	next := 1
	act := func(p int) {
		ops = append(ops, fmt.Sprintf("N%d", p), fmt.Sprintf("A%d", next))
		active = append(active, next)
		next++
	}
	for _, p := range perm[:d] {
		act(p)
	}
	for k := 40 + g.R.Intn(120); k > 0; k-- {
		if len(active) > 0 && g.R.Intn(5) < 3 {
			i := g.R.Intn(len(active))
			ops = append(ops, fmt.Sprintf("F%d", active[i]))
			active = append(active[:i], active[i+1:]...)
		} else {
			act(perm[g.R.Intn(len(perm))])
		}
	}
	for len(active) > 0 {
		i := g.R.Intn(len(active))
		ops = append(ops, fmt.Sprintf("F%d", active[i]))
		active = append(active[:i], active[i+1:]...)
	}
	return "B " + strings.Join(ops, " ")
}

// c10BigCascade: one root event whose rule adds 200..400 events with 16 priorities, some of which
// add further events: many monitors finishing concurrently on 8 workers.
func c10BigCascade(g *Gen) string {
	n := 200 + g.R.Intn(200)
	nodes := []string{"r:R:0/0"}
	for i := 1; i <= n; i++ {
		parent := "0.0"
		if i > 20 && g.R.Intn(5) == 0 {
			parent = fmt.Sprintf("%d.0", 1+g.R.Intn(i-1))
		}
		f := "0"
		if g.R.Intn(25) == 0 {
			f = "1"
		}
		nodes = append(nodes, fmt.Sprintf("%s:%d:0/%s", parent, g.R.Intn(16), f))
	}
	return fmt.Sprintf("K 8 %d %s", g.R.Intn(2), strings.Join(nodes, ","))
}

func c10RandomRoots(g *Gen, maxRoots, maxNodes int, negative bool) string {
	nr := 1 + g.R.Intn(maxRoots)
	var roots []string
	for r := 0; r < nr; r++ {
		n := 1 + g.R.Intn(maxNodes)
		var nodes []string
		nrules := make([]int, n)
		for i := 0; i < n; i++ {
			parent := "r"
			if i > 0 && g.R.Intn(4) != 0 {
				// added by a rule of an earlier event (if that event has rules)
				e := g.R.Intn(i)
				if nrules[e] > 0 {
					parent = fmt.Sprintf("%d.%d", e, g.R.Intn(nrules[e]))
				}
			}
			prio := strconv.Itoa(g.R.Intn(6))
			if negative && g.R.Intn(6) == 0 {
				prio = strconv.Itoa(-1 - g.R.Intn(3))
			}
			// the whole range of priority numbers, not only the small ones
			switch g.R.Intn(14) {
			case 0, 1:
				prio = strconv.Itoa(6 + g.R.Intn(35))
			case 2:
				prio = "1000"
			case 3:
				prio = "2147483647"
			}
			if i == 0 && g.R.Bool() {
				prio = "R"
			}
			rules := "-"
			if g.R.Intn(7) != 0 {
				// 1..4 rules with distinct priorities (ties are covered by the validated R cases)
				k := 1
				if g.R.Intn(3) != 0 {
					k = 2 + g.R.Intn(3)
				}
				nrules[i] = k
				perm := []int{0, 1, 2, 3, 4, 5, -1}
				for x := len(perm) - 1; x > 0; x-- {
					y := g.R.Intn(x + 1)
					perm[x], perm[y] = perm[y], perm[x]
				}
				var rs []string
				for x := 0; x < k; x++ {
					f := "0"
					if g.R.Intn(4) == 0 {
						f = "1"
					}
					rs = append(rs, fmt.Sprintf("%d/%s", perm[x], f))
				}
				rules = strings.Join(rs, ";")
			}
			nodes = append(nodes, parent+":"+prio+":"+rules)
		}
		roots = append(roots, strings.Join(nodes, ","))
	}
	return strings.Join(roots, "|")
}

func c10ParseRule(s string) c10Rule {
	x := strings.Split(s, ":")
	p, _ := strconv.Atoi(x[0])
	r := c10Rule{prio: p, fails: x[1] != "0", kids: x[2] == "1", mode: 1}
	if x[0] == "H" {
		r.huge = 1
	} else if x[0] == "G" {
		r.huge = -1
	}
	if r.fails {
		r.mode, _ = strconv.Atoi(x[1])
	}
	if len(x) > 3 {
		r.frac, _ = strconv.Atoi(x[3])
	}
	return r
}

func init() {
	register("C10", &Prop{
		Timeout: 20 * time.Second,
		Tool: func(args []string) int {
			if len(args) == 2 && args[0] == "facts" {
				return c10Facts(args[1])
			}
			fmt.Fprintln(os.Stderr, "usage: harness C10 -tool facts <out.lean>")
			return 2
		},
		NoRestartOnPanic: false,
		Setup: func() {
			verifhook.SetHandler(c10Hook)
			registerX("c10log", func(args []interface{}) (interface{}, error) {
				c10SinkMu.Lock()
				defer c10SinkMu.Unlock()
				c10SinkLog = append(c10SinkLog, fmt.Sprint(args[0]))
				return nil, nil
			})
			registerX("c10kid", func(args []interface{}) (interface{}, error) {
				c10SinkMu.Lock()
				defer c10SinkMu.Unlock()
				c10SinkKids++
				return nil, nil
			})
		},
		Gen: func(g *Gen) {
			if g.Tier == "race" {
				// cases for the harness built with -race (props/C10.py): cascades on several workers
				for i := 0; i < 12; i++ {
					g.Emit(c10BigCascade(g))
				}
				for i := 0; i < 150; i++ {
					g.Emit(fmt.Sprintf("K %d %d %s", 2+g.R.Intn(7), g.R.Intn(2), c10RandomRoots(g, 3, 12, true)))
				}
				return
			}
			// corpus: the inputs of the repaired defects first
			for _, c := range []string{
				"B N5 A1 N9 A2 N3 A3 N11 A4 N8 A5 N4 A6 F6 N6 A7 N7 A8 F3",
				"B A0 N0 S1",
				"B N2 S1 N2 A2",
				"B N1 A1 N1 S2 F1",
				"R 1 0:0:1 1:0:0 2:1:1 3:0:0 4:1:0 5:0:0",
				"R 0 0:0:1 1:0:0 2:1:1 3:0:0 4:1:0 5:0:0",
				"R 1 5:0:0 4:0:0 3:0:0 2:0:0 1:0:0 0:0:0",
				"S 3:0:0 0:0:1 2:1:1 1:0:0 5:0:0 4:1:0",
				"S 3:0:0 0:0:1 2:2:1 1:0:0:7",
				"S 3:0:0 0:0:1 2:3:1 -1:0:0",
				"S 0:0:0 -1:0:0:5 -2:0:0:5 -1:0:0",
				"S 0:0:0 H:0:0 3:0:0",
				"W 0:0:0:7 0:1:0:2 1:0:0",
				"V 1 1:0:0 1:1:1 1:0:1 2:0:0",
				"V 0 1:0:0 1:1:1 1:0:1 0:1:0",
				"S Hl 3:0:0 0:0:1 2:1:1 1:0:0 5:0:0 4:1:0",
				"R 1 Hsfra 1:1:0 2:0:0 0:0:1",
				"R 0 HTl 1:1:0 2:0:0 0:0:1",
				"K 1 1 r:R:1/1;0/0;2/0,0.0:3:0/0,0.1:1:0/0,0.2:0:0/0,2.0:2:-|r:5:0/0,r:-2:0/1",
				"K 1 0 r:R:1/1;0/0;2/0,0.0:3:0/0,0.1:1:0/0,0.2:0:0/0,2.0:2:-|r:5:0/0,r:-2:0/1",
				"K 1 1 r:3:0/0,r:1:0/0,r:1:0/0,r:0:0/0,r:-1:0/0,r:2:-",
				"K 4 1 r:R:1/1;0/0;2/0,0.0:3:0/0,0.1:1:0/0,0.2:0:0/0,2.0:2:-|r:5:0/0,r:-2:0/1",
			} {
				g.Count("corpus")
				g.Emit(c)
			}
			nRules, nBook, nK1, nKn, depth := 150, 3000, 600, 400, 6
			if g.Thorough() {
				nRules, nBook, nK1, nKn, depth = 600, 60000, 6000, 4000, 7
			}
			// R: priorities 0..5 in a random declaration order, the failing rule at every rank
			// (and none, and two), both settings of the flag
			for rep := 0; rep < nRules; rep++ {
				perm := []int{0, 1, 2, 3, 4, 5}
				for i := 5; i > 0; i-- {
					j := g.R.Intn(i + 1)
					perm[i], perm[j] = perm[j], perm[i]
				}
				kids := g.R.Intn(64)
				for rank := -1; rank < 7; rank++ {
					second := -1
					if rank == 6 {
						rank, second = g.R.Intn(6), g.R.Intn(6)
					}
					rs := make([]c10Rule, 6)
					for i, p := range perm {
						rs[i] = c10Rule{prio: p, fails: p == rank || p == second, kids: kids>>uint(p)&1 == 1}
					}
					g.Count("rules: priorities 0..5")
					g.Emit(c10RulePayload(true, rs))
					g.Emit(c10RulePayload(false, rs))
					body := strings.TrimPrefix(c10RulePayload(true, rs), "R 1")
					if rep%4 == 0 {
						// the same rules as ECAL sinks (flag = the interpreter's default)
						g.Count("sinks: priorities 0..5")
						g.Emit("S" + body)
					}
					if rep%3 == 0 {
						// a processor life cycle before the measured event: start/finish cycles, reset and
						// re-declaration (l = the reload sequence of CLIInterpreter.LoadInitialFile), the
						// flag set before, in between or after
						hs := []string{"sf", "sfra", "ra", "l", "ll", "sfsfra", "lsfl", "a", "asfr"}
						h := hs[g.R.Intn(len(hs))]
						switch g.R.Intn(4) {
						case 0:
							h = "T" + h
						case 1:
							h = "F" + h
						case 2:
							k := g.R.Intn(len(h) + 1)
							h = h[:k] + string("TF"[g.R.Intn(2)]) + h[k:]
						}
						g.Count("rules after a life-cycle history")
						g.Emit("R 1 H" + h + body)
						g.Emit("R 0 H" + h + body)
						g.Count("sinks after a life-cycle history")
						g.Emit("S H" + h + body)
					}
					if second >= 0 {
						break
					}
				}
				// groups of equal priority (uniform outcome inside a group: the order inside is free),
				// negative priorities, 0..8 rules
				n := g.R.Intn(9)
				fails, kidsOf := map[int]bool{}, map[int]bool{}
				var rs []c10Rule
				for i := 0; i < n; i++ {
					p := g.R.Intn(4) - 1
					if _, ok := fails[p]; !ok {
						fails[p] = g.R.Intn(4) == 0
						kidsOf[p] = g.R.Intn(3) == 0
					}
					rs = append(rs, c10Rule{prio: p, fails: fails[p], kids: kidsOf[p]})
				}
				g.Count("rules: equal priorities")
				g.Emit(c10RulePayload(g.R.Bool(), rs))
			}
			// R with 13..40 rules (beyond the insertion-sort range of sort.Sort), distinct priorities;
			// V: ties with mixed outcomes, 0..40 rules — the observed run is validated, not predicted;
			// S: sinks with equal / negative / fractional priorities and the three ways a sink fails
			for rep := 0; rep < nRules; rep++ {
				n := 13 + g.R.Intn(28)
				perm := make([]int, n)
				for i := range perm {
					perm[i] = i - 3
				}
				for i := n - 1; i > 0; i-- {
					j := g.R.Intn(i + 1)
					perm[i], perm[j] = perm[j], perm[i]
				}
				rs := make([]c10Rule, n)
				for i, p := range perm {
					rs[i] = c10Rule{prio: p, fails: g.R.Intn(n) < 2, kids: g.R.Intn(4) == 0, mode: 1}
				}
				g.Count("rules: 13..40 rules")
				g.Emit(c10RulePayload(g.R.Bool(), rs))

				for k := 0; k < 3; k++ {
					n = g.R.Intn(9)
					if k == 2 {
						n = 13 + g.R.Intn(28)
					}
					vs := make([]c10Rule, n)
					for i := range vs {
						vs[i] = c10Rule{prio: g.R.Intn(4) - 1, fails: g.R.Intn(4) == 0, kids: g.R.Intn(3) == 0, mode: 1}
					}
					g.Count("rules validated (ties with mixed outcomes)")
					g.Emit("V" + strings.TrimPrefix(c10RulePayload(g.R.Bool(), vs), "R"))
				}

				if rep%2 == 0 {
					n = 1 + g.R.Intn(7)
					type grp struct {
						fails, kids bool
						mode        int
					}
					groups := map[int]grp{}
					var ss []c10Rule
					for i := 0; i < n; i++ {
						p := g.R.Intn(5) - 1
						gr, ok := groups[p]
						if !ok {
							gr = grp{g.R.Intn(4) == 0, g.R.Intn(3) == 0, 1 + g.R.Intn(3)}
							groups[p] = gr
						}
						ss = append(ss, c10Rule{prio: p, fails: gr.fails, kids: gr.kids, mode: gr.mode, frac: g.R.Intn(10)})
					}
					g.Count("sinks: equal/negative/fractional priorities, raise / runtime error / return")
					g.Emit("S" + strings.TrimPrefix(c10RulePayload(true, ss), "R 1"))
					// fractional numbers (also below 0) with mixed outcomes inside a floored group: validated
					ws := make([]c10Rule, 1+g.R.Intn(7))
					for i := range ws {
						ws[i] = c10Rule{prio: g.R.Intn(4) - 2, fails: g.R.Intn(4) == 0, kids: g.R.Intn(3) == 0, mode: 1 + g.R.Intn(3), frac: g.R.Intn(10)}
					}
					g.Count("sinks validated: fractional priorities incl. negative, mixed outcomes in a floored group")
					g.Emit("W" + strings.TrimPrefix(c10RulePayload(true, ws), "R 1"))
					// distinct floors, fractions everywhere (also below 0): predicted
					perm := []int{-3, -2, -1, 0, 1, 2}
					for x := len(perm) - 1; x > 0; x-- {
						y := g.R.Intn(x + 1)
						perm[x], perm[y] = perm[y], perm[x]
					}
					ds := make([]c10Rule, 2+g.R.Intn(5))
					for i := range ds {
						ds[i] = c10Rule{prio: perm[i], fails: g.R.Intn(5) == 0, kids: g.R.Intn(3) == 0, mode: 1, frac: g.R.Intn(10)}
					}
					if rep%10 == 0 {
						// a number outside the int range: the declaration must be rejected
						ds[g.R.Intn(len(ds))].huge = 1 - 2*g.R.Intn(2)
					}
					g.Count("sinks: distinct floors with fractions incl. negative; sometimes a number outside the int range")
					g.Emit("S" + strings.TrimPrefix(c10RulePayload(true, ds), "R 1"))
				}
			}
			// P: scope filter, suppression and double kind matches (before the sort), then the order
			for _, c := range []string{"P 1 a 0:0:0:-:1:0 1:0:0:-:-:0 2:0:0:-:-:1 3:0:1:a:-:0 4:0:0:b:-:0", "P 0 - 2:1:0:-:-:1 0:0:0:a:-:0 1:0:1:-:0:1"} {
				g.Count("corpus")
				g.Emit(c)
			}
			for i := 0; i < 2*nRules; i++ {
				g.Count("rules with scope / suppression / two matching kind patterns")
				g.Emit(c10RandomPre(g))
			}
			// B: exhaustive, then random longer sequences over more priorities
			c10BookDFS(g, depth)
			for i := 0; i < nBook; i++ {
				g.Count("book random")
				g.Emit(c10RandomBook(g, 3+g.R.Intn(10), 6+g.R.Intn(40)))
			}
			nStress := 2500
			if g.Thorough() {
				nStress = 30000
			}
			for i := 0; i < nStress; i++ {
				g.Count("book heap stress (8..30 distinct active priorities)")
				g.Emit(c10StressBook(g))
			}
			// Q: sortutil.PriorityQueue against the heap-slice model: values and slice layout
			nQ := 1500
			if g.Thorough() {
				nQ = 40000
			}
			for _, c := range []string{"Q -", "Q k +3 k - -", "Q +0 +-2 - -", "Q +5 +9 +3 +11 +8 +4 - +6 +7 - - - - - - -", "Q +1 +1 c +2 +1 - -"} {
				g.Count("corpus")
				g.Emit(c)
			}
			for i := 0; i < nQ; i++ {
				g.Count("priority queue ops")
				switch {
				case i%50 == 0:
					g.Emit(c10RandomQueue(g, 200+g.R.Intn(250), 8+g.R.Intn(30)))
				case i%3 == 0:
					g.Emit(c10RandomQueue(g, 4+g.R.Intn(45), 2+g.R.Intn(3)))
				default:
					g.Emit(c10RandomQueue(g, 4+g.R.Intn(45), 8+g.R.Intn(12)))
				}
			}
			// K: one worker (exact order), then 2..8 workers (sets + trace)
			for i := 0; i < nK1; i++ {
				g.Count("cascade 1 worker")
				g.Emit(fmt.Sprintf("K 1 %d %s", g.R.Intn(2), c10RandomRoots(g, 3, 10, true)))
			}
			for i := 0; i < nKn/80; i++ {
				g.Count("cascade 8 workers, 200..400 events")
				g.Emit(c10BigCascade(g))
			}
			for i := 0; i < nKn; i++ {
				g.Count("cascade 2..8 workers")
				g.Emit(fmt.Sprintf("K %d %d %s", 2+g.R.Intn(7), g.R.Intn(2), c10RandomRoots(g, 3, 12, true)))
			}
		},
		Run: func(payload string) string {
			f := strings.Split(payload, " ")
			switch f[0] {
			case "R":
				var rs []c10Rule
				hist, rest := "", f[2:]
				if len(rest) > 0 && strings.HasPrefix(rest[0], "H") && !strings.Contains(rest[0], ":") {
					hist, rest = rest[0][1:], rest[1:]
				}
				for _, s := range rest {
					rs = append(rs, c10ParseRule(s))
				}
				return c10RunRules(f[1] == "1", hist, rs, false)
			case "V":
				// observed run (rule NAMES) goes to a side file and is validated by the model
				var rs []c10Rule
				for _, s := range f[2:] {
					rs = append(rs, c10ParseRule(s))
				}
				obs := c10RunRules(f[1] == "1", "", rs, true)
				if strings.HasPrefix(obs, "ERR") {
					return obs
				}
				fl, err := os.OpenFile(fmt.Sprintf("c10-validate-%d.txt", os.Getpid()), os.O_APPEND|os.O_CREATE|os.O_WRONLY, 0644)
				if err != nil {
					return "ERR " + oneLine(err.Error())
				}
				fmt.Fprintf(fl, "%s ## %s\n", payload, obs)
				fl.Close()
				return "validated"
			case "S":
				var rs []c10Rule
				hist, rest := "", f[1:]
				if len(rest) > 0 && strings.HasPrefix(rest[0], "H") && !strings.Contains(rest[0], ":") {
					hist, rest = rest[0][1:], rest[1:]
				}
				for _, s := range rest {
					rs = append(rs, c10ParseRule(s))
				}
				return c10RunSinks(hist, rs, false)
			case "W":
				// sinks whose floored priorities tie: observed run (sink NAMES) validated by the model
				var rs []c10Rule
				for _, s := range f[1:] {
					rs = append(rs, c10ParseRule(s))
				}
				obs := c10RunSinks("", rs, true)
				if strings.HasPrefix(obs, "ERR") {
					return obs
				}
				fl, err := os.OpenFile(fmt.Sprintf("c10-validate-%d.txt", os.Getpid()), os.O_APPEND|os.O_CREATE|os.O_WRONLY, 0644)
				if err != nil {
					return "ERR " + oneLine(err.Error())
				}
				fmt.Fprintf(fl, "%s ## %s\n", payload, obs)
				fl.Close()
				return "validated"
			case "P":
				var rs []c10PRule
				for _, s := range f[3:] {
					x := strings.Split(s, ":")
					if len(x) != 6 {
						return "bad-payload"
					}
					r := c10PRule{c10Rule: c10ParseRule(strings.Join(x[:3], ":")), scope: x[3], dbl: x[5] == "1"}
					if x[4] != "-" {
						for _, y := range strings.Split(x[4], "+") {
							j, _ := strconv.Atoi(y)
							r.supp = append(r.supp, j)
						}
					}
					rs = append(rs, r)
				}
				return c10RunPre(f[1] == "1", f[2], rs)
			case "B":
				return c10RunBook(f[1:])
			case "Q":
				return c10RunQueue(f[1:])
			case "K":
				if len(f) != 4 {
					return "bad-payload"
				}
				w, _ := strconv.Atoi(f[1])
				roots, ok := c10ParseRoots(f[3])
				if !ok || w < 1 {
					return "bad-payload"
				}
				return c10RunCascade(payload, w, f[2] == "1", roots)
			}
			return "bad-payload"
		},
	})
}
