package main

// GENERATED ONCE by `harness C15 -tool pin` on a tree on which the check passed, then committed:
// literal visit traces of the directed programs (the expectation of a directed case must not be
// recomputed from the tree under test).
var c15Pinned = map[string]string{
	"func z() {\n    log(\"z\")\n    return\n}\na := 1\nz()\nz()\nb := 2\nb":                                                             "v1,v5,v5,v5,v6,e6,v2,v2,v3,x6,v7,e7,v2,v2,v3,x7,v8,v8,v8,v9",
	"for i in range(1, 3) {\n    a := i\n    break\n}\nfor j in range(1, 2) {\n    b := j\n    continue\n}\n7":                           "v1,v1,v1,v1,e1,X1,v1,v1,v1,e1,X1,v2,v2,v2,v3,v5,v5,v5,v5,e5,X5,v5,v5,v5,e5,X5,v6,v6,v6,v7,v5,v5,v5,e5,X5,v6,v6,v6,v7,v5,v5,v5,e5,X5,v9",
	"func r(a) {\n    b := a\n    return\n}\nr(1)\nr(2)\n3":                                                                              "v1,v5,v5,e5,v2,v2,v2,v3,x5,v6,v6,e6,v2,v2,v2,v3,x6,v7",
	"l := [\n    1,\n    2\n]\nl[0]":                                                                                                     "v1,v1,v1,v2,v3,v5,v5",
	"func k(a) {\n    return a\n}\nx := k(\n    3\n)\ny := [\n    4,\n    k(\n        5\n    )\n]\nx":                                    "v1,v4,v4,v4,v5,e4,v2,v2,x4,v7,v7,v7,v8,v9,v10,e9,v2,v2,x9,v13",
	"func g(a) {\n    return a + 1\n}\nfunc f(a) {\n    b := g(a)\n    c := g(b)\n    return c\n}\nx := f(1)\ny := f(2)\nx + y":          "v1,v4,v9,v9,v9,v9,e9,v5,v5,v5,v5,e5,v2,v2,v2,v2,x5,v6,v6,v6,v6,e6,v2,v2,v2,v2,x6,v7,v7,x9,v10,v10,v10,v10,e10,v5,v5,v5,v5,e5,v2,v2,v2,v2,x5,v6,v6,v6,v6,e6,v2,v2,v2,v2,x6,v7,v7,x10,v11,v11,v11",
	"func f(a) {\n    for i in range(1, 3) {\n        b := i\n        c := b\n    }\n    return a\n}\nx := f(1)\nx":                      "v1,v8,v8,v8,v8,e8,v2,v2,v2,v2,e2,X2,v2,v2,v2,e2,X2,v3,v3,v3,v4,v4,v4,v2,v2,v2,e2,X2,v3,v3,v3,v4,v4,v4,v2,v2,v2,e2,X2,v3,v3,v3,v4,v4,v4,v2,v2,v2,e2,X2,v6,v6,x8,v9",
	"func g() {\n    raise(\"x\")\n}\nfunc f() {\n    g()\n}\ntry { f() } except { log(\"caught\") }\nlog(\"end\")":                      "v1,v4,v7,v7,e7,v5,e5,v2,v2,e2,X2,X5,X7,v7,v7,v8,v8",
	"func f(a) {\n    return 1 / a\n}\ntry { f(0) } except { log(\"c\") } finally { log(\"f\") }\ntry { f(1) } except { log(\"c\") }\n7": "v1,v4,v4,v4,e4,v2,v2,v2,v2,x4,v4,v4,v5,v5,v5,e5,v2,v2,v2,v2,x5,v6",
}
