package main

// C19, mode R — the interpreter side of the bridge: every activation of a call site runs the
// bridged Go function on the values of ITS OWN argument expressions, also when the call site is
// re-entered while its arguments are still being evaluated (recursion through an argument
// expression; several goroutines evaluating one AST, as concurrent sinks do).
//
// A case is a small program in a postfix DSL (see lean/Ecal/Drivers/C19.lean, mode R) which is
// rendered to ECAL source, parsed ONCE and evaluated `rounds` times by each of `goroutines`
// goroutines. Bridged functions c19.rid / radd / radd3 / rmix record the argument vectors they
// receive and return their sum.
//
//	payload: reent R <goroutines> <rounds> <main> <fn>…
//	result : V <value> recv=[<vector>|…]   (call order for one goroutine, sorted multiset otherwise)

import (
	"fmt"
	"reflect"
	"sort"
	"strconv"
	"strings"
	"sync"

	"github.com/krotik/ecal/interpreter"
	eparser "github.com/krotik/ecal/parser"
	"github.com/krotik/ecal/stdlib"
)

var c19ReMu sync.Mutex
var c19ReLog []string

func c19ReRec(vals ...interface{}) {
	parts := make([]string, len(vals))
	for i, v := range vals {
		parts[i] = c19Canon(v, 0)
	}
	c19ReMu.Lock()
	c19ReLog = append(c19ReLog, strings.Join(parts, ";"))
	c19ReMu.Unlock()
}

func c19RegisterReentry() {
	fns := map[string]interface{}{
		"rid":   func(a float64) float64 { c19ReRec(a); return a },
		"radd":  func(a, b float64) float64 { c19ReRec(a, b); return a + b },
		"radd3": func(a int, b int64, c float64) float64 { c19ReRec(a, b, c); return float64(a) + float64(b) + c },
		"rmix":  func(a uint8, b float64, c int32) int64 { c19ReRec(a, b, c); return int64(a) + int64(b) + int64(c) },
	}
	for n, f := range fns {
		if err := stdlib.AddStdlibFunc("c19", n, stdlib.NewECALFunctionAdapter(reflect.ValueOf(f), "re-entry")); err != nil {
			panic(err)
		}
	}
}

// ---- the DSL

type c19Expr struct {
	op   string // c v + - B U
	n    int
	name string
	args []*c19Expr
}

func (e *c19Expr) rpn() string {
	switch e.op {
	case "c":
		return "c." + strconv.Itoa(e.n)
	case "v":
		return "v." + e.name
	case "+", "-":
		return e.args[0].rpn() + "," + e.args[1].rpn() + "," + e.op
	}
	parts := make([]string, 0, len(e.args)+1)
	for _, a := range e.args {
		parts = append(parts, a.rpn())
	}
	parts = append(parts, e.op+"."+e.name+"."+strconv.Itoa(len(e.args)))
	return strings.Join(parts, ",")
}

func (e *c19Expr) ecal() string {
	switch e.op {
	case "c":
		if e.n < 0 {
			return "(0 - " + strconv.Itoa(-e.n) + ")"
		}
		return strconv.Itoa(e.n)
	case "v":
		return e.name
	case "+", "-":
		return "(" + e.args[0].ecal() + " " + e.op + " " + e.args[1].ecal() + ")"
	}
	parts := make([]string, len(e.args))
	for i, a := range e.args {
		parts[i] = a.ecal()
	}
	name := e.name
	if e.op == "B" {
		name = "c19." + name
	}
	return name + "(" + strings.Join(parts, ", ") + ")"
}

type c19FnDef struct {
	name       string
	params     []string
	base, step *c19Expr
}

func (f *c19FnDef) field() string {
	return f.name + ";" + strings.Join(f.params, "/") + ";" + f.base.rpn() + ";" + f.step.rpn()
}

func (f *c19FnDef) ecal() string {
	return "func " + f.name + "(" + strings.Join(f.params, ", ") + ") {\n  if " + f.params[0] + " == 0 {\n    return " +
		f.base.ecal() + "\n  }\n  return " + f.step.ecal() + "\n}\n"
}

func c19ParseRpn(s string) *c19Expr {
	var st []*c19Expr
	for _, tok := range strings.Split(s, ",") {
		f := strings.Split(tok, ".")
		switch {
		case f[0] == "c":
			n, _ := strconv.Atoi(f[1])
			st = append(st, &c19Expr{op: "c", n: n})
		case f[0] == "v":
			st = append(st, &c19Expr{op: "v", name: f[1]})
		case tok == "+" || tok == "-":
			st = append(st[:len(st)-2], &c19Expr{op: tok, args: []*c19Expr{st[len(st)-2], st[len(st)-1]}})
		default:
			n, _ := strconv.Atoi(f[2])
			args := append([]*c19Expr(nil), st[len(st)-n:]...)
			st = append(st[:len(st)-n], &c19Expr{op: f[0], name: f[1], args: args})
		}
	}
	if len(st) != 1 {
		panic("bad postfix expression " + s)
	}
	return st[0]
}

// ---- execution

func c19RunReentry(fields []string) string {
	g, _ := strconv.Atoi(fields[0])
	rounds, _ := strconv.Atoi(fields[1])
	var src strings.Builder
	for _, f := range fields[3:] {
		p := strings.Split(f, ";")
		d := &c19FnDef{name: p[0], params: strings.Split(p[1], "/"), base: c19ParseRpn(p[2]), step: c19ParseRpn(p[3])}
		src.WriteString(d.ecal())
	}
	src.WriteString(c19ParseRpn(fields[2]).ecal())
	if c19Erp == nil {
		c19Erp = interpreter.NewECALRuntimeProvider("t", nil, &memLog{})
	}
	ast, err := eparser.ParseWithRuntime("t", src.String(), c19Erp) // parsed ONCE
	if err != nil {
		return "PARSE-ERROR " + oneLine(err.Error())
	}
	if err = ast.Runtime.Validate(); err != nil {
		return "VALIDATE-ERROR " + oneLine(err.Error())
	}
	c19ReMu.Lock()
	c19ReLog = nil
	c19ReMu.Unlock()
	finals := map[string]bool{}
	var fm sync.Mutex
	var wg sync.WaitGroup
	start := make(chan struct{})
	for k := 0; k < g; k++ {
		wg.Add(1)
		go func() {
			defer wg.Done()
			defer func() {
				if r := recover(); r != nil {
					fm.Lock()
					finals["PANIC "+oneLine(fmt.Sprint(r))] = true
					fm.Unlock()
				}
			}()
			<-start
			for r := 0; r < rounds; r++ {
				res, err := ast.Runtime.Eval(newGlobalScope(), make(map[string]interface{}), c19Erp.NewThreadID())
				s := c19Canon(res, 0)
				if err != nil {
					s = "ERR"
				}
				fm.Lock()
				finals[s] = true
				fm.Unlock()
			}
		}()
	}
	close(start)
	wg.Wait()
	c19ReMu.Lock()
	log := append([]string(nil), c19ReLog...)
	c19ReMu.Unlock()
	if g > 1 {
		sort.Strings(log)
	}
	var fs []string
	for s := range finals {
		fs = append(fs, s)
	}
	sort.Strings(fs)
	CountRun("mode R")
	return "V " + strings.Join(fs, "/") + " recv=[" + strings.Join(log, "|") + "]"
}

// ---- generator

func c19GenReentry(g *Gen) {
	c := func(n int) *c19Expr { return &c19Expr{op: "c", n: n} }
	v := func(x string) *c19Expr { return &c19Expr{op: "v", name: x} }
	sub := func(a, b *c19Expr) *c19Expr { return &c19Expr{op: "-", args: []*c19Expr{a, b}} }
	add := func(a, b *c19Expr) *c19Expr { return &c19Expr{op: "+", args: []*c19Expr{a, b}} }
	B := func(f string, a ...*c19Expr) *c19Expr { return &c19Expr{op: "B", name: f, args: a} }
	U := func(f string, a ...*c19Expr) *c19Expr { return &c19Expr{op: "U", name: f, args: a} }
	n1 := func() *c19Expr { return sub(v("n"), c(1)) }
	fn := func(name string, params string, base, step *c19Expr) *c19FnDef {
		return &c19FnDef{name, strings.Split(params, "/"), base, step}
	}
	emit := func(kind string, main *c19Expr, fns ...*c19FnDef) {
		schedules := [][2]int{{1, 1}, {1, 2}, {1, 3}, {2, 2}, {4, 2}, {8, 2}}
		if g.Thorough() {
			schedules = append(schedules, [2]int{3, 3}, [2]int{6, 4}, [2]int{8, 6})
		}
		for _, s := range schedules {
			parts := []string{"reent", "R", strconv.Itoa(s[0]), strconv.Itoa(s[1]), main.rpn()}
			for _, f := range fns {
				parts = append(parts, f.field())
			}
			g.Count("mode R")
			g.Count("re-entry: " + kind)
			g.Emit(strings.Join(parts, " "))
		}
	}
	for _, n := range []int{1, 3, 5} {
		// direct recursion through the 2nd / 1st argument
		emit("recursion through 2nd argument", U("sum", c(n)), fn("sum", "n", c(0), B("radd", v("n"), U("sum", n1()))))
		emit("recursion through 1st argument", U("sum", c(n)), fn("sum", "n", c(0), B("radd", U("sum", n1()), v("n"))))
		emit("recursion through both arguments", U("fib", c(n)), fn("fib", "n", c(1), B("radd", U("fib", n1()), U("fib", n1()))))
		// three parameters of different kinds: through the first, the middle, the last, all
		emit("recursion through last of 3", U("s", c(n)), fn("s", "n", c(0), B("radd3", v("n"), add(v("n"), c(1)), U("s", n1()))))
		emit("recursion through middle of 3", U("s", c(n)), fn("s", "n", c(0), B("radd3", v("n"), U("s", n1()), add(v("n"), c(7)))))
		emit("recursion through first of 3", U("s", c(n)), fn("s", "n", c(0), B("rmix", U("s", n1()), v("n"), add(v("n"), v("n")))))
		emit("recursion through all of 3", U("s", c(min(n, 3))), fn("s", "n", c(1), B("radd3", U("s", n1()), U("s", n1()), U("s", n1()))))
		// mutual recursion
		emit("mutual recursion", U("a", c(n)),
			fn("a", "n", c(0), B("radd", v("n"), U("b", n1()))),
			fn("b", "n", c(1), B("radd", U("a", n1()), add(v("n"), c(10)))))
		// the call site inside a user function that is called twice / three times
		emit("site in a function called twice", B("radd", U("w", c(n), c(4)), U("w", c(n+1), c(5))),
			fn("w", "n/k", v("k"), B("radd", v("k"), U("w", n1(), add(v("k"), c(1))))))
		emit("site in a function called three times", B("radd3", U("w", c(n), c(1)), U("w", c(n), c(2)), U("w", c(n), c(3))),
			fn("w", "n/k", v("k"), B("radd", U("w", n1(), v("k")), v("k"))))
		// nested calls to the same bridged function at different sites and, through a wrapper, the same site
		emit("nested calls, different sites", B("radd", B("rid", B("radd", c(n), c(1))), B("radd", c(2), B("rid", c(n)))))
		emit("nested calls, same site via wrapper", U("g", c(1), U("g", c(1), U("g", c(1), c(n)))),
			fn("g", "one/x", c(0), B("radd", v("x"), B("rid", v("x")))))
		emit("re-entered site as argument of itself", U("h", c(n)),
			fn("h", "n", c(0), B("rid", B("radd", v("n"), U("h", n1())))))
	}
	// random programs: two functions, first parameter decreases on every user call
	nRandom := 60
	if g.Thorough() {
		nRandom = 600
	}
	bnames := []string{"rid", "radd", "radd3"} // rmix has narrow kinds: only in the directed programs, with small values
	arity := map[string]int{"rid": 1, "radd": 2, "radd3": 3, "rmix": 3}
	for i := 0; i < nRandom; i++ {
		budget := 0
		var gen func(depth int) *c19Expr
		gen = func(depth int) *c19Expr {
			r := g.R.Intn(10)
			switch {
			case depth >= 3 || r < 2:
				if g.R.Bool() {
					return v([]string{"n", "k"}[g.R.Intn(2)])
				}
				return c(g.R.Intn(4))
			case r < 3:
				return add(gen(depth+1), c(g.R.Intn(3)))
			case r < 7:
				b := bnames[g.R.Intn(len(bnames))]
				args := make([]*c19Expr, arity[b])
				for j := range args {
					args[j] = gen(depth + 1)
				}
				return B(b, args...)
			default:
				if budget >= 2 { // at most two recursive calls per body: ≤ 2^n activations
					return v("k")
				}
				budget++
				return U([]string{"p", "q"}[g.R.Intn(2)], n1(), gen(depth+1))
			}
		}
		mk := func(name string) *c19FnDef {
			budget = 0
			return fn(name, "n/k", add(v("k"), c(g.R.Intn(3))), gen(0))
		}
		p, q := mk("p"), mk("q")
		emit("random", U("p", c(1+g.R.Intn(4)), c(g.R.Intn(5))), p, q)
	}
}
