package main

// Shared Go side of the properties that compare the interpreter with the Lean
// evaluator model (lean/Ecal/Model/Eval.lean, decoder lean/Ecal/Drivers/EvalCommon.lean).
//
//   evSetup()                    registers x.mark (call it from Prop.Setup)
//   evPayload(src)               "<src-hex> <ast> <interp-entry>…": the tree the REAL parser built
//                                (what the evaluator reads of it) and, for every embedded
//                                expression {{code}} of every interpolating string literal, the
//                                tree / error text of code — again from the real parser
//   evRun(payload)               canonical outcome of parse + Validate + Eval of the source
//   evCanon(v)                   canonical text of an ECAL value
//   EvGen                        structured program generator (see EvGenConfig)
//
// AST text:  nodes in preorder joined by ';', a node is
//            name|tokenID|valhex|E(allowEscapes 0/1)|I(identifier 0/1)|line|col|#children
//            ("name|-|…" without token, "~" for a nil child), "!" if the source does not parse.
// Interp  :  <code-hex>=<ast>   or   <code-hex>=#<replacement-hex>  (parse / validation error)
// Outcome :  OK <value> | ERR <type-hex> <line> <col> | ERRPLAIN | NOPARSE | V <error…>
//            followed by " LOG <entry>|<entry>…" (m<canon,…> for x.mark, l/e/d<hex> for log/error/debug)
//            PANIC / HANG / CRASH come from the harness main loop.

import (
	"fmt"
	"math"
	"os"
	"reflect"
	"sort"
	"strings"
	"sync"

	"github.com/krotik/ecal/interpreter"
	"github.com/krotik/ecal/parser"
	"github.com/krotik/ecal/scope"
	"github.com/krotik/ecal/util"
)

// ---------------------------------------------------------------- log

type evLogT struct {
	mu      sync.Mutex
	entries []string
}

var evLog = &evLogT{}

func (l *evLogT) reset() { l.mu.Lock(); l.entries = nil; l.mu.Unlock() }
func (l *evLogT) add(s string) {
	l.mu.Lock()
	l.entries = append(l.entries, s)
	l.mu.Unlock()
}
func (l *evLogT) String() string {
	l.mu.Lock()
	defer l.mu.Unlock()
	return strings.Join(l.entries, "|")
}
func (l *evLogT) text(k string, v ...interface{}) {
	var sb strings.Builder
	for _, x := range v {
		sb.WriteString(fmt.Sprint(x))
	}
	s := sb.String()
	if s == "" {
		l.add(k)
	} else {
		l.add(k + hx(s))
	}
}
func (l *evLogT) LogError(v ...interface{}) { l.text("e", v...) }
func (l *evLogT) LogInfo(v ...interface{})  { l.text("l", v...) }
func (l *evLogT) LogDebug(v ...interface{}) { l.text("d", v...) }

var evSetupOnce sync.Once

// evSetup registers x.mark(v…): appends the canonical text of its arguments to the
// per-case log and returns its first argument.
func evSetup() {
	evSetupOnce.Do(func() {
		registerX("mark", func(args []interface{}) (interface{}, error) {
			parts := make([]string, len(args))
			for i, a := range args {
				parts[i] = evCanon(a)
			}
			evLog.add("m" + strings.Join(parts, ","))
			if len(args) > 0 {
				return args[0], nil
			}
			return nil, nil
		})
	})
}

// ---------------------------------------------------------------- canonical values

const evCanonDepth = 7

func evCanon(v interface{}) string { return evCanonD(v, evCanonDepth) }

func evCanonD(v interface{}, d int) string {
	if d == 0 {
		return "DEEP"
	}
	switch x := v.(type) {
	case nil:
		return "N"
	case bool:
		if x {
			return "T"
		}
		return "F"
	case float64:
		if math.IsNaN(x) {
			return "nNaN"
		}
		return fmt.Sprintf("n%016x", math.Float64bits(x))
	case string:
		if x == "" {
			return "s"
		}
		return "s" + hx(x)
	case []interface{}:
		p := make([]string, len(x))
		for i, e := range x {
			p[i] = evCanonD(e, d-1)
		}
		return "[" + strings.Join(p, " ") + "]"
	case map[interface{}]interface{}:
		p := make([]string, 0, len(x))
		for k, e := range x {
			p = append(p, evCanonD(k, d-1)+":"+evCanonD(e, d-1))
		}
		sort.Strings(p)
		return "{" + strings.Join(p, " ") + "}"
	}
	if _, ok := v.(util.ECALFunction); ok {
		return "func"
	}
	return "?" + reflect.TypeOf(v).String()
}

// evErr gives the canonical text of an error: type, line and column of a runtime
// error (also of the return signal), never its message.
func evErr(err error) string {
	var re *util.RuntimeError
	switch e := err.(type) {
	case *util.RuntimeError:
		re = e
	case *util.RuntimeErrorWithDetail:
		re = e.RuntimeError
	default:
		// *returnValue (unexported) embeds *util.RuntimeError
		rv := reflect.ValueOf(err)
		if rv.Kind() == reflect.Ptr && rv.Elem().Kind() == reflect.Struct {
			if f := rv.Elem().FieldByName("RuntimeError"); f.IsValid() && f.CanInterface() {
				re, _ = f.Interface().(*util.RuntimeError)
			}
		}
	}
	if re == nil {
		return "ERRPLAIN"
	}
	t := "<nil>"
	if re.Type != nil {
		t = re.Type.Error()
	}
	return fmt.Sprintf("ERR %s %d %d", hx(t), re.Line, re.Pos)
}

// evErrFull is evErr plus the class of the error and what it carries besides its type:
//   ERR <type> <line> <col> R                      *util.RuntimeError
//   ERR <type> <line> <col> D <detail-hex> <data>  *util.RuntimeErrorWithDetail (raise): detail text, canonical data
//   ERR <type> <line> <col> V                      the return signal (embeds a *util.RuntimeError of type ErrReturn)
func evErrFull(err error) string {
	base := evErr(err)
	if base == "ERRPLAIN" {
		return base
	}
	switch e := err.(type) {
	case *util.RuntimeError:
		return base + " R"
	case *util.RuntimeErrorWithDetail:
		return base + " D " + hx(e.Detail) + " " + evCanon(e.Data)
	}
	// the return signal: neither of the two exported error types, but it embeds a *util.RuntimeError
	// (found by evErr) whose Type is util.ErrReturn. The returned VALUE is not read here (that would need
	// the name of an unexported field): it is observed where the language makes it observable, through
	// the value of the call (x.mark(f())).
	if strings.HasPrefix(base, "ERR "+hx(util.ErrReturn.Error())+" ") {
		return base + " V"
	}
	return base + " ?"
}

// ---------------------------------------------------------------- AST text

func evSerializeAST(n *parser.ASTNode) string {
	var parts []string
	var rec func(n *parser.ASTNode)
	rec = func(n *parser.ASTNode) {
		if n == nil {
			parts = append(parts, "~")
			return
		}
		if n.Token == nil {
			parts = append(parts, fmt.Sprintf("%s|-|-|0|0|0|0|%d", n.Name, len(n.Children)))
		} else {
			t := n.Token
			b := func(x bool) int {
				if x {
					return 1
				}
				return 0
			}
			parts = append(parts, fmt.Sprintf("%s|%d|%s|%d|%d|%d|%d|%d", n.Name, int(t.ID), hx(t.Val),
				b(t.AllowEscapes), b(t.Identifier), t.Lline, t.Lpos, len(n.Children)))
		}
		for _, c := range n.Children {
			rec(c)
		}
	}
	rec(n)
	return strings.Join(parts, ";")
}

func evNewProvider() *interpreter.ECALRuntimeProvider {
	return interpreter.NewECALRuntimeProvider("t", nil, evLog)
}

// evInterpCodes lists the embedded expressions of one literal value: first "{{", then the first "}}" after it.
func evInterpCodes(val string) []string {
	var codes []string
	rest := val
	for {
		s := strings.Index(rest, "{{")
		if s < 0 {
			break
		}
		e := strings.Index(rest[s+2:], "}}")
		if e < 0 {
			break
		}
		codes = append(codes, rest[s+2:s+2+e])
		rest = rest[s+2+e+2:]
	}
	return codes
}

// evPayload builds the payload of one program. Parser panics are not caught here:
// generators call it inside the case, or accept that the harness reports them.
func evPayload(src string) string {
	erp := evNewProvider()
	ast, err := parser.ParseWithRuntime("t", src, erp)
	if err != nil || ast == nil {
		return hx(src) + " !"
	}
	fields := []string{hx(src), evSerializeAST(ast)}
	seen := map[string]bool{}
	var collect func(n *parser.ASTNode, depth int)
	collect = func(n *parser.ASTNode, depth int) {
		if n == nil {
			return
		}
		if n.Name == parser.NodeSTRING && n.Token != nil && n.Token.AllowEscapes {
			for _, code := range evInterpCodes(n.Token.Val) {
				if seen[code] || depth > 4 {
					continue
				}
				seen[code] = true
				name := fmt.Sprintf("String interpolation: %v", code)
				cast, cerr := parser.ParseWithRuntime(name, code, erp)
				if cerr == nil {
					cerr = cast.Runtime.Validate()
				}
				if cerr != nil {
					fields = append(fields, hx(code)+"=#"+hx("#"+cerr.Error()))
				} else {
					fields = append(fields, hx(code)+"="+evSerializeAST(cast))
					collect(cast, depth+1)
				}
			}
		}
		for _, c := range n.Children {
			collect(c, depth)
		}
	}
	collect(ast, 0)
	return strings.Join(fields, " ")
}

// evRunSource parses, validates and evaluates src with the real code.
func evRunSource(src string) string { return evRunSourceWith(src, evErr) }

// evRunSourceWith is evRunSource with a chosen printer of the final error.
func evRunSourceWith(src string, perr func(error) string) string {
	evLog.reset()
	erp := evNewProvider()
	ast, err := parser.ParseWithRuntime("t", src, erp)
	if err != nil {
		return "NOPARSE"
	}
	if err = ast.Runtime.Validate(); err != nil {
		return "V " + perr(err)
	}
	vs := scope.NewScope(scope.GlobalScope)
	res, err := ast.Runtime.Eval(vs, make(map[string]interface{}), erp.NewThreadID())
	out := ""
	if err != nil {
		out = perr(err)
	} else {
		out = "OK " + evCanon(res)
	}
	return out + " LOG " + evLog.String()
}

// evRunFull is evRun with class, detail and data of the final error (evErrFull).
func evRunFull(payload string) string {
	return evRunSourceWith(unhx(strings.SplitN(payload, " ", 2)[0]), evErrFull)
}

// evRun is Prop.Run for payloads built by evPayload.
func evRun(payload string) string {
	return evRunSource(unhx(strings.SplitN(payload, " ", 2)[0]))
}

// ---------------------------------------------------------------- lazy emission

// EvLazy avoids building payloads (a parse each) for cases this process will not
// execute: it mirrors the case counter of the harness main loop (every Emit of the
// generator has to go through it) and reads -shard / -start from the command line.
type EvLazy struct {
	g                  *Gen
	idx, si, sn, start int
}

func NewEvLazy(g *Gen) *EvLazy {
	l := &EvLazy{g: g, sn: 1}
	for i, a := range os.Args {
		if a == "-shard" && i+1 < len(os.Args) {
			fmt.Sscanf(os.Args[i+1], "%d/%d", &l.si, &l.sn)
		}
		if a == "-start" && i+1 < len(os.Args) {
			fmt.Sscanf(os.Args[i+1], "%d", &l.start)
		}
	}
	if l.sn <= 0 {
		l.sn = 1
	}
	return l
}

// Emit hands the case to the harness; the payload is only built when the case runs here.
func (l *EvLazy) Emit(payload func() string) {
	if l.idx%l.sn == l.si && l.idx >= l.start {
		l.g.Emit(payload())
	} else {
		l.g.Emit("-")
	}
	l.idx++
}

// ---------------------------------------------------------------- program generator

// EvGenConfig selects what generated programs contain.
type EvGenConfig struct {
	Depth     int  // nesting depth of statements (default 3)
	Builtins  bool // add / del / concat / type / len calls
	Interp    bool // interpolating string literals
	Funcs     bool // function declarations and calls
	Loops     bool
	Try       bool
	Malformed int // per mille of programs that get a random token deleted / duplicated
	Cycles    bool // allow `a[0] := a` (printing a cyclic container overflows the Go stack: fatal)
}

// EvGen generates mostly valid programs over the variables a, b, c (lists, maps,
// scalars), the functions f, g, markers x.mark(n) and the error types E1, E2.
type EvGen struct {
	R      *Rand
	C      EvGenConfig
	mk     int
	inFunc int // 0 = top level, 1 = inside f, 2 = inside g
	loops  int
	cnt    int
}

func NewEvGen(r *Rand, c EvGenConfig) *EvGen {
	if c.Depth == 0 {
		c.Depth = 3
	}
	return &EvGen{R: r, C: c}
}

func (g *EvGen) pick(xs ...string) string { return xs[g.R.Intn(len(xs))] }
func (g *EvGen) p(permille int) bool      { return g.R.Intn(1000) < permille }

// Marker returns a fresh marker statement.
func (g *EvGen) Marker() string {
	g.mk++
	return fmt.Sprintf("x.mark(%d)", g.mk)
}

func (g *EvGen) Lit() string {
	l := []string{"0", "1", "2", "3", "-1", "2.5", `"s"`, `"t"`, `'1'`, "true", "false", "null", "[1, 2]", "[]",
		`{"k": 1}`, "{1: 2}", `"E1"`, "10", `r"{{a}}"`}
	if g.C.Interp {
		l = append(l, `"v{{1+1}}"`, `"{{a}}"`, `"{{x.mark(77)}}"`, `"p{{b}}q{{1}}"`, `"}} {{"`, `"{{1+}}"`)
	}
	return l[g.R.Intn(len(l))]
}

func (g *EvGen) call() string {
	// a function only calls functions declared "below" it: no unbounded recursion
	switch g.inFunc {
	case 0:
		return g.pick("f(1)", "f(1, 2)", "g()", "f()", "g(a)", "f(b)")
	case 1:
		return g.pick("g()", "g(1)", "g(x)")
	}
	return g.pick("len(a)", "1")
}

func (g *EvGen) Expr(d int) string {
	r := g.R.Intn(100)
	vars := []string{"a", "b", "c"}
	if g.inFunc > 0 {
		vars = append(vars, "x", "y")
	}
	if d <= 0 || r < 35 {
		if g.R.Bool() {
			return g.R.Pick(vars)
		}
		return g.Lit()
	}
	switch {
	case r < 65:
		op := g.pick("+", "-", "*", "/", "//", "%", "==", "!=", "<", ">=", ">", "<=", "and", "or", "in", "notin", "hasprefix", "hassuffix", "==", "in")
		return "(" + g.Expr(d-1) + " " + op + " " + g.Expr(d-1) + ")"
	case r < 70:
		return g.pick("-", "not ", "+") + g.Expr(d-1)
	case r < 80:
		s := g.pick("a[0]", "a[1]", "a[-1]", "b.k", `b["k"]`, "a[5]", "c[0][0]", "len(a)", "len(b)", "b[1]", "a[-4]", "c[1]")
		if g.C.Funcs && g.p(400) {
			s = g.call()
		}
		return s
	case r < 86:
		if g.C.Builtins {
			return g.pick("add(a, "+g.Expr(d-1)+")", "add(a, 9, "+g.pick("0", "1", "5", "-1", "len(a)")+")", "del(a, "+g.pick("0", "1", "7", "-1")+")",
				`del(b, "k")`, "del(b, 1)", "concat(a, "+g.Expr(d-1)+")", "concat(a, a, [1])", "type("+g.Expr(d-1)+")", "len("+g.Expr(d-1)+")",
				"add(c, a)", "concat(a)", "add(1, 2)", "del(a)")
		}
		return "x.mark(" + g.Expr(d-1) + ")"
	case r < 93:
		n := g.R.Intn(4)
		p := make([]string, n)
		for i := range p {
			p[i] = g.Expr(d - 1)
		}
		return "[" + strings.Join(p, ", ") + "]"
	default:
		n := g.R.Intn(3)
		p := make([]string, n)
		for i := range p {
			p[i] = g.pick(`"k"`, `"j"`, "1", "2") + " : " + g.Expr(d-1)
		}
		return "{" + strings.Join(p, ", ") + "}"
	}
}

func (g *EvGen) Block(d int) string { return "{\n" + g.Stmts(d-1) + "\n}" }

// Simple returns a statement without nested blocks.
func (g *EvGen) Simple() string {
	v := g.pick("a", "b", "c")
	switch g.R.Intn(14) {
	case 0, 1:
		return v + " := " + g.Expr(2)
	case 2, 3, 4:
		return g.Marker()
	case 5:
		return "let " + v + " := " + g.Expr(1)
	case 6:
		lhs := g.pick("a[0]", "a[1]", "b.k", `b["j"]`, "c[0][1]", "a[-3]", "b[1]", "b[2]", "a[-1]")
		rhs := g.Expr(1)
		for k := 0; !g.C.Cycles && strings.Contains(rhs, lhs[:1]); k++ {
			rhs = g.Expr(1)
			if k > 4 {
				rhs = "1"
			}
		}
		return lhs + " := " + rhs
	case 7:
		return "[a, b] := " + g.Expr(1)
	case 8:
		return g.Expr(2)
	case 9:
		if g.loops > 0 || g.p(100) {
			return g.pick("break", "continue")
		}
		return g.Marker()
	case 10:
		if g.inFunc > 0 || g.p(100) {
			return "return " + g.Expr(1)
		}
		return g.Marker()
	case 11:
		return g.pick(`raise("E1")`, `raise("E2")`, `raise("E1", "d", [1])`, `raise()`, `raise("E2", null, a)`)
	case 12:
		if g.C.Builtins {
			return v + " := " + g.pick("add(a, 4)", "del(a, 0)", "concat(a, [7])", "add(a, 5, 1)")
		}
		return "x.mark(" + v + ")"
	default:
		return "x.mark(" + g.Expr(1) + ")"
	}
}

func (g *EvGen) Stmt(d int) string {
	r := g.R.Intn(100)
	if d <= 0 || r < 40 {
		return g.Simple()
	}
	switch {
	case r < 55:
		s := "if " + g.Expr(1) + " " + g.Block(d)
		if g.p(300) {
			s += " elif " + g.Expr(1) + " " + g.Block(d)
		}
		if g.p(500) {
			s += " else " + g.Block(d)
		}
		return s
	case r < 68:
		if !g.C.Loops {
			return g.Simple()
		}
		h := g.pick("i in range(1, 3)", "i in range(3, 1, -1)", "i in range(2)", "i in "+g.Expr(1), "[i, j] in "+g.Expr(1),
			"i in [1, 2, 3]", `[k, v] in {"x": 1, "y": 2}`, "i in range(2, 2)", "i in a", "[k, v] in b", "i in range(0, 4, 2)", "i in range(5, 1, -2)")
		g.loops++
		s := "for " + h + " " + g.Block(d)
		g.loops--
		return s
	case r < 73:
		if !g.C.Loops {
			return g.Simple()
		}
		g.cnt++
		w := fmt.Sprintf("w%d", g.cnt)
		g.loops++
		s := w + " := " + g.pick("3", "2", "1") + "\nfor " + w + " > 0 {\n" + w + " := " + w + " - 1\n" + g.Stmts(d-1) + "\n}"
		g.loops--
		return s
	case r < 83:
		if !g.C.Funcs || g.inFunc >= 2 {
			return g.Simple()
		}
		old, oldLoops := g.inFunc, g.loops
		name := "f"
		if old == 1 || g.R.Bool() {
			name = "g"
			g.inFunc = 2
		} else {
			g.inFunc = 1
		}
		g.loops = 0
		s := "func " + name + "(" + g.pick("", "x", "x, y=5", "x=1") + ") " + g.Block(d)
		g.inFunc, g.loops = old, oldLoops
		return s
	default:
		if !g.C.Try {
			return g.Simple()
		}
		s := "try " + g.Block(d)
		for i := g.R.Intn(3); i > 0; i-- {
			s += " except " + g.pick("", "e ", `"E1" `, `"E1" as e `, `"E1", "E2" `, `"E2" as e `, "as e ", `"Runtime error" `, `"Operand is not a number" as e `) + g.Block(d)
		}
		if g.p(400) {
			s += " otherwise " + g.Block(d)
		}
		if g.p(500) {
			s += " finally " + g.Block(d)
		}
		return s
	}
}

func (g *EvGen) Stmts(d int) string {
	n := 1 + g.R.Intn(3)
	p := make([]string, n)
	for i := range p {
		p[i] = g.Stmt(d)
	}
	return strings.Join(p, "\n")
}

// Program returns one complete program: optional set-up of a, b, c, statements, a probe expression.
func (g *EvGen) Program() string {
	g.mk, g.inFunc, g.loops, g.cnt = 0, 0, 0, 0
	pre := g.pick("a := [1, 2, 3]\nb := {\"k\": 1}\nc := [[1, 2], [3]]\n", "a := 1\nb := \"s\"\nc := null\n", "",
		"a := [1, 2, 3]\nb := {1: \"x\", \"k\": [4]}\nc := a\n")
	src := pre + g.Stmts(g.C.Depth) + "\n" + g.pick("a", "b", "c", "[a, b, c]", "e", "[a, len(a)]")
	if g.C.Malformed > 0 && g.p(g.C.Malformed) {
		toks := strings.Fields(src)
		if len(toks) > 2 {
			i := g.R.Intn(len(toks))
			if g.R.Bool() {
				toks = append(toks[:i], toks[i+1:]...)
			} else {
				toks = append(toks[:i+1], toks[i:]...)
			}
			src = strings.Join(toks, " ")
		}
	}
	return src
}
