package main

// C01 — stress of the trigger cache: many goroutines add events of fresh kinds (the cache is written
// while it is read) and ask IsTriggering at the same time. A data race in the cache shows as
// "fatal error: concurrent map read and map write" (process death) or, in a -race build, as DATA RACE.
// Every event of a triggering kind must have run its rule exactly once.

import (
	"fmt"
	"os"
	"strconv"
	"sync"
	"sync/atomic"

	"github.com/krotik/ecal/engine"
)

func c01Stress(args []string) int {
	goroutines, perG := 16, 5000
	if len(args) > 0 {
		goroutines, _ = strconv.Atoi(args[0])
	}
	if len(args) > 1 {
		perG, _ = strconv.Atoi(args[1])
	}
	proc := engine.NewProcessor(4)
	var ran int64
	proc.AddRule(&engine.Rule{Name: "r", KindMatch: []string{"a.*"}, ScopeMatch: []string{},
		Action: func(p engine.Processor, m engine.Monitor, e *engine.Event, tid uint64) error {
			atomic.AddInt64(&ran, 1)
			return nil
		}})
	proc.Start()
	var wg sync.WaitGroup
	var skipped, wrongTrig, added int64
	for g := 0; g < goroutines; g++ {
		wg.Add(1)
		go func(g int) {
			defer wg.Done()
			for i := 0; i < perG; i++ {
				k := fmt.Sprintf("x%d_%d", g, i)
				trig := engine.NewEvent("e", []string{"a", k}, map[interface{}]interface{}{})
				not := engine.NewEvent("e", []string{"b", k}, map[interface{}]interface{}{})
				if proc.IsTriggering(not) || !proc.IsTriggering(trig) {
					atomic.AddInt64(&wrongTrig, 1)
				}
				// adding an event costs a root monitor and its observers: only now and then
				if i%500 == 0 {
					atomic.AddInt64(&added, 1)
					if m, _ := proc.AddEvent(trig, nil); m == nil {
						atomic.AddInt64(&skipped, 1)
					}
					proc.AddEvent(not, nil)
				}
			}
		}(g)
	}
	wg.Wait()
	proc.Finish()
	want := atomic.LoadInt64(&added)
	if skipped != 0 || wrongTrig != 0 || atomic.LoadInt64(&ran) != want {
		fmt.Printf("STRESS-FAIL skipped=%d wrong-pre-check=%d ran=%d want=%d\n", skipped, wrongTrig, ran, want)
		return 1
	}
	fmt.Printf("STRESS-OK %d goroutines x %d fresh kinds (2 pre-checks each), %d events added and run\n", goroutines, perG, ran)
	_ = os.Stdout.Sync()
	return 0
}
