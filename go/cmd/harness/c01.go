package main

// C01 — exactly the matching, in-scope, unsuppressed rules fire once per event.
//
// A case is a rule set, a cascade scope, a history of events and a worker count.
// The real code is driven through the public API only: a real Processor whose
// rule actions record (rule name, event), AddEventAndWait / AddEvent, and a
// separate RuleIndex for Match / IsTriggering. Payload and result format: see
// lean/Ecal/Drivers/C01.lean.

import (
	"fmt"
	"math"
	"reflect"
	"regexp"
	"sort"
	"strconv"
	"strings"
	"sync"
	"time"

	"github.com/krotik/ecal/engine"
)

// value universe; a token names the equality class (first deep-equal entry) and the instance
var c01Vals = []interface{}{
	nil, 1.0, "x", []interface{}{1.0}, map[interface{}]interface{}{"a": 1.0}, "1", 2.0, true,
	[]interface{}{1.0}, []interface{}{2.0}, map[interface{}]interface{}{"a": 1.0},
	map[interface{}]interface{}{"a": 2.0}, "x1", "", "<nil>", []interface{}{[]interface{}{1.0}},
	[]interface{}{}, map[interface{}]interface{}{}, false, "[1]",
	math.NaN(), 0.0, math.Copysign(0, -1), // 20: not equal to itself; 21/22: equal as map keys, different text
	map[interface{}]interface{}{"a": map[interface{}]interface{}{"b": 1.0}}, []interface{}{map[interface{}]interface{}{"a": 1.0}},
	map[interface{}]interface{}{"a": []interface{}{1.0}}, map[interface{}]interface{}{"a": map[interface{}]interface{}{"b": 1.0}}, // nested; 26 = 23
	// 27..: same text, different content; nil vs empty; int vs float; upper case
	[]interface{}{"1"}, map[interface{}]interface{}{"a": "1"}, []interface{}{1.0, 2.0}, []interface{}{"1 2"},
	[]interface{}(nil), map[interface{}]interface{}(nil), 1, "X", []interface{}{[]interface{}(nil)},
	// 36, 37: what [1] / [2] and {"a":1} become when the program changes the variable after the declaration
	[]interface{}{"changed3"}, map[interface{}]interface{}{"a": 1.0, "changed": 1.0},
}

// c01EqualAsIs is the comparison the code applies to lists and maps today (reflect.DeepEqual's view): like
// c01Equal, but a nil list/map differs from an empty one at every level
func c01EqualAsIs(a, b interface{}) bool {
	switch av := a.(type) {
	case []interface{}:
		bv, ok := b.([]interface{})
		if !ok || len(av) != len(bv) || (av == nil) != (bv == nil) {
			return false
		}
		for i := range av {
			if !c01EqualAsIs(av[i], bv[i]) {
				return false
			}
		}
		return true
	case map[interface{}]interface{}:
		bv, ok := b.(map[interface{}]interface{})
		if !ok || len(av) != len(bv) || (av == nil) != (bv == nil) {
			return false
		}
		for k, v := range av {
			w, ok := bv[k]
			if !ok || !c01EqualAsIs(v, w) {
				return false
			}
		}
		return true
	}
	return c01Equal(a, b)
}

// c01AsIsClass is the class of table value i under c01EqualAsIs
func c01AsIsClass(i int) int {
	for j := 0; j < i; j++ {
		if c01EqualAsIs(c01Vals[j], c01Vals[i]) {
			return j
		}
	}
	return i
}

// c01Changed is the value a list/map pattern variable holds after the program changed it
// (list: first element replaced by a text that names the declared class, so that different patterns stay
// different; map: one entry added); ok is false where the program leaves it alone
func c01Changed(v interface{}, cls int) (interface{}, bool) {
	switch val := v.(type) {
	case []interface{}:
		if len(val) == 0 {
			return nil, false
		}
		out := append([]interface{}{}, val...)
		out[0] = fmt.Sprintf("changed%d", cls)
		return out, true
	case map[interface{}]interface{}:
		if len(val) == 0 {
			return nil, false
		}
		out := map[interface{}]interface{}{}
		for k, x := range val {
			out[k] = x
		}
		out["changed"] = 1.0
		return out, true
	}
	return nil, false
}

// c01TokClass is the class number of a value token
func c01TokClass(tok string) int {
	var cls int
	fmt.Sscanf(tok[1:], "%d", &cls)
	return cls
}

// c01ChangedTok adds the suffix m<class> to the token of a list/map pattern that comes from a variable
func c01ChangedTok(tok string) string {
	if tok[0] != 'D' {
		return tok
	}
	ch, ok := c01Changed(c01TokVal(tok), c01TokClass(tok))
	if !ok {
		return tok
	}
	for j := range c01Vals {
		if j != c01NaN && c01EqualAsIs(c01Vals[j], ch) {
			return fmt.Sprintf("%sm%d", tok, c01AsIsClass(j))
		}
	}
	var idx int
	fmt.Sscanf(tok[strings.Index(tok, "i")+1:], "%d", &idx)
	return fmt.Sprintf("%sm%d", tok, 2000+idx) // a value no event carries
}

// c01Equal is the equality of ECAL values the property means, decided structurally and independently of
// the primitives the code uses: lists element by element, maps entry by entry (nil and empty alike),
// everything else by Go's == on values of the same dynamic type
func c01Equal(a, b interface{}) bool {
	switch av := a.(type) {
	case []interface{}:
		bv, ok := b.([]interface{})
		if !ok || len(av) != len(bv) {
			return false
		}
		for i := range av {
			if !c01Equal(av[i], bv[i]) {
				return false
			}
		}
		return true
	case map[interface{}]interface{}:
		bv, ok := b.(map[interface{}]interface{})
		if !ok || len(av) != len(bv) {
			return false
		}
		for k, v := range av {
			w, ok := bv[k]
			if !ok || !c01Equal(v, w) {
				return false
			}
		}
		return true
	case float64:
		bv, ok := b.(float64)
		return ok && av == bv
	case string:
		bv, ok := b.(string)
		return ok && av == bv
	case bool:
		bv, ok := b.(bool)
		return ok && av == bv
	case int:
		bv, ok := b.(int)
		return ok && av == bv
	case nil:
		return b == nil
	}
	panic(fmt.Sprintf("c01Equal: value of type %T outside the universe", a))
}

// c01Deep says whether a value is a list or a map (cannot be a Go map key)
func c01Deep(v interface{}) bool {
	switch v.(type) {
	case []interface{}, map[interface{}]interface{}:
		return true
	}
	return false
}

const c01NaN, c01PosZero, c01NegZero = 20, 21, 22

var c01NaNCount int

var c01Regex = []string{"^x", "1", `^\[`, "nil", ".*", "^$", "a:1", "^(true|2)$", "^X", "é"}
var c01RegexC []*regexp.Regexp

func c01Tok(i int) string {
	v := c01Vals[i]
	if v == nil {
		return "Z"
	}
	cls := i
	if i == c01NaN { // every occurrence is a class of its own
		c01NaNCount++
		return fmt.Sprintf("H%di%d", 1000+c01NaNCount, i)
	}
	for j := 0; j < i; j++ {
		if c01Equal(c01Vals[j], v) {
			cls = j
			break
		}
	}
	k := "H"
	if c01Deep(v) {
		k = "D"
	}
	if a := c01AsIsClass(i); a != cls {
		return fmt.Sprintf("%s%di%da%d", k, cls, i, a)
	}
	return fmt.Sprintf("%s%di%d", k, cls, i)
}

// c01TokVal returns the Go value of a token (Z/A = nil, X<id> = compiled regex).
func c01TokVal(t string) interface{} {
	switch t[0] {
	case 'Z', 'A':
		return nil
	case 'X':
		n, _ := strconv.Atoi(t[1:])
		return c01RegexC[n]
	}
	var n int
	if _, err := fmt.Sscanf(t[strings.Index(t, "i")+1:], "%d", &n); err != nil {
		panic("bad value token " + t)
	}
	return c01Vals[n]
}

type c01KV struct{ key, tok string }

type c01Rule struct {
	name     string
	kinds    []string
	scopes   []string
	scopeNil bool // ScopeMatch == nil (engine level) / `scopematch []` (ECAL level)
	stateNil bool
	state    []c01KV
	prio     int
	supp     []string
}

type c01Event struct {
	name     string
	kind     []string
	state    []c01KV
	nilState bool // NewEvent(name, kind, nil); such an event is recognised by its name (unique in the case)
	nilKind  bool // NewEvent(name, nil, state)
	// ECAL level: an event added by a sink (parentEv >= 0: rule parentRule adds it while handling event
	// parentEv), with its own scope map (ownScope) or, without one, as a child of the running cascade
	detached   bool // the sink adds it from inside a loop (fresh instance state: no parent monitor)
	child      bool
	parentEv   int
	parentRule int
	ownScope   bool
	scope      []c01KV
}

type c01Case struct {
	workers  int
	mode     string   // w: AddEventAndWait one by one; a: AddEvent all, then Finish
	sched    []string // order of AddRule (r<i>), events (e<i>) and Reset (R); empty: all rules, then all events
	failOn   string   // "": default of the level; "0"/"1": SetFailOnFirstErrorInTriggerSequence
	mutate   bool     // ECAL level: list/map patterns are variables which the program changes after the sink declarations
	failing  []int    // indexes of the rules whose action returns an error / whose sink raises
	level    string   // "": engine API; e: ECAL sinks + addEvent / addEventAndWait (c01ecal.go)
	order    string   // p: processor first (a worker panic kills the process: CRASH); i: index first (a panic is recovered: PANIC)
	rules    []c01Rule
	scopeNil bool
	scope    []c01KV // path, "0"/"1"
	events   []c01Event
}

func c01List(xs []string) string {
	if len(xs) == 0 {
		return "_"
	}
	ys := make([]string, len(xs))
	for i, x := range xs {
		ys[i] = hx(x)
	}
	return strings.Join(ys, ",")
}

func c01KVs(kvs []c01KV) string {
	if len(kvs) == 0 {
		return "_"
	}
	ys := make([]string, len(kvs))
	for i, kv := range kvs {
		if strings.HasPrefix(kv.key, "!") { // a non-string key (ECAL level): `!` + hex of its text
			ys[i] = "!" + hx(kv.key[1:]) + ":" + kv.tok
		} else {
			ys[i] = hx(kv.key) + ":" + kv.tok
		}
	}
	return strings.Join(ys, ",")
}

func c01ClassTok(t string) string {
	if i := strings.Index(t, "i"); i > 0 {
		return t[:i]
	}
	return t
}

func (c *c01Case) encode() string {
	var rs, es []string
	rxIDs := map[int]bool{}
	for ri, r := range c.rules {
		st := "N"
		if !r.stateNil {
			if c.mutate && c.level == "e" {
				for k := range r.state {
					if !strings.Contains(r.state[k].tok, "m") {
						c.rules[ri].state[k].tok = c01ChangedTok(r.state[k].tok)
					}
				}
			}
			st = c01KVs(r.state)
			for _, kv := range r.state {
				if kv.tok[0] == 'X' {
					n, _ := strconv.Atoi(kv.tok[1:])
					rxIDs[n] = true
				}
			}
		}
		scs := c01List(r.scopes)
		if r.scopeNil {
			scs = "N"
		}
		rs = append(rs, strings.Join([]string{hx(r.name), c01List(r.kinds), scs, st,
			strconv.Itoa(r.prio), c01List(r.supp)}, ";"))
	}
	valToks := map[string]string{}
	for ei := range c.events {
		if len(rxIDs) > 0 {
			// the text of a value must be a function of its class where a regex looks at it: -0 becomes +0
			for k, kv := range c.events[ei].state {
				if strings.HasSuffix(kv.tok, fmt.Sprintf("i%d", c01NegZero)) {
					c.events[ei].state[k].tok = c01Tok(c01PosZero)
				}
			}
		}
		e := c.events[ei]
		fields := []string{hx(e.name), c01List(e.kind), c01KVs(e.state)}
		if e.nilKind {
			fields[1] = "N"
		}
		if e.nilState {
			fields[2] = "N"
		}
		if e.child {
			sc, par := "-", fmt.Sprintf("%d.%d", e.parentEv, e.parentRule)
			if e.detached {
				par += ".d"
			}
			if e.ownScope {
				sc = c01KVs(e.scope)
			}
			fields = append(fields, sc, par)
		}
		es = append(es, strings.Join(fields, ";"))
		for _, kv := range e.state {
			valToks[c01ClassTok(kv.tok)] = kv.tok
			if a := strings.Index(kv.tok, "a"); a > 0 { // the class under the code's comparison has its own entry
				valToks[kv.tok[:1]+kv.tok[a+1:]] = kv.tok
			}
		}
	}
	// truth table of Go's regexp for the (regex, value) pairs of the case
	var tab []string
	var ids []int
	for id := range rxIDs {
		ids = append(ids, id)
	}
	sort.Ints(ids)
	var vts []string
	for vt := range valToks {
		vts = append(vts, vt)
	}
	sort.Strings(vts)
	for _, id := range ids {
		for _, vt := range vts {
			b := "0"
			if c01RegexC[id].MatchString(fmt.Sprint(c01TokVal(valToks[vt]))) {
				b = "1"
			}
			tab = append(tab, fmt.Sprintf("%d:%s:%s", id, vt, b))
		}
	}
	j := func(xs []string, sep string) string {
		if len(xs) == 0 {
			return "_"
		}
		return strings.Join(xs, sep)
	}
	sc := "N"
	if !c.scopeNil {
		sc = c01KVs(c.scope)
	}
	lv := ""
	if c.level != "" {
		lv = "l=" + c.level + " "
	}
	if len(c.sched) > 0 {
		lv += "z=" + strings.Join(c.sched, ",") + " "
	}
	if c.failOn != "" {
		lv += "f=" + c.failOn + " "
	}
	if c.mutate {
		lv += "u=1 "
	}
	if len(c.failing) > 0 {
		var fi []string
		for _, i := range c.failing {
			fi = append(fi, strconv.Itoa(i))
		}
		lv += "g=" + strings.Join(fi, ",") + " "
	}
	return fmt.Sprintf("%sw=%d m=%s o=%s r=%s s=%s e=%s x=%s", lv, c.workers, c.mode, c.order, j(rs, "|"), sc, j(es, "|"), j(tab, ","))
}

func c01UnList(s string) []string {
	if s == "_" {
		return nil
	}
	var out []string
	for _, x := range strings.Split(s, ",") {
		out = append(out, unhx(x))
	}
	return out
}

func c01UnKVs(s string) []c01KV {
	if s == "_" {
		return nil
	}
	var out []c01KV
	for _, x := range strings.Split(s, ",") {
		p := strings.SplitN(x, ":", 2)
		if strings.HasPrefix(p[0], "!") {
			out = append(out, c01KV{"!" + unhx(p[0][1:]), p[1]})
		} else {
			out = append(out, c01KV{unhx(p[0]), p[1]})
		}
	}
	return out
}

func c01Decode(payload string) *c01Case {
	c := &c01Case{}
	for _, f := range strings.Split(payload, " ") {
		kv := strings.SplitN(f, "=", 2)
		v := kv[1]
		switch kv[0] {
		case "w":
			c.workers, _ = strconv.Atoi(v)
		case "m":
			c.mode = v
		case "o":
			c.order = v
		case "l":
			c.level = v
		case "z":
			c.sched = strings.Split(v, ",")
		case "u":
			c.mutate = v == "1"
		case "f":
			c.failOn = v
		case "g":
			for _, x := range strings.Split(v, ",") {
				n, _ := strconv.Atoi(x)
				c.failing = append(c.failing, n)
			}
		case "r":
			if v == "_" {
				break
			}
			for _, rs := range strings.Split(v, "|") {
				p := strings.Split(rs, ";")
				r := c01Rule{name: unhx(p[0]), kinds: c01UnList(p[1]), supp: c01UnList(p[5])}
				if p[2] == "N" {
					r.scopeNil = true
				} else {
					r.scopes = c01UnList(p[2])
				}
				if p[3] == "N" {
					r.stateNil = true
				} else {
					r.state = c01UnKVs(p[3])
				}
				r.prio, _ = strconv.Atoi(p[4])
				c.rules = append(c.rules, r)
			}
		case "s":
			if v == "N" {
				c.scopeNil = true
			} else {
				c.scope = c01UnKVs(v)
			}
		case "e":
			if v == "_" {
				break
			}
			for _, es := range strings.Split(v, "|") {
				p := strings.Split(es, ";")
				e := c01Event{name: unhx(p[0])}
				if p[1] == "N" {
					e.nilKind = true
				} else {
					e.kind = c01UnList(p[1])
				}
				if p[2] == "N" {
					e.nilState = true
				} else {
					e.state = c01UnKVs(p[2])
				}
				if len(p) == 5 {
					e.child = true
					if p[3] != "-" {
						e.ownScope = true
						e.scope = c01UnKVs(p[3])
					}
					fmt.Sscanf(p[4], "%d.%d", &e.parentEv, &e.parentRule)
					e.detached = strings.HasSuffix(p[4], ".d")
				}
				c.events = append(c.events, e)
			}
		}
	}
	return c
}

func c01Names(xs []string) string {
	if len(xs) == 0 {
		return "_"
	}
	ys := make([]string, len(xs))
	for i, x := range xs {
		ys[i] = hx(x)
	}
	sort.Strings(ys)
	return strings.Join(ys, ".")
}

func (r *c01Rule) build(action engine.RuleAction) *engine.Rule {
	er := &engine.Rule{Name: r.name, KindMatch: append([]string{}, r.kinds...), ScopeMatch: append([]string{}, r.scopes...),
		Priority: r.prio, SuppressionList: append([]string{}, r.supp...), Action: action}
	if len(r.kinds) == 0 {
		er.KindMatch = nil
	}
	if r.scopeNil {
		er.ScopeMatch = nil
	}
	if !r.stateNil {
		er.StateMatch = map[string]interface{}{}
		for _, kv := range r.state {
			er.StateMatch[kv.key] = c01TokVal(kv.tok)
		}
	}
	return er
}

// build creates the event; its index travels in the state entry "#i" (no rule asks for that key), so
// that executions are attributed without relying on the identity of the *engine.Event object
func (e *c01Event) build(i int) *engine.Event {
	var st map[interface{}]interface{}
	if !e.nilState {
		st = map[interface{}]interface{}{"#i": i}
		for _, kv := range e.state {
			st[kv.key] = c01TokVal(kv.tok)
		}
	}
	var kind []string
	if !e.nilKind {
		kind = append([]string{}, e.kind...)
	}
	return engine.NewEvent(e.name, kind, st)
}

// c01SetNames renders a multiset of names as a sorted set.
func c01SetNames(xs []string) string {
	seen := map[string]bool{}
	var ys []string
	for _, x := range xs {
		if !seen[x] {
			seen[x] = true
			ys = append(ys, x)
		}
	}
	return c01Names(ys)
}

// schedule of a case: explicit or "all rules, then all events"
func (c *c01Case) ops() []string {
	if len(c.sched) > 0 {
		return c.sched
	}
	var ops []string
	for i := range c.rules {
		ops = append(ops, fmt.Sprintf("r%d", i))
	}
	for i := range c.events {
		ops = append(ops, fmt.Sprintf("e%d", i))
	}
	return ops
}

func c01Run(payload string) string {
	c := c01Decode(payload)
	if c.level == "e" {
		return c01RunECAL(c)
	}
	ops := c.ops()
	failing := map[int]bool{}
	for _, i := range c.failing {
		failing[i] = true
	}
	// the index alone, following the same schedule
	type idxRes struct{ t, m string }
	ires := make([]idxRes, len(c.events))
	runIndex := func() {
		idx := engine.NewRuleIndex()
		for _, op := range ops {
			n, _ := strconv.Atoi(op[1:])
			switch op[0] {
			case 'R':
				idx = engine.NewRuleIndex()
			case 'r':
				idx.AddRule(c.rules[n].build(nil).CopyAs(c.rules[n].name))
			case 'e':
				ev := c.events[n].build(n)
				t := "0"
				if idx.IsTriggering(ev) {
					t = "1"
				}
				var mn []string
				for _, r := range idx.Match(ev) {
					mn = append(mn, r.Name)
				}
				ires[n] = idxRes{t, c01SetNames(mn)}
			}
		}
	}
	if c.order != "p" {
		runIndex()
	}

	// the real processor; a stalled attempt is repeated once with a fresh processor so that only
	// a reproducible hang is reported (an intermittent stall of the pool is C09's subject, it is counted)
	type procRes struct {
		errs  []byte
		added []bool
		x     []string
		fail  string
	}
	runProc := func() procRes {
		var mu sync.Mutex
		rec := map[int][]string{}
		byName := map[string]int{}
		for i := range c.events {
			if c.events[i].nilState {
				byName[c.events[i].name] = i
			}
		}
		evIndex := func(e *engine.Event) int {
			if st := e.State(); st != nil {
				if i, ok := st["#i"].(int); ok {
					return i
				}
			}
			if i, ok := byName[e.Name()]; ok {
				return i
			}
			return -1
		}
		proc := engine.NewProcessor(c.workers)
		proc.SetFailOnFirstErrorInTriggerSequence(c.failOn == "1")
		errs := make([]byte, len(c.rules))
		for i := range errs {
			errs[i] = '0'
		}
		newScope := func() *engine.RuleScope {
			defs := map[string]bool{}
			for _, d := range c.scope {
				defs[d.key] = d.tok == "1"
			}
			return engine.NewRuleScope(defs)
		}
		stop := func() {
			if !proc.Stopped() {
				proc.Finish()
			}
		}
		evs := make([]*engine.Event, len(c.events))
		added := make([]bool, len(c.events))
		var wgc sync.WaitGroup
		var cerr error
		for _, op := range ops {
			n, _ := strconv.Atoi(op[1:])
			switch op[0] {
			case 'R':
				stop()
				if err := proc.Reset(); err != nil {
					return procRes{fail: "ERR " + oneLine(err.Error())}
				}
			case 'r':
				stop()
				name, fails := c.rules[n].name, failing[n]
				err := proc.AddRule(c.rules[n].build(func(p engine.Processor, m engine.Monitor, e *engine.Event, tid uint64) error {
					mu.Lock()
					rec[evIndex(e)] = append(rec[evIndex(e)], name)
					mu.Unlock()
					if fails {
						return fmt.Errorf("action of %v fails", name)
					}
					return nil
				}))
				if err != nil {
					errs[n] = '1'
				}
			case 'e':
				if proc.Stopped() {
					proc.Start()
				}
				evs[n] = c.events[n].build(n)
				var m engine.Monitor
				var err error
				if c.mode == "c" {
					// AddEvent from one goroutine per event: the trigger cache is filled concurrently
					wgc.Add(1)
					var pm engine.Monitor
					if !c.scopeNil {
						pm = proc.NewRootMonitor(nil, newScope())
					}
					go func(n int, pm engine.Monitor) {
						defer wgc.Done()
						m, err := proc.AddEvent(evs[n], pm)
						mu.Lock()
						if err != nil {
							cerr = err
						}
						added[n] = m != nil && !reflect.ValueOf(m).IsNil()
						mu.Unlock()
					}(n, pm)
					continue
				}
				if c.mode == "w" {
					var rm *engine.RootMonitor
					if !c.scopeNil {
						rm = proc.NewRootMonitor(nil, newScope())
					}
					m, err = proc.AddEventAndWait(evs[n], rm)
				} else {
					var pm engine.Monitor
					if !c.scopeNil {
						pm = proc.NewRootMonitor(nil, newScope())
					}
					m, err = proc.AddEvent(evs[n], pm)
				}
				if err != nil {
					return procRes{fail: "ERR " + oneLine(err.Error())}
				}
				added[n] = m != nil && !reflect.ValueOf(m).IsNil()
			}
		}
		wgc.Wait()
		if cerr != nil {
			return procRes{fail: "ERR " + oneLine(cerr.Error())}
		}
		stop()
		// the processor reports exactly the accepted rules (since the last Reset) and its worker count
		want := map[string]bool{}
		for _, op := range ops {
			n, _ := strconv.Atoi(op[1:])
			if op[0] == 'R' {
				want = map[string]bool{}
			} else if op[0] == 'r' && errs[n] == '0' {
				want[c.rules[n].name] = true
			}
		}
		got := proc.Rules()
		if len(got) != len(want) || proc.Workers() != c.workers {
			return procRes{fail: fmt.Sprintf("RULES-MISMATCH %d listed, %d accepted", len(got), len(want))}
		}
		for name := range want {
			if _, ok := got[name]; !ok {
				return procRes{fail: "RULES-MISMATCH " + hx(name) + " not listed"}
			}
		}

		xs := make([]string, len(evs))
		mu.Lock()
		for i := range evs {
			xs[i] = c01Names(rec[i])
		}
		mu.Unlock()
		return procRes{errs: errs, added: added, x: xs}
	}
	var pres procRes
	for attempt := 0; ; attempt++ {
		ch := make(chan procRes, 1)
		go func() {
			defer func() {
				if e := recover(); e != nil {
					ch <- procRes{fail: "PANIC " + oneLine(fmt.Sprint(e))}
				}
			}()
			ch <- runProc()
		}()
		stalled := false
		select {
		case pres = <-ch:
		case <-time.After(4 * time.Second):
			stalled = true
		}
		if !stalled {
			break
		}
		if attempt == 1 {
			return "HANG"
		}
		CountRun("stalled-attempt-repeated")
	}
	if pres.fail != "" {
		return pres.fail
	}
	if c.order == "p" {
		runIndex()
	}
	var sb strings.Builder
	if len(pres.errs) == 0 {
		sb.WriteString("a=_")
	} else {
		sb.WriteString("a=" + string(pres.errs))
	}
	for i := range c.events {
		// the property leaves the pre-check answers free for an event that runs no rule
		if pres.x[i] == "_" {
			sb.WriteString(" T*/M" + ires[i].m + "/K*/X_")
			continue
		}
		k := "0"
		if pres.added[i] {
			k = "1"
		}
		sb.WriteString(" T" + ires[i].t + "/M" + ires[i].m + "/K" + k + "/X" + pres.x[i])
	}
	return sb.String()
}

// ---------------------------------------------------------------- generators

func c01St(kvs ...string) []c01KV {
	var out []c01KV
	for i := 0; i+1 < len(kvs); i += 2 {
		out = append(out, c01KV{kvs[i], kvs[i+1]})
	}
	return out
}

func c01Gen(g *Gen) {
	n := 0
	emit := func(c *c01Case, what string) {
		if c.workers == 0 {
			c.workers = 1 + n%4
			if g.Thorough() {
				c.workers = 1 + n%16
			}
		}
		if c.mode == "" {
			c.mode = "w"
			if n%5 == 4 {
				c.mode = "a"
			}
		}
		if c.order == "" {
			c.order = "i"
			if what == "corpus" || n%40 == 7 {
				c.order = "p"
			}
		}
		n++
		g.Count(what)
		g.Emit(c.encode())
	}
	pat := func(tok string) string { // rule-side token of a value token
		if tok == "Z" {
			return "A"
		}
		return tok
	}
	V := func(i int) string { return c01Tok(i) }
	globalScope := []c01KV{{"", "1"}}
	mkRule := func(name string, kinds []string, state []c01KV, stateNil bool) c01Rule {
		return c01Rule{name: name, kinds: kinds, scopes: []string{}, state: state, stateNil: stateNil}
	}
	ev := func(name, kind string, state []c01KV) c01Event {
		var k []string
		if kind != "" {
			k = strings.Split(kind, ".")
		}
		return c01Event{name: name, kind: k, state: state}
	}

	// ---- corpus: the inputs of the repaired defects
	emit(&c01Case{rules: []c01Rule{mkRule("r", []string{"a.*", "*.b"}, nil, true)}, scope: globalScope,
		events: []c01Event{ev("e", "a.b", nil)}}, "corpus")
	emit(&c01Case{rules: []c01Rule{mkRule("r", []string{"a.b"}, nil, true)}, scope: globalScope,
		events: []c01Event{ev("same", "x.y", nil), ev("same", "a.b", nil)}}, "corpus")
	for _, cnt := range []int{62, 63, 64, 65, 70, 127, 130, 200} {
		var rs []c01Rule
		for i := 0; i < cnt; i++ {
			st := c01St("k", pat(V(1+i%2*5)))
			if i%7 == 0 {
				st = c01St("k", "A")
			}
			rs = append(rs, mkRule(fmt.Sprintf("s%03d", i), []string{"a.b"}, st, false))
		}
		emit(&c01Case{rules: rs, scope: globalScope, events: []c01Event{ev("e1", "a.b", c01St("k", V(1))),
			ev("e2", "a.b", c01St("k", V(6))), ev("e3", "a.b", nil), ev("e4", "a.b", c01St("k", "Z"))}}, "corpus")
	}
	emit(&c01Case{rules: []c01Rule{mkRule("r", []string{"a"}, c01St("k", V(3)), false)}, scope: globalScope,
		events: []c01Event{ev("e", "a", c01St("k", V(1)))}}, "corpus")
	emit(&c01Case{rules: []c01Rule{mkRule("r", []string{"a"}, c01St("k", V(1)), false)}, scope: globalScope,
		events: []c01Event{ev("e", "a", c01St("k", V(8)))}}, "corpus")
	emit(&c01Case{rules: []c01Rule{mkRule("r", []string{"a"}, c01St("k", V(3)), false), mkRule("q", []string{"a"}, c01St("k", V(4)), false)},
		scope: globalScope, events: []c01Event{ev("e", "a", c01St("k", V(8))), ev("e", "a", c01St("k", V(10))), ev("e", "a", c01St("k", V(9)))}}, "corpus")

	// ---- the cache key must be injective in the kind: kinds whose segments contain the separator, a blank,
	// a quote, a bracket; no segment vs one empty segment — each pair in both orders, the non-triggering
	// kind first is the harmful one (a cached "no" would skip the event that fires)
	kindPairs := []struct {
		rule string
		a, b []string // b matches the rule, a does not, yet a careless key maps both to one entry
	}{
		{"core.main", []string{"core.main"}, []string{"core", "main"}},
		{"a.b.c", []string{"a.b", "c"}, []string{"a", "b", "c"}},
		{"a.b.c", []string{"a", "b.c"}, []string{"a", "b", "c"}},
		{"", []string{}, []string{""}},
		{".", []string{""}, []string{"", ""}},
		{".", []string{"."}, []string{"", ""}},
		{"a.b", []string{"a b"}, []string{"a", "b"}},
		{"a.b", []string{`a" "b`}, []string{"a", "b"}},
		{"a.b", []string{"a,b"}, []string{"a", "b"}},
		{"a.b", []string{"a] [b"}, []string{"a", "b"}},
		{"*.b", []string{"a.b"}, []string{"a", "b"}},
	}
	for _, kp := range kindPairs {
		for _, mode := range []string{"w", "a"} {
			for order := 0; order < 2; order++ {
				first, second := kp.a, kp.b
				if order == 1 {
					first, second = kp.b, kp.a
				}
				emit(&c01Case{mode: mode, rules: []c01Rule{mkRule("r", []string{kp.rule}, nil, true)}, scope: globalScope,
					events: []c01Event{{name: "e", kind: first}, {name: "f", kind: second}, {name: "e", kind: first}}}, "corpus-cache-key")
			}
		}
	}

	// ---- the cache key is not of the established shape: search for two kinds sharing an entry
	if v, _, _ := c01CacheKeyFact(); v != 0 {
		for k := 0; k < 16; k++ {
			c := &c01Case{mode: "w", rules: []c01Rule{mkRule("r", []string{"a.*", "*.t." + strconv.Itoa(k)}, nil, true)}, scope: globalScope}
			for i := 0; i < 300; i++ {
				c.events = append(c.events, c01Event{name: "e", kind: []string{"b", fmt.Sprintf("y%d_%d", k, i)}})
			}
			for i := 0; i < 300; i++ {
				c.events = append(c.events, c01Event{name: "e", kind: []string{"a", fmt.Sprintf("x%d_%d", k, i)}})
			}
			emit(c, "cache-key-collision-search")
		}
	}

	// ---- rules added between events: Finish, AddRule, Start, AddEvent (the cache must be dropped)
	rAB, rAs, rB := mkRule("r0", []string{"a.b"}, nil, true), mkRule("r1", []string{"a.*"}, nil, true), mkRule("r2", []string{"b"}, nil, true)
	rSup := mkRule("r3", []string{"a.b"}, nil, true)
	rSup.supp = []string{"r0"}
	for _, mode := range []string{"w", "a"} {
		emit(&c01Case{mode: mode, rules: []c01Rule{rAB}, scope: globalScope, sched: []string{"e0", "r0", "e1"},
			events: []c01Event{ev("e", "a.b", nil), ev("e", "a.b", nil)}}, "corpus-rule-after-event")
		emit(&c01Case{mode: mode, rules: []c01Rule{rAB, rSup, rB}, scope: globalScope, sched: []string{"r0", "e0", "e1", "r1", "e2", "r2", "e3", "e4"},
			events: []c01Event{ev("e", "a.b", nil), ev("e", "b", nil), ev("e", "a.b", nil), ev("e", "b", nil), ev("f", "a.b", nil)}}, "corpus-rule-after-event")
		emit(&c01Case{mode: mode, rules: []c01Rule{rAB, rAs}, scope: globalScope, sched: []string{"r0", "e0", "R", "e1", "r1", "e2", "e3"},
			events: []c01Event{ev("e", "a.b", nil), ev("e", "a.b", nil), ev("e", "a.b", nil), ev("e", "a.c", nil)}}, "corpus-rule-after-event")
	}
	// ---- failing actions, both values of failOnFirstError (distinct priorities: which rules run then
	// depends on the order, which is C10's)
	for _, ff := range []string{"0", "1"} {
		for fail := 0; fail < 4; fail++ {
			var rs []c01Rule
			for j := 0; j < 4; j++ {
				r := mkRule(fmt.Sprintf("p%d", j), []string{"a"}, nil, true)
				r.prio = (j*3 + 1) % 4
				rs = append(rs, r)
			}
			emit(&c01Case{rules: rs, scope: globalScope, failOn: ff, failing: []int{fail, (fail + 2) % 4},
				events: []c01Event{ev("e", "a", nil), ev("e", "b", nil), ev("e", "a", nil)}}, "corpus-failing-action")
		}
	}
	// ---- a refused rule (nil scope match / no kind match) and a later rule of the same name
	for _, bad := range []c01Rule{{name: "r", kinds: []string{"a"}, scopeNil: true, stateNil: true}, {name: "r", scopes: []string{}, stateNil: true}} {
		good := mkRule("r", []string{"a"}, nil, true)
		other := mkRule("q", []string{"a"}, nil, true)
		emit(&c01Case{rules: []c01Rule{bad, good, other}, scope: globalScope, events: []c01Event{ev("e", "a", nil)}}, "corpus-refused-rule")
		emit(&c01Case{rules: []c01Rule{bad, other}, scope: globalScope, events: []c01Event{ev("e", "a", nil)}}, "corpus-refused-rule")
	}
	// ---- values whose equality is not reflexive (NaN) or whose text is not a function of the class (-0)
	for _, vi := range []int{c01NaN, c01PosZero, c01NegZero} {
		emit(&c01Case{rules: []c01Rule{mkRule("r", []string{"a"}, c01St("k", V(vi)), false), mkRule("q", []string{"a"}, c01St("k", V(c01NegZero)), false),
			mkRule("x", []string{"a"}, c01St("k", "X1"), false)}, scope: globalScope,
			events: []c01Event{ev("e", "a", c01St("k", V(c01NaN))), ev("e", "a", c01St("k", V(c01PosZero))), ev("e", "a", c01St("k", V(c01NegZero)))}}, "corpus-nan-zero")
	}

	// ---- equality of state values: same text / different content, nil vs empty, int vs float
	eqVals := []int{3, 27, 4, 28, 29, 30, 16, 31, 17, 32, 1, 33, 5, 15, 35}
	{
		var rs []c01Rule
		var es []c01Event
		for j, vi := range eqVals {
			rs = append(rs, mkRule(fmt.Sprintf("v%02d", j), []string{"a"}, c01St("k", pat(V(vi))), false))
			es = append(es, ev("e", "a", c01St("k", V(vi))))
		}
		for _, mode := range []string{"w", "a"} {
			emit(&c01Case{mode: mode, rules: rs, scope: globalScope, events: es}, "corpus-value-equality")
		}
	}
	// ---- nil event state and nil kind
	{
		rs := []c01Rule{mkRule("any", []string{"a"}, nil, true), mkRule("empty", []string{"a"}, nil, false),
			mkRule("key", []string{"a"}, c01St("k", "A"), false), mkRule("star", []string{"*"}, nil, false)}
		es := []c01Event{{name: "nil0", kind: []string{"a"}, nilState: true}, {name: "nil1", nilKind: true, nilState: true},
			{name: "e", nilKind: true}, ev("e", "a", nil), {name: "nil2", kind: []string{"b"}, nilState: true}}
		for _, mode := range []string{"w", "a"} {
			emit(&c01Case{mode: mode, rules: rs, scope: globalScope, events: es}, "corpus-nil-state-kind")
		}
	}
	// ---- strings are compared exactly: upper case, blanks, non-ASCII in kinds, scope steps, state keys, names, regexes
	{
		r1 := mkRule("r1", []string{"a.b", "é.*"}, c01St("k", "A"), false)
		r1.scopes = []string{"p.q"}
		r2 := mkRule("R1", []string{"A.b", "a .b", " a.b", "É.x"}, c01St("K", "A"), false)
		r2.scopes = []string{"P.q"}
		r3 := mkRule("sup", []string{"*.*"}, nil, true)
		r3.supp = []string{"R1", "r1 "}
		r4 := mkRule("rx", []string{"*.*"}, c01St("k", "X8"), false)
		var es []c01Event
		for _, k := range []string{"a.b", "A.b", "a .b", " a.b", "a.B", "é.x", "É.x", "e.x"} {
			for _, st := range [][]c01KV{c01St("k", V(2)), c01St("K", V(2)), c01St("k", V(34)), c01St("k ", V(2))} {
				es = append(es, ev("e", k, st))
			}
		}
		for _, sc := range [][]c01KV{{{"p.q", "1"}}, {{"P.q", "1"}}, {{"p", "1"}, {"p.Q", "0"}}, {{"p ", "1"}, {"", "0"}}} {
			emit(&c01Case{rules: []c01Rule{r1, r2, r3, r4}, scope: sc, events: es}, "corpus-exact-strings")
		}
	}

	// ---- ECAL level (sinks + addEvent with a scope map)
	c01GenECAL(g, emit)

	// ---- exhaustive small universe
	segs := []string{"a", "b", "*"}
	var pats []string
	pats = append(pats, segs...)
	for _, s := range segs {
		for _, t := range segs {
			pats = append(pats, s+"."+t)
		}
	}
	var kindOpts [][]string
	for _, p := range pats {
		kindOpts = append(kindOpts, []string{p})
	}
	for _, p := range pats {
		for _, q := range pats {
			kindOpts = append(kindOpts, []string{p, q})
		}
	}
	uvals := []string{"Z", V(1), V(2), V(3), V(4)}
	type stOpt struct {
		kvs []c01KV
		nil bool
	}
	stateOpts := []stOpt{{nil, true}, {nil, false}}
	for _, v := range uvals {
		stateOpts = append(stateOpts, stOpt{c01St("k", pat(v)), false})
	}
	fullState := g.Thorough()
	if fullState {
		for _, v := range uvals {
			stateOpts = append(stateOpts, stOpt{c01St("l", pat(v)), false})
			for _, w := range uvals {
				stateOpts = append(stateOpts, stOpt{c01St("k", pat(v), "l", pat(w)), false})
			}
		}
	} else {
		stateOpts = append(stateOpts, stOpt{c01St("k", V(1), "l", V(2)), false}, stOpt{c01St("k", V(3), "l", "A"), false},
			stOpt{c01St("l", V(4)), false})
	}
	evKinds := []string{"a", "b", "a.a", "a.b", "b.a", "b.b"}
	var evStates [][]c01KV
	evStates = append(evStates, nil)
	for _, v := range uvals {
		evStates = append(evStates, c01St("k", v))
	}
	evStates = append(evStates, c01St("k", V(1), "l", V(2)), c01St("k", V(8), "l", V(10)), c01St("l", V(4)))
	allEvents := func(sameName bool) []c01Event {
		var es []c01Event
		for _, k := range evKinds {
			for _, st := range evStates {
				nm := "e"
				if !sameName {
					nm = fmt.Sprintf("e%d", len(es))
				}
				es = append(es, ev(nm, k, st))
			}
		}
		return es
	}
	// A: every single rule x every event
	for ki, ko := range kindOpts {
		for si, so := range stateOpts {
			emit(&c01Case{rules: []c01Rule{mkRule("r", ko, so.kvs, so.nil)}, scope: globalScope,
				events: allEvents((ki+si)%2 == 0)}, "exh-single-rule")
		}
	}
	// B: pairs of rules (first: any single pattern or a few double patterns; second: reduced), with suppression
	firstKinds := append([][]string{}, kindOpts[:len(pats)]...)
	firstKinds = append(firstKinds, []string{"a.*", "*.b"}, []string{"a", "a"}, []string{"*", "a"}, []string{"*.*", "a.b"})
	secondKinds := [][]string{{"a"}, {"*"}, {"a.b"}, {"*.b"}, {"a.*"}, {"b", "*.*"}}
	pairStates := []stOpt{{nil, true}, {c01St("k", "A"), false}, {c01St("k", V(1)), false}, {c01St("k", V(3)), false}}
	var pairEvents []c01Event
	for _, k := range evKinds {
		for _, st := range [][]c01KV{nil, c01St("k", V(1)), c01St("k", V(8))} {
			pairEvents = append(pairEvents, ev("e", k, st))
		}
	}
	for _, k1 := range firstKinds {
		for _, s1 := range pairStates {
			for sup1 := 0; sup1 < 2; sup1++ {
				for _, k2 := range secondKinds {
					for _, s2 := range pairStates {
						for sup2 := 0; sup2 < 2; sup2++ {
							r1 := mkRule("r1", k1, s1.kvs, s1.nil)
							r2 := mkRule("r2", k2, s2.kvs, s2.nil)
							if sup1 == 1 {
								r1.supp = []string{"r2"}
							}
							if sup2 == 1 {
								r2.supp = []string{"r1"}
							}
							emit(&c01Case{rules: []c01Rule{r1, r2}, scope: globalScope, events: pairEvents}, "exh-rule-pair")
						}
					}
				}
			}
		}
	}
	// C: triples over a reduced universe, scopes and priorities varied
	triK := [][]string{{"a"}, {"*"}, {"a.b"}, {"*.b"}, {"a.*", "*.b"}}
	triS := []stOpt{{nil, true}, {c01St("k", V(1)), false}}
	triScopes := [][]string{{}, {"p"}, {"p.q"}, {"z"}}
	ti := 0
	for _, k1 := range triK {
		for _, s1 := range triS {
			for _, k2 := range triK {
				for _, s2 := range triS {
					for _, k3 := range triK {
						for _, s3 := range triS {
							r1, r2, r3 := mkRule("r1", k1, s1.kvs, s1.nil), mkRule("r2", k2, s2.kvs, s2.nil), mkRule("r3", k3, s3.kvs, s3.nil)
							r1.scopes, r2.scopes, r3.scopes = triScopes[ti%4], triScopes[(ti/4)%4], triScopes[(ti/16)%4]
							r1.prio, r2.prio, r3.prio = ti%3, (ti/3)%3, 1
							if ti%5 == 0 {
								r3.supp = []string{"r1"}
							}
							if ti%7 == 0 {
								r1.supp = []string{"r2", "r1"}
							}
							sc := [][]c01KV{globalScope, {{"p", "1"}}, {{"", "1"}, {"p.q", "0"}}, {{"p", "0"}, {"p.q", "1"}}, {}}[ti%5]
							ti++
							emit(&c01Case{rules: []c01Rule{r1, r2, r3}, scope: sc, events: pairEvents}, "exh-rule-triple")
						}
					}
				}
			}
		}
	}
	// D: all 2-event histories (kinds incl. empty and depth 3), sharing / not sharing the name
	histKinds := []string{"", "a", "b", "a.a", "a.b", "b.a", "b.b", "a.b.a"}
	for _, ko := range kindOpts {
		var es []c01Event
		_ = es
		for same := 0; same < 2; same++ {
			for _, h1 := range histKinds {
				var evs []c01Event
				for i, h2 := range histKinds {
					// history h1, h2 — packed: h1 is re-added before every h2 (the cache only grows)
					n1, n2 := "n", "n"
					if same == 0 {
						n2 = fmt.Sprintf("m%d", i)
					}
					evs = append(evs, ev(n1, h1, nil), ev(n2, h2, nil))
				}
				if len(ko) == 1 || same == 1 {
					emit(&c01Case{rules: []c01Rule{mkRule("r", ko, nil, true)}, scope: globalScope, events: evs}, "exh-history")
				}
			}
		}
	}

	// ---- random
	nRandom, nBig := 1500, 40
	if g.Thorough() {
		nRandom, nBig = 40000, 1500
	}
	rsegs := []string{"a", "b", "c", "*", "", `a" "b`, "a b", "*a", "A", "a ", " a", "é", "É", "B"}
	keys := []string{"k", "l", "m", "", "K", "k ", "é"}
	paths := []string{"", "p", "p.q", "p.q.r", "z", "p.z", ".", "p.", "P", "p.Q", "p .q", "é"}
	rndKind := func(depth int) string {
		var s []string
		for i := 0; i < depth; i++ {
			s = append(s, rsegs[g.R.Intn(4+g.R.Intn(len(rsegs)-3))])
		}
		return strings.Join(s, ".")
	}
	rndVal := func() string { return V(g.R.Intn(len(c01Vals))) }
	rndPat := func() string {
		switch g.R.Intn(6) {
		case 0:
			return "A"
		case 1:
			return "X" + strconv.Itoa(g.R.Intn(len(c01Regex)))
		}
		return pat(rndVal())
	}
	rndScope := func() []c01KV {
		var d []c01KV
		seen := map[string]bool{}
		for i, k := 0, g.R.Intn(4); i < k; i++ {
			p := paths[g.R.Intn(len(paths))]
			if !seen[p] {
				seen[p] = true
				d = append(d, c01KV{p, strconv.Itoa(g.R.Intn(2))})
			}
		}
		if g.R.Intn(3) > 0 && !seen[""] {
			d = append(d, c01KV{"", "1"})
		}
		return d
	}
	rndState := func(maxKeys int) []c01KV {
		var st []c01KV
		seen := map[string]bool{}
		for i, k := 0, g.R.Intn(maxKeys+1); i < k; i++ {
			key := keys[g.R.Intn(len(keys))]
			if !seen[key] {
				seen[key] = true
				st = append(st, c01KV{key, rndPat()})
			}
		}
		return st
	}
	rndEvent := func(i int, kindsUsed []string, sameNames bool) c01Event {
		e := c01Event{name: "e"}
		if !sameNames {
			e.name = fmt.Sprintf("e%d", g.R.Intn(3))
		}
		// mostly a kind that instantiates one of the patterns
		if len(kindsUsed) > 0 && g.R.Intn(5) > 0 {
			for _, s := range strings.Split(kindsUsed[g.R.Intn(len(kindsUsed))], ".") {
				if s == "*" && g.R.Intn(4) > 0 {
					s = rsegs[g.R.Intn(len(rsegs))]
				}
				e.kind = append(e.kind, s)
			}
			if g.R.Intn(12) == 0 {
				e.kind = e.kind[:len(e.kind)-1]
			} else if g.R.Intn(12) == 0 {
				e.kind = append(e.kind, "a")
			}
		} else if d := g.R.Intn(5); d > 0 {
			e.kind = strings.Split(rndKind(d), ".")
		}
		seen := map[string]bool{}
		for j, k := 0, g.R.Intn(4); j < k; j++ {
			key := keys[g.R.Intn(len(keys))]
			if !seen[key] {
				seen[key] = true
				e.state = append(e.state, c01KV{key, rndVal()})
			}
		}
		return e
	}
	for i := 0; i < nRandom; i++ {
		c := &c01Case{scope: rndScope(), scopeNil: g.R.Intn(10) == 0}
		nr := 1 + g.R.Intn(8)
		var kindsUsed []string
		for j := 0; j < nr; j++ {
			r := c01Rule{name: fmt.Sprintf("r%d", j), scopes: []string{}, prio: g.R.Intn(4) - 1}
			if g.R.Intn(25) == 0 && j > 0 {
				r.name = "r0" // duplicate name: AddRule must refuse it
			}
			for k, m := 0, 1+g.R.Intn(3); k < m; k++ {
				if len(kindsUsed) > 0 && g.R.Intn(3) == 0 {
					r.kinds = append(r.kinds, kindsUsed[g.R.Intn(len(kindsUsed))]) // duplicate / shared patterns
				} else {
					r.kinds = append(r.kinds, rndKind(1+g.R.Intn(5)))
				}
			}
			if g.R.Intn(40) == 0 {
				r.kinds = nil
			}
			kindsUsed = append(kindsUsed, r.kinds...)
			for k, m := 0, g.R.Intn(3); k < m && g.R.Intn(2) == 0; k++ {
				r.scopes = append(r.scopes, paths[g.R.Intn(len(paths))])
			}
			if g.R.Intn(3) == 0 {
				r.stateNil = true
			} else {
				r.state = rndState(3)
			}
			for k, m := 0, g.R.Intn(3); k < m && g.R.Intn(2) == 0; k++ {
				r.supp = append(r.supp, fmt.Sprintf("r%d", g.R.Intn(nr+1))) // chains, self, unknown names
			}
			c.rules = append(c.rules, r)
		}
		same := g.R.Bool()
		for j, m := 0, 1+g.R.Intn(6); j < m; j++ {
			c.events = append(c.events, rndEvent(j, kindsUsed, same))
		}
		what := "random-mixed"
		switch i % 5 {
		case 1: // rules arrive between the events; kinds are repeated so that cached answers exist
			what = "random-rule-after-event"
			ri := 0
			for j := range c.events {
				for ri < len(c.rules) && g.R.Intn(3) == 0 {
					c.sched = append(c.sched, fmt.Sprintf("r%d", ri))
					ri++
				}
				if j > 0 && g.R.Intn(2) == 0 {
					c.events[j].kind = c.events[g.R.Intn(j)].kind
				}
				c.sched = append(c.sched, fmt.Sprintf("e%d", j))
				if g.R.Intn(12) == 0 {
					c.sched = append(c.sched, "R")
				}
			}
			for ; ri < len(c.rules); ri++ {
				c.sched = append(c.sched, fmt.Sprintf("r%d", ri))
			}
			// the events once more now that every rule is there
			k := len(c.events)
			for j := 0; j < k; j++ {
				c.events = append(c.events, c.events[j])
				c.sched = append(c.sched, fmt.Sprintf("e%d", k+j))
			}
		case 2: // failing actions
			what = "random-failing-action"
			c.failOn = strconv.Itoa(g.R.Intn(2))
			for j := range c.rules {
				c.rules[j].prio = j // distinct
				if g.R.Intn(3) == 0 {
					c.failing = append(c.failing, j)
				}
			}
		}
		if what == "random-mixed" && i%5 == 3 {
			c.mode = "c"
			what = "random-concurrent-addevent"
		}
		emit(c, what)
	}
	// many state rules on one kind (several leaves), a few values so that many rules match
	for i := 0; i < nBig; i++ {
		c := &c01Case{scope: globalScope}
		cnt := 1 + g.R.Intn(200)
		kind := rndKind(1 + g.R.Intn(3))
		other := rndKind(2)
		for j := 0; j < cnt; j++ {
			r := c01Rule{name: fmt.Sprintf("s%d", j), scopes: []string{}, kinds: []string{kind}, prio: g.R.Intn(3)}
			if g.R.Intn(6) == 0 {
				r.kinds = append(r.kinds, kind) // the same pattern twice
			}
			if g.R.Intn(9) == 0 {
				r.kinds = []string{other}
			}
			if g.R.Intn(20) == 0 {
				r.stateNil = true
			} else {
				r.state = rndState(2)
			}
			if g.R.Intn(30) == 0 {
				r.supp = []string{fmt.Sprintf("s%d", g.R.Intn(cnt))}
			}
			c.rules = append(c.rules, r)
		}
		for j, m := 0, 2+g.R.Intn(5); j < m; j++ {
			c.events = append(c.events, rndEvent(j, []string{kind, kind, other}, true))
		}
		emit(c, "random-many-state-rules")
	}
}

func init() {
	register("C01", &Prop{
		Timeout:          12 * time.Second,
		NoRestartOnPanic: true, // a recovered panic of AddRule / Match leaves no damaged global state in the engine
		Setup: func() {
			for _, r := range c01Regex {
				c01RegexC = append(c01RegexC, regexp.MustCompile(r))
			}
			c01ECALSetup()
		},
		Gen: c01Gen,
		Run: c01Run,
		// harness C01 -tool prog <payload>: the ECAL program of an ECAL-level case
		Tool: func(args []string) int {
			if len(args) == 2 && args[0] == "extract" {
				return c01ExtractFacts(args[1])
			}
			if len(args) >= 1 && args[0] == "stress" {
				return c01Stress(args[1:])
			}
			if len(args) == 2 && args[0] == "prog" {
				fmt.Print(c01Program(c01Decode(args[1])))
				return 0
			}
			return 2
		},
	})
}
