package main

// Translator of the bracket rule: a small symbolic evaluator for side-effect free, boolean valued Go
// functions over (parent, child, childIndex). The meaning of a statement list is "the value it returns":
//
//	return e                               ⇒ e
//	if c { A } else { B } ; rest           ⇒ if c then ⟦A ; rest⟧ else ⟦B ; rest⟧      (early returns = nested ifs)
//	switch { case c1, c2: A … default: D } ⇒ if c1 || c2 then ⟦A ; rest⟧ else … else ⟦D ; rest⟧
//	switch t { case A, B: … }              ⇒ the same with t == A || t == B
//	v := e   /   v, ok := m[k]   /  var v = e   ⇒ substitution of v (expressions are pure)
//	m[k], _, ok := m[k]                    ⇒ disjunction of k == key over the constant keys of a package-level
//	                                         map[string]bool / map[string]struct{} literal that is written nowhere else
//	f(parent|child|terms…)                 ⇒ the body of the package function f, inlined (depth ≤ 4); if that is not
//	                                         possible (recursion into the sub-tree): an opaque predicate of that node
//
// Anything else (loops, method values, mutation, …) aborts the translation: the rule is then "not
// established" and the check falls back to an amplified differential search (see props/C08.py).

import (
	"fmt"
	"go/ast"
	"go/token"
	"strconv"
)

type c08abort struct{ why string }

type c08tr struct {
	opaque    []string
	files     []*ast.File
	strConsts map[string]string
	intConsts map[string]string
	depth     int
}

type c08env struct {
	canon map[string]string // Go identifier -> parent | child | childIndex
	conds map[string]string // local boolean variable -> Lean expression
	terms map[string]string // local int / string variable -> Lean expression
}

func (e *c08env) clone() *c08env {
	n := &c08env{map[string]string{}, map[string]string{}, map[string]string{}}
	for k, v := range e.canon {
		n.canon[k] = v
	}
	for k, v := range e.conds {
		n.conds[k] = v
	}
	for k, v := range e.terms {
		n.terms[k] = v
	}
	return n
}

func (t *c08tr) abort(format string, a ...interface{}) { panic(c08abort{fmt.Sprintf(format, a...)}) }

// try runs f; ok=false if it aborted.
func (t *c08tr) try(f func() string) (res string, ok bool) {
	defer func() {
		if r := recover(); r != nil {
			if _, is := r.(c08abort); is {
				res, ok = "", false
				return
			}
			panic(r)
		}
	}()
	return f(), true
}

func (t *c08tr) node(e ast.Expr, env *c08env) (string, bool) {
	if id, ok := e.(*ast.Ident); ok {
		if c := env.canon[id.Name]; c == "parent" || c == "child" {
			return c, true
		}
	}
	if p, ok := e.(*ast.ParenExpr); ok {
		return t.node(p.X, env)
	}
	return "", false
}

func (t *c08tr) term(e ast.Expr, env *c08env) string {
	switch v := e.(type) {
	case *ast.ParenExpr:
		return "(" + t.term(v.X, env) + ")"
	case *ast.BasicLit:
		if v.Kind == token.INT {
			return v.Value
		}
		if v.Kind == token.STRING {
			s, _ := strconv.Unquote(v.Value)
			return leanStr(s)
		}
	case *ast.Ident:
		if env.canon[v.Name] == "childIndex" {
			return "childIndex"
		}
		if x, ok := env.terms[v.Name]; ok {
			return "(" + x + ")"
		}
		if c, ok := t.strConsts[v.Name]; ok {
			return leanStr(c)
		}
		if c, ok := t.intConsts[v.Name]; ok {
			return c
		}
	case *ast.SelectorExpr:
		if who, ok := t.node(v.X, env); ok {
			switch v.Sel.Name {
			case "binding":
				return who + ".binding"
			case "Name":
				return who + ".name"
			}
		}
	case *ast.CallExpr:
		if fn, ok := v.Fun.(*ast.Ident); ok && fn.Name == "len" && len(v.Args) == 1 {
			if sel, ok := v.Args[0].(*ast.SelectorExpr); ok && sel.Sel.Name == "Children" {
				if who, ok := t.node(sel.X, env); ok {
					return who + ".nch"
				}
			}
		}
	case *ast.BinaryExpr:
		if v.Op == token.ADD {
			return "(" + t.term(v.X, env) + " + " + t.term(v.Y, env) + ")"
		}
	}
	t.abort("unsupported term %T", e)
	return ""
}

func (t *c08tr) ldOf(e ast.Expr, env *c08env) (string, bool) {
	if sel, ok := e.(*ast.SelectorExpr); ok && sel.Sel.Name == "leftDenotation" {
		return t.node(sel.X, env)
	}
	return "", false
}

func (t *c08tr) cond(e ast.Expr, env *c08env) string {
	switch v := e.(type) {
	case *ast.ParenExpr:
		return "(" + t.cond(v.X, env) + ")"
	case *ast.UnaryExpr:
		if v.Op == token.NOT {
			return "(!" + t.cond(v.X, env) + ")"
		}
	case *ast.Ident:
		if v.Name == "true" || v.Name == "false" {
			return v.Name
		}
		if x, ok := env.conds[v.Name]; ok {
			return "(" + x + ")"
		}
	case *ast.IndexExpr:
		if m, ok := v.X.(*ast.Ident); ok {
			return t.member(m.Name, v.Index, env, true)
		}
	case *ast.CallExpr:
		if fn, ok := v.Fun.(*ast.Ident); ok {
			if s, ok := t.try(func() string { return t.inline(fn.Name, v.Args, env) }); ok {
				return s
			}
			// a helper that cannot be inlined (e.g. it recurses into the sub-tree) is kept as an OPAQUE
			// predicate of the node it is called on: the rule is translated relative to it, the facts range
			// over both of its values, its meaning is modelled by hand and tied by the correspondence run
			// (only helpers whose meaning the model knows: ppIsProductChain = Ecal.Print.isProductChain)
			if t.findFunc(fn.Name) != nil && fn.Name == "ppIsProductChain" {
				for _, a := range v.Args {
					if who, ok := t.node(a, env); ok {
						t.opaque = append(t.opaque, fn.Name)
						return "(" + who + ".sub " + leanStr(fn.Name) + ")"
					}
				}
			}
			t.abort("call of %s cannot be inlined and has no node argument", fn.Name)
		}
	case *ast.BinaryExpr:
		switch v.Op {
		case token.LOR:
			return "(" + t.cond(v.X, env) + " || " + t.cond(v.Y, env) + ")"
		case token.LAND:
			return "(" + t.cond(v.X, env) + " && " + t.cond(v.Y, env) + ")"
		case token.EQL, token.NEQ:
			for _, pr := range [][2]ast.Expr{{v.X, v.Y}, {v.Y, v.X}} {
				if who, ok := t.ldOf(pr[0], env); ok && isNil(pr[1]) {
					if v.Op == token.EQL {
						return "(!" + who + ".hasLd)"
					}
					return who + ".hasLd"
				}
			}
			if s, ok := t.try(func() string {
				op := " = "
				if v.Op == token.NEQ {
					op = " ≠ "
				}
				return "decide (" + t.term(v.X, env) + op + t.term(v.Y, env) + ")"
			}); ok {
				return s
			}
			// equality of booleans
			a, b := t.cond(v.X, env), t.cond(v.Y, env)
			if v.Op == token.EQL {
				return "(" + a + " == " + b + ")"
			}
			return "(" + a + " != " + b + ")"
		case token.LSS, token.LEQ, token.GTR, token.GEQ:
			op := map[token.Token]string{token.LSS: " < ", token.LEQ: " ≤ ", token.GTR: " > ", token.GEQ: " ≥ "}[v.Op]
			return "decide (" + t.term(v.X, env) + op + t.term(v.Y, env) + ")"
		}
	}
	t.abort("unsupported condition %T", e)
	return ""
}

// member: k ∈ constant keys of the package-level map literal `name` (withTrue: only keys whose value is true).
func (t *c08tr) member(name string, key ast.Expr, env *c08env, withTrue bool) string {
	var lit *ast.CompositeLit
	writes := 0
	for _, f := range t.files {
		ast.Inspect(f, func(n ast.Node) bool {
			switch v := n.(type) {
			case *ast.ValueSpec:
				for i, nm := range v.Names {
					if nm.Name == name && i < len(v.Values) {
						if cl, ok := v.Values[i].(*ast.CompositeLit); ok {
							lit = cl
							writes++
						} else {
							writes += 2
						}
					}
				}
			case *ast.AssignStmt:
				for i, l := range v.Lhs {
					if id, ok := l.(*ast.Ident); ok && id.Name == name && v.Tok == token.ASSIGN {
						if cl, ok := v.Rhs[min(i, len(v.Rhs)-1)].(*ast.CompositeLit); ok && len(v.Lhs) == len(v.Rhs) {
							lit = cl
							writes++
						} else {
							writes += 2
						}
					}
					if ix, ok := l.(*ast.IndexExpr); ok {
						if id, ok := ix.X.(*ast.Ident); ok && id.Name == name {
							writes += 2
						}
					}
				}
			case *ast.CallExpr:
				if fn, ok := v.Fun.(*ast.Ident); ok && (fn.Name == "delete" || fn.Name == "clear") && len(v.Args) > 0 {
					if id, ok := v.Args[0].(*ast.Ident); ok && id.Name == name {
						writes += 2
					}
				}
			}
			return true
		})
	}
	if lit == nil || writes != 1 {
		t.abort("%s is not a package-level map literal that is written exactly once", name)
	}
	mt, ok := lit.Type.(*ast.MapType)
	if !ok {
		t.abort("%s is not a map", name)
	}
	if kt, ok := mt.Key.(*ast.Ident); !ok || kt.Name != "string" {
		t.abort("%s is not keyed by string", name)
	}
	boolVals := false
	if vt, ok := mt.Value.(*ast.Ident); ok && vt.Name == "bool" {
		boolVals = true
	} else if _, ok := mt.Value.(*ast.StructType); !ok {
		t.abort("%s has values that are neither bool nor struct{}", name)
	}
	if !boolVals && withTrue {
		t.abort("%s[k] used as a condition but the values are not bool", name)
	}
	k := t.term(key, env)
	res := "false"
	for _, el := range lit.Elts {
		kv, ok := el.(*ast.KeyValueExpr)
		if !ok {
			t.abort("%s: element without key", name)
		}
		ks := t.term(kv.Key, &c08env{map[string]string{}, map[string]string{}, map[string]string{}})
		if boolVals && withTrue {
			id, ok := kv.Value.(*ast.Ident)
			if !ok || (id.Name != "true" && id.Name != "false") {
				t.abort("%s: value of %s is not a boolean literal", name, ks)
			}
			if id.Name == "false" {
				continue
			}
		}
		res = "(" + res + " || decide (" + k + " = " + ks + "))"
	}
	return res
}

func (t *c08tr) findFunc(name string) *ast.FuncDecl {
	for _, f := range t.files {
		for _, d := range f.Decls {
			if fd, ok := d.(*ast.FuncDecl); ok && fd.Recv == nil && fd.Name.Name == name && fd.Body != nil {
				return fd
			}
		}
	}
	return nil
}

// inline a call of a package function with a boolean result.
func (t *c08tr) inline(name string, args []ast.Expr, env *c08env) string {
	fd := t.findFunc(name)
	if fd == nil {
		t.abort("call of %s, which is not a function of the package", name)
	}
	if t.depth >= 4 {
		t.abort("helper calls nested too deeply at %s", name)
	}
	var params []string
	for _, f := range fd.Type.Params.List {
		for _, n := range f.Names {
			params = append(params, n.Name)
		}
	}
	if len(params) != len(args) {
		t.abort("call of %s with %d arguments", name, len(args))
	}
	ne := &c08env{map[string]string{}, map[string]string{}, map[string]string{}}
	for i, a := range args {
		if who, ok := t.node(a, env); ok {
			ne.canon[params[i]] = who
		} else if s, ok := t.try(func() string { return t.term(a, env) }); ok {
			ne.terms[params[i]] = s
		} else {
			ne.conds[params[i]] = t.cond(a, env)
		}
	}
	t.depth++
	defer func() { t.depth-- }()
	return "(" + t.exec(fd.Body.List, ne) + ")"
}

// assign handles `lhs := rhs` forms; returns the extended environment.
func (t *c08tr) assign(lhs []ast.Expr, rhs []ast.Expr, env *c08env) *c08env {
	ne := env.clone()
	name := func(e ast.Expr) string {
		id, ok := e.(*ast.Ident)
		if !ok {
			t.abort("assignment to something that is not a local variable")
		}
		if _, isParam := env.canon[id.Name]; isParam {
			t.abort("assignment to the parameter %s", id.Name)
		}
		return id.Name
	}
	if len(lhs) == 2 && len(rhs) == 1 {
		ix, ok := rhs[0].(*ast.IndexExpr)
		if !ok {
			t.abort("two-value assignment that is not a map lookup")
		}
		m, ok := ix.X.(*ast.Ident)
		if !ok {
			t.abort("lookup in something that is not a package-level map")
		}
		if v := name(lhs[0]); v != "_" {
			ne.conds[v] = t.member(m.Name, ix.Index, env, true)
		}
		if v := name(lhs[1]); v != "_" {
			ne.conds[v] = t.member(m.Name, ix.Index, env, false)
		}
		return ne
	}
	if len(lhs) != len(rhs) {
		t.abort("unsupported assignment")
	}
	for i := range lhs {
		v := name(lhs[i])
		if who, ok := t.node(rhs[i], env); ok {
			ne.canon[v] = who
			continue
		}
		if s, ok := t.try(func() string { return t.term(rhs[i], env) }); ok {
			ne.terms[v] = s
			delete(ne.conds, v)
		} else {
			ne.conds[v] = t.cond(rhs[i], env)
			delete(ne.terms, v)
		}
	}
	return ne
}

// exec: the value returned by executing the statements.
func (t *c08tr) exec(stmts []ast.Stmt, env *c08env) string {
	if len(stmts) == 0 {
		t.abort("a path ends without return")
	}
	tail := stmts[1:]
	join := func(a []ast.Stmt) []ast.Stmt { return append(append([]ast.Stmt{}, a...), tail...) }
	switch v := stmts[0].(type) {
	case *ast.EmptyStmt:
		return t.exec(tail, env)
	case *ast.ReturnStmt:
		if len(v.Results) != 1 {
			t.abort("return of %d values", len(v.Results))
		}
		return t.cond(v.Results[0], env)
	case *ast.BlockStmt:
		return t.exec(join(v.List), env)
	case *ast.AssignStmt:
		if v.Tok != token.DEFINE && v.Tok != token.ASSIGN {
			t.abort("compound assignment")
		}
		return t.exec(tail, t.assign(v.Lhs, v.Rhs, env))
	case *ast.DeclStmt:
		gd, ok := v.Decl.(*ast.GenDecl)
		if !ok || gd.Tok != token.VAR {
			t.abort("unsupported declaration")
		}
		ne := env
		for _, sp := range gd.Specs {
			vs := sp.(*ast.ValueSpec)
			if len(vs.Values) != len(vs.Names) {
				t.abort("variable declared without value")
			}
			var lhs []ast.Expr
			for _, n := range vs.Names {
				lhs = append(lhs, n)
			}
			ne = t.assign(lhs, vs.Values, ne)
		}
		return t.exec(tail, ne)
	case *ast.IfStmt:
		ie := env
		if v.Init != nil {
			as, ok := v.Init.(*ast.AssignStmt)
			if !ok {
				t.abort("unsupported if initialiser")
			}
			ie = t.assign(as.Lhs, as.Rhs, env)
		}
		c := t.cond(v.Cond, ie)
		var els []ast.Stmt
		switch e := v.Else.(type) {
		case nil:
		case *ast.BlockStmt:
			els = e.List
		default:
			els = []ast.Stmt{e}
		}
		return "(if " + c + " then " + t.exec(join(v.Body.List), ie) + " else " + t.exec(join(els), ie) + ")"
	case *ast.SwitchStmt:
		se := env
		if v.Init != nil {
			as, ok := v.Init.(*ast.AssignStmt)
			if !ok {
				t.abort("unsupported switch initialiser")
			}
			se = t.assign(as.Lhs, as.Rhs, env)
		}
		tag := ""
		if v.Tag != nil {
			tag = t.term(v.Tag, se)
		}
		var deflt []ast.Stmt
		type arm struct {
			c    string
			body []ast.Stmt
		}
		var arms []arm
		for _, s := range v.Body.List {
			cc := s.(*ast.CaseClause)
			for _, b := range cc.Body {
				if _, isBranch := b.(*ast.BranchStmt); isBranch {
					t.abort("break / fallthrough in a switch")
				}
			}
			if cc.List == nil {
				deflt = cc.Body
				continue
			}
			c := "false"
			for _, e := range cc.List {
				if tag == "" {
					c = "(" + c + " || " + t.cond(e, se) + ")"
				} else {
					c = "(" + c + " || decide (" + tag + " = " + t.term(e, se) + "))"
				}
			}
			arms = append(arms, arm{c, cc.Body})
		}
		res := t.exec(join(deflt), se)
		for i := len(arms) - 1; i >= 0; i-- {
			res = "(if " + arms[i].c + " then " + t.exec(join(arms[i].body), se) + " else " + res + ")"
		}
		return res
	}
	t.abort("unsupported statement %T", stmts[0])
	return ""
}

// c08TranslateRule translates ppNeedsBrackets; ok=false with a reason when a construct is not understood.
var c08Opaque []string

func c08TranslateRule(files []*ast.File, strConsts, intConsts map[string]string) (lean string, ok bool, why string) {
	t := &c08tr{files: files, strConsts: strConsts, intConsts: intConsts}
	defer func() { c08Opaque = t.opaque }()
	defer func() {
		if r := recover(); r != nil {
			if a, is := r.(c08abort); is {
				lean, ok, why = "", false, a.why
				return
			}
			panic(r)
		}
	}()
	fd := t.findFunc("ppNeedsBrackets")
	if fd == nil {
		return "", false, "ppNeedsBrackets not found (bracket rule not in the expected place)"
	}
	var pnames []string
	for _, f := range fd.Type.Params.List {
		for _, n := range f.Names {
			pnames = append(pnames, n.Name)
		}
	}
	if len(pnames) != 3 {
		return "", false, fmt.Sprintf("ppNeedsBrackets has the parameters %v", pnames)
	}
	env := &c08env{map[string]string{pnames[0]: "parent", pnames[1]: "child", pnames[2]: "childIndex"}, map[string]string{}, map[string]string{}}
	return t.exec(fd.Body.List, env), true, ""
}
