package main

// C05 — lexical scoping, functions, containers and objects behave as specified.
//
// A case is a program over the names {a,b,c,f,g,o} followed by probe expressions that are
// evaluated afterwards in the same global scope. Payload = evPayload(program) and
// evPayload(probe) sections joined by " @ " (source + tree built by the REAL parser).
//
// Compared observable:  <outcome of the program>;G <canonical dump of the global scope>;LOG <ordered marker trace>;
// <outcome of probe 1> L <its trace>;…;G <dump after the probes>   where an outcome is
// OK <canonical value> | ERR <error type> | ERRPLAIN | NOPARSE | V ERR <type>
// (no message text, no position, functions print as "func").
//
// Generator: (0) corpus (the input of the repaired defect 5e0a7a5 and relatives),
// (1) exhaustive scope shape x assignment form x place of definition, (2) parameters x
// defaults x argument counts x call context, (3) closures / recursion / by value vs by
// reference (directed), (4) exhaustive container kind x key kind x access form x
// read|write, (5) len/add/del/concat sequences incl. aliasing, (6) object templates, (6b) templates and
// function literals declared inside a running method / init / function x outer context, with probes of
// the OUTER this / super / parameters / locals afterwards, (7) random programs mixing all of it.

import (
	"fmt"
	"os"
	"sort"
	"strings"
	"time"

	"github.com/krotik/ecal/parser"
	"github.com/krotik/ecal/scope"
	"github.com/krotik/ecal/verifhook"
)

const c05Sep = " @ "
const c05Alt = " ~ "

// c05Canon is evCanon plus a canonical form of ERROR OBJECTS (the maps `except … as e` binds), so that programs
// which keep one in a variable stay comparable: message text, position, source name and trace are printed as the
// placeholders ~E ~I ~S ~T (the model does not know them), the detail as ~D unless the error was raised with
// raise(type, detail, data) (then it is the given text and a "data" entry exists). A Go int (only pos / line
// of an error object are ints, ECAL numbers are float64) prints as ~I everywhere.
func c05Canon(v interface{}, d int) string {
	if d == 0 {
		return "DEEP"
	}
	switch x := v.(type) {
	case int:
		return "~I"
	case []interface{}:
		p := make([]string, len(x))
		for i, e := range x {
			p[i] = c05Canon(e, d-1)
		}
		return "[" + strings.Join(p, " ") + "]"
	case map[interface{}]interface{}:
		isErr := false
		if es, ok := x["error"].(string); ok {
			_, l1 := x["line"].(int)
			_, l2 := x["pos"].(int)
			if strings.HasPrefix(es, "ECAL error in ") && l1 && l2 {
				isErr = true
			} else if t, ok := x["type"].(string); ok && t == "UnexpectedError" {
				isErr = true
			}
		}
		_, raised := x["data"]
		p := make([]string, 0, len(x))
		for k, e := range x {
			val := c05Canon(e, d-1)
			if ks, ok := k.(string); ok && isErr && d-1 > 0 {
				switch ks {
				case "error":
					val = "~E"
				case "source":
					val = "~S"
				case "trace":
					val = "~T"
				case "detail":
					if !raised {
						val = "~D"
					}
				}
			}
			p = append(p, c05Canon(k, d-1)+":"+val)
		}
		sort.Strings(p)
		return "{" + strings.Join(p, " ") + "}"
	}
	return evCanonD(v, d)
}

// call frames as the real code builds them (hook point func.frame in function.Run: called after the parameters are
// bound and the frame is linked). Reported per frame, STRUCTURALLY (no display names): the kinds of the scopes from
// the one the frame is really linked to up to the first call frame or root — b = block scope, f = a call frame,
// g = the global scope of the case, r = another root — and the names the frame holds at that moment (sorted).
// c05HookState: "seen" (hook present and reporting), "absent" (no call site in the tree), "silent" (the tree has a
// func.frame call site but the probe call did not reach it: reported loudly, never skipped).
var (
	c05Frames      []string
	c05FrameScopes []parser.Scope
	c05Global      parser.Scope
	c05HookState   = "absent"
)

func c05ScopeChain(sc parser.Scope) string {
	var kinds []string
	for depth := 0; sc != nil && depth < 50; depth++ {
		for _, f := range c05FrameScopes {
			if f == sc {
				return strings.Join(append(kinds, "f"), ".")
			}
		}
		if sc.Parent() == nil {
			if sc == c05Global {
				return strings.Join(append(kinds, "g"), ".")
			}
			return strings.Join(append(kinds, "r"), ".")
		}
		kinds = append(kinds, "b")
		sc = sc.Parent()
	}
	return strings.Join(append(kinds, "?"), ".")
}

func c05FrameHandler(point string, args ...interface{}) {
	if point != "func.frame" || len(args) < 2 {
		return
	}
	fvs, ok := args[1].(parser.Scope)
	if !ok || fvs.Parent() == nil {
		return
	}
	var names []string
	for k := range scope.ToObject(fvs) {
		names = append(names, hx(fmt.Sprint(k)))
	}
	sort.Strings(names)
	c05Frames = append(c05Frames, c05ScopeChain(fvs.Parent())+"["+strings.Join(names, ",")+"]")
	c05FrameScopes = append(c05FrameScopes, fvs)
}

func c05Setup() {
	evSetup()
	verifhook.SetHandler(c05FrameHandler)
	c05Frames, c05FrameScopes = nil, nil
	c05Outcome(scope.NewScope(scope.GlobalScope), "func f(a) {\nlet b := a\nreturn b\n}\nf(1)")
	src, _ := os.ReadFile(repoDir() + "/interpreter/rt_func.go")
	switch {
	case len(c05Frames) > 0:
		c05HookState = "seen"
	case strings.Contains(string(src), "verifhook.At(\"func.frame\""):
		c05HookState = "silent"
	default:
		c05HookState = "absent"
	}
	registerX("mark", func(args []interface{}) (interface{}, error) {
		parts := make([]string, len(args))
		for i, a := range args {
			parts[i] = c05Canon(a, evCanonDepth)
		}
		evLog.add("m" + strings.Join(parts, ","))
		if len(args) > 0 {
			return args[0], nil
		}
		return nil, nil
	})
}

func c05Outcome(vs parser.Scope, src string) string {
	erp := evNewProvider()
	ast, err := parser.ParseWithRuntime("t", src, erp)
	if err != nil || ast == nil {
		return "NOPARSE"
	}
	if err = ast.Runtime.Validate(); err != nil {
		return "V " + c04StripPos(evErr(err))
	}
	res, err := ast.Runtime.Eval(vs, make(map[string]interface{}), erp.NewThreadID())
	if err != nil {
		return c04StripPos(evErr(err))
	}
	return "OK " + c05Canon(res, evCanonDepth)
}

func c05Dump(vs parser.Scope) string {
	obj := scope.ToObject(vs)
	items := make([]string, 0, len(obj))
	for k, v := range obj {
		items = append(items, c05Canon(k, evCanonDepth-1)+":"+c05Canon(v, evCanonDepth-1))
	}
	sort.Strings(items)
	return strings.Join(items, " ")
}

func c05LogFrom(i int) (string, int) {
	evLog.mu.Lock()
	defer evLog.mu.Unlock()
	return strings.Join(evLog.entries[i:], "|"), len(evLog.entries)
}

// Result: <program outcome>;G <global dump after the program>;LOG <trace of the program>;F <call frames of the
// program>;<probe 1 outcome> L <trace of probe 1>;…;G <global dump after the probes>.  The model prints U for a probe section it cannot give (and for every
// section after a probe that left the model); props/C05.py compares section by section and accepts U.
func c05Run(payload string) string {
	evLog.reset()
	c05Frames, c05FrameScopes = nil, nil
	vs := scope.NewScope(scope.GlobalScope)
	c05Global = vs
	var outs []string
	n := 0
	for i, sec := range strings.Split(payload, c05Sep) {
		// "<chained> [~ <as is>] ~ <spec>": the real code runs the first program (see c05Chains)
		sec = strings.SplitN(sec, c05Alt, 2)[0]
		src := unhx(strings.SplitN(sec, " ", 2)[0])
		out := c05Outcome(vs, src)
		var lg string
		lg, n = c05LogFrom(n)
		if i == 0 {
			fr := "F nohook"
			switch c05HookState {
			case "seen":
				fr = "F " + strings.Join(c05Frames, "|")
			case "silent":
				fr = "F HOOK-PRESENT-BUT-SILENT (rt_func.go has a func.frame call site that a plain call does not reach)"
			}
			outs = append(outs, out, "G "+c05Dump(vs), "LOG "+lg, fr)
		} else {
			outs = append(outs, out+" L "+lg)
		}
	}
	return strings.Join(outs, ";") + ";G " + c05Dump(vs)
}

// ---------------------------------------------------------------- directed families

func c05Ind(s string) string { return s }

// scope shapes: outer = a definition placed in the enclosing (non-global) scope, inner = the statements under test
var c05Shapes = []struct {
	name string
	f    func(outer, inner string) string
}{
	{"top", func(o, in string) string { return o + "\n" + in }},
	{"if", func(o, in string) string { return "if true {\n" + o + "\n" + in + "\n}" }},
	{"if-if", func(o, in string) string { return "if true {\n" + o + "\nif 1 {\n" + in + "\n}\nx.mark(a)\n}" }},
	{"for twice", func(o, in string) string { return "for c in [1, 2] {\n" + o + "\n" + in + "\n}" }},
	{"for-if", func(o, in string) string {
		return "for c in [1, 2] {\n" + o + "\nif true {\n" + in + "\n}\nx.mark(a)\n}"
	}},
	{"try-finally", func(o, in string) string {
		return "try {\n" + o + "\n" + in + "\n} finally {\nx.mark(a)\n}"
	}},
	{"except", func(o, in string) string {
		return "try {\nraise(\"E\")\n} except {\n" + o + "\n" + in + "\n}"
	}},
	{"typed except as", func(o, in string) string {
		return "try {\nraise(\"E\", \"d\", 1)\n} except \"X\" {\nx.mark(8)\n} except \"E\" as c {\n" + o + "\n" + in + "\n}\nx.mark(c)"
	}},
	{"typed except, two types", func(o, in string) string {
		return "try {\nraise(\"E2\")\n} except \"E1\", \"E2\" {\n" + o + "\n" + in + "\n}"
	}},
	{"condition loop", func(o, in string) string {
		return "c := 2\nfor c > 0 {\nc := c - 1\n" + o + "\n" + in + "\n}"
	}},
	{"loop with continue and break", func(o, in string) string {
		return "for c in [1, 2, 3, 4] {\nif c == 2 {\ncontinue\n}\n" + o + "\n" + in + "\nif c == 3 {\nbreak\n}\n}"
	}},
	{"otherwise", func(o, in string) string {
		return "try {\nx.mark(0)\n} except {\nx.mark(9)\n} otherwise {\n" + o + "\n" + in + "\n}"
	}},
	{"func twice", func(o, in string) string { return "func f() {\n" + o + "\n" + in + "\n}\nf()\nx.mark(a)\nf()" }},
	{"func param", func(o, in string) string {
		return "func f(a) {\n" + o + "\n" + in + "\n}\nf([5, 6])\nx.mark(a)\nf()"
	}},
	{"func-if", func(o, in string) string {
		return "func f() {\n" + o + "\nif true {\n" + in + "\n}\nx.mark(a)\n}\nf()\nx.mark(a)\nf()"
	}},
	{"closure", func(o, in string) string {
		return "func f() {\n" + o + "\nfunc g() {\n" + in + "\n}\ng()\nx.mark(a)\nreturn g\n}\nc := f()\nx.mark(a)\nc()\nx.mark(a)"
	}},
	{"anonymous closure returned", func(o, in string) string {
		return "func f() {\n" + o + "\nreturn func () {\n" + in + "\nreturn a\n}\n}\nc := f()\nx.mark(c())\nx.mark(c())\nb := f()\nx.mark(b())"
	}},
	{"called from other function", func(o, in string) string {
		return "func g() {\n" + in + "\n}\nfunc f() {\n" + o + "\ng()\nx.mark(a)\n}\nf()"
	}},
}

var c05Assigns = []string{
	"a := 1",
	"let a := 1",
	"[a, b] := [1, 2]",
	"let [a, b] := [1, 2]",
	"a := a",
	"a[0] := 1",
	"a.k := 1",
	"let a[0] := 1",
	"for a in [7, 8] {\nx.mark(a)\n}",
	"func a() {\n}",
	"try {\nraise(\"E\")\n} except as a {\nx.mark(a.type)\n}",
	"try {\nraise(\"E\")\n} except \"E\" as a {\nlet b := 3\nx.mark(a.type, b)\n}",
	"try {\nraise(\"E\")\n} except \"E\" {\nlet a := 2\nlet b := 3\n}",
	"a := [a]",
	"if true {\nlet a := 3\nx.mark(a)\n}",
}

var c05Defs = []struct{ name, global, outer string }{
	{"nowhere", "", ""},
	{"global", "a := [10, 20]", ""},
	{"outer", "", "a := {\"k\": 30}"},
	{"outer let", "a := [10, 20]", "let a := [40]"},
	{"global and outer", "a := 10", "a := 50"},
}

var c05ParamSets = []struct {
	params string
	n      int
}{
	{"", 0}, {"a", 1}, {"a, b", 2}, {"a, b=5", 2}, {"a=1, b=2", 2}, {"a, b=c", 2}, {"a, b=a", 2},
	{"a=x.mark(7), b=x.mark(8)", 2}, {"a, b=[1]", 2}, {"a=c, b, c=3", 3},
	{"a=h(1)", 1}, {"a, b=h(c)", 2}, {"a=h(h(2)), b=h(3)", 2}, {"a=new({\"k\": c})", 1}, {"a=func () {\nreturn c\n}", 1}, {"a=o.m(c)", 1},
}

var c05CallCtx = []struct{ name, pre, post string }{
	{"top", "", ""},
	{"block with local c and a", "if true {\nlet c := 7\nlet a := 8\n", "\n}"},
	{"function with local c", "func g(c) {\n", "\n}\ng(9)"},
	{"loop", "for c in [4, 5] {\n", "\n}"},
}

var c05Directed = []string{
	// closures
	"func g() {\nlet c := 0\nfunc f() {\nc := c + 1\nreturn c\n}\nreturn f\n}\na := g()\nb := g()\nx.mark(a())\nx.mark(a())\nx.mark(b())\nx.mark(c)",
	"func g() {\nc := 0\nreturn func () {\nc := c + 1\nreturn c\n}\n}\na := g()\nb := g()\nx.mark(a())\nx.mark(a())\nx.mark(b())\nx.mark(c)",
	"a := 1\nfunc f() {\nreturn a\n}\nfunc g() {\nlet a := 2\nreturn f()\n}\nx.mark(g())\nx.mark(a)",
	"a := 1\nfunc f() {\nreturn a\n}\nfunc g(a) {\nreturn f()\n}\nx.mark(g(2))\na := 3\nx.mark(g(2))",
	"func f(a) {\nreturn func (b) {\nreturn func (c) {\nreturn [a, b, c]\n}\n}\n}\ng := f(1)\no := g(2)\nx.mark(o(3))\nb := f(4)\nc := b(5)\nx.mark(c(6))\nx.mark(o(7))",
	"func f() {\nlet a := 1\nif true {\nlet a := 2\nfunc g() {\nreturn a\n}\n}\nreturn g\n}\nc := f()\nx.mark(c())",
	"if true {\nlet a := 5\nfunc f() {\na := a + 1\nreturn a\n}\n}\nx.mark(f())\nx.mark(f())\nx.mark(a)",
	"for c in [1, 2, 3] {\nlet a := c\nfunc f() {\nreturn a\n}\nb := add(b, f)\n}\nx.mark(f())",
	"b := []\nfor c in [1, 2, 3] {\nb := add(b, func () {\nreturn c\n})\n}\na := b[0]\nx.mark(a())\na := b[2]\nx.mark(a())",
	// recursion
	"func f(a) {\nif (a > 0) and (a < 6) {\nreturn a + f(a - 1)\n}\nreturn 0\n}\nx.mark(f(3))\nx.mark(f(5))\nx.mark(f(0))\nx.mark(f(\"s\"))",
	"func f(a, b) {\nif (a > 0) and (a < 6) {\nlet c := f(a - 1, add(b, a))\nreturn [a, c]\n}\nreturn len(b)\n}\nx.mark(f(3, []))",
	"func f(a) {\nif (a > 0) and (a < 6) {\nreturn g(a - 1)\n}\nreturn \"f\"\n}\nfunc g(a) {\nif (a > 0) and (a < 6) {\nreturn f(a - 1)\n}\nreturn \"g\"\n}\nx.mark(f(3))\nx.mark(f(4))\nx.mark(g(1))",
	"func f(a) {\nlet b := a\nif (a > 0) and (a < 4) {\nf(a - 1)\n}\nx.mark(a, b)\n}\nf(3)\nx.mark(a, b)",
	// by value / by reference
	"a := 1\nfunc f(b) {\nb := b + 1\nreturn b\n}\nx.mark(f(a))\nx.mark(a)",
	"a := \"s\"\nb := a\nb := \"t\"\nx.mark(a, b)",
	"a := [1, 2]\nfunc f(b) {\nb[0] := 9\n}\nf(a)\nx.mark(a)",
	"a := {\"k\": 1}\nfunc f(b) {\nb.k := 9\nb.j := 8\n}\nf(a)\nx.mark(a)",
	"a := [1, 2]\nfunc f(b) {\nb := [9]\nreturn b\n}\nx.mark(f(a))\nx.mark(a)",
	"a := [1, 2]\nb := a\nb[1] := 7\nx.mark(a, b)\na := [3]\nx.mark(a, b)",
	"a := {1: 2}\nb := a\nc := {\"m\": a}\nc.m[1] := 5\nx.mark(a, b, c)",
	"a := [[1], [2]]\nb := a[0]\nb[0] := 9\nx.mark(a)\nc := [a[1], a[1]]\nc[0][0] := 8\nx.mark(a, c)",
	"a := [1, 2]\nfunc f() {\nreturn a\n}\nb := f()\nb[0] := 5\nx.mark(a)",
	"a := 5\nb := [a]\na := 6\nx.mark(b)\nc := {\"k\": a}\na := 7\nx.mark(c)",
	"a := [1, 2, 3]\nfor b in a {\nb := 9\n}\nx.mark(a)\nfor b in [[1], [2]] {\nb[0] := 9\nx.mark(b)\n}",
	"o := {\"f\": func (a) {\nreturn a + 1\n}}\nx.mark(o.f(1))\ng := o.f\nx.mark(g(2))\nfunc f(b, c) {\nreturn b(c)\n}\nx.mark(f(g, 3))\nx.mark(f(o.f, 4))",
	"func f() {\n}\nx.mark(f())\nx.mark(f)\na := f\nx.mark(a == f)\nfunc g() {\nreturn\n}\nx.mark(g())",
	"func f(a) {\nreturn a\nx.mark(99)\n}\nx.mark(f(1))\nfunc g(a) {\nfor b in [1, 2] {\nif b == a {\nreturn b\n}\n}\nreturn 0\n}\nx.mark(g(2))\nx.mark(g(1))\nx.mark(g(5))",
	// arguments
	"func f(a, b=2, c=3) {\nreturn [a, b, c]\n}\nx.mark(f())\nx.mark(f(7))\nx.mark(f(7, 8))\nx.mark(f(7, 8, 9))\nx.mark(f(7, 8, 9, 10))\nx.mark(f(null, null))",
	"c := 1\nfunc f(a=c) {\nreturn a\n}\nx.mark(f())\nc := 2\nx.mark(f())\nif true {\nlet c := 3\nx.mark(f())\n}\nfunc g() {\nlet c := 4\nreturn f()\n}\nx.mark(g())",
	"func f(a, b=a) {\nreturn [a, b]\n}\na := 5\nx.mark(f(1))\nfunc g(a) {\nreturn f(2)\n}\nx.mark(g(6))",
	"func f(a=x.mark(1), b=x.mark(2)) {\nreturn [a, b]\n}\nf()\nf(5)\nf(5, 6)",
	"func f(a, b=1 + \"s\", c=x.mark(3)) {\nreturn a\n}\nx.mark(f(1, 2))\nx.mark(f(1))",
	"func f(a, a) {\nreturn a\n}\nx.mark(f(1, 2))\nx.mark(f(1))",
	"func f(a) {\nx.mark(a)\na := 2\n}\nf(1)\nf()\nx.mark(a)",
	"func f(a) {\nb := a\nlet c := a\n}\nf(1)\nx.mark(a, b, c)",
	"func f() {\nfunc g() {\nreturn 1\n}\nreturn g() + 1\n}\nx.mark(f())\nx.mark(g)",
	"f := 1\nx.mark(f())",
	"x.mark(f(1))",
	"a := [1]\nx.mark(a(1))",
}

// containers and the keys tried on them
var c05Containers = []string{
	"[10, 20, 30]",
	"{\"k\": 10, \"j\": 20}",
	"{1: 10, 2: 20}",
	"{1: 10, \"1\": 20, \"a.b\": 30, \"k\": 40}",
	"{\"1\": 10, \"-1\": 20}",
	"{-1: 10, 0: 20}",
	"{\"k\": [10, {\"j\": 20}], 1: {2: [30]}, \"a\": {\"b\": 50}}",
	"{1: {\"k\": 10, 1: [11, 12], \"1\": [13]}, \"1\": {\"k\": 20, 1: [21, 22], \"1\": [23]}, \"k\": {1: 30, \"1\": 31}}",
	"[[10, 20], {\"k\": 30, 1: 40}, []]",
	"{}",
	"[]",
	"5",
	"null",
	"\"str\"",
}

var c05Keys = []string{"0", "1", "-1", "2", "3", "-3", "-4", "\"k\"", "\"1\"", "\"a.b\"", "\"zz\"", "\"a\"", "b", "c", "1 + 1", "\"0\"", "\"-1\"", "null", "true"}

var c05Paths2 = []string{
	"a.k", "a.j", "a.zz", "a.k[0]", "a.k[1].j", "a.k[1][\"j\"]", "a[\"k\"][1].j", "a[1][2][0]", "a[1][2][-1]", "a[1][2][1]",
	"a[0][0]", "a[0][-1]", "a[0][2]", "a[1].k", "a[1][1]", "a[1][\"1\"]", "a[1].zz", "a[2][0]", "a.a.b", "a[\"a.b\"]", "a[\"a\"][\"b\"]",
	"a[\"a\"].b", "a.k.j", "a[0].k", "a.zz.k", "a[5][0]", "a[b]", "a[c]", "a[b][b]", "a[1][b]",
	"a[\"1\"].k", "a[1][1][0]", "a[\"1\"][1][0]", "a[1][\"1\"][0]", "a[\"1\"][\"1\"][0]", "a.k[1]", "a.k[\"1\"]", "a[b].k", "a[b][b][0]",
}

var c05ListOps = []string{
	"a := add(a, 4)", "b := add(a, 5)", "c := add(b, 6)", "b := a", "a := add(a, 7, 0)", "b := add(a, 8, 1)", "b := add(a, 9, len(a))",
	"a := del(a, 0)", "b := del(a, 1)", "b := del(a, len(a) - 1)", "c := concat(a, b)", "a := concat(a, [1])", "a[0] := 11", "b[1] := 12",
	"b[-1] := 13", "c[0] := 14", "add(a, 15)", "del(a, 0)", "a := []", "b := [1, 2, 3, 4]",
}

var c05MapOps = []string{
	"b := del(a, 1)", "b := del(a, \"1\")", "del(a, \"k\")", "a[1] := 5", "a[\"1\"] := 6", "a.k := 7", "a[2] := 8", "b := a", "b.j := 9",
	"del(b, \"j\")", "del(a, 2)", "a := {1: 1, \"1\": 2, \"k\": 3}", "a := {}", "a[\"a.b\"] := 10", "del(a, \"a.b\")", "a[1] := null",
}

var c05Objects = []string{
	// single template, no init
	"a := {\"k\": 1, \"m\": func () {\nreturn this.k\n}}\no := new(a)\nx.mark(o.m())\no.k := 5\nx.mark(o.m())\nx.mark(a.k)\nb := new(a)\nx.mark(b.m())",
	// init with arguments
	"a := {\"k\": 1, \"init\": func (b, c=7) {\nthis.k := b\nthis.j := c\nx.mark(b, c)\n}}\no := new(a, 5)\nx.mark(o.k, o.j)\nb := new(a, 1, 2, 3)\nx.mark(b.k, b.j)\nc := new(a)\nx.mark(c.k, c.j)\nx.mark(a.k)",
	// single inheritance, super init through a local
	"a := {\"k\": 1, \"init\": func (b) {\nthis.k := b\nx.mark(1)\n}, \"m\": func () {\nreturn this.k\n}}\nb := {\"super\": [a], \"j\": 2, \"init\": func (b) {\nlet c := super[0]\nc(b + 1)\nthis.j := b\nx.mark(2)\n}}\no := new(b, 10)\nx.mark(o.k, o.j, o.m())\nx.mark(len(o.super))",
	// the idiom of the language reference
	"a := {\"k\": 1, \"init\": func (b) {\nthis.k := b\nx.mark(1)\n}}\nb := {\"super\": [a], \"init\": func (b) {\nsuper[0](b + 1)\nx.mark(2)\n}}\no := new(b, 10)\nx.mark(o.k)",
	// super init not called by the sub class: does not run
	"a := {\"init\": func () {\nx.mark(1)\nthis.k := 1\n}}\nb := {\"super\": [a], \"init\": func () {\nx.mark(2)\n}}\no := new(b)\nx.mark(o.k)",
	// sub class without init: the init of the LAST super template that has one is used (copied property)
	"a := {\"init\": func () {\nx.mark(1)\nthis.k := 1\n}}\nb := {\"init\": func () {\nx.mark(2)\nthis.k := 2\n}}\nc := {\"super\": [a, b]}\no := new(c)\nx.mark(o.k)",
	// multiple inheritance, property override order, methods of all supers
	"a := {\"k\": 1, \"j\": 1, \"m\": func () {\nreturn [this.k, \"a\"]\n}}\nb := {\"k\": 2, \"i\": 2, \"n\": func () {\nreturn [this.k, \"b\"]\n}}\nc := {\"super\": [a, b], \"i\": 3}\no := new(c)\nx.mark(o.k, o.j, o.i)\nx.mark(o.m())\nx.mark(o.n())",
	"a := {\"k\": 1, \"j\": 1, \"m\": func () {\nreturn [this.k, \"a\"]\n}}\nb := {\"k\": 2, \"i\": 2, \"m\": func () {\nreturn [this.k, \"b\"]\n}}\nc := {\"super\": [b, a], \"i\": 3}\no := new(c)\nx.mark(o.k, o.j, o.i)\nx.mark(o.m())",
	// two levels, init list with two entries
	"a := {\"init\": func (c) {\nthis.ka := c\nx.mark(1)\n}}\nb := {\"init\": func (c) {\nthis.kb := c\nx.mark(2)\n}}\nc := {\"super\": [a, b], \"init\": func (c) {\nlet f := super[0]\nlet g := super[1]\ng(c)\nf(c + 1)\nx.mark(len(super))\n}}\no := new(c, 1)\nx.mark(o.ka, o.kb)",
	"a := {\"init\": func (c) {\nthis.ka := c\nx.mark(1)\n}}\nb := {\"super\": [a], \"init\": func (c) {\nlet f := super[0]\nf(c + 1)\nthis.kb := c\nx.mark(2)\n}}\nc := {\"super\": [b], \"init\": func (c) {\nlet f := super[0]\nf(c + 1)\nthis.kc := c\nx.mark(3)\n}}\no := new(c, 1)\nx.mark(o.ka, o.kb, o.kc)",
	// a super template without init gives a null entry
	"a := {\"k\": 1}\nb := {\"super\": [a], \"init\": func () {\nx.mark(super)\nx.mark(len(super))\n}}\no := new(b)\nx.mark(o.k)",
	// objects are independent; templates are not changed; methods see this
	"a := {\"k\": [1], \"j\": 1, \"m\": func (b) {\nthis.j := b\nreturn this\n}}\no := new(a)\nb := new(a)\no.m(5)\nx.mark(o.j, b.j, a.j)\no.k[0] := 9\nx.mark(o.k, b.k, a.k)",
	// method taken out of the object keeps this; template method has no this
	"a := {\"k\": 1, \"m\": func () {\nreturn this\n}}\no := new(a)\no.k := 2\nb := o.m\nc := b()\nx.mark(c.k)\nx.mark(a.m())",
	// errors
	"o := new()",
	"o := new(1)",
	"o := new([1])",
	"a := {\"super\": 1, \"k\": 2}\no := new(a)\nx.mark(o)",
	"a := {\"super\": [1, \"s\", null], \"k\": 2}\no := new(a)\nx.mark(o.k)",
	"a := {\"init\": 5, \"k\": 2}\no := new(a, 1)\nx.mark(o.k, o.init)",
	"a := {\"init\": func () {\nraise(\"E\")\n}}\no := new(a)\nx.mark(o)",
	"a := {\"init\": func () {\nreturn 5\n}}\no := new(a)\nx.mark(o.init == a.init)",
	"c := 5\na := {\"init\": func (b=c) {\nthis.k := b\n}}\no := new(a)\nx.mark(o.k)",
	"c := 5\na := {\"init\": func () {\nthis.k := c\nc := 6\n}}\no := new(a)\nx.mark(o.k, c)",
	"a := {\"init\": func (this) {\nx.mark(this)\n}, \"m\": func () {\nthis := 1\nreturn this\n}}\no := new(a, 3)\nx.mark(o.m())\nx.mark(o.m())",
	"a := {\"init\": func () {\nx.mark(1)\n}}\no := new(a)\nb := new(o)\nx.mark(len(b))",
	"a := {1: 2, \"k\": {\"j\": 1}}\no := new(a)\no.k.j := 2\nx.mark(a.k.j, o[1])",
	// objects used as templates / super templates: their methods and inits are already bound to another object
	"a := {\"k\": 1, \"m\": func () {\nreturn this.k\n}}\no := new(a)\nb := new(o)\nb.k := 7\nx.mark(b.m(), o.m(), a.k)",
	"a := {\"k\": 1, \"m\": func (b) {\nthis.k := b\nreturn this.k\n}}\no := new(a)\nb := new(o)\nb.m(5)\nx.mark(b.k, o.k)\nc := new(b)\nc.m(6)\nx.mark(c.k, b.k, o.k)",
	"a := {\"init\": func (b) {\nthis.k := b\nx.mark(1, b)\n}}\no := new(a, 1)\nb := {\"super\": [o], \"j\": 2}\nc := new(b, 3)\nx.mark(c.k, o.k, c.j)",
	"a := {\"k\": 1, \"init\": func () {\nthis.k := 2\n}, \"m\": func () {\nreturn this.k\n}}\no := new(a)\nb := {\"super\": [o], \"init\": func () {\nlet f := super[0]\nf()\nthis.j := this.m()\n}}\nc := new(b)\no.k := 9\nx.mark(c.k, c.j, c.m(), o.m())",
	"a := {\"k\": 1, \"m\": func () {\nreturn this.k\n}}\no := new(a)\nb := {\"super\": [o, a], \"k\": 3}\nc := new(b)\nx.mark(c.m())\no.k := 8\nx.mark(c.m(), o.m())",
	"a := {\"m\": func () {\nreturn this\n}}\no := new(a)\nb := new(o)\nx.mark(b.m() == b, b.m() == o, o.m() == o)",
}

// user definitions that shadow inbuilt functions (a variable holding a function is resolved before stdlib and inbuilt
// functions of the same name; lexical scoping applies to these names like to any other) and names outside {a,b,c,f,g,o}
var c05Shadow = []string{
	"func %s(a) {\nreturn 99\n}\nx.mark(%s([1, 2]))",
	"%s := func (a) {\nreturn 98\n}\nx.mark(%s([1, 2]))",
	"func f(%s) {\nreturn %s([1, 2])\n}\nx.mark(f(func (a) {\nreturn 97\n}))\nx.mark(f())",
	"if true {\nlet %s := func (a) {\nreturn 96\n}\nx.mark(%s([1, 2]))\n}\nx.mark(%s([1, 2], [3]))",
	"func f() {\nfunc %s(a) {\nreturn 95\n}\nreturn %s([1, 2])\n}\nx.mark(f())\nx.mark(%s([1, 2], [3]))",
	"%s := 5\nx.mark(%s)\nx.mark(%s([1, 2], [3]))",
	"o := {\"%s\": func (a) {\nreturn 94\n}}\nx.mark(o.%s([1, 2]))\nx.mark(%s([1, 2], [3]))",
}

// templates / function literals declared INSIDE a running method, init or function, instantiated and
// called there; afterwards the OUTER this / super / parameters / locals are marked (a call must shadow,
// never overwrite, the variables of the enclosing frames). %s = the inner statements.
var c05OuterCtx = []struct{ name, src string }{
	{"top level", "b := 2\nc := 3\ng := 7\n%s\nx.mark(b, c, g)"},
	{"function", "func f(b, c=3) {\nlet g := 7\n%s\nx.mark(b, c, g)\nreturn [b, c, g]\n}\nx.mark(f(2))\nx.mark(f(2, 6))"},
	{"method", "a := {\"k\": \"outer\", \"j\": 1, \"n\": func (b) {\nthis.j := b\nreturn this.k\n}, \"m\": func (b, c=3) {\nlet g := 7\n%s\nx.mark(this.k, this.j, b, c, g)\nreturn this\n}}\no := new(a)\nc := o.m(2)\nx.mark(c.k, o.k, o.j)\nc := o.m(2, 6)\nx.mark(c.k, a.k)"},
	{"method, inside blocks", "a := {\"k\": \"outer\", \"j\": 1, \"n\": func (b) {\nthis.j := b\nreturn this.k\n}, \"m\": func (b, c=3) {\nlet g := 7\nfor o in [1, 2] {\nif true {\n%s\n}\nx.mark(this.k, b, c, g)\n}\nx.mark(this.k, this.j, b, c, g)\nreturn this\n}}\no := new(a)\nc := o.m(2)\nx.mark(c.k, o.k, o.j)"},
	{"init with super", "b := {\"i\": 0, \"init\": func (b) {\nthis.i := b\n}}\na := {\"super\": [b], \"k\": \"outer\", \"n\": func (b) {\nthis.j := b\nreturn this.k\n}, \"init\": func (b, c=3) {\nlet g := 7\n%s\nx.mark(this.k, len(super), b, c, g)\nsuper[0](b)\nx.mark(this.i)\n}}\no := new(a, 2)\nx.mark(o.k, o.i)"},
	{"closure of a method", "a := {\"k\": \"outer\", \"n\": func (b) {\nreturn this.k\n}, \"m\": func (b, c=3) {\nlet g := 7\nreturn func () {\n%s\nreturn [this.k, b, c, g]\n}\n}}\no := new(a)\nc := o.m(2)\nx.mark(c())\nx.mark(c())"},
}

var c05InnerDecl = []struct{ name, src string }{
	{"helper template, method call", "let f := {\"k\": \"helper\", \"m\": func (b, g=5) {\nthis.j := b\nreturn [this.k, b, g]\n}}\nlet a := new(f)\nx.mark(a.m(4))\nx.mark(a.j, a.k)"},
	{"helper method assigns an outer variable", "let f := {\"k\": \"helper\", \"m\": func (b) {\nc := 9\nlet g := 8\nreturn this.k\n}}\nlet a := new(f)\nx.mark(a.m(4))"},
	{"helper init with arguments", "let f := {\"k\": \"helper\", \"init\": func (b, c) {\nthis.k := [b, c]\n}}\nlet a := new(f, 4, 5)\nx.mark(a.k)"},
	{"helper with super and init", "let f := {\"init\": func (b) {\nthis.i := b\n}}\nlet a := {\"super\": [f], \"init\": func (b) {\nsuper[0](b + 1)\nthis.j := len(super)\n}}\nlet a := new(a, 4)\nx.mark(a.i, a.j)"},
	{"function literal, parameters named like outer variables", "let f := func (b, c, g) {\nb := b + 1\nreturn [b, c, g]\n}\nx.mark(f(10, 20, 30))\nx.mark(f(10))"},
	{"named function, default reads the caller's variable", "func f(b, c=b) {\nlet g := 8\nreturn [b, c, g]\n}\nx.mark(f(10))\nx.mark(f())"},
	{"function literal with parameters this / super", "let f := func (this, super) {\nreturn [this, super]\n}\nx.mark(f(1, 2))\nx.mark(f())"},
	{"method of the outer object", "x.mark(this.n(4))"},
	{"two levels of helpers", "let f := {\"k\": \"h1\", \"m\": func () {\nlet f := {\"k\": \"h2\", \"m\": func () {\nreturn this.k\n}}\nlet a := new(f)\nx.mark(a.m())\nreturn this.k\n}}\nlet a := new(f)\nx.mark(a.m())"},
	{"helper instantiated twice, second call after the first returned", "let f := {\"k\": 0, \"m\": func (b) {\nthis.k := this.k + b\nreturn this.k\n}}\nlet a := new(f)\nlet o := new(f)\nx.mark(a.m(1), o.m(10), a.m(100))"},
	{"recursive helper method", "let f := {\"k\": \"helper\", \"m\": func (b) {\nif (b > 0) and (b < 4) {\nreturn [b, this.m(b - 1)]\n}\nreturn this.k\n}}\nlet a := new(f)\nx.mark(a.m(2))"},
}

// calls of a call result — known finding call-result-not-callable (candidate repair:
// fixes/C05-call-of-call-result.patch): `f()(x)` yields the value of `f()`; every call after the first funccall of an
// identifier node is silently dropped (resolveFunction stops after the first funccall child, functionResolved keeps
// what follows the LAST one). The model does not evaluate chains after a call itself, so a case carries three
// programs "<chained> ~ <as is> ~ <spec>": the real code runs the chained form; the model runs `asis` (the chained
// form with the dropped calls removed = the code as it is; the main result, marked kf=call-result-not-callable) and
// `plain` (the meaning: `let t := f(); t(x)` in a block of its own; attached as spec=). asis == "" : nothing is
// dropped in that program (calls on a LATER identifier of the chain work), no kf.
var c05Chains = []struct{ pre, chained, asis, plain string }{
	{"func f() {\nreturn func (a) {\nreturn [7, a]\n}\n}\na := 5", "x.mark(f()(1))\nx.mark(f()(a))\nx.mark(f()(f))", "x.mark(f())\nx.mark(f())\nx.mark(f())", "let c := f()\nx.mark(c(1))\nlet c := f()\nx.mark(c(a))\nlet c := f()\nx.mark(c(f))"},
	{"func f() {\nreturn func () {\nreturn func (a) {\nreturn a\n}\n}\n}", "x.mark(f()()(3))", "x.mark(f())", "let c := f()\nlet b := c()\nx.mark(b(3))"},
	{"o := {\"m\": func () {\nreturn {\"k\": 5, \"n\": func (b) {\nreturn b + 1\n}}\n}}", "x.mark(o.m().n(2))", "", "let c := o.m()\nx.mark(c.n(2))"},
	{"func f() {\nreturn func () {\nreturn 4\n}\n}\na := [f]", "x.mark(a[0]()())", "x.mark(a[0]())", "let c := a[0]()\nx.mark(c())"},
	{"func f() {\nreturn 1\n}", "x.mark(f()(2))", "x.mark(f())", "let c := f()\nx.mark(c(2))"},
	{"func f() {\nraise(\"E\")\n}", "x.mark(f()(2))", "", "let c := f()\nx.mark(c(2))"},
	{"c := 9\nfunc f() {\nreturn func (a, b=c) {\nreturn [a, b]\n}\n}", "x.mark(f()(1))\nx.mark(f()(1, 2))", "x.mark(f())\nx.mark(f())", "let g := f()\nx.mark(g(1))\nlet g := f()\nx.mark(g(1, 2))"},
	{"o := 0\nfunc f(a) {\nreturn func (b) {\nreturn func (c) {\nreturn [a, b, c]\n}\n}\n}", "x.mark(f(1)(2)(3))\no := f(4)(5)\nx.mark(o(6))", "x.mark(f(1))\no := f(4)\nx.mark(o(6))", "let g := f(1)\nlet c := g(2)\nx.mark(c(3))\nlet g := f(4)\no := g(5)\nx.mark(o(6))"},
	{"a := {\"k\": 1, \"m\": func () {\nreturn this\n}, \"n\": func (b) {\nthis.k := b\nreturn this.k\n}}\no := new(a)", "x.mark(o.m().n(3))\nx.mark(o.k)", "", "let c := o.m()\nx.mark(c.n(3))\nx.mark(o.k)"},
	// the ARGUMENTS of a call that follows a call result are evaluated in the parentless funcresult scope: every
	// variable in them reads null (literals work)
	{"a := 5\no := {\"m\": func () {\nreturn {\"n\": func (b, c=1) {\nreturn [b, c]\n}}\n}}", "x.mark(o.m().n(a))\nx.mark(o.m().n(a, a))", "if true {\nlet c := o.m()\nx.mark(c.n(null))\nlet c := o.m()\nx.mark(c.n(null, null))\n}", "let c := o.m()\nx.mark(c.n(a))\nlet c := o.m()\nx.mark(c.n(a, a))"},
	{"o := {\"m\": func () {\nreturn {\"n\": func (b) {\nreturn [b]\n}}\n}}", "func f(c) {\nreturn o.m().n(c)\n}\nx.mark(f(7))", "func f(c) {\nlet a := o.m()\nreturn a.n(null)\n}\nx.mark(f(7))", "func f(c) {\nlet a := o.m()\nreturn a.n(c)\n}\nx.mark(f(7))"},
}

// distinct blocks share ONE scope when their (node kind, line, pos) coincide — known finding
// block-scope-shared-by-position: the segments of one interpolating literal and separately parsed sources (a
// program and its probes, console lines) all start at Line 1 Pos 1. {program, probe} as they are / with the leaked
// name replaced by what a block-local name is outside its block (undefined = null)
var c05BlockShare = []struct{ prog, probe, specProg, specProbe string }{
	{"c := '{{if true { let a := 1 } }} {{if true { x.mark(a) } }}'\nx.mark(c)", "c", "c := '{{if true { let a := 1 } }} {{if true { x.mark(null) } }}'\nx.mark(c)", "c"},
	{"if true {\nlet a := 1\n}", "if true {\nx.mark(a)\n}", "if true {\nlet a := 1\n}", "if true {\nx.mark(null)\n}"},
	{"for b in [1] {\nlet a := 2\n}\nx.mark(a)", "for b in [1] {\nx.mark(a)\n}", "for b in [1] {\nlet a := 2\n}\nx.mark(a)", "for b in [1] {\nx.mark(null)\n}"},
	{"try {\nlet a := 3\n} finally {\nlet b := 4\n}", "try {\nx.mark(a)\n} finally {\nx.mark(b)\n}", "try {\nlet a := 3\n} finally {\nlet b := 4\n}", "try {\nx.mark(null)\n} finally {\nx.mark(null)\n}"},
}

// ---------------------------------------------------------------- random programs

// c05Rand builds random programs. Termination by construction: `func f` bodies call only g
// (and builtins), `func g` / anonymous / method bodies call nothing but builtins; the names
// f and g are only ever bound by such declarations; variables holding functions are called
// at top level only; loops run over short literal lists.
type c05Rand struct {
	r     *Rand
	mk    int
	level int // 0 = top level, 1 = body of f, 2 = body of g / closure / method
	inFn  bool
}

func (g *c05Rand) pick(xs ...string) string { return xs[g.r.Intn(len(xs))] }
func (g *c05Rand) p(permille int) bool      { return g.r.Intn(1000) < permille }
func (g *c05Rand) v() string                { return g.pick("a", "b", "c", "a", "b", "o") }

// safe: values that may be stored INTO an existing container (never an existing container: no cycles —
// a cyclic value that gets stringified, e.g. by `return this`, overflows the Go stack: known finding of C06)
func (g *c05Rand) safe() string {
	return g.pick("1", "2", "7", "\"s\"", "\"k\"", "null", "true", "[1, 2]", "[]", "{\"k\": 1}", "{1: \"x\"}", "len(a)", "1 + 2", "f", "[[3], 4]")
}

func (g *c05Rand) key() string {
	return g.pick("0", "1", "-1", "2", "5", "\"k\"", "\"1\"", "\"j\"", "\"a.b\"", "1", "0", "\"k\"")
}

func (g *c05Rand) path() string {
	v := g.v()
	switch g.r.Intn(8) {
	case 0, 1:
		return v + "[" + g.key() + "]"
	case 2:
		return v + "." + g.pick("k", "j", "m")
	case 3:
		return v + "[" + g.key() + "][" + g.key() + "]"
	case 4:
		return v + "." + g.pick("k", "j") + "[" + g.key() + "]"
	case 5:
		return v + "[" + g.key() + "]." + g.pick("k", "j")
	case 6:
		return v + "[" + g.pick("a", "b", "c") + "]"
	}
	return v + "[" + g.key() + "]"
}

func (g *c05Rand) lit() string {
	return g.pick("0", "1", "2", "3", "\"s\"", "\"k\"", "\"1\"", "null", "true", "[1, 2, 3]", "[]", "{\"k\": 1, \"j\": [2]}", "{1: \"x\", \"1\": \"y\"}",
		"[[1], {\"k\": 2}]", "{\"a.b\": 1, \"k\": {\"j\": 3}}", "{}", "[a, b]", "{\"k\": a}", "[c]",
		"{1: {\"k\": 1}, \"1\": {\"k\": 2}}", "{1: [1, 2], \"1\": [3, 4], \"k\": {1: 5, \"1\": 6}}")
}

func (g *c05Rand) call() string {
	args := g.pick("", "1", "a", "a, b", "1, 2, 3", "b, 2", "c", "[1], {\"k\": 2}")
	switch g.level {
	case 0:
		return g.pick("f", "g", "f", "g", "a", "b", "c", "o.m", "o.k") + "(" + args + ")"
	case 1:
		return "g(" + args + ")"
	}
	return g.pick("len(a)", "len(b)", "1")
}

func (g *c05Rand) expr(d int) string {
	r := g.r.Intn(100)
	switch {
	case d <= 0 || r < 25:
		if g.r.Bool() {
			return g.v()
		}
		return g.lit()
	case r < 40:
		return g.path()
	case r < 52:
		return g.call()
	case r < 62:
		return "(" + g.expr(d-1) + " " + g.pick("+", "-", "+", "==", "!=", "<", ">") + " " + g.expr(d-1) + ")"
	case r < 70:
		return g.pick("len("+g.v()+")", "len("+g.path()+")", "add("+g.v()+", "+g.safe()+")", "add("+g.v()+", "+g.safe()+", "+g.pick("0", "1", "len(a)")+")",
			"del("+g.v()+", "+g.key()+")", "concat("+g.v()+", "+g.v()+")", "concat(a, [1], b)")
	case r < 78:
		if g.level >= 2 {
			return g.lit()
		}
		old := g.level
		g.level = 2
		oldFn := g.inFn
		g.inFn = true
		s := "func (" + g.pick("", "a", "a, b=2", "c=a") + ") {\n" + g.stmts(1) + "\nreturn " + g.expr(1) + "\n}"
		g.level, g.inFn = old, oldFn
		return s
	case r < 84:
		return "[" + g.expr(d-1) + ", " + g.expr(d-1) + "]"
	case r < 90:
		return "{" + g.pick("\"k\"", "1", "\"1\"", "\"j\"") + ": " + g.expr(d-1) + ", " + g.pick("\"m\"", "2", "\"a.b\"") + ": " + g.expr(d-1) + "}"
	default:
		return "x.mark(" + g.expr(d-1) + ")"
	}
}

func (g *c05Rand) mark() string {
	g.mk++
	return fmt.Sprintf("x.mark(%d, %s)", g.mk, g.pick("a", "b", "c", "o", "a, b", "len(a)", "[a, b, c]"))
}

func (g *c05Rand) simple() string {
	switch g.r.Intn(16) {
	case 0, 1, 2:
		return g.v() + " := " + g.expr(2)
	case 3, 4:
		return "let " + g.v() + " := " + g.expr(2)
	case 5, 6, 7:
		return g.path() + " := " + g.safe()
	case 8, 9, 10:
		return g.mark()
	case 11:
		return g.pick("[a, b] := ["+g.expr(1)+", "+g.expr(1)+"]", "let [b, c] := [1, a]", "[a, b] := c", "[a, b] := [b, a]")
	case 12:
		return g.v() + " := " + g.pick("add(a, "+g.safe()+")", "del(a, 0)", "concat(a, b)", "add(b, "+g.safe()+", 0)", "del(o, \"k\")", "del(b, "+g.key()+")")
	case 13:
		if g.inFn {
			return "return " + g.expr(1)
		}
		return g.mark()
	case 14:
		return g.call()
	default:
		return "x.mark(" + g.expr(2) + ")"
	}
}

func (g *c05Rand) block(d int) string { return "{\n" + g.stmts(d-1) + "\n}" }

func (g *c05Rand) stmt(d int) string {
	r := g.r.Intn(100)
	if d <= 0 || r < 45 {
		return g.simple()
	}
	switch {
	case r < 57:
		s := "if " + g.pick("true", "false", "a", "a == 1", "len(a) > 1", "b", "1") + " " + g.block(d)
		if g.p(400) {
			s += " else " + g.block(d)
		}
		return s
	case r < 67:
		return "for " + g.pick("a in [1, 2]", "b in a", "c in [[1], [2]]", "[b, c] in o", "[a, b] in o", "c in b", "a in range(1, 2)") + " " + g.block(d)
	case r < 72:
		return "try " + g.block(d) + " except " + g.pick("", "as c ", "as a ", "\"Runtime error\" as c ", "\"Invalid state\", \"Runtime error\" ", "\"E\" as a ") + g.block(d) + g.pick("", " finally "+g.block(d), " except as b "+g.block(d))
	case r < 90:
		if g.level >= 2 {
			return g.simple()
		}
		old, oldFn := g.level, g.inFn
		name := "g"
		if old == 0 && g.r.Bool() {
			name = "f"
			g.level = 1
		} else {
			g.level = 2
		}
		g.inFn = true
		s := "func " + name + "(" + g.pick("", "a", "a, b", "a, b=5", "a=1, b=c", "c", "b=a") + ") " + g.block(d)
		g.level, g.inFn = old, oldFn
		return s
	default:
		if g.level != 0 {
			return g.simple()
		}
		// object template + instance
		old, oldFn := g.level, g.inFn
		g.level, g.inFn = 2, true
		m := "func (" + g.pick("", "a", "b=1") + ") {\n" + g.pick("return this.k", "this.k := "+g.safe()+"\nreturn this", "return [this.k, this.j]", "this.j := len(a)\nreturn this.j", g.stmts(1)) + "\n}"
		ini := ""
		if g.p(500) {
			ini = ", \"init\": func (" + g.pick("", "a", "a, b=2") + ") {\n" + g.pick("this.k := "+g.safe(), "this.j := [1, "+g.safe()+"]", "x.mark(this)", g.stmts(1)) + "\n}"
		}
		g.level, g.inFn = old, oldFn
		sup := ""
		if g.p(400) {
			sup = ", \"super\": " + g.pick("[a]", "[a, b]", "[b]", "[o]", "[]")
		}
		t := g.pick("a", "b", "c", "o")
		return t + " := {\"k\": " + g.safe() + ", \"m\": " + m + ini + sup + "}\no := new(" + t + g.pick("", ", 1", ", 2, 3") + ")" +
			g.pick("", "", "\nb := new(o)\nb.k := 7\nx.mark(b.m(1), o.m(1))", "\nc := {\"super\": [o], \"j\": 1}\nb := new(c, 4)\nx.mark(b.k, b.m(2), o.k)")
	}
}

func (g *c05Rand) stmts(d int) string {
	n := 1 + g.r.Intn(3)
	p := make([]string, n)
	for i := range p {
		p[i] = g.stmt(d)
	}
	return strings.Join(p, "\n")
}

func (g *c05Rand) program(d int) string {
	g.mk, g.level, g.inFn = 0, 0, false
	pre := g.pick("a := [1, 2, 3]\nb := {\"k\": 1, 1: [4]}\nc := 5\n", "a := 1\nb := \"s\"\n", "",
		"a := {\"k\": {\"j\": [1, 2]}, 1: 2}\nb := a\nc := [a]\n", "a := [[1, 2], [3]]\nb := a[0]\no := {\"k\": a, \"m\": func (a) {\nreturn a\n}}\n",
		"func f(a, b=2) {\nreturn [a, b]\n}\nfunc g(a) {\na[0] := 9\nreturn a\n}\na := [1]\n")
	n := 2 + g.r.Intn(4)
	p := make([]string, n)
	for i := range p {
		p[i] = g.stmt(d)
	}
	return pre + strings.Join(p, "\n")
}

// ---------------------------------------------------------------- registration

func init() {
	register("C05", &Prop{
		Timeout: 60 * time.Second,
		Setup:   c05Setup,
		Gen: func(g *Gen) {
			lz := NewEvLazy(g)
			emit := func(kind string, prog string, probes ...string) {
				g.Count(kind)
				lz.Emit(func() string {
					secs := []string{evPayload(prog)}
					for _, p := range probes {
						secs = append(secs, evPayload(p))
					}
					return strings.Join(secs, c05Sep)
				})
			}
			std := []string{"a", "b", "c", "o", "[len(a), len(b)]"}

			// (0) corpus: the repaired defect (numeric key written through m[1] := v) and relatives
			for _, s := range []string{
				"a := {1: \"a\"}\na[1] := \"b\"",
				"a := {1: \"a\"}\na[1] := \"b\"\nx.mark(a[1])\nx.mark(len(a))",
				"a := {\"k\": {1: \"a\"}}\na.k[1] := \"b\"\nx.mark(a.k[1])",
				"a := [{2: 1}]\na[0][2] := 5\nx.mark(a[0][2], len(a[0]))",
				"a := {1: 1, \"1\": 2}\na[1] := 3\na[\"1\"] := 4\nx.mark(a)",
				"a := {\"1\": 2}\na[1] := 3\nx.mark(a, a[1], a[\"1\"])",
				"a := {}\na[1] := 3\nx.mark(a, a[1], a[\"1\"])",
				"a := {-1: 2}\na[-1] := 3\nx.mark(a, a[-1])",
			} {
				emit("corpus", s, "a[1]", "a", "len(a)")
			}
			// review findings (model had differed from the code): one-target destructuring, cyclic / diamond / deep
			// super graphs, number keys at the edge of int64
			for _, s := range []string{
				"[a] := [5]", "let [a] := [5]", "[a] := [1, 2]", "[a] := 7", "[a] := null", "[a] := []", "let [a] := 7\nx.mark(a)",
				"func f() {\n[a] := [1, 2]\nreturn a\n}\nx.mark(f())\nx.mark(a)", "b := [0]\n[b[0]] := [5]\nx.mark(b)", "[a, b] := [5]", "[] := []",
				"if true {\nlet [a] := [5]\nx.mark(a)\n}\nx.mark(a)", "for [a] in [[1], [2]] {\nx.mark(a)\n}",
				"a := {\"k\": 1}\na.super := [a]\no := new(a)\nx.mark(o)",
				"a := {\"k\": 1}\nb := {\"super\": [a], \"j\": 2}\na.super := [b]\no := new(b)\nx.mark(o)",
				"a := {\"k\": 1, \"init\": func () {\nx.mark(1)\n}}\na.super := [a]\no := new(a)\nx.mark(o.k)",
				"a := {\"k\": 1}\na.super := [a, {\"j\": 2}]\ntry {\no := new(a)\n} except as c {\nx.mark(c.type)\n}\nx.mark(o)",
				"a := {\"k\": 1, \"i\": 1}\nb := {\"super\": [a], \"j\": 2, \"i\": 2}\nc := {\"super\": [a], \"h\": 3, \"i\": 3}\no := {\"super\": [b, c], \"g\": 4}\no := new(o)\nx.mark(o.k, o.j, o.h, o.g, o.i)",
				"a := {\"k\": 1, \"i\": 1}\nb := {\"super\": [a], \"j\": 2, \"i\": 2}\nc := {\"super\": [a], \"h\": 3, \"i\": 3}\no := {\"super\": [c, b], \"g\": 4}\no := new(o)\nx.mark(o.k, o.j, o.h, o.g, o.i)",
				"a := {\"k\": 1, \"init\": func (c) {\nthis.ka := c\n}}\nb := {\"super\": [a], \"init\": func (c) {\nsuper[0](c + 1)\nthis.kb := c\n}}\nc := {\"super\": [b], \"init\": func (c) {\nsuper[0](c + 1)\nthis.kc := c\n}}\no := {\"super\": [c], \"init\": func (c) {\nsuper[0](c + 1)\nthis.ko := c\n}}\no := new(o, 1)\nx.mark(o.ka, o.kb, o.kc, o.ko, o.k)",
				"a := {\"k\": 1, \"init\": func () {\nx.mark(1)\n}}\nb := {\"super\": [a]}\nc := {\"super\": [a]}\no := {\"super\": [b, c], \"init\": func () {\nx.mark(len(super), super[0] == super[1])\nlet f := super[0]\nf()\n}}\no := new(o)",
				"a := {1: \"x\", 2: {\"k\": 3}, \"m\": func () {\nreturn this[1]\n}}\no := new(a)\nx.mark(o.m(), o[2].k)\no[1] := \"y\"\nx.mark(o.m(), a[1])",
				"a := {1000000000000000000: 1}\nx.mark(a[\"1000000000000000000\"])\na[\"1000000000000000000\"] := 2\nx.mark(a, len(a))",
				"a := {9223372036854775807: 1, \"9223372036854775808\": 2}\nx.mark(a[\"9223372036854775807\"], a[\"9223372036854775808\"])\na[\"9223372036854775808\"] := 3\nx.mark(len(a))",
				"a := {\"-9223372036854775808\": 1, \"-9223372036854775809\": 2, \"+5\": 3, 5: 4, \"005\": 5}\nx.mark(a[\"-9223372036854775808\"], a[\"-9223372036854775809\"], a[\"+5\"], a[\"005\"], a[5])",
				"a := [1, 2, 3]\nx.mark(a[\"+1\"], a[\"01\"], a[\"-1\"])\na[\"-0\"] := 9\nx.mark(a)\nx.mark(a[\"99999999999999999999\"])",
				"a := [1, 2, 3]\na[\"9223372036854775807\"] := 1",
			} {
				emit("corpus (review)", s, "a", "b", "o")
			}
			// the inputs of the add / del repairs (fixes/C05-add-del-new-list.patch, fixes/C05-del-number-key.patch):
			// add and del return NEW lists, del(map, k) removes an existing number key
			for _, s := range []string{
				"a := [1, 2, 3]\nb := add(a, 4)\nc := add(a, 5)\nx.mark(a, b, c)",
				"a := [1, 2, 3]\nb := del(a, 0)\nx.mark(a, b)",
				"a := [1, 2, 3]\nb := add(a, 9, 0)\nx.mark(a, b)\nc := add(a, 8, 3)\nx.mark(a, b, c)",
				"a := {1: \"a\"}\nb := del(a, 1)\nx.mark(len(a), a, b)",
				"a := {1: \"a\", \"1\": \"b\"}\ndel(a, 1)\nx.mark(a)\ndel(a, 1)\nx.mark(a)",
				"a := {1: \"a\", \"1\": \"b\"}\ndel(a, \"1\")\nx.mark(a)\ndel(a, \"1\")\nx.mark(a)",
				"a := {\"1\": \"b\", 2: \"c\"}\ndel(a, 1)\ndel(a, \"2\")\nx.mark(a, len(a))",
				"a := [1, 2, 3]\nb := a\nc := add(a, 4)\nc[0] := 9\nx.mark(a, b, c)\nb := del(c, 3)\nb[1] := 8\nx.mark(a, b, c)",
				"a := [[1], [2]]\nb := add(a, [3])\nb[0][0] := 9\nx.mark(a, b)\nc := del(b, 2)\nc[1][0] := 8\nx.mark(a, b, c)",
				"a := []\nfor c in [1, 2, 3, 4, 5] {\nb := a\na := add(a, c)\nx.mark(a, b)\n}\na := del(del(a, 0), 0)\nx.mark(a)",
				"func f(a) {\nreturn add(a, 0)\n}\na := [1]\nb := f(a)\nc := f(a)\nb[1] := 7\nx.mark(a, b, c)",
				"a := [1]\nb := del(a, 0)\nx.mark(a, b, b == [], len(b))\nc := add(b, 5)\nx.mark(b, c)",
			} {
				emit("corpus (add / del repairs)", s, "a", "b", "c")
			}
			// (1) scope shape x assignment form x where the name was defined
			for _, df := range c05Defs {
				for _, sh := range c05Shapes {
					if sh.name == "top" && df.outer != "" {
						continue
					}
					for _, as := range c05Assigns {
						inner := "x.mark(a)\n" + as + "\nx.mark(a)"
						prog := df.global + "\n" + sh.f(df.outer, inner) + "\nx.mark(a, b)"
						emit("exhaustive scope shape x assignment form x definition place", strings.TrimLeft(prog, "\n"), "a", "b", "c")
					}
				}
			}
			// (1b) the child scope of an interpolating string literal (one statement per literal, no quotes inside)
			for _, df := range c05Defs {
				for _, as := range c05Assigns {
					if strings.ContainsAny(as, "\n\"'") {
						continue
					}
					for _, pre := range []string{"", "if true {\n", "func f() {\n"} {
						post := ""
						if pre != "" {
							post = "\n}"
						}
						if strings.HasPrefix(pre, "func") {
							post += "\nf()\nf()"
						}
						prog := df.global + "\n" + pre + df.outer + "\nc := '{{x.mark(a)}} {{" + as + "}} {{x.mark(a)}}'\nx.mark(a, c)\nc := '{{x.mark(a)}}'" + post + "\nx.mark(a, b)"
						emit("exhaustive interpolation child scope x assignment form x definition place", strings.TrimLeft(prog, "\n"), "a", "b", "c")
					}
				}
			}
			// (2) parameters x defaults x argument count x call context
			for _, ps := range c05ParamSets {
				for k := 0; k <= ps.n+1; k++ {
					args := make([]string, k)
					for i := range args {
						args[i] = fmt.Sprint(11 + i)
					}
					for _, cx := range c05CallCtx {
						prog := "a := 1\nb := 2\nc := 3\no := {\"m\": func (a) {\nx.mark(6, a)\nreturn [a]\n}}\nfunc h(a) {\nx.mark(9, a)\nreturn [a]\n}\nfunc f(" + ps.params + ") {\nreturn [a, b, c]\n}\n" + cx.pre + "x.mark(f(" + strings.Join(args, ", ") + "))" + cx.post
						// what the property demands of defaults (lexical: declaration scope + earlier parameters): the same call
						// with every missing argument computed by a top-level helper d<j>(earlier parameters) — known finding
						// defaults-in-caller-scope where the code as it is (defaults evaluated in the CALLER's scope) differs
						var names, helpers, lets, ts []string
						for j, pd := range strings.Split(ps.params, ", ") {
							if pd == "" {
								continue
							}
							nmDef := strings.SplitN(pd, "=", 2)
							t := fmt.Sprintf("t%d", j+1)
							switch {
							case j < k:
								lets = append(lets, "let "+t+" := "+args[j])
							case len(nmDef) == 2:
								helpers = append(helpers, fmt.Sprintf("func d%d(%s) {\nreturn %s\n}\n", j+1, strings.Join(names, ", "), nmDef[1]))
								lets = append(lets, fmt.Sprintf("let %s := d%d(%s)", t, j+1, strings.Join(ts, ", ")))
							default:
								lets = append(lets, "let "+t+" := null")
							}
							names = append(names, nmDef[0])
							ts = append(ts, t)
						}
						callArgs := append([]string{}, ts...)
						if k > len(ts) {
							callArgs = append(callArgs, args[len(ts):]...)
						}
						specProg := strings.Replace(prog, "func f(", strings.Join(helpers, "")+"func f(", 1)
						specProg = strings.Replace(specProg, "x.mark(f("+strings.Join(args, ", ")+"))",
							"if true {\n"+strings.Join(lets, "\n")+"\nx.mark(f("+strings.Join(callArgs, ", ")+"))\n}", 1)
						g.Count("exhaustive parameters x defaults x argument count x call context")
						lz.Emit(func() string {
							return evPayload(prog) + c05Alt + evPayload(specProg) + c05Alt + "#defaults-in-caller-scope" + c05Sep + evPayload("[a, b, c]")
						})
					}
				}
			}
			// (3) closures, recursion, by value / by reference, arguments (directed)
			for _, s := range c05Directed {
				emit("directed closures/recursion/aliasing/arguments", s, std...)
			}
			// (4) container x key x access form x read|write
			for _, cn := range c05Containers {
				pre := "a := " + cn + "\nb := 1\nc := \"k\"\n"
				var paths []string
				for _, k := range c05Keys {
					paths = append(paths, "a["+k+"]")
				}
				paths = append(paths, c05Paths2...)
				for _, p := range paths {
					emit("exhaustive container x key x access: read", pre+"x.mark("+p+")", p, "a")
					emit("exhaustive container x key x access: write then read", pre+p+" := 99\nx.mark("+p+")\nx.mark(a)", p, "a", "len(a)")
					if g.Thorough() {
						emit("exhaustive container x key x access: write null / container", pre+p+" := null\nx.mark("+p+")\n"+p+" := [1]\nx.mark("+p+")", p, "a")
						emit("exhaustive container x key x access: let write", pre+"if true {\nlet "+p+" := 98\nx.mark("+p+")\n}\nx.mark(a)", p, "a")
					}
				}
			}
			// (5) len / add / del / concat sequences (slices alias like Go slices)
			nl := len(c05ListOps)
			for i := 0; i < nl; i++ {
				for j := 0; j < nl; j++ {
					if !g.Thorough() && (i*7+j*3)%4 != int(g.Seed%4) {
						continue
					}
					for _, start := range []string{"a := [1, 2, 3]\nb := [7]\nc := a", "a := []\nb := a\nc := [1]"} {
						prog := start + "\n" + c05ListOps[i] + "\nx.mark(a, b, c)\n" + c05ListOps[j] + "\nx.mark(a, b, c)\nx.mark(len(a), len(b), len(c))"
						emit("list builtin pairs", prog, "a", "b", "c")
					}
				}
			}
			if g.Thorough() {
				for i := 0; i < nl; i++ {
					for j := 0; j < nl; j++ {
						for k := 0; k < nl; k++ {
							prog := "a := [1, 2, 3]\nb := [7]\nc := a\n" + c05ListOps[i] + "\n" + c05ListOps[j] + "\nx.mark(a, b, c)\n" + c05ListOps[k] + "\nx.mark(a, b, c)"
							emit("list builtin triples", prog, "[len(a), len(b), len(c)]")
						}
					}
				}
			}
			for i := range c05MapOps {
				for j := range c05MapOps {
					prog := "a := {1: 1, \"k\": 2, \"j\": 3}\nb := {}\n" + c05MapOps[i] + "\nx.mark(a, b, len(a))\n" + c05MapOps[j] + "\nx.mark(a, b, len(a), len(b))"
					emit("map builtin pairs", prog, "a", "b", "[a[1], a[\"1\"], a.k]")
				}
			}
			for _, s := range []string{"len()", "len(1)", "len(\"s\")", "len(null)", "add()", "add([1])", "add(1, 2)", "add({}, 1)", "del()", "del([1])", "del(1, 2)", "del([1], 1)",
				"del([1], -1)", "del([1], \"0\")", "add([1], 2, 2)", "add([1], 2, -1)", "add([1], 2, \"0\")", "concat()", "concat([1])", "concat([1], 2)", "concat([1], [2], {})",
				"concat([], [])", "len(concat([1], [2, 3], []))", "type(1)", "type([1, null])", "type(null)", "type()", "type(\"s\")", "type(true)", "del({1: 2}, 1)", "del({\"1\": 2}, 1)", "len({1: 2, \"1\": 3})", "len([[1, 2]])", "add([1], [2])", "add([], null)"} {
				emit("builtin argument checks", "a := "+s+"\nx.mark(a)", "a")
			}
			// (6) objects
			for _, s := range c05Objects {
				emit("directed objects", s, "o", "a", "b")
			}
			// (6a) user definitions shadowing inbuilt names, and other names
			for _, nm := range []string{"len", "add", "del", "concat", "new", "type", "range", "raise", "myfunc", "x", "this"} {
				for _, t := range c05Shadow {
					emit("exhaustive shadowing form x inbuilt name", strings.ReplaceAll(t, "%s", nm), nm, "f")
				}
			}
			// (6b) declarations inside a running method / init / function, probes of the outer frame afterwards
			for _, oc := range c05OuterCtx {
				for _, in := range c05InnerDecl {
					emit("exhaustive outer context x inner declaration (nested this/super/params)", fmt.Sprintf(oc.src, in.src), "o", "a", "[b, c, g]", "f")
				}
			}
			// (6d) distinct blocks with coinciding positions (known finding block-scope-shared-by-position)
			for _, bs := range c05BlockShare {
				bs := bs
				g.Count("directed blocks sharing a scope by position (known finding; spec = block-local names stay local)")
				lz.Emit(func() string {
					return evPayload(bs.prog) + c05Alt + evPayload(bs.specProg) + c05Alt + "#block-scope-shared-by-position" + c05Sep +
						evPayload(bs.probe) + c05Alt + evPayload(bs.specProbe) + c05Alt + "#block-scope-shared-by-position" + c05Sep + evPayload("a")
				})
			}
			// (6c) calls of a call result: chained form for the real code, let-desugaring for the model
			for _, ch := range c05Chains {
				for _, cx := range []struct{ pre, post string }{{"", ""}, {"func g() {\n", "\n}\ng()"}, {"for b in [1] {\n", "\n}"}} {
					goSrc := ch.pre + "\n" + cx.pre + ch.chained + cx.post
					specSrc := ch.pre + "\n" + cx.pre + "if true {\n" + ch.plain + "\n}" + cx.post
					asisSrc := ""
					if ch.asis != "" {
						asisSrc = ch.pre + "\n" + cx.pre + ch.asis + cx.post
					}
					g.Count("directed call of a call result (known finding call-result-not-callable; spec = let-desugaring)")
					lz.Emit(func() string {
						first := evPayload(goSrc)
						if asisSrc != "" {
							first += c05Alt + evPayload(asisSrc)
						}
						return first + c05Alt + evPayload(specSrc) + c05Sep + evPayload("a") + c05Sep + evPayload("o")
					})
				}
			}
			// (7) random programs
			n := 2500
			if g.Thorough() {
				n = 120000
			}
			rg := &c05Rand{r: g.R}
			for i := 0; i < n; i++ {
				emit("random programs depth<=3", rg.program(1+g.R.Intn(3)), "a", "b", "c", "o", rg.path(), rg.pick("f(1)", "g([1])", "len(a)", "f", "o.m(1)", "a == b"))
			}
		},
		Run: c05Run,
		// harness C05 -tool <program> <probe>… : prints the payload and the result of the real code
		Tool: func(args []string) int {
			c05Setup()
			secs := []string{}
			for _, a := range args {
				secs = append(secs, evPayload(a))
			}
			pl := strings.Join(secs, c05Sep)
			if _, err := parser.ParseWithRuntime("t", args[0], evNewProvider()); err != nil {
				fmt.Printf("#parse\t%s\n", oneLine(err.Error()))
			}
			fmt.Printf("0\t%s\n", pl)
			fmt.Printf("#go\t%s\n", c05Run(pl))
			return 0
		},
	})
}
