package main

// C08 — formatting preserves program meaning and is idempotent.
//
// A case is a source text that the REAL parser accepts. The payload carries the
// source and the AST the real parser produced for it, serialised with everything
// the pretty printer reads, so that the printer model does not depend on a model
// of the lexer/parser:
//
//	payload: <src-hex> <flags: 1 = evaluate, 2 = run tool.FormatFiles> <node>
//	node   : Z                                                      (nil child)
//	       | N <name-hex> <binding> <ld:0|1> <tok> <nmeta> {<P|Q|O> <val-hex>}* <nchildren> <node>*
//	tok    : - | T <id> <val-hex> <raw:0|1> <identifier:0|1> <prefixNewlines> <line> <col>
//
// (binding / leftDenotation are unexported fields of parser.ASTNode; they are read
// by reflection. raw = !AllowEscapes.)
//
//	result : txt=<hex of PrettyPrint(ast)> rt=ok|diff|noparse|* idem=ok|diff|na|* [eqm=ok|diff] [ff=ok|diff|…] [beh=ok|diff]
//	eqm  : only when rt=diff — tree equality modulo the known local differences (raw flag, product association)
//
// rt   : Go re-parses its own output; trees compared by c08Equal (ignores positions,
//        comments, blank lines; includes names, values, nesting, raw-vs-interpolating kind).
// idem : PrettyPrint(Parse(PrettyPrint(t))) == PrettyPrint(t).
// beh  : only when ev=1 and rt=ok — original and formatted program evaluate to the same
//        value / error kind / log. (For rt=diff cases the outcome is only counted.)

import (
	"flag"
	"fmt"
	"io"
	"math"
	"os"
	"path/filepath"
	"reflect"
	"sort"
	"strconv"
	"strings"
	"time"

	"github.com/krotik/ecal/cli/tool"
	"github.com/krotik/ecal/parser"
	"github.com/krotik/ecal/util"
)

func c08Ser(n *parser.ASTNode, sb *strings.Builder) {
	if n == nil {
		sb.WriteString(" Z")
		return
	}
	rv := reflect.ValueOf(n).Elem()
	binding := rv.FieldByName("binding").Int()
	ld := 0
	if !rv.FieldByName("leftDenotation").IsNil() {
		ld = 1
	}
	fmt.Fprintf(sb, " N %s %d %d", hx(n.Name), binding, ld)
	if t := n.Token; t == nil {
		sb.WriteString(" -")
	} else {
		fmt.Fprintf(sb, " T %d %s %d %d %d %d %d", int(t.ID), hx(t.Val), b2i(!t.AllowEscapes), b2i(t.Identifier),
			t.PrefixNewlines, t.Lline, t.Lpos)
	}
	fmt.Fprintf(sb, " %d", len(n.Meta))
	for _, m := range n.Meta {
		k := "O"
		switch m.Type() {
		case parser.MetaDataPreComment:
			k = "P"
		case parser.MetaDataPostComment:
			k = "Q"
		}
		fmt.Fprintf(sb, " %s %s", k, hx(m.Value()))
	}
	fmt.Fprintf(sb, " %d", len(n.Children))
	for _, c := range n.Children {
		c08Ser(c, sb)
	}
}

func b2i(b bool) int {
	if b {
		return 1
	}
	return 0
}

// c08Payload parses src with the real parser; ok=false when it does not parse.
func c08Payload(src string, ev bool) (string, bool) { return c08PayloadF(src, ev, false) }

// c08PayloadF: flags field = 1 (evaluate both versions) + 2 (also run tool.FormatFiles on a scratch file)
func c08PayloadF(src string, ev bool, ff bool) (string, bool) {
	ast, err := c08Parse(src)
	if err != nil || ast == nil {
		return "", false
	}
	var sb strings.Builder
	sb.WriteString(hx(src))
	fmt.Fprintf(&sb, " %d", b2i(ev)+2*b2i(ff))
	c08Ser(ast, &sb)
	return sb.String(), true
}

func c08Parse(src string) (ast *parser.ASTNode, err error) {
	defer func() {
		if e := recover(); e != nil {
			ast, err = nil, fmt.Errorf("parser panic: %v", e)
		}
	}()
	return parser.Parse("t", src)
}

// c08Equal is the tree equality of the property: node names, token kinds, values of
// value tokens, raw-vs-interpolating string kind and nesting; it ignores positions,
// comments (Meta), blank lines (PrefixNewlines) and the spelling of keyword tokens.
func c08Equal(a, b *parser.ASTNode) bool {
	if a == nil || b == nil {
		return a == nil && b == nil
	}
	if a.Name != b.Name || len(a.Children) != len(b.Children) {
		return false
	}
	// a node without token carries no value (the parser builds the guard of an else branch as a
	// token-less `true` node; `elif true` and `else` are the same tree for this equality)
	if a.Token != nil && b.Token != nil {
		ta, tb := a.Token, b.Token
		if ta.ID != tb.ID || ta.Identifier != tb.Identifier {
			return false
		}
		switch ta.ID {
		case parser.TokenSTRING:
			if ta.Val != tb.Val || ta.AllowEscapes != tb.AllowEscapes {
				return false
			}
		case parser.TokenNUMBER, parser.TokenIDENTIFIER:
			if ta.Val != tb.Val {
				return false
			}
		}
	}
	for i := range a.Children {
		if !c08Equal(a.Children[i], b.Children[i]) {
			return false
		}
	}
	return true
}

// c08EqualMod: equality modulo the two known LOCAL differences — the raw flag of string tokens and the
// association of a product / quotient that is the right operand of a product (`a * (b * c)` ≡ `(a * b) * c`,
// `a * (b / c)` ≡ `(a * b) / c`). Everything else (names, values, nesting) must agree.
func c08EqualMod(a, b *parser.ASTNode) bool {
	return c08EqualM(c08Rotate(a), c08Rotate(b))
}

type c08N struct {
	name     string
	tok      *parser.LexToken
	children []*c08N
}

// c08Rotate copies the tree with every times(x, times(y, z)) / times(x, div(y, z)) rotated to the left.
func c08Rotate(n *parser.ASTNode) *c08N {
	if n == nil {
		return nil
	}
	r := &c08N{name: n.Name, tok: n.Token}
	for _, c := range n.Children {
		r.children = append(r.children, c08Rotate(c))
	}
	return c08RotNode(r)
}

func c08Mul120(name string) bool {
	return name == parser.NodeTIMES || name == parser.NodeDIV || name == parser.NodeDIVINT || name == parser.NodeMODINT
}

// without the brackets the product is spliced into the left spine of its right operand: the leftmost operand y
// of the chain of equal-binding operators (* / // %) becomes x * y
func c08RotNode(r *c08N) *c08N {
	for r.name == parser.NodeTIMES && len(r.children) == 2 && r.children[1] != nil && len(r.children[1].children) == 2 &&
		(r.children[1].name == parser.NodeTIMES || r.children[1].name == parser.NodeDIV) {
		x, top := r.children[0], r.children[1]
		// copy the left spine
		var spine []*c08N
		for n := top; n != nil && c08Mul120(n.name) && len(n.children) == 2; n = n.children[0] {
			spine = append(spine, n)
		}
		bottom := spine[len(spine)-1]
		cur := c08RotNode(&c08N{name: parser.NodeTIMES, tok: r.tok, children: []*c08N{x, bottom.children[0]}})
		for i := len(spine) - 1; i >= 0; i-- {
			cur = &c08N{name: spine[i].name, tok: spine[i].tok, children: []*c08N{cur, spine[i].children[1]}}
		}
		r = cur
	}
	return r
}

// c08HasMulRight: class mul-right-brackets — a times node whose right child is times or div
func c08HasMulRight(n *parser.ASTNode) bool {
	return c08Any(n, func(x *parser.ASTNode) bool {
		if x.Name != parser.NodeTIMES || len(x.Children) != 2 || x.Children[1] == nil {
			return false
		}
		r := x.Children[1]
		if (r.Name != parser.NodeTIMES && r.Name != parser.NodeDIV) || len(r.Children) != 2 {
			return false
		}
		// the brackets are only left out for a pure chain of * and / (fix C08-product-chain-brackets)
		for c := r; c != nil && c08Mul120(c.Name) && len(c.Children) == 2; c = c.Children[0] {
			if c.Name == parser.NodeDIVINT || c.Name == parser.NodeMODINT {
				return false
			}
		}
		return true
	})
}

func c08EqualM(a, b *c08N) bool {
	if a == nil || b == nil {
		return a == nil && b == nil
	}
	if a.name != b.name || len(a.children) != len(b.children) {
		return false
	}
	if a.tok != nil && b.tok != nil {
		ta, tb := a.tok, b.tok
		// operator tokens of rotated products are not compared (both are `*` / `/` by the node name)
		if a.name != parser.NodeTIMES && a.name != parser.NodeDIV && (ta.ID != tb.ID || ta.Identifier != tb.Identifier) {
			return false
		}
		switch ta.ID {
		case parser.TokenSTRING, parser.TokenNUMBER, parser.TokenIDENTIFIER:
			if ta.Val != tb.Val {
				return false
			}
		}
	}
	for i := range a.children {
		if !c08EqualM(a.children[i], b.children[i]) {
			return false
		}
	}
	return true
}

// c08RawInterp: a raw string literal whose text contains `{{` (printed as an interpolating literal it may
// evaluate differently — the documented consequence of the known finding raw-string-kind)
func c08RawInterp(n *parser.ASTNode) bool {
	return c08Any(n, func(x *parser.ASTNode) bool {
		return x.Token != nil && x.Token.ID == parser.TokenSTRING && !x.Token.AllowEscapes && strings.Contains(x.Token.Val, "{{")
	})
}

// c08CanonText: the printed text with every string literal replaced by "<hex of the value it lexes back to>" —
// which spelling strconv.Quote / QuoteToASCII / … chooses for a literal is not constrained by the property, the
// token it is read back as is. A text that does not lex is returned with a marker.
func c08CanonText(txt string) string {
	toks := parser.LexToList("t", txt)
	var sb strings.Builder
	last := 0
	for _, t := range toks {
		if t.ID == parser.TokenError {
			return txt + "\x00does-not-lex"
		}
		if t.ID != parser.TokenSTRING || t.Pos < last || t.Pos >= len(txt) {
			continue
		}
		start := t.Pos
		i := start
		raw := false
		if txt[i] == 'r' {
			raw = true
			i++
		}
		if i >= len(txt) {
			return txt + "\x00bad-literal"
		}
		q := txt[i]
		i++
		esc := false
		for i < len(txt) && (txt[i] != q || esc) {
			if raw {
				esc = false
			} else {
				esc = !esc && txt[i] == '\\'
			}
			i++
		}
		if i >= len(txt) {
			return txt + "\x00bad-literal"
		}
		sb.WriteString(txt[last:start])
		if !t.AllowEscapes {
			sb.WriteString("r")
		}
		sb.WriteString("\"" + hx(t.Val) + "\"")
		last = i + 1
	}
	sb.WriteString(txt[last:])
	return sb.String()
}

// ---- behaviour

var c08Lim int
var c08Log []string

func c08Canon(v interface{}, depth int) string {
	if depth > 6 {
		return "…"
	}
	switch x := v.(type) {
	case nil:
		return "null"
	case float64:
		if math.IsNaN(x) {
			return "NaN"
		}
		return strconv.FormatFloat(x, 'g', 10, 64)
	case string:
		return "s" + hx(x)
	case bool:
		return fmt.Sprint(x)
	case []interface{}:
		var parts []string
		for _, e := range x {
			parts = append(parts, c08Canon(e, depth+1))
		}
		return "[" + strings.Join(parts, ",") + "]"
	case map[interface{}]interface{}:
		var parts []string
		for k, e := range x {
			parts = append(parts, c08Canon(k, depth+1)+":"+c08Canon(e, depth+1))
		}
		sort.Strings(parts)
		return "{" + strings.Join(parts, ",") + "}"
	}
	return fmt.Sprintf("<%T>", v)
}

// c08Behaviour evaluates src in a fresh environment: value or error kind, plus the log.
func c08Behaviour(src string) (sig string) {
	c08Lim = 0
	c08Log = nil
	defer func() {
		if e := recover(); e != nil {
			sig = "panic|" + strings.Join(c08Log, ",")
		}
	}()
	vs := newGlobalScope()
	vs.SetValue("a", 7.0)
	vs.SetValue("b", 3.0)
	vs.SetValue("c", 2.0)
	vs.SetValue("t", true)
	vs.SetValue("f", false)
	vs.SetValue("s", "abc")
	vs.SetValue("l", []interface{}{1.0, 2.0, 3.0})
	lg := &memLog{}
	res, err := evalProgram(src, vs, lg)
	out := ""
	if err != nil {
		if re, ok := err.(*util.RuntimeError); ok {
			out = "e:" + re.Type.Error()
		} else if red, ok := err.(*util.RuntimeErrorWithDetail); ok {
			out = "e:" + red.Type.Error()
		} else if _, ok := err.(*parser.Error); ok {
			out = "e:parse"
		} else {
			out = fmt.Sprintf("e:%T", err)
		}
	} else {
		out = "v:" + c08Canon(res, 0)
	}
	// log lines of the interpreter carry no positions for log(); error lines may: keep the kind only
	var ls []string
	for _, l := range lg.lines {
		if strings.HasPrefix(l, "error:") {
			l = "error"
		}
		ls = append(ls, hx(l))
	}
	return out + "|" + strings.Join(c08Log, ",") + "|" + strings.Join(ls, ",")
}

// ---- structurally defined classes for which no verdict is predicted (the model computes the same
// classes from the payload; a disagreement between the two shows as a different result line)

func c08Any(n *parser.ASTNode, p func(*parser.ASTNode) bool) bool {
	if n == nil {
		return false
	}
	if p(n) {
		return true
	}
	for _, c := range n.Children {
		if c08Any(c, p) {
			return true
		}
	}
	return false
}

func c08HasPost(n *parser.ASTNode) bool {
	return c08Any(n, func(x *parser.ASTNode) bool {
		for _, m := range x.Meta {
			if m.Type() == parser.MetaDataPostComment {
				return true
			}
		}
		return false
	})
}

// c08UnstablePost: a # comment that is NOT (attached to an identifier / number leaf and printed directly
// behind that token at the end of a line). Only such a comment is read back onto the same token.
func c08UnstablePost(n *parser.ASTNode, txt string) bool {
	return c08Any(n, func(x *parser.ASTNode) bool {
		for _, m := range x.Meta {
			if m.Type() != parser.MetaDataPostComment {
				continue
			}
			v := strings.TrimSpace(strings.ReplaceAll(m.Value(), "\n", ""))
			leaf := len(x.Children) == 0 && x.Token != nil && (x.Name == parser.NodeIDENTIFIER || x.Name == parser.NodeNUMBER)
			if !leaf || v == "" {
				return true
			}
			atEnd, mid := false, false
			pat := " # " + v
			for i := 0; i+len(pat) <= len(txt); i++ {
				if txt[i:i+len(pat)] != pat {
					continue
				}
				if i+len(pat) == len(txt) || txt[i+len(pat)] == '\n' {
					if strings.HasSuffix(txt[:i], x.Token.Val) {
						atEnd = true
					}
				} else {
					mid = true
				}
			}
			if !atEnd || mid {
				return true
			}
		}
		return false
	})
}

func c08HasPre(n *parser.ASTNode) bool {
	return c08Any(n, func(x *parser.ASTNode) bool {
		for _, m := range x.Meta {
			if m.Type() == parser.MetaDataPreComment {
				return true
			}
		}
		return false
	})
}

func c08HasComment(n *parser.ASTNode) bool {
	return c08Any(n, func(x *parser.ASTNode) bool {
		for _, m := range x.Meta {
			if m.Type() == parser.MetaDataPostComment || m.Type() == parser.MetaDataPreComment {
				return true
			}
		}
		return false
	})
}

func c08Binding(n *parser.ASTNode) (int64, bool) {
	rv := reflect.ValueOf(n).Elem()
	return rv.FieldByName("binding").Int(), !rv.FieldByName("leftDenotation").IsNil()
}

// c08Inside: a blank line or a block comment in front of a token that does not start its statement
// (the printer then writes a newline inside the statement). le = the node's text starts the statement.
// ownBlank: a blank line in front of an infix operator token at the start position (the operator is not
// the first token of its text).
func c08Inside(n *parser.ASTNode, le bool) (inside bool, ownBlank bool) {
	return c08InsideSp(n, le, true)
}

// sp = the node is a statement of a block (or the root)
// re = the node's text directly follows the keyword of a return statement (the only place where a
// newline written for a blank line changes what the parser reads; elsewhere it only moves on the next run)
func c08InsideSp(n *parser.ASTNode, le bool, sp bool) (inside bool, ownBlank bool) {
	return c08InsideRe(n, le, sp, false)
}

func c08InsideRe(n *parser.ASTNode, le bool, sp bool, re bool) (inside bool, ownBlank bool) {
	if n == nil {
		return false, false
	}
	if n.Name == parser.NodeRETURN && len(n.Children) == 0 && !sp {
		// a bare return used as an operand (`return` NEWLINE `- x` is read as `return - x`)
		inside = true
	}
	_, ld := c08Binding(n)
	infix := ld && len(n.Children) == 2
	blank := n.Token != nil && n.Token.PrefixNewlines > 1
	pre := false
	for _, m := range n.Meta {
		if m.Type() == parser.MetaDataPreComment {
			pre = true
		}
	}
	if (pre && !le) || (blank && !le && re) {
		inside = true
	}
	if blank && ((le && infix) || (!le && !re)) {
		ownBlank = true
	}
	for i, c := range n.Children {
		if c == nil {
			continue
		}
		cb, _ := c08Binding(c)
		cle := n.Name == parser.NodeSTATEMENTS || (i == 0 && le && infix && cb == 0)
		cre := (n.Name == parser.NodeRETURN && i == 0) || (re && i == 0 && infix)
		a, b := c08InsideRe(c, cle, n.Name == parser.NodeSTATEMENTS, cre)
		inside = inside || a
		ownBlank = ownBlank || b
	}
	return
}

// c08SignStart: a statement other than the first of its block starts with a unary + or - (the printer
// puts it on its own line, where the parser reads the sign as an infix operator of the previous line).
func c08SignStart(n *parser.ASTNode) bool {
	return c08Any(n, func(x *parser.ASTNode) bool {
		if x.Name != parser.NodeSTATEMENTS {
			return false
		}
		for i, c := range x.Children {
			if i == 0 || c == nil {
				continue
			}
			for c != nil {
				_, ld := c08Binding(c)
				if len(c.Children) == 1 && (c.Name == parser.NodePLUS || c.Name == parser.NodeMINUS) {
					return true
				}
				if ld && len(c.Children) == 2 {
					c = c.Children[0]
				} else {
					break
				}
			}
		}
		return false
	})
}

// c08EndsInBlockNl: the printed statement ends with a mutex / sink block (their templates end in a newline) — the
// statement itself or its last operand, transitively
func c08EndsInBlockNl(n *parser.ASTNode) bool {
	for n != nil {
		if n.Name == parser.NodeMUTEX || n.Name == parser.NodeSINK {
			return true
		}
		if len(n.Children) == 0 || n.Name == parser.NodeSTATEMENTS || n.Name == parser.NodeLIST || n.Name == parser.NodeMAP ||
			n.Name == parser.NodeFUNCCALL || n.Name == parser.NodeIF || n.Name == parser.NodeLOOP || n.Name == parser.NodeTRY ||
			n.Name == parser.NodeFUNC || n.Name == parser.NodeIDENTIFIER || n.Name == parser.NodeCOMPACCESS || n.Name == parser.NodePARAMS {
			return false
		}
		n = n.Children[len(n.Children)-1]
	}
	return false
}

// c08BlockThenStatement: a mutex or sink statement followed by a statement that is not already preceded
// by a blank line (their templates end in a newline: a blank line appears, and one more on the next run).
func c08BlockThenStatement(n *parser.ASTNode) bool {
	return c08Any(n, func(x *parser.ASTNode) bool {
		if x.Name != parser.NodeSTATEMENTS {
			return false
		}
		for i, c := range x.Children {
			if i < len(x.Children)-1 && c != nil && c08EndsInBlockNl(c) {
				nx := x.Children[i+1]
				for nx != nil {
					_, ld := c08Binding(nx)
					if ld && len(nx.Children) == 2 {
						nx = nx.Children[0]
					} else {
						break
					}
				}
				if nx == nil || nx.Token == nil || nx.Token.PrefixNewlines <= 1 {
					return true
				}
			}
		}
		return false
	})
}

// c08Sig: feature signature used to study the classes (debug, C08_SIG=1)
func c08Sig(ast *parser.ASTNode, txt string) string {
	var f []string
	add := func(b bool, s string) {
		if b {
			f = append(f, s)
		}
	}
	var inC, inB, inR, ob, p1, pn, pl, qmid, qend bool
	var walk func(n *parser.ASTNode, le, sp bool)
	walk = func(n *parser.ASTNode, le, sp bool) {
		if n == nil {
			return
		}
		_, ld := c08Binding(n)
		infix := ld && len(n.Children) == 2
		blank := n.Token != nil && n.Token.PrefixNewlines > 1
		npre := 0
		for _, m := range n.Meta {
			if m.Type() == parser.MetaDataPreComment {
				npre++
			}
			if m.Type() == parser.MetaDataPostComment {
				v := strings.TrimSpace(strings.ReplaceAll(m.Value(), "\n", ""))
				mid := false
				for rest := txt; ; {
					i := strings.Index(rest, " # "+v)
					if i < 0 {
						break
					}
					rest = rest[i+3+len(v):]
					if rest != "" && rest[0] != '\n' {
						mid = true
					}
				}
				if mid {
					qmid = true
				} else {
					qend = true
				}
			}
		}
		if npre > 0 && !le {
			inC = true
		}
		if npre == 1 && le {
			p1 = true
			if n.Token != nil && n.Token.Lline > 1 {
				pl = true
			}
		}
		if npre > 1 {
			pn = true
		}
		if blank && !le {
			inB = true
		}
		if blank && le && infix {
			ob = true
		}
		if n.Name == parser.NodeRETURN && len(n.Children) == 0 && !sp {
			inR = true
		}
		for i, c := range n.Children {
			if c == nil {
				continue
			}
			cb, _ := c08Binding(c)
			walk(c, n.Name == parser.NodeSTATEMENTS || (i == 0 && le && infix && cb == 0), n.Name == parser.NodeSTATEMENTS)
		}
	}
	walk(ast, true, true)
	add(inC, "INc")
	add(inB, "INb")
	add(inR, "INr")
	add(ob, "OB")
	add(p1, "P1")
	add(pl, "PL")
	add(pn, "Pn")
	add(qmid, "Qmid")
	add(qend, "Qend")
	add(c08BlockThenStatement(ast), "BT")
	add(c08Any(ast, func(x *parser.ASTNode) bool {
		return x.Token != nil && x.Token.ID == parser.TokenSTRING && !x.Token.AllowEscapes
	}), "RAW")
	return strings.Join(f, "+")
}

// c08BareReturnOperand: a bare return that is not a statement (an operand, a list element, a call argument): the
// printer joins it with what follows on its line — `[return` NEWLINE `]` is printed `[return]`, which does not parse
func c08BareReturnOperand(n *parser.ASTNode, sp bool) bool {
	if n == nil {
		return false
	}
	if n.Name == parser.NodeRETURN && len(n.Children) == 0 && !sp {
		return true
	}
	for _, c := range n.Children {
		if c08BareReturnOperand(c, n.Name == parser.NodeSTATEMENTS) {
			return true
		}
	}
	return false
}

// c08EndsWithBareReturn: class bare-return-at-end — the last statement of the program is a bare return
func c08EndsWithBareReturn(n *parser.ASTNode) bool {
	bare := func(x *parser.ASTNode) bool { return x != nil && x.Name == parser.NodeRETURN && len(x.Children) == 0 }
	if bare(n) {
		return true
	}
	return n != nil && n.Name == parser.NodeSTATEMENTS && len(n.Children) > 0 && bare(n.Children[len(n.Children)-1])
}

// c08HasNewline: the printed text of the subtree contains a newline (structural: blank line, block
// comment, multi-line list / map, any block)
func c08HasNewline(n *parser.ASTNode) bool {
	return c08Any(n, func(x *parser.ASTNode) bool {
		if x.Token != nil && x.Token.PrefixNewlines > 1 {
			return true
		}
		for _, m := range x.Meta {
			if m.Type() == parser.MetaDataPreComment {
				return true
			}
		}
		switch x.Name {
		case parser.NodeLIST:
			return len(x.Children) > 4
		case parser.NodeMAP:
			return len(x.Children) > 2
		case parser.NodeSTATEMENTS, parser.NodeFUNC, parser.NodeIF, parser.NodeLOOP, parser.NodeTRY, parser.NodeMUTEX, parser.NodeSINK:
			return true
		}
		return false
	})
}

// c08PostfixAfterNewline: in an identifier chain a composition access `[…]` follows a call / access whose
// text spans lines: the `[` is no longer on the line of the identifier and is read as a new list statement.
func c08PostfixAfterNewline(n *parser.ASTNode) bool {
	var chain func(x *parser.ASTNode, seen *bool) bool
	chain = func(x *parser.ASTNode, seen *bool) bool {
		for _, c := range x.Children {
			if c == nil {
				continue
			}
			switch c.Name {
			case parser.NodeCOMPACCESS:
				if *seen {
					return true
				}
				if c08HasNewline(c) {
					*seen = true
				}
			case parser.NodeFUNCCALL:
				if c08HasNewline(c) {
					*seen = true
				}
			case parser.NodeIDENTIFIER:
				if chain(c, seen) {
					return true
				}
			}
		}
		return false
	}
	return c08Any(n, func(x *parser.ASTNode) bool {
		if x.Name != parser.NodeIDENTIFIER {
			return false
		}
		seen := false
		return chain(x, &seen)
	})
}

var c08Dir string

// c08FormatFile runs the in-place format tool on a scratch file: ok = the file now holds exactly
// PrettyPrint's text plus a newline.
// c08FormatFile runs the in-place format tool on a scratch file.
func c08FormatFile(src, txt string) string {
	if c08Dir == "" {
		d, err := os.MkdirTemp(".", "c08-format-")
		if err != nil {
			return "nodir"
		}
		c08Dir = d
	}
	path := filepath.Join(c08Dir, "t.ecal")
	other := filepath.Join(c08Dir, "t.txt")
	if os.WriteFile(path, []byte(src), 0644) != nil || os.WriteFile(other, []byte(src), 0644) != nil {
		return "nowrite"
	}
	defer os.Remove(path)
	defer os.Remove(other)
	if err := tool.FormatFiles(c08Dir, ".ecal"); err != nil {
		return "error"
	}
	data, err := os.ReadFile(path)
	if err != nil {
		return "noread"
	}
	odata, _ := os.ReadFile(other)
	if string(odata) != src {
		return "other-file-touched"
	}
	// the property's tool clause: the file is unchanged, or it parses to a tree equal to the original
	// (modulo the known local differences raw flag / spliced product); never text that does not parse
	if string(data) == src {
		CountRun("format-tool.file-left-unchanged")
		return "ok"
	}
	ast2, err := c08Parse(string(data))
	if err != nil || ast2 == nil {
		CountRun("format-tool.UNPARSEABLE-TEXT-WRITTEN")
		return "broken"
	}
	if string(data) != txt+"\n" {
		return "not-the-printed-text"
	}
	orig, _ := c08Parse(src)
	if c08Equal(orig, ast2) || c08EqualMod(orig, ast2) {
		return "ok"
	}
	return "diff"
}

// ---- the format tool on a directory tree (payload `FMT <variant>`): FormatFiles and the command-line entry Format
//
// The tree holds parseable, unparseable and empty .ecal files, a file in a sub-directory, a file with another
// extension and a file with a restrictive mode; variants call tool.FormatFiles or tool.Format (through the package's
// verif-tag setter of its os.Args copy) on the directory or on a symbolic link to it, with another extension, or
// with -help. Expected: exactly the files with the extension that parse, print AND whose printed text parses again are
// replaced by PrettyPrint's text plus a newline (a CRLF file keeps the CR inside its raw string); every other file keeps its bytes; every file keeps its mode. Result: fmt=ok | fmt=<what differs>.
func c08FormatTree(variant int) string {
	if c08Dir == "" {
		d, err := os.MkdirTemp(".", "c08-format-")
		if err != nil {
			return "fmt=nodir"
		}
		c08Dir = d
	}
	root := filepath.Join(c08Dir, fmt.Sprintf("tree%d", variant))
	os.RemoveAll(root)
	defer os.RemoveAll(root)
	link := root + "-link"
	os.Remove(link)
	defer os.Remove(link)
	type file struct {
		rel  string
		data string
		mode os.FileMode
	}
	files := []file{
		{"a.ecal", "x:=1+2 *3 # c\nif x>1 {log(\"100%\")}", 0644},
		{"bad.ecal", "if { a := ", 0644},
		{"empty.ecal", "", 0644},
		{"private.ecal", "a  :=  [1,2,3,4,5]", 0600},
		{"sub/deep/b.ecal", "func f(a,b=1){return a % b}\nf(7)", 0644},
		{"sub/bad2.ecal", "\"unterminated", 0644},
		{"sub/c.txt", "a  +  b", 0644},
		{"notes.ecal.bak", "a  +  b", 0644},
		{"crlf.ecal", "x := r'a\r\nb'\r\ny := 1\r\n", 0644},
		{"closer.ecal", "x := [return\n]\ny := f(return\n)", 0644},
	}
	for _, f := range files {
		p := filepath.Join(root, f.rel)
		if err := os.MkdirAll(filepath.Dir(p), 0755); err != nil {
			return "fmt=nomkdir"
		}
		if err := os.WriteFile(p, []byte(f.data), f.mode); err != nil {
			return "fmt=nowrite"
		}
		os.Chmod(p, f.mode)
	}
	target, ext := root, ".ecal"
	if variant%2 == 1 {
		// (an ABSOLUTE target: FormatFiles hands the result of os.Readlink to filepath.Walk as it is, so a relative
		// link is resolved against the working directory instead of the link's directory and the walk fails with
		// "no such file" — nothing is written; observed, not part of the property)
		abs, err := filepath.Abs(root)
		if err != nil {
			return "fmt=noabs"
		}
		if err := os.Symlink(abs, link); err != nil {
			return "fmt=nosymlink"
		}
		target = link
	}
	help := false
	switch variant / 2 {
	case 0:
		oldFlags := flag.CommandLine
		flag.CommandLine = flag.NewFlagSet("ecal", flag.ContinueOnError)
		flag.CommandLine.SetOutput(io.Discard)
		err := tool.FormatFiles(target, ext)
		flag.CommandLine = oldFlags
		if err != nil {
			return "fmt=error:" + oneLine(err.Error())
		}
	case 1, 2, 3:
		if variant/2 == 2 {
			ext = ".txt"
		}
		args := []string{"ecal", "format", "-dir", target, "-ext", ext}
		if variant/2 == 3 {
			args = append(args, "-help")
			help = true
		}
		old := tool.VerifSetOsArgs(args)
		oldFlags := flag.CommandLine
		flag.CommandLine = flag.NewFlagSet("ecal", flag.ContinueOnError)
		flag.CommandLine.SetOutput(io.Discard)
		err := tool.Format()
		flag.CommandLine = oldFlags
		tool.VerifSetOsArgs(old)
		if err != nil {
			return "fmt=error:" + oneLine(err.Error())
		}
	}
	for _, f := range files {
		p := filepath.Join(root, f.rel)
		want := f.data
		if !help && strings.HasSuffix(f.rel, ext) {
			if ast, err := c08Parse(f.data); err == nil && ast != nil {
				if txt, err := parser.PrettyPrint(ast); err == nil {
					// a text that does not parse again must NOT be written (the file stays as it is)
					if _, err := c08Parse(txt + "\n"); err == nil {
						want = txt + "\n"
					}
				}
			}
		}
		got, err := os.ReadFile(p)
		if err != nil {
			return "fmt=missing:" + f.rel
		}
		if string(got) != want {
			return "fmt=content:" + f.rel
		}
		if st, err := os.Stat(p); err != nil || st.Mode().Perm() != f.mode {
			return "fmt=mode:" + f.rel
		}
	}
	return "fmt=ok"
}

func c08Run(payload string) string {
	if payload == "TABLES" {
		return "tables"
	}
	if strings.HasPrefix(payload, "FMT ") {
		v, _ := strconv.Atoi(strings.TrimPrefix(payload, "FMT "))
		return c08FormatTree(v)
	}
	f := strings.SplitN(payload, " ", 3)
	src := unhx(f[0])
	ev := f[1] == "1" || f[1] == "3"
	ff := f[1] == "2" || f[1] == "3"
	ast, err := parser.Parse("t", src)
	if err != nil {
		return "SRC-NOPARSE " + oneLine(err.Error())
	}
	txt, err := parser.PrettyPrint(ast)
	if err != nil {
		return "PPERR " + oneLine(err.Error())
	}
	inside, ownBlank := c08Inside(ast, true)
	// inside the class the printed text must at least PARSE (rt=*p) unless a # comment swallows the rest of its line
	// or a composition access is pushed off the identifier's line — the two shapes known to produce unparseable text
	rtWild := c08UnstablePost(ast, txt) || c08PostfixAfterNewline(ast) || inside
	mayNotParse := c08UnstablePost(ast, txt) || c08PostfixAfterNewline(ast) || c08EndsWithBareReturn(ast) ||
		c08BareReturnOperand(ast, true)
	idemWild := rtWild || ownBlank || c08HasPre(ast) || c08BlockThenStatement(ast)
	sig := c08Sig(ast, txt)
	rt, idem := "ok", "na"
	ast2, err := parser.Parse("t", txt)
	if err != nil || ast2 == nil {
		rt = "noparse"
	} else {
		if !c08Equal(ast, ast2) {
			rt = "diff"
		}
		txt2, err := parser.PrettyPrint(ast2)
		if err == nil && txt2 == txt {
			idem = "ok"
		} else {
			idem = "diff"
		}
	}
	if os.Getenv("C08_SIG") != "" && sig != "" {
		CountRun("sig." + sig + " rt-" + rt + " idem-" + idem)
		if os.Getenv("C08_SIG") == sig {
			fmt.Fprintf(os.Stderr, "SIG %s rt-%s idem-%s %q => %q\n", sig, rt, idem, src, txt)
		}
	}
	if rtWild {
		CountRun("newline-inside-statement-class.rt-" + rt)
		if mayNotParse {
			rt = "*"
		} else if rt != "noparse" {
			rt = "*p"
		}
	}
	if idemWild {
		CountRun("layout-class.idem-" + idem)
		idem = "*"
	}
	// (string literals in canonical spelling — unless a # comment swallows the rest of its line: literals behind it are
	// no tokens of the printed text any more)
	shown := txt
	if !c08UnstablePost(ast, txt) {
		shown = c08CanonText(txt)
	}
	res := "txt=" + hx(shown) + " rt=" + rt + " idem=" + idem
	eqm := ""
	if rt == "diff" {
		// inside the known classes the trees must still agree modulo the known local difference
		eqm = "diff"
		if c08EqualMod(ast, ast2) {
			eqm = "ok"
		}
		res += " eqm=" + eqm
	}
	if ff {
		v := c08FormatFile(src, txt)
		if rtWild && (v == "ok" || v == "diff") {
			v = "*" // inside the class the file may be left alone or rewritten to a tree that differs; never broken
		}
		res += " ff=" + v
	}
	if ev && (rt == "ok" || (rt == "diff" && eqm == "ok")) { // (not for "*" / "*p")
		orig := c08Behaviour(src)
		same := orig == c08Behaviour(txt)
		// re-association inside mul-right-brackets changes the ORDER of evaluation: when the original raises an
		// error or has side effects, which error is raised / in which order the effects happen may differ.
		// Behaviour is demanded there only if the original evaluates to a value without error, side effect or log.
		mulFree := rt == "diff" && c08HasMulRight(ast) && !(strings.HasPrefix(orig, "v:") && strings.HasSuffix(orig, "||"))
		if c08RawInterp(ast) {
			if same {
				CountRun("raw-with-interpolation.behaviour-same")
			} else {
				CountRun("raw-with-interpolation.behaviour-differs")
			}
		} else if mulFree {
			if same {
				CountRun("mul-right-brackets.error-or-effects.behaviour-same")
			} else {
				CountRun("mul-right-brackets.error-or-effects.behaviour-differs")
			}
			res += " beh=ok"
		} else if same {
			res += " beh=ok"
		} else {
			res += " beh=diff"
		}
	}
	return res
}

func init() {
	register("C08", &Prop{
		Timeout: 60 * time.Second, // generous: a loaded machine must not turn a slow case into HANG
		Setup: func() {
			// x.lim(): true for the first three calls of an evaluation, then false (bounded guard loops)
			registerX("lim", func(args []interface{}) (interface{}, error) {
				c08Lim++
				return c08Lim <= 3, nil
			})
			// x.rec(v): side-effect log
			registerX("rec", func(args []interface{}) (interface{}, error) {
				if len(c08Log) < 200 {
					c08Log = append(c08Log, c08Canon(args, 0))
				}
				if len(args) > 0 {
					return args[0], nil
				}
				return nil, nil
			})
		},
		Gen:  c08Gen,
		Run:  c08Run,
		Tool: c08Tool,
	})
}
