package main

// C02: execution of a plan on the real engine (Go API or ECAL sinks) — see c02.go for the formats.
//
// The plan is flattened into UNITS (one root monitor each): the outer cascade of every plan
// cascade (started by its own goroutine with AddEventAndWait / AddEvent + finish handler) and the
// cascades started from inside actions on a NEW root monitor: nested waits (link n) and detached
// ones (links d, l, u). Result: one segment per unit, joined by " ; ":
//
//	waited units  : ret=1 early=E handler=H fin=K/K errs=… foreign=F nil=N   (sampled at the unit's own return)
//	detached units: det done=<number of actions of the unit that completed by the end of the case>
//	never started : notrun        (the adding rule did not run: failOnFirstError, skipped parent)

import (
	"errors"
	"fmt"
	"os"
	"runtime"
	"sort"
	"strconv"
	"strings"
	"sync"
	"sync/atomic"
	"time"

	"github.com/krotik/ecal/config"
	"github.com/krotik/ecal/engine"
	"github.com/krotik/ecal/interpreter"
	"github.com/krotik/ecal/parser"
)

var c02Stderr *os.File

type c02Ent struct {
	n, k int
	cl   string
}

// c02URes is the outcome of one unit.
type c02URes struct {
	started  int32
	ret      bool
	retStamp int64
	handler  int64
	rm       *engine.RootMonitor
	fin      int
	handed   int
	errs     []string
	foreign  int
	sampled  bool
	evalErr  error
}

type c02Exec struct {
	plan *c02Plan
	st   *c02State
	res  []*c02URes
}

func c02NewState(plan *c02Plan) *c02State {
	st := &c02State{plan: plan, rng: NewRand(plan.seed), rootOf: map[uint64]int{}, dense: map[uint64]int{},
		nextID: map[int]int{}, goIdx: map[uint64]int{}, trace: map[int][]string{}, nilSeen: map[int]int{},
		handed: map[int][]engine.Monitor{}, stamps: map[int]map[string]int64{}, goCasc: map[uint64]int{},
		posted: map[uint64]int{}, obsRun: map[uint64]int{}, holds: map[uint64]int{}, prio: map[uint64]int{}, low: 1000,
		counts: map[string]int{}, expect: map[uint64]int{}}
	for i := 0; i < 3; i++ {
		st.change = append(st.change, 1+st.rng.Intn(300))
	}
	for u := range plan.units {
		st.stamps[u] = map[string]int64{}
	}
	return st
}

// bind makes a root monitor known as the root of unit u (caller holds st.mu).
func (st *c02State) bind(root uint64, u int) {
	st.rootOf[root] = u
	st.dense[root] = 0
	st.nextID[u] = 1
}

func (x *c02Exec) errObserver() func(rm *engine.RootMonitor) {
	st := x.st
	return func(rm *engine.RootMonitor) {
		errs := rm.AllErrors()
		nils := c02NilEntries(errs)
		// keep asking for a short while: other failing tasks of the cascade pass through
		// SetErrors … Finish meanwhile (this is what makes the window reachable without hooks)
		for i := 0; i < 300; i++ {
			if i%8 == 7 {
				runtime.Gosched()
			}
			nils += c02NilEntries(rm.AllErrors())
		}
		st.mu.Lock()
		st.obsDone++
		if u, ok := st.rootOf[rm.ID()]; ok {
			st.nilSeen[u] += nils
		}
		st.rec(rm.ID(), fmt.Sprintf("X%d", len(errs)))
		st.mu.Unlock()
	}
}

// sampleGo reads IsFinished of every monitor handed out for the unit and AllErrors() of its root —
// called by whoever waited for the unit, right after the wait returned.
func (x *c02Exec) sampleGo(u int) {
	st, r, un := x.st, x.res[u], x.plan.units[u]
	st.mu.Lock()
	hs := append([]engine.Monitor(nil), st.handed[u]...)
	st.mu.Unlock()
	r.handed = len(hs)
	for _, m := range hs {
		if m.(c02Fin).IsFinished() {
			r.fin++
		}
	}
	var es []c02Ent
	pre := fmt.Sprintf("c%dn", un.ci)
	for _, te := range r.rm.AllErrors() {
		if te == nil || te.Event == nil {
			es = append(es, c02Ent{-1, -1, "nil"})
			continue
		}
		evn := te.Event.Name()
		node := c02EventNode(te.Event)
		if !strings.HasPrefix(evn, pre) || node >= len(x.plan.cascs[un.ci].nodes) || x.plan.cascs[un.ci].nodes[node].unit != u {
			r.foreign++
			continue
		}
		// the entry describes ITS event: name and kind of the plan node the state id names
		descOK := evn == c02EvName(x.plan, un.ci, node) && strings.Join(te.Event.Kind(), ".") == strings.Join(c02EvKind(x.plan, un.ci, node), ".")
		// attribution: the monitor of the entry is finished, reports the same error object, and its
		// event path is the chain of plan events from the unit's root to this event
		// (monitorBase.Errors / EventPath / EventPathString / TaskError.Error are asserting
		// accessors: legal here, after the wait returned)
		path := c02PlanPath(x.plan, un, node)
		attributed := te.Monitor != nil && te.Monitor.Errors() == te && te.Monitor.IsActivated() &&
			te.Monitor.EventPathString() == path && strings.Contains(te.Error(), path+" -> ")
		for rule, err := range te.ErrorMap {
			k := -1
			if strings.HasPrefix(rule, evn+"r") {
				k, _ = strconv.Atoi(rule[len(evn)+1:])
			}
			cl := "?"
			if err != nil && err.Error() == "E"+rule {
				cl = "e"
				if !attributed {
					cl = "?path"
				}
				if !descOK {
					cl = "?desc"
				}
			}
			es = append(es, c02Ent{node, k, cl})
		}
	}
	r.errs = c02SortEnts(es)
	r.sampled = true
}

// c02PlanPath: "c0n0 -> c0n3 -> c0n7", the events from the root of the unit down to node.
func c02PlanPath(plan *c02Plan, un c02Unit, node int) string {
	var names []string
	for n := node; ; n = plan.cascs[un.ci].nodes[n].parent {
		names = append([]string{c02EvName(plan, un.ci, n)}, names...)
		if n == un.root || plan.cascs[un.ci].nodes[n].parent < 0 {
			break
		}
	}
	return strings.Join(names, " -> ")
}

func c02SortEnts(es []c02Ent) []string {
	sort.Slice(es, func(i, j int) bool {
		if es[i].n != es[j].n {
			return es[i].n < es[j].n
		}
		return es[i].k < es[j].k
	})
	var out []string
	for _, e := range es {
		out = append(out, fmt.Sprintf("%d.%d%s", e.n, e.k, e.cl))
	}
	return out
}

// sampleEcal turns the value returned by the addEventAndWait builtin into the same list.
func (x *c02Exec) sampleEcal(u int, val interface{}) {
	r, un := x.res[u], x.plan.units[u]
	var es []c02Ent
	pre := fmt.Sprintf("c%dn", un.ci)
	items, _ := val.([]interface{})
	for _, it := range items {
		im, _ := it.(map[interface{}]interface{})
		evm, _ := im["event"].(map[interface{}]interface{})
		evn := fmt.Sprint(evm["name"])
		node := -1
		if sm, ok := evm["state"].(map[interface{}]interface{}); ok {
			if f, ok := sm["id"].(float64); ok {
				node = int(f)
			}
		}
		if !strings.HasPrefix(evn, pre) || node < 0 || node >= len(x.plan.cascs[un.ci].nodes) || x.plan.cascs[un.ci].nodes[node].unit != u {
			r.foreign++
			continue
		}
		// the descriptor of the entry is the descriptor of ITS event: name, kind, state
		descOK := evn == c02EvName(x.plan, un.ci, node) && fmt.Sprint(evm["kind"]) == strings.Join(c02EvKind(x.plan, un.ci, node), ".")
		em, _ := im["errors"].(map[interface{}]interface{})
		for rk, rv := range em {
			rule := fmt.Sprint(rk)
			k := -1
			if strings.HasPrefix(rule, evn+"r") {
				k, _ = strconv.Atoi(rule[len(evn)+1:])
			}
			cl := "?"
			if d, ok := rv.(map[interface{}]interface{}); ok {
				if fmt.Sprint(d["detail"]) == "E"+rule && fmt.Sprint(d["type"]) == "c02" {
					cl = "e"
				} else if fmt.Sprint(d["data"]) == "R"+rule {
					cl = "r" // the sink ended in `return "R<rule>"`
				}
				if cl != "?" && !descOK {
					cl = "?desc"
				}
			}
			es = append(es, c02Ent{node, k, cl})
		}
	}
	r.errs = c02SortEnts(es)
	r.sampled = true
}

func (x *c02Exec) block(rule byte) {
	if rule == 'P' {
		// an action parked for 2.2 s (thorough tier): a wait that gives up earlier returns while it runs
		x.st.count("action parked for 2.2 s")
		for i := 0; i < 22; i++ {
			time.Sleep(100 * time.Millisecond)
			atomic.AddInt64(&c02Clock, 1) // progress: the case is not stuck
		}
		return
	}
	if rule == 'O' || rule == 'X' {
		x.st.count("blocking action")
		time.Sleep(time.Duration(150+x.st.rngIntn(600)) * time.Microsecond)
	}
}

func (st *c02State) rngIntn(n int) int {
	st.mu.Lock()
	defer st.mu.Unlock()
	return st.rng.Intn(n)
}

func c02Fails(rule byte) bool { return rule == 'x' || rule == 'X' || rule == 'r' }

// ---------------------------------------------------------------- Go API

func (x *c02Exec) goAction(proc engine.Processor, ci, ni, k int) engine.RuleAction {
	st, plan := x.st, x.plan
	n := &plan.cascs[ci].nodes[ni]
	rname := fmt.Sprintf("c%dn%dr%d", ci, ni, k)
	return func(p engine.Processor, m engine.Monitor, e *engine.Event, tid uint64) error {
		// the rule may serve several events (twins): which plan node is this one?
		ni := ni
		n := n
		if a := c02EventNode(e); a != ni && a < len(plan.cascs[ci].nodes) && plan.cascs[ci].nodes[a].twin == ni {
			ni = a
			n = &plan.cascs[ci].nodes[a]
		}
		for _, ch := range n.children[k] {
			cn := &plan.cascs[ci].nodes[ch]
			ev := c02Event(plan, ci, ch)
			switch cn.link {
			case 'c':
				prio := 0
				if plan.prios {
					prio = ch % 4
				}
				cm := m.NewChildMonitor(prio)
				st.mu.Lock()
				st.handed[n.unit] = append(st.handed[n.unit], cm)
				st.mu.Unlock()
				if _, err := p.AddEvent(ev, cm); err != nil {
					return fmt.Errorf("AddEvent failed: %v", err)
				}
				if ch%2 == 1 {
					runtime.Gosched()
				}
			case 'n':
				// nested wait on a new root monitor, inside the action (occupies this worker)
				u := cn.unit
				r := x.res[u]
				rm := p.NewRootMonitor(nil, nil)
				r.rm = rm
				st.mu.Lock()
				st.bind(rm.ID(), u)
				st.handed[u] = append(st.handed[u], rm)
				st.mu.Unlock()
				rm.SetFinishHandler(func(engine.Processor) { atomic.AddInt64(&r.handler, 1) })
				atomic.StoreInt32(&r.started, 1)
				st.count("nested AddEventAndWait inside an action")
				if _, err := p.AddEventAndWait(ev, rm); err != nil {
					return fmt.Errorf("AddEventAndWait failed: %v", err)
				}
				r.retStamp = atomic.AddInt64(&c02Clock, 1)
				x.sampleGo(u)
				st.mu.Lock()
				st.rec(rm.ID(), fmt.Sprintf("R%d", len(rm.AllErrors())))
				st.mu.Unlock()
				r.ret = true
			default:
				// detached: its own root monitor, nobody waits
				u := cn.unit
				r := x.res[u]
				atomic.StoreInt32(&r.started, 1)
				if ch%2 == 0 {
					// nil monitor: AddEvent creates the root monitor itself
					st.count("detached AddEvent with nil monitor")
					gid := c02Goid()
					st.mu.Lock()
					st.expect[gid] = u
					st.mu.Unlock()
					_, err := p.AddEvent(ev, nil)
					st.mu.Lock()
					delete(st.expect, gid)
					st.mu.Unlock()
					if err != nil {
						return fmt.Errorf("AddEvent failed: %v", err)
					}
				} else {
					st.count("detached AddEvent with a new root monitor")
					rm := p.NewRootMonitor(nil, nil)
					st.mu.Lock()
					st.bind(rm.ID(), u)
					st.mu.Unlock()
					if _, err := p.AddEvent(ev, rm); err != nil {
						return fmt.Errorf("AddEvent failed: %v", err)
					}
				}
			}
		}
		x.block(n.rules[k])
		ok := 1
		if c02Fails(n.rules[k]) {
			ok = 0
		}
		st.mu.Lock()
		st.stamps[n.unit][fmt.Sprintf("%d.%d", ni, k)] = atomic.AddInt64(&c02Clock, 1)
		st.rec(m.RootMonitor().ID(), fmt.Sprintf("E%d.%d.%d", st.id(m.ID()), k, ok))
		st.mu.Unlock()
		if ok == 0 {
			return errors.New("E" + rname)
		}
		return nil
	}
}

func (x *c02Exec) runGo() (bool, string) {
	st, plan := x.st, x.plan
	proc := engine.NewProcessor(plan.workers)
	proc.SetFailOnFirstErrorInTriggerSequence(plan.failFirst)
	var zFired int64
	for ci := range plan.cascs {
		c := &plan.cascs[ci]
		for ni := range c.nodes {
			n := &c.nodes[ni]
			if n.twin >= 0 {
				continue // served by the rules of its twin
			}
			kind := fmt.Sprintf("c%dn%d", ci, ni)
			km := strings.Join(c02EvKind(plan, ci, ni), ".")
			switch n.kind {
			case 'z':
				check(proc.AddRule(&engine.Rule{Name: kind + "z", KindMatch: []string{km}, ScopeMatch: []string{},
					StateMatch: map[string]interface{}{"never": "x"}, Priority: 0,
					Action: func(p engine.Processor, m engine.Monitor, e *engine.Event, tid uint64) error {
						atomic.AddInt64(&zFired, 1)
						return nil
					}}))
			case 't':
				for k := range n.rules {
					check(proc.AddRule(&engine.Rule{Name: fmt.Sprintf("%sr%d", kind, k), KindMatch: []string{km},
						ScopeMatch: []string{}, Priority: k, Action: x.goAction(proc, ci, ni, k)}))
				}
			}
		}
	}
	if !plan.noErrObs {
		proc.SetRootMonitorErrorObserver(x.errObserver())
	}
	c02Cur.Store(st)
	defer st.flush()
	defer c02Cur.Store(nil)
	proc.Start()

	var wg sync.WaitGroup
	for u := range plan.units {
		u := u
		un := plan.units[u]
		if un.mode != 'w' && un.mode != 'a' {
			continue
		}
		r := x.res[u]
		// R0: AddEventAndWait(ev, nil) creates the root monitor itself (triggering root events only:
		// for a discarded event nothing comes back to look at)
		nilRoot := plan.nilRoot && un.mode == 'w' && plan.cascs[un.ci].nodes[0].kind != 's'
		var rm *engine.RootMonitor
		atomic.StoreInt32(&r.started, 1)
		if !nilRoot {
			rm = proc.NewRootMonitor(nil, nil)
			r.rm = rm
			st.mu.Lock()
			st.bind(rm.ID(), u)
			st.handed[u] = append(st.handed[u], rm)
			st.mu.Unlock()
		} else {
			st.count("AddEventAndWait with nil monitor")
		}
		ev := c02Event(plan, un.ci, 0)
		done := make(chan struct{})
		hdone := make(chan struct{}, 8)
		if !nilRoot && (un.mode == 'a' || !plan.noHandler) {
			rm.SetFinishHandler(func(p engine.Processor) {
				atomic.AddInt64(&r.handler, 1)
				hdone <- struct{}{}
			})
		}
		wg.Add(1)
		go func() {
			defer wg.Done()
			go func() {
				st.mu.Lock()
				st.goCasc[c02Goid()] = u
				st.mu.Unlock()
				if nilRoot {
					gid := c02Goid()
					st.mu.Lock()
					st.expect[gid] = u
					st.mu.Unlock()
					m, err := proc.AddEventAndWait(ev, nil)
					if err != nil || m == nil {
						return
					}
					rm = m.RootMonitor()
					r.rm = rm
					st.mu.Lock()
					delete(st.expect, gid)
					if _, ok := st.rootOf[rm.ID()]; !ok {
						st.bind(rm.ID(), u)
					}
					st.handed[u] = append(st.handed[u], rm)
					st.mu.Unlock()
				} else if un.mode == 'w' {
					if _, err := proc.AddEventAndWait(ev, rm); err != nil {
						return
					}
				} else {
					m, err := proc.AddEvent(ev, rm)
					if err != nil {
						return
					}
					if m != nil {
						<-hdone
					}
				}
				r.retStamp = atomic.AddInt64(&c02Clock, 1)
				x.sampleGo(u)
				if un.mode == 'w' {
					st.mu.Lock()
					st.rec(rm.ID(), fmt.Sprintf("R%d", len(rm.AllErrors())))
					st.mu.Unlock()
				}
				close(done)
			}()
			r.ret = c02Await(st, u, done)
		}()
	}
	wg.Wait()
	allRet := true
	for u, r := range x.res {
		if m := plan.units[u].mode; m == 'w' || m == 'a' {
			allRet = allRet && r.ret
		}
	}
	if allRet {
		// detached cascades go on after the waits returned: let the queue drain (the pool must stay
		// running meanwhile — AddEvent on a stopping pool is an error), then stop the workers
		proc.ThreadPool().WaitAll()
		proc.Finish()
	}
	extra := ""
	if atomic.LoadInt64(&zFired) > 0 {
		extra = " zfired"
	}
	return allRet, extra
}

// ---------------------------------------------------------------- ECAL sinks

// c02XFn is an x.<name> function which receives the instance state (the monitor of the sink).
type c02XFn struct {
	f func(is map[string]interface{}, args []interface{}) (interface{}, error)
}

func (c c02XFn) Run(instanceID string, vs parser.Scope, is map[string]interface{}, tid uint64, args []interface{}) (interface{}, error) {
	return c.f(is, args)
}
func (c02XFn) DocString() (string, error) { return "harness function", nil }

var c02CurExec atomic.Pointer[c02Exec]

func c02Num(args []interface{}, i int) int {
	if i >= len(args) {
		return -1
	}
	f, _ := args[i].(float64)
	return int(f)
}

// x.c02stamp(unit, node, rule, ok): completion of a sink body (last statement before raise/return)
func c02FnStamp(is map[string]interface{}, args []interface{}) (interface{}, error) {
	x := c02CurExec.Load()
	if x == nil || len(args) != 5 {
		return nil, nil
	}
	st := x.st
	x.block(byte(c02Num(args, 4)))
	st.mu.Lock()
	defer st.mu.Unlock()
	st.stamps[c02Num(args, 0)][fmt.Sprintf("%d.%d", c02Num(args, 1), c02Num(args, 2))] = atomic.AddInt64(&c02Clock, 1)
	if m, ok := is["monitor"].(engine.Monitor); ok {
		st.rec(m.RootMonitor().ID(), fmt.Sprintf("E%d.%d.%d", st.id(m.ID()), c02Num(args, 2), c02Num(args, 3)))
	}
	return nil, nil
}

// x.c02expect(unit): the next root monitor created on this goroutine is the root of the unit
func c02FnExpect(is map[string]interface{}, args []interface{}) (interface{}, error) {
	x := c02CurExec.Load()
	if x == nil {
		return nil, nil
	}
	u := c02Num(args, 0)
	gid := c02Goid()
	x.st.mu.Lock()
	x.st.expect[gid] = u
	x.st.mu.Unlock()
	if u >= 0 && u < len(x.res) {
		atomic.StoreInt32(&x.res[u].started, 1)
	}
	return nil, nil
}

// x.c02result(unit, value of addEventAndWait): the nested wait returned
func c02FnResult(is map[string]interface{}, args []interface{}) (interface{}, error) {
	x := c02CurExec.Load()
	if x == nil || len(args) != 2 {
		return nil, nil
	}
	u := c02Num(args, 0)
	r := x.res[u]
	r.retStamp = atomic.AddInt64(&c02Clock, 1)
	x.sampleEcal(u, args[1])
	n := 0
	if items, ok := args[1].([]interface{}); ok {
		n = len(items)
	}
	x.st.mu.Lock()
	x.st.rec(c02RootOfCasc(x.st, u), fmt.Sprintf("R%d", n))
	x.st.mu.Unlock()
	r.ret = true
	return nil, nil
}

func c02EcalSource(plan *c02Plan) string {
	var sb strings.Builder
	sb.WriteString("c02loaded := 1\nfunc c02add(n, k, i) {\n addEvent(n, k, {\"id\": i})\n}\n")
	for ci := range plan.cascs {
		c := &plan.cascs[ci]
		for ni := range c.nodes {
			n := &c.nodes[ni]
			if n.twin >= 0 {
				continue // served by the sinks of its twin
			}
			kind := fmt.Sprintf("c%dn%d", ci, ni)
			km := strings.Join(c02EvKind(plan, ci, ni), ".")
			switch n.kind {
			case 'z':
				fmt.Fprintf(&sb, "sink %sz\n kindmatch [\"%s\"],\n statematch {\"never\": \"x\"},\n priority 0\n{\n x.c02stamp(%d, %d, 99, 1, 0)\n}\n", kind, km, n.unit, ni)
			case 't':
				for k := range n.rules {
					fmt.Fprintf(&sb, "sink %sr%d\n kindmatch [\"%s\"],\n priority %d\n{\n", kind, k, km, k)
					for _, ch := range n.children[k] {
						cn := &c.nodes[ch]
						cname := c02EvName(plan, ci, ch)
						ck := strings.Join(c02EvKind(plan, ci, ch), ".")
						switch cn.link {
						case 'c':
							fmt.Fprintf(&sb, " addEvent(\"%s\", \"%s\", {\"id\": %d})\n", cname, ck, ch)
						case 'n':
							fmt.Fprintf(&sb, " x.c02expect(%d)\n x.c02result(%d, addEventAndWait(\"%s\", \"%s\", {\"id\": %d}))\n", cn.unit, cn.unit, cname, ck, ch)
						case 'l':
							fmt.Fprintf(&sb, " x.c02expect(%d)\n for c02i in range(1, 1) {\n  addEvent(\"%s\", \"%s\", {\"id\": %d})\n }\n", cn.unit, cname, ck, ch)
						case 'u':
							fmt.Fprintf(&sb, " x.c02expect(%d)\n c02add(\"%s\", \"%s\", %d)\n", cn.unit, cname, ck, ch)
						default:
							fmt.Fprintf(&sb, " x.c02expect(%d)\n addEvent(\"%s\", \"%s\", {\"id\": %d}, {\"\": true})\n", cn.unit, cname, ck, ch)
						}
					}
					ok := 1
					if c02Fails(n.rules[k]) {
						ok = 0
					}
					// the node is read from the event (the sink may serve several events)
					fmt.Fprintf(&sb, " x.c02stamp(%d, event.state.id, %d, %d, %d)\n", n.unit, k, ok, n.rules[k])
					switch n.rules[k] {
					case 'x', 'X':
						fmt.Fprintf(&sb, " raise(\"c02\", \"E%sr%d\")\n", kind, k)
					case 'r':
						fmt.Fprintf(&sb, " return \"R%sr%d\"\n", kind, k)
					}
					sb.WriteString("}\n")
				}
			}
		}
	}
	return sb.String()
}

func (x *c02Exec) runEcal() (bool, string) {
	st, plan := x.st, x.plan
	config.Config[config.WorkerCount] = plan.workers
	erp := interpreter.NewECALRuntimeProvider("c02", nil, &memLog{})
	erp.Cron.Stop()
	proc := erp.Processor
	proc.SetFailOnFirstErrorInTriggerSequence(plan.failFirst)
	if !plan.noErrObs {
		proc.SetRootMonitorErrorObserver(x.errObserver())
	}
	vs := newGlobalScope()
	ast, err := parser.ParseWithRuntime("c02", c02EcalSource(plan), erp)
	if err == nil {
		if err = ast.Runtime.Validate(); err == nil {
			_, err = ast.Runtime.Eval(vs, make(map[string]interface{}), erp.NewThreadID())
		}
	}
	if err != nil {
		return true, " ECAL-SETUP-ERROR " + oneLine(err.Error())
	}
	c02Cur.Store(st)
	c02CurExec.Store(x)
	defer st.flush()
	defer c02Cur.Store(nil)
	defer c02CurExec.Store(nil)
	proc.Start()

	var wg sync.WaitGroup
	for u := range plan.units {
		u := u
		un := plan.units[u]
		if un.mode != 'w' && un.mode != 'a' {
			continue
		}
		r := x.res[u]
		atomic.StoreInt32(&r.started, 1)
		call, err := parser.ParseWithRuntime("c02call", fmt.Sprintf("addEventAndWait(\"c%dn0\", \"c%d.n0\", {\"id\": 0})", un.ci, un.ci), erp)
		if err == nil {
			err = call.Runtime.Validate()
		}
		if err != nil {
			return true, " ECAL-SETUP-ERROR " + oneLine(err.Error())
		}
		done := make(chan struct{})
		wg.Add(1)
		go func() {
			defer wg.Done()
			go func() {
				st.mu.Lock()
				st.goCasc[c02Goid()] = u
				st.mu.Unlock()
				var val interface{}
				val, r.evalErr = call.Runtime.Eval(vs.NewChild(fmt.Sprintf("casc%d", u)), make(map[string]interface{}), erp.NewThreadID())
				r.retStamp = atomic.AddInt64(&c02Clock, 1)
				x.sampleEcal(u, val)
				n := 0
				if items, ok := val.([]interface{}); ok {
					n = len(items)
				}
				st.mu.Lock()
				st.rec(c02RootOfCasc(st, u), fmt.Sprintf("R%d", n))
				st.mu.Unlock()
				close(done)
			}()
			r.ret = c02Await(st, u, done)
		}()
	}
	wg.Wait()
	allRet := true
	for u, r := range x.res {
		if m := plan.units[u].mode; m == 'w' || m == 'a' {
			allRet = allRet && r.ret
		}
	}
	if allRet {
		proc.ThreadPool().WaitAll()
		proc.Finish()
	}
	return allRet, ""
}

// ---------------------------------------------------------------- result

func c02Run(payload string) string {
	if c02Stderr != nil {
		fmt.Fprintf(c02Stderr, "CASE %s\n", payload)
	}
	plan := c02Parse(payload)
	st := c02NewState(plan)
	x := &c02Exec{plan: plan, st: st}
	for range plan.units {
		x.res = append(x.res, &c02URes{})
	}
	CountRun(fmt.Sprintf("schedule mode %d", plan.sched))
	var allRet bool
	var extra string
	if plan.ecal {
		allRet, extra = x.runEcal()
	} else {
		allRet, extra = x.runGo()
	}
	var out []string
	for u, r := range x.res {
		un := plan.units[u]
		switch {
		case atomic.LoadInt32(&r.started) == 0:
			out = append(out, "notrun")
		case un.mode == 'd':
			st.mu.Lock()
			out = append(out, fmt.Sprintf("det done=%d", len(st.stamps[u])))
			st.mu.Unlock()
		case !r.ret || !r.sampled:
			out = append(out, "ret=0")
		case r.evalErr != nil:
			out = append(out, "ret=ERR "+oneLine(r.evalErr.Error()))
		default:
			early := 0
			st.mu.Lock()
			for _, t := range st.stamps[u] {
				if t > r.retStamp {
					early++
				}
			}
			nl := st.nilSeen[u]
			st.mu.Unlock()
			e := "-"
			if len(r.errs) > 0 {
				e = strings.Join(r.errs, ",")
			}
			hf := fmt.Sprintf("handler=%d fin=%d/%d", atomic.LoadInt64(&r.handler), r.fin, r.handed)
			if plan.ecal {
				hf = "handler=- fin=-"
			} else if (plan.noHandler || plan.nilRoot && plan.cascs[un.ci].nodes[0].kind != 's') && un.mode == 'w' {
				hf = fmt.Sprintf("handler=- fin=%d/%d", r.fin, r.handed)
			}
			out = append(out, fmt.Sprintf("ret=1 early=%d %s errs=%s foreign=%d nil=%d", early, hf, e, r.foreign, nl))
		}
	}
	result := strings.Join(out, " ; ") + extra
	st.mu.Lock()
	defer st.mu.Unlock()
	if st.unknown > 0 {
		result += fmt.Sprintf(" unbound-root-events=%d", st.unknown)
	}
	if st.hooks > 0 && allRet {
		CountRun("traces")
		result += " ~ " + strings.Join(st.gtrace, ",")
	}
	if !allRet {
		c02Stuck(result)
	}
	return result
}
