package main

// C14 — string interpolation evaluates only the literal's own expressions, once.
//
// A case is a one-literal program. The payload carries, besides the source, the
// token value the lexer produced for it and a table giving for every candidate
// expression text (every text between a "{{" and a later "}}") the replacement
// and the side-effect log obtained by evaluating that expression ALONE with the
// real parser and interpreter. The model computes from literal + table what the
// evaluation of the literal must return and which side effects must occur.
//
//	payload: <src-hex> <E|R> <value-hex> <code-hex>:<replacement-hex>:<log> …
//	result : <output-hex> <log>

import (
	"fmt"
	"strings"
	"sync"
	"time"

	"github.com/krotik/ecal/interpreter"
	"github.com/krotik/ecal/parser"
)

var c14Log []string

func c14Scope() parser.Scope {
	vs := newGlobalScope()
	vs.SetValue("a", "{{b}}")
	vs.SetValue("b", "B")
	vs.SetValue("c", "{{c}}")
	vs.SetValue("d", "{{x.cnt(7)}}")
	vs.SetValue("e", "}}")
	vs.SetValue("f", "{{")
	return vs
}

func c14LogStr() string {
	if len(c14Log) == 0 {
		return "-"
	}
	return strings.Join(c14Log, ".")
}

// c14EvalAlone evaluates one expression text the way an embedded expression is
// defined to be evaluated: parse, validate, evaluate, text of the value or "#"+error.
func c14EvalAlone(code string) (repl string, lg string) {
	c14Log = nil
	defer func() {
		if e := recover(); e != nil {
			// the real evaluation of this expression panics: the literal's evaluation cannot agree
			repl, lg = "\x00PANIC", "-"
		}
	}()
	// the error text carries the name of the parsed unit; use the name the interpreter uses
	res, err := evalProgramNamed("String interpolation: "+code, code, c14Scope().NewChild("x"), &memLog{})
	if err != nil {
		return "#" + err.Error(), c14LogStr()
	}
	return fmt.Sprint(res), c14LogStr()
}

func c14Payload(src string) (string, bool) {
	toks := parser.LexToList("t", src)
	if len(toks) != 2 || toks[0].ID != parser.TokenSTRING || toks[1].ID != parser.TokenEOF {
		return "", false
	}
	val := toks[0].Val
	flag := "R"
	if toks[0].AllowEscapes {
		flag = "E"
	}
	var entries []string
	seen := map[string]bool{}
	for i := 0; i+1 < len(val); i++ {
		if val[i] != '{' || val[i+1] != '{' {
			continue
		}
		for j := i + 2; j+1 < len(val); j++ {
			if val[j] != '}' || val[j+1] != '}' {
				continue
			}
			code := val[i+2 : j]
			if seen[code] {
				continue
			}
			seen[code] = true
			if flag == "E" {
				repl, lg := c14EvalAlone(code)
				entries = append(entries, hx(code)+":"+hx(repl)+":"+lg)
			}
		}
	}
	p := hx(src) + " " + flag + " " + hx(val)
	if len(entries) > 0 {
		p += " " + strings.Join(entries, " ")
	}
	return p, true
}

// c14RunShared evaluates ONE parsed literal node re-entrantly (REC: an embedded
// expression calls x.rec, which evaluates the same node again with n-1) or from
// several goroutines at once (PAR: thread i evaluates it repeatedly with n = i).
func c14RunShared(payload string) string {
	f := strings.Split(payload, " ")
	var k int
	fmt.Sscanf(f[1], "%d", &k)
	src := unhx(f[2])
	erp := interpreter.NewECALRuntimeProvider("t", nil, &memLog{})
	ast, err := parser.ParseWithRuntime("t", src, erp)
	if err == nil {
		err = ast.Runtime.Validate()
	}
	if err != nil {
		return "ERR " + oneLine(err.Error())
	}
	evalWith := func(n int) string {
		vs := c14Scope()
		vs.SetValue("n", float64(n))
		res, err := ast.Runtime.Eval(vs, make(map[string]interface{}), erp.NewThreadID())
		if err != nil {
			return "ERR"
		}
		return hx(fmt.Sprint(res))
	}
	if f[0] == "REC" {
		c14Rec = func(n int) string {
			if n <= 0 {
				return "."
			}
			return unhx(evalWith(n - 1))
		}
		return evalWith(k)
	}
	outs := make([]string, k)
	var wg sync.WaitGroup
	for i := 0; i < k; i++ {
		wg.Add(1)
		go func(i int) {
			defer wg.Done()
			defer func() {
				if e := recover(); e != nil {
					outs[i] = "PANIC"
				}
			}()
			first := evalWith(i)
			for r := 0; r < 300; r++ {
				if evalWith(i) != first {
					first = "MIXED"
					break
				}
			}
			outs[i] = first
		}(i)
	}
	wg.Wait()
	return strings.Join(outs, ",")
}

var c14Rec func(n int) string

// c14Lex runs the REAL lexer on the source of a literal: token kinds and, for string tokens, the value and
// the raw / interpolating flag — what the interpolation stage receives ("escape sequences are interpreted,
// a raw string is returned untouched").
func c14Lex(src string) string {
	var out []string
	for _, t := range parser.LexToList("t", src) {
		switch {
		case t.ID == parser.TokenSTRING:
			f := "R"
			if t.AllowEscapes {
				f = "E"
			}
			out = append(out, "S"+f+hx(t.Val))
		case t.ID == parser.TokenError:
			out = append(out, "X")
		default:
			out = append(out, fmt.Sprintf("T%d", int(t.ID)))
		}
	}
	return strings.Join(out, ",")
}

func init() {
	atoms := []string{"{{", "}}", "{", "}", `\"`, "'", `\n`, "a", "b", "c", "d", "e", "f", "1", "+", " ",
		"x.cnt(1)", "x.cnt(2)", `\\`, `{`, `}`, "é"}
	forms := [][2]string{{`"`, `"`}, {`'`, `'`}, {`r"`, `"`}, {`r'`, `'`}}
	register("C14", &Prop{
		Timeout: 2 * time.Second,
		Setup: func() {
			registerX("rec", func(args []interface{}) (interface{}, error) {
				n, _ := args[0].(float64)
				return c14Rec(int(n)), nil
			})
			registerX("cnt", func(args []interface{}) (interface{}, error) {
				c14Log = append(c14Log, fmt.Sprint(args...))
				return "c" + fmt.Sprint(args...), nil
			})
		},
		Gen: func(g *Gen) {
			emit := func(body string, form [2]string) {
				src := form[0] + body + form[1]
				p, ok := c14Payload(src)
				if !ok {
					g.Count("not-one-string-token")
					return
				}
				g.Count("form " + form[0])
				g.Emit(p)
			}
			// corpus first: the inputs that failed before the repair
			for _, s := range []string{`"}} {{"`, `"{{a}}"`, `"{{c}}"`, `"{{d}}"`, `"{{x.cnt(1)}}{{a}}{{x.cnt(2)}}"`,
				`"{{f}}x.cnt(1){{e}}"`, `"{{e}}{{x.cnt(1)}}"`, `r"{{x.cnt(1)}}"`, `"{{x.cnt(1)}}"`, `"{{1+}}{{x.cnt(2)}}"`} {
				p, ok := c14Payload(s)
				if !ok {
					panic("corpus literal does not lex: " + s)
				}
				g.Count("corpus")
				g.Emit(p)
			}
			// the lexer stage: literal sources (also ones that do not form one string token) through the real
			// lexer and the lexer model — values of quoted strings after escape processing, raw strings untouched
			lexAtoms := []string{`\\`, `\"`, `\'`, `"`, `'`, `\n`, `\t`, `\u007b`, `\x41`, `\101`, `\`, "{{", "}}", "a", " ", "é", "\n", "r", "\xff"}
			lexForms := [][2]string{{`"`, `"`}, {`'`, `'`}, {`r"`, `"`}, {`r'`, `'`}}
			nLex := 3000
			if g.Thorough() {
				nLex = 60000
			}
			var lexRec func(prefix string, n int)
			lexRec = func(prefix string, n int) {
				for _, f := range lexForms {
					g.Count("kind LEX")
					g.Emit("LEX " + hx(f[0]+prefix+f[1]))
				}
				if n == 2 {
					return
				}
				for _, a := range lexAtoms {
					lexRec(prefix+a, n+1)
				}
			}
			lexRec("", 0)
			for i := 0; i < nLex; i++ {
				var sb strings.Builder
				for k, n := 0, 1+g.R.Intn(6); k < n; k++ {
					sb.WriteString(lexAtoms[g.R.Intn(len(lexAtoms))])
				}
				f := lexForms[g.R.Intn(len(lexForms))]
				tail := ""
				if g.R.Intn(4) == 0 {
					tail = " + " + f[0] + "x" + f[1]
				}
				g.Count("kind LEX")
				g.Emit("LEX " + hx(f[0]+sb.String()+f[1]+tail))
			}
			// re-entrant and concurrent evaluation of ONE literal node (kinds REC and PAR)
			nRP := 150
			if g.Thorough() {
				nRP = 3000
			}
			rpText := []string{"<", ">", " ", "{", "}", "}}", "-", "é"}
			rpCode := []string{"n", "n", "a", "b", "1+1", "e", "f", "nope"}
			for i := 0; i < nRP; i++ {
				var sb strings.Builder
				np := 1 + g.R.Intn(5)
				for k := 0; k < np; k++ {
					switch g.R.Intn(4) {
					case 0:
						sb.WriteString(rpText[g.R.Intn(len(rpText))])
					case 1:
						if i%2 == 0 {
							sb.WriteString("{{x.rec(n)}}")
						} else {
							sb.WriteString("{{n}}")
						}
					default:
						sb.WriteString("{{" + rpCode[g.R.Intn(len(rpCode))] + "}}")
					}
				}
				src := `"` + sb.String() + `"`
				p, ok := c14Payload(src)
				if !ok {
					continue
				}
				if i%2 == 0 {
					g.Count("kind REC")
					g.Emit(fmt.Sprintf("REC %d %s", 1+g.R.Intn(4), p))
				} else {
					g.Count("kind PAR")
					g.Emit(fmt.Sprintf("PAR %d %s", 2+g.R.Intn(7), p))
				}
			}
			maxLen := 3
			nRandom := 6000
			if g.Thorough() {
				maxLen = 4
				nRandom = 150000
			}
			// exhaustive: all atom sequences up to maxLen, interpolating double-quoted form;
			// the other forms for sequences up to maxLen-1
			var rec func(prefix string, n int)
			rec = func(prefix string, n int) {
				emit(prefix, forms[0])
				if n+1 <= maxLen-1 || n == 0 {
					for _, f := range forms[1:] {
						emit(prefix, f)
					}
				}
				if n == maxLen {
					return
				}
				for _, a := range atoms {
					rec(prefix+a, n+1)
				}
			}
			rec("", 0)
			// structured random literals: text atoms and well-formed {{expr}} groups
			exprs := []string{"a", "b", "c", "d", "e", "f", "x.cnt(1)", "x.cnt(2)", "1+1", "1+", "", " a ", "a{{b", "{1}", "x.cnt(1)+x.cnt(2)", "b+a", "nope", "\\u007b"}
			for i := 0; i < nRandom; i++ {
				n := 1 + g.R.Intn(5)
				var sb strings.Builder
				for k := 0; k < n; k++ {
					switch g.R.Intn(5) {
					case 0, 1, 2:
						sb.WriteString("{{" + exprs[g.R.Intn(len(exprs))] + "}}")
					default:
						sb.WriteString(atoms[g.R.Intn(len(atoms))])
					}
				}
				emit(sb.String(), forms[g.R.Intn(len(forms))])
			}
			// random longer literals, biased towards markers
			for i := 0; i < nRandom; i++ {
				n := 4 + g.R.Intn(8)
				var sb strings.Builder
				for k := 0; k < n; k++ {
					if g.R.Intn(3) == 0 {
						sb.WriteString(atoms[g.R.Intn(2)])
					} else {
						sb.WriteString(atoms[g.R.Intn(len(atoms))])
					}
				}
				emit(sb.String(), forms[g.R.Intn(len(forms))])
			}
		},
		Run: func(payload string) string {
			if strings.HasPrefix(payload, "LEX ") {
				return c14Lex(unhx(strings.TrimPrefix(payload, "LEX ")))
			}
			if strings.HasPrefix(payload, "REC ") || strings.HasPrefix(payload, "PAR ") {
				return c14RunShared(payload)
			}
			src := unhx(strings.SplitN(payload, " ", 2)[0])
			c14Log = nil
			res, err := evalProgram(src, c14Scope(), &memLog{})
			if err != nil {
				return "ERR " + oneLine(err.Error())
			}
			s, ok := res.(string)
			if !ok {
				return fmt.Sprintf("NOTSTRING %T", res)
			}
			return hx(s) + " " + c14LogStr()
		},
	})
}
