package main

// C14 — string interpolation evaluates only the literal's own expressions, once.
//
// A case is a one-literal program. The payload carries, besides the source, the
// token value the lexer produced for it and a table giving for every candidate
// expression text (every text between a "{{" and a later "}}") the replacement
// and the side-effect log obtained by evaluating that expression ALONE with the
// real parser and interpreter. The model computes from literal + table what the
// evaluation of the literal must return and which side effects must occur.
//
//	payload: <src-hex> <E|R> <value-hex> <code-hex>:<replacement-hex>:<log> …
//	result : <output-hex> <log>

import (
	"fmt"
	"regexp"
	"strconv"
	"strings"
	"sync"
	"time"

	"github.com/krotik/ecal/interpreter"
	"github.com/krotik/ecal/parser"
	"github.com/krotik/ecal/util"
)

var c14Log []string

func c14Scope() parser.Scope {
	vs := newGlobalScope()
	vs.SetValue("a", "{{b}}")
	vs.SetValue("b", "B")
	vs.SetValue("c", "{{c}}")
	vs.SetValue("d", "{{x.cnt(7)}}")
	vs.SetValue("e", "}}")
	vs.SetValue("f", "{{")
	// value kinds and sizes for the output step of one expression (kind OUT, corpus): text that looks like a
	// format string, long texts, containers, numbers that print in exponent form, null, a function value
	vs.SetValue("g", c14Long5k)
	vs.SetValue("h", c14Long100k)
	vs.SetValue("l", []interface{}{float64(1), "a{{b}}", []interface{}{float64(2)}})
	vs.SetValue("m", map[interface{}]interface{}{"k": float64(1)})
	vs.SetValue("k", float64(1000000))
	vs.SetValue("z", nil)
	if c14Fn == nil {
		fvs := newGlobalScope()
		if _, err := evalProgram("func fn(a) {\n return a\n}", fvs, &memLog{}); err == nil {
			c14Fn, _, _ = fvs.GetValue("fn")
		}
	}
	vs.SetValue("fn", c14Fn)
	return vs
}

var (
	c14Fn       interface{}
	c14Long5k   = strings.Repeat("100%d of %s is 5%% {{b}} ", 200)
	c14Long100k = strings.Repeat("0123456789abcdefghijklmnopqrstuvwxyz%v}}{{", 2500)
	c14Put      []string
)

func c14LogStr() string {
	if len(c14Log) == 0 {
		return "-"
	}
	return strings.Join(c14Log, ".")
}

// How an evaluation error of an embedded expression shows up in the result is learnt from the real code by
// one probe ("{{1+}}"), not hard-coded: the marker put in front of the error text ("#") and the name given to
// the parsed unit ("String interpolation: <code>"), which is part of the error text. A harmless rename of
// either must not alarm; what the property fixes is that the error text of THAT expression stands there.
var (
	c14Marker     = "#"
	c14UnitPrefix = "String interpolation: "
	c14UnitSuffix = ""
	c14Learnt     sync.Once
)

func c14Learn() {
	c14Learnt.Do(func() {
		defer func() { recover() }()
		const code = "1+"
		real, err := evalProgram(`"{{`+code+`}}"`, c14Scope(), &memLog{})
		rs, ok := real.(string)
		if err != nil || !ok {
			return
		}
		_, aerr := evalProgramNamed("\x01", code, c14Scope().NewChild("x"), &memLog{})
		if aerr == nil {
			return
		}
		parts := strings.SplitN(aerr.Error(), "\x01", 2)
		if len(parts) != 2 || parts[0] == "" {
			return
		}
		i := strings.Index(rs, parts[0])
		if i < 0 || !strings.HasSuffix(rs, parts[1]) {
			return
		}
		name := rs[i+len(parts[0]) : len(rs)-len(parts[1])]
		k := strings.LastIndex(name, code)
		if k < 0 {
			return
		}
		c14Marker, c14UnitPrefix, c14UnitSuffix = rs[:i], name[:k], name[k+len(code):]
	})
}

// c14EvalAlone evaluates one expression text the way an embedded expression is
// defined to be evaluated: parse, validate, evaluate, text of the value or marker+error.
func c14EvalAlone(code string) (repl string, lg string) {
	c14Learn()
	c14Log = nil
	defer func() {
		if e := recover(); e != nil {
			// the real evaluation of this expression panics: the literal's evaluation cannot agree
			repl, lg = "\x00PANIC", "-"
		}
	}()
	// the error text carries the name of the parsed unit; use the name the interpreter uses
	res, err := evalProgramNamed(c14UnitPrefix+code+c14UnitSuffix, code, c14Scope().NewChild("x"), &memLog{})
	if err != nil {
		return c14Marker + err.Error(), c14LogStr()
	}
	return fmt.Sprint(res), c14LogStr()
}

// c14Repl is the table entry used for COMPOSITION (which expressions, in which order, once, where their
// results go, nothing scanned twice): the replacement of one expression is taken from the real code itself,
// by evaluating the one-expression literal "{{code}}" — possible exactly for the codes a correct
// implementation can ever evaluate (no "}}" inside, no "}" at the end). So the label inside an error text,
// trimming of the code, the marker character … are the code's own business here (they are not what the
// composition clauses are about); the OUTPUT STEP of one expression (value -> text, failure -> marker +
// error of THAT expression, every failure stage) is checked separately and independently by kind OUT.
func c14Repl(code string) (repl string, lg string) {
	if strings.Contains(code, "}}") || strings.HasSuffix(code, "}") {
		return c14EvalAlone(code)
	}
	src := strconv.Quote("{{" + code + "}}")
	toks := parser.LexToList("t", src)
	if len(toks) != 2 || toks[0].ID != parser.TokenSTRING || !toks[0].AllowEscapes || toks[0].Val != "{{"+code+"}}" {
		return c14EvalAlone(code)
	}
	c14Log = nil
	defer func() {
		if e := recover(); e != nil {
			repl, lg = "\x00PANIC", "-"
		}
	}()
	res, err := evalProgram(src, c14Scope(), &memLog{})
	s, ok := res.(string)
	if err != nil || !ok {
		return c14EvalAlone(code)
	}
	return s, c14LogStr()
}

// c14Canon: canonical form of the outcome of ONE expression. Oracle side (independent of rt_value.go):
// parse, validate, evaluate the code alone; a value is its fmt.Sprint text, a failure is (type, detail) of
// the error object — no message text, label or position.
func c14OracleOut(code string) (out string) {
	defer func() {
		if e := recover(); e != nil {
			out = "P"
		}
	}()
	c14Log = nil
	res, err := evalProgramNamed("u", code, c14Scope().NewChild("x"), &memLog{})
	if err == nil {
		return "V " + hx(fmt.Sprint(res))
	}
	t, d := c14ErrParts(err)
	return "E " + hx(t) + " " + hx(d)
}

func c14ErrParts(err error) (string, string) {
	switch e := err.(type) {
	case *util.RuntimeError:
		return fmt.Sprint(e.Type), e.Detail
	case *util.RuntimeErrorWithDetail:
		return fmt.Sprint(e.Type), e.Detail
	case *parser.Error:
		return fmt.Sprint(e.Type), e.Detail
	}
	// other error kinds (control signals are unexported types, plain errors of accesses / imports): the text
	// behind the unit label — this evaluation names its unit "u" — and without the trailing position
	t := err.Error()
	if i := strings.Index(t, "(u): "); i >= 0 {
		t = t[i+5:]
	}
	return "?", c14PosRe.ReplaceAllString(t, "")
}

var c14PosRe = regexp.MustCompile(` \(Line:\d+ Pos:\d+\)$`)

// c14RealOut evaluates the literal "{{code}}" with the real code and brings the result to the same form:
// a result that starts with the (learnt) marker and is an ECAL / parse error text with the oracle's type and
// detail is `E type detail`; anything else is the value text.
func c14RealOut(code string, oracle string) string {
	c14Learn()
	src := strconv.Quote("{{" + code + "}}")
	c14Log = nil
	res, err := evalProgram(src, c14Scope(), &memLog{})
	if err != nil {
		return "ERR " + oneLine(err.Error())
	}
	s, ok := res.(string)
	if !ok {
		return fmt.Sprintf("NOTSTRING %T", res)
	}
	f := strings.Split(oracle, " ")
	if f[0] == "E" && len(f) == 3 && strings.HasPrefix(s, c14Marker) {
		t, d := unhx(f[1]), unhx(f[2])
		body := s[len(c14Marker):]
		if t == "?" {
			// error kinds without (type, detail): the oracle's text must stand behind the unit label
			b := c14PosRe.ReplaceAllString(body, "")
			if b == d || strings.HasSuffix(b, ": "+d) {
				return oracle
			}
		} else if (strings.HasPrefix(body, "ECAL error in ") || strings.HasPrefix(body, "Parse error in ")) &&
			(strings.Contains(body, ": "+t+" ("+d+")") || (d == "" && strings.Contains(body, ": "+t))) {
			return oracle
		}
		return "E? " + hx(s)
	}
	return "V " + hx(s)
}

// c14PayloadWith builds a payload whose table holds exactly the given expression texts (the ones the
// generator wrote into the literal) instead of every text between some "{{" and some later "}}" — for long
// literals, where the number of such pairs is quadratic. An expression the model decides to evaluate that
// is not in the table is reported by the model as MISSING (= a disagreement).
func c14PayloadWith(src string, codes []string) (string, bool) {
	toks := parser.LexToList("t", src)
	if len(toks) != 2 || toks[0].ID != parser.TokenSTRING || toks[1].ID != parser.TokenEOF || !toks[0].AllowEscapes {
		return "", false
	}
	var entries []string
	seen := map[string]bool{}
	for _, code := range codes {
		if seen[code] {
			continue
		}
		seen[code] = true
		repl, lg := c14Repl(code)
		entries = append(entries, hx(code)+":"+hx(repl)+":"+lg)
	}
	return hx(src) + " E " + hx(toks[0].Val) + " " + strings.Join(entries, " "), true
}

// c14Stateful: the expressions of ONE literal share a scope and run one after the other — a literal whose
// expressions assign. `v` is a global (0 at the start), `w` is first defined by an expression of the literal
// (so it lives in the scope the literal's expressions share). Payload: ST <src-hex> <value-hex> <text of
// the value of an assignment> <text of an undefined variable>; result: <output-hex> <log> v=<final v>.
func c14StatefulPayload(body string) (string, bool) {
	src := `"` + body + `"`
	toks := parser.LexToList("t", src)
	if len(toks) != 2 || toks[0].ID != parser.TokenSTRING || toks[1].ID != parser.TokenEOF {
		return "", false
	}
	vs := c14Scope()
	vs.SetValue("v", float64(0))
	asg, err1 := evalProgramNamed("p", "v := v + 1", vs.NewChild("x"), &memLog{})
	und, err2 := evalProgramNamed("p", "w", c14Scope().NewChild("x"), &memLog{})
	if err1 != nil || err2 != nil {
		return "", false
	}
	return "ST " + hx(src) + " " + hx(toks[0].Val) + " " + hx(fmt.Sprint(asg)) + " " + hx(fmt.Sprint(und)), true
}

func c14RunStateful(payload string) string {
	f := strings.Split(payload, " ")
	vs := c14Scope()
	vs.SetValue("v", float64(0))
	c14Log = nil
	res, err := evalProgram(unhx(f[1]), vs, &memLog{})
	if err != nil {
		return "ERR " + oneLine(err.Error())
	}
	s, ok := res.(string)
	if !ok {
		return fmt.Sprintf("NOTSTRING %T", res)
	}
	v, _, _ := vs.GetValue("v")
	return hx(s) + " " + c14LogStr() + " v=" + fmt.Sprint(v)
}

func c14Payload(src string) (string, bool) {
	toks := parser.LexToList("t", src)
	if len(toks) != 2 || toks[0].ID != parser.TokenSTRING || toks[1].ID != parser.TokenEOF {
		return "", false
	}
	val := toks[0].Val
	flag := "R"
	if toks[0].AllowEscapes {
		flag = "E"
	}
	var entries []string
	seen := map[string]bool{}
	for i := 0; i+1 < len(val); i++ {
		if val[i] != '{' || val[i+1] != '{' {
			continue
		}
		for j := i + 2; j+1 < len(val); j++ {
			if val[j] != '}' || val[j+1] != '}' {
				continue
			}
			code := val[i+2 : j]
			if seen[code] {
				continue
			}
			seen[code] = true
			if flag == "E" {
				repl, lg := c14Repl(code)
				entries = append(entries, hx(code)+":"+hx(repl)+":"+lg)
			}
		}
	}
	p := hx(src) + " " + flag + " " + hx(val)
	if len(entries) > 0 {
		p += " " + strings.Join(entries, " ")
	}
	return p, true
}

// c14RunShared evaluates ONE parsed literal node re-entrantly (REC: an embedded
// expression calls x.rec, which evaluates the same node again with n-1) or from
// several goroutines at once (PAR: thread i evaluates it repeatedly with n = i).
func c14RunShared(payload string) string {
	f := strings.Split(payload, " ")
	var k int
	fmt.Sscanf(f[1], "%d", &k)
	src := unhx(f[2])
	erp := interpreter.NewECALRuntimeProvider("t", nil, &memLog{})
	ast, err := parser.ParseWithRuntime("t", src, erp)
	if err == nil {
		err = ast.Runtime.Validate()
	}
	if err != nil {
		return "ERR " + oneLine(err.Error())
	}
	evalWith := func(n int) string {
		vs := c14Scope()
		vs.SetValue("n", float64(n))
		res, err := ast.Runtime.Eval(vs, make(map[string]interface{}), erp.NewThreadID())
		if err != nil {
			return "ERR"
		}
		return hx(fmt.Sprint(res))
	}
	if f[0] == "REC" {
		c14Rec = func(n int) string {
			if n <= 0 {
				return "."
			}
			return unhx(evalWith(n - 1))
		}
		return evalWith(k)
	}
	outs := make([]string, k)
	var wg sync.WaitGroup
	for i := 0; i < k; i++ {
		wg.Add(1)
		go func(i int) {
			defer wg.Done()
			defer func() {
				if e := recover(); e != nil {
					outs[i] = "PANIC"
				}
			}()
			first := evalWith(i)
			for r := 0; r < 300; r++ {
				if evalWith(i) != first {
					first = "MIXED"
					break
				}
			}
			outs[i] = first
		}(i)
	}
	wg.Wait()
	return strings.Join(outs, ",")
}

var c14Rec func(n int) string

func bitLen(n int) int {
	b := 0
	for n > 0 {
		b++
		n >>= 1
	}
	return b
}

// c14Lex runs the REAL lexer on the source of a literal: token kinds and, for string tokens, the value and
// the raw / interpolating flag — what the interpolation stage receives ("escape sequences are interpreted,
// a raw string is returned untouched").
func c14Lex(src string) string {
	var out []string
	for _, t := range parser.LexToList("t", src) {
		switch {
		case t.ID == parser.TokenSTRING:
			f := "R"
			if t.AllowEscapes {
				f = "E"
			}
			out = append(out, "S"+f+hx(t.Val))
		case t.ID == parser.TokenError:
			out = append(out, "X")
		default:
			out = append(out, fmt.Sprintf("T%d", int(t.ID)))
		}
	}
	return strings.Join(out, ",")
}

func init() {
	atoms := []string{"{{", "}}", "{", "}", `\"`, "'", `\n`, "a", "b", "c", "d", "e", "f", "1", "+", " ",
		"x.cnt(1)", "x.cnt(2)", `\\`, "\\u007b", "\\u007d", "é"}
	forms := [][2]string{{`"`, `"`}, {`'`, `'`}, {`r"`, `"`}, {`r'`, `'`}}
	register("C14", &Prop{
		Timeout: 20 * time.Second,
		Setup: func() {
			registerX("rec", func(args []interface{}) (interface{}, error) {
				n, _ := args[0].(float64)
				return c14Rec(int(n)), nil
			})
			registerX("put", func(args []interface{}) (interface{}, error) {
				c14Put = append(c14Put, fmt.Sprint(args...))
				return nil, nil
			})
			registerX("cnt", func(args []interface{}) (interface{}, error) {
				c14Log = append(c14Log, fmt.Sprint(args...))
				return "c" + fmt.Sprint(args...), nil
			})
		},
		Gen: func(g *Gen) {
			emit := func(body string, form [2]string) {
				src := form[0] + body + form[1]
				p, ok := c14Payload(src)
				if !ok {
					g.Count("not-one-string-token")
					return
				}
				g.Count("form " + form[0])
				g.Emit(p)
			}
			// corpus first: the inputs that failed before the repair
			for _, s := range []string{`"}} {{"`, `"{{a}}"`, `"{{c}}"`, `"{{d}}"`, `"{{x.cnt(1)}}{{a}}{{x.cnt(2)}}"`,
				`"{{f}}x.cnt(1){{e}}"`, `"{{e}}{{x.cnt(1)}}"`, `r"{{x.cnt(1)}}"`, `"{{x.cnt(1)}}"`, `"{{1+}}{{x.cnt(2)}}"`,
				// error texts that carry markers (the operand value is printed in the message) must not be scanned again
				`"{{1+a}}"`, `"{{a+1}}{{x.cnt(1)}}"`, `"{{raise(d)}}"`, `"{{raise(a, c, f)}}{{x.cnt(2)}}"`, `"{{1+d}}"`,
				// control signals, Validate-stage failures, format-looking and long values stay DATA of the one expression
				`"a{{return 5}}b"`, `"[{{1 := 2}}]"`, `"{{g}}"`, `"<{{h}}>{{x.cnt(1)}}"`, `"{{break}}{{x.cnt(2)}}"`, `'{{"100%d"}}'`,
				// markers built by escape sequences ARE markers: the lexer unquotes first
				"\"\\u007b\\u007bb}}\"", "\"\\u007b{b}\\u007d\"", "\"{{b\\x7d\\x7d\""} {
				p, ok := c14Payload(s)
				if !ok {
					panic("corpus literal does not lex: " + s)
				}
				g.Count("corpus")
				g.Emit(p)
			}
			// the lexer stage: literal sources (also ones that do not form one string token) through the real
			// lexer and the lexer model — values of quoted strings after escape processing, raw strings untouched
			lexAtoms := []string{`\\`, `\"`, `\'`, `"`, `'`, `\n`, `\t`, `\u007b`, `\x41`, `\101`, `\`, "{{", "}}", "a", " ", "é", "\n", "r", "\xff",
				`\a`, `\b`, `\f`, `\r`, `\v`, `\U0000007b`, `\U00110000`, `\ud800`, `\400`, `\x4`, `\u12`, `\q`, `\0`, "7"}
			lexForms := [][2]string{{`"`, `"`}, {`'`, `'`}, {`r"`, `"`}, {`r'`, `'`}}
			nLex := 3000
			if g.Thorough() {
				nLex = 60000
			}
			var lexRec func(prefix string, n int)
			lexRec = func(prefix string, n int) {
				for _, f := range lexForms {
					g.Count("kind LEX")
					g.Emit("LEX " + hx(f[0]+prefix+f[1]))
				}
				if n == 2 {
					return
				}
				for _, a := range lexAtoms {
					lexRec(prefix+a, n+1)
				}
			}
			for _, s := range []string{`'it\'s'`, `"it\'s"`, `'say \"hi\"'`, `"say \"hi\""`, `'a\'{{b}}'`, `'\''`, `"\'"`} {
				g.Count("kind LEX corpus")
				g.Emit("LEX " + hx(s))
			}
			lexRec("", 0)
			for i := 0; i < nLex; i++ {
				var sb strings.Builder
				for k, n := 0, 1+g.R.Intn(6); k < n; k++ {
					sb.WriteString(lexAtoms[g.R.Intn(len(lexAtoms))])
				}
				f := lexForms[g.R.Intn(len(lexForms))]
				tail := ""
				if g.R.Intn(4) == 0 {
					tail = " + " + f[0] + "x" + f[1]
				}
				g.Count("kind LEX")
				g.Emit("LEX " + hx(f[0]+sb.String()+f[1]+tail))
			}
			// the OUTPUT STEP of one expression, against an independent evaluation (kind OUT): value kinds and sizes,
			// every failure stage (parser, Validate, Eval, control signals, raise, import)
			outCodes := []string{"a", "b", "g", "h", "l", "m", "k", "z", "fn", "0.1+0.2", "1/3", "k*k", "-0", "true", "null",
				`"100%d"`, `"%s%s%n"`, `[1, "a", [2]]`, `{"k": 1}`, "x.cnt(3)", "g", " a ", "a  ",
				"1 := 2", "let 1", "[a, 1] := [1, 2]", "return 1", "return", "break", "continue",
				`raise("E1", a, [1])`, `raise(a, e, f)`, "raise(d)", `raise("%d")`, "1+", "nope + 1", `1 + "a"`, `1 + "%d"`,
				`import "nofile" as q`, "fn(", "a[", "", " ", "x.nope()", "for i in 1 {}", "if 1 {", "sink s kindmatch 1 {}",
				"a.b.c", "l[9]", "m.zz", "fn(1, 2, 3)", "len()", "len(1)"}
			for _, c := range outCodes {
				if strings.Contains(c, "}}") {
					continue // no literal can hold an expression that contains the closing marker
				}
				if strings.HasSuffix(c, "}") {
					c += " " // … nor one that ends in `}`: write it with a blank behind
				}
				o := c14OracleOut(c)
				g.Count("kind OUT " + o[:1])
				g.Emit("OUT " + hx(c) + " " + o)
			}
			// the literal in CONTEXT (kind CTX): inside a function (parameter, local holding marker-laden text),
			// inside a loop body — the expressions must see the variables of the place where the literal stands
			ctxLits := []string{"<{{p}}>", "{{q}}{{p}}", "{{a}}|{{p}}|{{q}}", "{{x.cnt(p)}}{{p}}{{x.cnt(p)}}", "}}{{p}}{{", "{{p}}{{q}}{{a}}{{x.cnt(p)}}"}
			for _, lit := range ctxLits {
				args := []string{"42", `r"s{{b}}"`, `"}}"`}
				vals := []string{"42", "s{{b}}", "}}"}
				prog := "func g(p) {\n let q := \"Q{{\"\n x.put(\"" + lit + "\")\n}\n"
				var tabs []string
				for j, a := range args {
					prog += "g(" + a + ")\n"
					tabs = append(tabs, strings.Join([]string{
						hx("p") + ":" + hx(vals[j]) + ":-", hx("q") + ":" + hx("Q{{") + ":-", hx("a") + ":" + hx("{{b}}") + ":-",
						hx("x.cnt(p)") + ":" + hx("c"+vals[j]) + ":" + hx(vals[j])}, ","))
				}
				g.Count("kind CTX function")
				g.Emit("CTX " + hx(prog) + " " + hx(lit) + " " + strings.Join(tabs, "|"))
				loopLit := strings.NewReplacer("p", "i", "q", "(i*2)").Replace(lit)
				prog = "for i in range(1, 3) {\n x.put(\"" + loopLit + "\")\n}\n"
				tabs = nil
				for i := 1; i <= 3; i++ {
					tabs = append(tabs, strings.Join([]string{
						hx("i") + ":" + hx(fmt.Sprint(i)) + ":-", hx("(i*2)") + ":" + hx(fmt.Sprint(2*i)) + ":-", hx("a") + ":" + hx("{{b}}") + ":-",
						hx("x.cnt(i)") + ":" + hx("c"+fmt.Sprint(i)) + ":" + hx(fmt.Sprint(i))}, ","))
				}
				g.Count("kind CTX loop")
				g.Emit("CTX " + hx(prog) + " " + hx(loopLit) + " " + strings.Join(tabs, "|"))
			}
			// size scaling: literals with up to 300 expressions / ~8 KB ("replaces EACH {{expr}}": an iteration cap,
			// a length threshold or a buffer that is reused past some size shows only here). Expression i is
			// x.cnt(i), so order and "once" are visible in the log; some expressions return marker-laden text or fail.
			bigKs := []int{6, 7, 8, 9, 10, 15, 16, 17, 31, 32, 33, 63, 64, 65, 100, 127, 128, 129, 200, 255, 256, 257, 300}
			nBigRandom := 40
			if g.Thorough() {
				nBigRandom = 600
			}
			for i := 0; i < nBigRandom; i++ {
				bigKs = append(bigKs, 1+g.R.Intn(300))
			}
			bigText := []string{"", "", "<", "é", " ", "x", ">", "}", "lorem ipsum dolor sit amet, consectetur adipiscing", "\\n"}
			bigOther := []string{"a", "e", "f", "b", "1+", "d", "nope", "1+a"}
			for _, k := range bigKs {
				var sb strings.Builder
				var codes []string
				for j := 1; j <= k; j++ {
					sb.WriteString(bigText[g.R.Intn(len(bigText))])
					code := fmt.Sprintf("x.cnt(%d)", j)
					if g.R.Intn(9) == 0 {
						code = bigOther[g.R.Intn(len(bigOther))]
					}
					codes = append(codes, code)
					sb.WriteString("{{" + code + "}}")
				}
				sb.WriteString(bigText[g.R.Intn(len(bigText))])
				if p, ok := c14PayloadWith(`"`+sb.String()+`"`, codes); ok {
					g.Count("kind BIG")
					g.Count(fmt.Sprintf("BIG size <= %d bytes", 1<<uint(bitLen(sb.Len()))))
					g.Emit(p)
				}
			}
			// stateful expressions: the expressions of one literal assign and read (kind ST)
			stExprs := []string{"v := v + 1", "v", "x.cnt(v)", "v := v + 2"}
			stText := []string{"<", " ", "é", ""}
			var stRec func(prefix string, n int)
			stRec = func(prefix string, n int) {
				if n > 0 {
					if p, ok := c14StatefulPayload(prefix); ok {
						g.Count("kind ST")
						g.Emit(p)
					}
				}
				if n == 3 {
					return
				}
				for _, e := range stExprs {
					stRec(prefix+stText[(n+len(e))%len(stText)]+"{{"+e+"}}", n+1)
				}
			}
			stRec("", 0)
			nST := 300
			if g.Thorough() {
				nST = 6000
			}
			for i := 0; i < nST; i++ {
				var sb strings.Builder
				for k, n := 0, 2+g.R.Intn(10); k < n; k++ {
					sb.WriteString(stText[g.R.Intn(len(stText))])
					sb.WriteString("{{" + stExprs[g.R.Intn(len(stExprs))] + "}}")
				}
				if p, ok := c14StatefulPayload(sb.String()); ok {
					g.Count("kind ST")
					g.Emit(p)
				}
			}
			// re-entrant and concurrent evaluation of ONE literal node (kinds REC and PAR)
			nRP := 150
			if g.Thorough() {
				nRP = 3000
			}
			rpText := []string{"<", ">", " ", "{", "}", "}}", "-", "é"}
			rpCode := []string{"n", "n", "a", "b", "1+1", "e", "f", "nope"}
			for i := 0; i < nRP; i++ {
				var sb strings.Builder
				np := 1 + g.R.Intn(5)
				for k := 0; k < np; k++ {
					switch g.R.Intn(4) {
					case 0:
						sb.WriteString(rpText[g.R.Intn(len(rpText))])
					case 1:
						if i%2 == 0 {
							sb.WriteString("{{x.rec(n)}}")
						} else {
							sb.WriteString("{{n}}")
						}
					default:
						sb.WriteString("{{" + rpCode[g.R.Intn(len(rpCode))] + "}}")
					}
				}
				src := `"` + sb.String() + `"`
				p, ok := c14Payload(src)
				if !ok {
					continue
				}
				if i%2 == 0 {
					g.Count("kind REC")
					g.Emit(fmt.Sprintf("REC %d %s", 1+g.R.Intn(4), p))
				} else {
					g.Count("kind PAR")
					g.Emit(fmt.Sprintf("PAR %d %s", 2+g.R.Intn(7), p))
				}
			}
			maxLen := 3
			nRandom := 6000
			if g.Thorough() {
				maxLen = 4
				nRandom = 150000
			}
			// exhaustive: all atom sequences up to maxLen, interpolating double-quoted form;
			// the other forms for sequences up to maxLen-1
			var rec func(prefix string, n int)
			rec = func(prefix string, n int) {
				emit(prefix, forms[0])
				if n+1 <= maxLen-1 || n == 0 {
					for _, f := range forms[1:] {
						emit(prefix, f)
					}
				}
				if n == maxLen {
					return
				}
				for _, a := range atoms {
					rec(prefix+a, n+1)
				}
			}
			rec("", 0)
			// structured random literals: text atoms and well-formed {{expr}} groups
			exprs := []string{"a", "b", "c", "d", "e", "f", "x.cnt(1)", "x.cnt(2)", "1+1", "1+", "", " a ", "a{{b", "{1}", "x.cnt(1)+x.cnt(2)", "b+a", "nope", "\\u007b"}
			for i := 0; i < nRandom; i++ {
				n := 1 + g.R.Intn(5)
				var sb strings.Builder
				for k := 0; k < n; k++ {
					switch g.R.Intn(5) {
					case 0, 1, 2:
						sb.WriteString("{{" + exprs[g.R.Intn(len(exprs))] + "}}")
					default:
						sb.WriteString(atoms[g.R.Intn(len(atoms))])
					}
				}
				emit(sb.String(), forms[g.R.Intn(len(forms))])
			}
			// random longer literals, biased towards markers
			for i := 0; i < nRandom; i++ {
				n := 4 + g.R.Intn(8)
				var sb strings.Builder
				for k := 0; k < n; k++ {
					if g.R.Intn(3) == 0 {
						sb.WriteString(atoms[g.R.Intn(2)])
					} else {
						sb.WriteString(atoms[g.R.Intn(len(atoms))])
					}
				}
				emit(sb.String(), forms[g.R.Intn(len(forms))])
			}
		},
		Run: func(payload string) string {
			if strings.HasPrefix(payload, "LEX ") {
				return c14Lex(unhx(strings.TrimPrefix(payload, "LEX ")))
			}
			if strings.HasPrefix(payload, "REC ") || strings.HasPrefix(payload, "PAR ") {
				return c14RunShared(payload)
			}
			if strings.HasPrefix(payload, "ST ") {
				return c14RunStateful(payload)
			}
			if strings.HasPrefix(payload, "OUT ") {
				f := strings.SplitN(payload, " ", 3)
				return c14RealOut(unhx(f[1]), f[2])
			}
			if strings.HasPrefix(payload, "CTX ") {
				f := strings.Split(payload, " ")
				c14Log, c14Put = nil, nil
				if _, err := evalProgram(unhx(f[1]), c14Scope(), &memLog{}); err != nil {
					return "ERR " + oneLine(err.Error())
				}
				return hx(strings.Join(c14Put, "|")+"|") + " " + c14LogStr()
			}
			src := unhx(strings.SplitN(payload, " ", 2)[0])
			c14Log = nil
			res, err := evalProgram(src, c14Scope(), &memLog{})
			if err != nil {
				return "ERR " + oneLine(err.Error())
			}
			s, ok := res.(string)
			if !ok {
				return fmt.Sprintf("NOTSTRING %T", res)
			}
			return hx(s) + " " + c14LogStr()
		},
	})
}
