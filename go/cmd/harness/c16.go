package main

// C16 — the debugger command interface is total.
//
// A case puts a REAL debugger (interpreter.NewECALDebugger, provider with
// erp.Debugger set, ECAL threads as goroutines) into one state of a small state
// machine (scenario), then issues a list of steps. A step is a command line for
// ECALDebugger.HandleInput or a harness action ("!start2": start a second ECAL
// thread, "!release": open the gate the running threads are blocked in). After
// every step the harness waits until every ECAL thread is suspended, blocked in
// the gate or finished, and observes the debugger's thread table through its
// own API. Observations and the oracle bit of `inject` expressions are recorded
// when the case is generated (the payload is self-contained) and checked again
// when it is executed (NONDET otherwise).
//
//	payload: <scenario> <gs:0|1> <obs0> <step>…      step = <line-hex>/<evalbit>/<obs>
//	obs    : <refs:0|1>~<thread>+<thread>…~<global names>     thread = tid.depth.W
//	         W = f (not interrogated) | r<err><dj> (interrogated, running) | s<err><atGlobal><dj>.<local names>
//	         (dj: the recorded error's data is accepted by json.Marshal as it is)
//	payload: conc <gs> <n>   — the concurrent kind (see c16Conc)
//	result : R:<class>,<class>,… <still>     class of every command step: ok|error|PANIC|HANG|NOJSON,
//	         still = class of a following `status`
//
// Only the reply classes are compared: never message texts or JSON contents.

import (
	"encoding/json"
	"fmt"
	"go/ast"
	goparser "go/parser"
	"go/printer"
	"go/token"
	"hash/fnv"
	"math"
	"os"
	"os/exec"
	"path/filepath"
	"runtime"
	"sort"
	"strconv"
	"strings"
	"sync"
	"sync/atomic"
	"time"

	"github.com/krotik/common/datautil"
	"github.com/krotik/ecal/cli/tool"
	"github.com/krotik/ecal/interpreter"
	"github.com/krotik/ecal/parser"
	"github.com/krotik/ecal/scope"
	"github.com/krotik/ecal/stdlib"
	"github.com/krotik/ecal/util"
)

const c16ProgTop = `a := 1
b := 2
m := {"k" : 1}
l := [1, 2]
x.gate()
c := 3
`

const c16ProgNest = `func f3(p) {
    q := p + 1
    return q
}
func f2(p) {
    r := f3(p)
    return r
}
func f1(p) {
    s := f2(p)
    return s
}
g := 7
res := f1(1)
x.gate()
d := 4
`

const c16ProgErr = `func bad(p) {
    raise("boom", "detail", [1, 2])
}
e := 1
bad(1)
x.gate()
`

// errors whose data json.Marshal rejects as it is: an ECAL map, a list holding a map, a non-finite number
const c16ProgErrMap = `func bad(p) {
    raise("MyError", "msg", {"code" : 42})
}
v := {"code" : 42}
bad(1)
x.gate()
`

const c16ProgErrNest = `func bad(p) {
    raise("MyError", "msg", [1, {"a" : [2, {"b" : 3}]}])
}
v := [1, {"a" : 2}]
bad(1)
x.gate()
`

const c16ProgErrInf = `func bad(p) {
    raise("MyError", "msg", x.inf())
}
v := x.inf()
w := [x.nan()]
bad(1)
x.gate()
`

const c16ProgNestArg = `func g(y) {
    return y + 1
}
func f(x) {
    return x + 2
}
a := 1
r := f(g(a))
s := f(g(f(1)))
x.gate()
`

const c16ProgShort = `a := 1
b := [1, 2]
`

// ---- the gate: a Go function in which "running" threads are blocked

type c16Case struct {
	dbg       util.ECALDebugger
	gs        parser.Scope
	gsGiven   bool
	erps      []*interpreter.ECALRuntimeProvider
	gate      chan struct{}
	inGate    sync.Map // tid -> bool
	done      map[uint64]chan struct{}
	thrPan    atomic.Value
	ready     bool
	stuck     bool        // Status does not answer any more
	hung      bool        // a command did not return
	refsKnown string      // set by scenarios that install the references themselves
	pending   chan string // an inject that has not returned (yet)
	sharedErp *interpreter.ECALRuntimeProvider
	viaCLI    bool // commands go through CLIDebugInterpreter.Handle
	cli       *tool.CLIDebugInterpreter
	mu        sync.Mutex
}

var c16Cur atomic.Value  // *c16Case
var c16Cases sync.Map    // global scope -> *c16Case, while the case is running
var c16Recorded sync.Map // payload -> result of the recording run (see emit)

type c16Gate struct{}

func (g *c16Gate) Run(instanceID string, vs parser.Scope, is map[string]interface{}, tid uint64, args []interface{}) (interface{}, error) {
	// the case this thread belongs to: found through the global scope it runs in (a thread left
	// behind by an earlier case must not touch the current one)
	root := vs
	for root.Parent() != nil {
		root = root.Parent()
	}
	cv, ok := c16Cases.Load(root)
	if !ok {
		return nil, nil // the case is over: run to the end
	}
	c := cv.(*c16Case)
	c.mu.Lock()
	ch := c.gate
	c.mu.Unlock()
	c.inGate.Store(tid, true)
	<-ch
	c.inGate.Store(tid, false)
	return nil, nil
}
func (g *c16Gate) DocString() (string, error) { return "gate", nil }

// x.spin(): true (after a short nap) as long as the case it is called in lasts
type c16Spin struct{}

func (g *c16Spin) Run(instanceID string, vs parser.Scope, is map[string]interface{}, tid uint64, args []interface{}) (interface{}, error) {
	root := vs
	for root.Parent() != nil {
		root = root.Parent()
	}
	if _, ok := c16Cases.Load(root); !ok {
		return false, nil
	}
	if len(args) > 0 {
		runtime.Gosched() // x.spin(0): as fast as it goes
	} else {
		time.Sleep(200 * time.Microsecond)
	}
	return true, nil
}
func (g *c16Spin) DocString() (string, error) { return "spin", nil }

func (c *c16Case) start(tid uint64, name, src string) {
	erp := c.sharedErp // threads of one provider share its mutex table
	if erp == nil {
		erp = interpreter.NewECALRuntimeProvider(name, nil, &memLog{})
		erp.Debugger = c.dbg
		c.erps = append(c.erps, erp)
	}
	tree, err := parser.ParseWithRuntime(name, src, erp)
	if err == nil {
		err = tree.Runtime.Validate()
	}
	if err != nil {
		panic("c16 program does not parse: " + err.Error())
	}
	done := make(chan struct{})
	c.mu.Lock()
	c.done[tid] = done
	c.mu.Unlock()
	go func() {
		defer close(done)
		defer c.dbg.RecordThreadFinished(tid)
		defer func() {
			if e := recover(); e != nil {
				c.thrPan.Store(fmt.Sprint(e))
			}
		}()
		tree.Runtime.Eval(c.gs, make(map[string]interface{}), tid)
	}()
}

func (c *c16Case) isDone(tid uint64) bool {
	c.mu.Lock()
	d := c.done[tid]
	c.mu.Unlock()
	select {
	case <-d:
		return true
	default:
		return false
	}
}

// threadTable reads the debugger's thread table through Status().
// (time-bounded: a command that left the debugger's lock held blocks Status forever;
// nil = no answer)
func (c *c16Case) threadTable() map[string]map[string]interface{} {
	if c.stuck {
		return nil
	}
	ch := make(chan map[string]map[string]interface{}, 1)
	go func() {
		defer func() {
			if e := recover(); e != nil {
				ch <- nil
			}
		}()
		st := c.dbg.Status().(map[string]interface{})
		ch <- st["threads"].(map[string]map[string]interface{})
	}()
	select {
	case t := <-ch:
		if t == nil {
			c.stuck = true
		}
		return t
	case <-time.After(c16CmdTimeout()):
		atomic.AddInt32(&c16Hangs, 1)
		c.stuck = true
		return nil
	}
}

// quiesce waits until every started thread is suspended, in the gate or finished.
func (c *c16Case) quiesce() bool {
	deadline := time.Now().Add(30 * time.Second)
	for {
		tt := c.threadTable()
		if tt == nil {
			return false
		}
		all := true
		c.mu.Lock()
		tids := make([]uint64, 0, len(c.done))
		for t := range c.done {
			tids = append(tids, t)
		}
		c.mu.Unlock()
		for _, t := range tids {
			if c.isDone(t) {
				continue
			}
			if g, ok := c.inGate.Load(t); ok && g.(bool) {
				continue
			}
			if e, ok := tt[fmt.Sprint(t)]; ok {
				if r, ok := e["threadRunning"]; ok && r == false {
					continue
				}
			}
			all = false
		}
		if all {
			return true
		}
		if time.Now().After(deadline) {
			CountRun("quiesce-timeout")
			fmt.Fprintf(os.Stderr, "c16: no quiescence: threads %v\n", tt)
			return false
		}
		time.Sleep(30 * time.Microsecond)
	}
}

func c16Names(m map[string]interface{}) string {
	ks := make([]string, 0, len(m))
	for k := range m {
		ks = append(ks, hx(k))
	}
	sort.Strings(ks)
	if len(ks) == 0 {
		return "-"
	}
	return strings.Join(ks, ",")
}

// observe: the abstract state (see the head of the file)
func (c *c16Case) observe() string {
	// the lazily set references: owners+log (SetLockingState) and thread pool (SetThreadPool)
	refs := c.refsKnown
	if refs == "" {
		refs = "00"
		func() {
			defer func() { recover() }() // a LockState without its nil checks panics exactly when a reference is unset
			m := c.dbg.LockState().(map[string]interface{})
			l, p := "0", "0"
			if o, _ := m["owners"].(map[string]uint64); o != nil {
				l = "1"
			}
			if t, _ := m["threads"].(map[string]interface{}); t != nil {
				p = "1"
			}
			refs = l + p
		}()
	}
	tt := c.threadTable()
	var ths []string
	for k, e := range tt {
		depth := len(e["callStack"].([]string))
		w := "f"
		if r, ok := e["threadRunning"]; ok {
			errf, dj := "0", "1"
			if e["error"] != nil {
				errf = "1"
				// is the error's data accepted by json.Marshal as it is?
				if rd, ok := e["error"].(*util.RuntimeErrorWithDetail); ok {
					if _, jerr := json.Marshal(rd.Data); jerr != nil {
						dj = "0"
					}
				}
			}
			if r == true {
				w = "r" + errf + dj
			} else {
				tid, _ := strconv.ParseUint(k, 10, 64)
				d, _ := c.dbg.Describe(tid).(map[string]interface{})
				glob, locals := "0", "-"
				if depth == 0 {
					glob = "1" // the programs suspend at depth 0 only in top-level statements
				} else if vs, ok := d["vs"].(map[string]interface{}); ok {
					locals = c16Names(vs)
				}
				w = "s" + errf + glob + dj + "." + locals
			}
		}
		ths = append(ths, fmt.Sprintf("%s.%d.%s", k, depth, w))
	}
	sort.Strings(ths)
	t := "-"
	if len(ths) > 0 {
		t = strings.Join(ths, "+")
	}
	return refs + "~" + t + "~" + c16Names(c.gs.ToJSONObject())
}

func c16NewCase(scn string, gsGiven bool) *c16Case {
	c := &c16Case{gate: make(chan struct{}), done: map[uint64]chan struct{}{}, gsGiven: gsGiven}
	if strings.HasPrefix(scn, "cli:") {
		scn, c.viaCLI = scn[4:], true
	}
	c.gs = scope.NewScope(scope.GlobalScope)
	if gsGiven {
		c.dbg = interpreter.NewECALDebugger(c.gs)
	} else {
		c.dbg = interpreter.NewECALDebugger(nil)
	}
	c16Cur.Store(c)
	c16Cases.Store(c.gs, c)
	switch scn {
	case "none":
	case "bos": // suspended by break-on-start at the very first node: references still unset
		c.dbg.BreakOnStart(true)
		c.start(1, "prog", c16ProgTop)
	case "top":
		c.dbg.SetBreakPoint("prog", 3)
		c.start(1, "prog", c16ProgTop)
	case "running":
		c.start(1, "prog", c16ProgTop)
	case "nest1":
		c.dbg.SetBreakPoint("nest", 10)
		c.start(1, "nest", c16ProgNest)
	case "nest2":
		c.dbg.SetBreakPoint("nest", 6)
		c.start(1, "nest", c16ProgNest)
	case "nest3":
		c.dbg.SetBreakPoint("nest", 2)
		c.start(1, "nest", c16ProgNest)
	case "errsusp": // suspended by break-on-error, error recorded
		c.start(1, "perr", c16ProgErr)
	case "errmap":
		c.start(1, "perr", c16ProgErrMap)
	case "errnest":
		c.start(1, "perr", c16ProgErrNest)
	case "errinf":
		c.start(1, "perr", c16ProgErrInf)
	// suspended at an active break point reached DURING a pending step-over / step-out
	// (the step branch of VisitState; such stops exist since fix ea3a1ee)
	case "stepbp1": // step over the top-level call, break point two calls deep
		c.dbg.SetBreakPoint("nest", 14)
		c.dbg.SetBreakPoint("nest", 6)
		c.start(1, "nest", c16ProgNest)
		c.quiesce()
		c.dbg.Continue(1, util.StepOver)
	case "stepbp2": // step out of the innermost function, break point on its next line
		c.dbg.SetBreakPoint("nest", 2)
		c.dbg.SetBreakPoint("nest", 3)
		c.start(1, "nest", c16ProgNest)
		c.quiesce()
		c.dbg.Continue(1, util.StepOut)
	case "stepbp3": // step over a call inside a function, break point two calls further in
		c.dbg.SetBreakPoint("nest", 10)
		c.dbg.SetBreakPoint("nest", 2)
		c.start(1, "nest", c16ProgNest)
		c.quiesce()
		c.dbg.Continue(1, util.StepOver)
	case "two999": // thread 1 two calls deep, a REAL thread with id 999 suspended at top level
		c.dbg.SetBreakPoint("prog", 3)
		c.start(999, "prog", c16ProgTop)
		c.quiesce()
		c.dbg.SetBreakPoint("nest", 6)
		c.start(1, "nest", c16ProgNest)
	case "halfrefs": // between SetLockingState and SetThreadPool of the very first evaluation
		c.dbg.SetLockingState(map[string]uint64{}, &sync.Mutex{}, datautil.NewRingBuffer(8))
		c.refsKnown = "10"
	case "nestarg": // a call whose argument is a call: VisitStepInState's "stop before entering" branch
		c.dbg.SetBreakPoint("narg", 7)
		c.start(1, "narg", c16ProgNestArg)
	case "finished":
		c.start(1, "short", c16ProgShort)
	case "finerr":
		c.start(1, "perr", c16ProgErr)
		c.quiesce()
		c.dbg.Continue(1, util.Resume)
	case "two": // thread 2 running (in the gate), thread 1 suspended two calls deep
		c.start(2, "prog", c16ProgTop)
		c.quiesce()
		c.dbg.SetBreakPoint("nest", 6)
		c.start(1, "nest", c16ProgNest)
	default:
		panic("unknown scenario " + scn)
	}
	c.ready = c.quiesce()
	return c
}

var c16Scenarios = []string{"none", "bos", "top", "running", "nest1", "nest2", "nest3", "errsusp", "finished", "finerr", "two",
	"errmap", "errnest", "errinf", "stepbp1", "stepbp2", "stepbp3", "two999", "halfrefs", "nestarg"}

func (c *c16Case) end() {
	c16Cases.Delete(c.gs)
	c.mu.Lock()
	close(c.gate)
	c.mu.Unlock()
	// StopThreads takes the debugger's lock: with a lock left behind by a command (or kept by a
	// waiting thread) it would never return — bounded, the goroutines of such a case are abandoned
	stopped := make(chan struct{})
	go func() {
		defer func() { recover() }()
		c.dbg.StopThreads(0)
		close(stopped)
	}()
	bound := c16CmdTimeout()
	if c.stuck || c.hung {
		bound = 200 * time.Millisecond
	}
	select {
	case <-stopped:
	case <-time.After(bound):
		CountRun("case-abandoned-with-lock-held")
		return
	}
	c.mu.Lock()
	ds := make([]chan struct{}, 0)
	for _, d := range c.done {
		ds = append(ds, d)
	}
	c.mu.Unlock()
	for _, d := range ds {
		select {
		case <-d:
		case <-time.After(300 * time.Millisecond):
			CountRun("thread-left-behind")
		}
	}
	for _, e := range c.erps {
		// not synchronously: timeutil.Cron.Stop holds the cron's lock while it waits for the cron
		// goroutine, which takes the same lock after every tick (a rare deadlock in krotik/common)
		go e.Cron.Stop()
	}
}

// evalBit: does the expression of an `inject` line evaluate without error (the way InjectValue evaluates it)
//
//	1 / 0 : evaluates without / with an error (measured by evaluating it the way InjectValue does)
//	V     : calls a function declared by the debugged program, which reports to the debugger (not
//	        pre-evaluated: as thread 999 it would itself stop at break points)
//	        (an evaluation is not debugged: break points inside the function do not stop it)
//	D     : does not return while the case lasts (a loop over x.spin())
func (c *c16Case) evalBit(line string) string {
	f := strings.Fields(line)
	if len(f) < 4 || f[0] != "inject" || !c.gsGiven {
		return "0"
	}
	expr := strings.Join(f[3:], " ")
	if strings.Contains(expr, "x.spin(") {
		return "D"
	}
	for _, fn := range []string{"f3(", "f1(", "f2("} {
		if !strings.Contains(expr, fn) {
			continue
		}
		if _, defined, _ := c.gs.GetValue(strings.TrimSuffix(fn, "(")); !defined {
			break // an unknown function: an ordinary error, measured below
		}
		return "V"
	}
	ok := false
	func() {
		defer func() {
			if e := recover(); e != nil {
				CountRun("oracle-expression-panics")
			}
		}()
		erp := interpreter.NewECALRuntimeProvider("InjectValueExpression2", nil, nil)
		defer func() { go erp.Cron.Stop() }()
		tree, err := parser.ParseWithRuntime("InjectValueExpression", expr, erp)
		if err == nil {
			if err = tree.Runtime.Validate(); err == nil {
				_, err = tree.Runtime.Eval(scope.NewScopeWithParent("o", c.gs), make(map[string]interface{}), 999)
			}
		}
		ok = err == nil
	}()
	if ok {
		return "1"
	}
	return "0"
}

// commandAsync issues a line that is expected not to return while the case lasts (`inject` of an
// expression that does not return): EVAL if it has indeed not returned after a short while,
// otherwise the class of its reply. The debugger has to answer the following steps meanwhile.
func (c *c16Case) commandAsync(line string, wait999 bool) string {
	ch := make(chan string, 1)
	go func() {
		defer func() {
			if e := recover(); e != nil {
				ch <- "PANIC"
			}
		}()
		_, err := c.dbg.HandleInput(line)
		if err != nil {
			ch <- "error"
			return
		}
		ch <- "ok"
	}()
	deadline := time.Now().Add(20 * time.Second)
	for wait999 && time.Now().Before(deadline) {
		// the evaluation stops at a break point as thread 999
		tt := c.threadTable()
		if tt == nil {
			break
		}
		if e, ok := tt["999"]; ok && e["threadRunning"] == false {
			break
		}
		time.Sleep(100 * time.Microsecond)
	}
	select {
	case r := <-ch:
		return r
	case <-time.After(150 * time.Millisecond):
		c.pending = ch
		return "EVAL"
	}
}

// evaluating: an `inject` issued earlier has still not returned
func (c *c16Case) evaluating() bool {
	if c.pending == nil {
		return false
	}
	select {
	case <-c.pending:
		c.pending = nil
		return false
	default:
		return true
	}
}

// command issues one line with a time bound; the class of the reply
func (c *c16Case) command(line string) string {
	ch := make(chan string, 1)
	go func() {
		defer func() {
			if e := recover(); e != nil {
				ch <- "PANIC"
			}
		}()
		if c.viaCLI {
			ch <- c.commandCLI(line)
			return
		}
		res, err := c.dbg.HandleInput(line)
		if err != nil {
			ch <- "error"
			return
		}
		if _, jerr := json.Marshal(res); jerr != nil {
			ch <- "NOJSON"
			return
		}
		ch <- "ok"
	}()
	select {
	case r := <-ch:
		return r
	case <-time.After(c16CmdTimeout()):
		atomic.AddInt32(&c16Hangs, 1)
		c.hung = true
		return "HANG"
	}
}

// the time bound of one command: generous (the machine may be heavily loaded) until a
// command really hung in this process, short afterwards
var c16Hangs int32

func c16CmdTimeout() time.Duration {
	if n := atomic.LoadInt32(&c16Hangs); n >= 4 {
		return 300 * time.Millisecond
	} else if n > 0 {
		return 1500 * time.Millisecond
	}
	return 25 * time.Second
}

func c16ConcTimeout() time.Duration {
	if atomic.LoadInt32(&c16Hangs) > 0 {
		return 5 * time.Second
	}
	return 60 * time.Second
}

type c16Step struct {
	line string
	bit  string
	obs  string
}

// c16Exec runs a case. With rec == nil it records (returns the steps with obs filled in);
// otherwise it checks the recorded observations.
func c16Exec(scn string, gsGiven bool, lines []string, rec []c16Step, obs0 string) (string, []c16Step, string) {
	c := c16NewCase(scn, gsGiven)
	defer c.end()
	if !c.ready {
		return "?", nil, "NOQUIESCE init"
	}
	o0 := c.observe()
	if rec != nil && o0 != obs0 {
		return o0, nil, "NONDET init " + o0
	}
	var out []c16Step
	var classes []string
	for k, ln := range lines {
		st := c16Step{line: ln, bit: "0"}
		if strings.HasPrefix(ln, "!") {
			switch ln {
			case "!start2":
				if _, ok := c.done[2]; !ok {
					c.start(2, "prog", c16ProgTop)
				}
			case "!stopthreads": // what the CLI tool does on @reload
				c.dbg.StopThreads(0)
			case "!dbgtable":
				if !c.dbgTable() {
					return o0, out, strings.Join(classes, ",") + " BADTABLE"
				}
			case "!release":
				c.mu.Lock()
				for t := range c.done {
					c.inGate.Store(t, false) // released: no longer "blocked in the gate"
				}
				close(c.gate)
				c.gate = make(chan struct{})
				c.mu.Unlock()
				time.Sleep(200 * time.Microsecond)
			}
		} else {
			st.bit = c.evalBit(ln)
			var cl string
			if st.bit == "D" {
				cl = c.commandAsync(ln, false)
			} else {
				cl = c.command(ln)
			}
			// Scope.SetValue on a container path is C05's domain: ok and error are not told apart
			if f := strings.Fields(ln); len(f) >= 4 && f[0] == "inject" && strings.Contains(f[2], ".") && (cl == "ok" || cl == "error") {
				cl = "E"
			}
			classes = append(classes, cl)
			if cl == "HANG" {
				st.obs = "?"
				out = append(out, st)
				return o0, out, strings.Join(classes, ",") + " HANG"
			}
		}
		if !c.quiesce() {
			if c.stuck {
				return o0, out, strings.Join(classes, ",") + " HANG"
			}
			return o0, out, strings.Join(classes, ",") + " NOQUIESCE"
		}
		st.obs = c.observe()
		if rec != nil && (st.obs != rec[k].obs || st.bit != rec[k].bit) {
			return o0, out, fmt.Sprintf("NONDET step %d %s/%s", k, st.bit, st.obs)
		}
		out = append(out, st)
	}
	still := c.command("status")
	// an inject that had not returned: with the case over (x.spin() is false) its reply is due —
	// a panic, or a goroutine that never comes back (runtime.Goexit inside HandleInput), is a class
	if c.pending != nil {
		c16Cases.Delete(c.gs)
		select {
		case r := <-c.pending:
			if r != "ok" && r != "error" {
				still += " LATE:" + r
			}
		case <-time.After(c16CmdTimeout()):
			still += " LATE:NORETURN"
		}
		c.pending = nil
	}
	if p := c.thrPan.Load(); p != nil {
		still += " THREAD-PANIC"
	}
	if len(classes) == 0 {
		classes = []string{"-"}
	}
	return o0, out, strings.Join(classes, ",") + " " + still
}

func c16Payload(scn string, gsGiven bool, obs0 string, steps []c16Step) string {
	gs := "0"
	if gsGiven {
		gs = "1"
	}
	f := []string{scn, gs, obs0}
	for _, s := range steps {
		f = append(f, hx(s.line)+"/"+s.bit+"/"+s.obs)
	}
	return strings.Join(f, " ")
}

// c16Cyclic: `describe` of a thread that sees a list containing itself (known finding
// describe-cyclic-value: scope.ToJSONObject falls back to fmt.Sprintf("%#v") which never ends — a
// fatal stack overflow that no recover() catches). The dangerous part runs in a child process.
func c16Cyclic(child bool) string {
	if !child {
		cmd := exec.Command(os.Args[0], "C16", "-one", "cyclic! 1 0")
		cmd.Env = append(os.Environ(), "GOMEMLIMIT=1GiB")
		done := make(chan struct{})
		var out []byte
		var err error
		go func() { out, err = cmd.CombinedOutput(); close(done) }()
		select {
		case <-done:
		case <-time.After(120 * time.Second):
			cmd.Process.Kill()
			return "ok HANG"
		}
		first := ""
		for _, l := range strings.Split(string(out), "\n") {
			if strings.HasPrefix(l, "status=") {
				first = strings.TrimPrefix(l, "status=")
			}
			if strings.HasPrefix(l, "describe=") {
				return first + " " + strings.TrimPrefix(l, "describe=")
			}
		}
		if err != nil {
			return first + " CRASH"
		}
		return first + " NOOUTPUT"
	}
	c := &c16Case{gate: make(chan struct{}), done: map[uint64]chan struct{}{}, gsGiven: true}
	c.gs = scope.NewScope(scope.GlobalScope)
	c.dbg = interpreter.NewECALDebugger(c.gs)
	c16Cur.Store(c)
	c16Cases.Store(c.gs, c)
	c.dbg.SetBreakPoint("cyc", 3)
	c.start(1, "cyc", "a := [1]\na[0] := a\nb := 2\nx.gate()\n")
	for i := 0; i < 100000; i++ {
		if tt := c.threadTable(); tt != nil && tt["1"] != nil && tt["1"]["threadRunning"] == false {
			break
		}
		time.Sleep(50 * time.Microsecond)
	}
	fmt.Println("status=" + c.command("status"))
	os.Stdout.Sync()
	cl := c.command("describe 1")
	fmt.Println("describe=" + cl)
	return "child-done"
}

// c16Conc: a thread is suspended in a long straight-line program; goroutine A issues
// `cont 1 stepin` again and again (waiting for the thread to stop on the next line in
// between), goroutine B sets and removes a breakpoint without pause (write lock), goroutine
// C asks for status/describe (read lock). A watchdog bounds the whole exchange: a lock taken
// twice by one command (a recursive RLock with a writer waiting) or left behind is a HANG.
func c16Conc() string {
	// thread 1 is stepped through calls two levels deep: its call stack and the scope snapshots
	// which `describe 1` hands out (live slices of the debugger) change all the time
	var sb strings.Builder
	sb.WriteString("func h(y) {\n    z := y + 1\n    return z\n}\nfunc f(x) {\n    w := h(x)\n    return w\n}\n")
	// only called by injected expressions: long enough for two evaluations to overlap
	sb.WriteString("func slow(n) {\n    k := 0\n    for i in range(1, n) {\n        k := k + h(i)\n    }\n    return k\n}\nfunc slow2(n) {\n    return slow(n) + 1\n}\n")
	for i := 0; i < 400; i++ {
		sb.WriteString("a := f(1)\nb := 2\n")
	}
	c := &c16Case{gate: make(chan struct{}), done: map[uint64]chan struct{}{}, gsGiven: true}
	c.gs = scope.NewScope(scope.GlobalScope)
	c.dbg = interpreter.NewECALDebugger(c.gs)
	c16Cur.Store(c)
	c16Cases.Store(c.gs, c)
	c.sharedErp = interpreter.NewECALRuntimeProvider("prog", nil, &memLog{})
	c.sharedErp.Debugger = c.dbg
	c.erps = append(c.erps, c.sharedErp)
	c.dbg.BreakOnStart(true)
	c.start(1, "prog", sb.String())
	defer c.end()
	if !c.quiesce() {
		return "NOQUIESCE init"
	}
	// two more threads of the same provider loop over two mutex blocks while the case lasts: the
	// provider's table of mutex owners (which `lockstate` reports) changes all the time
	mtx := "for x.spin(0) {\n    mutex ma {\n        q := 1\n    }\n    mutex mb {\n        q := 2\n    }\n}\n"
	c.start(3, "mtx", mtx)
	c.start(4, "mtx", mtx)
	// and two threads that do nothing but visit states (VisitState looks the break point table up)
	for t := uint64(5); t <= 6; t++ {
		c.start(t, "busy", "for x.spin(0) {\n    q := 1\n}\n")
	}
	var bad atomic.Value
	note := func(cl string) {
		// an error reply is fine here (the thread may be running when extract / inject arrive)
		if cl != "ok" && cl != "error" {
			bad.CompareAndSwap(nil, cl)
		}
	}
	// Status used to hand out the debugger's live breakpoint map: encoding a status result while another
	// goroutine set a breakpoint was a fatal "concurrent map iteration and map write" (repaired in /repo:
	// "fix: debugger status returns a copy of the break point table"). Status results are always encoded.
	encodeStatus := os.Getenv("VERIF_C16_NO_ENCODE_STATUS") == ""
	class := func(line string) (cl string) {
		defer func() {
			if e := recover(); e != nil {
				cl = "PANIC"
			}
		}()
		res, err := c.dbg.HandleInput(line)
		if err != nil {
			return "error"
		}
		if line == "status" && !encodeStatus {
			return "ok"
		}
		if _, jerr := json.Marshal(res); jerr != nil {
			return "NOJSON"
		}
		return "ok"
	}
	t0 := time.Now()
	stop := make(chan struct{})
	finished := make(chan struct{})
	var wg sync.WaitGroup
	// phase 0: thread 1 waits at its first statement; two clients inject expressions that call
	// functions of the debugged program at the same time (each evaluation must be a thread of its own)
	for i := 0; i < 4; i++ { // past the four function declarations
		note(class("cont 1 stepover"))
		for j := 0; j < 200000; j++ {
			d, _ := c.dbg.Describe(1).(map[string]interface{})
			if d == nil || d["threadRunning"] == false {
				break
			}
			time.Sleep(5 * time.Microsecond)
		}
	}
	var w0 sync.WaitGroup
	for k := 0; k < 2; k++ {
		fn, v := []string{"slow2(15)", "slow(15)"}[k], []string{"a", "b"}[k]
		w0.Add(1)
		go func() {
			defer w0.Done()
			for i := 0; i < 60; i++ {
				note(class("inject 1 " + v + " " + fn))
			}
		}()
	}
	w0.Wait()
	// every command kind comes from at least two goroutines at once (a command also races with itself)
	wg.Add(8)
	for k := 0; k < 2; k++ {
		fn, v := []string{"slow2(15)", "slow(15)"}[k], []string{"a", "b"}[k]
		go func() { // X, Y: injects whose expressions call functions of the debugged program
			defer wg.Done()
			for {
				select {
				case <-stop:
					return
				default:
				}
				note(class("inject 1 " + v + " " + fn))
				note(class("extract 1 " + v + " dst" + v))
			}
		}()
		go func() { // second and third source of `cont` for the thread goroutine A steps
			defer wg.Done()
			for {
				select {
				case <-stop:
					return
				default:
				}
				note(class("cont 1 stepover"))
				time.Sleep(50 * time.Microsecond)
			}
		}()
	}
	for k := 0; k < 2; k++ {
		go func() { // B: writers
			defer wg.Done()
			for {
				select {
				case <-stop:
					return
				default:
				}
				note(class("break prog:900"))
				note(class("rmbreak prog:900"))
				note(class("disablebreak prog:901"))
				note(class("breakonstart false"))
				note(class("extract 1 a dst"))
				note(class("inject 1 b 1+1"))
			}
		}()
		go func() { // C: readers
			defer wg.Done()
			for {
				select {
				case <-stop:
					return
				default:
				}
				note(class("status"))
				note(class("describe 1"))
				note(class("lockstate"))
				note(class("describe 3"))
				note(class("nosuchcmd 1"))
			}
		}()
	}
	go func() { // A
		for i := 0; i < 300; i++ {
			how := []string{"stepin", "stepover", "STEPOVER", "StepIn"}[i%4]
			if i >= 296 {
				how = "stepout" // the thread runs to its end
			}
			note(class("cont 1 " + how))
			// wait until the thread has stopped again (or has run to the end after a step-out)
			for j := 0; j < 200000; j++ {
				d, _ := c.dbg.Describe(1).(map[string]interface{})
				if d == nil || d["threadRunning"] == false || c.isDone(1) {
					break
				}
				time.Sleep(5 * time.Microsecond)
			}
		}
		// readers and writers get at least a second against the running mutex threads
		for time.Since(t0) < time.Second {
			note(class("cont 4 resume"))
			time.Sleep(time.Millisecond)
		}
		close(stop)
		wg.Wait()
		// threads that start and finish (RecordThreadFinished changes the thread tables) while
		// StopThreads — what the CLI tool calls on reload — walks them
		stopS := make(chan struct{})
		var sw sync.WaitGroup
		sw.Add(1)
		go func() {
			defer sw.Done()
			for {
				select {
				case <-stopS:
					return
				default:
				}
				c.dbg.StopThreads(0)
			}
		}()
		for t := uint64(100); t < 140; t++ {
			c.start(t, "short", "q := 1\nr := 2\n")
		}
		for t := uint64(100); t < 140; t++ {
			c.mu.Lock()
			d := c.done[t]
			c.mu.Unlock()
			select {
			case <-d:
			case <-time.After(5 * time.Second):
			}
		}
		close(stopS)
		sw.Wait()
		close(finished)
	}()
	select {
	case <-finished:
	case <-time.After(c16ConcTimeout()):
		atomic.AddInt32(&c16Hangs, 1)
		c.stuck = true
		return "HANG HANG"
	}
	first := "ok"
	if b := bad.Load(); b != nil {
		first = "not-ok:" + b.(string)
	}
	return first + " " + c.command("status")
}

func c16Run(payload string) string {
	f := strings.Split(payload, " ")
	if len(f) < 3 {
		return "bad-payload"
	}
	// results carry the prefix "R:" — a command that hung is a class of the compared result here
	// (found with the harness's own generous, load-tolerant time bounds), not a stuck harness
	if f[0] == "conc" {
		return "R:" + c16Conc()
	}
	if f[0] == "telnet" {
		return "R:" + c16Telnet()
	}
	if f[0] == "cyclic" {
		return "R:" + c16Cyclic(false)
	}
	if f[0] == "cyclic!" {
		return c16Cyclic(true)
	}
	if r, ok := c16Recorded.LoadAndDelete(payload); ok {
		return "R:" + r.(string)
	}
	if f[2] == "?" {
		return "RECORD-TIMEOUT" // the harness could not record this case (counted; not a statement about the code)
	}
	var lines []string
	var rec []c16Step
	for _, s := range f[3:] {
		p := strings.Split(s, "/")
		if len(p) != 3 {
			return "bad-payload"
		}
		lines = append(lines, unhx(p[0]))
		rec = append(rec, c16Step{unhx(p[0]), p[1], p[2]})
	}
	if rec == nil {
		rec = []c16Step{}
	}
	_, _, res := c16Exec(f[0], f[1] == "1", lines, rec, f[2])
	return "R:" + res
}

// ---- generator

var c16Args = []string{
	"1", "2", "77", "999", "-1", "0", "18446744073709551616", "99999999999999999999", "+1", "01", "9223372036854775808",
	"prog", "nosrc", "prog:1", "nest:6", "prog:", ":1", "prog:x", "a:b:c", "prog:-1", "prog:0",
	"a", "zz", "m.k", "l.5", "zz.q", "1+1", "1+", "\xff\xfe", "%$", "nosuch()",
	"resume", "StepIn", "stepover", "STEPOUT", "stepİn", "true", "false", " ",
}

var c16ArgsSmall = []string{"1", "77", "-1", "99999999999999999999", "prog:1", "prog:", "prog", "a", "zz", "m.k", "1+", "resume", "stepout", "\xff\xfe"}

func c16ShardInfo() (si, sn, start int) {
	sn = 1
	for i, a := range os.Args {
		if a == "-shard" && i+1 < len(os.Args) {
			fmt.Sscanf(os.Args[i+1], "%d/%d", &si, &sn)
		}
		if a == "-start" && i+1 < len(os.Args) {
			start, _ = strconv.Atoi(os.Args[i+1])
		}
		if strings.HasPrefix(a, "-shard=") {
			fmt.Sscanf(a[7:], "%d/%d", &si, &sn)
		}
		if strings.HasPrefix(a, "-start=") {
			start, _ = strconv.Atoi(a[7:])
		}
	}
	if sn <= 0 {
		sn = 1
	}
	return
}

func c16Gen(g *Gen) {
	si, sn, start := c16ShardInfo()
	k := -1
	emit := func(scn string, gsGiven bool, lines ...string) {
		k++
		if k%sn != si || k < start {
			g.Emit("not-in-this-shard") // never written nor executed: only counts the index
			return
		}
		// circuit breaker: once commands have hung 8 times in this process (each one is already a
		// reported disagreement) the remaining cases are not executed — every hang costs seconds
		if atomic.LoadInt32(&c16Hangs) >= 8 {
			g.Count("skipped-after-hangs")
			var un []c16Step
			for _, l := range lines {
				un = append(un, c16Step{l, "0", "?"})
			}
			g.Emit(c16Payload(scn, gsGiven, "?", un))
			return
		}
		// the recording run is bounded as a whole (it runs outside the per-case time limit)
		type recorded struct {
			o0    string
			steps []c16Step
			res   string
		}
		ch := make(chan recorded, 1)
		go func() {
			o0, steps, res := c16Exec(scn, gsGiven, lines, nil, "")
			ch <- recorded{o0, steps, res}
		}()
		var o0, res string
		var steps []c16Step
		select {
		case r := <-ch:
			o0, steps, res = r.o0, r.steps, r.res
		case <-time.After(90 * time.Second):
			g.Count("record-timeout")
			o0 = "?"
		}
		if len(steps) != len(lines) {
			// the recording run stopped early (hang): keep the steps it could not observe
			for i := len(steps); i < len(lines); i++ {
				steps = append(steps, c16Step{lines[i], "0", "?"})
			}
		}
		payload := c16Payload(scn, gsGiven, o0, steps)
		// The recording run IS an execution of the real code on this case. Single-command cases are
		// executed a second time (checking that the observations repeat) only for a sample of 1 in 8;
		// for the others the result of the recording run is handed to Run. Cases with a history, and
		// every replay (-one), are always executed again.
		if len(lines) == 1 && o0 != "?" && len(steps) == 1 && steps[0].obs != "?" {
			h := fnv.New32a()
			h.Write([]byte(payload))
			if h.Sum32()%8 != 0 {
				c16Recorded.Store(payload, res)
				g.Count("result-of-recording-run")
			}
		}
		g.Emit(payload)
	}
	cmds := make([]string, 0)
	for name := range interpreter.DebugCommandsMap {
		cmds = append(cmds, name)
	}
	sort.Strings(cmds)
	cmds = append(cmds, "nosuchcmd")
	// words HandleInput itself compares the first word with (none in the code as it is): a command
	// word the table does not know is part of the vocabulary all the same
	if lits, err := c16DispatchLiterals(); err == nil {
		for _, l := range lits {
			if _, ok := interpreter.DebugCommandsMap[l]; !ok && l != "" && !strings.ContainsAny(l, " \t") {
				cmds = append(cmds, l)
				g.Count("extra-dispatch-word")
			}
		}
	}

	// directed: the inputs of the repaired defects first
	emit("none", true, "lockstate")
	emit("bos", true, "lockstate")
	emit("top", true, "cont 1 stepout")
	emit("bos", true, "cont 1 stepout")
	emit("errsusp", true, "cont 1 stepout")
	emit("errsusp", true, "describe 1")
	emit("none", true, "")
	emit("none", true, " \t ")
	emit("top", true, "cont 1 resume", "cont 1 stepout")
	emit("nest2", true, "cont 1 stepout", "cont 1 stepout", "cont 1 stepout")
	emit("top", true, "extract 1 a dst", "inject 1 nv 1+1", "extract 1 nv dst2", "inject 1 m.k 5")
	emit("running", true, "breakonstart", "!start2", "cont 2 stepin", "describe 2")
	emit("two", true, "!release", "status")
	for _, scn := range []string{"errmap", "errnest", "errinf"} {
		emit(scn, true, "status")
		emit(scn, true, "describe 1")
		emit(scn, true, "extract 1 v dst", "status", "describe 1")
		emit(scn, true, "inject 1 nv v", "describe 1")
		emit(scn, true, "cont 1 resume", "status")
	}
	emit("errinf", true, "extract 1 w dst", "describe 1")
	// a malformed expression handed to inject on a suspended thread, then status (a leaked write lock is a HANG)
	for _, scn := range []string{"top", "nest2", "errsusp", "two", "bos"} {
		for _, ex := range []string{"1 +", "1+", "( 1", "a :=", "{ 1", "\"x", "func (", "1 + + 2 )", "nosuch( 1 )", "1 / 0", "[1,2", "x.nan( )", "raise( 1 )"} {
			g.Count("inject-malformed")
			emit(scn, true, "inject 1 a "+ex)
			emit(scn, true, "inject 1 a "+ex, "inject 1 b 1 + 1", "extract 1 a dst")
		}
	}
	// a write-lock command, then read commands, while a thread waits at a break point it reached
	// during a step-over / step-out (a read lock kept by the waiting thread is a HANG)
	for _, scn := range []string{"stepbp1", "stepbp2", "stepbp3"} {
		emit(scn, true, "break prog:1", "status", "describe 1")
		emit(scn, true, "rmbreak nest", "status")
		emit(scn, true, "inject 1 nv 1+1", "extract 1 nv dst", "cont 1 stepover", "break prog:1", "status")
		emit(scn, true, "status", "describe 1", "disablebreak nest:6", "cont 1 stepout", "breakonstart", "status")
	}
	emit("nest1", true, "break nest:2", "cont 1 stepover", "break prog:1", "status", "describe 1")
	emit("nest3", true, "break nest:3", "cont 1 stepout", "rmbreak nest", "status")
	emit("top", true, "break prog:6", "cont 1 stepover", "cont 1 stepover", "!release", "break prog:1", "status")
	// inject expressions that call back into the debugger or do not return: the debugger keeps
	// answering (InjectValue must not hold the debugger's lock while it evaluates)
	for _, scn := range []string{"nest1", "nest2", "stepbp1"} {
		emit(scn, true, "inject 1 p f3(1)", "status", "describe 1", "break prog:1")
		emit(scn, true, "inject 1 p for x.spin() { }", "status", "break prog:1", "rmbreak prog", "describe 1", "inject 1 p 1+1", "lockstate", "cont 1 stepover", "status")
	}
	emit("top", true, "inject 1 a for x.spin() { }", "status", "disablebreak prog:3", "extract 1 a dst", "describe 1")
	// the evaluation of an injected expression is not debugged: break points inside the called
	// function / break-on-start do not stop it, it shares no thread id with anything
	emit("nest2", true, "inject 1 p f1(1)", "status", "break prog:1", "describe 999", "cont 999 resume", "status")
	emit("nest1", true, "breakonstart", "inject 1 p f3(1)", "status", "describe 999", "rmbreak nest", "cont 999 stepover", "status")
	emit("nest3", true, "break nest:3", "inject 1 p f3(1)", "inject 1 q f1(2)", "status")
	// a real thread 999 survives an inject on another thread
	emit("two999", true, "inject 1 p 1+1", "status", "describe 999", "cont 999 resume", "status")
	emit("two999", true, "inject 1 p f3(1)", "inject 999 a f1(1)", "extract 999 a dst", "cont 999 stepover", "describe 999")
	// StopThreads (the tool's @reload) while an inject is still evaluating; its late reply is read at the end
	emit("nest2", true, "inject 1 p for x.spin() { }", "!stopthreads", "status", "break prog:1")
	emit("top", true, "inject 1 a for x.spin() { }", "cont 1 resume", "!release", "status")
	// lockstate between SetLockingState and SetThreadPool
	emit("halfrefs", true, "lockstate")
	emit("halfrefs", true, "lockstate", "status", "lockstate 1")
	// stepping into / over a call whose argument is a call
	emit("nestarg", true, "cont 1 stepin", "cont 1 stepin", "describe 1", "cont 1 stepin", "cont 1 stepin", "cont 1 stepover", "cont 1 stepover", "status")
	emit("nestarg", true, "cont 1 stepover", "cont 1 stepin", "cont 1 stepout", "cont 1 stepin", "cont 1 stepin", "cont 1 stepin", "describe 1")
	emit("nestarg", true, "cont 1 stepin", "cont 1 stepover", "cont 1 stepover", "cont 1 stepin", "cont 1 stepout", "cont 1 stepout", "status")
	// the same through the CLI tool's handler (cli/tool/debug.go: Handle, CanHandle, the @dbg table)
	for _, scn := range []string{"cli:none", "cli:top", "cli:nest2", "cli:errsusp", "cli:errmap", "cli:two", "cli:finished"} {
		emit(scn, true, "!dbgtable", "status", "lockstate", "describe 1", "break prog:1", "cont 1 stepout", "status")
		emit(scn, true, "inject 1 nv 1+1", "extract 1 nv dst", "inject 1 a 1 +", "cont 1", "nosuchcmd", "rmbreak", "", "status")
		for _, cmd := range cmds {
			emit(scn, true, cmd)
			for _, a := range c16ArgsSmall {
				if g.R.Intn(2) == 0 {
					emit(scn, true, cmd+" "+a)
				}
				if g.R.Intn(6) == 0 {
					emit(scn, true, cmd+" "+a+" "+g.R.Pick(c16ArgsSmall))
				}
			}
		}
	}
	// the tool's debug server on a real listener, two clients at once
	ntel := 1
	if g.Thorough() {
		ntel = 4
	}
	for i := 0; i < ntel; i++ {
		g.Count("telnet")
		k++
		if k%sn != si || k < start {
			g.Emit("not-in-this-shard")
		} else {
			g.Emit(fmt.Sprintf("telnet 1 %d", i))
		}
	}
	// known finding describe-cyclic-value (only emitted when the finding is listed: C16_CYCLIC)
	if os.Getenv("C16_CYCLIC") != "" {
		g.Count("cyclic")
		k++
		if k%sn != si || k < start {
			g.Emit("not-in-this-shard")
		} else {
			g.Emit("cyclic 1 0")
		}
	}
	// commands from two goroutines at once
	amplify := os.Getenv("C16_AMPLIFY") != "" // a fact about the lock discipline is not established
	nconc := 3
	if g.Thorough() {
		nconc = 12
	}
	if amplify {
		nconc *= 4
	}
	for i := 0; i < nconc; i++ {
		g.Count("concurrent")
		k++
		if k%sn != si || k < start {
			g.Emit("not-in-this-shard")
		} else {
			g.Emit(fmt.Sprintf("conc 1 %d", i))
		}
	}

	for _, scn := range c16Scenarios {
		for _, gsGiven := range []bool{true, false} {
			if !gsGiven && scn != "none" && scn != "top" && scn != "nest2" {
				continue
			}
			errData := scn == "errmap" || scn == "errnest" || scn == "errinf"
			stepBp := strings.HasPrefix(scn, "stepbp") || scn == "two999" || scn == "halfrefs" || scn == "nestarg"
			args := c16ArgsSmall
			if g.Thorough() && gsGiven && !errData {
				args = c16Args
			}
			for _, cmd := range cmds {
				g.Count("len0")
				emit(scn, gsGiven, cmd)
				for _, a := range c16Args {
					g.Count("len1")
					emit(scn, gsGiven, cmd+" "+a)
				}
				if errData && !g.Thorough() {
					continue // quick tier: the error-data scenarios get the <=1 argument lines and the directed cases
				}
				for _, a := range args {
					for _, b := range args {
						if stepBp && !g.Thorough() && g.R.Intn(4) != 0 {
							continue // quick tier: the two-argument matrix is sampled in the step/break-point scenarios
						}
						g.Count("len2")
						emit(scn, gsGiven, cmd+" "+a+" "+b)
					}
				}
			}
			if errData && !g.Thorough() {
				continue
			}
			// extract / inject need three arguments: structured product
			tids := []string{"1", "2", "77", "-1", "x", "99999999999999999999"}
			vars := []string{"a", "zz", "p", "q", "g", "m.k", "l.5", "zz.q", "%$", "9a"}
			third := []string{"dst", "a", "1+1", "1+", "nosuch()", "zz", "m.k", "d.e"}
			for _, t := range tids {
				for _, v := range vars {
					for _, x := range third {
						if stepBp && !g.Thorough() && g.R.Intn(4) != 0 {
							continue
						}
						g.Count("len3")
						emit(scn, gsGiven, "extract "+t+" "+v+" "+x)
						emit(scn, gsGiven, "inject "+t+" "+v+" "+x)
					}
				}
			}
		}
	}
	// sampled: 3..4 arguments, and commands after random histories
	n := 1500
	if g.Thorough() {
		n = 30000
	}
	if amplify {
		n *= 4
	}
	likely := func() string {
		switch g.R.Intn(12) {
		case 0:
			return "cont " + g.R.Pick([]string{"1", "2"}) + " " + g.R.Pick([]string{"resume", "stepin", "stepover", "stepout"})
		case 1:
			return "break " + g.R.Pick([]string{"prog:2", "prog:4", "prog:6", "nest:3", "nest:7", "nest:11", "nest:15", "perr:6"})
		case 2:
			return "inject 1 " + g.R.Pick([]string{"nv", "a", "q", "m.k", "zz.q"}) + " " + g.R.Pick([]string{"1+1", "1+", "a", "nosuch()"})
		case 3:
			return "extract 1 " + g.R.Pick([]string{"a", "q", "nv", "zz", "p"}) + " " + g.R.Pick([]string{"dst", "nv", "a"})
		case 4:
			return "breakonstart " + g.R.Pick([]string{"true", "false", "x", ""})
		case 5:
			return "rmbreak " + g.R.Pick([]string{"prog", "nest", "prog:3", "nest:6"})
		case 6:
			return "disablebreak " + g.R.Pick([]string{"prog:3", "nest:6", "nest:2"})
		case 7:
			return g.R.Pick([]string{"!start2", "!release"})
		case 8:
			return "describe " + g.R.Pick([]string{"1", "2"})
		default:
			nargs := g.R.Intn(5)
			l := g.R.Pick(cmds)
			for i := 0; i < nargs; i++ {
				l += " " + g.R.Pick(c16Args)
			}
			return l
		}
	}
	for i := 0; i < n; i++ {
		scn := g.R.Pick(c16Scenarios)
		gsGiven := g.R.Intn(8) != 0
		var lines []string
		if g.R.Bool() {
			for h := g.R.Intn(5); h > 0; h-- {
				lines = append(lines, likely())
			}
			g.Count(fmt.Sprintf("history%d", len(lines)))
		}
		nargs := 3 + g.R.Intn(2)
		l := g.R.Pick(cmds)
		for j := 0; j < nargs; j++ {
			l += " " + g.R.Pick(c16Args)
		}
		if g.R.Intn(3) == 0 {
			l = likely()
		}
		lines = append(lines, l)
		emit(scn, gsGiven, lines...)
	}
}

// ---- fact extractor: DebugCommandsMap and the argument-count test of every Run

func c16Tool(args []string) int {
	if len(args) < 1 || args[0] != "vocabulary" {
		fmt.Fprintln(os.Stderr, "usage: harness C16 -tool vocabulary")
		return 2
	}
	fset := token.NewFileSet()
	file, err := goparser.ParseFile(fset, filepath.Join(repoDir(), "interpreter", "debug_cmd.go"), nil, 0)
	if err != nil {
		fmt.Fprintln(os.Stderr, err)
		return 2
	}
	types := map[string]string{}  // key -> Go type
	checks := map[string]string{} // Go type -> condition text
	text := func(n ast.Node) string {
		var sb strings.Builder
		printer.Fprint(&sb, fset, n)
		return sb.String()
	}
	for _, d := range file.Decls {
		switch d := d.(type) {
		case *ast.GenDecl:
			for _, sp := range d.Specs {
				vs, ok := sp.(*ast.ValueSpec)
				if !ok || len(vs.Names) != 1 || vs.Names[0].Name != "DebugCommandsMap" || len(vs.Values) != 1 {
					continue
				}
				for _, el := range vs.Values[0].(*ast.CompositeLit).Elts {
					kv := el.(*ast.KeyValueExpr)
					key, _ := strconv.Unquote(kv.Key.(*ast.BasicLit).Value)
					ty := "?"
					if u, ok := kv.Value.(*ast.UnaryExpr); ok {
						if cl, ok := u.X.(*ast.CompositeLit); ok {
							ty = text(cl.Type)
						}
					}
					types[key] = ty
				}
			}
		case *ast.FuncDecl:
			if d.Name.Name != "Run" || d.Recv == nil || len(d.Recv.List) != 1 {
				continue
			}
			ty := strings.TrimPrefix(text(d.Recv.List[0].Type), "*")
			// the argument-count test: a leading `if <condition over len(args)> { …; return … }`.
			// The condition is EVALUATED for 0..5 arguments (not compared as text); "?" = not understood
			// no statement of the body looks at the number of arguments before it uses them: nothing rejected.
			// A leading statement that does but is not understood: "??????" (not established).
			table := "FFFFFF"
			argName := ""
			if d.Type.Params != nil {
				for _, f := range d.Type.Params.List {
					if at, ok := f.Type.(*ast.ArrayType); ok && at.Len == nil {
						for _, nm := range f.Names {
							argName = nm.Name
						}
					}
				}
			}
			mentions := func(n ast.Node) bool {
				found := false
				if n == nil {
					return false
				}
				ast.Inspect(n, func(x ast.Node) bool {
					if c, ok := x.(*ast.CallExpr); ok {
						if id, ok := c.Fun.(*ast.Ident); ok && id.Name == "len" && len(c.Args) == 1 {
							if a, ok := c.Args[0].(*ast.Ident); ok && a.Name == argName {
								found = true
							}
						}
					}
					return true
				})
				return found
			}
			for _, st := range d.Body.List {
				is, isIf := st.(*ast.IfStmt)
				if sw, ok := st.(*ast.SwitchStmt); ok && (mentions(sw.Init) || mentions(sw.Tag) || mentions(sw.Body)) {
					table = "??????"
					break
				}
				if !isIf || !(mentions(is.Init) || mentions(is.Cond)) {
					if mentions(st) {
						table = "??????" // the count is looked at somewhere else first
						break
					}
					continue
				}
				leaves := false
				if len(is.Body.List) > 0 {
					_, leaves = is.Body.List[len(is.Body.List)-1].(*ast.ReturnStmt)
				}
				if !leaves {
					break // an optional argument (breakonstart): nothing is rejected
				}
				env := map[string]ast.Expr{}
				if as, ok := is.Init.(*ast.AssignStmt); ok && len(as.Lhs) == len(as.Rhs) {
					for k := range as.Lhs {
						if id, ok := as.Lhs[k].(*ast.Ident); ok {
							env[id.Name] = as.Rhs[k]
						}
					}
				} else if is.Init != nil {
					table = "??????"
					break
				}
				c16Env = env
				table = ""
				for n := 0; n <= 5; n++ {
					v, ok := c16EvalBool(is.Cond, d.Type.Params, n)
					switch {
					case !ok:
						table += "?"
					case v:
						table += "T"
					default:
						table += "F"
					}
				}
				c16Env = nil
				break
			}
			checks[ty] = table
		}
	}
	keys := make([]string, 0, len(types))
	for k := range types {
		keys = append(keys, k)
	}
	sort.Strings(keys)
	fmt.Println("/-! GENERATED by `harness C16 -tool vocabulary` from interpreter/debug_cmd.go — do not edit. -/")
	fmt.Println("namespace Ecal.Gen.C16")
	fmt.Println("/-- DebugCommandsMap: (key, Go type, does the argument-count test at the head of its Run reject 0..5 arguments: T/F, ? = not understood), sorted by key -/")
	fmt.Println("def commands : List (String × String × String) := [")
	for i, k := range keys {
		sep := ","
		if i == len(keys)-1 {
			sep = ""
		}
		fmt.Printf("  (%s, %s, %s)%s\n", strconv.Quote(k), strconv.Quote(types[k]), strconv.Quote(checks[types[k]]), sep)
	}
	fmt.Println("]")
	facts, err := c16LockFacts()
	if err != nil {
		fmt.Fprintln(os.Stderr, err)
		return 2
	}
	fmt.Print(facts)
	fmt.Println("end Ecal.Gen.C16")
	return 0
}

// c16EvalBool evaluates a condition over len(<the []string parameter>) and integer literals
func c16EvalBool(e ast.Expr, params *ast.FieldList, n int) (bool, bool) {
	switch e := e.(type) {
	case *ast.ParenExpr:
		return c16EvalBool(e.X, params, n)
	case *ast.UnaryExpr:
		if e.Op == token.NOT {
			v, ok := c16EvalBool(e.X, params, n)
			return !v, ok
		}
	case *ast.BinaryExpr:
		switch e.Op {
		case token.LAND, token.LOR:
			a, ok1 := c16EvalBool(e.X, params, n)
			b, ok2 := c16EvalBool(e.Y, params, n)
			if e.Op == token.LAND {
				return a && b, ok1 && ok2
			}
			return a || b, ok1 && ok2
		}
		a, ok1 := c16EvalInt(e.X, params, n)
		b, ok2 := c16EvalInt(e.Y, params, n)
		if !ok1 || !ok2 {
			return false, false
		}
		switch e.Op {
		case token.EQL:
			return a == b, true
		case token.NEQ:
			return a != b, true
		case token.LSS:
			return a < b, true
		case token.GTR:
			return a > b, true
		case token.LEQ:
			return a <= b, true
		case token.GEQ:
			return a >= b, true
		}
	}
	return false, false
}

// variables bound by the Init statement of the argument-count test (`if n := len(args); n != 2`)
var c16Env map[string]ast.Expr

func c16EvalInt(e ast.Expr, params *ast.FieldList, n int) (int, bool) {
	switch e := e.(type) {
	case *ast.Ident:
		if b, ok := c16Env[e.Name]; ok {
			return c16EvalInt(b, params, n)
		}
	case *ast.ParenExpr:
		return c16EvalInt(e.X, params, n)
	case *ast.BasicLit:
		if e.Kind == token.INT {
			v, err := strconv.Atoi(e.Value)
			return v, err == nil
		}
	case *ast.CallExpr:
		if id, ok := e.Fun.(*ast.Ident); ok && id.Name == "len" && len(e.Args) == 1 {
			if arg, ok := e.Args[0].(*ast.Ident); ok && params != nil {
				for _, f := range params.List {
					if at, ok := f.Type.(*ast.ArrayType); ok && at.Len == nil {
						for _, nm := range f.Names {
							if nm.Name == arg.Name {
								return n, true
							}
						}
					}
				}
			}
		}
	case *ast.BinaryExpr:
		a, ok1 := c16EvalInt(e.X, params, n)
		b, ok2 := c16EvalInt(e.Y, params, n)
		if ok1 && ok2 {
			switch e.Op {
			case token.ADD:
				return a + b, true
			case token.SUB:
				return a - b, true
			}
		}
	}
	return 0, false
}

func init() {
	register("C16", &Prop{
		Timeout:          150 * time.Second,
		NoRestartOnPanic: true,
		Setup: func() {
			xPkgOnce.Do(func() { stdlib.AddStdlibPkg("x", "verification harness functions") })
			if err := stdlib.AddStdlibFunc("x", "gate", &c16Gate{}); err != nil {
				panic(err)
			}
			if err := stdlib.AddStdlibFunc("x", "spin", &c16Spin{}); err != nil {
				panic(err)
			}
			registerX("inf", func(args []interface{}) (interface{}, error) { return math.Inf(1), nil })
			registerX("nan", func(args []interface{}) (interface{}, error) { return math.NaN(), nil })
		},
		Gen:  c16Gen,
		Run:  c16Run,
		Tool: c16Tool,
	})
}
