package main

// C12 fact: every USE of the mutex tables happens under the table lock.
//
// All non-test Go files of the tree are scanned. Every occurrence of a selector named
// Mutexes / MutexeOwners (the exported table fields of ECALRuntimeProvider) is classified by the
// node it occurs in:
//
//	index (read or write), delete(), len(), range   -> an access: "guarded" when MutexesMutex is held at
//	                                                    that point of the function (after its Lock and before its
//	                                                    non-deferred Unlock, in source order), else "unguarded"
//	comparison with nil                             -> no access
//	argument of a call                              -> the table escapes into the callee: the callee's parameter is
//	                                                    followed — indexed/ranged there = access; stored into a
//	                                                    struct field = ALIAS: every use of that field in the callee's
//	                                                    package is classified like a use of the table itself (the
//	                                                    lock may be an alias too: a field assigned from the parameter
//	                                                    that received MutexesMutex in a call)
//	anything else (assigned to a variable, returned, put into a literal, address taken; an alias used as a
//	value; a callee that cannot be found)           -> "unknown": somebody else may read it without the lock

import (
	"fmt"
	"go/ast"
	"go/parser"
	"go/token"
	"os"
	"path/filepath"
	"sort"
	"strings"
)

type c12File struct {
	dir  string // package directory relative to the tree
	file *ast.File
}

func c12AllFiles() ([]c12File, error) {
	root := repoDir()
	var out []c12File
	fset := token.NewFileSet()
	err := filepath.Walk(root, func(p string, info os.FileInfo, err error) error {
		if err != nil {
			return err
		}
		if info.IsDir() {
			if n := info.Name(); n == ".git" || n == "vendor" || n == "testdata" {
				return filepath.SkipDir
			}
			return nil
		}
		if !strings.HasSuffix(p, ".go") || strings.HasSuffix(p, "_test.go") {
			return nil
		}
		f, err := parser.ParseFile(fset, p, nil, 0)
		if err != nil {
			return nil // not part of the build we look at
		}
		rel, _ := filepath.Rel(root, filepath.Dir(p))
		out = append(out, c12File{rel, f})
		return nil
	})
	sort.SliceStable(out, func(i, j int) bool { return out[i].dir < out[j].dir })
	return out, err
}

type c12Use struct{ where, kind string }

type c12Escape struct {
	callee string
	arg    int
	lock   bool
}

type c12Scanner struct {
	tables map[string]bool // selector names that denote a table
	locks  map[string]bool // selector names that denote the table lock
	params map[string]bool // identifiers (parameters) that denote a table
	alias  bool            // scanning alias fields: an assignment TO the field is not a use
	uses   []c12Use
	esc    []c12Escape
	// alias fields found by following a parameter: assigned from a table / lock parameter
	aliasT, aliasL []string
	lockParams     map[string]bool
	name           string
	lits           int
	probe          string // a func-typed parameter: in which state is it called?
	probeHeld      []int
	lookup         func(callee string, arg int) int
}

func c12FuncName(dir string, fd *ast.FuncDecl) string {
	name := fd.Name.Name
	if fd.Recv != nil && len(fd.Recv.List) == 1 {
		t := fd.Recv.List[0].Type
		if st, ok := t.(*ast.StarExpr); ok {
			t = st.X
		}
		if id, ok := t.(*ast.Ident); ok {
			name = id.Name + "." + name
		}
	}
	return dir + "/" + name
}

func c12IsNil(e ast.Expr) bool {
	id, ok := e.(*ast.Ident)
	return ok && id.Name == "nil"
}

// held states of the table lock on a path: 0 = not held, 1 = held, 2 = differs between the paths
// that reach this point (or cannot be told)
func c12Join(a, b int) int {
	if a == b {
		return a
	}
	return 2
}

// scan walks one function body, path by path: the state of the table lock is tracked through
// branches (each branch starts from the state before it; branches that return do not take part
// in the join) and into function literals (called on the spot: current state; passed to a
// callee: the state in which the callee calls its parameter; deferred: a function of its own;
// anything else: unknown).
func (sc *c12Scanner) scan(name string, body *ast.BlockStmt) {
	sc.name = name
	sc.lits = 0
	sc.block(body.List, 0)
}

func (sc *c12Scanner) block(list []ast.Stmt, held int) (int, bool) {
	for _, s := range list {
		var term bool
		held, term = sc.stmt(s, held)
		if term {
			return held, true
		}
	}
	return held, false
}

func (sc *c12Scanner) stmt(s ast.Stmt, held int) (int, bool) {
	switch x := s.(type) {
	case nil:
		return held, false
	case *ast.BlockStmt:
		return sc.block(x.List, held)
	case *ast.LabeledStmt:
		return sc.stmt(x.Stmt, held)
	case *ast.ReturnStmt:
		return sc.expr(x, nil, held), true
	case *ast.BranchStmt:
		return held, true
	case *ast.IfStmt:
		held, _ = sc.stmt(x.Init, held)
		held = sc.expr(x.Cond, nil, held)
		h1, t1 := sc.block(x.Body.List, held)
		h2, t2 := held, false
		if x.Else != nil {
			h2, t2 = sc.stmt(x.Else, held)
		}
		switch {
		case t1 && t2:
			return held, true
		case t1:
			return h2, false
		case t2:
			return h1, false
		}
		return c12Join(h1, h2), false
	case *ast.SwitchStmt, *ast.TypeSwitchStmt, *ast.SelectStmt:
		var clauses []ast.Stmt
		switch y := x.(type) {
		case *ast.SwitchStmt:
			held, _ = sc.stmt(y.Init, held)
			if y.Tag != nil {
				held = sc.expr(y.Tag, nil, held)
			}
			clauses = y.Body.List
		case *ast.TypeSwitchStmt:
			held, _ = sc.stmt(y.Init, held)
			held, _ = sc.stmt(y.Assign, held)
			clauses = y.Body.List
		case *ast.SelectStmt:
			clauses = y.Body.List
		}
		res, any, hasDefault := held, false, false
		for _, c := range clauses {
			h := held
			var body []ast.Stmt
			switch cc := c.(type) {
			case *ast.CaseClause:
				for _, e := range cc.List {
					h = sc.expr(e, nil, h)
				}
				hasDefault = hasDefault || cc.List == nil
				body = cc.Body
			case *ast.CommClause:
				h, _ = sc.stmt(cc.Comm, h)
				hasDefault = hasDefault || cc.Comm == nil
				body = cc.Body
			}
			hb, t := sc.block(body, h)
			if t {
				continue
			}
			if !any {
				res, any = hb, true
			} else {
				res = c12Join(res, hb)
			}
		}
		if !hasDefault {
			if !any {
				res = held
			} else {
				res = c12Join(res, held)
			}
		} else if !any {
			return held, true
		}
		return res, false
	case *ast.ForStmt:
		held, _ = sc.stmt(x.Init, held)
		if x.Cond != nil {
			held = sc.expr(x.Cond, nil, held)
		}
		hb, _ := sc.block(x.Body.List, held)
		hb, _ = sc.stmt(x.Post, hb)
		return c12Join(held, hb), false
	case *ast.RangeStmt:
		held = sc.expr(x.X, x, held)
		hb, _ := sc.block(x.Body.List, held)
		return c12Join(held, hb), false
	case *ast.DeferStmt:
		if sel, ok := x.Call.Fun.(*ast.SelectorExpr); ok && sc.isLock(sel.X) {
			return held, false // deferred Unlock: the lock is kept to the end of the function
		}
		return sc.expr(x, nil, held), false
	default:
		return sc.expr(s, nil, held), false
	}
}

func (sc *c12Scanner) isLock(e ast.Expr) bool {
	switch x := e.(type) {
	case *ast.SelectorExpr:
		return sc.locks[x.Sel.Name]
	case *ast.Ident:
		return sc.lockParams[x.Name]
	}
	return false
}

// expr inspects one statement or expression that contains no nested statement list (except in
// function literals) in evaluation (= source) order.
func (sc *c12Scanner) expr(root ast.Node, parent0 ast.Node, held int) int {
	if root == nil {
		return held
	}
	name := sc.name
	var stack []ast.Node
	if parent0 != nil {
		stack = append(stack, parent0)
	}
	isTable := func(n ast.Node) (string, bool) {
		switch x := n.(type) {
		case *ast.SelectorExpr:
			if sc.tables[x.Sel.Name] {
				return x.Sel.Name, true
			}
		case *ast.Ident:
			if sc.params[x.Name] {
				return x.Name, true
			}
		}
		return "", false
	}
	guard := func() string {
		switch held {
		case 1:
			return "guarded"
		case 0:
			return "unguarded"
		}
		return "unknown"
	}
	ast.Inspect(root, func(n ast.Node) bool {
		if n == nil {
			stack = stack[:len(stack)-1]
			return true
		}
		var parent, grand ast.Node
		if len(stack) > 0 {
			parent = stack[len(stack)-1]
		}
		if len(stack) > 1 {
			grand = stack[len(stack)-2]
		}
		if fl, ok := n.(*ast.FuncLit); ok {
			sc.lits++
			h0, onTheSpot := 2, false
			if c, ok := parent.(*ast.CallExpr); ok {
				if c.Fun == n {
					if _, deferred := grand.(*ast.DeferStmt); deferred {
						h0 = 0 // runs when the function is left: a function of its own
					} else if _, goStmt := grand.(*ast.GoStmt); goStmt {
						h0 = 0
					} else {
						h0, onTheSpot = held, true
					}
				} else {
					for i, a := range c.Args {
						if a == n && sc.lookup != nil {
							h0 = sc.lookup(c12Callee(c), i)
						}
					}
				}
			}
			saved := sc.name
			sc.name = fmt.Sprintf("%s.func%d", name, sc.lits)
			h1, _ := sc.block(fl.Body.List, h0)
			sc.name = saved
			if onTheSpot {
				held = h1
			}
			return false
		}
		stack = append(stack, n)
		if c, ok := n.(*ast.CallExpr); ok {
			if sel, ok := c.Fun.(*ast.SelectorExpr); ok && sc.isLock(sel.X) {
				if _, deferred := parent.(*ast.DeferStmt); !deferred {
					switch sel.Sel.Name {
					case "Lock":
						held = 1
					case "Unlock":
						held = 0
					}
				}
			}
			if id, ok := c.Fun.(*ast.Ident); ok && sc.probe != "" && id.Name == sc.probe {
				sc.probeHeld = append(sc.probeHeld, held)
			}
		}
		// a lock handed to a callee / stored in a field
		if e, ok := n.(ast.Expr); ok && sc.isLock(e) {
			switch p := parent.(type) {
			case *ast.CallExpr:
				for i, a := range p.Args {
					if a == n {
						sc.esc = append(sc.esc, c12Escape{c12Callee(p), i, true})
					}
				}
			case *ast.AssignStmt:
				for i, r := range p.Rhs {
					if r == n && i < len(p.Lhs) {
						if s, ok := p.Lhs[i].(*ast.SelectorExpr); ok {
							sc.aliasL = append(sc.aliasL, s.Sel.Name)
						}
					}
				}
			}
		}
		tname, ok := isTable(n)
		if !ok {
			return true
		}
		if id, isIdent := n.(*ast.Ident); isIdent {
			if s, ok := parent.(*ast.SelectorExpr); ok && s.Sel == id {
				return true
			}
			if kv, ok := parent.(*ast.KeyValueExpr); ok && kv.Key == n {
				return true
			}
		}
		where := name + ":" + tname
		switch p := parent.(type) {
		case *ast.IndexExpr:
			if p.X == n {
				sc.uses = append(sc.uses, c12Use{where + " index", guard()})
				return true
			}
		case *ast.RangeStmt:
			if p.X == n {
				sc.uses = append(sc.uses, c12Use{where + " range", guard()})
				return true
			}
		case *ast.BinaryExpr:
			if (p.Op == token.EQL || p.Op == token.NEQ) && (c12IsNil(p.X) || c12IsNil(p.Y)) {
				return true
			}
		case *ast.CallExpr:
			if id, ok := p.Fun.(*ast.Ident); ok && (id.Name == "delete" || id.Name == "len") && len(p.Args) > 0 && p.Args[0] == n {
				sc.uses = append(sc.uses, c12Use{where + " " + id.Name, guard()})
				return true
			}
			for i, a := range p.Args {
				if a == n {
					sc.esc = append(sc.esc, c12Escape{c12Callee(p), i, false})
					return true
				}
			}
		case *ast.AssignStmt:
			for _, l := range p.Lhs {
				if l == n && sc.alias {
					return true // (re)binding the alias field itself
				}
			}
			for i, r := range p.Rhs {
				if r == n && i < len(p.Lhs) {
					if s, ok := p.Lhs[i].(*ast.SelectorExpr); ok && !sc.alias {
						if _, isParam := n.(*ast.Ident); isParam {
							sc.aliasT = append(sc.aliasT, s.Sel.Name)
							return true
						}
					}
				}
			}
		}
		sc.uses = append(sc.uses, c12Use{where + " used as a value", "unknown"})
		return true
	})
	return held
}

func c12Callee(c *ast.CallExpr) string {
	switch f := c.Fun.(type) {
	case *ast.SelectorExpr:
		return f.Sel.Name
	case *ast.Ident:
		return f.Name
	}
	return "?"
}

func c12ParamNames(fd *ast.FuncDecl) []string {
	var ps []string
	for _, f := range fd.Type.Params.List {
		if len(f.Names) == 0 {
			ps = append(ps, "_")
		}
		for _, n := range f.Names {
			ps = append(ps, n.Name)
		}
	}
	return ps
}

func c12TableUses() ([]c12Use, error) {
	files, err := c12AllFiles()
	if err != nil {
		return nil, err
	}
	eachFunc := func(dirFilter string, f func(dir string, fd *ast.FuncDecl)) {
		for _, cf := range files {
			if dirFilter != "" && cf.dir != dirFilter {
				continue
			}
			for _, d := range cf.file.Decls {
				if fd, ok := d.(*ast.FuncDecl); ok && fd.Body != nil {
					f(cf.dir, fd)
				}
			}
		}
	}
	// in which lock state does a callee call the function it was given as argument number arg?
	lookup := func(callee string, arg int) int {
		res, found := 2, false
		eachFunc("", func(dir string, fd *ast.FuncDecl) {
			ps := c12ParamNames(fd)
			if fd.Name.Name != callee || arg >= len(ps) {
				return
			}
			sc := &c12Scanner{tables: map[string]bool{}, locks: map[string]bool{"MutexesMutex": true}, probe: ps[arg]}
			sc.scan(c12FuncName(dir, fd), fd.Body)
			for _, h := range sc.probeHeld {
				if !found {
					res, found = h, true
				} else {
					res = c12Join(res, h)
				}
			}
		})
		return res
	}
	// pass 1: the tables themselves, everywhere
	p1 := &c12Scanner{tables: map[string]bool{"Mutexes": true, "MutexeOwners": true}, locks: map[string]bool{"MutexesMutex": true}, lookup: lookup}
	eachFunc("", func(dir string, fd *ast.FuncDecl) { p1.scan(c12FuncName(dir, fd), fd.Body) })
	uses := p1.uses
	// pass 2: follow the tables (and the lock) into callees
	type aliasSet struct{ t, l map[string]bool }
	aliases := map[string]*aliasSet{}
	lockArgs := map[string][]int{} // callee -> argument positions that received the table lock
	for _, e := range p1.esc {
		if e.lock {
			lockArgs[e.callee] = append(lockArgs[e.callee], e.arg)
		}
	}
	seen := map[string]bool{}
	for _, e := range p1.esc {
		if e.lock {
			continue
		}
		key := fmt.Sprintf("%s#%d", e.callee, e.arg)
		if seen[key] {
			continue
		}
		seen[key] = true
		found := false
		eachFunc("", func(dir string, fd *ast.FuncDecl) {
			ps := c12ParamNames(fd)
			if fd.Name.Name != e.callee || e.arg >= len(ps) {
				return
			}
			found = true
			sc := &c12Scanner{tables: map[string]bool{}, locks: map[string]bool{"MutexesMutex": true},
				params: map[string]bool{ps[e.arg]: true}, lockParams: map[string]bool{}}
			for _, j := range lockArgs[e.callee] {
				if j < len(ps) {
					sc.lockParams[ps[j]] = true
				}
			}
			sc.scan(c12FuncName(dir, fd), fd.Body)
			uses = append(uses, sc.uses...)
			for _, x := range sc.esc {
				if !x.lock {
					uses = append(uses, c12Use{c12FuncName(dir, fd) + ":" + ps[e.arg] + " passed on to " + x.callee, "unknown"})
				}
			}
			if aliases[dir] == nil {
				aliases[dir] = &aliasSet{map[string]bool{}, map[string]bool{}}
			}
			for _, a := range sc.aliasT {
				aliases[dir].t[a] = true
			}
			for _, a := range sc.aliasL {
				aliases[dir].l[a] = true
			}
		})
		if !found {
			uses = append(uses, c12Use{"argument " + fmt.Sprint(e.arg) + " of " + e.callee + " (no such function in the tree)", "unknown"})
		}
	}
	// pass 3: the alias fields, in their package
	var dirs []string
	for d := range aliases {
		dirs = append(dirs, d)
	}
	sort.Strings(dirs)
	for _, dir := range dirs {
		as := aliases[dir]
		if len(as.t) == 0 {
			continue
		}
		sc := &c12Scanner{tables: as.t, locks: map[string]bool{"MutexesMutex": true}, alias: true}
		for l := range as.l {
			sc.locks[l] = true
		}
		eachFunc(dir, func(d string, fd *ast.FuncDecl) { sc.scan(c12FuncName(d, fd), fd.Body) })
		uses = append(uses, sc.uses...)
		for _, x := range sc.esc {
			if !x.lock {
				uses = append(uses, c12Use{dir + ": alias passed on to " + x.callee, "unknown"})
			}
		}
	}
	if len(uses) == 0 {
		uses = append(uses, c12Use{"no use of the tables found", "unknown"})
	}
	return uses, nil
}

// c12CounterInit evaluates the initial value the constructor gives the id counter field of the
// pool (the field NewThreadID increments): -1 = cannot tell.
func c12CounterInit() int {
	cw, err := c12CounterWrites()
	if err != nil || len(cw) == 0 {
		return -1
	}
	dir := filepath.Join(repoDir(), "engine", "pool")
	files, _ := filepath.Glob(filepath.Join(dir, "*.go"))
	sort.Strings(files)
	fset := token.NewFileSet()
	var parsed []*ast.File
	for _, fn := range files {
		if strings.HasSuffix(fn, "_test.go") {
			continue
		}
		if f, err := parser.ParseFile(fset, fn, nil, 0); err == nil {
			parsed = append(parsed, f)
		}
	}
	// the counter field: the one NewThreadID increments
	counter := ""
	for _, f := range parsed {
		for _, d := range f.Decls {
			if fd, ok := d.(*ast.FuncDecl); ok && fd.Name.Name == "NewThreadID" && fd.Body != nil {
				ast.Inspect(fd.Body, func(n ast.Node) bool {
					switch x := n.(type) {
					case *ast.IncDecStmt:
						if s, ok := x.X.(*ast.SelectorExpr); ok && counter == "" {
							counter = s.Sel.Name
						}
					case *ast.CallExpr:
						if s, ok := x.Fun.(*ast.SelectorExpr); ok && strings.HasPrefix(s.Sel.Name, "Add") && len(x.Args) > 0 && counter == "" {
							if u, ok := x.Args[0].(*ast.UnaryExpr); ok {
								if fs, ok := u.X.(*ast.SelectorExpr); ok {
									counter = fs.Sel.Name
								}
							}
						}
					}
					return true
				})
			}
		}
	}
	if counter == "" {
		return -1
	}
	// position of the field in the struct
	pos := -1
	for _, f := range parsed {
		ast.Inspect(f, func(n ast.Node) bool {
			ts, ok := n.(*ast.TypeSpec)
			if !ok || ts.Name.Name != "ThreadPool" {
				return true
			}
			if st, ok := ts.Type.(*ast.StructType); ok {
				i := 0
				for _, fl := range st.Fields.List {
					if len(fl.Names) == 0 {
						i++
					}
					for _, nm := range fl.Names {
						if nm.Name == counter {
							pos = i
						}
						i++
					}
				}
			}
			return false
		})
	}
	val := -1
	n := 0
	for _, f := range parsed {
		ast.Inspect(f, func(nd ast.Node) bool {
			cl, ok := nd.(*ast.CompositeLit)
			if !ok {
				return true
			}
			if id, ok := cl.Type.(*ast.Ident); !ok || id.Name != "ThreadPool" {
				return true
			}
			n++
			var e ast.Expr
			keyed := false
			for _, el := range cl.Elts {
				if kv, ok := el.(*ast.KeyValueExpr); ok {
					keyed = true
					if id, ok := kv.Key.(*ast.Ident); ok && id.Name == counter {
						e = kv.Value
					}
				}
			}
			if !keyed && pos >= 0 && pos < len(cl.Elts) {
				e = cl.Elts[pos]
			}
			if keyed && e == nil {
				val = 0 // field left at its zero value
				return true
			}
			if lit, ok := e.(*ast.BasicLit); ok && lit.Kind == token.INT {
				fmt.Sscan(lit.Value, &val)
			}
			return true
		})
	}
	if n != 1 {
		return -1
	}
	return val
}

// c12LiteralTids lists every call in the tree (non-test files) that evaluates ECAL code with an
// integer LITERAL as the thread id: Runtime.Eval(vs, is, <lit>) or an ECALFunction's
// Run(instanceID, vs, is, <lit>, args). A thread id must come from the pool's generator.
func c12LiteralTids() ([]string, error) {
	files, err := c12AllFiles()
	if err != nil {
		return nil, err
	}
	var out []string
	for _, cf := range files {
		for _, d := range cf.file.Decls {
			fd, ok := d.(*ast.FuncDecl)
			if !ok || fd.Body == nil {
				continue
			}
			ast.Inspect(fd.Body, func(n ast.Node) bool {
				c, ok := n.(*ast.CallExpr)
				if !ok {
					return true
				}
				sel, ok := c.Fun.(*ast.SelectorExpr)
				if !ok {
					return true
				}
				pos := -1
				switch {
				case sel.Sel.Name == "Eval" && len(c.Args) == 3:
					pos = 2
				case sel.Sel.Name == "Run" && len(c.Args) == 5:
					pos = 3
				}
				if pos >= 0 {
					if lit, ok := c.Args[pos].(*ast.BasicLit); ok && lit.Kind == token.INT {
						out = append(out, c12FuncName(cf.dir, fd)+":"+lit.Value)
					}
				}
				return true
			})
		}
	}
	return out, nil
}
