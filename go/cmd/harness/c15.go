package main

// C15 — debugging only observes; every suspended thread can be resumed.
//
// Case kinds (payload fields are separated by one space, see lean/Ecal/Drivers/C15.lean):
//
//	D <n> <bos><boe> <bpops> <script> <timing> <seed> <trace> <prog-hex>
//	    n threads evaluate the program with the real debugger attached; a controller answers
//	    every REPORTED suspension (found by polling the `status` / `describe` commands) with
//	    the next act of the script. Result: `same=1|0 vis=1|0 susp=<lines thread 1>|<thread 2>…`
//	    vis = every evaluated literal node (number, string, true/false/null) was announced to
//	    the debugger (noted independently by wrapping the literal nodes' runtimes).
//	    same = result, log and global scope of every debugged thread equal those of a plain run.
//	    <trace> is the visit trace of the program recorded at generation time (a debugger
//	    wrapper that notes every VisitState / VisitStepInState / VisitStepOutState call).
//	    timing: poll (controller polls), window (Continue is issued exactly between "marked
//	    suspended" and Wait, needs the hook points of hooks/C15.patch), random (random delays
//	    at the hook points).
//	K <n> <bpops> <trace> <prog-hex>
//	    n threads suspend at their first break point, then StopThreads; every thread must end.
//	S <workers> <line> <events> <prog-hex>
//	    sink program on <workers> workers, break point in the sink body, every suspension is
//	    resumed; same final state as the plain run, suspensions only at the break point.
//
// Handshake hook events of every run are appended to c15-hs.<pid>.txt (one thread per line),
// recorded per-thread visit traces of S cases to c15-vt.<pid>.txt; props/C15.py feeds both to
// the model driver (modes hs / vt).

import (
	"encoding/json"
	"fmt"
	"os"
	"os/exec"
	"path/filepath"
	"runtime"
	"runtime/debug"
	"sort"
	"strconv"
	"strings"
	"sync"
	"sync/atomic"
	"time"

	"github.com/krotik/ecal/cli/tool"
	"github.com/krotik/ecal/config"
	"github.com/krotik/ecal/interpreter"
	"github.com/krotik/ecal/parser"
	"github.com/krotik/ecal/util"
	"github.com/krotik/ecal/verifhook"
)

// ---------------------------------------------------------------- recording wrapper

// recDebugger notes every visit call the interpreter makes and hands it to the real debugger.
type recDebugger struct {
	util.ECALDebugger
	mu        sync.Mutex
	traces    map[uint64][]string
	litVisits map[int]int // debugger visits of literal nodes per line
	litEvals  map[int]int // evaluations of literal nodes per line (noted by c15LitRuntime)
	watched   map[*parser.ASTNode]bool
	off       bool        // life-cycle cases: the debugger is detached at the moment
}

// c15IsLiteral: leaf nodes whose runtime nobody type-asserts (safe to wrap).
func c15IsLiteral(n *parser.ASTNode) bool {
	switch n.Name {
	case parser.NodeNUMBER, parser.NodeSTRING, parser.NodeTRUE, parser.NodeFALSE, parser.NodeNULL:
		return n.Token != nil
	}
	return false
}

// c15LitRuntime notes every evaluation of a literal node independently of the debugger: a
// line that is executed must be visited, also when it holds nothing but a literal.
type c15LitRuntime struct {
	parser.Runtime
	line int
	rec  *recDebugger
}

func (r *c15LitRuntime) Eval(vs parser.Scope, is map[string]interface{}, tid uint64) (interface{}, error) {
	r.rec.mu.Lock()
	if !r.rec.off {
		r.rec.litEvals[r.line]++
	}
	r.rec.mu.Unlock()
	return r.Runtime.Eval(vs, is, tid)
}

// c15WrapLiterals wraps the runtimes of the WATCHED nodes: literal nodes and every statement of a
// statement list (children of a `statements` node with a token: assignments, calls, return / break /
// continue, loops, …; nobody type-asserts these runtimes). For each of them an evaluation must be
// announced to the debugger as a visit of that very node.
func c15WrapLiterals(n *parser.ASTNode, rec *recDebugger) {
	c15WrapWatched(n, rec, true)
}

func c15WrapWatched(n *parser.ASTNode, rec *recDebugger, isStatement bool) {
	if n.Token != nil && (c15IsLiteral(n) || isStatement) && n.Name != parser.NodeSTATEMENTS {
		if _, done := n.Runtime.(*c15LitRuntime); !done {
			n.Runtime = &c15LitRuntime{n.Runtime, c15Pos(n), rec}
			rec.mu.Lock()
			rec.watched[n] = true
			rec.mu.Unlock()
		}
	}
	for _, c := range n.Children {
		c15WrapWatched(c, rec, n.Name == parser.NodeSTATEMENTS)
	}
}

// litAgree: every evaluated literal node was announced to the debugger.
func (d *recDebugger) litAgree() bool {
	d.mu.Lock()
	defer d.mu.Unlock()
	if len(d.litVisits) != len(d.litEvals) {
		return false
	}
	for l, n := range d.litEvals {
		if d.litVisits[l] != n {
			return false
		}
	}
	return true
}

func newRecDebugger(d util.ECALDebugger) *recDebugger {
	return &recDebugger{ECALDebugger: d, traces: map[uint64][]string{}, litVisits: map[int]int{}, litEvals: map[int]int{}, watched: map[*parser.ASTNode]bool{}}
}

func (d *recDebugger) note(tid uint64, s string) {
	d.mu.Lock()
	if !d.off {
		d.traces[tid] = append(d.traces[tid], s)
	}
	d.mu.Unlock()
}

// setOn: life-cycle cases — events and literal evaluations only count while the debugger is
// (meant to be) attached.
func (d *recDebugger) setOn(on bool) {
	d.mu.Lock()
	d.off = !on
	d.mu.Unlock()
}

func c15Pos(node *parser.ASTNode) int {
	return c15SrcOffset(node.Token.Lsource) + node.Token.Lline
}

func (d *recDebugger) VisitState(node *parser.ASTNode, vs parser.Scope, tid uint64) util.TraceableRuntimeError {
	if node.Token != nil {
		d.note(tid, "v"+strconv.Itoa(c15Pos(node)))
		d.mu.Lock()
		if d.watched[node] {
			d.litVisits[c15Pos(node)]++
		}
		d.mu.Unlock()
	}
	return d.ECALDebugger.VisitState(node, vs, tid)
}

func (d *recDebugger) VisitStepInState(node *parser.ASTNode, vs parser.Scope, tid uint64) util.TraceableRuntimeError {
	d.note(tid, "e"+strconv.Itoa(c15Pos(node)))
	return d.ECALDebugger.VisitStepInState(node, vs, tid)
}

func (d *recDebugger) VisitStepOutState(node *parser.ASTNode, vs parser.Scope, tid uint64, soErr error) util.TraceableRuntimeError {
	if soErr != nil {
		d.note(tid, "X"+strconv.Itoa(c15Pos(node)))
	} else {
		d.note(tid, "x"+strconv.Itoa(c15Pos(node)))
	}
	return d.ECALDebugger.VisitStepOutState(node, vs, tid, soErr)
}

// The `f` (execution finished) events of a trace are NOT taken from the code's own
// RecordThreadFinished calls: the harness inserts them by specification — after the entry file and
// after every console line of a command line session (c15CLISession), after every execution of a
// sink body (c15WrapSinks).
func (d *recDebugger) executionFinished(tid uint64) {
	d.note(tid, "f")
}

// c15SinkBodyRuntime marks the end of every execution of a sink body, however it ends.
type c15SinkBodyRuntime struct {
	parser.Runtime
	rec *recDebugger
}

func (r *c15SinkBodyRuntime) Eval(vs parser.Scope, is map[string]interface{}, tid uint64) (interface{}, error) {
	defer r.rec.executionFinished(tid)
	return r.Runtime.Eval(vs, is, tid)
}

func c15WrapSinks(n *parser.ASTNode, rec *recDebugger) {
	if n.Name == parser.NodeSINK {
		for _, c := range n.Children {
			if c.Name == parser.NodeSTATEMENTS {
				if _, done := c.Runtime.(*c15SinkBodyRuntime); !done {
					c.Runtime = &c15SinkBodyRuntime{c.Runtime, rec}
				}
			}
		}
	}
	for _, c := range n.Children {
		c15WrapSinks(c, rec)
	}
}

func (d *recDebugger) tids() []uint64 {
	d.mu.Lock()
	defer d.mu.Unlock()
	var out []uint64
	for t := range d.traces {
		out = append(out, t)
	}
	sort.Slice(out, func(i, j int) bool { return out[i] < out[j] })
	return out
}

func (d *recDebugger) trace(tid uint64) []string {
	d.mu.Lock()
	defer d.mu.Unlock()
	return append([]string(nil), d.traces[tid]...)
}

// ---------------------------------------------------------------- outcome of a run

func c15Canon(v interface{}) string {
	switch x := v.(type) {
	case nil:
		return "null"
	case float64:
		return strconv.FormatFloat(x, 'g', -1, 64)
	case string:
		return strconv.Quote(x)
	case bool:
		return fmt.Sprint(x)
	case []interface{}:
		parts := make([]string, len(x))
		for i, e := range x {
			parts[i] = c15Canon(e)
		}
		return "[" + strings.Join(parts, ",") + "]"
	case map[interface{}]interface{}:
		parts := make([]string, 0, len(x))
		for k, e := range x {
			parts = append(parts, c15Canon(k)+":"+c15Canon(e))
		}
		sort.Strings(parts)
		return "{" + strings.Join(parts, ",") + "}"
	case util.ECALFunction:
		return "<func>"
	}
	return fmt.Sprintf("<%T>", v)
}

// c15Dump is a canonical dump of a scope (functions by name only).
func c15Dump(vs parser.Scope) string {
	obj := vs.ToJSONObject()
	keys := make([]string, 0, len(obj))
	for k := range obj {
		keys = append(keys, k)
	}
	sort.Strings(keys)
	var sb strings.Builder
	for _, k := range keys {
		v, _, _ := vs.GetValue(k)
		sb.WriteString(k + "=" + c15Canon(v) + ";")
	}
	// the whole scope tree (child scopes, their names and values) as the scope prints itself
	sb.WriteString(" tree=" + strconv.Quote(vs.String()))
	return sb.String()
}

func c15Outcome(res interface{}, err error, vs parser.Scope) string {
	e := "-"
	if err != nil {
		e = err.Error()
	}
	return "res=" + c15Canon(res) + " err=" + e + " vars=" + c15Dump(vs)
}

// ---------------------------------------------------------------- hook handler

type c15Sched struct {
	mode   string
	mu     sync.Mutex
	rng    *Rand
	isTid  map[interface{}]uint64
	events map[uint64][]string
	parked map[uint64]chan struct{}
	gaveUp map[uint64]bool
	seen   int32 // number of debug.* hook events (hooks present?)
}

var c15Cur atomic.Value // *c15Sched

func c15Install(s *c15Sched) {
	c15Cur.Store(s)
	verifhook.SetHandler(func(point string, args ...interface{}) {
		if cur, _ := c15Cur.Load().(*c15Sched); cur != nil && strings.HasPrefix(point, "debug.") {
			cur.at(point, args)
		}
	})
}

func (s *c15Sched) jitter() {
	if s.mode != "random" {
		return
	}
	s.mu.Lock()
	k := s.rng.Intn(8)
	us := s.rng.Intn(150)
	s.mu.Unlock()
	switch {
	case k < 3:
		runtime.Gosched()
	case k < 6:
		time.Sleep(time.Duration(us) * time.Microsecond)
	}
}

func (s *c15Sched) tidOf(is interface{}) (uint64, bool) {
	t, ok := s.isTid[is]
	return t, ok
}

func (s *c15Sched) at(point string, args []interface{}) {
	atomic.AddInt32(&s.seen, 1)
	rec := func(is interface{}, tok string) {
		s.mu.Lock()
		if tid, ok := s.tidOf(is); ok {
			s.events[tid] = append(s.events[tid], tok)
		}
		s.mu.Unlock()
	}
	switch point {
	case "debug.suspend.pre":
		tid := args[0].(uint64)
		s.mu.Lock()
		s.isTid[args[1]] = tid
		s.events[tid] = append(s.events[tid], "m")
		s.mu.Unlock()
	case "debug.suspend":
		tid := args[0].(uint64)
		if s.mode == "window" {
			// park the thread between "marked suspended" and Wait until the controller has
			// completed its Continue
			ch := make(chan struct{})
			s.mu.Lock()
			s.parked[tid] = ch
			s.mu.Unlock()
			select {
			case <-ch:
			case <-time.After(400 * time.Millisecond):
				// the controller's Continue did not complete while this thread stands here (it may
				// be blocked on a lock this thread holds): give the window up
				s.mu.Lock()
				s.gaveUp[tid] = true
				s.mu.Unlock()
			}
		} else {
			s.jitter()
		}
	case "debug.wait":
		rec(args[0], "w")
		s.jitter()
	case "debug.woke":
		rec(args[0], "k")
		s.jitter()
	case "debug.resumed":
		rec(args[1], "r")
	case "debug.continue":
		rec(args[2], "c"+string("RIOU"[args[1].(int)]))
		s.jitter()
	case "debug.stop":
		rec(args[0], "t")
		s.jitter()
	case "debug.setrunning":
		rec(args[0], "s")
	}
}

func (s *c15Sched) lastEvent(tid uint64) string {
	s.mu.Lock()
	defer s.mu.Unlock()
	if ev := s.events[tid]; len(ev) > 0 {
		return ev[len(ev)-1]
	}
	return ""
}

func (s *c15Sched) takeParked(tid uint64) chan struct{} {
	s.mu.Lock()
	defer s.mu.Unlock()
	ch := s.parked[tid]
	delete(s.parked, tid)
	return ch
}

var c15HsFile, c15VtFile, c15HangFile *os.File

// c15Hangs counts the hung cases of this process.
var c15Hangs int

func c15Side(f **os.File, name string, line string) {
	if *f == nil {
		var err error
		*f, err = os.OpenFile(fmt.Sprintf("%s.%d.txt", name, os.Getpid()), os.O_APPEND|os.O_CREATE|os.O_WRONLY, 0644)
		if err != nil {
			return
		}
	}
	fmt.Fprintln(*f, line)
}

// flush writes the handshake traces of the case to the side file.
func (s *c15Sched) flush(payload string) {
	s.mu.Lock()
	defer s.mu.Unlock()
	tids := make([]uint64, 0, len(s.events))
	for t := range s.events {
		tids = append(tids, t)
	}
	sort.Slice(tids, func(i, j int) bool { return tids[i] < tids[j] })
	for _, t := range tids {
		c15Side(&c15HsFile, "c15-hs", strings.Join(s.events[t], ",")+"\t"+payload)
		CountRun("hs.traces")
		CountRun("hs.events." + s.mode)
	}
}

// ---------------------------------------------------------------- debugged run

type c15Thread struct {
	tid     uint64
	vs      parser.Scope
	res     interface{}
	err     error
	normal  bool // Eval returned (false: Goexit or still running)
	ended   chan struct{}
	susp    []int
	nextAct int
}

type c15Run struct {
	src     string
	n       int
	bos     bool
	boe     bool
	bpops   []string
	script  []string
	timing  string
	seed    uint64
	payload string
	cliLines []string // non-nil: src is the entry file of a cli/tool CLIInterpreter, these are console lines
	life    string // life-cycle mode (L cases): src = library, mainSrc = main program
	mainSrc string
	workers int // > 0: sink program, the processor runs with that many pool workers
}

const c15Source = "t"

// positions are numbers: <source index>*1000 + line; sources: 0 = "t", 1 = "lib", 2 = "main",
// 3 = the entry file of the command line interpreter (set per case), 4 = its console input
// (the library of the life-cycle cases is called "t2", their main program "t": break point keys of one
// source are a PREFIX of the other's)
var c15Sources = []string{c15Source, "t2", "main", "entry.ecal", "console input"}

func c15SrcOffset(name string) int {
	for i, s := range c15Sources {
		if s == name {
			return i * 1000
		}
	}
	return 9000
}

func c15ApplyOp(dbg util.ECALDebugger, op string) {
	n := op[1:]
	if op[0] == 'b' {
		dbg.BreakOnStart(n != "0")
		return
	}
	num, _ := strconv.Atoi(n)
	src, line := c15Sources[(num/1000)%len(c15Sources)], strconv.Itoa(num%1000)
	if strings.Contains(src, " ") {
		// "console input" cannot be named in a debug command (fields are split at spaces): use the API
		switch op[0] {
		case 's':
			dbg.SetBreakPoint(src, num%1000)
		case 'd':
			dbg.DisableBreakPoint(src, num%1000)
		case 'r':
			dbg.RemoveBreakPoint(src, num%1000)
		}
		return
	}
	switch op[0] {
	case 's':
		dbg.HandleInput("break " + src + ":" + line)
	case 'd':
		dbg.HandleInput("disablebreak " + src + ":" + line)
	case 'r':
		if num%1000 == 0 {
			dbg.HandleInput("rmbreak " + src)
		} else {
			dbg.HandleInput("rmbreak " + src + ":" + line)
		}
	}
}

var c15Cmds = map[byte]string{'R': "resume", 'I': "stepin", 'O': "stepover", 'U': "stepout"}

// c15Debugged runs the program on n threads under the debugger. kill: answer the first
// round of suspensions with StopThreads once all threads are reported suspended.
func c15Debugged(c *c15Run, kill bool) (threads []*c15Thread, lg *memLog, rec *recDebugger, hang bool) {
	lg = &memLog{}
	if c.workers > 0 {
		config.Config[config.WorkerCount] = c.workers
		defer func() { config.Config[config.WorkerCount] = 4 }()
	}
	var erp *interpreter.ECALRuntimeProvider
	var ci *tool.CLIInterpreter
	if c.cliLines != nil {
		// the command line interpreter (cli/tool/interpret.go) owns provider and global scope
		ci = c15NewCLI(c.src, lg)
		erp = ci.RuntimeProvider
	} else {
		erp = interpreter.NewECALRuntimeProvider("t", nil, lg)
	}
	defer erp.Cron.Stop()
	sched := &c15Sched{mode: c.timing, rng: NewRand(c.seed), isTid: map[interface{}]uint64{},
		events: map[uint64][]string{}, parked: map[uint64]chan struct{}{}, gaveUp: map[uint64]bool{}}
	if !c15HooksPresent() && c.timing == "window" {
		sched.mode = "poll"
	}
	c15Install(sched)
	defer c15Cur.Store((*c15Sched)(nil))
	defer sched.flush(c.payload)

	gvs := newGlobalScope()
	if ci != nil {
		gvs = ci.GlobalVS
	}
	dbg := interpreter.NewECALDebugger(gvs)
	rec = newRecDebugger(dbg)
	if c.life == "" {
		erp.Debugger = rec
	} else {
		rec.off = true
	}
	dbg.BreakOnStart(c.bos)
	dbg.BreakOnError(c.boe)
	for _, op := range c.bpops {
		c15ApplyOp(dbg, op)
	}
	var ast *parser.ASTNode
	var err error
	if c.life == "" && ci == nil {
		ast, err = parser.ParseWithRuntime(c15Source, c.src, erp)
		if err == nil {
			err = ast.Runtime.Validate()
		}
		if err != nil {
			t := &c15Thread{err: err, normal: true, vs: gvs}
			return []*c15Thread{t}, lg, rec, false
		}
		c15WrapLiterals(ast, rec)
		c15WrapSinks(ast, rec)
	}
	for i := 0; i < c.n; i++ {
		vs := gvs
		if i > 0 {
			vs = newGlobalScope()
		}
		threads = append(threads, &c15Thread{tid: erp.NewThreadID(), vs: vs, ended: make(chan struct{})})
	}
	byTid := map[string]*c15Thread{}
	for _, t := range threads {
		byTid[fmt.Sprint(t.tid)] = t
		go func(t *c15Thread) {
			defer close(t.ended)
			defer func() {
				if e := recover(); e != nil {
					t.err = fmt.Errorf("PANIC %v", e)
					t.normal = true
				}
			}()
			if c.life != "" {
				t.res, t.err = c15Life(c.life, erp, c.src, c.mainSrc, t.vs, t.tid,
					func() { erp.Debugger = rec; rec.setOn(true) },
					func() { erp.Debugger = nil; rec.setOn(false) },
					func(a *parser.ASTNode) { c15WrapLiterals(a, rec) })
			} else if ci != nil {
				t.res = c15CLISession(ci, c.cliLines, t.tid, rec)
			} else if c.workers > 0 {
				// addEvent starts the processor (rules can only be added while it is stopped)
				t.res, t.err = ast.Runtime.Eval(t.vs, make(map[string]interface{}), t.tid)
				erp.Processor.Finish() // waits until every event has been processed
			} else {
				t.res, t.err = ast.Runtime.Eval(t.vs, make(map[string]interface{}), t.tid)
			}
			t.normal = true
		}(t)
	}
	allEnded := func() bool {
		for _, t := range threads {
			select {
			case <-t.ended:
			default:
				return false
			}
		}
		return true
	}
	if c.timing == "toggle" {
		// a second controller edits break points on lines the program never executes while the
		// threads run: the answer of the model is unchanged, the process must survive
		stopToggle := make(chan struct{})
		defer close(stopToggle)
		for w := 0; w < 2; w++ {
			go func(w int) {
				for k := w; ; k++ {
					select {
					case <-stopToggle:
						return
					default:
					}
					l := 900 + k%7
					switch k % 4 {
					case 0:
						dbg.SetBreakPoint(c15Source, l)
					case 1:
						dbg.DisableBreakPoint(c15Source, l)
					case 2:
						dbg.SetBreakPoint("other", l)
					default:
						dbg.RemoveBreakPoint(c15Source, l)
					}
				}
			}(w)
		}
	}
	// the controller
	last := time.Now()
	ctlRng := NewRand(c.seed + 77)
	stopped := false
	var workersSeen []*c15Thread
	var stuckSince time.Time
	spins := 0
	idle := func() {
		spins++
		if spins < 200 {
			runtime.Gosched()
		} else {
			time.Sleep(100 * time.Microsecond)
		}
	}
	for !allEnded() {
		// A hang is decided from the hook state where possible: every thread that has not ended
		// stands in cond.Wait() although the debugger reports it as running (the lost resume),
		// unchanged for a grace period. Without that evidence only a long time without any
		// progress counts (the machine may be heavily loaded).
		// (once several cases of this process have hung the tree is broken anyway: shorter patience, so
		// that a run with hundreds of hanging cases stays within minutes)
		patience := 20 * time.Second
		if c15Hangs >= 10 {
			patience = 1500 * time.Millisecond
		} else if c15Hangs >= 3 {
			patience = 4 * time.Second
		}
		if time.Since(last) > patience || (!stuckSince.IsZero() && time.Since(stuckSince) > 2*time.Second) {
			hang = true
			c15Hangs++
			buf := make([]byte, 1<<20)
			buf = buf[:runtime.Stack(buf, true)]
			c15Side(&c15HangFile, "c15-hang", c.payload+"\n"+string(buf))
			break
		}
		st, _ := rec.HandleInput("status")
		tmap, _ := st.(map[string]interface{})["threads"].(map[string]map[string]interface{})
		var suspended []string
		for id, s := range tmap {
			if r, ok := s["threadRunning"].(bool); ok && !r {
				suspended = append(suspended, id)
			}
		}
		sort.Strings(suspended)
		if kill && !stopped {
			if len(suspended) == len(threads) {
				for _, id := range suspended {
					c15NoteSuspension(rec, byTid[id], id)
				}
				dbg.StopThreads(0)
				stopped = true
				last = time.Now()
			} else {
				idle()
			}
			continue
		}
		if len(suspended) == 0 {
			lost := 0
			alive := 0
			for _, t := range threads {
				select {
				case <-t.ended:
				default:
					alive++
					if s, ok := tmap[fmt.Sprint(t.tid)]; ok {
						if r, ok := s["threadRunning"].(bool); ok && r && sched.lastEvent(t.tid) == "w" {
							lost++
						}
					}
				}
			}
			if alive > 0 && lost == alive {
				if stuckSince.IsZero() {
					stuckSince = time.Now()
				}
			} else {
				stuckSince = time.Time{}
			}
			idle()
			continue
		}
		stuckSince = time.Time{}
		spins = 0
		for _, id := range suspended {
			t := byTid[id]
			if t == nil && c.workers > 0 {
				// a pool worker: known to the debugger only
				wt, _ := strconv.ParseUint(id, 10, 64)
				t = &c15Thread{tid: wt, ended: make(chan struct{})}
				close(t.ended)
				byTid[id] = t
				workersSeen = append(workersSeen, t)
			}
			if t == nil {
				continue
			}
			var parked chan struct{}
			if sched.mode == "window" {
				// wait until the thread stands between "marked suspended" and Wait
				for w := time.Now(); parked == nil && time.Since(w) < time.Second; {
					if parked = sched.takeParked(t.tid); parked == nil {
						runtime.Gosched()
					}
				}
			}
			c15NoteSuspension(rec, t, id)
			act := "R"
			if t.nextAct < len(c.script) {
				act = c.script[t.nextAct]
			}
			t.nextAct++
			parts := strings.Split(act, "+")
			for _, op := range parts[:len(parts)-1] {
				c15ApplyOp(dbg, op)
			}
			if sched.mode == "random" && ctlRng.Intn(3) == 0 {
				time.Sleep(time.Duration(ctlRng.Intn(200)) * time.Microsecond)
			}
			rec.HandleInput("cont " + id + " " + c15Cmds[parts[len(parts)-1][0]])
			if parked != nil {
				sched.mu.Lock()
				missed := sched.gaveUp[t.tid]
				delete(sched.gaveUp, t.tid)
				sched.mu.Unlock()
				if missed {
					CountRun("window.missed")
				} else {
					CountRun("window.inside") // Continue completed while the thread stood in the window
				}
				close(parked)
			}
			last = time.Now()
		}
	}
	threads = append(threads, workersSeen...)
	return threads, lg, rec, hang
}

// c15NoteSuspension asks the debugger where the reported-suspended thread stands.
func c15NoteSuspension(rec *recDebugger, t *c15Thread, id string) {
	line := -1
	d, _ := rec.HandleInput("describe " + id)
	if m, ok := d.(map[string]interface{}); ok {
		if nd, ok := m["node"].(map[string]interface{}); ok {
			if l, ok := nd["line"].(int); ok {
				line = l
				if src, ok := nd["source"].(string); ok {
					line += c15SrcOffset(src)
				}
			}
		}
	}
	t.susp = append(t.susp, line)
	rec.note(t.tid, "!"+strconv.Itoa(line))
}

func c15Plain(src string) (string, []string, []string) {
	lg := &memLog{}
	erp := interpreter.NewECALRuntimeProvider("t", nil, lg)
	defer erp.Cron.Stop()
	vs := newGlobalScope()
	dbg := interpreter.NewECALDebugger(vs)
	dbg.BreakOnError(false)
	rec := newRecDebugger(dbg)
	// first a run without any debugger: the reference outcome
	ast, err := parser.ParseWithRuntime(c15Source, src, erp)
	if err == nil {
		err = ast.Runtime.Validate()
	}
	if err != nil {
		return c15Outcome(nil, err, vs), nil, nil
	}
	var out string
	func() {
		defer func() {
			if e := recover(); e != nil {
				out = c15Outcome(nil, fmt.Errorf("PANIC %v", e), vs)
			}
		}()
		res, err := ast.Runtime.Eval(vs, make(map[string]interface{}), erp.NewThreadID())
		out = c15Outcome(res, err, vs)
	}()
	logs := append([]string(nil), lg.lines...)
	// then a recording run (debugger attached, nothing to stop at): the visit trace
	erp2 := interpreter.NewECALRuntimeProvider("t", nil, &memLog{})
	defer erp2.Cron.Stop()
	erp2.Debugger = rec
	ast2, _ := parser.ParseWithRuntime(c15Source, src, erp2)
	ast2.Runtime.Validate()
	tid := erp2.NewThreadID()
	func() {
		defer func() { recover() }()
		ast2.Runtime.Eval(newGlobalScope(), make(map[string]interface{}), tid)
	}()
	return out, logs, rec.trace(tid)
}

// c15Life loads code in several steps and attaches the debugger at the point the mode says.
// Phases: P1 = evaluate the library, P2 = evaluate the main program, P3 = evaluate the main
// program's AST a second time.
//
//	A0: attach | parse lib, main | P1 P2
//	A1: parse lib | P1 | attach | parse main | P2
//	A2: parse lib, main | P1 P2 | attach | P3
//	A3: attach | parse lib, main | P1 | detach | P2 | attach | P3
//	A4: parse lib, main | attach | P1 P2
//	A5: parse lib, main | P1 P2, the program itself attaches the debugger by calling x.attach()
//	    INSIDE a function call (the debugger then sees the return of calls it never saw start)
//
// The result is the list of the phases' results.
func c15Life(mode string, erp *interpreter.ECALRuntimeProvider, lib, main string, vs parser.Scope, tid uint64,
	attach, detach func(), wrap func(*parser.ASTNode)) (interface{}, error) {
	if mode == "A5" {
		c15AttachHook = attach
		defer func() { c15AttachHook = nil }()
	}
	var libAst, mainAst *parser.ASTNode
	var results []interface{}
	var firstErr error
	load := func(name, src string) *parser.ASTNode {
		a, err := parser.ParseWithRuntime(name, src, erp)
		if err == nil {
			err = a.Runtime.Validate()
		}
		if err != nil {
			if firstErr == nil {
				firstErr = err
			}
			return nil
		}
		wrap(a)
		return a
	}
	eval := func(a *parser.ASTNode) {
		if a == nil {
			return
		}
		res, err := a.Runtime.Eval(vs, make(map[string]interface{}), tid)
		e := "-"
		if err != nil {
			e = err.Error()
		}
		results = append(results, []interface{}{res, e})
	}
	for _, step := range strings.Split(map[string]string{
		"A0": "a,l,m,1,2", "A1": "l,1,a,m,2", "A2": "l,m,1,2,a,3", "A3": "a,l,m,1,d,2,a,3", "A4": "l,m,a,1,2", "A5": "l,m,1,2",
	}[mode], ",") {
		switch step {
		case "a":
			attach()
		case "d":
			detach()
		case "l":
			libAst = load(c15Sources[1], lib)
		case "m":
			mainAst = load(c15Sources[0], main)
		case "1":
			eval(libAst)
		case "2", "3":
			eval(mainAst)
		}
	}
	return results, firstErr
}

// c15AttachHook is what the stdlib function x.attach() does in the running case.
var c15AttachHook func()

// c15LifePlain: the reference outcome (no debugger at all) and the visit trace of the phases
// in which the mode has the debugger attached — recorded with a debugger that is attached
// BEFORE any parse, so that the trace does not depend on the attach point.
func c15LifePlain(mode, lib, main string) (string, []string, []string) {
	lg := &memLog{}
	erp := interpreter.NewECALRuntimeProvider("t", nil, lg)
	defer erp.Cron.Stop()
	vs := newGlobalScope()
	var out string
	func() {
		defer func() {
			if e := recover(); e != nil {
				out = c15Outcome(nil, fmt.Errorf("PANIC %v", e), vs)
			}
		}()
		res, err := c15Life(mode, erp, lib, main, vs, erp.NewThreadID(), func() {}, func() {}, func(*parser.ASTNode) {})
		out = c15Outcome(res, err, vs)
	}()
	logs := append([]string(nil), lg.lines...)
	erp2 := interpreter.NewECALRuntimeProvider("t", nil, &memLog{})
	defer erp2.Cron.Stop()
	dbg := interpreter.NewECALDebugger(newGlobalScope())
	dbg.BreakOnError(false)
	rec := newRecDebugger(dbg)
	rec.off = true
	erp2.Debugger = rec
	tid := erp2.NewThreadID()
	func() {
		defer func() { recover() }()
		c15Life(mode, erp2, lib, main, newGlobalScope(), tid, func() { rec.setOn(true) }, func() { rec.setOn(false) },
			func(*parser.ASTNode) {})
	}()
	return out, logs, rec.trace(tid)
}

func c15RunL(f []string, payload string) string {
	c := &c15Run{life: f[0], src: unhx(f[5]), mainSrc: unhx(f[6]), n: 1, bos: f[1][0] == '1', boe: f[1][1] == '1',
		bpops: c15List(f[2], ","), script: c15List(f[3], ","), timing: "poll", seed: 1, payload: payload}
	plain, plainLog, _ := c15LifePlain(c.life, c.src, c.mainSrc)
	threads, lg, rec, hang := c15Debugged(c, false)
	t := threads[0]
	same, vis := 1, 1
	if !hang && (!t.normal || c15Outcome(t.res, t.err, t.vs) != plain || strings.Join(plainLog, "\n") != strings.Join(lg.lines, "\n")) {
		same = 0
	}
	if !hang && !rec.litAgree() {
		vis = 0
	}
	r := fmt.Sprintf("same=%d vis=%d susp=%s", same, vis, c15Lines(t.susp))
	if hang {
		r = "HANG-suspended-thread-not-released " + r
	}
	CountRun("L." + c.life)
	return r
}

// c15RunZ: n threads run (and may arrive at break points) while a controller calls StopThreads
// over and over: every thread must end (killed or finished) and the process must survive.
func c15RunZ(f []string, payload string) string {
	n, _ := strconv.Atoi(f[0])
	src := unhx(f[2])
	erp := interpreter.NewECALRuntimeProvider("t", nil, &memLog{})
	defer erp.Cron.Stop()
	dbg := interpreter.NewECALDebugger(newGlobalScope())
	erp.Debugger = dbg
	dbg.BreakOnError(false)
	for _, op := range c15List(f[1], ",") {
		c15ApplyOp(dbg, op)
	}
	ast, err := parser.ParseWithRuntime(c15Source, src, erp)
	if err == nil {
		err = ast.Runtime.Validate()
	}
	if err != nil {
		return "bad-program"
	}
	// every worker evaluates the program `rounds` times, each time as a new thread (a killed
	// thread ends its goroutine): interrogation states are created and removed all the time
	rounds := 1
	if len(src) < 200 {
		rounds = 120
	}
	var wg sync.WaitGroup
	for i := 0; i < n; i++ {
		wg.Add(1)
		go func() {
			defer wg.Done()
			for r := 0; r < rounds; r++ {
				tid := erp.NewThreadID()
				one := make(chan struct{})
				go func() {
					defer close(one)
					defer func() { recover() }()
					ast.Runtime.Eval(newGlobalScope(), make(map[string]interface{}), tid)
				}()
				<-one
			}
		}()
	}
	done := make(chan struct{})
	go func() { wg.Wait(); close(done) }()
	deadline := time.After(30 * time.Second)
	for k := 0; ; k++ {
		select {
		case <-done:
			CountRun("Z")
			return fmt.Sprintf("ended=%d", n)
		case <-deadline:
			return "HANG-stopthreads-did-not-release"
		default:
		}
		dbg.StopThreads(0)
		if k%16 == 0 {
			runtime.Gosched()
		}
	}
}

// ---------------------------------------------------------------- command line interpreter

type c15Term struct{ sb strings.Builder }

func (t *c15Term) WriteString(s string) { t.sb.WriteString(s) }

// c15NewCLI sets up a cli/tool CLIInterpreter whose entry file holds src.
func c15NewCLI(src string, lg util.Logger) *tool.CLIInterpreter {
	// the same path in every session of this process (it appears in error texts)
	dir, _ := filepath.Abs(fmt.Sprintf("c15cli-%d", os.Getpid()))
	os.MkdirAll(dir, 0755)
	entry := filepath.Join(dir, "entry.ecal")
	os.WriteFile(entry, []byte(src), 0644)
	c15Sources[3] = entry
	ci := tool.NewCLIInterpreter()
	ci.Dir = &dir
	ci.EntryFile = entry
	ci.LoadPlugins = false
	if err := ci.CreateRuntimeProvider("console"); err != nil {
		panic(err)
	}
	ci.RuntimeProvider.Logger = lg
	return ci
}

// c15CLISession: load the entry file, then feed the console lines (what `ecal run`/console does
// per line: parse as "console input", validate, evaluate, report the thread as finished).
func c15CLISession(ci *tool.CLIInterpreter, lines []string, tid uint64, rec *recDebugger) string {
	defer os.RemoveAll(*ci.Dir)
	finished := func() {
		if rec != nil {
			rec.executionFinished(tid)
		}
	}
	var out []string
	if err := ci.LoadInitialFile(tid); err != nil {
		out = append(out, "load: "+err.Error())
	}
	finished()
	for _, l := range lines {
		term := &c15Term{}
		ci.HandleInput(term, l, tid)
		out = append(out, term.sb.String())
		finished()
	}
	ci.RuntimeProvider.Processor.Finish()
	return strings.Join(out, "|")
}

// c15CLIPlain: reference outcome without debugger and the visit trace (recording wrapper).
func c15CLIPlain(src string, lines []string) (string, []string, []string) {
	lg := &memLog{}
	ci := c15NewCLI(src, lg)
	defer ci.RuntimeProvider.Cron.Stop()
	res := c15CLISession(ci, lines, ci.RuntimeProvider.NewThreadID(), nil)
	out := c15Outcome(res, nil, ci.GlobalVS)
	logs := append([]string(nil), lg.lines...)
	ci2 := c15NewCLI(src, &memLog{})
	defer ci2.RuntimeProvider.Cron.Stop()
	dbg := interpreter.NewECALDebugger(ci2.GlobalVS)
	dbg.BreakOnError(false)
	rec := newRecDebugger(dbg)
	ci2.RuntimeProvider.Debugger = rec
	tid := ci2.RuntimeProvider.NewThreadID()
	c15CLISession(ci2, lines, tid, rec)
	return out, logs, rec.trace(tid)
}

func c15RunI(f []string, payload string) string {
	var lines []string
	for _, h := range c15List(f[5], ",") {
		lines = append(lines, unhx(h))
	}
	if lines == nil {
		lines = []string{}
	}
	c := &c15Run{src: unhx(f[4]), cliLines: lines, n: 1, bos: f[0][0] == '1', boe: f[0][1] == '1', bpops: c15List(f[1], ","),
		script: c15List(f[2], ","), timing: "poll", seed: 1, payload: payload}
	plain, plainLog, _ := c15CLIPlain(c.src, lines)
	threads, lg, rec, hang := c15Debugged(c, false)
	t := threads[0]
	same, vis := 1, 1
	if !hang && (!t.normal || c15Outcome(t.res, t.err, t.vs) != plain || strings.Join(plainLog, "\n") != strings.Join(lg.lines, "\n")) {
		same = 0
	}
	if !hang && !rec.litAgree() {
		vis = 0
	}
	if os.Getenv("C15_DEBUG") != "" {
		fmt.Fprintln(os.Stderr, "plain:", plain, plainLog, "\ndebug:", c15Outcome(t.res, t.err, t.vs), lg.lines)
	}
	r := fmt.Sprintf("same=%d vis=%d susp=%s", same, vis, c15Lines(t.susp))
	if hang {
		r = "HANG-suspended-thread-not-released " + r
	}
	CountRun("I")
	return r
}

// c15RunY: a program for which attaching the debugger is known to kill the PROCESS (stack overflow in
// the scope snapshot of a self-containing value): run the debugged case in a child process.
func c15RunY(progHex string) string {
	cmd := exec.Command(os.Args[0], "C15", "-one", "D 1 00 - - poll 1 - "+progHex)
	cmd.Env = append(os.Environ(), "C15_CHILD=1")
	var out strings.Builder
	cmd.Stdout = &out
	done := make(chan error, 1)
	if err := cmd.Start(); err != nil {
		return "cannot-start-child"
	}
	go func() { done <- cmd.Wait() }()
	select {
	case err := <-done:
		if err == nil {
			if l := strings.TrimSpace(out.String()); strings.HasPrefix(l, "same=") {
				return l
			}
		}
	case <-time.After(60 * time.Second):
		cmd.Process.Kill()
	}
	CountRun("Y.died")
	return "DIES-with-debugger-attached"
}

// c15KnownListed: is the finding id listed in known_findings.txt of the verification tree? (the check
// runs the harness in <verif>/.work/<dir>/)
func c15KnownListed(id string) bool {
	for _, p := range []string{"../../known_findings.txt", "known_findings.txt"} {
		if b, err := os.ReadFile(p); err == nil {
			return strings.Contains(string(b), "id="+id+" ")
		}
	}
	return false
}

// c15SinkProgram: a sink with the given body lines, `events` events of its kind.
func c15SinkProgram(body []string, events int) string {
	lines := []string{"func h(a) {", "    return a * 2", "}", "sink s1", "    kindmatch [ \"ev.a\" ],", "    {"}
	for _, b := range body {
		lines = append(lines, "        "+b)
	}
	lines = append(lines, "    }", "for i in range(1, "+strconv.Itoa(events)+") {", "    addEvent(\"e\", \"ev.a\", {\"n\": i})", "}", "events := "+strconv.Itoa(events))
	return strings.Join(lines, "\n")
}

// c15SinkPlain runs a sink program without debugger (reference) or with the recording wrapper.
func c15SinkRun(src string, workers int, rec *recDebugger) (string, []string) {
	config.Config[config.WorkerCount] = workers
	defer func() { config.Config[config.WorkerCount] = 4 }()
	lg := &memLog{}
	erp := interpreter.NewECALRuntimeProvider("t", nil, lg)
	defer erp.Cron.Stop()
	if rec != nil {
		erp.Debugger = rec
	}
	vs := newGlobalScope()
	ast, err := parser.ParseWithRuntime(c15Source, src, erp)
	if err == nil {
		err = ast.Runtime.Validate()
	}
	if err != nil {
		return c15Outcome(nil, err, vs), nil
	}
	if rec != nil {
		c15WrapSinks(ast, rec)
	}
	res, err := ast.Runtime.Eval(vs, make(map[string]interface{}), erp.NewThreadID())
	erp.Processor.Finish()
	logs := append([]string(nil), lg.lines...)
	sort.Strings(logs)
	return c15Outcome(res, err, vs), logs
}

// c15SinkBodyTrace: the visit trace of ONE execution of the sink body (1 worker, 1 event).
func c15SinkBodyTrace(body []string) []string {
	dbg := interpreter.NewECALDebugger(newGlobalScope())
	dbg.BreakOnError(false)
	rec := newRecDebugger(dbg)
	c15SinkRun(c15SinkProgram(body, 1), 1, rec)
	tids := rec.tids()
	if len(tids) < 2 {
		return nil
	}
	// the main thread has the lowest id; the worker's trace is the sink body
	var out []string
	for _, e := range rec.trace(tids[len(tids)-1]) {
		if e != "f" {
			out = append(out, e)
		}
	}
	return out
}

func c15RunS(f []string, payload string) string {
	workers, _ := strconv.Atoi(f[0])
	c := &c15Run{src: unhx(f[5]), n: 1, workers: workers, bpops: c15List(f[2], ","), script: c15List(f[3], ","),
		timing: "poll", seed: 1, payload: payload}
	plain, plainLog := c15SinkRun(c.src, workers, nil)
	if os.Getenv("C15_DEBUG") != "" {
		fmt.Fprintln(os.Stderr, "plain:", plain, plainLog)
	}
	threads, lg, rec, hang := c15Debugged(c, false)
	same := 1
	got := append([]string(nil), lg.lines...)
	sort.Strings(got)
	t := threads[0]
	if !hang && (!t.normal || c15Outcome(t.res, t.err, t.vs) != plain || strings.Join(plainLog, "\n") != strings.Join(got, "\n")) {
		same = 0
	}
	total := 0
	for _, th := range threads {
		total += len(th.susp)
	}
	// the per-thread traces (visits, `!` = reported suspension, `f` = thread finished) for mode vt
	for _, tid := range rec.tids() {
		c15Side(&c15VtFile, "c15-vt", "00 "+f[2]+" "+f[3]+" "+c15TraceStr(rec.trace(tid))+"\t"+payload)
		CountRun("vt.traces")
	}
	CountRun("S")
	r := fmt.Sprintf("same=%d susp=%d", same, total)
	if f[3] != "-" && workers != 1 {
		r = fmt.Sprintf("same=%d susp=any", same)
	}
	if hang {
		r = "HANG-suspended-thread-not-released " + r
	}
	return r
}

func c15Lines(xs []int) string {
	if len(xs) == 0 {
		return "-"
	}
	s := make([]string, len(xs))
	for i, x := range xs {
		s[i] = strconv.Itoa(x)
	}
	return strings.Join(s, ".")
}

func c15List(s string, sep string) []string {
	if s == "-" || s == "" {
		return nil
	}
	return strings.Split(s, sep)
}

func c15RunD(f []string, payload string) string {
	n, _ := strconv.Atoi(f[0])
	seed, _ := strconv.ParseUint(f[5], 10, 64)
	c := &c15Run{src: unhx(f[7]), n: n, bos: f[1][0] == '1', boe: f[1][1] == '1', bpops: c15List(f[2], ","),
		script: c15List(f[3], ","), timing: f[4], seed: seed, payload: payload}
	plain, plainLog, _ := c15Plain(c.src)
	threads, lg, rec, hang := c15Debugged(c, false)
	same := 1
	vis := 1
	if !hang && !rec.litAgree() {
		vis = 0
	}
	var susp []string
	for _, t := range threads {
		susp = append(susp, c15Lines(t.susp))
		if !hang && (!t.normal || c15Outcome(t.res, t.err, t.vs) != plain) {
			same = 0
		}
	}
	// log: every thread logs what the plain run logs
	var want []string
	for range threads {
		want = append(want, plainLog...)
	}
	got := append([]string(nil), lg.lines...)
	if len(threads) > 1 {
		sort.Strings(want)
		sort.Strings(got)
	}
	if !hang && strings.Join(want, "\n") != strings.Join(got, "\n") {
		same = 0
	}
	sort.Strings(susp)
	r := fmt.Sprintf("same=%d vis=%d susp=%s", same, vis, strings.Join(susp, "|"))
	if hang {
		r = "HANG-suspended-thread-not-released " + r
	}
	CountRun("D." + c.timing)
	return r
}

func c15RunK(f []string, payload string) string {
	boe := strings.HasSuffix(f[0], "e")
	n, _ := strconv.Atoi(strings.TrimSuffix(f[0], "e"))
	c := &c15Run{src: unhx(f[3]), n: n, boe: boe, bpops: c15List(f[1], ","), timing: "poll", seed: 1, payload: payload}
	threads, _, _, hang := c15Debugged(c, true)
	released, killed, fin := 0, 0, 0
	anySusp := false
	for _, t := range threads {
		if len(t.susp) > 0 {
			anySusp = true
		}
		select {
		case <-t.ended:
			released++
			if t.normal {
				fin++
			} else {
				killed++
			}
		default:
		}
	}
	CountRun("K")
	if !anySusp {
		return "released=0 end=fin"
	}
	end := "mixed"
	if killed == released {
		end = "kill"
	} else if fin == released {
		end = "fin"
	}
	r := fmt.Sprintf("released=%d end=%s", released, end)
	if hang {
		r = "HANG-stopthreads-did-not-release " + r
	}
	return r
}

// ---------------------------------------------------------------- hooks present?

var c15HooksOnce sync.Once
var c15Hooks bool

// c15HooksPresent probes whether interpreter/debug.go of the tree under test has the
// verifhook call sites (hooks/C15.patch).
func c15HooksPresent() bool {
	c15HooksOnce.Do(func() {
		s := &c15Sched{mode: "poll", rng: NewRand(1), isTid: map[interface{}]uint64{},
			events: map[uint64][]string{}, parked: map[uint64]chan struct{}{}, gaveUp: map[uint64]bool{}}
		c15Install(s)
		erp := interpreter.NewECALRuntimeProvider("t", nil, &memLog{})
		defer erp.Cron.Stop()
		dbg := interpreter.NewECALDebugger(newGlobalScope())
		erp.Debugger = dbg
		dbg.BreakOnStart(true)
		ast, _ := parser.ParseWithRuntime(c15Source, "a := 1", erp)
		ast.Runtime.Validate()
		tid := erp.NewThreadID()
		done := make(chan struct{})
		go func() {
			defer close(done)
			ast.Runtime.Eval(newGlobalScope(), make(map[string]interface{}), tid)
		}()
		for i := 0; i < 2000; i++ {
			dbg.Continue(tid, util.Resume)
			select {
			case <-done:
				i = 1 << 30
			case <-time.After(time.Millisecond):
			}
		}
		c15Hooks = atomic.LoadInt32(&s.seen) > 0
		c15Cur.Store((*c15Sched)(nil))
	})
	return c15Hooks
}

// ---------------------------------------------------------------- program generator

type c15Gen struct {
	r     *Rand
	lines []string
	ind   int
	vars  []string
	funcs []string
	nv    int
	zero  bool // a function z() without parameters exists
}

func (p *c15Gen) emit(s string) int {
	p.lines = append(p.lines, strings.Repeat("    ", p.ind)+s)
	return len(p.lines)
}

func (p *c15Gen) fresh() string {
	p.nv++
	return "v" + strconv.Itoa(p.nv)
}

func (p *c15Gen) expr(d int) string {
	k := p.r.Intn(10)
	switch {
	case k < 2 || d <= 0 && k < 5:
		return strconv.Itoa(p.r.Intn(9) + 1)
	case k < 5:
		if len(p.vars) > 0 {
			return p.vars[p.r.Intn(len(p.vars))]
		}
		return strconv.Itoa(p.r.Intn(9))
	case k < 7 && d > 0:
		return "(" + p.expr(d-1) + " " + p.r.Pick([]string{"+", "-", "*"}) + " " + p.expr(d-1) + ")"
	case k < 9 && d > 0 && len(p.funcs) > 0:
		return p.funcs[p.r.Intn(len(p.funcs))] + "(" + p.expr(d-1) + ")"
	}
	return strconv.Itoa(p.r.Intn(5))
}

func (p *c15Gen) block(d int, n int) {
	saved := len(p.vars)
	for i := 0; i < n; i++ {
		p.stmt(d)
	}
	p.vars = p.vars[:saved]
}

func (p *c15Gen) stmt(d int) {
	k := p.r.Intn(18)
	if d <= 0 && k >= 5 && k <= 8 {
		k = 0
	}
	switch k {
	case 0, 1, 2:
		v := p.fresh()
		p.emit(v + " := " + p.expr(2))
		p.vars = append(p.vars, v)
	case 3:
		p.emit("log(\"L\", " + p.expr(1) + ")")
	case 4:
		if len(p.vars) > 0 {
			v := p.vars[p.r.Intn(len(p.vars))]
			p.emit(v + " := " + v + " + " + p.expr(1))
		} else {
			p.emit("log(\"n\")")
		}
	case 5:
		p.emit("if " + p.expr(1) + " > " + strconv.Itoa(p.r.Intn(6)) + " {")
		p.ind++
		p.block(d-1, 1+p.r.Intn(2))
		p.ind--
		if p.r.Bool() {
			p.emit("} else {")
			p.ind++
			p.block(d-1, 1+p.r.Intn(2))
			p.ind--
		}
		p.emit("}")
	case 6:
		i := p.fresh()
		p.emit("for " + i + " in range(1, " + strconv.Itoa(1+p.r.Intn(3)) + ") {")
		p.ind++
		p.vars = append(p.vars, i)
		p.block(d-1, 1+p.r.Intn(2))
		p.vars = p.vars[:len(p.vars)-1]
		p.ind--
		p.emit("}")
	case 7:
		p.emit("try {")
		p.ind++
		p.block(d-1, p.r.Intn(2))
		switch p.r.Intn(3) {
		case 0:
			p.emit("raise(\"E" + strconv.Itoa(p.r.Intn(2)) + "\", \"m\", " + p.expr(1) + ")")
		case 1:
			p.emit("log(1 / 0)")
		default:
			p.stmt(0)
		}
		p.ind--
		if p.r.Bool() {
			p.emit("} except \"E0\" as e {")
			p.ind++
			p.emit("log(\"c0\", e.type)")
			p.ind--
		}
		p.emit("} except e {")
		p.ind++
		p.emit("log(\"caught\", e.type)")
		p.block(0, p.r.Intn(2))
		p.ind--
		if p.r.Bool() {
			p.emit("} finally {")
			p.ind++
			p.emit("log(\"fin\")")
			p.ind--
		}
		p.emit("}")
	case 8:
		i := p.fresh()
		p.emit(i + " := " + strconv.Itoa(1+p.r.Intn(3)))
		p.emit("for " + i + " > 0 {")
		p.ind++
		p.block(d-1, p.r.Intn(2))
		p.emit(i + " := " + i + " - 1")
		p.ind--
		p.emit("}")
	case 9:
		l := p.fresh()
		p.emit(l + " := [" + p.expr(1) + ", " + p.expr(1) + ", 3]")
		p.emit(l + "[" + strconv.Itoa(p.r.Intn(3)) + "] := " + p.expr(2))
		v := p.fresh()
		p.emit(v + " := " + l + "[0] + len(" + l + ")")
		p.vars = append(p.vars, v)
	case 10:
		m := p.fresh()
		p.emit(m + " := {\"a\": " + p.expr(1) + ", \"b\": [1, " + p.expr(1) + "]}")
		p.emit(m + ".a := " + m + ".a + " + p.expr(1))
		v := p.fresh()
		p.emit(v + " := " + m + ".a * " + m + ".b[1]")
		p.vars = append(p.vars, v)
	case 11:
		if len(p.funcs) > 0 {
			v := p.fresh()
			f1 := p.funcs[p.r.Intn(len(p.funcs))]
			f2 := p.funcs[p.r.Intn(len(p.funcs))]
			if p.r.Bool() {
				p.emit(v + " := " + f1 + "(" + p.expr(1) + ") + " + f2 + "(" + p.expr(1) + ")")
			} else {
				p.emit(v + " := " + f1 + "(" + f2 + "(" + p.expr(1) + "))")
			}
			p.vars = append(p.vars, v)
		} else {
			p.emit("log(\"nf\")")
		}
	case 17:
		// try and except on ONE line around a call (the except block is on the line of the call)
		if len(p.funcs) > 0 {
			p.emit("try { " + p.funcs[p.r.Intn(len(p.funcs))] + "(" + p.expr(1) + ") } except { log(\"c1\") }")
		} else {
			p.emit("try { raise(\"E7\") } except { log(\"c1\") }")
		}
	case 13:
		// lines holding a single token-bearing node
		if p.zero {
			p.emit("z()")
		} else {
			p.emit("log(\"nz\")")
		}
	case 14:
		// multi-line list: element lines hold only a number literal
		l := p.fresh()
		p.emit(l + " := [")
		p.emit("    " + strconv.Itoa(p.r.Intn(9)) + ",")
		p.emit("    " + strconv.Itoa(p.r.Intn(9)))
		p.emit("]")
		v := p.fresh()
		p.emit(v + " := " + l + "[1]")
		p.vars = append(p.vars, v)
	case 15:
		// multi-line call: the argument line holds only a number literal
		if len(p.funcs) > 0 {
			v := p.fresh()
			p.emit(v + " := " + p.funcs[p.r.Intn(len(p.funcs))] + "(")
			p.emit("    " + strconv.Itoa(p.r.Intn(9)))
			p.emit(")")
			p.vars = append(p.vars, v)
		} else {
			p.emit("log(")
			p.emit("    " + strconv.Itoa(p.r.Intn(9)))
			p.emit(")")
		}
	case 16:
		// loop left / continued by a one-token line
		i := p.fresh()
		p.emit("for " + i + " in range(1, 3) {")
		p.ind++
		p.stmt(0)
		if p.r.Bool() {
			p.emit("break")
		} else {
			p.emit("continue")
		}
		p.ind--
		p.emit("}")
	default:
		if len(p.funcs) > 0 {
			p.emit(p.funcs[p.r.Intn(len(p.funcs))] + "(" + p.expr(1) + ")")
		} else {
			v := p.fresh()
			p.emit(v + " := " + p.expr(2))
			p.vars = append(p.vars, v)
		}
	}
}

// c15Program generates a terminating program: functions calling earlier functions (plus a
// bounded recursion), loops with small constant bounds, try blocks, containers, log output.
func c15Program(r *Rand) string {
	lib, main := c15ProgramParts(r)
	if lib == "" {
		return main
	}
	return lib + "\n" + main
}

// c15ProgramParts returns the function definitions (the "library") and the statements using
// them (the "main program") separately.
func c15ProgramParts(r *Rand) (string, string) {
	p := &c15Gen{r: r}
	if r.Intn(2) == 0 {
		// a function whose body is a bare return: called as `z()`, a line with one node
		p.emit("func z() {")
		p.emit("    log(\"z\")")
		p.emit("    return")
		p.emit("}")
		p.zero = true
	}
	nf := r.Intn(4)
	for i := 0; i < nf; i++ {
		name := "f" + strconv.Itoa(i)
		p.emit("func " + name + "(a) {")
		p.ind++
		p.vars = []string{"a"}
		if r.Intn(4) == 0 {
			p.emit("if a > 2 and a < 14 {")
			p.ind++
			p.emit("return " + name + "(a - 3) + 1")
			p.ind--
			p.emit("}")
		}
		p.block(1, 1+r.Intn(3))
		p.vars = []string{"a"}
		if r.Intn(6) == 0 {
			p.emit("raise(\"E1\", \"from " + name + "\", a)")
		}
		p.emit("return " + p.expr(1))
		p.ind--
		p.emit("}")
		p.funcs = append(p.funcs, name)
		p.vars = nil
	}
	p.vars = nil
	libLines := p.lines
	p.lines = nil
	n := 2 + r.Intn(6)
	for i := 0; i < n; i++ {
		p.stmt(2)
	}
	vs := append([]string{"0"}, p.vars...)
	p.emit("[" + strings.Join(vs, ", ") + "]")
	return strings.Join(libLines, "\n"), strings.Join(p.lines, "\n")
}

// c15PhantomFree (no longer used to restrict cases): an error return meeting an interrogation state
// that already carries an error used to mark the thread "not running" without waiting.
func c15PhantomFree(trace []string) bool {
	pending := false
	for _, e := range trace {
		switch e[0] {
		case 'X':
			if pending {
				return false
			}
			pending = true
		case 'x':
			pending = false
		}
	}
	return true
}

func c15Script(r *Rand, nLines int, withOps bool) string {
	n := r.Intn(14)
	var acts []string
	w := r.Intn(4) // bias of this script
	for i := 0; i < n; i++ {
		var a string
		switch k := r.Intn(10); {
		case k < 3+w:
			a = "R"
		case k < 6:
			a = "I"
		case k < 8:
			a = "O"
		default:
			a = "U"
		}
		if r.Intn(3) == 0 {
			a = string("RIOU"[r.Intn(4)])
		}
		if withOps && r.Intn(6) == 0 {
			a = string("sdr"[r.Intn(3)]) + strconv.Itoa(1+r.Intn(nLines)) + "+" + a
		}
		acts = append(acts, a)
	}
	if len(acts) == 0 {
		return "-"
	}
	return strings.Join(acts, ",")
}

func c15BpOps(r *Rand, nLines int, visited []int) string {
	var ops []string
	n := 1 + r.Intn(5)
	for i := 0; i < n; i++ {
		l := 1 + r.Intn(nLines)
		if len(visited) > 0 && r.Intn(4) != 0 {
			l = visited[r.Intn(len(visited))]
		}
		ops = append(ops, "s"+strconv.Itoa(l))
		switch r.Intn(8) {
		case 0:
			ops = append(ops, "d"+strconv.Itoa(l))
		case 1:
			ops = append(ops, "r"+strconv.Itoa(l))
		case 2:
			ops = append(ops, "d"+strconv.Itoa(l), "s"+strconv.Itoa(l))
		}
	}
	if r.Intn(25) == 0 {
		ops = append(ops, "r0")
	}
	return strings.Join(ops, ",")
}

func c15Visited(trace []string) []int {
	seen := map[int]bool{}
	var out []int
	for _, e := range trace {
		if e[0] == 'v' {
			l, _ := strconv.Atoi(e[1:])
			if !seen[l] {
				seen[l] = true
				out = append(out, l)
			}
		}
	}
	return out
}

func c15TraceStr(t []string) string {
	if len(t) == 0 {
		return "-"
	}
	return strings.Join(t, ",")
}

// directed programs: the situations of debug_test.go and of the repaired defect
var c15Corpus = []string{
	"a := 1\nb := 2\nc := a + b\nlog(c)\nc",
	"func f(a) {\n    b := a + 1\n    return b * 2\n}\nx := f(1)\ny := f(x) + f(2)\nz := f(f(3))\n[x, y, z]",
	"func g(a) {\n    return a + 1\n}\nfunc f(a) {\n    b := g(a)\n    c := g(b) + g(1)\n    return c\n}\nfor i in range(1, 3) {\n    log(f(i))\n}\n7",
	"try {\n    raise(\"E1\", \"m\", 1)\n} except e {\n    log(e.type)\n} finally {\n    x := 1\n}\nx",
	"func f(a) {\n    if a > 2 {\n        return f(a - 3) + 1\n    }\n    return a\n}\nq := f(7)\nq",
	"m := {\"a\": 1, \"b\": [1, 2]}\nm.a := m.a + 1\nl := [1, 2, 3]\nl[1] := m.a\nlog(l, m)\nlen(l)",
}

// directed cases: program, break point edits, script
var c15Directed = [][3]string{
	// a resumed thread whose NEXT executed line has an active break point and holds one node
	{"func z() {\n    log(\"z\")\n    return\n}\na := 1\nz()\nz()\nb := 2\nb", "s5,s6,s7,s3", "R,R,R,R,R,R"},
	{"func z() {\n    log(\"z\")\n    return\n}\na := 1\nz()\nz()\nb := 2\nb", "s2,s3,s6,s7", "R,R,R,R,R,R,R"},
	{"for i in range(1, 3) {\n    a := i\n    break\n}\nfor j in range(1, 2) {\n    b := j\n    continue\n}\n7", "s2,s3,s6,s7", "R,R,R,R,R,R,R"},
	{"func r(a) {\n    b := a\n    return\n}\nr(1)\nr(2)\n3", "s2,s3,s5,s6", "R,R,R,R,R,R,R"},
	// break points on lines that hold only number literals
	{"l := [\n    1,\n    2\n]\nl[0]", "s2,s3", "R,R,R"},
	{"func k(a) {\n    return a\n}\nx := k(\n    3\n)\ny := [\n    4,\n    k(\n        5\n    )\n]\nx", "s5,s8,s10", "R,R,R,R"},
	{"l := [\n    1,\n    2\n]\nl[0]", "s2,s3", "I,I,I,I"},
	// break points inside a call that is stepped over / out of
	{"func g(a) {\n    return a + 1\n}\nfunc f(a) {\n    b := g(a)\n    c := g(b)\n    return c\n}\nx := f(1)\ny := f(2)\nx + y", "s9,s2,s6", "O,R,O,U,R,O,O,O"},
	{"func f(a) {\n    for i in range(1, 3) {\n        b := i\n        c := b\n    }\n    return a\n}\nx := f(1)\nx", "s8,s3", "O,U,U,U,U"},
}

// directed cases with breakOnError on (the default of NewECALDebugger)
var c15DirectedBoe = [][3]string{
	// an error passing outer calls must not move the thread's position: coming back to line 7 (the except
	// block on the line of the try) from line 2 suspends again
	{"func g() {\n    raise(\"x\")\n}\nfunc f() {\n    g()\n}\ntry { f() } except { log(\"caught\") }\nlog(\"end\")", "s7", "R,R,R,R"},
	{"func g() {\n    raise(\"x\")\n}\nfunc f() {\n    g()\n}\ntry { f() } except { log(\"caught\") }\nlog(\"end\")", "s7,s5", "I,O,R,U,R"},
	{"func f(a) {\n    return 1 / a\n}\ntry { f(0) } except { log(\"c\") } finally { log(\"f\") }\ntry { f(1) } except { log(\"c\") }\n7", "s4,s5", "R,R,R,R,R"},
}

func init() {
	register("C15", &Prop{
		Timeout:          90 * time.Second,
		NoRestartOnPanic: true,
		Tool: func(args []string) int {
			if len(args) == 2 && args[0] == "extract" {
				return c15Extract(args[1])
			}
			if len(args) == 1 && args[0] == "pin" {
				fmt.Println("package main\n\n// GENERATED ONCE by `harness C15 -tool pin` on a tree on which the check passed, then committed:\n// literal visit traces of the directed programs (the expectation of a directed case must not be\n// recomputed from the tree under test).\nvar c15Pinned = map[string]string{")
				seenProg := map[string]bool{}
				for _, d := range append(append([][3]string{}, c15Directed...), c15DirectedBoe...) {
					if seenProg[d[0]] {
						continue
					}
					seenProg[d[0]] = true
					_, _, trace := c15Plain(d[0])
					fmt.Printf("\t%q: %q,\n", d[0], c15TraceStr(trace))
				}
				fmt.Println("}")
				return 0
			}
			fmt.Fprintln(os.Stderr, "usage: harness C15 -tool extract <out.lean|-> | pin")
			return 2
		},
		Setup: func() {
			if os.Getenv("C15_CHILD") != "" {
				debug.SetMaxStack(32 << 20) // die quickly on the known stack overflow
			}
			registerX("attach", func(args []interface{}) (interface{}, error) {
				if h := c15AttachHook; h != nil {
					h()
				}
				return nil, nil
			})
			if c15HooksPresent() {
				CountRun("hooks.present")
			} else {
				CountRun("hooks.absent")
			}
		},
		Gen: func(g *Gen) {
			nProg := 120
			if g.Thorough() {
				nProg = 2500
			}
			if os.Getenv("C15_AMPLIFY") != "" {
				// the read-only fact could not be established: search harder for a difference
				nProg *= 4
			}
			emitD := func(src string, r *Rand, directedWindow bool) {
				_, _, trace := c15Plain(src)
				if len(trace) > 1200 {
					g.Count("skipped.long-trace")
					return
				}
				nLines := strings.Count(src, "\n") + 1
				visited := c15Visited(trace)
				nSets, nScripts := 3, 2
				for b := 0; b < nSets; b++ {
					bpops := c15BpOps(r, nLines, visited)
					for s := 0; s < nScripts; s++ {
						n := 1
						if r.Intn(5) == 0 {
							n = 2 + r.Intn(3)
						}
						bos, boe := "0", "0"
						if n == 1 && r.Intn(4) == 0 {
							bos = "1"
						}
						if r.Intn(3) == 0 {
							boe = "1"
						}
						timing := []string{"poll", "window", "random", "random"}[r.Intn(4)]
						if directedWindow {
							timing = "window"
						}
						script := c15Script(r, nLines, n == 1)
						g.Count("D.timing." + timing)
						g.Count("D.threads." + strconv.Itoa(n))
						g.Emit(fmt.Sprintf("D %d %s%s %s %s %s %d %s %s", n, bos, boe, bpops, script, timing,
							r.Intn(1<<30), c15TraceStr(trace), hx(src)))
					}
				}
				// StopThreads
				g.Count("K")
				kn := strconv.Itoa(1 + r.Intn(4))
				if r.Intn(3) == 0 {
					kn += "e" // StopThreads with breakOnError on
					g.Count("K.boe")
				}
				g.Emit(fmt.Sprintf("K %s %s %s %s", kn, c15BpOps(r, nLines, visited), c15TraceStr(trace), hx(src)))
			}
			for _, d := range c15Directed {
				// the expectation of a directed case must not come from the tree under test: its visit
				// trace is the literal in c15pinned.go (`harness C15 -tool pin` printed it once)
				_, _, trace := c15Plain(d[0])
				if lit, ok := c15Pinned[d[0]]; ok {
					trace = strings.Split(lit, ",")
					g.Count("D.directed.pinned")
				}
				for _, timing := range []string{"poll", "window"} {
					g.Count("D.directed")
					g.Emit(fmt.Sprintf("D 1 00 %s %s %s 1 %s %s", d[1], d[2], timing, c15TraceStr(trace), hx(d[0])))
				}
			}
			// the command line interpreter (cli/tool/interpret.go): entry file, then console lines on the
			// same thread; each line is its own parse unit "console input" and ends with
			// RecordThreadFinished
			{
				entry := "func f(a) {\n    return a + 1\n}\nlibv := 1"
				console := []string{"raise(\"x\")", "a := 1", "b := 1 / 0", "c := f(a)", "return c"}
				_, _, trace := c15CLIPlain(entry, console)
				var hexes []string
				for _, l := range console {
					hexes = append(hexes, hx(l))
				}
				for _, sc := range []string{"-", "I,R,O,U"} {
					g.Count("I")
					g.Emit(fmt.Sprintf("I 00 s4001 %s %s %s %s", sc, c15TraceStr(trace), hx(entry), strings.Join(hexes, ",")))
				}
			}
			nCli := 12
			if g.Thorough() {
				nCli = 150
			}
			for i := 0; i < nCli; i++ {
				lib, main := c15ProgramParts(g.R)
				if lib == "" {
					lib = "libv := 1"
				}
				mainLines := strings.Split(main, "\n")
				// console lines must be complete statements: take the one-line ones
				var console []string
				depth := 0
				for _, l := range mainLines {
					opens, closes := strings.Count(l, "{")+strings.Count(l, "["), strings.Count(l, "}")+strings.Count(l, "]")
					if depth == 0 && opens == closes && !strings.HasPrefix(strings.TrimSpace(l), "}") {
						console = append(console, strings.TrimSpace(l))
					}
					depth += opens - closes
				}
				if len(console) > 6 {
					console = console[:6]
				}
				if i%2 == 0 {
					// lines that end with an error
					console = append([]string{[]string{"raise(\"E9\")", "q9 := 1 / 0", "q8 := nope9.x"}[i%3]}, console...)
				}
				_, _, trace := c15CLIPlain(lib, console)
				if len(trace) > 1200 {
					continue
				}
				var vis []int
				seen := map[int]bool{}
				for _, e := range trace {
					if e[0] == 'v' {
						if l, _ := strconv.Atoi(e[1:]); !seen[l] {
							seen[l] = true
							vis = append(vis, l)
						}
					}
				}
				ops := []string{"s4001"}
				for k := 0; k < 1+g.R.Intn(3) && len(vis) > 0; k++ {
					ops = append(ops, "s"+strconv.Itoa(vis[g.R.Intn(len(vis))]))
				}
				var hexes []string
				for _, l := range console {
					hexes = append(hexes, hx(l))
				}
				cl := "-"
				if len(hexes) > 0 {
					cl = strings.Join(hexes, ",")
				}
				boe := "0"
				if g.R.Intn(3) == 0 {
					boe = "1"
				}
				g.Count("I")
				g.Emit(fmt.Sprintf("I 0%s %s %s %s %s %s", boe, strings.Join(ops, ","), c15Script(g.R, 1, false), c15TraceStr(trace), hx(lib), cl))
			}
			// sink programs on pool workers: more events than workers, break points in one-line and
			// multi-line sink bodies (body lines start at line 7)
			bodies := [][]string{
				{"log(\"s\", event.state.n)"},
				{"x := event.state.n", "log(\"s\", x)"},
				{"x := h(event.state.n)", "y := x + 1", "log(\"s\", y)"},
				{"x := event.state.n", "if x > 2 {", "    x := h(x)", "}", "log(\"s\", x)"},
				// bodies that do not end normally
				{"return event.state.n"},
				{"x := event.state.n", "raise(\"E\", \"m\", x)"},
				{"log(\"s\", 1 / 0)"},
				{"x := h(event.state.n)", "return x"},
			}
			// a step command pending when an execution ends must not hide the break point from the
			// worker's next execution (one worker: deterministic)
			for _, sc := range []string{"I", "O,R,I", "U", "I,I"} {
				bt := c15SinkBodyTrace(bodies[0])
				g.Count("S.workers.1")
				g.Emit(fmt.Sprintf("S 1 4 s7 %s %s %s", sc, c15TraceStr(bt), hx(c15SinkProgram(bodies[0], 4))))
			}
			for bi, body := range bodies {
				bt := c15SinkBodyTrace(body)
				for w := 1; w <= 4; w++ {
					for _, ev := range []int{1, w + 2, 12} {
						if !g.Thorough() && (w+bi+ev)%2 == 1 {
							continue
						}
						bp := "s7"
						if len(body) > 1 && (w+ev)%2 == 0 {
							bp = "s7,s" + strconv.Itoa(6+len(body))
						}
						script := "-"
						if (w+ev+bi)%5 == 0 {
							script = []string{"I,R,O", "O,U,R,I", "I,I,I"}[(w+bi)%3]
						}
						g.Count("S.workers." + strconv.Itoa(w))
						g.Emit(fmt.Sprintf("S %d %d %s %s %s %s", w, ev, bp, script, c15TraceStr(bt), hx(c15SinkProgram(body, ev))))
					}
				}
			}
			// concurrent controllers: break point edits / StopThreads WHILE n >= 4 threads run in
			// tight loops (a process death is the result CRASH)
			loops := []string{
				"s := 0\nfor i in range(1, 4000) {\n    s := s + i\n}\ns",
				"func f(a) {\n    return a + 1\n}\ns := 0\nfor i in range(1, 1500) {\n    s := f(s)\n}\ns",
			}
			for li, src := range loops {
				_, _, trace := c15Plain(src)
				reps := 3
				if g.Thorough() {
					reps = 12
				}
				for k := 0; k < reps; k++ {
					n := 4 + (k+li)%3
					g.Count("D.toggle")
					// the visit trace is long: the model only needs to know that no break point lies on it
					short := trace
					if len(short) > 40 {
						short = short[:40]
					}
					g.Emit(fmt.Sprintf("D %d 00 s950,d951 - toggle %d %s %s", n, k, c15TraceStr(short), hx(src)))
					g.Count("Z")
					bp := []string{"s1,s2", "s1", "s2,s3", "s1,s3"}[k%4]
					g.Emit(fmt.Sprintf("Z %d %s %s", n, bp, hx("a := 1\nb := a + 1\nc := b + 1\nc")))
				}
			}
			// life cycle: code loaded in steps, the debugger attached at different points; break
			// points in code parsed before and after the attach point; sources "lib" and "main"
			emitL := func(lib, main string, r *Rand, bpops, script string) {
				modes := []string{"A0", "A1", "A2", "A3", "A4"}
				if strings.Contains(lib, "x.attach()") {
					modes = []string{"A5"}
				}
				for _, mode := range modes {
					_, _, trace := c15LifePlain(mode, lib, main)
					if len(trace) > 1200 {
						g.Count("skipped.long-trace")
						continue
					}
					bo, sc := bpops, script
					if bo == "" {
						var vis []int
						seen := map[int]bool{}
						for _, e := range trace {
							if e[0] == 'v' {
								l, _ := strconv.Atoi(e[1:])
								if !seen[l] {
									seen[l] = true
									vis = append(vis, l)
								}
							}
						}
						var ops []string
						for k := 0; k < 1+r.Intn(4) && len(vis) > 0; k++ {
							l := vis[r.Intn(len(vis))]
							ops = append(ops, "s"+strconv.Itoa(l))
							if r.Intn(8) == 0 {
								ops = append(ops, "d"+strconv.Itoa(l))
							}
						}
						if r.Intn(5) == 0 && len(vis) > 0 {
							// remove every break point of ONE source, then set one in the other source again
							ops = append(ops, []string{"r0", "r1000"}[r.Intn(2)], "s"+strconv.Itoa(vis[r.Intn(len(vis))]))
						}
						if len(ops) == 0 {
							ops = []string{"s1"}
						}
						bo = strings.Join(ops, ",")
						sc = c15Script(r, 1, false)
					}
					boe := "0"
					if r.Intn(3) == 0 {
						boe = "1"
					}
					g.Count("L." + mode)
					g.Emit(fmt.Sprintf("L %s 0%s %s %s %s %s %s", mode, boe, bo, sc, c15TraceStr(trace), hx(lib), hx(main)))
				}
			}
			emitL("func f(a) {\n    b := a + 1\n    return b * 2\n}\nlibv := 5", "x := f(1)\ny := f(x) + libv\n[x, y]", NewRand(5), "s1002,s2", "R,R,R,R,R,R")
			emitL("func f(a) {\n    b := a + 1\n    return b * 2\n}\nlibv := 5", "x := f(1)\ny := f(x) + libv\n[x, y]", NewRand(6), "s1003,s1005,s1", "I,O,U,R,I,I,O,R")
			attLib := "\nfunc att(a) {\n    b := a + 1\n    x.attach()\n    c := b + 1\n    return c\n}\nfunc att2(a) {\n    d := att(a)\n    return d + 1\n}"
			// `rmbreak t` must leave the break points of source `t2` alone (and the other way round)
			emitL("func f(a) {\n    b := a + 1\n    return b * 2\n}\nlibv := 5", "x := f(1)\ny := f(x) + libv\n[x, y]", NewRand(9), "s1002,s2,s3,r0", "R,R,R,R,R,R")
			emitL("func f(a) {\n    b := a + 1\n    return b * 2\n}\nlibv := 5", "x := f(1)\ny := f(x) + libv\n[x, y]", NewRand(10), "s1002,s1003,s2,r1000", "R,R,R,R,R,R")
			emitL("libv := 5"+attLib, "q := att(1)\nr := att2(q)\n[q, r]", NewRand(7), "s1005,s2", "R,R,R,R")
			emitL("libv := 5"+attLib, "q := att2(1)\nr := att(q)\n[q, r]", NewRand(8), "s1005,s1006,s2", "I,U,O,R,R,R")
			nLife := 40
			if g.Thorough() {
				nLife = 600
			}
			for i := 0; i < nLife; i++ {
				lib, main := c15ProgramParts(g.R)
				if lib == "" {
					lib = "libv := 1"
				}
				emitL(lib, main, g.R, "", "")
				if i%3 == 0 {
					emitL(lib+attLib, "q0 := "+[]string{"att", "att2"}[i%2]+"(1)\n"+main, g.R, "", "")
				}
			}
			// known finding debugger-snapshot-cyclic-value (emitted once the id is listed, so that the check
			// stays green until then)
			if c15KnownListed("debugger-snapshot-cyclic-value") {
				g.Count("Y")
				g.Emit("Y " + hx("a := {\"k\": 1}\na.self := a\nfunc f() {\n    return 1\n}\nx := f()\nx"))
			} else {
				g.Count("Y.not-emitted-id-not-listed-yet")
			}
			for _, d := range c15DirectedBoe {
				_, _, trace := c15Plain(d[0])
				if lit, ok := c15Pinned[d[0]]; ok {
					trace = strings.Split(lit, ",")
					g.Count("D.directed.pinned")
				}
				g.Count("D.directed")
				g.Emit(fmt.Sprintf("D 1 01 %s %s poll 1 %s %s", d[1], d[2], c15TraceStr(trace), hx(d[0])))
			}
			for i, src := range c15Corpus {
				emitD(src, NewRand(uint64(1000+i)), true)
			}
			for i := 0; i < nProg; i++ {
				emitD(c15Program(g.R), g.R, false)
			}
		},
		Run: func(payload string) string {
			f := strings.Split(payload, " ")
			switch {
			case f[0] == "D" && len(f) == 9:
				return c15RunD(f[1:], payload)
			case f[0] == "K" && len(f) == 5:
				return c15RunK(f[1:], payload)
			case f[0] == "L" && len(f) == 8:
				return c15RunL(f[1:], payload)
			case f[0] == "Z" && len(f) == 4:
				return c15RunZ(f[1:], payload)
			case f[0] == "S" && len(f) == 7:
				return c15RunS(f[1:], payload)
			case f[0] == "Y" && len(f) == 2:
				return c15RunY(f[1])
			case f[0] == "I" && len(f) == 7:
				return c15RunI(f[1:], payload)
			}
			return "bad-payload"
		},
	})
}

var _ = json.Marshal
