package main

// C16 — the debugger's command interface as the CLI tool exposes it (cli/tool/debug.go).
//
//   - Commands of ordinary cases can be routed through CLIDebugInterpreter.Handle("##"+line)
//     into a buffer terminal (scenario name prefixed with "cli:"): the reply class is read from
//     the JSON text the tool prints ({"DebuggerError": …} = error; a result json.Marshal rejects
//     also ends up there, so it shows as a class difference to the model).
//   - The kind `telnet`: the tool's debug server on a real listener, started by
//     CLIDebugInterpreter.Interpret() with an entry file and break-on-start; two clients talk to
//     it at the same time (debug commands, ECAL statements, the @dbg table, help), every reply
//     must be a JSON document, the entry thread is stepped to its end, the server is stopped
//     with StopDebugServer. A watchdog bounds it; a crash of the process is the result CRASH.

import (
	"bufio"
	"encoding/json"
	"fmt"
	"io"
	"net"
	"os"
	"path/filepath"
	"strings"
	"sync"
	"time"

	"github.com/krotik/ecal/cli/tool"
	"github.com/krotik/ecal/interpreter"
	"github.com/krotik/ecal/util"
)

type c16Buf struct{ sb strings.Builder }

func (b *c16Buf) WriteString(s string) { b.sb.WriteString(s) }

// cliHandler: a CLIDebugInterpreter around the case's debugger
func (c *c16Case) cliHandler() *tool.CLIDebugInterpreter {
	if c.cli == nil {
		tin := tool.NewCLIInterpreter()
		erp := interpreter.NewECALRuntimeProvider("cli", nil, &memLog{})
		erp.Debugger = c.dbg
		c.erps = append(c.erps, erp)
		tin.RuntimeProvider = erp
		tin.LogOut = io.Discard
		c.cli = tool.NewCLIDebugInterpreter(tin)
		c.cli.LogOut = io.Discard
	}
	return c.cli
}

// c16CLIClass: the class of the reply the tool printed
func c16CLIClass(out string) string {
	out = strings.TrimSpace(out)
	var v interface{}
	if err := json.Unmarshal([]byte(out), &v); err != nil {
		return "BADOUTPUT"
	}
	if m, ok := v.(map[string]interface{}); ok {
		if _, isErr := m["DebuggerError"]; isErr && len(m) == 1 {
			return "error"
		}
	}
	return "ok"
}

// commandCLI issues a debug command through CLIDebugInterpreter.Handle
func (c *c16Case) commandCLI(line string) (cl string) {
	defer func() {
		if e := recover(); e != nil {
			cl = "PANIC"
		}
	}()
	h := c.cliHandler()
	in := "##" + line
	if !h.CanHandle(in) {
		return "NOTHANDLED"
	}
	buf := &c16Buf{}
	h.Handle(buf, in)
	return c16CLIClass(buf.sb.String())
}

// dbgTable: the @dbg table lists every command of DebugCommandsMap
func (c *c16Case) dbgTable() (ok bool) {
	defer func() {
		if e := recover(); e != nil {
			ok = false
		}
	}()
	buf := &c16Buf{}
	c.cliHandler().Handle(buf, "@dbg")
	for name := range interpreter.DebugCommandsMap {
		if !strings.Contains(buf.sb.String(), name) {
			return false
		}
	}
	// the argument of @dbg is a glob for a full text search: metacharacters and garbage must not panic
	// (a panic propagates to the caller of dbgTable and becomes the class of the case)
	for _, pat := range []string{"*", "?", "[", "]", "[a-", "{", "}", "\\", "lock*", "**", "*[", "(", "+", "^$", "\xff", "a b c", ""} {
		c.cliHandler().Handle(&c16Buf{}, "@dbg "+pat)
	}
	one := &c16Buf{}
	c.cliHandler().Handle(one, "@dbg lockstate")
	return strings.Contains(one.sb.String(), "lockstate") && !strings.Contains(one.sb.String(), "breakonstart")
}

func c16FreeAddr() string {
	l, err := net.Listen("tcp", "localhost:0")
	if err != nil {
		panic(err)
	}
	defer l.Close()
	return l.Addr().String()
}

// readReply reads one JSON document (the tool ends every reply with an empty line)
func c16ReadReply(r *bufio.Reader, conn net.Conn) (string, error) {
	conn.SetReadDeadline(time.Now().Add(c16CmdTimeout()))
	var sb strings.Builder
	for {
		line, err := r.ReadString('\n')
		if err != nil {
			return sb.String(), err
		}
		if strings.TrimSpace(line) == "" {
			if strings.TrimSpace(sb.String()) == "" {
				continue
			}
			return sb.String(), nil
		}
		sb.WriteString(line)
	}
}

func c16Telnet() string {
	dir, err := os.MkdirTemp(".", "c16cli-")
	if err != nil {
		return "SETUP " + err.Error()
	}
	defer os.RemoveAll(dir)
	var prog strings.Builder
	prog.WriteString("func f(x) {\n    return x + 1\n}\n")
	for i := 0; i < 150; i++ {
		prog.WriteString("a := f(1)\nb := 2\n")
	}
	entry := filepath.Join(dir, "entry.ecal")
	os.WriteFile(entry, []byte(prog.String()), 0644)

	tin := tool.NewCLIInterpreter()
	logf, lvl, addr := filepath.Join(dir, "log"), "Error", c16FreeAddr()
	yes, no := true, false
	tin.Dir, tin.LogFile, tin.LogLevel = &dir, &logf, &lvl
	tin.LogOut = io.Discard
	tin.LoadPlugins = false
	tin.EntryFile = entry
	cdi := tool.NewCLIDebugInterpreter(tin)
	cdi.LogOut = io.Discard
	cdi.DebugServerAddr, cdi.RunDebugServer, cdi.EchoDebugServer = &addr, &yes, &yes
	cdi.Interactive, cdi.BreakOnStart, cdi.BreakOnError = &no, &yes, &yes

	interpreted := make(chan error, 1)
	go func() {
		defer func() {
			if e := recover(); e != nil {
				interpreted <- fmt.Errorf("PANIC %v", e)
			}
		}()
		interpreted <- cdi.Interpret() // blocks: the entry file stops at its first statement
	}()

	result := make(chan string, 1)
	go func() {
		var conns [2]net.Conn
		var rd [2]*bufio.Reader
		deadline := time.Now().Add(20 * time.Second)
		for k := range conns {
			for {
				c, err := net.Dial("tcp", addr)
				if err == nil {
					conns[k], rd[k] = c, bufio.NewReader(c)
					break
				}
				if time.Now().After(deadline) {
					result <- "NOSERVER " + err.Error()
					return
				}
				time.Sleep(time.Millisecond)
			}
		}
		ask := func(k int, line string) (interface{}, string) {
			fmt.Fprintf(conns[k], "%s\n", line)
			out, err := c16ReadReply(rd[k], conns[k])
			if err != nil {
				return nil, "NOREPLY to " + line + ": " + err.Error()
			}
			var v interface{}
			if err := json.Unmarshal([]byte(out), &v); err != nil {
				return nil, "BADREPLY to " + line
			}
			return v, ""
		}
		// the entry thread: wait until the debugger shows it suspended
		tid := ""
		for tid == "" {
			v, bad := ask(0, "##status")
			if bad != "" {
				result <- bad
				return
			}
			if m, ok := v.(map[string]interface{}); ok {
				if ths, ok := m["threads"].(map[string]interface{}); ok {
					for k, t := range ths {
						if tm, ok := t.(map[string]interface{}); ok && tm["threadRunning"] == false {
							tid = k
						}
					}
				}
			}
			if time.Now().After(deadline) {
				result <- "ENTRY-THREAD-NOT-SUSPENDED"
				return
			}
		}
		var wg sync.WaitGroup
		var mu sync.Mutex
		firstBad := ""
		note := func(bad string) {
			if bad != "" {
				mu.Lock()
				if firstBad == "" {
					firstBad = bad
				}
				mu.Unlock()
			}
		}
		wg.Add(2)
		go func() { // client 0: steps the entry thread, inspects it
			defer wg.Done()
			for i := 0; i < 120; i++ {
				_, bad := ask(0, "##cont "+tid+" "+[]string{"stepin", "stepover", "stepout", "StepOver"}[i%4])
				note(bad)
				_, bad = ask(0, "##describe "+tid)
				note(bad)
				_, bad = ask(0, "##status")
				note(bad)
				_, bad = ask(0, "##lockstate")
				note(bad)
			}
		}()
		go func() { // client 1: break points, ECAL statements on its own thread, tables, errors
			defer wg.Done()
			for i := 0; i < 120; i++ {
				for _, l := range []string{fmt.Sprintf("##break %s:%d", entry, 5000+i%7), "c := f(3)", "##rmbreak " + entry + ":5001",
					"##nosuchcmd", "@dbg", "##extract " + tid + " a dst", "##inject " + tid + " b 1 + 1", "?", "##disablebreak x:1", "1 +"} {
					_, bad := ask(1, l)
					note(bad)
				}
			}
		}()
		wg.Wait()
		// let the entry thread run to its end, say goodbye, stop the server
		_, bad := ask(0, "##rmbreak "+entry)
		note(bad)
		_, bad = ask(1, "##cont "+tid+" resume")
		note(bad)
		fmt.Fprintf(conns[0], "bye\n")
		fmt.Fprintf(conns[1], "quit\n")
		if firstBad != "" {
			result <- firstBad
			return
		}
		result <- "ok"
	}()
	res := ""
	select {
	case res = <-result:
	case <-time.After(c16ConcTimeout()):
		return "HANG"
	}
	select {
	case err := <-interpreted:
		if err != nil {
			res += " interpret:" + oneLine(err.Error())
		}
	case <-time.After(c16CmdTimeout()):
		res += " ENTRY-NEVER-FINISHED"
	}
	cdi.StopDebugServer()
	if _, err := net.DialTimeout("tcp", addr, 200*time.Millisecond); err == nil {
		// the listener is closed; a connect may still succeed for a moment on some systems — tolerated
		_ = err
	}
	if cdi.RuntimeProvider != nil {
		cdi.RuntimeProvider.Debugger.StopThreads(0)
		go cdi.RuntimeProvider.Cron.Stop()
	}
	var _ util.Logger
	return res
}
