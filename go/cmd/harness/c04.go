package main

// C04 — control flow and try/except/otherwise/finally follow the reference semantics.
//
// A case is a program whose statements call x.mark(n); payload = evPayload(source)
// (source + the tree built by the REAL parser). Compared observable: ordered marker
// trace, final value, error TYPE (no message text, no position).
//
// Generator: (0) corpus = the inputs of the repaired defects, (1) exhaustive
// exit kind x except-clause set x otherwise x finally x context, (2) exit kinds
// inside handler / otherwise / finally, (3) loop and if families, (4) random
// nestings up to depth 4 from a control-flow-only grammar.

import (
	"fmt"
	"os"
	"strings"
	"time"
)

// c04StripPos removes line and column from "ERR <type> <line> <col>".
func c04StripPos(out string) string {
	f := strings.Split(out, " ")
	i := 0
	if len(f) > 0 && f[0] == "V" {
		i = 1
	}
	if len(f) >= i+4 && f[i] == "ERR" {
		return strings.Join(append(append([]string{}, f[:i+2]...), f[i+4:]...), " ")
	}
	return out
}

// ---- fail fast for endless families

const c04Limit = 5 * time.Second
const c04HangFile = "c04-hung-families"

var c04Family string

func c04FamilyHung(kind string) bool {
	b, err := os.ReadFile(c04HangFile)
	if err != nil {
		return false
	}
	// two time-outs in the family: one may be the machine, not the program
	n := 0
	for _, l := range strings.Split(string(b), "\n") {
		if l == kind {
			n++
		}
	}
	return n >= 2
}

// c04Run runs one case; when it exceeds the limit the family is recorded and the goroutine blocks,
// so that the time limit of the harness main loop (one second later) reports HANG and restarts.
func c04Run(payload string) string {
	if payload == "skip" {
		return "SKIP"
	}
	mult := 1
	for i, a := range os.Args {
		if a == "-tmult" && i+1 < len(os.Args) {
			fmt.Sscanf(os.Args[i+1], "%d", &mult)
		}
	}
	type res struct {
		s string
		p interface{}
	}
	ch := make(chan res, 1)
	go func() {
		defer func() {
			if e := recover(); e != nil {
				ch <- res{"", e}
			}
		}()
		ch <- res{evRunFull(payload), nil}
	}()
	select {
	case r := <-ch:
		if r.p != nil {
			panic(r.p)
		}
		return r.s
	case <-time.After(c04Limit * time.Duration(mult)):
		if mult == 1 && c04Family != "" {
			if f, err := os.OpenFile(c04HangFile, os.O_APPEND|os.O_CREATE|os.O_WRONLY, 0644); err == nil {
				f.WriteString(c04Family + "\n")
				f.Close()
			}
		}
		select {} // the harness main loop reports HANG
	}
}

var c04Exits = []struct{ name, code string }{
	{"fallthrough", "x.mark(11)"},
	{"break", "break"},
	{"continue", "continue"},
	{"return", "return 7"},
	{"raiseA", `raise("E1")`},
	{"raiseB", `raise("E2", "det", [1, 2])`},
	{"raiseDefault", "raise()"},
	{"runtime", `z := 1 + "s"`},
	{"raiseBreakText", `raise("End of iteration was reached")`},
	{"raiseContinueText", `raise("End of iteration step - Continue iteration", "dd", 3)`},
	{"raiseNumber", `raise(5)`},
	{"raiseNullDetail", `raise("E1", null)`},
	{"raiseNumberDetail", `raise("E2", 7, {"a": 1})`},
	{"raiseList", `raise([1, 2], "ld")`},
	{"bareReturn", "return"},
}

// except-clause sets; %d is replaced by a marker number, H by the handler's extra statement
var c04Handlers = []struct {
	name    string
	clauses []string // clause heads ("" = bare); a head ending in " e" binds e
}{
	{"none", nil},
	{"bare", []string{""}},
	{"A", []string{`"E1"`}},
	{"A,B", []string{`"E1", "E2"`}},
	{"A as e", []string{`"E1" as e`}},
	{"A,B as e", []string{`"E1", "E2" as e`}},
	{"e", []string{"e"}},
	{"as e", []string{"as e"}},
	{"A|B", []string{`"E1"`, `"E2"`}},
	{"B|bare", []string{`"E2"`, ""}},
	{"bare|A", []string{"", `"E1"`}},
	{"A as e|NaN", []string{`"E1" as e`, `"Operand is not a number"`}},
	{"RT|B as e", []string{`"Runtime error"`, `"E2" as e`}},
	{"B|A|as e", []string{`"E2"`, `"E1"`, "as e"}},
	{"breaktext", []string{`"End of iteration was reached"`}},
	{"continuetext as e|A", []string{`"End of iteration step - Continue iteration" as e`, `"E1"`}},
	{"5|list", []string{`"5"`, `"[1 2]" as e`}},
	{"A ident", []string{`"E1" e`}},
	{"A,B ident|bare", []string{`"E1", "E2" e`, ""}},
	{"B ident|A as e", []string{`"E2" e`, `"E1" as e`}},
}

func c04Try(body string, clauses []string, handlerExtra string, otherwise, finally string) string {
	var sb strings.Builder
	sb.WriteString("try {\nx.mark(10)\n" + body + "\nx.mark(12)\n}")
	for i, h := range clauses {
		sb.WriteString(" except " + h)
		if h != "" {
			sb.WriteString(" ")
		}
		sb.WriteString(fmt.Sprintf("{\nx.mark(%d)\n", 20+i))
		binds := strings.HasSuffix(h, " as e") || h == "e" || h == "as e"
		if binds {
			sb.WriteString("x.mark(e.type)\nx.mark(e.data)\n")
			// the detail text is modelled for raised errors only
			if strings.Contains(body, "raise(") && !strings.Contains(body, `1 + "s"`) {
				sb.WriteString("x.mark(e.detail)\n")
			}
		} else if strings.HasSuffix(h, " e") {
			sb.WriteString("x.mark(e)\n") // `except "T" e`: nothing is bound
		}
		if handlerExtra != "" {
			sb.WriteString(handlerExtra + "\n")
		}
		sb.WriteString(fmt.Sprintf("x.mark(%d)\n}", 25+i))
	}
	if otherwise != "" {
		sb.WriteString(" otherwise {\nx.mark(30)\n" + otherwise + "\nx.mark(31)\n}")
	}
	if finally != "" {
		sb.WriteString(" finally {\nx.mark(40)\n" + finally + "\nx.mark(41)\n}")
	}
	return sb.String()
}

var c04Contexts = []struct{ name, pre, post string }{
	{"top", "x.mark(1)\n", "\nx.mark(98)\n99"},
	{"forin", "for i in [1, 2, 3] {\nx.mark(i)\n", "\nx.mark(50)\n}\nx.mark(98)\n99"},
	{"guardloop", "w := 3\nfor w > 0 {\nw := w - 1\nx.mark(w)\n", "\nx.mark(50)\n}\nx.mark(98)\n99"},
	{"func", "func f() {\nx.mark(2)\n", "\nx.mark(50)\nreturn 5\n}\nx.mark(f())\nx.mark(98)\n99"},
	{"forin-in-guardloop", "w := 2\nfor w > 0 {\nw := w - 1\nfor i in [1, 2] {\nx.mark(w * 10 + i)\n", "\nx.mark(50)\n}\nx.mark(51)\n}\nx.mark(98)\n99"},
	{"guardloop-in-forin", "for i in [1, 2] {\nw := 2\nfor w > 0 {\nw := w - 1\nx.mark(i * 10 + w)\n", "\nx.mark(50)\n}\nx.mark(51)\n}\nx.mark(98)\n99"},
	{"forin-in-forrange", "for k in range(1, 2) {\nfor i in [1, 2] {\nx.mark(k * 10 + i)\n", "\nx.mark(50)\n}\nx.mark(51)\n}\nx.mark(98)\n99"},
	{"forrange-in-func", "func f() {\nfor i in range(1, 2) {\nx.mark(i)\n", "\nx.mark(50)\n}\nx.mark(51)\nreturn 5\n}\nx.mark(f())\nx.mark(98)\n99"},
}

// ---- random control-flow programs (only constructs whose values the model knows)

type c04Rand struct {
	r      *Rand
	mk     int
	loops  int
	inFunc bool
	nfun   int
	cnt    int
}

func (g *c04Rand) mark() string { g.mk++; return fmt.Sprintf("x.mark(%d)", g.mk) }
func (g *c04Rand) pick(xs ...string) string {
	return xs[g.r.Intn(len(xs))]
}
func (g *c04Rand) cond() string {
	return g.pick("true", "false", "v == 1", "v > 1", "v < 2", "1", "null", "0", `"s"`, "v", "not (v == 2)", "v == 2 or v == 3", "[]")
}
func (g *c04Rand) exit() string {
	return g.pick("break", "continue", "return v", "return 7", `raise("E1")`, `raise("E2", "d", 5)`, "raise()", `z := 1 + "s"`, "z := l[3]", `raise("E3")`)
}
func (g *c04Rand) block(d int) string { return "{\n" + g.stmts(d-1) + "\n}" }
func (g *c04Rand) stmts(d int) string {
	n := 1 + g.r.Intn(3)
	p := make([]string, n)
	for i := range p {
		p[i] = g.stmt(d)
	}
	return strings.Join(p, "\n")
}
func (g *c04Rand) stmt(d int) string {
	r := g.r.Intn(100)
	if d <= 0 || r < 30 {
		switch g.r.Intn(8) {
		case 0, 1:
			return g.exit()
		case 2:
			return "v := " + g.pick("1", "2", "3", "v + 1")
		case 3:
			if g.nfun > 0 {
				return "x.mark(f" + fmt.Sprint(1+g.r.Intn(g.nfun)) + "())"
			}
		}
		return g.mark()
	}
	switch {
	case r < 45:
		s := "if " + g.cond() + " " + g.block(d)
		for g.r.Intn(3) == 0 {
			s += " elif " + g.cond() + " " + g.block(d)
		}
		if g.r.Bool() {
			s += " else " + g.block(d)
		}
		return s
	case r < 60:
		h := g.pick("v in range(1, 3)", "v in range(3, 1, -1)", "v in range(2)", "v in range(2, 2)", "v in [1, 2, 3]", "v in []",
			"[k, v] in m", "v in range(0, 5, 2)", "v in range(5, 0, -2)", "v in 7", "[k, v] in [[1, 2], [3, 4]]",
			"[k, v] in [1]", "[k, v] in m2", "v in m", "v in range(3, 1)", "v in range(0, 3, -1)", "v in range(1, 2, 0.5)")
		g.loops++
		s := "for " + h + " " + g.block(d)
		g.loops--
		return s
	case r < 68:
		g.cnt++
		w := fmt.Sprintf("w%d", g.cnt)
		g.loops++
		s := w + " := " + g.pick("3", "2", "1", "0") + "\nfor " + w + " > 0 {\n" + w + " := " + w + " - 1\n" + g.stmts(d-1) + "\n}"
		g.loops--
		return s
	case r < 76:
		if g.inFunc {
			return g.mark()
		}
		// functions are declared at the place of the statement; they only call earlier functions
		old, oldLoops := g.inFunc, g.loops
		g.inFunc, g.loops = true, 0
		saved := g.nfun
		body := g.block(d)
		g.inFunc, g.loops = old, oldLoops
		g.nfun = saved + 1
		return fmt.Sprintf("func f%d() %s", g.nfun, body)
	default:
		s := "try " + g.block(d)
		for i := g.r.Intn(3); i > 0; i-- {
			h := g.pick("", "e ", `"E1" `, `"E1" as e `, `"E1", "E2" `, `"E2" as e `, "as e ", `"Runtime error" `, `"Operand is not a number" as e `, `"E3", "E1" `)
			b := g.block(d)
			if strings.HasSuffix(h, "e ") && g.r.Bool() {
				b = "{\nx.mark(e.type)\n" + b[2:]
			}
			s += " except " + h + b
		}
		if g.r.Intn(5) < 2 {
			s += " otherwise " + g.block(d)
		}
		if g.r.Bool() {
			s += " finally " + g.block(d)
		}
		return s
	}
}
func (g *c04Rand) program(depth int) string {
	g.mk, g.loops, g.inFunc, g.nfun, g.cnt = 0, 0, false, 0, 0
	return "v := 1\nl := [1]\nm := {\"b\": 2, \"a\": 1, \"C\": 3, \"\": 4}\nm2 := {2: 1, 10: 2, \"x\": 3, \"X\": 4}\n" + g.stmts(depth) + "\nv"
}

func init() {
	register("C04", &Prop{
		Timeout: c04Limit + time.Second,
		Setup:   evSetup,
		Gen: func(g *Gen) {
			lz := NewEvLazy(g)
			emit := func(kind, src string) {
				g.Count(kind)
				// fail fast: after a case of a family exceeded its time limit (recorded by c04Run in a file
				// shared by all shards) the rest of that family is not run any more — on a broken tree whole
				// families can be endless; on the tree as it is nothing hangs and nothing is skipped
				if c04FamilyHung(kind) {
					g.Count("skipped after a HANG in the family")
					lz.Emit(func() string { return "skip" })
					return
				}
				lz.Emit(func() string {
					c04Family = kind
					p := evPayload(src)
					// every generated program is meant to parse; a program of a declared may-not-parse family
					// that does not parse is marked so (the model answers NOPARSE only for those)
					if strings.HasSuffix(p, " !") && strings.HasPrefix(kind, "may not parse") {
						p += "expected"
					}
					return p
				})
			}
			// a case with a second READING of the property: the model evaluates both programs, Go may agree
			// with either (result line attribute spec=)
			emit2 := func(kind, src, altSrc string) {
				g.Count(kind)
				if c04FamilyHung(kind) {
					g.Count("skipped after a HANG in the family")
					lz.Emit(func() string { return "skip" })
					return
				}
				lz.Emit(func() string { c04Family = kind; return evPayload(src) + " @@ " + evPayload(altSrc) })
			}
			// a case on which the code as it is deviates from the property in a KNOWN way: the model evaluates the
			// program as it is (result) and the program that says what the property demands (spec=); kf=<id>
			emitKF := func(kind, id, src, specSrc string) {
				g.Count(kind)
				if c04FamilyHung(kind) {
					g.Count("skipped after a HANG in the family")
					lz.Emit(func() string { return "skip" })
					return
				}
				lz.Emit(func() string { c04Family = kind; return evPayload(src) + " @kf:" + id + "@ " + evPayload(specSrc) })
			}
			// (0) corpus: inputs of the repaired defects and directed cases
			for _, s := range []string{
				"a := 3\nfor a > 0 {\na := a - 1\nx.mark(a)\nbreak\n}\nx.mark(9)",                                         // a91b5f8
				"try {\nraise(\"E2\")\n} except \"E1\" {\nx.mark(1)\n}\nx.mark(2)",                                       // 1bedd52
				"for i in [1, 2] {\ntry {\nx.mark(i)\nbreak\n} except {\nx.mark(7)\n}\n}\nx.mark(9)",                      // 8fa8ea9
				"func f() {\ntry {\nreturn 1\n} except {\nx.mark(7)\n}\nreturn 2\n}\nx.mark(f())",                         // 8fa8ea9
				"for i in range(3, 3) {\nx.mark(i)\n}\nx.mark(9)",                                                        // f5fc158
				"try {\nraise()\n} except as e {\nx.mark(e.type)\n}",                                                    // ee44ab4
				"try {\nraise(\"E1\")\n} except as e {\nx.mark(e.type)\nx.mark(e.data)\n}\nx.mark(e)",                  // ee44ab4
				"for i in range(5, 1, -2) {\nx.mark(i)\n}",
				"for i in range(1, 6, 2) {\nx.mark(i)\n}",
				"m := {\"b\": 1, \"a\": 2, 10: 3, 9: 4}\nfor [k, v] in m {\nx.mark(k)\nx.mark(v)\n}",
				"try {\nx.mark(1)\n} finally {\nreturn 5\n}\nx.mark(2)",
				"try {\nraise(\"E1\")\n} except \"E1\" {\nraise(\"E2\")\n} except \"E2\" {\nx.mark(3)\n} finally {\nx.mark(4)\n}",
				"func f() {\nfor i in [1, 2] {\nfor j in [1, 2] {\nx.mark(j)\nif j == 1 {\ncontinue\n}\nreturn 9\n}\n}\n}\nx.mark(f())",
			} {
				emit("corpus", s)
			}
			// (1) exit kind x handler set x otherwise x finally x context
			for _, cx := range c04Contexts {
				for _, ex := range c04Exits {
					for _, h := range c04Handlers {
						for of := 0; of < 4; of++ {
							oth, fin := "", ""
							if of&1 != 0 {
								oth = "x.mark(32)"
							}
							if of&2 != 0 {
								fin = "x.mark(42)"
							}
							emit("exhaustive exit x handlers x otherwise/finally x context",
								cx.pre+c04Try(ex.code, h.clauses, "", oth, fin)+cx.post)
						}
					}
				}
			}
			// (2) an exit inside handler / otherwise / finally
			for _, cx := range c04Contexts {
				for _, inner := range c04Exits[1:] {
					for _, body := range []string{"x.mark(11)", `raise("E1")`, "break", "return 6"} {
						for _, h := range [][]string{{""}, {`"E1" as e`}, {`"E2"`, `"E1"`}} {
							emit("exit inside handler", cx.pre+c04Try(body, h, inner.code, "x.mark(32)", "x.mark(42)")+cx.post)
							emit("exit inside otherwise", cx.pre+c04Try(body, h, "", inner.code, "x.mark(42)")+cx.post)
							emit("exit inside finally", cx.pre+c04Try(body, h, "", "x.mark(32)", inner.code)+cx.post)
						}
					}
				}
			}
			// (3) if and loop families
			// ranges: every sign combination of (to - from, step) incl. fractional steps and equal bounds
			// (a step pointing away from the end gives an empty range); step 0 never ends and is left out
			steps := []string{"", ", 1", ", 2", ", -1", ", -2", ", 3", ", 0.5", ", -0.5", ", 1.5", ", -1.5"}
			// fractional steps that are not exact in binary: the elements are those of repeated float addition
			// (0, 0.1, 0.2, 0.30000000000000004): the end is delivered only if the accumulation hits it
			for _, r := range []string{"range(0, 0.3, 0.1)", "range(0, 1, 0.1)", "range(1, 0, -0.1)", "range(0, 0.6, 0.2)", "range(0.1, 0.5, 0.1)", "range(0, 2, 0.7)"} {
				// the rounding of one particular evaluation order is not part of the property: the elements are
				// marked rounded to three decimals
				emit("range family, inexact fractional step", "for i in "+r+" {\nx.mark((i * 1000 + 0.5) // 1)\n}\nx.mark(99)")
			}
			rangeLoop := func(a, b int, st string) string {
				return fmt.Sprintf("for i in range(%d, %d%s) {\nx.mark(i)\n}", a, b, st)
			}
			for _, a := range []int{-2, 0, 1, 3} {
				for _, b := range []int{-2, 0, 1, 3, 4} {
					for _, st := range steps {
						emit("range family", rangeLoop(a, b, st)+"\nx.mark(99)")
					}
				}
			}
			for _, ab := range [][2]int{{1, 3}, {3, 1}, {2, 2}, {0, -2}, {-2, 0}} {
				for _, st := range steps {
					r := rangeLoop(ab[0], ab[1], st)
					emit("range family in for-in loop", "for k in [7, 8] {\n"+r+"\nx.mark(k)\n}\nx.mark(99)")
					emit("range family in condition loop", "w := 2\nfor w > 0 {\nw := w - 1\n"+r+"\nx.mark(w)\n}\nx.mark(99)")
					emit("range family in function", "func f() {\n"+r+"\nreturn 5\n}\nx.mark(f())\nx.mark(f())")
					emit("range family in range loop and try", "for k in range(1, 2) {\ntry {\n"+r+"\n} finally {\nx.mark(k)\n}\n}\nx.mark(99)")
				}
			}
			conds := []string{"true", "false", "null", "0", "1", `""`, "[]", "1 == 1", "1 > 2"}
			for _, c1 := range conds {
				for _, c2 := range conds {
					emit("if family", fmt.Sprintf("if %s {\nx.mark(1)\n} elif %s {\nx.mark(2)\n} else {\nx.mark(3)\n}\nx.mark(4)", c1, c2))
					emit("if family", fmt.Sprintf("if %s {\nx.mark(1)\n} elif %s {\nx.mark(2)\n}\nx.mark(4)", c1, c2))
				}
			}
			for _, it := range []string{"[1, 2, 3]", "[]", `{"b": 1, "a": 2}`, "{}", "5", "null", `"ab"`, "[[1, 2], [3, 4]]", `{2: "x", 10: "y", 1: "z"}`,
				`{"B": 1, "a": 2, "C": 3}`, `{"a": 1, "ab": 2, "B": 3, "": 4, "Z": 5, "é": 6, "A": 7}`, `{"10": 1, "9": 2, "1": 3, "a1": 4, "A1": 5}`} {
				it = "m\n"[:0] + it
				pre := "m := " + it + "\n"
				it = "m"
				for _, inner := range []string{"x.mark(i)", "x.mark(i)\nbreak", "x.mark(i)\ncontinue\nx.mark(0)", "if i == 2 {\nbreak\n}\nx.mark(i)"} {
					emit("list/map family", pre+"for i in "+it+" {\n"+inner+"\n}\nx.mark(99)")
					emit("list/map family", pre+"for [i, j] in "+it+" {\n"+inner+"\nx.mark(j)\n}\nx.mark(99)")
					emit("nested loop family", pre+"for k in [7, 8] {\nfor i in "+it+" {\n"+inner+"\n}\nx.mark(k)\n}\nx.mark(99)")
				}
			}
			// (3b) re-entrant evaluation: the statement that produced a control signal (return / break /
			// continue / error) is evaluated again — by a recursive call from finally, an except body or
			// the otherwise body — before the signal reaches its destination; distinct values per level
			reenter := func(callee string) []string {
				return []string{
					"if n > 0 {\nx.mark(" + callee + "(n - 1))\n}",
					"if n > 0 {\n" + callee + "(n - 1)\n}",
					"if n > 1 {\nx.mark(" + callee + "(n - 2))\nx.mark(" + callee + "(n - 1))\n}",
				}
			}
			probes := []string{"x.mark([f(0), f(1), f(2)])", "x.mark(f(3))\nx.mark(f(1))", "x.mark([f(2), f(2)])"}
			for _, mutual := range []bool{false, true} {
				callee := "f"
				second := ""
				if mutual {
					callee = "g"
				}
				for _, re := range reenter(callee) {
					bodies := []struct{ name, fn string }{
						{"return through finally", "try {\nx.mark(n)\nreturn n\n} finally {\n" + re + "\n}"},
						{"return through finally", "try {\nreturn n * 10 + 1\n} finally {\nx.mark(n)\n" + re + "\nx.mark(n + 100)\n}\nreturn 77"},
						{"return from except body after re-entry", "try {\nraise(\"E1\", \"d\", n)\n} except \"E1\" as e {\n" + re + "\nx.mark(e.data)\nreturn n + 20\n} finally {\nx.mark(n)\n}"},
						{"return through except re-entry and finally", "try {\nif n > 0 {\nraise(\"E1\")\n}\nreturn n + 30\n} except {\n" + re + "\nreturn n + 40\n} finally {\n" + re + "\n}"},
						{"return from otherwise after re-entry", "try {\nx.mark(n)\n} otherwise {\n" + re + "\nreturn n + 50\n} finally {\nx.mark(n + 200)\n}\nreturn 78"},
						{"error through finally re-entry", "try {\nif n == 0 {\nreturn 5\n}\nraise(\"E2\", \"d\", n)\n} finally {\ntry {\n" + re + "\n} except \"E2\" as e {\nx.mark(e.data)\n}\n}"},
						{"break through finally re-entry", "for i in [1, 2, 3] {\ntry {\nif i == 2 {\nbreak\n}\nx.mark(n * 10 + i)\n} finally {\n" + re + "\n}\n}\nreturn n"},
						{"continue through finally re-entry", "for i in range(1, 3) {\ntry {\nif i == 2 {\ncontinue\n}\nx.mark(n * 10 + i)\n} finally {\n" + re + "\n}\nx.mark(n * 10 + i + 5)\n}\nreturn n"},
						{"break in condition loop through finally re-entry", "w := 3\nfor w > 0 {\nw := w - 1\ntry {\nif w == 1 {\nbreak\n}\nif w == 2 {\ncontinue\n}\nx.mark(n * 10 + w)\n} finally {\n" + re + "\n}\nx.mark(w)\n}\nreturn n + 60"},
						{"return in loop through finally re-entry", "for i in [1, 2, 3] {\ntry {\nif i == n {\nreturn n * 100 + i\n}\n} finally {\n" + re + "\n}\n}\nreturn -1"},
						{"return value is a container built per level", "try {\nreturn [n, n + 1]\n} finally {\n" + re + "\n}"},
					}
					for _, b := range bodies {
						for _, pr := range probes {
							second = ""
							if mutual {
								second = "func g(n) {\n" + strings.ReplaceAll(b.fn, callee+"(", "f(") + "\n}\n"
							}
							emit("re-entrant: "+b.name, "func f(n) {\n"+b.fn+"\n}\n"+second+pr+"\n99")
						}
					}
				}
			}
			// (3c) the type strings of except clauses are EVALUATED string literals: interpolated, raw and
			// single-quoted forms in every handler shape, the raised type built the same way (and crosswise)
			styles := []struct{ name, e1, e2 string }{
				{"interpolated", `"E{{n}}"`, `"E{{n + 1}}"`},
				{"interpolated-single-quoted", `'{{t}}'`, `'{{u}}'`},
				{"raw", `r"E1"`, `r"E2"`},
				{"single-quoted", `'E1'`, `'E2'`},
				{"raw-with-markers", `r"E{{n}}"`, `r"E{{n + 1}}"`},
			}
			restyle := func(txt string, k int) string {
				if k < 0 {
					return txt
				}
				return strings.ReplaceAll(strings.ReplaceAll(txt, `"E1"`, styles[k].e1), `"E2"`, styles[k].e2)
			}
			stylePre := "n := 1\nt := \"E1\"\nu := \"E2\"\n"
			for k := range styles {
				for _, cx := range c04Contexts {
					for _, ex := range c04Exits[4:6] {
						for _, h := range c04Handlers[2:] {
							for _, of := range []int{0, 3} {
								oth, fin := "", ""
								if of != 0 {
									oth, fin = "x.mark(32)", "x.mark(42)"
								}
								emit("except type strings: "+styles[k].name,
									stylePre+restyle(cx.pre+c04Try(ex.code, h.clauses, "", oth, fin)+cx.post, k))
							}
						}
					}
				}
			}
			for kh := -1; kh < len(styles); kh++ {
				for kr := -1; kr < len(styles); kr++ {
					for _, ex := range c04Exits[4:6] {
						for _, h := range []int{2, 3, 5, 8, 13} {
							emit("except type strings: handler style x raise style",
								stylePre+"x.mark(1)\n"+c04Try(restyle(ex.code, kr), strings.Split(restyle(strings.Join(c04Handlers[h].clauses, "\x00"), kh), "\x00"), "", "", "x.mark(42)")+"\nx.mark(98)\n99")
						}
					}
				}
			}
			// (3d) range loops whose bounds / step are variables or expressions the BODY modifies: the range
			// is fixed when the loop starts (the arguments are evaluated again every step, their values unused)
			rangeHeads := []struct{ pre, head string }{
				{"n := 3\n", "range(1, n)"},
				{"n := 3\n", "range(n, 1, -1)"},
				{"n := 3\n", "range(0, n - 1)"},
				{"n := 2\nst := 1\n", "range(0, 6, st)"},
				{"n := 2\nst := 2\n", "range(n, 8, st)"},
				{"l := [5, 6, 7, 8]\nn := 0\n", "range(0, len(l) - 1)"},
				{"l := [5, 6, 7, 8]\nn := 0\n", "range(len(l), 1, -1)"},
				{"l := [5, 6]\nn := 0\n", "range(1, len(l))"},
				{"n := 1\n", "range(x.mark(n), x.mark(n + 2))"},
			}
			rangeBodies := []string{
				"x.mark(i)\nn := 6",
				"x.mark(i)\nn := n + 1",
				"x.mark(i)\nn := 0",
				"x.mark(i)\nst := st + 1\nn := n + 2",
				"x.mark(i)\nl := del(l, 0)",
				"x.mark(i)\nl := add(l, 9)",
				"x.mark(i)\nl := []",
				"x.mark(i)\nn := 6\nif i == 2 {\ncontinue\n}\nx.mark(n)",
				"x.mark(i)\nn := 0\nif i == 2 {\nbreak\n}",
				"x.mark(i)\nfor j in range(1, n) {\nn := n + 1\nx.mark(j)\nif j > 4 {\nbreak\n}\n}",
				"x.mark(i)\ntry {\nn := 6\nraise(\"E1\")\n} except {\nn := n + 1\n} finally {\nl := [1]\n}",
			}
			for _, h := range rangeHeads {
				for _, b := range rangeBodies {
					pre := "st := 1\nl := [5, 6, 7]\n" + h.pre
					loop := "for i in " + h.head + " {\n" + b + "\n}"
					emit("range arguments modified by the body", pre+loop+"\nx.mark([n, st, l])\n99")
					emit("range arguments modified by the body, in for-in loop", pre+"for k in [7, 8] {\n"+loop+"\nx.mark(k)\n}\nx.mark([n, st, l])\n99")
					emit("range arguments modified by the body, in condition loop", pre+"w := 2\nfor w > 0 {\nw := w - 1\n"+loop+"\n}\nx.mark([n, st, l])\n99")
					emit("range arguments modified by the body, in function", pre+"func f() {\n"+strings.ReplaceAll(loop, "n := ", "n := ")+"\nreturn [n, st, l]\n}\nx.mark(f())\nx.mark(f())\n99")
				}
			}
			// (3e) guards that raise: a runtime error or a raise (through a called function) while a guard is
			// evaluated ends the statement with that error — at every position of an if / elif chain, in the
			// guard of a condition loop and in the iterable of a for-in loop; inside / outside try
			badGuards := []struct{ name, expr string }{
				{"wrong-kind arithmetic", "5 > lim - 1"},
				{"unknown function", "nofunc(1)"},
				{"index out of range", "l[7] == 1"},
				{"raise through function", "boom(1)"},
				{"raise through function in comparison", "boom(2) == 2"},
				{"not on a number", "not lim"},
			}
			guardPre := "lim := \"10x\"\nl := [1, 2]\nfunc boom(k) {\nx.mark(k + 60)\nraise(\"E1\", \"d\", k)\n}\n"
			wraps := []struct{ name, pre, post string }{
				{"plain", "", ""},
				{"try bare except", "try {\n", "\n} except {\nx.mark(20)\n} otherwise {\nx.mark(30)\n} finally {\nx.mark(40)\n}"},
				{"try typed except as e", "try {\n", "\n} except \"E1\" as e {\nx.mark(e.type)\nx.mark(e.data)\n} except \"Operand is not a number\" {\nx.mark(21)\n} otherwise {\nx.mark(30)\n}"},
				{"try typed except, no match", "try {\n", "\n} except \"E2\" {\nx.mark(22)\n} finally {\nx.mark(41)\n}"},
				{"try as e", "try {\n", "\n} except as e {\nx.mark(e.type)\n} otherwise {\nx.mark(31)\n}"},
				{"try otherwise finally only", "try {\n", "\n} otherwise {\nx.mark(32)\n} finally {\nx.mark(42)\n}"},
				{"in function with try", "func f() {\ntry {\n", "\n} except {\nx.mark(23)\nreturn 4\n}\nreturn 5\n}\nx.mark(f())"},
				{"in for-in loop with try", "for k in [7, 8] {\ntry {\n", "\n} except \"E1\" {\nx.mark(k)\n} except {\nx.mark(k + 10)\ncontinue\n}\nx.mark(k + 20)\n}"},
			}
			for _, bg := range badGuards {
				stmts := []string{
					"if " + bg.expr + " {\nx.mark(1)\n} elif true {\nx.mark(2)\n} else {\nx.mark(3)\n}",
					"if false {\nx.mark(1)\n} elif " + bg.expr + " {\nx.mark(2)\n} else {\nx.mark(3)\n}",
					"if false {\nx.mark(1)\n} elif 1 == 2 {\nx.mark(2)\n} elif " + bg.expr + " {\nx.mark(3)\n} elif true {\nx.mark(4)\n}",
					"if true {\nx.mark(1)\n} elif " + bg.expr + " {\nx.mark(2)\n}",
					"if " + bg.expr + " {\nx.mark(1)\n}",
					"if x.mark(false) {\nx.mark(1)\n} elif " + bg.expr + " {\nx.mark(2)\n} elif x.mark(true) {\nx.mark(3)\n}",
					"c := 0\nfor " + bg.expr + " {\nc := c + 1\nx.mark(c)\nif c > 2 {\nbreak\n}\n}",
					"c := 0\nfor c < 3 and (c < 1 or " + bg.expr + ") {\nc := c + 1\nx.mark(c)\n}",
					"for i in " + bg.expr + " {\nx.mark(i)\n}",
					"for i in [1, 2] {\nif i == 2 and " + bg.expr + " {\nx.mark(5)\n} else {\nx.mark(i)\n}\n}",
				}
				for _, st := range stmts {
					for _, w := range wraps {
						emit("guard raises: "+bg.name, guardPre+"x.mark(0)\n"+w.pre+st+"\nx.mark(9)"+w.post+"\nx.mark(98)\n99")
					}
				}
			}
			// (3f) break / continue / raise / return raised by a FUNCTION called in a loop guard, an if guard
			// inside a loop, a for-in iterable or a range argument; bare return; return of a failing expression;
			// an iterator used as a value; a list mutated by its own loop; loop-variable validation
			sigPre := "func brk() {\nx.mark(70)\nbreak\n}\nfunc cnt() {\nx.mark(71)\ncontinue\n}\nfunc rai() {\nx.mark(72)\nraise(\"E1\", \"fd\", 8)\n}\nfunc ret() {\nx.mark(73)\nreturn\n}\nfunc val() {\nreturn 2\n}\nc := 0\n"
			for _, fn := range []string{"brk()", "cnt()", "rai()", "ret()", "val()"} {
				progs := []string{
					"for " + fn + " {\nc := c + 1\nx.mark(c)\nif c > 1 {\nbreak\n}\n}",
					"for c < 3 {\nc := c + 1\nif c == 2 and " + fn + " == 2 {\nx.mark(5)\n}\nx.mark(c)\n}",
					"for c < 3 {\nc := c + 1\nx.mark(c)\n" + fn + "\nx.mark(c + 10)\n}",
					"for i in " + fn + " {\nx.mark(i)\n}",
					"for i in range(1, " + fn + ") {\nx.mark(i)\n}",
					"for i in range(" + fn + ") {\nx.mark(i)\n}",
					"for i in [1, 2, 3] {\nx.mark(i)\n" + fn + "\nx.mark(i + 10)\n}",
					"for i in [1, 2] {\nfor j in " + fn + " {\nx.mark(j)\n}\nx.mark(i)\n}",
					"for i in [1, 2] {\nw := 2\nfor w > 0 and " + fn + " == 2 {\nw := w - 1\nx.mark(w)\n}\nx.mark(i)\n}",
				}
				for _, pr := range progs {
					emit("signal through a called function", sigPre+pr+"\nx.mark(98)\n99")
					emit("signal through a called function, in try", sigPre+"try {\n"+pr+"\n} except \"E1\" as e {\nx.mark(e.detail)\nx.mark(e.data)\n} except {\nx.mark(20)\n} otherwise {\nx.mark(30)\n} finally {\nx.mark(40)\n}\nx.mark(98)\n99")
					emit("signal through a called function, in function", sigPre+"func f() {\n"+pr+"\nreturn 6\n}\nx.mark(f())\nx.mark(98)\n99")
				}
			}
			for _, pr := range []string{
				"func f() {\nx.mark(1)\nreturn\nx.mark(2)\n}\nx.mark(f())",
				"func f() {\nfor i in [1, 2] {\ntry {\nreturn\n} finally {\nx.mark(i)\n}\n}\n}\nx.mark(f())",
				"func f() {\nreturn 1 + \"s\"\n}\ntry {\nx.mark(f())\n} except as e {\nx.mark(e.type)\n}",
				"func f() {\nreturn l[9]\n}\nl := [1]\nx.mark(f())",
				"return",
				"try {\nreturn\n} finally {\nx.mark(1)\n}",
				"try {\nq := range(3)\nx.mark(q)\n} except as e {\nx.mark(e.type)\n}",
				"try {\nq := range(3)\n} except \"Function is an iterator\" {\nx.mark(1)\n} otherwise {\nx.mark(2)\n}",
				"for k in [1, 2, 3] {\ntry {\nx.mark(range(5))\n} except {\nx.mark(k)\n}\n}",
				"#ALT l := [1, 2, 3]\nfor i in l {\nx.mark(i)\nl[2] := 9\n}\nx.mark(l)",
				"l := [1, 2, 3]\nfor i in l {\nx.mark(i)\nl := add(l, 4)\n}\nx.mark(l)",
				"l := [1, 2, 3]\nfor i in l {\nx.mark(i)\nl := del(l, 0)\n}\nx.mark(l)",
				"#ALT l := [1, 2, 3]\nfor i in l {\nx.mark(i)\nl[0] := 7\nif i == 2 {\nl := []\n}\n}\nx.mark(l)",
				"m := {\"a\": 1, \"b\": 2}\nfor [k, v] in m {\nx.mark(k)\nx.mark(v)\nm.b := 5\nm.c := 6\n}\nx.mark(m)",
				"l := [1]\nfor a.b in l {\nx.mark(1)\n}",
				"l := [[1, 2]]\nfor [a, b.c] in l {\nx.mark(1)\n}",
				"l := [[1, 2]]\nfor [a, b, c] in l {\nx.mark(1)\n}\nx.mark(2)",
				"try {\nfor [a, b] in [1, 2] {\nx.mark(a)\n}\n} except as e {\nx.mark(e.type)\n}",
				"raise([1, 2])",
				"try {\nraise({\"a\": 1}, 5, 6)\n} except as e {\nx.mark(e.type)\nx.mark(e.detail)\nx.mark(e.data)\n}",
				"func b() {\nbreak\n}\nfor i in [1, 2, 3] {\nx.mark(i)\nb()\nx.mark(5)\n}\nx.mark(9)",
			} {
				if strings.HasPrefix(pr, "#ALT ") {
					// a loop that writes the list it iterates: "once per element" does not say whether the elements
					// are read live or from a copy taken at loop start — both readings are accepted
					pr = pr[5:]
					emit2("directed: loop writes the list it iterates (live or snapshot reading)", pr+"\nx.mark(98)\n99",
						strings.Replace(pr, "for i in l {", "for i in concat(l, []) {", 1)+"\nx.mark(98)\n99")
					continue
				}
				emit("directed control-flow cases", pr+"\nx.mark(98)\n99")
			}
			// (3g) raised type x listed type, as TEXTS: equal, different only by case, prefix / extension of each
			// other, empty, with a format verb, a quote, markers of interpolation (raw), non-ASCII, trailing space
			typeTexts := []string{`"E1"`, `"e1"`, `"E"`, `"E10"`, `""`, `"100%"`, `"%d%s"`, `"é"`, `"E1 "`, `'a"b'`, `r"{{x}}"`, `"E{{1}}"`}
			for _, rt := range typeTexts {
				for _, lt := range typeTexts {
					pre := "x.mark(1)\n"
					emit("raised type text x listed type text", pre+c04Try("raise("+rt+", "+rt+", "+rt+")", []string{lt, "as e"}, "", "", "x.mark(42)")+"\nx.mark(98)\n99")
					emit("raised type text x listed type text", pre+c04Try("raise("+rt+")", []string{lt + " as e", `"zz", ` + lt, ""}, "", "x.mark(32)", "")+"\nx.mark(98)\n99")
					emit("raised type text x listed type text", pre+c04Try("raise("+rt+", \"d%v\")", []string{`"q", ` + lt + ` e`}, "", "", "")+"\nx.mark(98)\n99")
				}
			}
			// (3h) clauses listing three and more types; orders of the clauses
			for _, rt := range []string{"a", "b", "c", "d", "zz"} {
				emit("several listed types", "try {\nraise(\""+rt+"\")\n} except \"a\", \"b\", \"c\" {\nx.mark(1)\n} except \"d\", \"e\", \"f\", \"zz\" as e {\nx.mark(e.type)\n}\nx.mark(98)\n99")
				emit("several listed types", "try {\nraise(\""+rt+"\")\n} except \"x\", \"y\", \"b\", \"c\" e {\nx.mark(2)\n} except \"a\" {\nx.mark(3)\n} otherwise {\nx.mark(4)\n} finally {\nx.mark(5)\n}\nx.mark(98)\n99")
			}
			for _, pr := range []string{
				"try {\nraise(\"c\")\n} except \"a\" \"b\" {\nx.mark(1)\n}",
				"try {\nraise(\"c\")\n} except \"a\", {\nx.mark(1)\n}",
				"try {\nraise(\"c\")\n} except \"a\", \"b\", {\nx.mark(1)\n}",
				"try {\nx.mark(1)\n} finally {\nx.mark(2)\n} otherwise {\nx.mark(3)\n}",
				"try {\nx.mark(1)\n} otherwise {\nx.mark(3)\n} except {\nx.mark(2)\n}",
				"try {\nx.mark(1)\n} finally {\nx.mark(2)\n} except {\nx.mark(3)\n}",
				"try {\nx.mark(1)\n} otherwise {\nx.mark(2)\n} otherwise {\nx.mark(3)\n}",
				"try {\nx.mark(1)\n} finally {\nx.mark(2)\n} finally {\nx.mark(3)\n}",
				"try {\nx.mark(1)\n}",
				"try {\nx.mark(1)\n} except as {\nx.mark(2)\n}",
				"try {\nraise(\"a\")\n} except \"a\" as e f {\nx.mark(2)\n}",
				"if true {\nx.mark(1)\n} else {\nx.mark(2)\n} elif false {\nx.mark(3)\n}",
				"for {\nx.mark(1)\n}",
				"break 1",
			} {
				emit("may not parse: clause orders and malformed clause heads", pr+"\nx.mark(98)\n99")
			}
			// (3i-kf) an iterator returned by a FUNCTION: the loop calls the function again every round, the range
			// starts afresh inside it and the variable is bound to the call's result (nil): the loop never ends by
			// itself (bounded here by a counter). The property wants one round per element of the range.
			for _, rb := range []struct{ decl, call, direct string }{
				{"func r() {\nreturn range(1, 2)\n}\n", "r()", "range(1, 2)"},
				{"func r() {\nrange(1, 2)\n}\n", "r()", "range(1, 2)"},
				{"func r(n) {\nreturn range(n)\n}\n", "r(3)", "range(3)"},
				{"func r(a, b) {\nreturn range(a, b, -1)\n}\n", "r(3, 1)", "range(3, 1, -1)"},
			} {
				loop := func(it string) string {
					return rb.decl + "c := 0\nfor i in " + it + " {\nc := c + 1\nx.mark(i)\nif c > 4 {\nbreak\n}\n}\nx.mark(98)\n99"
				}
				emitKF("known finding: iterator returned by a function", "iterator-returned-by-function", loop(rb.call), loop(rb.direct))
			}
			// (3i) an iterator signal that crosses a call or an operator: the loop variable is bound to the RESULT
			// of the iterable (nil), not to the iterator's current value
			for _, pr := range []string{
				"c := 0\nfor i in range(3) + 1 {\nc := c + 1\nx.mark(i)\nif c > 5 {\nbreak\n}\n}",
				"c := 0\nfor i in not range(1, 2) {\nc := c + 1\nx.mark(i)\nif c > 5 {\nbreak\n}\n}",
				"for [a] in [[1], [2]] {\nx.mark(a)\n}",
				"for [a] in [1, 2] {\nx.mark(a)\n}",
			} {
				emit("iterator signal through a call or operator; one-variable destructuring", pr+"\nx.mark(98)\n99")
			}
			// (4) random nestings
			n := 3000
			if g.Thorough() {
				n = 100000
			}
			rg := &c04Rand{r: g.R}
			for i := 0; i < n; i++ {
				emit("random nesting depth<=4", rg.program(2+g.R.Intn(3)))
			}
			// (5) programs of the shared generator (lists, maps, builtins, interpolation) — only in the
			// ad hoc differential (VERIF_EVAL_BASE=n): they may leave the model (UNSUP)
			if nb := os.Getenv("VERIF_EVAL_BASE"); nb != "" {
				var k int
				fmt.Sscanf(nb, "%d", &k)
				eg := NewEvGen(g.R, EvGenConfig{Depth: 3, Builtins: true, Interp: true, Funcs: true, Loops: true, Try: true, Malformed: 30})
				for i := 0; i < k; i++ {
					emit("shared generator", eg.Program())
				}
			}
		},
		Run: c04Run,
		// harness C04 -tool payload <source-hex>: the payload (tree of the real parser) of one program
		Tool: func(args []string) int {
			if len(args) == 2 && args[0] == "payload" {
				fmt.Println(evPayload(unhx(args[1])))
				return 0
			}
			return 2
		},
	})
}
