package main

// C12 — mutex blocks of one name are mutually exclusive, re-entrant and always released.
//
// A case is a generated ECAL program (one "role" = one function per kind of thread, built
// from nested mutex blocks over the names a,b,c with every kind of exit from inside a block)
// plus a thread configuration and a seed:
//
//	payload: <mode> <threads> <iters> <seed> <role>|<role>…
//	  mode   S = threads are the workers of the ECA processor (sinks, events posted concurrently)
//	         D = threads are goroutines evaluating a call with their own erp.NewThreadID()
//	         M = half and half
//	  role   block*           block = <name>[!]<kind>[^]( block* )
//	         name a|b|c, ! = the body waits at a two-party rendezvous, kind n|e|r|b|c =
//	         normal end | error (raise) | return (from a function) | break | continue,
//	         ^ = the exit of this (last) child leaves the parent block too (same kind).
//	result : occ=<max simultaneous threads inside, per name> cnt=<final counters> done=<k>/<n> meet=<pairs> T=<trace>
//	  trace  e<tid><name>   thread tid is inside a block of that name (called first in the body)
//	         x<tid><kind><levels>  thread tid is about to leave <levels> blocks by that kind
//
// The Go functions x.enter / x.exit / x.yield / x.meet are registered in the stdlib and
// called by the program from inside the blocks; they see the interpreter's thread id.

import (
	"encoding/json"
	"fmt"
	"os"
	"runtime"
	"sort"
	"strconv"
	"strings"
	"sync"
	"sync/atomic"
	"time"

	"github.com/krotik/common/datautil"
	"github.com/krotik/ecal/engine"
	"github.com/krotik/ecal/engine/pool"
	"github.com/krotik/ecal/interpreter"
	"github.com/krotik/ecal/parser"
	"github.com/krotik/ecal/stdlib"
	"github.com/krotik/ecal/util"
	"github.com/krotik/ecal/verifhook"
)

// ---------------------------------------------------------------- program trees

type c12Block struct {
	name  byte // 'a'..'c'
	meet  bool
	kind  byte // n e r b c
	up    bool
	child []*c12Block
}

func (b *c12Block) String() string {
	s := string(b.name)
	if b.meet {
		s += "!"
	}
	s += string(b.kind)
	if b.up {
		s += "^"
	}
	s += "("
	for _, c := range b.child {
		s += c.String()
	}
	return s + ")"
}

func c12ParseBlocks(s string, pos *int) []*c12Block {
	var out []*c12Block
	for *pos < len(s) && s[*pos] != ')' {
		b := &c12Block{name: s[*pos]}
		*pos++
		if s[*pos] == '!' {
			b.meet = true
			*pos++
		}
		b.kind = s[*pos]
		*pos++
		if s[*pos] == '^' {
			b.up = true
			*pos++
		}
		if s[*pos] != '(' {
			panic("bad program text")
		}
		*pos++
		b.child = c12ParseBlocks(s, pos)
		if *pos >= len(s) || s[*pos] != ')' {
			panic("bad program text")
		}
		*pos++
		out = append(out, b)
	}
	return out
}

// c12Render produces the ECAL source of all roles.
type c12Renderer struct {
	funcs []string
	id    int
}

func (r *c12Renderer) block(b *c12Block, lv int, ind string) string {
	r.id++
	id := r.id
	n := string(b.name)
	var sb strings.Builder
	in := ind + "    "
	sb.WriteString(ind + "mutex " + n + " {\n")
	sb.WriteString(in + "x.enter(\"" + n + "\")\n")
	sb.WriteString(in + "tmp := c" + n + "\n")
	sb.WriteString(in + "x.yield()\n")
	sb.WriteString(in + "c" + n + " := tmp + 1\n")
	if b.meet {
		sb.WriteString(in + "x.meet(\"" + n + "\")\n")
	}
	chained := false
	for _, c := range b.child {
		if c.up {
			sb.WriteString(r.block(c, lv+1, in))
			chained = true
		} else {
			sb.WriteString(r.wrapped(c, in))
		}
	}
	if !chained {
		sb.WriteString(in + "x.yield()\n")
		sb.WriteString(fmt.Sprintf("%sx.exit(\"%c\", %d)\n", in, b.kind, lv))
		switch b.kind {
		case 'e':
			sb.WriteString(fmt.Sprintf("%sraise(\"e%d\")\n", in, id))
		case 'E':
			sb.WriteString(in + "raise(\"c12-uncaught\")\n")
		case 'p':
			sb.WriteString(in + "x.panic()\n")
		case 'r':
			sb.WriteString(in + "return 1\n")
		case 'b':
			sb.WriteString(in + "break\n")
		case 'c':
			sb.WriteString(in + "continue\n")
		}
	}
	sb.WriteString(ind + "}\n")
	return sb.String()
}

// wrapped renders a block that is the top of an exit chain together with the construct that
// absorbs its way of leaving.
func (r *c12Renderer) wrapped(b *c12Block, ind string) string {
	r.id++
	id := r.id
	switch b.kind {
	case 'n', 'E', 'p': // E (uncaught error) and p (Go panic) end the whole role execution
		return r.block(b, 1, ind)
	case 'e':
		return ind + "try {\n" + r.block(b, 1, ind+"    ") + ind + "} except {\n" + ind + "    x.yield()\n" + ind + "}\n"
	case 'r':
		r.funcs = append(r.funcs, fmt.Sprintf("func f%d() {\n%s}\n", id, r.block(b, 1, "    ")))
		return fmt.Sprintf("%sf%d()\n", ind, id)
	case 'b':
		return fmt.Sprintf("%sfor i%d in range(1, 3) {\n%s%s}\n", ind, id, r.block(b, 1, ind+"    "), ind)
	case 'c':
		return fmt.Sprintf("%sfor i%d in range(1, 2) {\n%s%s}\n", ind, id, r.block(b, 1, ind+"    "), ind)
	}
	panic("bad kind")
}

// c12Source renders one SOURCE (module) per role: blocks of one name written in different
// sources are blocks of the same name.
func c12Source(roles [][]*c12Block) []string {
	r := &c12Renderer{}
	var srcs []string
	for i, role := range roles {
		r.funcs = nil
		var sb strings.Builder
		sb.WriteString(fmt.Sprintf("func work%d() {\n", i))
		for _, b := range role {
			sb.WriteString(r.wrapped(b, "    "))
		}
		sb.WriteString("    return 0\n}\n")
		src := ""
		if i == 0 {
			src = "ca := 0\ncb := 0\ncc := 0\n"
		}
		src += strings.Join(r.funcs, "") + sb.String()
		src += fmt.Sprintf("sink s%d\n    kindmatch [ \"w%d\" ],\n    {\n        work%d()\n        x.fin()\n    }\n", i, i, i)
		srcs = append(srcs, src)
	}
	return srcs
}

// ---------------------------------------------------------------- generator

func c12GenBlock(r *Rand, depth int, held []bool, maxHeld int) *c12Block {
	// a new name must be greater than every held name (lock order, so that the generated
	// programs cannot deadlock by themselves); a held name may be re-entered at any depth
	var cands []int
	for i := 0; i < 3; i++ {
		if held[i] || i > maxHeld {
			cands = append(cands, i)
		}
	}
	ni := cands[r.Intn(len(cands))]
	if maxHeld >= 0 && r.Intn(3) == 0 { // favour same-name re-entry
		for i := 2; i >= 0; i-- {
			if held[i] {
				ni = i
				break
			}
		}
	}
	b := &c12Block{name: byte('a' + ni), kind: "nerbc"[r.Intn(5)]}
	if depth < 3 {
		h2 := append([]bool{}, held...)
		h2[ni] = true
		m2 := maxHeld
		if ni > m2 {
			m2 = ni
		}
		nc := r.Intn(3)
		if depth == 1 && nc == 0 && r.Bool() {
			nc = 1
		}
		for i := 0; i < nc; i++ {
			c := c12GenBlock(r, depth+1, h2, m2)
			b.child = append(b.child, c)
		}
		if nc > 0 && b.kind != 'n' && r.Bool() {
			last := b.child[nc-1]
			last.up = true
			c12SetChainKind(last, b.kind)
		}
	}
	return b
}

// c12SetChainKind gives a block and the chain of ^-children below it one exit kind.
func c12SetChainKind(b *c12Block, kind byte) {
	b.kind = kind
	if n := len(b.child); n > 0 && b.child[n-1].up {
		if kind == 'n' {
			b.child[n-1].up = false
		} else {
			c12SetChainKind(b.child[n-1], kind)
		}
	}
}

func c12GenRole(r *Rand) []*c12Block {
	var out []*c12Block
	n := 1 + r.Intn(3)
	for i := 0; i < n; i++ {
		out = append(out, c12GenBlock(r, 1, []bool{false, false, false}, -1))
	}
	return out
}

func c12RolesText(roles [][]*c12Block) string {
	var parts []string
	for _, role := range roles {
		s := ""
		for _, b := range role {
			s += b.String()
		}
		parts = append(parts, s)
	}
	return strings.Join(parts, "|")
}

// c12Weight = number of block entries of one run of a role (continue runs its body twice)
func c12Weight(bs []*c12Block, m int) int {
	w := 0
	for _, b := range bs {
		mm := m
		if !b.up && b.kind == 'c' {
			mm *= 2
		}
		w += mm + c12Weight(b.child, mm)
	}
	return w
}

// ---------------------------------------------------------------- execution

type c12Run struct {
	mu      sync.Mutex
	trace   []string
	inside  [3]map[uint64]int // name -> thread -> depth
	maxOcc  [3]int
	stacks  map[uint64][]int
	seed    uint64
	yields  uint64
	meetMu  sync.Mutex
	meetC   *sync.Cond
	waiting int
	gen     int
	pairs   int
	failed  int
	abort   bool
	fin     func()
}

var c12cur *c12Run

type c12Func struct {
	f func(tid, key uint64, args []interface{}) (interface{}, error)
}

func (g *c12Func) Run(instanceID string, vs parser.Scope, is map[string]interface{}, tid uint64, args []interface{}) (interface{}, error) {
	// an occupant is a GOROUTINE, whatever thread id the interpreter was told: two goroutines that
	// evaluate with one id (a generator that repeats ids, a closure that captured somebody else's
	// id, a hard-coded id) are two occupants
	return g.f(tid, c12Goid(), args)
}

// c12Goid returns the id of the calling goroutine (first line of its stack: "goroutine N [").
func c12Goid() uint64 {
	var buf [64]byte
	b := buf[:runtime.Stack(buf[:], false)]
	b = b[len("goroutine "):]
	var id uint64
	for _, c := range b {
		if c < '0' || c > '9' {
			break
		}
		id = id*10 + uint64(c-'0')
	}
	return id
}
func (g *c12Func) DocString() (string, error) { return "C12 harness function", nil }

func c12NameIdx(v interface{}) int { return int(fmt.Sprint(v)[0] - 'a') }

func c12Setup() {
	registerX("c12nop", func(args []interface{}) (interface{}, error) { return nil, nil }) // creates package x
	reg := func(name string, f func(tid, key uint64, args []interface{}) (interface{}, error)) {
		if err := stdlib.AddStdlibFunc("x", name, &c12Func{f}); err != nil {
			panic(err)
		}
	}
	reg("enter", func(tid, key uint64, args []interface{}) (interface{}, error) {
		r := c12cur
		n := c12NameIdx(args[0])
		r.mu.Lock()
		r.trace = append(r.trace, fmt.Sprintf("e%d%c", tid, 'a'+n))
		r.inside[n][key]++
		r.stacks[key] = append(r.stacks[key], n)
		occ := 0
		for _, d := range r.inside[n] {
			if d > 0 {
				occ++
			}
		}
		if occ > r.maxOcc[n] {
			r.maxOcc[n] = occ
		}
		r.mu.Unlock()
		return nil, nil
	})
	reg("exit", func(tid, key uint64, args []interface{}) (interface{}, error) {
		r := c12cur
		kind := fmt.Sprint(args[0])
		lv := int(args[1].(float64))
		r.mu.Lock()
		r.trace = append(r.trace, fmt.Sprintf("x%d%s%d", tid, kind, lv))
		for i := 0; i < lv; i++ {
			st := r.stacks[key]
			if len(st) == 0 {
				break
			}
			n := st[len(st)-1]
			r.stacks[key] = st[:len(st)-1]
			r.inside[n][key]--
		}
		r.mu.Unlock()
		return nil, nil
	})
	reg("panic", func(tid, key uint64, args []interface{}) (interface{}, error) {
		panic("c12-panic")
	})
	reg("fin", func(tid, key uint64, args []interface{}) (interface{}, error) {
		c12cur.fin()
		return nil, nil
	})
	reg("yield", func(tid, key uint64, args []interface{}) (interface{}, error) {
		r := c12cur
		r.mu.Lock()
		r.yields++
		z := (r.seed + r.yields*0x9E3779B97F4A7C15) ^ (tid * 0xBF58476D1CE4E5B9)
		z ^= z >> 29
		r.mu.Unlock()
		switch z % 8 {
		case 0, 1, 2:
			runtime.Gosched()
		case 3:
			time.Sleep(time.Duration(20+z%150) * time.Microsecond)
		case 4:
			for i := 0; i < 3; i++ {
				runtime.Gosched()
			}
		}
		return nil, nil
	})
	// two-party rendezvous: returns when a second thread has arrived (the partner is inside a
	// block of the other name, because blocks of one name admit one thread at a time)
	reg("meet", func(tid, key uint64, args []interface{}) (interface{}, error) {
		r := c12cur
		r.meetMu.Lock()
		defer r.meetMu.Unlock()
		if r.waiting == 0 {
			r.waiting = 1
			g := r.gen
			for r.gen == g && !r.abort {
				r.meetC.Wait()
			}
			if r.gen == g {
				r.failed++
			}
		} else {
			r.waiting = 0
			r.gen++
			r.pairs++
			r.meetC.Broadcast()
		}
		return nil, nil
	})
}

func c12Exec(payload string) string {
	f := strings.Split(payload, " ")
	if len(f) != 5 {
		return "bad-payload"
	}
	// every deadlocked case costs the full time bound: after a few of them (recorded in the
	// working directory of this run) the remaining cases are not executed any more
	if b, err := os.ReadFile("c12.deadlocks"); err == nil && strings.Count(string(b), "\n") >= 3 {
		return "SKIPPED after repeated deadlocks"
	}
	mode := f[0]
	threads, _ := strconv.Atoi(f[1])
	iters, _ := strconv.Atoi(f[2])
	seed, _ := strconv.ParseUint(f[3], 10, 64)
	if mode == "I" {
		return c12Ids(threads, iters, f[4])
	}
	if mode == "C" {
		return c12Cold(threads, iters, seed, f[4])
	}
	var roles [][]*c12Block
	for _, rt := range strings.Split(f[4], "|") {
		pos := 0
		roles = append(roles, c12ParseBlocks(rt, &pos))
	}
	srcs := c12Source(roles)

	run := &c12Run{stacks: map[uint64][]int{}, seed: seed}
	for i := range run.inside {
		run.inside[i] = map[uint64]int{}
	}
	run.meetC = sync.NewCond(&run.meetMu)
	c12cur = run
	// protocol events of mutexRuntime.Eval (instrumentation points of hooks/C12.patch, if the
	// tree has them): recorded into the same trace as the enter/exit calls
	verifhook.SetHandler(func(point string, args ...interface{}) {
		if !strings.HasPrefix(point, "mutex.") || len(args) < 2 {
			return
		}
		tid, _ := args[0].(uint64)
		name := fmt.Sprint(args[1])
		tok := ""
		switch point {
		case "mutex.look":
			tok = fmt.Sprintf("k%d%s%d", tid, name, args[2])
		case "mutex.decide":
			if re, _ := args[2].(bool); re {
				tok = fmt.Sprintf("d%dr", tid)
			} else {
				tok = fmt.Sprintf("d%dl", tid)
			}
		case "mutex.lock":
			tok = fmt.Sprintf("l%d", tid)
		case "mutex.setowner":
			tok = fmt.Sprintf("s%d", tid)
		case "mutex.bodyend":
			tok = fmt.Sprintf("b%d", tid)
		case "mutex.reset":
			tok = fmt.Sprintf("r%d", tid)
		case "mutex.unlock":
			tok = fmt.Sprintf("u%d", tid)
		default:
			return
		}
		run.mu.Lock()
		run.trace = append(run.trace, tok)
		run.mu.Unlock()
	})
	defer verifhook.SetHandler(nil)
	run.fin = func() {} // set below

	nSink, nDirect := 0, 0
	switch mode {
	case "S":
		nSink = threads
	case "D", "G", "J": // G = D with a debugger attached whose lock state is polled all the time
		// J = the threads are debugger clients: each evaluates its role through `inject` while a
		// thread is suspended at a breakpoint (concurrent injections are independent threads)
		nDirect = threads
	default: // M, L
		nSink = threads / 2
		nDirect = threads - nSink
	}
	// pool life-cycles: the processor is started and finished 0..2 (L: 1..3) times before the run,
	// as the CLI does when it reloads; L: the directly evaluating threads got their ids BEFORE
	restarts := int(seed % 3)
	if mode == "L" {
		restarts++
	}

	lg := &memLog{}
	var erp *interpreter.ECALRuntimeProvider
	if c12Bare {
		// cold-start runs create thousands of providers: the same object without the cron thread
		// NewECALRuntimeProvider starts (nothing in the generated programs uses it)
		erp = &interpreter.ECALRuntimeProvider{Name: "c12", ImportLocator: &util.MemoryImportLocator{}, Logger: lg,
			Mutexes: make(map[string]*sync.Mutex), MutexLog: datautil.NewRingBuffer(1024),
			MutexeOwners: make(map[string]uint64), MutexesMutex: &sync.Mutex{}}
	} else {
		erp = interpreter.NewECALRuntimeProvider("c12", nil, lg)
		defer erp.Cron.Stop()
	}
	workers := nSink
	if workers < 1 {
		workers = 1
	}
	erp.Processor = engine.NewProcessor(workers)
	erp.Processor.SetFailOnFirstErrorInTriggerSequence(true)
	vs := newGlobalScope()
	mainTid := erp.NewThreadID()
	for i, src := range srcs {
		ast, err := parser.ParseWithRuntime(fmt.Sprintf("c12r%d.ecal", i), src, erp)
		if err != nil {
			return "parse-error " + hx(err.Error())
		}
		if err = ast.Runtime.Validate(); err != nil {
			return "validate-error " + hx(err.Error())
		}
		if _, err = ast.Runtime.Eval(vs, make(map[string]interface{}), mainTid); err != nil {
			return "eval-error " + hx(err.Error())
		}
	}

	total := 0
	var doneMu sync.Mutex
	doneN := 0
	var errs []string
	var wg sync.WaitGroup
	termN := 0
	terminated := func() { // a role execution ended by an uncaught error or a panic (as the program says)
		doneMu.Lock()
		termN++
		doneMu.Unlock()
	}
	finished := func(e error) {
		doneMu.Lock()
		doneN++
		if e != nil {
			errs = append(errs, e.Error())
		}
		doneMu.Unlock()
	}

	stopPoll := make(chan struct{})
	var pollWg sync.WaitGroup
	if mode == "G" {
		// the debugger gets the owner table from every evaluated node (SetLockingState) and hands
		// it out through LockState(), which `##status`-like commands JSON-encode
		dbg := interpreter.NewECALDebugger(vs)
		erp.Debugger = dbg
		for k := 0; k < 3; k++ {
			pollWg.Add(1)
			go func() {
				defer pollWg.Done()
				for {
					select {
					case <-stopPoll:
						return
					default:
						json.Marshal(dbg.LockState())
						runtime.Gosched()
					}
				}
			}()
		}
	}
	defer func() { close(stopPoll); pollWg.Wait() }()

	var dbgJ util.ECALDebugger
	var parkTid uint64
	parkDone := make(chan struct{})
	if mode == "J" {
		dbgJ = interpreter.NewECALDebugger(vs)
		dbgJ.BreakOnError(false) // (a raise inside a block would suspend its thread — with the lock)
		erp.Debugger = dbgJ
		park, perr := parser.ParseWithRuntime("park", "parked := 1\nparked := 2\n", erp)
		if perr == nil {
			perr = park.Runtime.Validate()
		}
		if perr != nil {
			return "parse-error " + hx(perr.Error())
		}
		dbgJ.SetBreakPoint("park", 2)
		parkTid = erp.NewThreadID()
		go func() {
			defer close(parkDone)
			park.Runtime.Eval(vs, make(map[string]interface{}), parkTid)
		}()
		suspended := false
		for k := 0; k < 5000 && !suspended; k++ {
			if dbgJ.InjectValue(parkTid, "probe", "1") == nil {
				suspended = true
			} else {
				time.Sleep(time.Millisecond)
			}
		}
		if !suspended {
			return "debugger-setup-failed: no thread suspended at the breakpoint"
		}
		defer func() {
			dbgJ.Continue(parkTid, util.Resume)
			<-parkDone
		}()
	}

	var oldIDs []uint64
	if mode == "L" {
		for i := 0; i < nDirect; i++ {
			oldIDs = append(oldIDs, erp.NewThreadID())
		}
	}
	if nSink > 0 {
		for k := 0; k < restarts; k++ {
			erp.Processor.Start()
			erp.Processor.Finish()
		}
	}

	run.fin = func() { finished(nil) }
	// direct evaluation: one goroutine per thread; every goroutine asks for its own thread id,
	// all of them at the same moment (a generator handing out one id twice makes two threads
	// "re-enter" each other's blocks)
	var startGate int32 // spin gate: the goroutines are running when it opens
	var ready sync.WaitGroup
	for i := 0; i < nDirect; i++ {
		role := (nSink + i) % len(roles)
		call, perr := parser.ParseWithRuntime("call", fmt.Sprintf("work%d()", role), erp)
		if perr != nil {
			return "parse-error " + hx(perr.Error())
		}
		if perr = call.Runtime.Validate(); perr != nil {
			return "validate-error " + hx(perr.Error())
		}
		total++
		wg.Add(1)
		ready.Add(1)
		go func(i int) {
			defer wg.Done()
			ready.Done()
			for spin := 0; atomic.LoadInt32(&startGate) == 0; spin++ {
				if spin%1000 == 999 {
					runtime.Gosched()
				}
			}
			var tid uint64
			if oldIDs != nil {
				tid = oldIDs[i]
			} else {
				tid = erp.NewThreadID()
			}
			var e error
			for k := 0; k < iters && e == nil; k++ {
				func() {
					defer func() {
						if r := recover(); r != nil {
							if fmt.Sprint(r) == "c12-panic" {
								terminated()
							} else {
								e = fmt.Errorf("panic: %v", r)
							}
						}
					}()
					if dbgJ != nil {
						e = dbgJ.InjectValue(parkTid, fmt.Sprintf("v%d", i), fmt.Sprintf("work%d()", role))
					} else {
						_, e = call.Runtime.Eval(vs, make(map[string]interface{}), tid)
					}
					if e != nil && strings.Contains(e.Error(), "c12-uncaught") {
						terminated()
						e = nil
					}
				}()
			}
			finished(e)
		}(i)
	}
	ready.Wait()
	atomic.StoreInt32(&startGate, 1)
	// sinks: nSink workers, nSink*iters events posted from several goroutines
	if nSink > 0 {
		erp.Processor.SetRootMonitorErrorObserver(func(rm *engine.RootMonitor) {
			if txt := fmt.Sprint(rm.AllErrors()); strings.Contains(txt, "c12-uncaught") {
				terminated()
				finished(nil) // the sink execution is over
			} else {
				finished(fmt.Errorf("%v", txt))
			}
		})
		erp.Processor.Start()
		nEvents := nSink * iters
		total += nEvents
		posters := 4
		var pw sync.WaitGroup
		for p := 0; p < posters; p++ {
			pw.Add(1)
			go func(p int) {
				defer pw.Done()
				for k := p; k < nEvents; k += posters {
					role := k % len(roles)
					ev := engine.NewEvent(fmt.Sprintf("ev%d", k), []string{fmt.Sprintf("w%d", role)}, nil)
					// (a sink execution counts as done when it reaches x.fin() or ends by its uncaught error)
					if _, e := erp.Processor.AddEvent(ev, erp.Processor.NewRootMonitor(nil, nil)); e != nil {
						finished(e)
					}
				}
			}(p)
		}
		wg.Add(1)
		go func() {
			defer wg.Done()
			pw.Wait()
			erp.Processor.Finish()
		}()
	}

	allDone := make(chan struct{})
	go func() { wg.Wait(); close(allDone) }()
	// deadlock = no progress at all (no new trace event, nothing finished, no rendezvous) for
	// c12Bound; a slow machine makes a case slow but never stops its progress
	deadlock := false
	progress := func() int {
		run.mu.Lock()
		n := len(run.trace)
		run.mu.Unlock()
		doneMu.Lock()
		n += doneN
		doneMu.Unlock()
		run.meetMu.Lock()
		n += run.pairs
		run.meetMu.Unlock()
		return n
	}
	last, lastAt := progress(), time.Now()
	tick := time.NewTicker(100 * time.Millisecond)
	defer tick.Stop()
wait:
	for {
		select {
		case <-allDone:
			break wait
		case <-tick.C:
			if p := progress(); p != last {
				last, lastAt = p, time.Now()
			} else if time.Since(lastAt) > c12Bound {
				deadlock = true
				run.meetMu.Lock()
				run.abort = true
				run.meetC.Broadcast()
				run.meetMu.Unlock()
				break wait
			}
		}
	}

	run.mu.Lock()
	trace := strings.Join(run.trace, ".")
	if trace == "" {
		trace = "-"
	}
	occ := fmt.Sprintf("%d,%d,%d", run.maxOcc[0], run.maxOcc[1], run.maxOcc[2])
	run.mu.Unlock()
	cnt := []string{}
	for _, n := range []string{"ca", "cb", "cc"} {
		v, _, _ := vs.GetValue(n)
		cnt = append(cnt, fmt.Sprint(v))
	}
	doneMu.Lock()
	dn := doneN
	sort.Strings(errs)
	es := strings.Join(errs, ";")
	doneMu.Unlock()
	run.meetMu.Lock()
	pairs := run.pairs
	run.meetMu.Unlock()
	doneMu.Lock()
	tn := termN
	doneMu.Unlock()
	// the real end state: no owner registered, every named mutex free
	endOwn, endLck := -1, -1
	if !deadlock {
		erp.MutexesMutex.Lock()
		endOwn, endLck = 0, 0
		for _, v := range erp.MutexeOwners {
			if v != 0 {
				endOwn++
			}
		}
		for _, m := range erp.Mutexes {
			if m.TryLock() {
				m.Unlock()
			} else {
				endLck++
			}
		}
		erp.MutexesMutex.Unlock()
	}
	res := fmt.Sprintf("occ=%s cnt=%s done=%d/%d meet=%d term=%d end=%d,%d", occ, strings.Join(cnt, ","), dn, total, pairs, tn, endOwn, endLck)
	if es != "" {
		res += " errors=" + hx(es)
	}
	if deadlock {
		// stuck goroutines cannot be stopped: report and let the parent restart the process
		if fh, err := os.OpenFile("c12.deadlocks", os.O_APPEND|os.O_CREATE|os.O_WRONLY, 0644); err == nil && mode != "J" {
			fmt.Fprintln(fh, payload)
			fh.Close()
		}
		if os.Getenv("C12_STACKS") != "" { // diagnostics: goroutine dump of the stuck case
			buf := make([]byte, 1<<20)
			os.WriteFile(os.Getenv("C12_STACKS"), buf[:runtime.Stack(buf, true)], 0644)
		}
		// (the text of a recovered panic is cut to 200 characters: no trace here)
		panic("DEADLOCK " + res)
	}
	return res + " T=" + trace
}

// c12Cold = cold start: `reps` FRESH providers, on each of them `threads` gated threads run their
// role once — every first use of a name (creation of its mutex, first owner entry) happens under
// contention. The runs end quiescent, so their traces are concatenated and replayed as one.
var c12Bare bool

func c12Cold(threads, reps int, seed uint64, roles string) string {
	c12Bare = true
	defer func() { c12Bare = false }()
	var occ, cnt, end [3]int
	doneA, doneB, term := 0, 0, 0
	var traces []string
	for k := 0; k < reps; k++ {
		res := c12Exec(fmt.Sprintf("D %d 1 %d %s", threads, seed+uint64(k), roles))
		sum, tr := res, "-"
		if i := strings.Index(res, " T="); i >= 0 {
			sum, tr = res[:i], res[i+3:]
		}
		var o, c [3]int
		var da, db, mt, tm, e0, e1 int
		if n, _ := fmt.Sscanf(sum, "occ=%d,%d,%d cnt=%d,%d,%d done=%d/%d meet=%d term=%d end=%d,%d",
			&o[0], &o[1], &o[2], &c[0], &c[1], &c[2], &da, &db, &mt, &tm, &e0, &e1); n != 12 || strings.Contains(sum, "errors=") {
			return fmt.Sprintf("provider %d: %s", k, res)
		}
		for i := 0; i < 3; i++ {
			if o[i] > occ[i] {
				occ[i] = o[i]
			}
			cnt[i] += c[i]
		}
		doneA += da
		doneB += db
		term += tm
		end[0] += e0
		end[1] += e1
		if tr != "-" {
			traces = append(traces, tr)
		}
	}
	tr := strings.Join(traces, ".")
	if tr == "" {
		tr = "-"
	}
	return fmt.Sprintf("occ=%d,%d,%d cnt=%d,%d,%d done=%d/%d meet=0 term=%d end=%d,%d T=%s",
		occ[0], occ[1], occ[2], cnt[0], cnt[1], cnt[2], doneA, doneB, term, end[0], end[1], tr)
}

// c12Ids hammers the thread-id generator: g goroutines request per ids each, all starting
// together. variant p = pool.NewThreadID of a bare pool, e = erp.NewThreadID, w = a pool whose
// worker count is raised step by step to g at the same time (the workers take their ids from
// the same generator; afterwards g tasks that wait for each other make every worker report
// its id).  result: ids=<n> dup=<duplicates> zero=<zero ids> wk=<workers seen> wdup=<worker ids
// equal to another worker's or to a requested id>
func c12Ids(g, per int, variant string) string {
	var next func() uint64
	var tp *pool.ThreadPool
	var proc engine.Processor
	var procTask func(tid uint64) // what the processor's rule does in the current phase
	cycles := 0                   // restarts of the pool after the first phase
	var replace func()            // variant x: what happens between the phases
	switch variant[0] {
	case 'e':
		erp := interpreter.NewECALRuntimeProvider("c12", nil, &memLog{})
		defer erp.Cron.Stop()
		next = erp.NewThreadID
	case 'f': // erp + processor life-cycle: Start … Finish, again
		erp := interpreter.NewECALRuntimeProvider("c12", nil, &memLog{})
		defer erp.Cron.Stop()
		erp.Processor = engine.NewProcessor(g)
		proc = erp.Processor
		if err := proc.AddRule(&engine.Rule{Name: "ids", KindMatch: []string{"ids"}, ScopeMatch: []string{},
			Action: func(p engine.Processor, m engine.Monitor, e *engine.Event, tid uint64) error {
				procTask(tid)
				return nil
			}}); err != nil {
			panic(err)
		}
		tp = proc.ThreadPool()
		next = erp.NewThreadID
		cycles, _ = strconv.Atoi(variant[1:])
	case 'x': // ids before and after erp.Processor is REPLACED: unique per pool only (two phases)
		erp := interpreter.NewECALRuntimeProvider("c12", nil, &memLog{})
		defer erp.Cron.Stop()
		next = erp.NewThreadID
		cycles = 1
		replace = func() { erp.Processor = engine.NewProcessor(g) }
	case 'r': // bare pool life-cycle: SetWorkerCount … JoinAll, again
		tp = pool.NewThreadPool()
		next = tp.NewThreadID
		cycles, _ = strconv.Atoi(variant[1:])
	default:
		tp = pool.NewThreadPool()
		next = tp.NewThreadID
	}
	seen := make(map[uint64]int, g*per)
	dup, zero, n, wk, wdup := 0, 0, 0, 0, 0
	_ = procTask
	for phase := 0; phase <= cycles; phase++ {
		if phase > 0 && replace != nil {
			replace()
		}
		got := make([][]uint64, g)
		gate := make(chan struct{})
		var ready, wg sync.WaitGroup
		for i := 0; i < g; i++ {
			ready.Add(1)
			wg.Add(1)
			go func(i int) {
				defer wg.Done()
				ids := make([]uint64, 0, per)
				ready.Done()
				<-gate
				for k := 0; k < per; k++ {
					ids = append(ids, next())
				}
				got[i] = ids
			}(i)
		}
		withWorkers := variant[0] == 'w' || variant[0] == 'r' || variant[0] == 'f'
		if withWorkers {
			wg.Add(1)
			go func() {
				defer wg.Done()
				<-gate
				if proc != nil {
					proc.Start()
					return
				}
				for n := 1; n <= g; n++ {
					tp.SetWorkerCount(n, false)
					runtime.Gosched()
				}
			}()
		}
		ready.Wait()
		close(gate)
		wg.Wait()
		for _, ids := range got {
			for _, id := range ids {
				n++
				if id == 0 {
					zero++
				}
				if seen[id] > 0 {
					dup++
				}
				seen[id]++
			}
		}
		if withWorkers {
			tp.SetWorkerCount(g, true)
			var mu sync.Mutex
			var wids []uint64
			var arrived sync.WaitGroup
			arrived.Add(g)
			release := make(chan struct{})
			task := func(tid uint64) {
				mu.Lock()
				wids = append(wids, tid)
				mu.Unlock()
				arrived.Done()
				<-release
			}
			procTask = task
			for i := 0; i < g; i++ {
				if proc != nil {
					// the processor's queue takes its own kind of task: post an event for the rule
					if _, err := proc.AddEvent(engine.NewEvent("ids", []string{"ids"}, nil), proc.NewRootMonitor(nil, nil)); err != nil {
						panic(err)
					}
				} else {
					tp.AddTask(&c12Task{task})
				}
			}
			ok := make(chan struct{})
			go func() { arrived.Wait(); close(ok) }()
			select {
			case <-ok:
			case <-time.After(60 * time.Second):
			}
			close(release)
			if proc != nil {
				proc.Finish()
			} else {
				tp.JoinAll()
			}
			mu.Lock()
			wk += len(wids)
			for _, id := range wids {
				if id == 0 {
					zero++
				}
				if seen[id] > 0 {
					wdup++
				}
				seen[id]++
			}
			mu.Unlock()
		}
	}
	return fmt.Sprintf("ids=%d dup=%d zero=%d wk=%d wdup=%d", n, dup, zero, wk, wdup)
}

type c12Task struct{ f func(tid uint64) }

func (t *c12Task) Run(tid uint64) error { t.f(tid); return nil }
func (t *c12Task) HandleError(e error)  {}

var c12Bound = 6 * time.Second

func init() {
	register("C12", &Prop{
		Timeout: 120 * time.Second,
		Setup:   c12Setup,
		Run:     c12Exec,
		Tool:    c12Tool,
		Gen: func(g *Gen) {
			emit := func(mode string, threads, iters int, roles string) {
				g.Count("mode " + mode)
				g.Count(fmt.Sprintf("threads %02d", threads))
				g.Emit(fmt.Sprintf("%s %d %d %d %s", mode, threads, iters, g.R.U64()%1000000, roles))
			}
			// the thread-id generator under contention (>= 10^5 ids per case)
			for _, v := range []string{"p", "e", "w"} {
				for _, n := range []int{2, 5, 16} {
					g.Count("mode I")
					g.Count("id-generator " + v)
					g.Emit(fmt.Sprintf("I %d %d 0 %s", n, 100000/n+1, v))
				}
			}
			// … across pool life-cycles: every id ever handed out by one pool is distinct
			for _, v := range []string{"r1", "r3", "f1", "f2", "f3"} {
				for _, n := range []int{2, 7, 16} {
					g.Count("mode I")
					g.Count("id-generator life-cycle " + v[:1])
					g.Emit(fmt.Sprintf("I %d %d 0 %s", n, 30000/n+1, v))
				}
			}
			// ids are unique per POOL: replacing erp.Processor (an exported field) starts a new generator
			g.Count("mode I")
			g.Count("id-generator after the processor was replaced")
			g.Emit("I 4 1000 0 x")
			// a thread whose id was handed out before a restart of the pool sits in the blocks
			// that the sinks on the restarted workers use
			for _, n := range []int{4, 8, 16} {
				emit("L", n, 6, "an()")
				emit("L", n, 4, "an(an())ae()|ar(bn())")
				g.Count("life-cycle exclusion")
			}
			// directed cases first
			for _, mode := range []string{"D", "S", "M"} {
				// every exit kind, one name
				emit(mode, 4, 6, "an()ae()ar()ab()ac()")
				// re-entry, exits through two and three frames
				emit(mode, 4, 4, "an(an(an()))ae(ae^(ae^()))ar(an()ar^())ab(ab^())ac(ac^(ac^()))")
				// three names, ordered nesting
				emit(mode, 8, 3, "an(bn(cn()))|be(ce^())|cr()|ab(bn()bc(cn()))")
				g.Count("directed")
			}
			// rendezvous: a block of name a and a block of name b MUST overlap to finish
			for _, n := range []int{2, 4, 8, 16} {
				emit("D", n, 4, "a!n()|b!n()")
				emit("D", n, 3, "an(a!e())|br(bn(b!n()))")
				emit("D", n, 3, "a!r()|c!n()")
				emit("D", n, 3, "bn(b!b())|cn(c!e())")
				g.Count("rendezvous")
			}
			// … and with sinks: as many events as workers, so all sink executions are alive at once
			// and the order in which the workers take the events does not matter
			for _, n := range []int{2, 4, 8, 16} {
				emit("S", n, 1, "a!n()|b!n()")
				emit("S", n, 1, "a!r()|c!e()")
				emit("S", n, 1, "bn(b!b())|c!n()")
				g.Count("rendezvous in sinks")
			}
			// a debugger is attached and its view of the owner table is read all the time
			for _, n := range []int{16, 16, 16} {
				emit("G", n, 60, "an()bn()|bn(cn())")
				g.Count("debugger lock state polled")
			}
			if g.Thorough() || g.Tier == "amplified" {
				for k := 0; k < 4; k++ {
					emit("G", 16, 150, "an()bn()|bn(cn())")
					g.Count("debugger lock state polled")
				}
			}
			// cold start: every first use of a name under contention, on many fresh providers
			for k := 0; k < 6; k++ {
				emit("C", 16, 300, "an()")
			}
			for k := 0; k < 3; k++ {
				emit("C", 16, 150, "an(bn())|bn(cn())|cn()")
				emit("C", 8, 300, "bn()|bn()")
			}
			g.Count("cold start")
			// debugger clients: concurrent `inject` commands are independent threads and must exclude
			// each other in the blocks of the functions they call (while InjectValue evaluates with
			// the literal thread id 999 — fact literalTids — these cases show the known finding
			// inject-shares-thread-999)
			for _, n := range []int{2, 8, 16} {
				emit("J", n, 6, "an(an())ae()|bn()ar(cn())")
				emit("J", n, 8, "an()")
				g.Count("concurrent debugger injections")
			}
			// an error / a Go panic that ENDS the thread while it holds the lock (nested too)
			for _, mode := range []string{"D", "S", "M", "L"} {
				emit(mode, 8, 6, "an()aE()")
				emit(mode, 16, 4, "an(bn())aE(aE^(bE^()))|bE()")
				g.Count("uncaught error ends the thread")
			}
			emit("D", 8, 6, "an()ap()")
			emit("D", 16, 4, "ap(ap^(bp^()))|bn()bp()|cE()")
			g.Count("panic ends the thread")
			// (only with directly evaluated threads: which queued event a pool worker takes next is
			// not under the harness's control, so a worker pool may legitimately starve one side)
			// lock held by a thread that fails: later entrants must get in
			emit("D", 16, 10, "ae()")
			emit("S", 16, 10, "ae(ae^())")

			n := 250
			if g.Thorough() {
				n = 4000
			} else if g.Tier == "amplified" {
				n = 2000
			}
			for i := 0; i < n; i++ {
				threads := 2 + g.R.Intn(15)
				if i%4 == 0 {
					threads = []int{2, 3, 16}[g.R.Intn(3)]
				}
				nroles := 1 + g.R.Intn(3)
				var roles [][]*c12Block
				w := 0
				for k := 0; k < nroles; k++ {
					role := c12GenRole(g.R)
					roles = append(roles, role)
					if x := c12Weight(role, 1); x > w {
						w = x
					}
				}
				// keep traces around a few thousand events
				iters := 1 + 600/(threads*w)
				if iters > 12 {
					iters = 12
				}
				mode := []string{"S", "D", "M", "L"}[g.R.Intn(4)]
				for _, role := range roles {
					// the last block of a role may end the whole execution: uncaught error, or (threads
					// the harness owns can recover it) a Go panic
					switch last := role[len(role)-1]; {
					case g.R.Intn(5) == 0:
						c12SetChainKind(last, 'E')
					case mode == "D" && g.R.Intn(5) == 0:
						c12SetChainKind(last, 'p')
					}
				}
				emit(mode, threads, iters, c12RolesText(roles))
			}
		},
	})
}
