package main

// C18 fact extractor (go/ast over the tree under test): where the code COPIES a token's position
// into something the user sees. Every site gets a verdict
//
//	0 established  — the expected shape: Line / Pos taken from Lline / Lpos of ONE token, Line printed before Pos
//	1 refuted      — the site exists and does something else with these operands
//	2 unknown      — the site has a shape the extractor does not understand
//
// Sites:
//   - every composite literal of parser.Error and util.RuntimeError (all packages, no test files)
//   - the Sprintf with "(Line:%d Pos:%d)" in (*parser.Error).Error and (*util.RuntimeError).Error
//   - GetTraceString: "(%v:%v)" with Token.Lsource, Token.Lline
//   - the break point key in ecalDebugger.VisitState / SetBreakPoint
//   - errObj["line"] / errObj["pos"] in the try runtime
//
// Output: lean/Ecal/Gen/C18.lean (deterministic; no positions, no local names besides the operands).

import (
	"fmt"
	"go/ast"
	"go/parser"
	"go/token"
	"os"
	"path/filepath"
	"sort"
	"strconv"
	"strings"
)

type c18Site struct {
	kind    int // 1 construct parser.Error, 2 construct util.RuntimeError, 3 text of parser.Error, 4 text of util.RuntimeError,
	// 5 other message text, 6 stack trace entry, 7 break point key in VisitState, 8 break point key elsewhere, 9 except object line, 10 except object pos
	name    string
	verdict int
	detail  string
}

func c18Expr(e ast.Expr) string {
	switch x := e.(type) {
	case *ast.Ident:
		return x.Name
	case *ast.SelectorExpr:
		return c18Expr(x.X) + "." + x.Sel.Name
	case *ast.BasicLit:
		return x.Value
	case *ast.StarExpr:
		return "*" + c18Expr(x.X)
	case *ast.UnaryExpr:
		return x.Op.String() + c18Expr(x.X)
	case *ast.BinaryExpr:
		return c18Expr(x.X) + x.Op.String() + c18Expr(x.Y)
	case *ast.ParenExpr:
		return "(" + c18Expr(x.X) + ")"
	case *ast.CallExpr:
		return c18Expr(x.Fun) + "(…)"
	case *ast.IndexExpr:
		return c18Expr(x.X) + "[" + c18Expr(x.Index) + "]"
	}
	return fmt.Sprintf("%T", e)
}

// c18Operand classifies one operand against the position field it should be:
//
//	ok      a selector ending in the wanted field (base returned)
//	bad     POSITIVELY wrong: the byte offset or PrefixNewlines of a token (".Token.Pos",
//	        ".Token.PrefixNewlines"), or arithmetic on a selector of a position field
//	other   anything else (locals, helper calls, selectors of unrelated types): says nothing
func c18Operand(e, want string) (class string, base string) {
	if strings.ContainsAny(e, "+-*/%") {
		for _, f := range []string{".Lline", ".Lpos", ".Line", ".Pos", ".PrefixNewlines"} {
			if strings.Contains(e, f) {
				return "bad", ""
			}
		}
		return "other", ""
	}
	if strings.HasSuffix(e, ".Token.Pos") || strings.HasSuffix(e, ".Token.PrefixNewlines") || strings.HasSuffix(e, ".PrefixNewlines") {
		return "bad", ""
	}
	if strings.HasSuffix(e, want) && !strings.Contains(e, "(") {
		return "ok", strings.TrimSuffix(e, want)
	}
	return "other", ""
}

// c18Pair judges (lineExpr, posExpr), three-valued: established (0) for "<X>.<L>" with "<X>.<P>" of
// ONE base X (or 0 with 0); refuted (1) only when something is positively wrong — an operand is "bad"
// (see c18Operand) or the two wanted fields of ONE base are swapped; unknown (2) otherwise. Only a
// refuted site breaks the obligation; kinds E / X / B observe the same sites at run time.
func c18Pair(line, pos string, sufL, sufP string) (int, string) {
	d := line + " / " + pos
	if line == "0" && pos == "0" {
		return 0, d
	}
	cl, bl := c18Operand(line, sufL)
	cp, bp := c18Operand(pos, sufP)
	if cl == "bad" || cp == "bad" {
		return 1, d
	}
	if cl == "ok" && cp == "ok" && bl == bp {
		return 0, d
	}
	// swapped on one base
	if sl, b1 := c18Operand(line, sufP); sl == "ok" {
		if sp, b2 := c18Operand(pos, sufL); sp == "ok" && b1 == b2 {
			return 1, d
		}
	}
	return 2, d
}

func c18Extract(out string) int {
	root := repoDir()
	fset := token.NewFileSet()
	var sites []c18Site
	add := func(kind int, name string, v int, detail string) { sites = append(sites, c18Site{kind, name, v, detail}) }
	// field order of the two structs
	fieldIdx := map[string]map[string]int{}
	type fileInfo struct {
		pkg  string
		rel  string
		file *ast.File
	}
	var files []fileInfo
	filepath.Walk(root, func(p string, info os.FileInfo, err error) error {
		if err != nil {
			return nil
		}
		if info.IsDir() {
			if n := info.Name(); n == ".git" || n == "examples" || n == "verifhook" || n == "ecal-support" {
				return filepath.SkipDir
			}
			return nil
		}
		if !strings.HasSuffix(p, ".go") || strings.HasSuffix(p, "_test.go") {
			return nil
		}
		f, perr := parser.ParseFile(fset, p, nil, 0)
		if perr != nil {
			return nil
		}
		rel, _ := filepath.Rel(root, p)
		files = append(files, fileInfo{f.Name.Name, rel, f})
		return nil
	})
	sort.Slice(files, func(i, j int) bool { return files[i].rel < files[j].rel })
	for _, fi := range files {
		for _, d := range fi.file.Decls {
			gd, ok := d.(*ast.GenDecl)
			if !ok {
				continue
			}
			for _, s := range gd.Specs {
				ts, ok := s.(*ast.TypeSpec)
				if !ok {
					continue
				}
				st, ok := ts.Type.(*ast.StructType)
				if !ok {
					continue
				}
				key := fi.pkg + "." + ts.Name.Name
				if key != "parser.Error" && key != "util.RuntimeError" {
					continue
				}
				m := map[string]int{}
				i := 0
				for _, f := range st.Fields.List {
					for _, n := range f.Names {
						m[n.Name] = i
						i++
					}
				}
				fieldIdx[key] = m
			}
		}
	}
	for _, k := range []string{"parser.Error", "util.RuntimeError"} {
		if _, ok := fieldIdx[k]; !ok {
			add(map[string]int{"parser.Error": 1, "util.RuntimeError": 2}[k], "struct "+k, 2, "declaration not found")
		}
	}
	typeKey := func(pkg string, t ast.Expr) string {
		switch x := t.(type) {
		case *ast.Ident:
			return pkg + "." + x.Name
		case *ast.SelectorExpr:
			if id, ok := x.X.(*ast.Ident); ok {
				return id.Name + "." + x.Sel.Name
			}
		}
		return ""
	}
	for _, fi := range files {
		var fn string
		ast.Inspect(fi.file, func(n ast.Node) bool {
			switch x := n.(type) {
			case *ast.FuncDecl:
				fn = x.Name.Name
				if x.Recv != nil && len(x.Recv.List) == 1 {
					fn = strings.TrimPrefix(c18Expr(x.Recv.List[0].Type), "*") + "." + fn
				}
			case *ast.CompositeLit:
				key := typeKey(fi.pkg, x.Type)
				idx, ok := fieldIdx[key]
				if !ok || (key != "parser.Error" && key != "util.RuntimeError") {
					return true
				}
				name := "construct " + key + " in " + fi.pkg + "." + fn
				var line, pos string
				if len(x.Elts) > 0 {
					if _, kv := x.Elts[0].(*ast.KeyValueExpr); kv {
						for _, e := range x.Elts {
							kve := e.(*ast.KeyValueExpr)
							switch c18Expr(kve.Key) {
							case "Line":
								line = c18Expr(kve.Value)
							case "Pos":
								pos = c18Expr(kve.Value)
							}
						}
					} else if len(x.Elts) > idx["Line"] && len(x.Elts) > idx["Pos"] {
						line, pos = c18Expr(x.Elts[idx["Line"]]), c18Expr(x.Elts[idx["Pos"]])
					}
				}
				ck := map[string]int{"parser.Error": 1, "util.RuntimeError": 2}[key]
				if line == "" || pos == "" {
					add(ck, name, 2, "Line / Pos elements not found")
					return true
				}
				sufL, sufP := ".Lline", ".Lpos"
				v, d := c18Pair(line, pos, sufL, sufP)
				add(ck, name, v, d)
			case *ast.CallExpr:
				if c18Expr(x.Fun) != "fmt.Sprintf" || len(x.Args) < 3 {
					return true
				}
				lit, ok := x.Args[0].(*ast.BasicLit)
				if !ok {
					return true
				}
				format, _ := strconv.Unquote(lit.Value)
				a1, a2 := c18Expr(x.Args[len(x.Args)-2]), c18Expr(x.Args[len(x.Args)-1])
				switch {
				case strings.Contains(format, "(Line:%d Pos:%d)"):
					v, d := c18Pair(a1, a2, ".Line", ".Pos")
					if v != 0 {
						if v2, d2 := c18Pair(a1, a2, ".Lline", ".Lpos"); v2 == 0 {
							v, d = v2, d2
						}
					}
					mk := 5
					if fi.pkg == "parser" && fn == "Error.Error" {
						mk = 3
					} else if fi.pkg == "util" && fn == "RuntimeError.Error" {
						mk = 4
					}
					add(mk, "message text in "+fi.pkg+"."+fn, v, d)
				case strings.HasSuffix(format, "(%v:%v)") && fn == "RuntimeError.GetTraceString":
					v, d := c18Pair(a2, a1, ".Token.Lline", ".Token.Lsource")
					add(6, "stack trace entry in "+fi.pkg+"."+fn, v, d)
				case format == "%v:%v" && fi.pkg == "interpreter" && !strings.HasSuffix(a1, ".Token.Lsource"):
					// the key built from what the caller of SetBreakPoint & co. hands in
					v := 2
					if _, ok1 := x.Args[1].(*ast.Ident); ok1 {
						if _, ok2 := x.Args[2].(*ast.Ident); ok2 {
							v = 0
						}
					}
					add(8, "break point key in "+fi.pkg+"."+fn, v, a1+" / "+a2)
				}
			case *ast.AssignStmt:
				if len(x.Lhs) != 1 || len(x.Rhs) != 1 {
					return true
				}
				ie, ok := x.Lhs[0].(*ast.IndexExpr)
				if !ok || c18Expr(ie.X) != "errObj" {
					return true
				}
				k := c18Expr(ie.Index)
				r := c18Expr(x.Rhs[0])
				if k == `"line"` || k == `"pos"` {
					want, other := ".Line", ".Pos"
					if k == `"pos"` {
						want, other = ".Pos", ".Line"
					}
					v := 2
					if cls, _ := c18Operand(r, want); cls == "bad" {
						v = 1
					} else if cls == "ok" {
						v = 0
					} else if c2, _ := c18Operand(r, other); c2 == "ok" {
						v = 1 // the other position field of an error value
					}
					add(map[string]int{`"line"`: 9, `"pos"`: 10}[k], "except object "+k[1:len(k)-1]+" in "+fi.pkg+"."+fn, v, r)
				}
			}
			return true
		})
	}
	// kind 7: the key under which VisitState looks a token up in ed.breakPoints — the value that
	// INDEXES the map, traced to its defining call (Sprintf or a helper)
	for _, fi := range files {
		if fi.pkg != "interpreter" {
			continue
		}
		for _, d := range fi.file.Decls {
			fd, ok := d.(*ast.FuncDecl)
			if !ok || fd.Name.Name != "VisitState" || fd.Body == nil {
				continue
			}
			defs := map[string]*ast.CallExpr{}
			ast.Inspect(fd.Body, func(n ast.Node) bool {
				if as, ok := n.(*ast.AssignStmt); ok && len(as.Lhs) == 1 && len(as.Rhs) == 1 {
					if id, ok := as.Lhs[0].(*ast.Ident); ok {
						if c, ok := as.Rhs[0].(*ast.CallExpr); ok {
							defs[id.Name] = c
						}
					}
				}
				return true
			})
			seen := map[string]bool{}
			ast.Inspect(fd.Body, func(n ast.Node) bool {
				ie, ok := n.(*ast.IndexExpr)
				if !ok || !strings.HasSuffix(c18Expr(ie.X), ".breakPoints") {
					return true
				}
				var call *ast.CallExpr
				switch ix := ie.Index.(type) {
				case *ast.Ident:
					if seen[ix.Name] {
						return true
					}
					seen[ix.Name] = true
					call = defs[ix.Name]
				case *ast.CallExpr:
					call = ix
				}
				name := "break point key in interpreter.ecalDebugger.VisitState"
				if call == nil {
					add(7, name, 2, "key not built by a call in this function")
					return true
				}
				args := call.Args
				if c18Expr(call.Fun) == "fmt.Sprintf" && len(args) >= 1 {
					args = args[1:]
				}
				if len(args) != 2 {
					add(7, name, 2, c18Expr(call.Fun)+" with "+fmt.Sprint(len(args))+" operands")
					return true
				}
				src, line := c18Expr(args[0]), c18Expr(args[1])
				v := 2
				cl, bl := c18Operand(line, ".Token.Lline")
				cs, bs := c18Operand(src, ".Token.Lsource")
				switch {
				case cl == "bad" || strings.HasSuffix(line, ".Token.Lpos"):
					v = 1
				case cl == "ok" && cs == "ok" && bl == bs:
					v = 0
				}
				add(7, name, v, line+" / "+src)
				return true
			})
		}
	}
	// anchors that exist although no site of the expected shape was found in them: unknown (2) rows, so
	// that "the kind is present" does not depend on HOW the text / key is built
	has := func(kind int) bool {
		for _, x := range sites {
			if x.kind == kind {
				return true
			}
		}
		return false
	}
	for _, fi := range files {
		for _, d := range fi.file.Decls {
			fd, ok := d.(*ast.FuncDecl)
			if !ok || fd.Recv == nil || len(fd.Recv.List) != 1 {
				continue
			}
			recv := strings.TrimPrefix(c18Expr(fd.Recv.List[0].Type), "*")
			switch {
			case fi.pkg == "parser" && recv == "Error" && fd.Name.Name == "Error" && !has(3):
				add(3, "message text in parser.Error.Error", 2, "no Sprintf with (Line:%d Pos:%d) in the method itself")
			case fi.pkg == "util" && recv == "RuntimeError" && fd.Name.Name == "Error" && !has(4):
				add(4, "message text in util.RuntimeError.Error", 2, "no Sprintf with (Line:%d Pos:%d) in the method itself")
			case fi.pkg == "util" && recv == "RuntimeError" && fd.Name.Name == "GetTraceString" && !has(6):
				add(6, "stack trace entry in util.RuntimeError.GetTraceString", 2, "no Sprintf ending in (%v:%v) in the method itself")
			case fi.pkg == "interpreter" && recv == "ecalDebugger" && fd.Name.Name == "SetBreakPoint" && !has(8):
				add(8, "break point key in interpreter.ecalDebugger.SetBreakPoint", 2, "key not built by an inline Sprintf")
			}
		}
	}
	if len(files) == 0 {
		fmt.Println("no Go source found under", root)
		return 1
	}
	sort.SliceStable(sites, func(i, j int) bool { return sites[i].name < sites[j].name })
	var sb strings.Builder
	sb.WriteString("/-! GENERATED on every run by `harness C18 -tool extract` (go/ast over the tree under test) — do not edit.\n")
	sb.WriteString("Where the code copies a token's position into something the user sees. Verdicts: 0 established, 1 refuted, 2 unknown shape. -/\n")
	sb.WriteString("namespace Ecal.Gen.C18\n\n")
	sb.WriteString("/-- (kind, verdict, site, the Line-operand / the Pos-operand as written in the source); kinds: 1 construct parser.Error,\n")
	sb.WriteString("    2 construct util.RuntimeError, 3 text of (*parser.Error).Error, 4 text of (*util.RuntimeError).Error, 5 other message text,\n")
	sb.WriteString("    6 stack trace entry, 7 break point key in VisitState, 8 break point key elsewhere, 9 / 10 except object line / pos -/\n")
	sb.WriteString("def sites : List (Nat × Nat × String × String) :=\n  [")
	for i, s := range sites {
		if i > 0 {
			sb.WriteString(",\n   ")
		}
		fmt.Fprintf(&sb, "(%d, %d, %s, %s)", s.kind, s.verdict, strconv.Quote(s.name), strconv.Quote(s.detail))
	}
	sb.WriteString("]\n\nend Ecal.Gen.C18\n")
	if err := os.WriteFile(out, []byte(sb.String()), 0644); err != nil {
		fmt.Println(err)
		return 1
	}
	for _, s := range sites {
		fmt.Printf("%d %s: %s\n", s.verdict, s.name, s.detail)
	}
	return 0
}
